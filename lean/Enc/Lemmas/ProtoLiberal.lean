import Enc.Lemmas.ProtoLiberalMain
import Enc.Lemmas.ProtoLiberalIff
import Enc.Lemmas.ProtoLiberalFindings
/-!
# C12, second half — "every legal re-encoding is decoded by Unmarshal to the same values": index

Stated as agreement of the two decoders, `Model.Proto.unmarshalU` (the Go decoder as coded) and `Spec.Protobuf.decode`
(the liberal reference decoder), on EVERY byte string.  Universe: `tyOK (.struct fs)` (see `ProtoLiberalMain`).

| file                    | content                                                                                   |
|-------------------------|-------------------------------------------------------------------------------------------|
| `ProtoLiberalTok`       | first record of a valid message (`parse_head`, `Pay`), one record in front of the Go loop  |
|                         | for arbitrary tokens (`seg_unknown/_plain/_emb`), `lookupField` = `findField`              |
| `ProtoLiberalScalar`    | `scalar_agree`: one scalar occurrence, every kind and tag, any accepted payload            |
| `ProtoLiberalLoop`      | `base_agree` (merge of embedded messages), `field_agree` (`*T`), `slice_agree` (`[]T`),    |
|                         | `loop_agree`: the Go loop follows `decodeRecs ∘ parse` record by record, same values       |
| `ProtoLiberalMain`      | **`unmarshal_of_decode`**, `unmarshal_decode_canonical`, `unmarshal_reencoding`,           |
|                         | `unmarshal_reject`, `unmarshal_of_decode_ptrmsg_partial`                                   |
| `ProtoLiberalConvTok`   | converse primitives (`vtok_of_decodeVarint`, `skip_pay`, `carve_pay`, `scalar_conv`),      |
|                         | the class `ZeroNum`                                                                        |
| `ProtoLiberalConv`      | `conv_all` (Go loop accepts ⇒ reference accepts with the same values, or `ZeroNum`),       |
|                         | `zeroNum_rej`                                                                              |
| `ProtoLiberalIff`       | **`decode_of_unmarshal`**, `zeroNum_rejected`, **`unmarshal_iff_decode`**, `reject_iff`,   |
|                         | **`disagree_iff`**, `supported_of_tyOK`                                                    |
| `ProtoLiberalFindings`  | L1 field number 0 skipped (`field_zero_accepted/_rejected/_disagree`, all universe types), |
|                         | L2, L3 outside the universe, `#guard`ed concrete bytes                                     |
-/
