import Enc.Lemmas.ProtoMapDefs
/-!
# proto map fields: from the struct tag to the codec tree (`structCodecOf` on the universe `tyOKM`)
-/
set_option linter.unusedSimpArgs false
set_option linter.unusedVariables false
namespace Enc.Lemmas.ProtoMap
open Enc Enc.Model.Proto Enc.Spec.Protobuf Enc.Lemmas.ProtoWire

/-- **bridge** (`fieldsOf_cons_ok` on `tyOKM`): a non-repeated, non-map field -/
theorem fieldsOf_cons_okM (pos : Nat) (name tag : String) (emb : Bool) (t : Ty) (rest : Fields)
    (h : tagAgree pos tag t = true) (ht : tyOKM t = true) (hns : isSlice t = false) (hnm : isMap t = false) :
    fieldsOf pos (.cons name tag emb t rest) =
      .cons (fieldOpt pos tag).number (isEmb t) false (fieldOpt pos tag).zigzag
        (codecFor t (fieldOpt pos tag)) (fieldsOf (pos + 1) rest) := by
  rw [fieldsOf]
  simp only [tagAgree, modelTag, Bool.and_eq_true, decide_eq_true_eq] at h
  obtain ⟨⟨⟨h0, h1⟩, ho⟩, hm⟩ := h
  generalize fieldOpt pos tag = o at *
  generalize (lookupProtobuf tag).bind parseStructTag = st at *
  cases st with
  | none =>
    simp only [Bool.and_eq_true, decide_eq_true_eq, Bool.not_eq_true'] at hm
    obtain ⟨⟨hn, hz⟩, hf⟩ := hm
    have e : pos % 65536 = o.number := by omega
    cases t <;> simp only [tyOKM] at ht <;> try (exact absurd ht (by decide))
    case slice => exact absurd hns (by simp [isSlice])
    case map => exact absurd hnm (by simp [isMap])
    case int k => cases k <;> simp_all [supportedKind, codecFor, fieldCodecOf, isStructBase, embBase, baseTy, codecOf, isEmb, wrapPtrs]
    case ptr t' =>
      cases t' <;> simp only [ptrTarget, Bool.and_eq_true] at ht <;> try (exact absurd ht.1 (by decide))
      case int k =>
        cases k <;> simp only [tyOKM, supportedKind] at ht <;> try (exact absurd ht.2 (by decide))
        all_goals simp_all [codecFor, fieldCodecOf, isStructBase, embBase, baseTy, codecOf, isEmb, wrapPtrs]
      all_goals simp_all [codecFor, fieldCodecOf, isStructBase, embBase, baseTy, codecOf, isEmb, wrapPtrs]
    all_goals simp only [e, hz, hf, fieldCodecOf, isStructBase, embBase, baseTy, codecOf, codecFor, isEmb, Bool.false_or]
  | some s =>
    simp only [Bool.and_eq_true, decide_eq_true_eq, Bool.not_eq_true', beq_iff_eq] at hm
    obtain ⟨⟨⟨⟨hn, hz⟩, hr⟩, hf⟩, hfit⟩ := hm
    have e : (s.number % 65536).toNat = o.number := by omega
    obtain ⟨w, num, rep, zz⟩ := s
    simp only at hn hz hr hf hfit e
    rw [hns] at hr
    simp only [Bool.or_false, Bool.not_eq_true'] at hr
    subst hr hz
    cases t <;> simp only [tyOKM] at ht <;> try (exact absurd ht (by decide))
    case slice => exact absurd hns (by simp [isSlice])
    case map => exact absurd hnm (by simp [isMap])
    case int k =>
      cases k <;> simp only [supportedKind] at ht <;> try (exact absurd ht (by decide))
      all_goals
        cases w <;>
        simp_all [fixedFits, isFixedWire, optOK, codecFor, fieldCodecOf, isStructBase, embBase, baseTy, codecOf, isEmb, wrapPtrs]
    case ptr t' =>
      cases t' <;> simp only [ptrTarget, Bool.and_eq_true] at ht <;> try (exact absurd ht.1 (by decide))
      case int k =>
        cases k <;> simp only [tyOKM, supportedKind] at ht <;> try (exact absurd ht.2 (by decide))
        all_goals
          cases w <;>
          simp_all [fixedFits, isFixedWire, optOK, codecFor, fieldCodecOf, isStructBase, embBase, baseTy, codecOf, isEmb, wrapPtrs]
      all_goals
        cases w <;>
        simp_all [fixedFits, isFixedWire, optOK, codecFor, fieldCodecOf, isStructBase, embBase, baseTy, codecOf, isEmb, wrapPtrs]
    all_goals
      cases w <;>
      simp_all [fixedFits, isFixedWire, optOK, codecFor, fieldCodecOf, isStructBase, embBase, baseTy, codecOf, isEmb, wrapPtrs]

/-- **bridge, repeated fields** (`fieldsOf_cons_slice` on `tyOKM`) -/
theorem fieldsOf_cons_sliceM (pos : Nat) (name tag : String) (emb : Bool) (e : Ty) (rest : Fields)
    (h : tagAgree pos tag (.slice e) = true) (ht : tyOKM (.slice e) = true) :
    fieldsOf pos (.cons name tag emb (.slice e) rest) =
      .cons (fieldOpt pos tag).number (isStructTy e) true false
        (.slice (codecOf e) (fieldOpt pos tag).number (codecOf e).wire (isStructTy e)) (fieldsOf (pos + 1) rest) := by
  rw [fieldsOf]
  simp only [tagAgree, modelTag, Bool.and_eq_true, decide_eq_true_eq] at h
  obtain ⟨⟨⟨h0, h1⟩, ho⟩, hm⟩ := h
  generalize fieldOpt pos tag = o at *
  generalize (lookupProtobuf tag).bind parseStructTag = st at *
  simp only [tyOKM, elemTy, Bool.and_eq_true, Bool.not_eq_true'] at ht
  simp only [optOK, Bool.and_eq_true, Bool.not_eq_true'] at ho
  have hemb : isStructBase e = isStructTy e := by
    cases e <;> simp_all [isStructBase, embBase, baseTy, isStructTy, isPtr, tyOKM]
  have hfc : ∀ n, fieldCodecOf n (.slice e) = (isStructTy e, true, .slice (codecOf e) n (codecOf e).wire (isStructTy e)) := by
    intro n
    cases e <;> simp_all [fieldCodecOf, tyOKM]
    rename_i k; cases k <;> simp_all [fieldCodecOf, supportedKind]
  cases st with
  | none =>
    simp only [Bool.and_eq_true, decide_eq_true_eq, Bool.not_eq_true'] at hm
    obtain ⟨⟨hn, hz⟩, hf⟩ := hm
    have e' : pos % 65536 = o.number := by omega
    simp only [e', hfc, baseTy, Bool.false_or]
  | some s =>
    simp only [Bool.and_eq_true, decide_eq_true_eq, Bool.not_eq_true', beq_iff_eq] at hm
    obtain ⟨⟨⟨⟨hn, hz⟩, hr⟩, hf⟩, hfit⟩ := hm
    have e' : (s.number % 65536).toNat = o.number := by omega
    obtain ⟨w, num, rep, zz⟩ := s
    simp only at hn hz hr hf hfit e'
    subst hz
    rw [ho.1]
    cases w <;> simp_all [isFixedWire, baseTy, hfc, wrapPtrs]

/-- the zigzag flag the model reads from the tag of a map field (irrelevant: the map codec ignores the flags) -/
def mzz (tag : String) : Bool :=
  match modelTag tag with
  | some s => s.zigzag
  | none => false

/-- the synthetic entry message codec of `map[kt]vt` -/
def entryC (kt vt : Ty) : Codec :=
  .struct (.cons 1 (isEmb kt) false false (codecOf kt) (.cons 2 (isEmb vt) false false (codecOf vt) .nil))

/-- the codec of a map field numbered `num` -/
def mapC (num : Nat) (kt vt : Ty) : Codec :=
  .map num (codecOf kt) (codecOf vt) (isEmb kt) (isEmb vt) (entryC kt vt)

/-- key / value position of a map entry: the descriptor `structCodecOf` builds for it -/
theorem fieldCodecOf_part (n : Nat) (t : Ty) (ht : tyOKM t = true) (hns : isSlice t = false) (hnm : isMap t = false) :
    fieldCodecOf n t = (isEmb t, false, codecOf t) := by
  cases t <;> simp only [tyOKM] at ht <;> try (exact absurd ht (by decide))
  case slice => exact absurd hns (by simp [isSlice])
  case map => exact absurd hnm (by simp [isMap])
  case ptr t' =>
    cases t' <;> simp only [ptrTarget, Bool.and_eq_true] at ht <;> try (exact absurd ht.1 (by decide))
    all_goals simp [fieldCodecOf, isStructBase, embBase, baseTy, isEmb]
  all_goals simp [fieldCodecOf, isStructBase, embBase, baseTy, isEmb]

theorem isStructBase_isEmb (t : Ty) (ht : tyOKM t = true) (hns : isSlice t = false) (hnm : isMap t = false) :
    isStructBase t = isEmb t := by
  cases t <;> simp only [tyOKM] at ht <;> try (exact absurd ht (by decide))
  case slice => exact absurd hns (by simp [isSlice])
  case map => exact absurd hnm (by simp [isMap])
  case ptr t' =>
    cases t' <;> simp only [ptrTarget, Bool.and_eq_true] at ht <;> try (exact absurd ht.1 (by decide))
    all_goals simp [isStructBase, embBase, baseTy, isEmb]
  all_goals simp [isStructBase, embBase, baseTy, isEmb]

theorem mapTy_parts {kt vt : Ty} (ht : tyOKM (.map kt vt) = true) :
    keyTy kt = true ∧ isSlice vt = false ∧ isMap vt = false ∧ tyOKM vt = true := by
  simp only [tyOKM, Bool.and_eq_true, Bool.not_eq_true'] at ht
  exact ⟨ht.1.1.1, ht.1.1.2, ht.1.2, ht.2⟩

theorem keyTy_tyOKM (t : Ty) (h : keyTy t = true) : tyOKM t = true := by
  rw [scalar_tyOK t (keyTy_scalar t h)]; exact keyTy_tyOK t h

theorem keyTy_notSlice (t : Ty) (h : keyTy t = true) : isSlice t = false := by
  cases t <;> simp_all [keyTy, isSlice]
theorem keyTy_notMap (t : Ty) (h : keyTy t = true) : isMap t = false := by
  cases t <;> simp_all [keyTy, isMap]
theorem keyTy_notPtr (t : Ty) (h : keyTy t = true) : isPtr t = false := by
  cases t <;> simp_all [keyTy, isPtr]
theorem keyTy_notStruct (t : Ty) (h : keyTy t = true) : isStructTy t = false := by
  cases t <;> simp_all [keyTy, isStructTy]
theorem keyTy_isEmb (t : Ty) (h : keyTy t = true) : isEmb t = false := by
  cases t <;> simp_all [keyTy, isEmb]

/-- **bridge, map fields**: a map-typed field gets the map codec (key codec, value codec, synthetic entry message),
is flagged `embedded` and `repeated`, and carries the field number in the codec -/
theorem fieldsOf_cons_map (pos : Nat) (name tag : String) (emb : Bool) (kt vt : Ty) (rest : Fields)
    (h : tagAgreeMap pos tag = true) (ht : tyOKM (.map kt vt) = true) :
    fieldsOf pos (.cons name tag emb (.map kt vt) rest) =
      .cons (fieldOpt pos tag).number true true (mzz tag) (mapC (fieldOpt pos tag).number kt vt)
        (fieldsOf (pos + 1) rest) := by
  obtain ⟨hk, hvs, hvm, hv⟩ := mapTy_parts ht
  rw [fieldsOf]
  simp only [tagAgreeMap, modelTag, Bool.and_eq_true, decide_eq_true_eq] at h
  obtain ⟨⟨h0, h1⟩, hm⟩ := h
  have hfc : ∀ n, fieldCodecOf n (.map kt vt) = (true, true, mapC n kt vt) := by
    intro n
    simp only [fieldCodecOf, fieldCodecOf_part 1 kt (keyTy_tyOKM kt hk) (keyTy_notSlice kt hk) (keyTy_notMap kt hk),
      fieldCodecOf_part 2 vt hv hvs hvm, mapC, entryC,
      isStructBase_isEmb kt (keyTy_tyOKM kt hk) (keyTy_notSlice kt hk) (keyTy_notMap kt hk),
      isStructBase_isEmb vt hv hvs hvm]
  simp only [mzz, modelTag]
  generalize fieldOpt pos tag = o at *
  generalize (lookupProtobuf tag).bind parseStructTag = st at *
  cases st with
  | none =>
    simp only [decide_eq_true_eq] at hm
    have e : pos % 65536 = o.number := by omega
    simp only [e, hfc, baseTy, Bool.false_or]
  | some s =>
    simp only [decide_eq_true_eq] at hm
    have e : (s.number % 65536).toNat = o.number := by omega
    obtain ⟨w, num, rep, zz⟩ := s
    simp only at hm e
    cases w <;> simp [baseTy, hfc, e]

end Enc.Lemmas.ProtoMap
