import Enc.Lemmas.JsonDecTypedLoops
import Enc.Lemmas.JsonDecTypedInt
/-!
# C02, typed targets, part 7: the containers around their loops, the induction on the fuel, whole documents
-/
namespace Enc.Lemmas.JsonDecTypedAll
open Enc Enc.Model.Json Enc.Model.Json.Typed Enc.Lemmas.JsonDecTyped Enc.Lemmas.JsonDecTypedPlain
open Enc.Lemmas.JsonDecTypedSpecU Enc.Lemmas.JsonDecTypedScalar Enc.Lemmas.JsonDecTypedMain Enc.Lemmas.JsonDecTypedLoops
open Enc.Lemmas.JsonString Enc.Lemmas.JsonGrammar Enc.Lemmas.JsonValue Enc.Lemmas.JsonDecAnyBase Enc.Lemmas.JsonDecAnyAux
open Enc.Lemmas.JsonWs (skipSpaces_eq_ws)
open Enc.Spec.Json (valueS elementsSl elementsAr membersMp membersSt lit ws value elements members number string consumed
  unquoteLit skipS fieldOf valueV)

theorem backing_eq (cur : JV) : cur.sliceBacking = Spec.Json.backingOf cur := by cases cur <;> rfl
theorem elems_eq (cur : JV) : cur.arrayElems = Spec.Json.elemsOf cur := by cases cur <;> rfl
theorem entries_eq (cur : JV) : cur.mapEntries = Spec.Json.entriesOf cur := by cases cur <;> rfl

theorem plains_backing {cur : JV} (h : plain cur = true) : plains cur.sliceBacking = true := by
  cases cur <;> try rfl
  simp only [plain, Bool.and_eq_true] at h
  simp only [JV.sliceBacking, plains_append, h.1, h.2, Bool.and_self]

theorem plains_elems {cur : JV} (h : plain cur = true) : plains cur.arrayElems = true := by
  cases cur <;> try rfl
  exact h

theorem plainMs_entries {cur : JV} (h : plain cur = true) : plainMs cur.mapEntries = true := by
  cases cur <;> try rfl
  exact h

theorem bytesToJVs_eq : (l : Bytes) → bytesToJVs l = Spec.Json.bytesVals l
  | [] => rfl
  | x :: r => by simp only [bytesToJVs, Spec.Json.bytesVals, bytesToJVs_eq r]

theorem plains_bytes : (l : Bytes) → plains (bytesToJVs l) = true
  | [] => rfl
  | x :: r => by simp only [bytesToJVs, plains, plain, plains_bytes r, Bool.and_self]

theorem isU8_iff (e : JT) : e.isU8 = (e == .int .u8) := by
  cases e with
  | int w => cases w <;> rfl
  | _ => rfl

theorem nest_false {dp : Nat} (h : nestOK dp = false) : (budget dp == 0) = true := by
  have := nestOK_iff dp; rw [h] at this
  cases hb : (budget dp == 0)
  · rw [hb] at this; cases this
  · rfl

theorem nest_true {dp : Nat} (h : nestOK dp = true) : (budget dp == 0) = false ∧ dp + 1 ≤ maxD := by
  have := nestOK_iff dp; rw [h] at this
  constructor
  · cases hb : (budget dp == 0)
    · rfl
    · rw [hb] at this; cases this
  · unfold nestOK at h; simpa using h

theorem relE_fail {m : TR JV} {s : Spec.Json.SR JV} (hm : okM m = none) (hs : okS s = none) : RelX m s :=
  ⟨hm.trans hs.symm, fun v r h => by rw [h] at hm; cases hm⟩

theorem relE_ok {v : JV} {r : Bytes} (hp : plain v = true) : RelX (.ok v r) (some (v, false, r)) :=
  ⟨rfl, fun v' r' h => by cases h; exact hp⟩

section
variable (fl : PFlags) (c : TFlags) (F : Nat)

/-! ### slices -/

theorem slice_open {g0 : Nat} (hL : SLOk fl c F g0) (dp f : Nat) (e : JT) (cur : JV) (rest : Bytes) (hdp : dp ≤ maxD)
    (hpp : noPP e = true) (hcur : plain cur = true) (hg : LB rest (sizeT e) ≤ g0) (hf : LB rest (sizeT e) ≤ f)
    (hF : 3 * (rest.length + 1) ≤ F) (hq : QSound fl (0x5b :: rest)) :
    RelX (Typed.decodeSlice fl c F (g0 + 1) dp e cur (0x5b :: rest))
      (valueS c (f + 1) (budget dp) (.slice e) cur (0x5b :: rest)) := by
  rw [Typed.decodeSlice.eq_def, valueS.eq_def]
  simp only [hasPrefix_null_ne 0x5b rest (by decide), Bool.false_eq_true, if_false, bne_self_eq_false,
    show ((0x5b : UInt8) == 110) = false by decide, show ((0x5b : UInt8) == 91) = true by decide, if_true]
  cases rest with
  | nil =>
    refine relE_fail ?_ ?_
    · simp only [List.length_cons, List.length_nil, Nat.zero_add, Nat.lt_add_one, if_true, okM_inputError]
    · simp only [show ws [] = [] from rfl, elementsSl_nil, Option.map_none]; split <;> rfl
  | cons x t =>
    have hlen : ¬ (0x5b :: x :: t).length < 2 := by simp
    simp only [hlen, if_false]
    cases hno : nestOK dp with
    | false =>
      simp only [Bool.not_false, if_true, nest_false hno]
      exact relE_fail rfl rfl
    | true =>
      obtain ⟨hb0, hdp1⟩ := nest_true hno
      simp only [Bool.not_true, Bool.false_eq_true, if_false, hb0]
      have IH := hL (dp + 1) f e (0x5b :: x :: t) cur.sliceBacking (x :: t) 0 hdp1 hpp (plains_backing hcur) hg hf
        (by simp only [List.length_cons] at hF ⊢; omega) hq.tail
      rw [← budget_succ, backing_eq] at IH
      simp only [show ((0 : Nat) == 0) = true from rfl] at IH
      obtain ⟨h1, hp⟩ := IH
      cases hl : Typed.sliceLoop fl c F g0 (dp + 1) e (0x5b :: x :: t) (Spec.Json.backingOf cur) (x :: t) 0 with
      | ok p r =>
        obtain ⟨vs, st⟩ := p
        rw [hl] at h1
        have hS := okS_some h1.symm
        have hpp2 := hp _ _ hl
        simp only [PP, Bool.and_eq_true] at hpp2
        rw [backing_eq, hl, hS]
        cases vs with
        | nil => exact relE_ok rfl
        | cons v vs' => exact relE_ok (by simp only [plain, hpp2.1, hpp2.2, Bool.and_self])
      | syn =>
        rw [hl] at h1
        rw [backing_eq, hl]
        refine relE_fail rfl ?_
        rcases okS_none_cases h1.symm with h | ⟨v, r, h⟩ <;> rw [h]
        · rfl
        · obtain ⟨vs, st⟩ := v; cases vs <;> rfl
      | ty r0 =>
        rw [hl] at h1
        rw [backing_eq, hl]
        refine relE_fail rfl ?_
        rcases okS_none_cases h1.symm with h | ⟨v, r, h⟩ <;> rw [h]
        · rfl
        · obtain ⟨vs, st⟩ := v; cases vs <;> rfl
      | oth r0 =>
        rw [hl] at h1
        rw [backing_eq, hl]
        refine relE_fail rfl ?_
        rcases okS_none_cases h1.symm with h | ⟨v, r, h⟩ <;> rw [h]
        · rfl
        · obtain ⟨vs, st⟩ := v; cases vs <;> rfl

theorem hasPrefix_split {b l : Bytes} (h : hasPrefix b l = true) : ∃ t, b = l ++ t := by
  have : l <+: b := List.isPrefixOf_iff_prefix.mp h
  obtain ⟨t, ht⟩ := this
  exact ⟨t, ht.symm⟩

theorem isU8_eq {e : JT} (h : e.isU8 = true) : e = .int .u8 := by
  cases e with
  | int w => cases w <;> first | rfl | cases h
  | _ => cases h

theorem lit_null_app (t : Bytes) : lit Spec.Json.nullLit (nullLit ++ t) = some t := by
  simp [lit, Spec.Json.nullLit, nullLit]

/-- first bytes that cannot start a value stored into a slice -/
theorem valueS_slice_other (f d : Nat) (e : JT) (cur : JV) (c0 : UInt8) (r : Bytes) (h1 : c0 ≠ 0x6e) (h2 : c0 ≠ 0x5b)
    (h4 : c0 ≠ 0x22) : okS (valueS c (f + 1) d (.slice e) cur (c0 :: r)) = none := by
  have e1 : (c0 == 110) = false := by simpa using h1
  have e2 : (c0 == 91) = false := by simpa using h2
  have e4 : (c0 == 34) = false := by simpa using h4
  rw [valueS.eq_def]
  simp only [e1, e2, e4, Bool.false_eq_true, if_false]
  repeat' (first | rw [okS_skipS] | rw [okS_map_bad] | rfl | split)

theorem slice_step {G : Nat} (hSL : ∀ g', g' < G → SLOk fl c F g') (dp f : Nat) (e : JT) (cur : JV) (b : Bytes)
    (hdp : dp ≤ maxD) (hpp : noPP e = true) (hcur : plain cur = true) (hg : NB b (.slice e) ≤ G)
    (hf : NB b (.slice e) ≤ f + 1) (hF : 3 * b.length ≤ F) (hq : QSound fl b) :
    RelX (decodeInto fl c F G dp (.slice e) cur b) (valueS c (f + 1) (budget dp) (.slice e) cur b) := by
  unfold NB at hg hf
  simp only [sizeT] at hg hf
  obtain ⟨g, rfl⟩ : ∃ g, G = g + 3 := ⟨G - 3, by omega⟩
  by_cases hn : hasPrefix b nullLit = true
  · obtain ⟨t, rfl⟩ := hasPrefix_split hn
    rw [model_null_slice fl c F (g + 1) dp e cur t]
    have hs : valueS c (f + 1) (budget dp) (.slice e) cur (nullLit ++ t) = some (.slice true .nil .nil, false, t) := by
      rw [valueS.eq_def]
      simp only [nullLit, List.cons_append, List.nil_append]
      simp only [show ((0x6e : UInt8) == 110) = true by decide, if_true]
      have hl' : lit Spec.Json.nullLit (0x6e :: 0x75 :: 0x6c :: 0x6c :: t) = some t := lit_null_app t
      rw [hl']; rfl
    rw [hs]
    exact relE_ok rfl
  · have hn' : hasPrefix b nullLit = false := by simpa using hn
    cases b with
    | nil =>
      refine relE_fail ?_ (by rw [valueS.eq_def]; rfl)
      rw [decodeInto]
      by_cases hu : e.isU8 = true
      · simp only [hu, if_true]; rw [decodeBytes.eq_def]
        simp only [hn', Bool.false_eq_true, if_false, List.length_nil, Nat.zero_lt_succ, if_true, okM_inputError]
      · simp only [hu, Bool.false_eq_true, if_false]; rw [Typed.decodeSlice.eq_def]
        simp only [hn', Bool.false_eq_true, if_false, List.length_nil, Nat.zero_lt_succ, if_true, okM_inputError]
    | cons c0 rest =>
      simp only [List.length_cons] at hg hf hF
      by_cases h2 : c0 = 0x5b
      · subst h2
        by_cases hu : e.isU8 = true
        · have he := isU8_eq hu
          subst he
          have hm : decodeInto fl c F (g + 3) dp (.slice (.int .u8)) cur (0x5b :: rest) =
              Typed.decodeSlice fl c F (g + 1) dp (.int .u8) cur (0x5b :: rest) := by
            rw [decodeInto]; simp only [JT.isU8, if_true]; rw [decodeBytes.eq_def]
            simp only [hn', Bool.false_eq_true, if_false]
            by_cases hl : (0x5b :: rest).length < 2
            · simp only [hl, if_true]
              rw [Typed.decodeSlice.eq_def]; simp only [hn', Bool.false_eq_true, if_false, hl, if_true]
            · simp only [hl, if_false, show ((0x5b : UInt8) != 0x22) = true by decide, if_true, beq_self_eq_true]
          rw [hm]
          exact slice_open fl c F (hSL g (by omega)) dp f (.int .u8) cur rest hdp hpp hcur (by unfold LB; omega)
            (by unfold LB; omega) (by omega) hq
        · have hm : decodeInto fl c F (g + 3) dp (.slice e) cur (0x5b :: rest) =
              Typed.decodeSlice fl c F (g + 2) dp e cur (0x5b :: rest) := by
            rw [decodeInto]; simp only [hu, Bool.false_eq_true, if_false]
          rw [hm]
          exact slice_open fl c F (hSL (g + 1) (by omega)) dp f e cur rest hdp hpp hcur (by unfold LB; omega)
            (by unfold LB; omega) (by omega) hq
      · have e2 : (c0 != 0x5b) = true := by simpa using h2
        have e2' : (c0 == 0x5b) = false := by simpa using h2
        by_cases h4 : c0 = 0x22
        · subst h4
          have hqs := parseStringUnquote_spec fl (0x22 :: rest) hq
          rw [valueS.eq_def]
          simp only [show ((0x22 : UInt8) == 110) = false by decide, show ((0x22 : UInt8) == 91) = false by decide,
            show ((0x22 : UInt8) == 123) = false by decide, show ((0x22 : UInt8) == 34) = true by decide,
            Bool.false_eq_true, if_false, if_true]
          rw [decodeInto]
          cases rest with
          | nil =>
            have hs : string [0x22] = none := by decide
            rw [hs]
            refine relE_fail ?_ rfl
            by_cases hu : e.isU8 = true
            · simp only [hu, if_true]; rw [decodeBytes.eq_def]
              simp only [hn', Bool.false_eq_true, if_false, List.length_cons, List.length_nil, Nat.zero_add, Nat.lt_add_one,
                if_true, okM_inputError]
            · simp only [hu, Bool.false_eq_true, if_false]; rw [Typed.decodeSlice.eq_def]
              simp only [hn', Bool.false_eq_true, if_false, List.length_cons, List.length_nil, Nat.zero_add, Nat.lt_add_one,
                if_true, okM_inputError]
          | cons x t =>
            have hlen : ¬ (0x22 :: x :: t).length < 2 := by simp
            by_cases hu : e.isU8 = true
            · have he := isU8_eq hu
              subst he
              simp only [JT.isU8, if_true]; rw [decodeBytes.eq_def]
              simp only [hn', Bool.false_eq_true, if_false, hlen, bne_self_eq_false, hqs,
                show ((JT.int ITy.u8 == JT.int ITy.u8) = true) from by decide, if_true]
              cases hs : string (0x22 :: x :: t) with
              | none => exact relE_fail (okM_inputError _ _ _ _) rfl
              | some r' =>
                simp only [Option.map_some]
                cases hb : Spec.Json.b64DecodeStd (unquoteLit (consumed (0x22 :: x :: t) r')) with
                | none => exact relE_fail rfl rfl
                | some dst =>
                  simp only [bytesToJVs_eq]
                  exact relE_ok (by simp only [plain, ← bytesToJVs_eq, plains_bytes, plains, Bool.and_self])
            · simp only [hu, Bool.false_eq_true, if_false]; rw [Typed.decodeSlice.eq_def]
              have hu' : (e == JT.int ITy.u8) = false := by rw [← isU8_iff]; simpa using hu
              simp only [hn', Bool.false_eq_true, if_false, hlen, show ((0x22 : UInt8) != 0x5b) = true by decide, if_true,
                hu, hu']
              refine relE_fail (okM_inputError _ _ _ _) ?_
              cases string (0x22 :: x :: t) <;> rfl
        · have e4 : (c0 != 0x22) = true := by simpa using h4
          have h1 : c0 ≠ 0x6e ∨ c0 = 0x6e := by by_cases h : c0 = 0x6e <;> simp [h]
          have hsp : okS (valueS c (f + 1) (budget dp) (.slice e) cur (c0 :: rest)) = none := by
            by_cases h1 : c0 = 0x6e
            · subst h1
              rw [valueS.eq_def]
              simp only [show ((0x6e : UInt8) == 110) = true by decide, if_true]
              have hl : lit Spec.Json.nullLit (0x6e :: rest) = none := by
                show (if hasPrefix (0x6e :: rest) nullLit = true then _ else none) = none
                rw [hn']; rfl
              rw [hl]; rfl
            · exact valueS_slice_other c f _ e cur c0 rest h1 h2 h4
          refine relE_fail ?_ hsp
          rw [decodeInto]
          by_cases hu : e.isU8 = true
          · simp only [hu, if_true]; rw [decodeBytes.eq_def]
            simp only [hn', Bool.false_eq_true, if_false, e4, if_true, e2']
            split <;> exact okM_inputError _ _ _ _
          · simp only [hu, Bool.false_eq_true, if_false]; rw [Typed.decodeSlice.eq_def]
            simp only [hn', Bool.false_eq_true, if_false, e2, if_true, hu]
            split <;> exact okM_inputError _ _ _ _

/-! ### arrays -/

theorem valueS_array_other (f d n : Nat) (e : JT) (cur : JV) (c0 : UInt8) (r : Bytes) (h1 : c0 ≠ 0x6e) (h2 : c0 ≠ 0x5b) :
    okS (valueS c (f + 1) d (.array n e) cur (c0 :: r)) = none := by
  have e1 : (c0 == 110) = false := by simpa using h1
  have e2 : (c0 == 91) = false := by simpa using h2
  rw [valueS.eq_def]
  simp only [e1, e2, Bool.false_eq_true, if_false]
  repeat' (first | rw [okS_skipS] | rw [okS_map_bad] | rfl | split)

theorem lit_null_none {b : Bytes} (hn : hasPrefix b nullLit = false) : lit Spec.Json.nullLit b = none := by
  show (if hasPrefix b nullLit = true then _ else none) = none
  rw [hn]; rfl

theorem arStep_nil (f d : Nat) (e : JT) (sl : JVs) : arStep c f d e sl [] = none := by
  unfold arStep
  simp only [isClose, Bool.false_eq_true, if_false]
  cases sl with
  | nil => simp only [value_nil, Option.bind_none]
  | cons slot rest =>
    cases hv : valueS c f d e slot [] with
    | none => simp only [hv, Option.bind_none]
    | some x => have := valueS_proj c hv; rw [value_nil] at this; cases this

theorem wrap {α : Type} {P : α → Bool} (k : α → JV) (hk : ∀ x, P x = true → plain (k x) = true) {L : TR α}
    {S : Spec.Json.SR α} (h : RelL P L S) {X : TR JV} (hX : X = mapOk k L) :
    RelX X (S.map fun x => (k x.1, x.2)) := by
  subst hX
  obtain ⟨h1, hp⟩ := h
  cases L with
  | ok vs r =>
    rw [okS_some h1.symm]
    exact relE_ok (hk _ (hp vs r rfl))
  | syn => exact relE_fail rfl (by rcases okS_none_cases h1.symm with h | ⟨v, r, h⟩ <;> rw [h] <;> rfl)
  | ty r0 => exact relE_fail rfl (by rcases okS_none_cases h1.symm with h | ⟨v, r, h⟩ <;> rw [h] <;> rfl)
  | oth r0 => exact relE_fail rfl (by rcases okS_none_cases h1.symm with h | ⟨v, r, h⟩ <;> rw [h] <;> rfl)

theorem array_step {G : Nat} (hAL : ∀ g', g' < G → ALOk fl c F g') (dp f n : Nat) (e : JT) (cur : JV) (b : Bytes)
    (hdp : dp ≤ maxD) (hpp : noPP e = true) (hcur : plain cur = true) (hg : NB b (.array n e) ≤ G)
    (hf : NB b (.array n e) ≤ f + 1) (hF : 3 * b.length ≤ F) (hq : QSound fl b) :
    RelX (decodeInto fl c F G dp (.array n e) cur b) (valueS c (f + 1) (budget dp) (.array n e) cur b) := by
  unfold NB at hg hf
  simp only [sizeT] at hg hf
  obtain ⟨g, rfl⟩ : ∃ g, G = g + 2 := ⟨G - 2, by omega⟩
  by_cases hn : hasPrefix b nullLit = true
  · obtain ⟨t, rfl⟩ := hasPrefix_split hn
    rw [model_null_noop fl c F g dp _ cur t rfl, spec_null_noop c f _ _ cur t rfl]
    exact relE_ok hcur
  · have hn' : hasPrefix b nullLit = false := by simpa using hn
    rw [decodeInto, decodeArray.eq_def]
    simp only [hn', Bool.false_eq_true, if_false]
    cases b with
    | nil => exact relE_fail (by simp [okM_inputError]) (by rw [valueS.eq_def]; rfl)
    | cons c0 rest =>
      simp only [List.length_cons] at hg hf hF
      by_cases h2 : c0 = 0x5b
      · subst h2
        rw [valueS.eq_def]
        simp only [show ((0x5b : UInt8) == 110) = false by decide, show ((0x5b : UInt8) == 91) = true by decide,
          Bool.false_eq_true, if_false, if_true, bne_self_eq_false]
        cases rest with
        | nil =>
          refine relE_fail ?_ ?_
          · simp only [List.length_cons, List.length_nil, Nat.zero_add, Nat.lt_add_one, if_true, okM_inputError]
          · simp only [show ws [] = [] from rfl, elementsAr_nil, Option.map_none]; split <;> rfl
        | cons x t =>
          have hlen : ¬ (0x5b :: x :: t).length < 2 := by simp
          simp only [hlen, if_false]
          cases hno : nestOK dp with
          | false =>
            simp only [Bool.not_false, if_true, nest_false hno]
            exact relE_fail rfl rfl
          | true =>
            obtain ⟨hb0, hdp1⟩ := nest_true hno
            simp only [Bool.not_true, Bool.false_eq_true, if_false, hb0, skipSpaces_eq_ws, elems_eq]
            obtain ⟨f'', rfl⟩ : ∃ f'', f = f'' + 2 := ⟨f - 2, by omega⟩
            have hwl := (ws_suffix (x :: t)).length_le
            simp only [List.length_cons] at hwl hg hf hF
            have hs1 : ws (x :: t) <:+ (0x5b :: x :: t) := (ws_suffix (x :: t)).trans (List.suffix_cons _ _)
            have IH := hAL g (by omega) (dp + 1) (f'' + 1) e (0x5b :: x :: t) (Spec.Json.elemsOf cur) (ws (x :: t)) hdp1 hpp
              (by rw [← elems_eq]; exact plains_elems hcur) (by unfold LB; omega)
              (by unfold LB; omega) (by omega) (hq.suffix hs1)
            rw [← budget_succ] at IH
            cases hw : ws (x :: t) with
            | nil =>
              rw [elementsAr_nil]
              rw [hw, arStep_nil] at IH
              refine relE_fail ?_ rfl
              have := IH.1
              generalize Typed.arrayLoop fl c F g (dp + 1) e (0x5b :: x :: t) (Spec.Json.elemsOf cur) [] = L at this
              cases L with
              | ok vs r => cases this
              | _ => rfl
            | cons c1 r1 =>
              rw [hw] at IH
              rw [elementsAr_succ_cons]
              by_cases hc : c1 = 0x5d
              · subst hc
                simp only [beq_self_eq_true, if_true, Option.map_some]
                refine relE_ok ?_
                simp only [plain]; exact plains_replicate (plain_zero e) _
              · have hc' : (c1 == 0x5d) = false := by simpa using hc
                simp only [hc', Bool.false_eq_true, if_false, if_true, Option.bind_some]
                refine wrap JV.array (fun _ h => h) IH ?_
                split
                · rename_i r' heq; cases heq; exact absurd rfl hc
                · generalize Typed.arrayLoop fl c F g (dp + 1) e (0x5b :: x :: t) (Spec.Json.elemsOf cur) (c1 :: r1) = L
                  cases L <;> rfl
      · have e2 : (c0 != 0x5b) = true := by simpa using h2
        have hsp : okS (valueS c (f + 1) (budget dp) (.array n e) cur (c0 :: rest)) = none := by
          by_cases h1 : c0 = 0x6e
          · subst h1
            rw [valueS.eq_def]
            simp only [show ((0x6e : UInt8) == 110) = true by decide, if_true, lit_null_none hn']; rfl
          · exact valueS_array_other c f _ n e cur c0 rest h1 h2
        refine relE_fail ?_ hsp
        simp only [e2, if_true]
        split <;> exact okM_inputError _ _ _ _

/-! ### maps -/

theorem valueS_map_other (f d : Nat) (e : JT) (cur : JV) (c0 : UInt8) (r : Bytes) (h1 : c0 ≠ 0x6e) (h2 : c0 ≠ 0x7b) :
    okS (valueS c (f + 1) d (.mapS e) cur (c0 :: r)) = none := by
  have e1 : (c0 == 110) = false := by simpa using h1
  have e2 : (c0 == 123) = false := by simpa using h2
  rw [valueS.eq_def]
  simp only [e1, e2, Bool.false_eq_true, if_false]
  repeat' (first | rw [okS_skipS] | rw [okS_map_bad] | rfl | split)

theorem map_step {G : Nat} (hML : ∀ g', g' < G → MLOk fl c F g') (dp f : Nat) (e : JT) (cur : JV) (b : Bytes)
    (hdp : dp ≤ maxD) (hpp : noPP e = true) (hcur : plain cur = true) (hg : NB b (.mapS e) ≤ G)
    (hf : NB b (.mapS e) ≤ f + 1) (hF : 3 * b.length ≤ F) (hq : QSound fl b) :
    RelX (decodeInto fl c F G dp (.mapS e) cur b) (valueS c (f + 1) (budget dp) (.mapS e) cur b) := by
  unfold NB at hg hf
  simp only [sizeT] at hg hf
  obtain ⟨g, rfl⟩ : ∃ g, G = g + 2 := ⟨G - 2, by omega⟩
  by_cases hn : hasPrefix b nullLit = true
  · obtain ⟨t, rfl⟩ := hasPrefix_split hn
    rw [model_null_map fl c F g dp e cur t]
    have hs : valueS c (f + 1) (budget dp) (.mapS e) cur (nullLit ++ t) = some (.map true .nil, false, t) := by
      rw [valueS.eq_def]
      simp only [nullLit, List.cons_append, List.nil_append]
      simp only [show ((0x6e : UInt8) == 110) = true by decide, if_true]
      have hl' : lit Spec.Json.nullLit (0x6e :: 0x75 :: 0x6c :: 0x6c :: t) = some t := lit_null_app t
      rw [hl']; rfl
    rw [hs]
    exact relE_ok rfl
  · have hn' : hasPrefix b nullLit = false := by simpa using hn
    rw [decodeInto, decodeMap.eq_def]
    simp only [hn', Bool.false_eq_true, if_false]
    cases b with
    | nil => exact relE_fail (by simp [okM_inputError]) (by rw [valueS.eq_def]; rfl)
    | cons c0 rest =>
      simp only [List.length_cons] at hg hf hF
      by_cases h2 : c0 = 0x7b
      · subst h2
        rw [valueS.eq_def]
        simp only [show ((0x7b : UInt8) == 110) = false by decide, show ((0x7b : UInt8) == 91) = false by decide,
          show ((0x7b : UInt8) == 123) = true by decide, Bool.false_eq_true, if_false, if_true, bne_self_eq_false]
        cases rest with
        | nil =>
          refine relE_fail ?_ ?_
          · simp only [List.length_cons, List.length_nil, Nat.zero_add, Nat.lt_add_one, if_true, okM_inputError]
          · simp only [show ws [] = [] from rfl, membersMp_nil, Option.map_none]; split <;> rfl
        | cons x t =>
          have hlen : ¬ (0x7b :: x :: t).length < 2 := by simp
          simp only [hlen, if_false]
          cases hno : nestOK dp with
          | false =>
            simp only [Bool.not_false, if_true, nest_false hno]
            exact relE_fail rfl rfl
          | true =>
            obtain ⟨hb0, hdp1⟩ := nest_true hno
            simp only [Bool.not_true, Bool.false_eq_true, if_false, hb0, entries_eq]
            simp only [List.length_cons] at hg hf hF
            have IH := hML g (by omega) (dp + 1) f e (0x7b :: x :: t) (Spec.Json.entriesOf cur) (x :: t) 0 hdp1 hpp
              (by rw [← entries_eq]; exact plainMs_entries hcur) (by unfold LB; simp only [List.length_cons]; omega)
              (by unfold LB; simp only [List.length_cons]; omega) (by simp only [List.length_cons]; omega) hq.tail
            rw [← budget_succ] at IH
            simp only [show ((0 : Nat) == 0) = true from rfl] at IH
            refine wrap (JV.map false) (fun _ h => h) IH ?_
            generalize Typed.mapLoop fl c F g (dp + 1) e (0x7b :: x :: t) (Spec.Json.entriesOf cur) (x :: t) 0 = L
            cases L <;> rfl
      · have e2 : (c0 != 0x7b) = true := by simpa using h2
        have hsp : okS (valueS c (f + 1) (budget dp) (.mapS e) cur (c0 :: rest)) = none := by
          by_cases h1 : c0 = 0x6e
          · subst h1
            rw [valueS.eq_def]
            simp only [show ((0x6e : UInt8) == 110) = true by decide, if_true, lit_null_none hn']; rfl
          · exact valueS_map_other c f _ e cur c0 rest h1 h2
        refine relE_fail ?_ hsp
        simp only [e2, if_true]
        split <;> exact okM_inputError _ _ _ _

/-! ### structs -/

theorem valueS_struct_other (f d : Nat) (fs : JFs) (cur : JV) (c0 : UInt8) (r : Bytes) (h1 : c0 ≠ 0x6e) (h2 : c0 ≠ 0x7b) :
    okS (valueS c (f + 1) d (.strct fs) cur (c0 :: r)) = none := by
  have e1 : (c0 == 110) = false := by simpa using h1
  have e2 : (c0 == 123) = false := by simpa using h2
  rw [valueS.eq_def]
  simp only [e1, e2, Bool.false_eq_true, if_false]
  repeat' (first | rw [okS_skipS] | rw [okS_map_bad] | rfl | split)

def valsOf (fs : JFs) : JV → JVs
  | .strct vs => vs
  | _ => zerosOf fs

theorem plains_valsOf (fs : JFs) {cur : JV} (h : plain cur = true) : plains (valsOf fs cur) = true := by
  cases cur <;> first | exact plains_zeros fs | exact h

theorem struct_step {G : Nat} (hST : ∀ g', g' < G → STOk fl c F g') (dp f : Nat) (fs : JFs) (cur : JV) (b : Bytes)
    (hdp : dp ≤ maxD) (hpp : noPPs fs = true) (hcur : plain cur = true) (hg : NB b (.strct fs) ≤ G)
    (hf : NB b (.strct fs) ≤ f + 1) (hF : 3 * b.length ≤ F) (hq : QSound fl b) :
    RelX (decodeInto fl c F G dp (.strct fs) cur b) (valueS c (f + 1) (budget dp) (.strct fs) cur b) := by
  unfold NB at hg hf
  simp only [sizeT] at hg hf
  obtain ⟨g, rfl⟩ : ∃ g, G = g + 2 := ⟨G - 2, by omega⟩
  by_cases hn : hasPrefix b nullLit = true
  · obtain ⟨t, rfl⟩ := hasPrefix_split hn
    rw [model_null_noop fl c F g dp _ cur t rfl, spec_null_noop c f _ _ cur t rfl]
    exact relE_ok hcur
  · have hn' : hasPrefix b nullLit = false := by simpa using hn
    rw [decodeInto, decodeStruct.eq_def]
    simp only [hn', Bool.false_eq_true, if_false]
    cases b with
    | nil => exact relE_fail (by simp [okM_inputError]) (by rw [valueS.eq_def]; rfl)
    | cons c0 rest =>
      simp only [List.length_cons] at hg hf hF
      by_cases h2 : c0 = 0x7b
      · subst h2
        rw [valueS.eq_def]
        simp only [show ((0x7b : UInt8) == 110) = false by decide, show ((0x7b : UInt8) == 91) = false by decide,
          show ((0x7b : UInt8) == 123) = true by decide, Bool.false_eq_true, if_false, if_true, bne_self_eq_false]
        cases rest with
        | nil =>
          refine relE_fail ?_ ?_
          · simp only [List.length_cons, List.length_nil, Nat.zero_add, Nat.lt_add_one, if_true, okM_inputError]
          · simp only [show ws [] = [] from rfl, membersSt_nil, Option.map_none]; split <;> rfl
        | cons x t =>
          have hlen : ¬ (0x7b :: x :: t).length < 2 := by simp
          simp only [hlen, if_false]
          cases hno : nestOK dp with
          | false =>
            simp only [Bool.not_false, if_true, nest_false hno]
            exact relE_fail rfl rfl
          | true =>
            obtain ⟨hb0, hdp1⟩ := nest_true hno
            simp only [Bool.not_true, Bool.false_eq_true, if_false, hb0]
            simp only [List.length_cons] at hg hf hF
            have IH := hST g (by omega) (dp + 1) f fs (0x7b :: x :: t) (valsOf fs cur) (x :: t) 0 hdp1 hpp
              (plains_valsOf fs hcur) (by unfold LB; simp only [List.length_cons]; omega)
              (by unfold LB; simp only [List.length_cons]; omega) (by simp only [List.length_cons]; omega) hq.tail
            rw [← budget_succ] at IH
            simp only [show ((0 : Nat) == 0) = true from rfl] at IH
            cases cur <;> dsimp only <;> dsimp only [valsOf] at IH <;> refine wrap JV.strct (fun _ h => h) IH ?_ <;>
              generalize Typed.structLoop fl c F g (dp + 1) fs (0x7b :: x :: t) _ (x :: t) 0 = L <;> cases L <;> rfl
      · have e2 : (c0 != 0x7b) = true := by simpa using h2
        have hsp : okS (valueS c (f + 1) (budget dp) (.strct fs) cur (c0 :: rest)) = none := by
          by_cases h1 : c0 = 0x6e
          · subst h1
            rw [valueS.eq_def]
            simp only [show ((0x6e : UInt8) == 110) = true by decide, if_true, lit_null_none hn']; rfl
          · exact valueS_struct_other c f _ fs cur c0 rest h1 h2
        refine relE_fail ?_ hsp
        simp only [e2, if_true]
        split <;> exact okM_inputError _ _ _ _

/-! ### the scalar leaves keep the target plain -/

theorem inputErrorT_ne {α : Type} {dp : Nat} {b : Bytes} {v : α} {r : Bytes} (h : inputErrorT fl F dp b = .ok v r) : False := by
  have := okM_inputError (α := α) fl F dp b
  rw [h] at this; cases this

theorem rp_bool (dp : Nat) (cur : JV) (b : Bytes) (hcur : plain cur = true) : RP plain (decodeBool fl F dp cur b) := by
  intro v r h
  unfold decodeBool at h
  repeat' (split at h)
  all_goals first | (cases h <;> first | rfl | exact hcur) | exact (inputErrorT_ne fl F h).elim

theorem rp_float (dp : Nat) (cur : JV) (b : Bytes) (hcur : plain cur = true) : RP plain (decodeFloat fl F dp cur b) := by
  intro v r h
  unfold decodeFloat at h
  repeat' (first | split at h | dsimp only at h)
  all_goals first | (cases h <;> first | rfl | exact hcur) | exact (inputErrorT_ne fl F h).elim

theorem rp_str (dp : Nat) (cur : JV) (b : Bytes) (hcur : plain cur = true) : RP plain (decodeStr fl F dp cur b) := by
  intro v r h
  unfold decodeStr at h
  repeat' (split at h)
  all_goals first | (cases h <;> first | rfl | exact hcur) | exact (inputErrorT_ne fl F h).elim

/-! ### the induction -/

def All (g : Nat) : Prop :=
  TOk fl c F g ∧ SLOk fl c F g ∧ ALOk fl c F g ∧ MLOk fl c F g ∧ STOk fl c F g

theorem T_step {G : Nat} (h : ∀ g', g' < G → All fl c F g') : TOk fl c F G := by
  intro dp f' t cur b hdp hpp hcur hg hf hF hq
  have hg0 := hg
  have hf0 := hf
  unfold NB at hg hf
  have hsz : 1 ≤ sizeT t := by cases t <;> simp only [sizeT] <;> omega
  obtain ⟨f, rfl⟩ : ∃ f, f' = f + 1 := ⟨f' - 1, by omega⟩
  cases t with
  | bool =>
    obtain ⟨g, rfl⟩ : ∃ g, G = g + 1 := ⟨G - 1, by omega⟩
    rw [decodeInto]
    exact ⟨Or.inl (bool_value fl c F dp f _ cur b), rp_bool fl F dp cur b hcur⟩
  | int w =>
    obtain ⟨g, rfl⟩ : ∃ g, G = g + 1 := ⟨G - 1, by omega⟩
    rw [decodeInto]
    exact Enc.Lemmas.JsonDecTypedInt.int_value fl c F dp f _ w cur b hcur
  | float =>
    obtain ⟨g, rfl⟩ : ∃ g, G = g + 1 := ⟨G - 1, by omega⟩
    rw [decodeInto]
    exact ⟨Or.inl (float_value fl c F dp f _ cur b), rp_float fl F dp cur b hcur⟩
  | str =>
    obtain ⟨g, rfl⟩ : ∃ g, G = g + 1 := ⟨G - 1, by omega⟩
    rw [decodeInto]
    exact ⟨Or.inl (str_value fl c F dp f _ cur b hq), rp_str fl F dp cur b hcur⟩
  | slice e =>
    exact (slice_step fl c F (fun g' hg' => (h g' hg').2.1) dp f e cur b hdp hpp hcur hg0 hf0 hF hq).toE
  | array n e =>
    exact (array_step fl c F (fun g' hg' => (h g' hg').2.2.1) dp f n e cur b hdp hpp hcur hg0 hf0 hF hq).toE
  | mapS e =>
    exact (map_step fl c F (fun g' hg' => (h g' hg').2.2.2.1) dp f e cur b hdp hpp hcur hg0 hf0 hF hq).toE
  | strct fs =>
    exact (struct_step fl c F (fun g' hg' => (h g' hg').2.2.2.2) dp f fs cur b hdp hpp hcur hg0 hf0 hF hq).toE
  | ptr e =>
    simp only [sizeT] at hg hf
    obtain ⟨g, rfl⟩ : ∃ g, G = g + 2 := ⟨G - 2, by omega⟩
    simp only [noPP, Bool.and_eq_true, Bool.not_eq_true'] at hpp
    refine ptr_step fl c F dp f e cur b ?_ (fun _ => hpp.1) hcur
    intro cur' hc'
    exact (h g (by omega)).1 dp f e cur' b hdp hpp.2 hc' (by unfold NB; omega) (by unfold NB; omega) hF hq
  | any =>
    simp only [sizeT] at hg hf
    obtain ⟨g, rfl⟩ : ∃ g, G = g + 2 := ⟨G - 2, by omega⟩
    have hnp : ∀ t o v, cur ≠ .anyp t o v := by
      intro t o v hh; subst hh; simp [plain] at hcur
    exact any_step fl c F g dp f cur b hnp hdp (by omega) hF (by omega) hq

theorem all_ok (G : Nat) : All fl c F G := by
  induction G using Nat.strongRecOn with
  | ind G ih =>
    refine ⟨T_step fl c F ih, ?_, ?_, ?_, ?_⟩
    · cases G with
      | zero => intro dp f' e input bk s i _ _ _ hg; unfold LB at hg; omega
      | succ g => exact sliceLoop_step fl c F (ih g (Nat.lt_succ_self g)).1 (ih g (Nat.lt_succ_self g)).2.1
    · cases G with
      | zero => intro dp f' e input sl b _ _ _ hg; unfold LB at hg; omega
      | succ g => exact arrayLoop_step fl c F (ih g (Nat.lt_succ_self g)).1 (ih g (Nat.lt_succ_self g)).2.2.1
    · cases G with
      | zero => intro dp f' e input m s i _ _ _ hg; unfold LB at hg; omega
      | succ g => exact mapLoop_step fl c F (ih g (Nat.lt_succ_self g)).1 (ih g (Nat.lt_succ_self g)).2.2.2.1
    · cases G with
      | zero => intro dp f' fs input vals s i _ _ _ hg; unfold LB at hg; omega
      | succ g => exact structLoop_step fl c F (ih g (Nat.lt_succ_self g)).1 (ih g (Nat.lt_succ_self g)).2.2.2.2

/-- **fuel irrelevance at the value level**: above the bound the success part (value and remainder) does not depend on the
type-directed fuel — at any depth, with any remainder (for the container kinds and `any` both equal the specification's
success part; integers do not look at the fuel; pointers inherit from their pointee) -/
theorem fuel_value : (t : JT) → noPP t = true → ∀ (g g' dp : Nat) (cur : JV) (b : Bytes), dp ≤ maxD → plain cur = true →
    NB b t ≤ g → NB b t ≤ g' → 3 * b.length ≤ F → QSound fl b →
    okM (decodeInto fl c F g dp t cur b) = okM (decodeInto fl c F g' dp t cur b)
  | .bool, _, g, g', dp, cur, b, _, _, hg, hg', _, _ => by
    unfold NB at hg hg'
    obtain ⟨g0, rfl⟩ : ∃ g0, g = g0 + 1 := ⟨g - 1, by omega⟩
    obtain ⟨g1, rfl⟩ : ∃ g1, g' = g1 + 1 := ⟨g' - 1, by omega⟩
    rw [scalar_fuel fl c F g0 g1 dp .bool rfl cur b]
  | .int w, _, g, g', dp, cur, b, _, _, hg, hg', _, _ => by
    unfold NB at hg hg'
    obtain ⟨g0, rfl⟩ : ∃ g0, g = g0 + 1 := ⟨g - 1, by omega⟩
    obtain ⟨g1, rfl⟩ : ∃ g1, g' = g1 + 1 := ⟨g' - 1, by omega⟩
    rw [scalar_fuel fl c F g0 g1 dp (.int w) rfl cur b]
  | .float, _, g, g', dp, cur, b, _, _, hg, hg', _, _ => by
    unfold NB at hg hg'
    obtain ⟨g0, rfl⟩ : ∃ g0, g = g0 + 1 := ⟨g - 1, by omega⟩
    obtain ⟨g1, rfl⟩ : ∃ g1, g' = g1 + 1 := ⟨g' - 1, by omega⟩
    rw [scalar_fuel fl c F g0 g1 dp .float rfl cur b]
  | .str, _, g, g', dp, cur, b, _, _, hg, hg', _, _ => by
    unfold NB at hg hg'
    obtain ⟨g0, rfl⟩ : ∃ g0, g = g0 + 1 := ⟨g - 1, by omega⟩
    obtain ⟨g1, rfl⟩ : ∃ g1, g' = g1 + 1 := ⟨g' - 1, by omega⟩
    rw [scalar_fuel fl c F g0 g1 dp .str rfl cur b]
  | .slice e, hpp, g, g', dp, cur, b, hdp, hcur, hg, hg', hF, hq =>
    (slice_step fl c F (fun k _ => (all_ok fl c F k).2.1) dp (NB b (.slice e)) e cur b hdp hpp hcur hg (Nat.le_succ _) hF hq).1.trans
      (slice_step fl c F (fun k _ => (all_ok fl c F k).2.1) dp (NB b (.slice e)) e cur b hdp hpp hcur hg' (Nat.le_succ _) hF hq).1.symm
  | .array n e, hpp, g, g', dp, cur, b, hdp, hcur, hg, hg', hF, hq =>
    (array_step fl c F (fun k _ => (all_ok fl c F k).2.2.1) dp (NB b (.array n e)) n e cur b hdp hpp hcur hg (Nat.le_succ _) hF hq).1.trans
      (array_step fl c F (fun k _ => (all_ok fl c F k).2.2.1) dp (NB b (.array n e)) n e cur b hdp hpp hcur hg' (Nat.le_succ _) hF hq).1.symm
  | .mapS e, hpp, g, g', dp, cur, b, hdp, hcur, hg, hg', hF, hq =>
    (map_step fl c F (fun k _ => (all_ok fl c F k).2.2.2.1) dp (NB b (.mapS e)) e cur b hdp hpp hcur hg (Nat.le_succ _) hF hq).1.trans
      (map_step fl c F (fun k _ => (all_ok fl c F k).2.2.2.1) dp (NB b (.mapS e)) e cur b hdp hpp hcur hg' (Nat.le_succ _) hF hq).1.symm
  | .strct fs, hpp, g, g', dp, cur, b, hdp, hcur, hg, hg', hF, hq =>
    (struct_step fl c F (fun k _ => (all_ok fl c F k).2.2.2.2) dp (NB b (.strct fs)) fs cur b hdp hpp hcur hg (Nat.le_succ _) hF hq).1.trans
      (struct_step fl c F (fun k _ => (all_ok fl c F k).2.2.2.2) dp (NB b (.strct fs)) fs cur b hdp hpp hcur hg' (Nat.le_succ _) hF hq).1.symm
  | .any, _, g, g', dp, cur, b, hdp, hcur, hg, hg', hF, hq => by
    unfold NB at hg hg'
    simp only [sizeT] at hg hg'
    obtain ⟨g0, rfl⟩ : ∃ g0, g = g0 + 2 := ⟨g - 2, by omega⟩
    obtain ⟨g1, rfl⟩ : ∃ g1, g' = g1 + 2 := ⟨g' - 2, by omega⟩
    have hnp : ∀ t o v, cur ≠ .anyp t o v := by
      intro t o v hh; subst hh; simp [plain] at hcur
    exact (any_stepX fl c F g0 dp (2 * b.length) cur b hnp hdp (by omega) hF (by omega) hq).1.trans
      (any_stepX fl c F g1 dp (2 * b.length) cur b hnp hdp (by omega) hF (by omega) hq).1.symm
  | .ptr e, hpp, g, g', dp, cur, b, hdp, hcur, hg, hg', hF, hq => by
    unfold NB at hg hg'
    simp only [sizeT] at hg hg'
    obtain ⟨g0, rfl⟩ : ∃ g0, g = g0 + 2 := ⟨g - 2, by omega⟩
    obtain ⟨g1, rfl⟩ : ∃ g1, g' = g1 + 2 := ⟨g' - 2, by omega⟩
    simp only [noPP, Bool.and_eq_true, Bool.not_eq_true'] at hpp
    by_cases hn : hasPrefix b nullLit = true
    · rw [decodePtr_null fl c F g0 dp e cur b hn hpp.1, decodePtr_null fl c F g1 dp e cur b hn hpp.1]
    · have hn' : hasPrefix b nullLit = false := by simpa using hn
      have ih : ∀ cur', plain cur' = true →
          okM (decodeInto fl c F g0 dp e cur' b) = okM (decodeInto fl c F g1 dp e cur' b) := fun cur' hc' =>
        fuel_value e hpp.2 g0 g1 dp cur' b hdp hc' (by unfold NB; omega) (by unfold NB; omega) hF hq
      cases cur with
      | ptr old v =>
        have hv : plain v = true := by simpa [plain] using hcur
        rw [model_ptr_reused fl c F g0 dp e old v b hn', model_ptr_reused fl c F g1 dp e old v b hn', okM_mapOk, okM_mapOk,
          ih v hv]
      | _ =>
        rw [decodePtr_other fl c F g0 dp e _ b hn' (by intro old v h; cases h),
          decodePtr_other fl c F g1 dp e _ b hn' (by intro old v h; cases h), okM_mapOk, okM_mapOk, ih _ (plain_zero e)]

/-- **value level**: every type without pointer-to-pointer, every prior content without interface-held pointers, any
remainder, any fuels above the bounds -/
theorem decodeInto_spec (g dp f' : Nat) (t : JT) (cur : JV) (b : Bytes) (hdp : dp ≤ maxD) (hpp : noPP t = true)
    (hcur : plain cur = true) (hg : NB b t ≤ g) (hf : NB b t ≤ f') (hF : 3 * b.length ≤ F) (hq : QSound fl b) :
    RelE (decodeInto fl c F g dp t cur b) (valueS c f' (budget dp) t cur b) :=
  (all_ok fl c F g).1 dp f' t cur b hdp hpp hcur hg hf hF hq

end

/-! ### whole documents -/

/-- **MAIN**: `Unmarshal` into a typed target that may already hold data = the specification of encoding/json -/
theorem unmarshal_eq (c : TFlags) (t : JT) (hpp : noPP t = true) (cur : JV) (hcur : plain cur = true) (doc : Bytes) :
    okU (unmarshalTyped c t cur doc) = Spec.Json.unmarshalTyped c t cur doc := by
  rw [model_top, spec_top]
  have hl := ws_length_le doc
  have hq : QSound (internalParseFlags doc) (ws doc) := by
    rw [← skipSpaces_eq_ws]; exact Enc.Lemmas.JsonValid.internalParseFlags_qsound doc
  have hb : budget 0 = 10000 := rfl
  rw [← hb]
  have hsv : 1 ≤ sizeV cur := by cases cur <;> simp only [sizeV] <;> omega
  exact fin_of_RelE (decodeInto_spec (internalParseFlags doc) c (anyFuel (ws doc)) _ 0 _ t cur (ws doc) (Nat.zero_le _) hpp hcur
    (by unfold NB typedFuel; omega) (by unfold NB Spec.Json.specFuel; omega) (by unfold anyFuel; omega) hq)

#print axioms unmarshal_eq

/-- **fuel irrelevance, whole documents**: with ANY type-directed fuel `g` above the bound `NB` and any scanner fuel `F ≥ 3·|doc|`
the decoder yields what the specification yields (in particular what `unmarshalTyped`, which runs with `typedFuel`, yields) -/
theorem fuel_irrelevant (c : TFlags) (t : JT) (hpp : noPP t = true) (cur : JV) (hcur : plain cur = true) (doc : Bytes)
    (g F : Nat) (hg : NB (ws doc) t ≤ g) (hF : 3 * (ws doc).length ≤ F) :
    fin (okM (decodeInto (internalParseFlags doc) c F g 0 t cur (ws doc))) = Spec.Json.unmarshalTyped c t cur doc := by
  rw [spec_top]
  have hl := ws_length_le doc
  have hq : QSound (internalParseFlags doc) (ws doc) := by
    rw [← skipSpaces_eq_ws]; exact Enc.Lemmas.JsonValid.internalParseFlags_qsound doc
  have hb : budget 0 = 10000 := rfl
  rw [← hb]
  have hsv : 1 ≤ sizeV cur := by cases cur <;> simp only [sizeV] <;> omega
  exact fin_of_RelE (decodeInto_spec (internalParseFlags doc) c F g 0 _ t cur (ws doc) (Nat.zero_le _) hpp hcur hg
    (by unfold NB Spec.Json.specFuel; omega) hF hq)

#print axioms fuel_irrelevant

/-! ### an interface holding a non-nil pointer (`anyp`): decoded INTO through the pointer -/

/-- value and remainder up to leading white space of the remainder (decodeInterface returns `skipSpaces` of the pointee
decoder's remainder — `d.parse` — where the specification returns the remainder itself) -/
def W (x : JV × Bytes) : JV × Bytes := (x.1, ws x.2)

def RelW (m : TR JV) (s : Spec.Json.SR JV) : Prop :=
  (okM m).map W = (okS s).map W ∨ (okM m = none ∧ ∃ v r, okS s = some (v, r) ∧ dig r = true)

theorem fin_W (x : Option (JV × Bytes)) : fin (x.map W) = fin x := by
  cases x with
  | none => rfl
  | some y => simp only [Option.map_some, fin, Option.bind_some, W, ws_ws]

theorem fin_of_RelW {m : TR JV} {s : Spec.Json.SR JV} (h : RelW m s) : fin (okM m) = fin (okS s) := by
  rcases h with h1 | ⟨hm, v, r, hs, hd⟩
  · rw [← fin_W (okM m), h1, fin_W]
  · rw [hm, hs]
    obtain ⟨x, t, rfl, hx⟩ := dig_cons hd
    have : ws (x :: t) = x :: t := ws_dig hd
    simp [fin, this]

section
variable (fl : PFlags) (c : TFlags) (F : Nat)

def wrapP (t : JT) (old : Bool) : TR JV → TR JV
  | .ok v r => .ok (.anyp t old v) (ws r)
  | .syn => .syn
  | .ty r => .ty (ws r)
  | .oth r => .oth (ws r)

theorem anyp_inner (t : JT) (old : Bool) {m0 : TR JV} {s0 : Spec.Json.SR JV} (hT : RelE m0 s0) :
    RelW (wrapP t old m0) (s0.map fun x => (JV.anyp t old x.1, x.2)) := by
  rcases hT.1 with h1 | ⟨hm, v, r, hs, hd⟩
  · cases m0 with
    | ok v' r =>
      rw [okS_some h1.symm]
      left
      simp only [wrapP, okM, okS, Option.map_some, W, ws_ws]
    | syn => left; rcases okS_none_cases h1.symm with h | ⟨v, r, h⟩ <;> rw [h] <;> rfl
    | ty r0 => left; rcases okS_none_cases h1.symm with h | ⟨v, r, h⟩ <;> rw [h] <;> rfl
    | oth r0 => left; rcases okS_none_cases h1.symm with h | ⟨v, r, h⟩ <;> rw [h] <;> rfl
  · right
    rw [okS_some hs]
    refine ⟨?_, JV.anyp t old v, r, rfl, hd⟩
    rcases okM_none_cases hm with h | ⟨_, h⟩ | ⟨_, h⟩ <;> rw [h] <;> rfl

/-- **`any` holding a non-nil `*t`**, under the hypothesis for the pointee: `null` makes the interface nil unless the pointee
is itself a pointer; anything else is decoded into the pointee, the interface keeps the pointer -/
theorem anyp_step (g dp f : Nat) (t : JT) (old : Bool) (v : JV) (b : Bytes) (hws : ws b = b)
    (hT : RelE (decodeInto fl c F g dp t v b) (valueS c f (budget dp) t v b)) :
    RelW (decodeInto fl c F (g + 2) dp .any (.anyp t old v) b) (valueS c (f + 1) (budget dp) .any (.anyp t old v) b) := by
  rw [decodeInto, decodeIface, valueS.eq_def]
  simp only [skipSpaces_eq_ws, hws, lit_eq]
  have hnl : Spec.Json.nullLit = nullLit := rfl
  simp only [hnl]
  by_cases hn : hasPrefix b nullLit = true
  · by_cases hp : t.isPtr = true
    · simp only [hn, hp, Bool.not_true, Bool.false_and, Bool.and_false, Bool.false_eq_true, if_false, if_true,
        Option.isSome_some]
      refine (?_ : RelW (wrapP t old (decodeInto fl c F g dp t v b)) _)
      · exact anyp_inner t old hT
    · have hp' : t.isPtr = false := by simpa using hp
      simp only [hn, hp', Bool.not_false, Bool.true_and, Bool.and_true, if_true, Option.isSome_some, Option.map_some]
      exact Or.inl rfl
  · have hn' : hasPrefix b nullLit = false := by simpa using hn
    simp only [hn', Bool.and_false, Bool.false_and, Bool.false_eq_true, if_false, Option.isSome_none]
    refine (?_ : RelW (wrapP t old (decodeInto fl c F g dp t v b)) _)
    · exact anyp_inner t old hT

end

/-- **an interface holding a non-nil pointer, whole documents**: `var x any = &T{…}; Unmarshal(doc, &x)` decodes into the
`T` (content without further interface-held pointers, `T` without pointer-to-pointer) and keeps the pointer; `null` makes
`x` nil unless `T` is a pointer type -/
theorem unmarshal_anyp (c : TFlags) (t : JT) (hpp : noPP t = true) (old : Bool) (v : JV) (hv : plain v = true) (doc : Bytes) :
    okU (unmarshalTyped c .any (.anyp t old v) doc) = Spec.Json.unmarshalTyped c .any (.anyp t old v) doc := by
  rw [model_top, spec_top]
  have hl := ws_length_le doc
  have hq : QSound (internalParseFlags doc) (ws doc) := by
    rw [← skipSpaces_eq_ws]; exact Enc.Lemmas.JsonValid.internalParseFlags_qsound doc
  have hb : budget 0 = 10000 := rfl
  rw [← hb]
  have hsv : 1 ≤ sizeV v := by cases v <;> simp only [sizeV] <;> omega
  obtain ⟨g, hg⟩ : ∃ g, typedFuel .any (.anyp t old v) (ws doc) = g + 2 :=
    ⟨typedFuel .any (.anyp t old v) (ws doc) - 2, by unfold typedFuel; omega⟩
  obtain ⟨f, hf⟩ := specFuel_succ .any (.anyp t old v) doc
  rw [hg, hf]
  unfold typedFuel at hg
  unfold Spec.Json.specFuel at hf
  simp only [sizeT, sizeV] at hg hf
  exact fin_of_RelW (anyp_step (internalParseFlags doc) c (anyFuel (ws doc)) g 0 f t old v (ws doc) (ws_ws doc)
    (decodeInto_spec (internalParseFlags doc) c (anyFuel (ws doc)) g 0 f t v (ws doc) (Nat.zero_le _) hpp hv
      (by unfold NB; omega) (by unfold NB; omega) (by unfold anyFuel; omega) hq))

#print axioms unmarshal_anyp

/-! ### sequences of `Unmarshal` calls into the same target -/

mutual
theorem plain_markOld : (v : JV) → plain (markOld v) = plain v
  | .bool _ => rfl
  | .int _ => rfl
  | .float _ => rfl
  | .str _ => rfl
  | .slice n vs st => by simp only [markOld, plain, plains_markOlds vs, plains_markOlds st]
  | .array vs => by simp only [markOld, plain, plains_markOlds vs]
  | .map n ms => by simp only [markOld, plain, plainMs_markOldMs ms]
  | .nilptr => rfl
  | .ptr o v => by simp only [markOld, plain, plain_markOld v]
  | .strct vs => by simp only [markOld, plain, plains_markOlds vs]
  | .anyv _ => rfl
  | .anyp t o v => by simp only [markOld, plain]
theorem plains_markOlds : (vs : JVs) → plains (markOlds vs) = plains vs
  | .nil => rfl
  | .cons v r => by simp only [markOlds, plains, plain_markOld v, plains_markOlds r]
theorem plainMs_markOldMs : (ms : JMs) → plainMs (markOldMs ms) = plainMs ms
  | .nil => rfl
  | .cons k v r => by simp only [markOldMs, plainMs, plain_markOld v, plainMs_markOldMs r]
end

/-- what `Unmarshal` stores on success is again free of interface-held pointers -/
theorem unmarshal_plain (c : TFlags) (t : JT) (hpp : noPP t = true) (cur : JV) (hcur : plain cur = true) (doc : Bytes) (v : JV)
    (h : unmarshalTyped c t cur doc = .ok v) : plain v = true := by
  have ht := model_top c t cur doc
  rw [h] at ht
  have hl := ws_length_le doc
  have hq : QSound (internalParseFlags doc) (ws doc) := by
    rw [← skipSpaces_eq_ws]; exact Enc.Lemmas.JsonValid.internalParseFlags_qsound doc
  have hsv : 1 ≤ sizeV cur := by cases cur <;> simp only [sizeV] <;> omega
  have R := decodeInto_spec (internalParseFlags doc) c (anyFuel (ws doc)) (typedFuel t cur (ws doc)) 0
    (Spec.Json.specFuel t cur doc) t cur (ws doc) (Nat.zero_le _) hpp hcur
    (by unfold NB typedFuel; omega) (by unfold NB Spec.Json.specFuel; omega) (by unfold anyFuel; omega) hq
  cases hm : decodeInto (internalParseFlags doc) c (anyFuel (ws doc)) (typedFuel t cur (ws doc)) 0 t cur (ws doc) with
  | ok v' r =>
    rw [hm] at ht
    simp only [okU, okM, fin, Option.bind_some] at ht
    split at ht
    · injection ht with hv; rw [hv]; exact R.2 v' r hm
    · cases ht
  | syn => rw [hm] at ht; cases ht
  | ty r => rw [hm] at ht; cases ht
  | oth r => rw [hm] at ht; cases ht

/-- the observable of a sequence: the final content, or the index of the first failing call -/
def seqObs : SeqRes → JV ⊕ Nat
  | .ok v => .inl v
  | .failed k _ => .inr k

/-- **sequences of `Unmarshal` calls into the same target** (each call sees what the previous ones left; pointers that
survive are pre-existing ones for the next call) -/
theorem unmarshalSeq_eq (c : TFlags) (t : JT) (hpp : noPP t = true) : (docs : List Bytes) → (cur : JV) → (k : Nat) →
    plain cur = true → seqObs (unmarshalSeq c t cur docs k) = Spec.Json.unmarshalSeq c t cur docs k
  | [], cur, k, _ => rfl
  | doc :: rest, cur, k, hcur => by
    have hm : plain (markOld cur) = true := by rw [plain_markOld]; exact hcur
    have e := unmarshal_eq c t hpp (markOld cur) hm doc
    rw [unmarshalSeq, Spec.Json.unmarshalSeq, ← e]
    cases hu : unmarshalTyped c t (markOld cur) doc with
    | ok v =>
      simp only [okU]
      exact unmarshalSeq_eq c t hpp rest v (k + 1) (unmarshal_plain c t hpp _ hm doc v hu)
    | syn => rfl
    | ty => rfl
    | oth => rfl

#print axioms unmarshalSeq_eq

end Enc.Lemmas.JsonDecTypedAll
