import Enc.Lemmas.JsonValid
/-!
# JSON streaming (C11): prefix stability of the model parser

`Decoder.readValue` (model: `Enc.Model.Json.Stream.readValue`) re-parses its window after every refill. This file
proves that a verdict reached on a prefix `b` of the stream does not change when more bytes `x` arrive, except for the
verdict "need more input" (`PR.err true`) and for a number that reaches the end of the window.

`ext x (ok k r) = ok k (r ++ x)`, `ext x (err e) = err e`. Definitive results:
`Def R := R ≠ err true`; `DefN (ok _ r) := r ≠ []`, `DefN (err e) := e = false` (number-like parsers);
`DefV (ok k r) := r ≠ [] ∨ k.isNum = false`, `DefV (err e) := e = false` (values).

Every statement about `parseValue` / `parseArray` / `arrayLoop` / `parseObject` / `objectLoop` is for an arbitrary
nesting depth `dp` (the window theorems instantiate `dp = 0`, as `readValue` does). The refusal of an array or object
beyond `maxNestingDepth` is `err false`, decided by `dp` alone (after the `len(b) < 2` check, which can only turn
`err true` into something else): it is a definitive syntax error, stable like the others.

## First stage: same flags, same depth, same fuel (no soundness or fuel hypotheses)

* `skipDigits_append`, `skipSpacesN_append`, `skipSpaces_append`: `skip b ≠ [] → skip (b ++ x) = skip b ++ x`.
* `parseLit_stable : Def (parseLit b l k) → parseLit (b ++ x) l k = ext x (parseLit b l k)`.
* `parseNumber_stable : DefN (parseNumber b) → parseNumber (b ++ x) = ext x (parseNumber b)`
  (through `expDigits`/`expPart`/`fracPart`/`fracExp`/`numBody`), `parseNumber_kind : parseNumber b = ok k r → k.isNum`.
  The exclusion of `ok k []` is necessary: `parseNumber "1" = ok uint ""` but `parseNumber "12" = ok uint ""`, not
  `ok uint "2"` (stated below as an `example`, and again for `parseValue`).
* `stringLoop_stable`, `parseString_stable fl : Def (parseString fl b) → parseString fl (b ++ x) = ext x (parseString fl b)`.
* `all_stable`: the five statements `SV`/`SA`/`SAL`/`SO`/`SOL` for `parseValue` (under `DefV`) and
  `parseArray`/`arrayLoop`/`parseObject`/`objectLoop` (under `Def`), by one induction on the fuel.
* **`ok_stable`**: `parseValue fl dp f b = ok k r → (r ≠ [] ∨ k.isNum = false) → parseValue fl dp f (b ++ x) = ok k (r ++ x)`.
* **`err_stable`**: `parseValue fl dp f b = err false → parseValue fl dp f (b ++ x) = err false`.

## Second stage: flags and fuel recomputed

* `all_suffix` / `parseValue_suffix`: the remainder of an `ok` result is a suffix of the input (all five functions,
  any flags, any depth, any fuel); `parseString_suffix`, `parseNumber_suffix`, `parseLit_suffix`.
* `all_mono` / `parseValue_fuel_succ` / `parseValue_fuel_mono` (and `parseArray_`/`arrayLoop_`/`parseObject_`/
  `objectLoop_fuel_mono`): a result other than `err true` is kept with more fuel.
* `parseString_flags`, `all_flags` / `parseValue_flags : QSound fl b → parseValue fl dp f b = parseValue {} dp f b`:
  flags that are sound before every quotation mark are irrelevant.
* **`ok_stable'`**, **`err_stable'`**: as above with `QSound fl b`, `QSound fl' (b ++ x)`, `f ≤ f'` and
  `parseValue fl' dp f' (b ++ x)` in the conclusion.
* **`window_ok_stable`**, **`window_err_stable`**: the same at depth 0 with `internalParseFlags` and `fuelFor` of the respective
  windows, for a window that does not start with white space (`skipSpaces b = b`), exactly as `readValue` computes them.

Remarks on the model, found on the way (none contradicts the statements above, all concern `err true`, which is not
claimed to be stable): `parseNumber "1ex"` is `err true` (as coded in Go: `r` stays nil on that path) although no
continuation can repair it; likewise `"\uZZZZ` at the very end of the window (`err rest3.isEmpty`) and a wrong literal
shorter than the expected one (`"nx"`, `b.length < lit.length`). The decoder then asks for more input before reporting
the syntax error (or reports an unexpected EOF instead of a syntax error at end of stream).
-/
namespace Enc.Lemmas.StreamStable
open Enc Enc.Model.Json Enc.Lemmas.JsonScan Enc.Lemmas.JsonString Enc.Lemmas.JsonNumber Enc.Lemmas.JsonValue

def ext (x : Bytes) : PR → PR
  | .ok k r => .ok k (r ++ x)
  | .err e => .err e
def DefN : PR → Prop
  | .ok _ r => r ≠ []
  | .err e => e = false
def Def (R : PR) : Prop := R ≠ .err true
def DefV : PR → Prop
  | .ok k r => r ≠ [] ∨ k.isNum = false
  | .err e => e = false

theorem Def_err {e : Bool} (h : Def (.err e)) : e = false := by
  cases e
  · rfl
  · exact absurd rfl h

@[simp] theorem ext_ok (x k r) : ext x (.ok k r) = .ok k (r ++ x) := rfl
@[simp] theorem ext_err (x e) : ext x (.err e) = .err e := rfl

theorem skipDigits_append {b : Bytes} (x : Bytes) (h : skipDigits b ≠ []) :
    skipDigits (b ++ x) = skipDigits b ++ x := by
  induction b with
  | nil => exact absurd rfl h
  | cons c r ih =>
    simp only [List.cons_append, skipDigits] at h ⊢
    split
    · rename_i hc; simp only [hc, if_true] at h; exact ih h
    · rfl

theorem skipSpacesN_append {b : Bytes} (x : Bytes) (h : skipSpacesN b ≠ []) :
    skipSpacesN (b ++ x) = skipSpacesN b ++ x := by
  induction b with
  | nil => exact absurd rfl h
  | cons c r ih =>
    simp only [List.cons_append, skipSpacesN] at h ⊢
    split
    · rename_i hc; simp only [hc, if_true] at h; exact ih h
    · rfl

theorem skipSpaces_append {b : Bytes} (x : Bytes) (h : skipSpaces b ≠ []) :
    skipSpaces (b ++ x) = skipSpaces b ++ x := by
  cases b with
  | nil => exact absurd rfl h
  | cons c r =>
    simp only [List.cons_append, skipSpaces] at h ⊢
    split
    · rename_i hc; simp only [hc, if_true] at h
      exact skipSpacesN_append (b := c :: r) x h
    · rfl

theorem skipDigits_suffix (b : Bytes) : skipDigits b <:+ b := by
  rw [skipDigits_eq]; exact JsonGrammar.digits_suffix b
theorem skipSpaces_suffix (b : Bytes) : skipSpaces b <:+ b := by
  rw [JsonWs.skipSpaces_eq_ws]; exact JsonGrammar.ws_suffix b

/-! ### literals -/

theorem parseLit_stable (b l x : Bytes) (k : Kind) (h : Def (parseLit b l k)) :
    parseLit (b ++ x) l k = ext x (parseLit b l k) := by
  unfold parseLit hasPrefix at *
  cases hp : l.isPrefixOf b
  · simp only [hp, Bool.false_eq_true, if_false] at h ⊢
    have hlen : ¬ b.length < l.length := by
      intro hl; simp only [hl, if_true] at h; exact h rfl
    have hp2 : l.isPrefixOf (b ++ x) = false := by
      cases hq : l.isPrefixOf (b ++ x)
      · rfl
      · have h1 : l <+: b ++ x := List.isPrefixOf_iff_prefix.mp hq
        have h2 : l <+: b := List.prefix_of_prefix_length_le h1 (List.prefix_append b x) (by omega)
        rw [List.isPrefixOf_iff_prefix.mpr h2] at hp; cases hp
    have hlen2 : ¬ (b ++ x).length < l.length := by simp; omega
    simp only [hp2, hlen, hlen2, Bool.false_eq_true, if_false]; rfl
  · have h1 : l <+: b := List.isPrefixOf_iff_prefix.mp hp
    have h2 : l.isPrefixOf (b ++ x) = true :=
      List.isPrefixOf_iff_prefix.mpr (h1.trans (List.prefix_append b x))
    simp only [h2, if_true]
    rw [List.drop_append_of_le_length h1.length_le]; rfl

theorem parseLit_suffix {b l r : Bytes} {k k' : Kind} (h : parseLit b l k = .ok k' r) : r <:+ b ∧ k' = k := by
  unfold parseLit at h
  split at h
  · cases h; exact ⟨List.drop_suffix _ _, rfl⟩
  · split at h <;> cases h

/-! ### numbers -/

/-- the `1*DIGIT` of the exponent -/
def expDigits (r5 : Bytes) : PR :=
  match r5 with
  | [] => .err true
  | x :: _ => if !isDigit x then .err true else .ok .float (skipDigits r5)

theorem expDigits_stable (r5 x : Bytes) (h : DefN (expDigits r5)) :
    expDigits (r5 ++ x) = ext x (expDigits r5) := by
  cases r5 with
  | nil => exact absurd h (by simp [expDigits, DefN])
  | cons y t =>
    simp only [expDigits, List.cons_append] at h ⊢
    cases hy : isDigit y
    · simp only [hy, Bool.not_false, if_true, DefN] at h; cases h
    · simp only [hy, Bool.not_true, Bool.false_eq_true, if_false, DefN] at h ⊢
      rw [← List.cons_append, skipDigits_append x h]; rfl

theorem expPart_cons (k : Kind) (e : UInt8) (r4 : Bytes) :
    expPart k (e :: r4) =
      if e == 0x65 || e == 0x45 then
        expDigits (match r4 with
          | s :: r => if s == 0x2b || s == 0x2d then r else r4
          | [] => r4)
      else .ok k (e :: r4) := rfl

theorem expPart_stable (k : Kind) (b3 x : Bytes) (h : DefN (expPart k b3)) :
    expPart k (b3 ++ x) = ext x (expPart k b3) := by
  cases b3 with
  | nil => exact absurd rfl h
  | cons e r4 =>
    rw [List.cons_append, expPart_cons, expPart_cons] at *
    split
    · rename_i he
      simp only [he, if_true] at h
      cases r4 with
      | nil => exact absurd h (by simp [expDigits, DefN])
      | cons s r =>
        simp only [List.cons_append] at h ⊢
        split
        · rename_i hs; simp only [hs, if_true] at h; exact expDigits_stable _ _ h
        · rename_i hs; simp only [hs] at h; exact expDigits_stable (s :: r) _ h
    · rfl

theorem expPart_defN {k : Kind} {b3 : Bytes} (h : DefN (expPart k b3)) : b3 ≠ [] := by
  intro e; subst e; exact h rfl

theorem fracPart_stable {k k1 : Kind} {b2 b3 : Bytes} (x : Bytes) (h : fracPart k b2 = some (k1, b3)) (h3 : b3 ≠ []) :
    fracPart k (b2 ++ x) = some (k1, b3 ++ x) := by
  cases b2 with
  | nil => rw [fracPart_nil] at h; cases h; exact absurd rfl h3
  | cons c r =>
    rw [List.cons_append, fracPart_cons] at *
    split
    · rename_i hc
      simp only [hc, if_true] at h
      split at h
      · cases h
      · rename_i hl
        cases h
        rw [skipDigits_append x h3]
        have : ¬ ((skipDigits r ++ x).length == (r ++ x).length) = true := by
          simp only [List.length_append, beq_iff_eq] at hl ⊢; omega
        rw [if_neg this]
    · rename_i hc
      simp only [hc] at h
      cases h; rfl

theorem eq_of_suffix_length {a b : Bytes} (h : a <:+ b) (hl : a.length = b.length) : a = b :=
  h.eq_of_length hl

theorem fracPart_none_stable {k : Kind} {b2 : Bytes} (x : Bytes) (h : fracPart k b2 = none) (h2 : ∀ c, b2 ≠ [c]) :
    fracPart k (b2 ++ x) = none ∧ ∀ c, b2 ++ x ≠ [c] := by
  cases b2 with
  | nil => rw [fracPart_nil] at h; cases h
  | cons c r =>
    have hr : r ≠ [] := fun e => h2 c (by rw [e])
    rw [List.cons_append, fracPart_cons] at *
    refine ⟨?_, ?_⟩
    · split
      · rename_i hc
        simp only [hc, if_true] at h
        split at h
        · rename_i hl
          have hl' : (skipDigits r).length = r.length := by simpa using hl
          have he : skipDigits r = r := (skipDigits_suffix r).eq_of_length hl'
          rw [skipDigits_append x (by rw [he]; exact hr), he]; simp
        · cases h
      · rename_i hc; simp only [hc] at h; cases h
    · intro c' e
      cases r with
      | nil => exact hr rfl
      | cons => simp at e

/-- fraction and exponent together, as in `numBody` -/
def fracExp (k : Kind) (b2 : Bytes) : PR :=
  match fracPart k b2 with
  | none => (match b2 with | _ :: [] => .err true | _ => .err false)
  | some (k1, b3) => expPart k1 b3

theorem fracExp_defN {k : Kind} {b2 : Bytes} (h : DefN (fracExp k b2)) : b2 ≠ [] := by
  intro e; subst e; exact h rfl

theorem fracPart_suffix {k k1 : Kind} {b2 b3 : Bytes} (h : fracPart k b2 = some (k1, b3)) : b3 <:+ b2 := by
  cases b2 with
  | nil => cases h; exact List.suffix_refl _
  | cons c r =>
    rw [fracPart_cons] at h
    split at h
    · split at h
      · cases h
      · cases h; exact (skipDigits_suffix r).trans (List.suffix_cons _ _)
    · cases h; exact List.suffix_refl _

theorem fracExp_stable (k : Kind) (b2 x : Bytes) (h : DefN (fracExp k b2)) :
    fracExp k (b2 ++ x) = ext x (fracExp k b2) := by
  unfold fracExp at *
  cases hf : fracPart k b2 with
  | none =>
    rw [hf] at h
    simp only at h ⊢
    have h2 : ∀ c, b2 ≠ [c] := by intro c e; subst e; simp [DefN] at h
    obtain ⟨h3, h4⟩ := fracPart_none_stable x hf h2
    rw [h3]
    simp only
    rfl
  | some p =>
    obtain ⟨k1, b3⟩ := p
    rw [hf] at h
    simp only at h ⊢
    rw [fracPart_stable x hf (expPart_defN h)]
    exact expPart_stable k1 b3 x h

theorem numBody_cons (k : Kind) (d : UInt8) (r1 : Bytes) :
    numBody k (d :: r1) =
      if !isDigit d then .err false
      else if d == 0x30 then
        match r1 with
        | [] => .ok k r1
        | y :: _ => if y != 0x2e && y != 0x65 && y != 0x45 then .ok k r1 else fracExp k r1
      else fracExp k (skipDigits r1) := by
  cases hd : isDigit d
  · simp only [numBody, hd, Bool.not_false, if_true]
  · cases h0 : (d == 0x30)
    · simp only [numBody, hd, h0, Bool.not_true, Bool.false_eq_true, if_false]; rfl
    · cases r1 with
      | nil => simp only [numBody, hd, h0, Bool.not_true, Bool.false_eq_true, if_false, if_true]
      | cons y t =>
        cases hy : (y != 0x2e && y != 0x65 && y != 0x45)
        · simp only [numBody, hd, h0, hy, Bool.not_true, Bool.false_eq_true, if_false, if_true]; rfl
        · simp only [numBody, hd, h0, hy, Bool.not_true, Bool.false_eq_true, if_false, if_true]

theorem numBody_stable (k : Kind) (b1 x : Bytes) (h : DefN (numBody k b1)) :
    numBody k (b1 ++ x) = ext x (numBody k b1) := by
  cases b1 with
  | nil => exact absurd h (by simp [numBody, DefN])
  | cons d r1 =>
    rw [List.cons_append, numBody_cons, numBody_cons] at *
    split
    · rfl
    · rename_i hd
      simp only [hd] at h
      split
      · rename_i h0
        simp only [h0, if_true] at h
        cases r1 with
        | nil => exact absurd rfl h
        | cons y t =>
          simp only [List.cons_append] at h ⊢
          split
          · rfl
          · rename_i hy; simp only [hy] at h
            exact fracExp_stable k (y :: t) x h
      · rename_i h0
        simp only [h0] at h
        rw [skipDigits_append x (fracExp_defN h)]
        exact fracExp_stable k _ x h

theorem parseNumber_stable (b x : Bytes) (h : DefN (parseNumber b)) :
    parseNumber (b ++ x) = ext x (parseNumber b) := by
  cases b with
  | nil => exact absurd h (by simp [parseNumber, DefN])
  | cons c r =>
    rw [List.cons_append, parseNumber_cons, parseNumber_cons] at *
    split
    · rename_i hc; simp only [hc, if_true] at h; exact numBody_stable _ _ _ h
    · rename_i hc; simp only [hc] at h; exact numBody_stable _ (c :: r) _ h

/-- the exclusion of `ok k []` in `DefN` is necessary: "1" parses to `ok uint ""`, "12" to `ok uint ""`, not to `ok uint "2"` -/
example : parseNumber [0x31] = .ok .uint [] ∧ parseNumber ([0x31] ++ [0x32]) = .ok .uint [] := by decide

theorem expDigits_kind {r5 r : Bytes} {k : Kind} (h : expDigits r5 = .ok k r) : k = .float := by
  unfold expDigits at h
  split at h
  · cases h
  · split at h <;> cases h; rfl

theorem expPart_kind {k0 k : Kind} {b3 r : Bytes} (h : expPart k0 b3 = .ok k r) : k = k0 ∨ k = .float := by
  cases b3 with
  | nil => cases h; exact Or.inl rfl
  | cons e r4 =>
    rw [expPart_cons] at h
    split at h
    · exact Or.inr (expDigits_kind h)
    · cases h; exact Or.inl rfl

theorem fracPart_kind {k0 k1 : Kind} {b2 b3 : Bytes} (h : fracPart k0 b2 = some (k1, b3)) : k1 = k0 ∨ k1 = .float := by
  cases b2 with
  | nil => cases h; exact Or.inl rfl
  | cons c r =>
    rw [fracPart_cons] at h
    split at h
    · split at h
      · cases h
      · cases h; exact Or.inr rfl
    · cases h; exact Or.inl rfl

theorem fracExp_kind {k0 k : Kind} {b2 r : Bytes} (h : fracExp k0 b2 = .ok k r) : k = k0 ∨ k = .float := by
  unfold fracExp at h
  cases hf : fracPart k0 b2 with
  | none => rw [hf] at h; simp only at h; split at h <;> cases h
  | some p =>
    obtain ⟨k1, b3⟩ := p
    rw [hf] at h; simp only at h
    rcases expPart_kind h with e | e
    · rw [e]; exact fracPart_kind hf
    · exact Or.inr e

theorem numBody_kind {k0 k : Kind} {b1 r : Bytes} (h : numBody k0 b1 = .ok k r) : k = k0 ∨ k = .float := by
  cases b1 with
  | nil => cases h
  | cons d r1 =>
    rw [numBody_cons] at h
    split at h
    · cases h
    · split at h
      · cases r1 with
        | nil => cases h; exact Or.inl rfl
        | cons y t =>
          simp only at h
          split at h
          · cases h; exact Or.inl rfl
          · exact fracExp_kind h
      · exact fracExp_kind h

theorem parseNumber_kind {b r : Bytes} {k : Kind} (h : parseNumber b = .ok k r) : k.isNum = true := by
  cases b with
  | nil => cases h
  | cons c t =>
    rw [parseNumber_cons] at h
    split at h
    · rcases numBody_kind h with e | e <;> rw [e] <;> rfl
    · rcases numBody_kind h with e | e <;> rw [e] <;> rfl

theorem parseNumber_suffix {b r : Bytes} {k : Kind} (h : parseNumber b = .ok k r) : r <:+ b := by
  have := parseNumber_toOpt b
  rw [h] at this
  exact (JsonGrammar.number_sfx this.symm).1

/-! ### strings -/

theorem stringLoop_stable_aux (x : Bytes) : ∀ (n : Nat) (b : Bytes), b.length ≤ n → Def (stringLoop b) →
    stringLoop (b ++ x) = ext x (stringLoop b) := by
  intro n
  induction n with
  | zero => intro b hb h; cases b with
    | nil => exact absurd rfl h
    | cons => simp at hb
  | succ n ih =>
    intro b hb h
    match b, hb, h with
    | [], _, h => exact absurd rfl h
    | c :: r, hb, h =>
      have hr : r.length ≤ n := by simpa using hb
      rw [stringLoop_cons] at h
      rw [List.cons_append, stringLoop_cons c (r ++ x), stringLoop_cons c r]
      by_cases h5 : c = 0x5c
      · subst h5
        match r, hr, h with
        | [], _, h => exact absurd rfl h
        | e :: r2, hr, h =>
          have hr2 : r2.length ≤ n := by simp at hr; omega
          simp only [beq_self_eq_true, if_true, List.cons_append] at h ⊢
          split
          · rename_i he; simp only [he, if_true] at h; exact ih r2 hr2 h
          · rename_i he; simp only [he] at h
            split
            · rename_i hu; simp only [hu, if_true] at h
              match r2, hr2, h with
              | h1 :: h2 :: h3 :: h4 :: r3, hr2, h =>
                have hr3 : r3.length ≤ n := by simp at hr2; omega
                simp only [List.cons_append] at h ⊢
                split
                · rename_i hh; simp only [hh, if_true] at h; exact ih r3 hr3 h
                · rename_i hh; simp only [hh] at h
                  have := Def_err h
                  have hne : r3 ≠ [] := by intro e; subst e; simp at this
                  have : (r3 ++ x).isEmpty = false := by
                    cases r3 with
                    | nil => exact absurd rfl hne
                    | cons => rfl
                  rw [this]
                  cases r3 with
                  | nil => exact absurd rfl hne
                  | cons => rfl
              | [], _, h => exact absurd rfl h
              | [_], _, h => exact absurd rfl h
              | [_, _], _, h => exact absurd rfl h
              | [_, _, _], _, h => exact absurd rfl h
            · rfl
      · have h5' : (c == 0x5c) = false := by simpa using h5
        simp only [h5', Bool.false_eq_true, if_false] at h ⊢
        split
        · rfl
        · rename_i h2; simp only [h2] at h
          split
          · rfl
          · rename_i h3; simp only [h3] at h
            exact ih r hr h

theorem stringLoop_stable (b x : Bytes) (h : Def (stringLoop b)) : stringLoop (b ++ x) = ext x (stringLoop b) :=
  stringLoop_stable_aux x b.length b (Nat.le_refl _) h

theorem indexByte_append {b : Bytes} {c : UInt8} {i : Nat} (x : Bytes) (h : indexByte b c = some i) :
    indexByte (b ++ x) c = some i := by
  induction b generalizing i with
  | nil => cases h
  | cons y r ih =>
    rw [List.cons_append, indexByte_cons] at *
    split
    · rename_i hy; simpa only [hy, if_true] using h
    · rename_i hy; simp only [hy] at h
      cases hr : indexByte r c with
      | none => rw [hr] at h; cases h
      | some j => rw [hr] at h; rw [ih hr]; exact h

theorem indexByte_lt {b : Bytes} {c : UInt8} {i : Nat} (h : indexByte b c = some i) : i < b.length := by
  obtain ⟨p, q, rfl, hl, _⟩ := indexByte_some h
  simp; omega

/-- the test guarding the early return of `parseString` -/
def fastOk (fl : PFlags) (inner : Bytes) : Bool :=
  (fl.noBackslash || !inner.contains 0x5c) && (fl.validAsciiPrint || validPrint inner)

theorem parseString_quote (fl : PFlags) (c : UInt8) (r : Bytes) :
    parseString fl (0x22 :: c :: r) =
      match indexByte (c :: r) 0x22 with
      | none => .err true
      | some i =>
        if fastOk fl ((List.take (i + 2) (0x22 :: c :: r)).drop 1) then .ok .unescaped (List.drop (i + 2) (0x22 :: c :: r))
        else stringLoop (c :: r) := by
  have hlen : ¬ ((0x22 : UInt8) :: c :: r).length < 2 := by simp
  simp only [parseString, hlen, if_false, findQuote_spec, List.drop_succ_cons, List.drop_zero]
  simp only [bne_self_eq_false, Bool.false_eq_true, if_false]
  cases indexByte (c :: r) 0x22 <;> rfl

theorem parseString_not_quote (fl : PFlags) (q c : UInt8) (r : Bytes) (hq : q ≠ 0x22) :
    parseString fl (q :: c :: r) = .err false := by
  have hq' : (q == 0x22) = false := by simpa using hq
  have hlen : ¬ (q :: c :: r).length < 2 := by simp
  simp only [parseString, hlen, if_false, hq', bne, Bool.not_false, if_true]

theorem parseString_short (fl : PFlags) (b : Bytes) (h : b.length < 2) : parseString fl b = .err true := by
  simp only [parseString, h, if_true]

theorem parseString_stable (fl : PFlags) (b x : Bytes) (h : Def (parseString fl b)) :
    parseString fl (b ++ x) = ext x (parseString fl b) := by
  match b, h with
  | [], h => exact absurd rfl h
  | [q], h => exact absurd (parseString_short fl [q] (by simp)) h
  | q :: c :: r, h =>
    by_cases hq : q = 0x22
    · subst hq
      simp only [List.cons_append]
      rw [parseString_quote] at h
      rw [parseString_quote, parseString_quote]
      cases hi : indexByte (c :: r) 0x22 with
      | none => rw [hi] at h; exact absurd rfl h
      | some i =>
        have hi2 := indexByte_append x hi
        have hlt := indexByte_lt hi
        rw [hi] at h
        rw [List.cons_append] at hi2
        rw [hi2]
        simp only at h ⊢
        have hle : i + 2 ≤ ((0x22 : UInt8) :: c :: r).length := by simp at hlt ⊢; omega
        have e1 : List.take (i + 2) (0x22 :: c :: (r ++ x)) = List.take (i + 2) (0x22 :: c :: r) :=
          List.take_append_of_le_length (l₁ := 0x22 :: c :: r) hle
        have e2 : List.drop (i + 2) (0x22 :: c :: (r ++ x)) = List.drop (i + 2) (0x22 :: c :: r) ++ x :=
          List.drop_append_of_le_length (l₁ := 0x22 :: c :: r) hle
        rw [e1, e2]
        split
        · rfl
        · rename_i hc; simp only [hc] at h
          exact stringLoop_stable (c :: r) x h
    · simp only [List.cons_append]
      rw [parseString_not_quote fl q c r hq, parseString_not_quote fl q c _ hq]; rfl

/-! ### values, arrays, objects -/

theorem DefV.def {R : PR} (h : DefV R) : Def R := by
  cases R with
  | ok k r => intro e; cases e
  | err e => intro e'; cases e'; cases h

theorem parseValue_zero (fl : PFlags) (dp : Nat) (b : Bytes) : parseValue fl dp 0 b = .err true := by simp [parseValue]
theorem parseArray_zero (fl : PFlags) (dp : Nat) (b : Bytes) : parseArray fl dp 0 b = .err true := by simp [parseArray]
theorem parseObject_zero (fl : PFlags) (dp : Nat) (b : Bytes) : parseObject fl dp 0 b = .err true := by simp [parseObject]
theorem arrayLoop_zero (fl : PFlags) (dp : Nat) (b : Bytes) (i : Nat) : arrayLoop fl dp 0 b i = .err true := by simp [arrayLoop]
theorem objectLoop_zero (fl : PFlags) (dp : Nat) (b : Bytes) (i : Nat) : objectLoop fl dp 0 b i = .err true := by simp [objectLoop]
theorem parseArray_nil (fl : PFlags) (dp : Nat) (f : Nat) : parseArray fl dp f [] = .err true := by cases f <;> simp [parseArray]
theorem parseObject_nil (fl : PFlags) (dp : Nat) (f : Nat) : parseObject fl dp f [] = .err true := by cases f <;> simp [parseObject]
theorem arrayLoop_nil (fl : PFlags) (dp : Nat) (f i : Nat) : arrayLoop fl dp f [] i = .err true := by
  cases f
  · exact arrayLoop_zero _ _ _ _
  · rw [arrayLoop_succ]; rfl
theorem objectLoop_nil (fl : PFlags) (dp : Nat) (f i : Nat) : objectLoop fl dp f [] i = .err true := by
  cases f
  · exact objectLoop_zero _ _ _ _
  · rw [objectLoop_succ]; rfl

theorem sepK_stable (close c : UInt8) (rest : Bytes) (i : Nat) (x : Bytes) (M : Bytes → PR)
    (hd : Def (sepK (afterSep close i (c :: rest) c rest) M))
    (hM : ∀ b3, b3 ≠ [] → Def (M b3) → M (b3 ++ x) = ext x (M b3)) :
    sepK (afterSep close i (c :: (rest ++ x)) c (rest ++ x)) M =
      ext x (sepK (afterSep close i (c :: rest) c rest) M) := by
  cases i with
  | zero => exact hM (c :: rest) (by simp) hd
  | succ j =>
    have h1 : (j + 1 != 0) = true := by simp
    simp only [afterSep, h1, if_true] at hd ⊢
    cases hc : (c != 0x2c)
    · simp only [hc, Bool.false_eq_true, if_false] at hd ⊢
      cases hs : skipSpaces rest with
      | nil => rw [hs] at hd; exact absurd rfl hd
      | cons y t =>
        rw [hs] at hd
        rw [skipSpaces_append x (by rw [hs]; simp), hs]
        simp only [List.cons_append] at hd ⊢
        cases hy : (y == close)
        · simp only [hy, Bool.false_eq_true, if_false] at hd ⊢
          exact hM (y :: t) (by simp) hd
        · simp only [if_true]; rfl
    · simp only [if_true]; rfl

def SV (fl : PFlags) (f : Nat) : Prop :=
  ∀ dp b x, DefV (parseValue fl dp f b) → parseValue fl dp f (b ++ x) = ext x (parseValue fl dp f b)
def SA (fl : PFlags) (f : Nat) : Prop :=
  ∀ dp b x, Def (parseArray fl dp f b) → parseArray fl dp f (b ++ x) = ext x (parseArray fl dp f b)
def SAL (fl : PFlags) (f : Nat) : Prop :=
  ∀ dp b i x, Def (arrayLoop fl dp f b i) → arrayLoop fl dp f (b ++ x) i = ext x (arrayLoop fl dp f b i)
def SO (fl : PFlags) (f : Nat) : Prop :=
  ∀ dp b x, Def (parseObject fl dp f b) → parseObject fl dp f (b ++ x) = ext x (parseObject fl dp f b)
def SOL (fl : PFlags) (f : Nat) : Prop :=
  ∀ dp b i x, Def (objectLoop fl dp f b i) → objectLoop fl dp f (b ++ x) i = ext x (objectLoop fl dp f b i)

theorem sv_step {fl : PFlags} {g : Nat} (hA : SA fl g) (hO : SO fl g) : SV fl (g + 1) := by
  intro dp b x h
  cases b with
  | nil => rw [parseValue_nil] at h; cases h
  | cons c r =>
    rw [parseValue_succ_cons] at h
    rw [List.cons_append, parseValue_succ_cons, parseValue_succ_cons]
    split
    · rename_i hc; simp only [hc, if_true] at h; exact hO dp (c :: r) x h.def
    rename_i hc; simp only [hc] at h
    split
    · rename_i hc; simp only [hc, if_true] at h; exact hA dp (c :: r) x h.def
    rename_i hc; simp only [hc] at h
    split
    · rename_i hc; simp only [hc, if_true] at h; exact parseString_stable fl (c :: r) x h.def
    rename_i hc; simp only [hc] at h
    split
    · rename_i hc; simp only [hc, if_true] at h; exact parseLit_stable (c :: r) _ x _ h.def
    rename_i hc; simp only [hc] at h
    split
    · rename_i hc; simp only [hc, if_true] at h; exact parseLit_stable (c :: r) _ x _ h.def
    rename_i hc; simp only [hc] at h
    split
    · rename_i hc; simp only [hc, if_true] at h; exact parseLit_stable (c :: r) _ x _ h.def
    rename_i hc; simp only [hc] at h
    split
    · rename_i hc; simp only [hc, if_true] at h
      apply parseNumber_stable (c :: r) x
      cases hp : parseNumber (c :: r) with
      | err e => rw [hp] at h; exact h
      | ok k r' =>
        rw [hp] at h
        rcases h with h | h
        · exact h
        · rw [parseNumber_kind hp] at h; cases h
    · rfl

theorem sa_step {fl : PFlags} {g : Nat} (hL : SAL fl g) : SA fl (g + 1) := by
  intro dp b x h
  cases b with
  | nil => rw [parseArray_nil] at h; exact absurd rfl h
  | cons c rest =>
    rw [parseArray_succ_cons] at h
    rw [List.cons_append, parseArray_succ_cons, parseArray_succ_cons]
    by_cases hr : rest = []
    · simp only [hr, if_true] at h; exact absurd rfl h
    · have hr2 : rest ++ x ≠ [] := by simp [hr]
      simp only [hr, hr2, if_false] at h ⊢
      -- a refused nesting is `err false` on both sides
      cases hn : nestOK dp
      · rfl
      · simp only [hn, if_true] at h ⊢
        exact hL _ rest 0 x h

theorem so_step {fl : PFlags} {g : Nat} (hL : SOL fl g) : SO fl (g + 1) := by
  intro dp b x h
  cases b with
  | nil => rw [parseObject_nil] at h; exact absurd rfl h
  | cons c rest =>
    rw [parseObject_succ_cons] at h
    rw [List.cons_append, parseObject_succ_cons, parseObject_succ_cons]
    by_cases hr : rest = []
    · simp only [hr, if_true] at h; exact absurd rfl h
    · have hr2 : rest ++ x ≠ [] := by simp [hr]
      simp only [hr, hr2, if_false] at h ⊢
      -- a refused nesting is `err false` on both sides
      cases hn : nestOK dp
      · rfl
      · simp only [hn, if_true] at h ⊢
        exact hL _ rest 0 x h

theorem sal_step {fl : PFlags} {g : Nat} (hV : SV fl g) (hL : SAL fl g) : SAL fl (g + 1) := by
  intro dp b i x h
  rw [arrayLoop_succ] at h
  rw [arrayLoop_succ, arrayLoop_succ]
  cases hs : skipSpaces b with
  | nil => rw [hs] at h; exact absurd rfl h
  | cons c rest =>
    rw [hs] at h
    rw [skipSpaces_append x (by rw [hs]; simp), hs]
    simp only [List.cons_append] at h ⊢
    split
    · rfl
    · rename_i hc; simp only [hc] at h
      apply sepK_stable _ _ _ _ _ _ h
      intro b3 _ hd
      cases hp : parseValue fl dp g b3 with
      | err e =>
        rw [hp] at hd
        have := Def_err hd; subst this
        rw [hV dp b3 x (by rw [hp]; rfl), hp]; rfl
      | ok k r =>
        rw [hp] at hd
        simp only at hd
        have hr : r ≠ [] := by intro e; subst e; exact hd (arrayLoop_nil _ _ _ _)
        rw [hV dp b3 x (by rw [hp]; exact Or.inl hr), hp]
        exact hL dp r (i + 1) x hd

theorem sol_step {fl : PFlags} {g : Nat} (hV : SV fl g) (hL : SOL fl g) : SOL fl (g + 1) := by
  intro dp b i x h
  rw [objectLoop_succ] at h
  rw [objectLoop_succ, objectLoop_succ]
  cases hs : skipSpaces b with
  | nil => rw [hs] at h; exact absurd rfl h
  | cons c rest =>
    rw [hs] at h
    rw [skipSpaces_append x (by rw [hs]; simp), hs]
    simp only [List.cons_append] at h ⊢
    split
    · rfl
    · rename_i hc; simp only [hc] at h
      apply sepK_stable _ _ _ _ _ _ h
      intro b3 _ hd
      cases hp : parseString fl b3 with
      | err e =>
        rw [hp] at hd
        have := Def_err hd; subst this
        rw [parseString_stable fl b3 x (by rw [hp]; exact hd), hp]; rfl
      | ok k r =>
        rw [hp] at hd
        rw [parseString_stable fl b3 x (by rw [hp]; intro e; cases e), hp]
        simp only [ext_ok] at hd ⊢
        cases hs2 : skipSpaces r with
        | nil => rw [hs2] at hd; exact absurd rfl hd
        | cons y r2 =>
          rw [hs2] at hd
          rw [skipSpaces_append x (by rw [hs2]; simp), hs2]
          simp only [List.cons_append] at hd ⊢
          split
          · rfl
          · rename_i hy; simp only [hy] at hd
            cases hp2 : parseValue fl dp g (skipSpaces r2) with
            | err e =>
              rw [hp2] at hd
              have := Def_err hd; subst this
              have hne : skipSpaces r2 ≠ [] := by
                intro e; rw [e, parseValue_nil] at hp2; cases hp2
              rw [skipSpaces_append x hne, hV dp _ x (by rw [hp2]; rfl), hp2]; rfl
            | ok k2 r3 =>
              rw [hp2] at hd
              simp only at hd
              have hne : skipSpaces r2 ≠ [] := by
                intro e; rw [e, parseValue_nil] at hp2; cases hp2
              have hr : r3 ≠ [] := by intro e; subst e; exact hd (objectLoop_nil _ _ _ _)
              rw [skipSpaces_append x hne, hV dp _ x (by rw [hp2]; exact Or.inl hr), hp2]
              exact hL dp r3 (i + 1) x hd

theorem all_stable (fl : PFlags) (f : Nat) : SV fl f ∧ SA fl f ∧ SAL fl f ∧ SO fl f ∧ SOL fl f := by
  induction f with
  | zero =>
    refine ⟨?_, ?_, ?_, ?_, ?_⟩
    · intro dp b x h; rw [parseValue_zero] at h; cases h
    · intro dp b x h; rw [parseArray_zero] at h; exact absurd rfl h
    · intro dp b i x h; rw [arrayLoop_zero] at h; exact absurd rfl h
    · intro dp b x h; rw [parseObject_zero] at h; exact absurd rfl h
    · intro dp b i x h; rw [objectLoop_zero] at h; exact absurd rfl h
  | succ g ih =>
    obtain ⟨hV, hA, hAL, hO, hOL⟩ := ih
    exact ⟨sv_step hA hO, sa_step hAL, sal_step hV hAL, so_step hOL, sol_step hV hOL⟩

theorem parseValue_stable (fl : PFlags) (dp f : Nat) (b x : Bytes) (h : DefV (parseValue fl dp f b)) :
    parseValue fl dp f (b ++ x) = ext x (parseValue fl dp f b) := (all_stable fl f).1 dp b x h

/-- a successful parse whose value is self-delimited (not a number) or is followed by at least one byte is not changed
by appending more input -/
theorem ok_stable (fl : PFlags) (dp f : Nat) (b x r : Bytes) (k : Kind)
    (h : parseValue fl dp f b = .ok k r) (hd : r ≠ [] ∨ k.isNum = false) :
    parseValue fl dp f (b ++ x) = .ok k (r ++ x) := by
  rw [parseValue_stable fl dp f b x (by rw [h]; exact hd), h]; rfl

/-- a definitive syntax error is not changed by appending more input -/
theorem err_stable (fl : PFlags) (dp f : Nat) (b x : Bytes)
    (h : parseValue fl dp f b = .err false) : parseValue fl dp f (b ++ x) = .err false := by
  rw [parseValue_stable fl dp f b x (by rw [h]; rfl), h]; rfl

/-! ### second stage: the separator step, generically -/

/-- the separator check either fails (`none`), runs out of input (`some []`), or hands a non-empty suffix of the loop's
input to the item parser -/
theorem afterSep_cases (close c : UInt8) (rest : Bytes) (i : Nat) :
    afterSep close i (c :: rest) c rest = none ∨ afterSep close i (c :: rest) c rest = some [] ∨
    ∃ b3, b3 ≠ [] ∧ b3 <:+ c :: rest ∧ afterSep close i (c :: rest) c rest = some b3 := by
  cases i with
  | zero => exact Or.inr (Or.inr ⟨c :: rest, by simp, List.suffix_refl _, rfl⟩)
  | succ j =>
    have h1 : (j + 1 != 0) = true := by simp
    simp only [afterSep, h1, if_true]
    cases hc : (c != 0x2c)
    · simp only [Bool.false_eq_true, if_false]
      cases hs : skipSpaces rest with
      | nil => exact Or.inr (Or.inl rfl)
      | cons y t =>
        simp only
        cases hy : (y == close)
        · simp only [Bool.false_eq_true, if_false]
          refine Or.inr (Or.inr ⟨y :: t, by simp, ?_, rfl⟩)
          rw [← hs]; exact (skipSpaces_suffix rest).trans (List.suffix_cons _ _)
        · exact Or.inl rfl
    · exact Or.inl rfl

theorem sepK_some (b3 : Bytes) (M : Bytes → PR) (h : b3 ≠ []) : sepK (some b3) M = M b3 := by
  cases b3 with
  | nil => exact absurd rfl h
  | cons => rfl

/-- two item parsers that agree on the (non-empty, suffix) argument they are given yield the same separator step -/
theorem sepK_congr (close c : UInt8) (rest : Bytes) (i : Nat) (M M' : Bytes → PR)
    (hM : ∀ b3, b3 ≠ [] → b3 <:+ c :: rest → sepK (afterSep close i (c :: rest) c rest) M = M b3 → M' b3 = M b3) :
    sepK (afterSep close i (c :: rest) c rest) M' = sepK (afterSep close i (c :: rest) c rest) M := by
  rcases afterSep_cases close c rest i with h | h | ⟨b3, hne, hs, ho⟩
  · rw [h]; rfl
  · rw [h]; rfl
  · have := hM b3 hne hs (by rw [ho, sepK_some _ _ hne])
    rw [ho, sepK_some _ _ hne, sepK_some _ _ hne]; exact this

theorem sepK_ok {close c : UInt8} {rest : Bytes} {i : Nat} {M : Bytes → PR} {k : Kind} {r : Bytes}
    (h : sepK (afterSep close i (c :: rest) c rest) M = .ok k r) :
    ∃ b3, b3 <:+ c :: rest ∧ M b3 = .ok k r := by
  rcases afterSep_cases close c rest i with h' | h' | ⟨b3, hne, hs, ho⟩
  · rw [h'] at h; cases h
  · rw [h'] at h; cases h
  · rw [ho, sepK_some _ _ hne] at h; exact ⟨b3, hs, h⟩

/-! ### results are suffixes of the input -/

theorem stringLoop_suffix {b r : Bytes} {k : Kind} (h : stringLoop b = .ok k r) : r <:+ b := by
  have := stringLoop_eq_chars b
  rw [h] at this
  exact (JsonGrammar.chars_suffix b.length b r (Nat.le_refl _) this.symm).1

theorem parseString_suffix {fl : PFlags} {b r : Bytes} {k : Kind} (h : parseString fl b = .ok k r) : r <:+ b := by
  match b, h with
  | [], h => cases h
  | [q], h => rw [parseString_short fl [q] (by simp)] at h; cases h
  | q :: c :: t, h =>
    by_cases hq : q = 0x22
    · subst hq
      rw [parseString_quote] at h
      split at h
      · cases h
      · split at h
        · cases h; exact List.drop_suffix _ _
        · exact (stringLoop_suffix h).trans (List.suffix_cons _ _)
    · rw [parseString_not_quote fl q c t hq] at h; cases h

def XV (fl : PFlags) (f : Nat) : Prop := ∀ dp b k r, parseValue fl dp f b = .ok k r → r <:+ b
def XA (fl : PFlags) (f : Nat) : Prop := ∀ dp b k r, parseArray fl dp f b = .ok k r → r <:+ b
def XAL (fl : PFlags) (f : Nat) : Prop := ∀ dp b i k r, arrayLoop fl dp f b i = .ok k r → r <:+ b
def XO (fl : PFlags) (f : Nat) : Prop := ∀ dp b k r, parseObject fl dp f b = .ok k r → r <:+ b
def XOL (fl : PFlags) (f : Nat) : Prop := ∀ dp b i k r, objectLoop fl dp f b i = .ok k r → r <:+ b

theorem xv_step {fl : PFlags} {g : Nat} (hA : XA fl g) (hO : XO fl g) : XV fl (g + 1) := by
  intro dp b k r h
  cases b with
  | nil => rw [parseValue_nil] at h; cases h
  | cons c t =>
    rw [parseValue_succ_cons] at h
    split at h
    · exact hO dp _ _ _ h
    split at h
    · exact hA dp _ _ _ h
    split at h
    · exact parseString_suffix h
    split at h
    · exact (parseLit_suffix h).1
    split at h
    · exact (parseLit_suffix h).1
    split at h
    · exact (parseLit_suffix h).1
    split at h
    · exact parseNumber_suffix h
    · cases h

theorem xa_step {fl : PFlags} {g : Nat} (hL : XAL fl g) : XA fl (g + 1) := by
  intro dp b k r h
  cases b with
  | nil => rw [parseArray_nil] at h; cases h
  | cons c rest =>
    rw [parseArray_succ_cons] at h
    split at h
    · cases h
    · split at h
      · exact (hL _ _ _ _ _ h).trans (List.suffix_cons _ _)
      · cases h

theorem xo_step {fl : PFlags} {g : Nat} (hL : XOL fl g) : XO fl (g + 1) := by
  intro dp b k r h
  cases b with
  | nil => rw [parseObject_nil] at h; cases h
  | cons c rest =>
    rw [parseObject_succ_cons] at h
    split at h
    · cases h
    · split at h
      · exact (hL _ _ _ _ _ h).trans (List.suffix_cons _ _)
      · cases h

theorem xal_step {fl : PFlags} {g : Nat} (hV : XV fl g) (hL : XAL fl g) : XAL fl (g + 1) := by
  intro dp b i k r h
  rw [arrayLoop_succ] at h
  have hsb := skipSpaces_suffix b
  cases hs : skipSpaces b with
  | nil => rw [hs] at h; cases h
  | cons c rest =>
    rw [hs] at h hsb
    simp only at h
    split at h
    · cases h; exact (List.suffix_cons _ _).trans hsb
    · obtain ⟨b3, hb3, hm⟩ := sepK_ok h
      cases hp : parseValue fl dp g b3 with
      | err e => rw [hp] at hm; cases hm
      | ok k2 r2 =>
        rw [hp] at hm
        exact (((hL dp _ _ _ _ hm).trans (hV dp _ _ _ hp)).trans hb3).trans hsb

theorem xol_step {fl : PFlags} {g : Nat} (hV : XV fl g) (hL : XOL fl g) : XOL fl (g + 1) := by
  intro dp b i k r h
  rw [objectLoop_succ] at h
  have hsb := skipSpaces_suffix b
  cases hs : skipSpaces b with
  | nil => rw [hs] at h; cases h
  | cons c rest =>
    rw [hs] at h hsb
    simp only at h
    split at h
    · cases h; exact (List.suffix_cons _ _).trans hsb
    · obtain ⟨b3, hb3, hm⟩ := sepK_ok h
      cases hp : parseString fl b3 with
      | err e => rw [hp] at hm; cases hm
      | ok k2 r2 =>
        rw [hp] at hm
        simp only at hm
        have h2 := skipSpaces_suffix r2
        cases hs2 : skipSpaces r2 with
        | nil => rw [hs2] at hm; cases hm
        | cons y r3 =>
          rw [hs2] at hm h2
          simp only at hm
          split at hm
          · cases hm
          · cases hp2 : parseValue fl dp g (skipSpaces r3) with
            | err e => rw [hp2] at hm; cases hm
            | ok k4 r4 =>
              rw [hp2] at hm
              have := (hL dp _ _ _ _ hm).trans ((hV dp _ _ _ hp2).trans (skipSpaces_suffix r3))
              exact ((((this.trans (List.suffix_cons _ _)).trans h2).trans (parseString_suffix hp)).trans hb3).trans hsb

theorem all_suffix (fl : PFlags) (f : Nat) : XV fl f ∧ XA fl f ∧ XAL fl f ∧ XO fl f ∧ XOL fl f := by
  induction f with
  | zero =>
    refine ⟨?_, ?_, ?_, ?_, ?_⟩
    · intro dp b k r h; rw [parseValue_zero] at h; cases h
    · intro dp b k r h; rw [parseArray_zero] at h; cases h
    · intro dp b i k r h; rw [arrayLoop_zero] at h; cases h
    · intro dp b k r h; rw [parseObject_zero] at h; cases h
    · intro dp b i k r h; rw [objectLoop_zero] at h; cases h
  | succ g ih =>
    obtain ⟨hV, hA, hAL, hO, hOL⟩ := ih
    exact ⟨xv_step hA hO, xa_step hAL, xal_step hV hAL, xo_step hOL, xol_step hV hOL⟩

/-- whatever `parseValue` leaves over is a suffix of its input (any flags, any fuel) -/
theorem parseValue_suffix {fl : PFlags} {dp f : Nat} {b r : Bytes} {k : Kind} (h : parseValue fl dp f b = .ok k r) : r <:+ b :=
  (all_suffix fl f).1 dp b k r h
theorem arrayLoop_suffix {fl : PFlags} {dp f i : Nat} {b r : Bytes} {k : Kind} (h : arrayLoop fl dp f b i = .ok k r) : r <:+ b :=
  (all_suffix fl f).2.2.1 dp b i k r h
theorem objectLoop_suffix {fl : PFlags} {dp f i : Nat} {b r : Bytes} {k : Kind} (h : objectLoop fl dp f b i = .ok k r) : r <:+ b :=
  (all_suffix fl f).2.2.2.2 dp b i k r h

/-! ### more fuel does not change a verdict other than `err true` -/

def MV (fl : PFlags) (f : Nat) : Prop := ∀ dp b, Def (parseValue fl dp f b) → parseValue fl dp (f + 1) b = parseValue fl dp f b
def MA (fl : PFlags) (f : Nat) : Prop := ∀ dp b, Def (parseArray fl dp f b) → parseArray fl dp (f + 1) b = parseArray fl dp f b
def MAL (fl : PFlags) (f : Nat) : Prop :=
  ∀ dp b i, Def (arrayLoop fl dp f b i) → arrayLoop fl dp (f + 1) b i = arrayLoop fl dp f b i
def MO (fl : PFlags) (f : Nat) : Prop := ∀ dp b, Def (parseObject fl dp f b) → parseObject fl dp (f + 1) b = parseObject fl dp f b
def MOL (fl : PFlags) (f : Nat) : Prop :=
  ∀ dp b i, Def (objectLoop fl dp f b i) → objectLoop fl dp (f + 1) b i = objectLoop fl dp f b i

theorem mv_step {fl : PFlags} {g : Nat} (hA : MA fl g) (hO : MO fl g) : MV fl (g + 1) := by
  intro dp b h
  cases b with
  | nil => rw [parseValue_nil, parseValue_nil]
  | cons c r =>
    rw [parseValue_succ_cons] at h
    rw [parseValue_succ_cons, parseValue_succ_cons]
    split
    · rename_i hc; simp only [hc, if_true] at h; exact hO dp _ h
    rename_i hc; simp only [hc] at h
    split
    · rename_i hc; simp only [hc, if_true] at h; exact hA dp _ h
    · rfl

theorem ma_step {fl : PFlags} {g : Nat} (hL : MAL fl g) : MA fl (g + 1) := by
  intro dp b h
  cases b with
  | nil => rw [parseArray_nil, parseArray_nil]
  | cons c rest =>
    rw [parseArray_succ_cons] at h
    rw [parseArray_succ_cons, parseArray_succ_cons]
    split
    · rfl
    · rename_i hr; simp only [hr, if_false] at h
      split
      · rename_i hn; simp only [hn, if_true] at h; exact hL _ _ _ h
      · rfl

theorem mo_step {fl : PFlags} {g : Nat} (hL : MOL fl g) : MO fl (g + 1) := by
  intro dp b h
  cases b with
  | nil => rw [parseObject_nil, parseObject_nil]
  | cons c rest =>
    rw [parseObject_succ_cons] at h
    rw [parseObject_succ_cons, parseObject_succ_cons]
    split
    · rfl
    · rename_i hr; simp only [hr, if_false] at h
      split
      · rename_i hn; simp only [hn, if_true] at h; exact hL _ _ _ h
      · rfl

theorem mal_step {fl : PFlags} {g : Nat} (hV : MV fl g) (hL : MAL fl g) : MAL fl (g + 1) := by
  intro dp b i h
  rw [arrayLoop_succ] at h
  rw [arrayLoop_succ, arrayLoop_succ]
  cases hs : skipSpaces b with
  | nil => rfl
  | cons c rest =>
    rw [hs] at h
    simp only at h ⊢
    split
    · rfl
    · rename_i hc; simp only [hc] at h
      apply sepK_congr
      intro b3 _ _ he
      rw [he] at h
      cases hp : parseValue fl dp g b3 with
      | err e =>
        rw [hp] at h
        rw [hV dp b3 (by rw [hp]; exact h), hp]
      | ok k r =>
        rw [hp] at h
        rw [hV dp b3 (by rw [hp]; intro e; cases e), hp]
        exact hL dp r (i + 1) h

theorem mol_step {fl : PFlags} {g : Nat} (hV : MV fl g) (hL : MOL fl g) : MOL fl (g + 1) := by
  intro dp b i h
  rw [objectLoop_succ] at h
  rw [objectLoop_succ, objectLoop_succ]
  cases hs : skipSpaces b with
  | nil => rfl
  | cons c rest =>
    rw [hs] at h
    simp only at h ⊢
    split
    · rfl
    · rename_i hc; simp only [hc] at h
      apply sepK_congr
      intro b3 _ _ he
      rw [he] at h
      cases hp : parseString fl b3 with
      | err e => rfl
      | ok k r =>
        rw [hp] at h
        simp only at h ⊢
        cases hs2 : skipSpaces r with
        | nil => rfl
        | cons y r2 =>
          rw [hs2] at h
          simp only at h ⊢
          split
          · rfl
          · rename_i hy; simp only [hy] at h
            cases hp2 : parseValue fl dp g (skipSpaces r2) with
            | err e =>
              rw [hp2] at h
              rw [hV dp _ (by rw [hp2]; exact h), hp2]
            | ok k2 r3 =>
              rw [hp2] at h
              rw [hV dp _ (by rw [hp2]; intro e; cases e), hp2]
              exact hL dp r3 (i + 1) h

theorem all_mono (fl : PFlags) (f : Nat) : MV fl f ∧ MA fl f ∧ MAL fl f ∧ MO fl f ∧ MOL fl f := by
  induction f with
  | zero =>
    refine ⟨?_, ?_, ?_, ?_, ?_⟩
    · intro dp b h; rw [parseValue_zero] at h; exact absurd rfl h
    · intro dp b h; rw [parseArray_zero] at h; exact absurd rfl h
    · intro dp b i h; rw [arrayLoop_zero] at h; exact absurd rfl h
    · intro dp b h; rw [parseObject_zero] at h; exact absurd rfl h
    · intro dp b i h; rw [objectLoop_zero] at h; exact absurd rfl h
  | succ g ih =>
    obtain ⟨hV, hA, hAL, hO, hOL⟩ := ih
    exact ⟨mv_step hA hO, ma_step hAL, mal_step hV hAL, mo_step hOL, mol_step hV hOL⟩

/-- fuel monotonicity: a verdict other than "need more input" is kept with one more unit of fuel -/
theorem parseValue_fuel_succ (fl : PFlags) (dp f : Nat) (b : Bytes) (R : PR)
    (h : parseValue fl dp f b = R) (hd : R ≠ .err true) : parseValue fl dp (f + 1) b = R := by
  subst h; exact (all_mono fl f).1 dp b hd

/-- … hence with any larger fuel -/
theorem parseValue_fuel_mono (fl : PFlags) (dp f f' : Nat) (b : Bytes) (R : PR) (hf : f ≤ f')
    (h : parseValue fl dp f b = R) (hd : R ≠ .err true) : parseValue fl dp f' b = R := by
  induction hf with
  | refl => exact h
  | step _ ih => exact parseValue_fuel_succ fl dp _ b R ih hd

theorem parseArray_fuel_mono (fl : PFlags) (dp f f' : Nat) (b : Bytes) (R : PR) (hf : f ≤ f')
    (h : parseArray fl dp f b = R) (hd : R ≠ .err true) : parseArray fl dp f' b = R := by
  induction hf with
  | refl => exact h
  | step _ ih => rw [← ih]; exact (all_mono fl _).2.1 dp b (by rw [ih]; exact hd)
theorem arrayLoop_fuel_mono (fl : PFlags) (dp f f' : Nat) (b : Bytes) (i : Nat) (R : PR) (hf : f ≤ f')
    (h : arrayLoop fl dp f b i = R) (hd : R ≠ .err true) : arrayLoop fl dp f' b i = R := by
  induction hf with
  | refl => exact h
  | step _ ih => rw [← ih]; exact (all_mono fl _).2.2.1 dp b i (by rw [ih]; exact hd)
theorem parseObject_fuel_mono (fl : PFlags) (dp f f' : Nat) (b : Bytes) (R : PR) (hf : f ≤ f')
    (h : parseObject fl dp f b = R) (hd : R ≠ .err true) : parseObject fl dp f' b = R := by
  induction hf with
  | refl => exact h
  | step _ ih => rw [← ih]; exact (all_mono fl _).2.2.2.1 dp b (by rw [ih]; exact hd)
theorem objectLoop_fuel_mono (fl : PFlags) (dp f f' : Nat) (b : Bytes) (i : Nat) (R : PR) (hf : f ≤ f')
    (h : objectLoop fl dp f b i = R) (hd : R ≠ .err true) : objectLoop fl dp f' b i = R := by
  induction hf with
  | refl => exact h
  | step _ ih => rw [← ih]; exact (all_mono fl _).2.2.2.2 dp b i (by rw [ih]; exact hd)

/-! ### sound flags are irrelevant -/

theorem fastOk_sound {fl : PFlags} {p : Bytes} (h : FlagsSound fl p) :
    fastOk fl (p ++ [0x22]) = fastOk {} (p ++ [0x22]) := by
  have h1 : fl.noBackslash = true → (p ++ [0x22]).contains 0x5c = false := by
    intro hn
    have := h.1 hn
    simp [this]
  have h2 : fl.validAsciiPrint = true → validPrint (p ++ [0x22]) = true := by
    intro hv
    rw [validPrint_iff]
    intro c hc
    rcases List.mem_append.mp hc with hc | hc
    · exact h.2 hv c hc
    · have : c = 0x22 := by simpa using hc
      subst this; decide
  simp only [fastOk]
  cases hn : fl.noBackslash <;> cases hv : fl.validAsciiPrint
  · rfl
  · rw [h2 hv]; rfl
  · rw [h1 hn]; rfl
  · rw [h1 hn, h2 hv]; rfl

/-- with flags that are sound before every quotation mark, `parseString` does not depend on the flags -/
theorem parseString_flags (fl : PFlags) (b : Bytes) (hq : QSound fl b) : parseString fl b = parseString {} b := by
  match b, hq with
  | [], _ => rfl
  | [q], _ => rw [parseString_short fl [q] (by simp), parseString_short {} [q] (by simp)]
  | q :: c :: r, hq =>
    by_cases h22 : q = 0x22
    · subst h22
      rw [parseString_quote, parseString_quote]
      cases hi : indexByte (c :: r) 0x22 with
      | none => rfl
      | some i =>
        obtain ⟨p, q', hb, hl, hp⟩ := indexByte_some hi
        simp only
        have hinner : (List.take (i + 2) (0x22 :: c :: r)).drop 1 = p ++ [0x22] := by
          rw [hb]; subst hl; simp only [List.take_succ_cons, List.drop_succ_cons, List.drop_zero, take_len_succ]
        have hfs : FlagsSound fl p :=
          (hq (0x22 :: p) q' (by rw [hb]; rfl)).sublist (List.sublist_cons_self _ _)
        rw [hinner, fastOk_sound hfs]
    · rw [parseString_not_quote fl q c r h22, parseString_not_quote {} q c r h22]

def FV (fl : PFlags) (f : Nat) : Prop := ∀ dp b, QSound fl b → parseValue fl dp f b = parseValue {} dp f b
def FA (fl : PFlags) (f : Nat) : Prop := ∀ dp b, QSound fl b → parseArray fl dp f b = parseArray {} dp f b
def FAL (fl : PFlags) (f : Nat) : Prop := ∀ dp b i, QSound fl b → arrayLoop fl dp f b i = arrayLoop {} dp f b i
def FO (fl : PFlags) (f : Nat) : Prop := ∀ dp b, QSound fl b → parseObject fl dp f b = parseObject {} dp f b
def FOL (fl : PFlags) (f : Nat) : Prop := ∀ dp b i, QSound fl b → objectLoop fl dp f b i = objectLoop {} dp f b i

theorem fv_step {fl : PFlags} {g : Nat} (hA : FA fl g) (hO : FO fl g) : FV fl (g + 1) := by
  intro dp b hq
  cases b with
  | nil => rw [parseValue_nil, parseValue_nil]
  | cons c r =>
    rw [parseValue_succ_cons, parseValue_succ_cons]
    split
    · exact hO dp _ hq
    split
    · exact hA dp _ hq
    split
    · exact parseString_flags fl _ hq
    · rfl

theorem fa_step {fl : PFlags} {g : Nat} (hL : FAL fl g) : FA fl (g + 1) := by
  intro dp b hq
  cases b with
  | nil => rw [parseArray_nil, parseArray_nil]
  | cons c rest =>
    rw [parseArray_succ_cons, parseArray_succ_cons]
    split
    · rfl
    · split
      · exact hL _ _ _ hq.tail
      · rfl

theorem fo_step {fl : PFlags} {g : Nat} (hL : FOL fl g) : FO fl (g + 1) := by
  intro dp b hq
  cases b with
  | nil => rw [parseObject_nil, parseObject_nil]
  | cons c rest =>
    rw [parseObject_succ_cons, parseObject_succ_cons]
    split
    · rfl
    · split
      · exact hL _ _ _ hq.tail
      · rfl

theorem fal_step {fl : PFlags} {g : Nat} (hV : FV fl g) (hL : FAL fl g) : FAL fl (g + 1) := by
  intro dp b i hq
  rw [arrayLoop_succ, arrayLoop_succ]
  have hqs : QSound fl (skipSpaces b) := hq.suffix (skipSpaces_suffix b)
  cases hs : skipSpaces b with
  | nil => rfl
  | cons c rest =>
    rw [hs] at hqs
    simp only
    split
    · rfl
    · apply sepK_congr
      intro b3 _ hb3 _
      have hq3 : QSound fl b3 := hqs.suffix hb3
      rw [hV dp b3 hq3]
      cases hp : parseValue {} dp g b3 with
      | err e => rfl
      | ok k r => exact hL dp r (i + 1) (hq3.suffix (parseValue_suffix hp))

theorem fol_step {fl : PFlags} {g : Nat} (hV : FV fl g) (hL : FOL fl g) : FOL fl (g + 1) := by
  intro dp b i hq
  rw [objectLoop_succ, objectLoop_succ]
  have hqs : QSound fl (skipSpaces b) := hq.suffix (skipSpaces_suffix b)
  cases hs : skipSpaces b with
  | nil => rfl
  | cons c rest =>
    rw [hs] at hqs
    simp only
    split
    · rfl
    · apply sepK_congr
      intro b3 _ hb3 _
      have hq3 : QSound fl b3 := hqs.suffix hb3
      rw [parseString_flags fl b3 hq3]
      cases hp : parseString {} b3 with
      | err e => rfl
      | ok k r =>
        simp only
        have hqr : QSound fl (skipSpaces r) := (hq3.suffix (parseString_suffix hp)).suffix (skipSpaces_suffix r)
        cases hs2 : skipSpaces r with
        | nil => rfl
        | cons y r2 =>
          rw [hs2] at hqr
          simp only
          split
          · rfl
          · have hq2 : QSound fl (skipSpaces r2) := hqr.tail.suffix (skipSpaces_suffix r2)
            rw [hV dp _ hq2]
            cases hp2 : parseValue {} dp g (skipSpaces r2) with
            | err e => rfl
            | ok k2 r3 => exact hL dp r3 (i + 1) (hq2.suffix (parseValue_suffix hp2))

theorem all_flags (fl : PFlags) (f : Nat) : FV fl f ∧ FA fl f ∧ FAL fl f ∧ FO fl f ∧ FOL fl f := by
  induction f with
  | zero =>
    refine ⟨?_, ?_, ?_, ?_, ?_⟩
    · intro dp b _; rw [parseValue_zero, parseValue_zero]
    · intro dp b _; rw [parseArray_zero, parseArray_zero]
    · intro dp b i _; rw [arrayLoop_zero, arrayLoop_zero]
    · intro dp b _; rw [parseObject_zero, parseObject_zero]
    · intro dp b i _; rw [objectLoop_zero, objectLoop_zero]
  | succ g ih =>
    obtain ⟨hV, hA, hAL, hO, hOL⟩ := ih
    exact ⟨fv_step hA hO, fa_step hAL, fal_step hV hAL, fo_step hOL, fol_step hV hOL⟩

/-- flag irrelevance: with flags that are sound before every quotation mark of `b`, the parse of `b` is the parse with
both flags off -/
theorem parseValue_flags (fl : PFlags) (dp f : Nat) (b : Bytes) (hq : QSound fl b) :
    parseValue fl dp f b = parseValue {} dp f b := (all_flags fl f).1 dp b hq

/-! ### combined: different (sound) flags, more fuel, more input -/

theorem ok_stable' (fl fl' : PFlags) (dp f f' : Nat) (b x r : Bytes) (k : Kind)
    (hq : QSound fl b) (hq' : QSound fl' (b ++ x)) (hf : f ≤ f')
    (h : parseValue fl dp f b = .ok k r) (hd : r ≠ [] ∨ k.isNum = false) :
    parseValue fl' dp f' (b ++ x) = .ok k (r ++ x) := by
  rw [parseValue_flags fl dp f b hq] at h
  rw [parseValue_flags fl' dp f' _ hq']
  exact parseValue_fuel_mono {} dp f f' _ _ hf (ok_stable {} dp f b x r k h hd) (by intro e; cases e)

theorem err_stable' (fl fl' : PFlags) (dp f f' : Nat) (b x : Bytes)
    (hq : QSound fl b) (hq' : QSound fl' (b ++ x)) (hf : f ≤ f')
    (h : parseValue fl dp f b = .err false) : parseValue fl' dp f' (b ++ x) = .err false := by
  rw [parseValue_flags fl dp f b hq] at h
  rw [parseValue_flags fl' dp f' _ hq']
  exact parseValue_fuel_mono {} dp f f' _ _ hf (err_stable {} dp f b x h) (by intro e; cases e)

theorem fuelFor_append (b x : Bytes) : fuelFor b ≤ fuelFor (b ++ x) := by
  simp only [fuelFor, List.length_append]; omega

/-! ### as used by `Decoder.readValue`: flags and fuel recomputed from the refilled window -/

theorem skipSpaces_skipSpacesN (b : Bytes) : skipSpaces (skipSpacesN b) = skipSpacesN b := by
  rw [JsonWs.skipSpaces_eq_ws, JsonWs.skipSpacesN_eq_ws, JsonGrammar.ws_ws]

theorem skipSpacesN_fix_append {b : Bytes} (x : Bytes) (hb : skipSpacesN b = b) (hne : b ≠ []) :
    skipSpacesN (b ++ x) = b ++ x := by
  rw [skipSpacesN_append x (by rw [hb]; exact hne), hb]

theorem skipSpaces_fix_append {b : Bytes} (x : Bytes) (hb : skipSpaces b = b) (hne : b ≠ []) :
    skipSpaces (b ++ x) = b ++ x := by
  rw [skipSpaces_append x (by rw [hb]; exact hne), hb]

/-- the window flags are sound before every quotation mark of a window that does not start with white space -/
theorem window_qsound {b : Bytes} (hb : skipSpaces b = b) : QSound (internalParseFlags b) b := by
  have := JsonValid.internalParseFlags_qsound b
  rwa [hb] at this

/-- **value verdicts survive a refill.** `b` is the decoder's window (`remain`, which never starts with white space),
`x` the bytes appended by the refill. Flags and fuel are recomputed from the new window, as `readValue` does. -/
theorem window_ok_stable (b x r : Bytes) (k : Kind) (hb : skipSpaces b = b)
    (h : parseValue (internalParseFlags b) 0 (fuelFor b) b = .ok k r) (hd : r ≠ [] ∨ k.isNum = false) :
    parseValue (internalParseFlags (b ++ x)) 0 (fuelFor (b ++ x)) (b ++ x) = .ok k (r ++ x) := by
  have hne : b ≠ [] := by intro e; subst e; rw [parseValue_nil] at h; cases h
  exact ok_stable' _ _ _ _ _ b x r k (window_qsound hb) (window_qsound (skipSpaces_fix_append x hb hne))
    (fuelFor_append b x) h hd

/-- **syntax errors survive a refill.** -/
theorem window_err_stable (b x : Bytes) (hb : skipSpaces b = b)
    (h : parseValue (internalParseFlags b) 0 (fuelFor b) b = .err false) :
    parseValue (internalParseFlags (b ++ x)) 0 (fuelFor (b ++ x)) (b ++ x) = .err false := by
  have hne : b ≠ [] := by intro e; subst e; rw [parseValue_nil] at h; cases h
  exact err_stable' _ _ _ _ _ b x (window_qsound hb) (window_qsound (skipSpaces_fix_append x hb hne))
    (fuelFor_append b x) h

/-- the side condition of `ok_stable` cannot be dropped: a number that reaches the end of the window may continue -/
example : parseValue {} 0 8 [0x31] = .ok .uint [] ∧ parseValue {} 0 8 ([0x31] ++ [0x32]) = .ok .uint [] := by decide +kernel

/-- `err true` is not stable (that is its purpose): `[1` needs more input, `[1]` is a value, `[1x` is an error -/
example : parseValue {} 0 8 [0x5b, 0x31] = .err true ∧ parseValue {} 0 8 ([0x5b, 0x31] ++ [0x5d]) = .ok .array [] ∧
    parseValue {} 0 8 ([0x5b, 0x31] ++ [0x78]) = .err false := by decide +kernel

/-- a refused nesting (depth 10000 already entered) is a definitive syntax error, before and after a refill; one level
less, the same window still only needs more input -/
example : parseValue {} 10000 8 [0x5b, 0x31] = .err false ∧ parseValue {} 10000 8 ([0x5b, 0x31] ++ [0x5d]) = .err false ∧
    parseValue {} 9999 8 [0x5b, 0x31] = .err true := by decide +kernel

end Enc.Lemmas.StreamStable
