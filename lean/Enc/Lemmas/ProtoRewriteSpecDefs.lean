import Enc.Lemmas.ProtoRewriteSpecTok
/-!
# C19, definitions: translation of rewriters to the specification, well-formedness, fuel and size measures,
and two facts about the rewriter that hold for EVERY input (valid or not):

  * `toSpec`                  `Rw → SRw` (drop the table length, keep the entries)
  * `rwOK`                    decidable well-formedness: every entry index `< len`, embedded numbers in `1 … 2^61-1`
                              (no constructor excluded: `embeddedMerge` like `embedded`, `replacement r` like `r`)
  * `mergeInput_length_le`    the merged input of `embddedRewriter{merge: true}` is no longer than value + rest
  * `unseenM`                 size bookkeeping of the loop (each template is used once)
  * `fuelD`, `sizeM`          template-only measures
  * `rewrite_fine`            for `fuel ≥ inp.length + fuelD r` the rewriter neither panics nor runs out of fuel
  * `rewrite_size`            `out.length ≤ sizeM r * (inp.length + 1)`
-/
namespace Enc.Lemmas.ProtoRewriteSpec
open Enc Enc.Model.Proto Enc.Spec.Protobuf

mutual
def toSpec : Rw → SRw
  | .raw b => .raw b
  | .multi rs => .multi (toSpecList rs)
  | .message _ rs => .message (toSpecEnts rs)
  | .embedded number _ rs => .embedded number (toSpecEnts rs)
  | .embeddedMerge number _ rs => .embeddedMerge number (toSpecEnts rs)
  | .replacement r => .replacement (toSpec r)
def toSpecList : List Rw → List SRw
  | [] => []
  | r :: rs => toSpec r :: toSpecList rs
def toSpecEnts : List (Nat × Rw) → List (Nat × SRw)
  | [] => []
  | (i, r) :: rs => (i, toSpec r) :: toSpecEnts rs
end

mutual
/-- well-formed rewriter: table indices are inside the table, embedded field numbers are field numbers.
ALL six constructors are covered (nothing is excluded): `embeddedMerge` (`embddedRewriter{merge: true}`) has the same
conditions as `embedded`; `replacement r` is well-formed when `r` is. -/
def rwOK : Rw → Bool
  | .raw _ => true
  | .multi rs => listOK rs
  | .message len rs => entsOK len rs
  | .embedded number len rs => decide (0 < number) && decide (number < 2 ^ 61) && entsOK len rs
  | .embeddedMerge number len rs => decide (0 < number) && decide (number < 2 ^ 61) && entsOK len rs
  | .replacement r => rwOK r
def listOK : List Rw → Bool
  | [] => true
  | r :: rs => rwOK r && listOK rs
def entsOK : Nat → List (Nat × Rw) → Bool
  | _, [] => true
  | len, (i, r) :: rs => decide (i < len) && rwOK r && entsOK len rs
end

mutual
/-- fuel: `inp.length + fuelD r` always suffices -/
def fuelD : Rw → Nat
  | .raw _ => 1
  | .multi rs => 2 + rs.length + fuelDList rs
  | .message _ rs => 2 + rs.length + fuelDEnts rs
  | .embedded _ _ rs => 3 + rs.length + fuelDEnts rs
  | .embeddedMerge _ _ rs => 3 + rs.length + fuelDEnts rs
  | .replacement r => 1 + fuelD r
def fuelDList : List Rw → Nat
  | [] => 0
  | r :: rs => max (fuelD r) (fuelDList rs)
def fuelDEnts : List (Nat × Rw) → Nat
  | [] => 0
  | (_, r) :: rs => max (fuelD r) (fuelDEnts rs)
end

mutual
/-- size: the output is at most `sizeM r * (inp.length + 1)` bytes long -/
def sizeM : Rw → Nat
  | .raw b => b.length
  | .multi rs => sizeMList rs
  | .message _ rs => 20 + sizeMEnts rs
  | .embedded _ _ rs => 40 + sizeMEnts rs
  | .embeddedMerge _ _ rs => 40 + sizeMEnts rs
  | .replacement r => sizeM r
def sizeMList : List Rw → Nat
  | [] => 0
  | r :: rs => sizeM r + sizeMList rs
def sizeMEnts : List (Nat × Rw) → Nat
  | [] => 0
  | (_, r) :: rs => sizeM r + sizeMEnts rs
end

mutual
/-- does the rewriter contain an `embedded` or `embeddedMerge` node? -/
def hasEmb : Rw → Bool
  | .raw _ => false
  | .multi rs => hasEmbList rs
  | .message _ rs => hasEmbEnts rs
  | .embedded _ _ _ => true
  | .embeddedMerge _ _ _ => true
  | .replacement r => hasEmb r
def hasEmbList : List Rw → Bool
  | [] => false
  | r :: rs => hasEmb r || hasEmbList rs
def hasEmbEnts : List (Nat × Rw) → Bool
  | [] => false
  | (_, r) :: rs => hasEmb r || hasEmbEnts rs
end

/-! ## table lookups -/

theorem getRw_nil (f : Nat) : getRw [] f = none := rfl

theorem getRw_cons (i : Nat) (r : Rw) (rs : List (Nat × Rw)) (f : Nat) :
    getRw ((i, r) :: rs) f = if i == f then some r else getRw rs f := by
  unfold getRw
  simp only [List.find?_cons]
  by_cases h : (i == f) = true
  · simp [h]
  · simp [h]

theorem lookupRw_toSpec (rs : List (Nat × Rw)) (f : Nat) :
    lookupRw (toSpecEnts rs) f = (getRw rs f).map toSpec := by
  induction rs with
  | nil => simp [toSpecEnts, lookupRw, getRw]
  | cons p rs ih =>
    obtain ⟨i, r⟩ := p
    rw [getRw_cons]
    unfold lookupRw at ih ⊢
    simp only [toSpecEnts, List.find?_cons]
    by_cases h : (i == f) = true
    · simp [h]
    · simp only [h]; exact ih

theorem getRw_facts (len : Nat) (rs : List (Nat × Rw)) (f : Nat) (r : Rw) (h : getRw rs f = some r) :
    (entsOK len rs = true → f < len ∧ rwOK r = true) ∧ fuelD r ≤ fuelDEnts rs ∧ sizeM r ≤ sizeMEnts rs
      ∧ (hasEmb r = true → hasEmbEnts rs = true) := by
  induction rs with
  | nil => simp [getRw] at h
  | cons p rs ih =>
    obtain ⟨i, r'⟩ := p
    rw [getRw_cons] at h
    by_cases hi : (i == f) = true
    · simp only [hi, if_true, Option.some.injEq] at h
      subst h
      have : i = f := by simpa using hi
      subst this
      refine ⟨?_, ?_, ?_, ?_⟩
      · intro hok; simp only [entsOK, Bool.and_eq_true, decide_eq_true_eq] at hok; exact ⟨hok.1.1, hok.1.2⟩
      · simp only [fuelDEnts]; omega
      · simp only [sizeMEnts]; omega
      · intro he; simp [hasEmbEnts, he]
    · simp only [hi] at h
      obtain ⟨h1, h2, h3, h4⟩ := ih h
      refine ⟨?_, ?_, ?_, ?_⟩
      · intro hok; simp only [entsOK, Bool.and_eq_true] at hok; exact h1 hok.2
      · simp only [fuelDEnts]; omega
      · simp only [sizeMEnts]; omega
      · intro he; simp [hasEmbEnts, h4 he]

/-- the bounds check `f < len` of `MessageRewriter.Rewrite` hides nothing when the table is well-formed -/
theorem getRw_guard (len : Nat) (rs : List (Nat × Rw)) (f : Nat) (hok : entsOK len rs = true) :
    (if f < len then getRw rs f else none) = getRw rs f := by
  by_cases h : f < len
  · simp [h]
  · simp only [h, if_false]
    cases hg : getRw rs f with
    | none => rfl
    | some r => exact absurd ((getRw_facts len rs f r hg).1 hok).1 h

/-- `makeFieldset` allocates enough words (re-proved here; `Props.C19.fieldset_covers`) -/
theorem seenWords_covers (n : Nat) : ¬ seenWords n * 64 < n := by
  unfold seenWords fieldsetWords
  split <;> omega

/-! ## results that are neither a panic nor a fuel exhaustion -/

def Fine {α : Type} (x : Res α) : Prop := x ≠ .err "fuel" ∧ ∀ e, x ≠ .panic e

theorem Fine.ok {α : Type} (a : α) : Fine (Res.ok a) := ⟨by simp, by simp⟩

theorem Fine.bind {α β : Type} {x : Res α} {g : α → Res β} (hx : Fine x) (hg : ∀ a, x = .ok a → Fine (g a)) :
    Fine (x.bind g) := by
  cases x with
  | ok a => exact hg a rfl
  | err e =>
    refine ⟨?_, ?_⟩
    · intro h; simp only [Res.bind, Res.err.injEq] at h; exact hx.1 (by rw [h])
    · intro e' h; simp [Res.bind] at h
  | panic e => exact absurd rfl (hx.2 e)

theorem fine_err {α : Type} (e : String) (h : e ≠ "fuel") : Fine (Res.err e : Res α) :=
  ⟨by intro hh; simp only [Res.err.injEq] at hh; exact h hh, by simp⟩

theorem Fine.err_cast {α β : Type} {e : String} (h : Fine (Res.err e : Res α)) : Fine (Res.err e : Res β) :=
  ⟨by intro hh; simp only [Res.err.injEq] at hh; exact h.1 (by rw [hh]), by simp⟩

theorem decodeVarint_fine (b : Bytes) : Fine (decodeVarint b) :=
  ⟨ProtoDecode.decodeVarint_ne_fuel b, ProtoDecode.decodeVarint_ne_panic b⟩

theorem encodeVarint_length_le (v : BitVec 64) : (encodeVarint v).length ≤ 10 := by
  have := ProtoVarint.sizeOfVarint_le v
  simpa [encodeVarint] using this

/-- what `Parse` returns on ANY input: never a panic, and on success the value and the rest are disjoint parts of the
input behind at least one tag byte -/
theorem parseField_fine (inp : Bytes) :
    Fine (parseField inp) ∧ ∀ f t v m, parseField inp = .ok (f, t, v, m) →
      v.length + 1 + m.length ≤ inp.length ∧ (appendField f t v).length ≤ v.length + 20 := by
  have happ : ∀ f t (v : Bytes), (appendField f t v).length ≤ v.length + 20 := by
    intro f t v
    unfold appendField
    have h1 := encodeVarint_length_le (BitVec.ofNat 64 (f * 8 + t))
    have h2 := encodeVarint_length_le (BitVec.ofNat 64 v.length)
    simp only [List.length_append]
    split <;> (try simp only [List.length_nil]) <;> omega
  unfold parseField
  cases hd : decodeVarint inp with
  | err e =>
    have := decodeVarint_fine inp
    rw [hd] at this
    exact ⟨this.err_cast, by intro f t v m h; simp [Res.bind] at h⟩
  | panic e => exact absurd hd (ProtoDecode.decodeVarint_ne_panic inp e)
  | ok tn =>
    obtain ⟨tag, n⟩ := tn
    obtain ⟨hn0, hn1⟩ := ProtoDecode.decodeVarint_consumes inp tag n hd
    simp only [Res.bind]
    have hdl : (inp.drop n).length = inp.length - n := by simp
    split
    · -- varint
      cases hd2 : decodeVarint (inp.drop n) with
      | err e =>
        have := decodeVarint_fine (inp.drop n)
        rw [hd2] at this
        exact ⟨this.err_cast, by intro f t v m h; simp at h⟩
      | panic e => exact absurd hd2 (ProtoDecode.decodeVarint_ne_panic _ e)
      | ok vk =>
        obtain ⟨x, k⟩ := vk
        obtain ⟨hk0, hk1⟩ := ProtoDecode.decodeVarint_consumes _ x k hd2
        refine ⟨Fine.ok _, ?_⟩
        intro f t v m h
        simp only [Res.ok.injEq, Prod.mk.injEq] at h
        obtain ⟨rfl, rfl, rfl, rfl⟩ := h
        refine ⟨?_, happ _ _ _⟩
        simp only [List.length_take, List.length_drop]; omega
    · split
      · -- varlen
        cases hd2 : decodeVarint (inp.drop n) with
        | err e =>
          have := decodeVarint_fine (inp.drop n)
          rw [hd2] at this
          exact ⟨this.err_cast, by intro f t v m h; simp at h⟩
        | panic e => exact absurd hd2 (ProtoDecode.decodeVarint_ne_panic _ e)
        | ok vk =>
          obtain ⟨l, k⟩ := vk
          obtain ⟨hk0, hk1⟩ := ProtoDecode.decodeVarint_consumes _ l k hd2
          simp only [hasAtLeast_iff]
          split
          · exact ⟨fine_err _ (by decide), by intro f t v m h; simp at h⟩
          · rename_i hle
            simp only [List.length_drop, Bool.not_eq_true', decide_eq_false_iff_not, Nat.not_le,
              Nat.not_lt] at hle
            refine ⟨Fine.ok _, ?_⟩
            intro f t v m h
            simp only [Res.ok.injEq, Prod.mk.injEq] at h
            obtain ⟨rfl, rfl, rfl, rfl⟩ := h
            refine ⟨?_, happ _ _ _⟩
            simp only [List.length_take, List.length_drop]; omega
      · split
        · simp only [hasAtLeast_iff]
          split
          · exact ⟨fine_err _ (by decide), by intro f t v m h; simp at h⟩
          · rename_i hle
            simp only [List.length_drop, Bool.not_eq_true', decide_eq_false_iff_not, Nat.not_le,
              Nat.not_lt] at hle
            refine ⟨Fine.ok _, ?_⟩
            intro f t v m h
            simp only [Res.ok.injEq, Prod.mk.injEq] at h
            obtain ⟨rfl, rfl, rfl, rfl⟩ := h
            refine ⟨?_, happ _ _ _⟩
            simp only [List.length_take, List.length_drop]; omega
        · split
          · simp only [hasAtLeast_iff]
            split
            · exact ⟨fine_err _ (by decide), by intro f t v m h; simp at h⟩
            · rename_i hle
              simp only [List.length_drop, Bool.not_eq_true', decide_eq_false_iff_not, Nat.not_le,
                Nat.not_lt] at hle
              refine ⟨Fine.ok _, ?_⟩
              intro f t v m h
              simp only [Res.ok.injEq, Prod.mk.injEq] at h
              obtain ⟨rfl, rfl, rfl, rfl⟩ := h
              refine ⟨?_, happ _ _ _⟩
              simp only [List.length_take, List.length_drop]; omega
          · exact ⟨fine_err _ (by decide), by intro f t v m h; simp at h⟩

/-! ## the merged input of `embddedRewriter{merge: true}` -/

theorem mergeOccurrences_zero (f : Nat) (v m : Bytes) : mergeOccurrences 0 f v m = v := by
  simp [mergeOccurrences]

theorem mergeOccurrences_nil (k f : Nat) (v : Bytes) : mergeOccurrences k f v [] = v := by
  cases k <;> simp [mergeOccurrences]

theorem mergeOccurrences_step (k f : Nat) (v m : Bytes) (hne : m ≠ []) (f2 t2 : Nat) (v2 rest : Bytes)
    (hp : parseField m = .ok (f2, t2, v2, rest)) :
    mergeOccurrences (k + 1) f v m = mergeOccurrences k f (if f2 == f && t2 == 2 then v ++ v2 else v) rest := by
  have : m.isEmpty = false := by cases m with
    | nil => exact absurd rfl hne
    | cons => rfl
  simp only [mergeOccurrences, this, hp]
  rfl

theorem mergeOccurrences_stop (k f : Nat) (v m : Bytes) (h : ∀ q, parseField m ≠ .ok q) :
    mergeOccurrences (k + 1) f v m = v := by
  simp only [mergeOccurrences]
  split
  · rfl
  · split
    · rename_i hq; exact absurd hq (h _)
    · rfl

/-- `mergeOccurrences` only ever appends parts of `m`: the merged value is no longer than `v` and `m` together (for EVERY
`m`, valid or not) -/
theorem mergeOccurrences_length_le (k f : Nat) : ∀ (v m : Bytes),
    (mergeOccurrences k f v m).length ≤ v.length + m.length := by
  induction k with
  | zero => intro v m; rw [mergeOccurrences_zero]; omega
  | succ k ih =>
    intro v m
    by_cases hne : m = []
    · subst hne; rw [mergeOccurrences_nil]; omega
    · cases hp : parseField m with
      | ok q =>
        obtain ⟨f2, t2, v2, rest⟩ := q
        rw [mergeOccurrences_step k f v m hne f2 t2 v2 rest hp]
        have hl := ((parseField_fine m).2 f2 t2 v2 rest hp).1
        by_cases hc : (f2 == f && t2 == 2) = true
        · simp only [hc, if_true]
          have := ih (v ++ v2) rest
          simp only [List.length_append] at this; omega
        · simp only [hc, Bool.false_eq_true, if_false]
          have := ih v rest
          omega
      | err e => rw [mergeOccurrences_stop k f v m (by intro q hq; rw [hp] at hq; simp at hq)]; omega
      | panic e => rw [mergeOccurrences_stop k f v m (by intro q hq; rw [hp] at hq; simp at hq)]; omega

theorem mergeInput_length_le (r : Rw) (f t : Nat) (v m : Bytes) :
    (mergeInput r f t v m).length ≤ v.length + m.length := by
  unfold mergeInput
  split
  · split
    · exact mergeOccurrences_length_le _ _ _ _
    · omega
  · omega

/-! ## size bookkeeping for the loop: the templates that have not been used yet -/

/-- sum of `sizeM` over the entries whose index is not in `seen` (exactly those `rewriteAbsent` runs) -/
def unseenM : List (Nat × Rw) → List Nat → Nat
  | [], _ => 0
  | (i, r) :: rs, seen => (if seen.contains i then 0 else sizeM r) + unseenM rs seen

theorem unseenM_nil_seen (rs : List (Nat × Rw)) : unseenM rs [] = sizeMEnts rs := by
  induction rs with
  | nil => rfl
  | cons p rs ih => obtain ⟨i, r⟩ := p; simp [unseenM, sizeMEnts, ih]

theorem contains_cons_ne (seen : List Nat) (n i : Nat) (h : (i == n) = false) :
    (n :: seen).contains i = seen.contains i := by
  simp only [List.contains_cons, h, Bool.false_or]

theorem unseenM_mono (rs : List (Nat × Rw)) (seen : List Nat) (n : Nat) :
    unseenM rs (n :: seen) ≤ unseenM rs seen := by
  induction rs with
  | nil => simp [unseenM]
  | cons p rs ih =>
    obtain ⟨i, r⟩ := p
    simp only [unseenM]
    by_cases hi : (i == n) = true
    · have : (n :: seen).contains i = true := by simp only [List.contains_cons, hi, Bool.true_or]
      rw [this]; simp only [if_true]
      split <;> omega
    · have hi' : (i == n) = false := by simpa using hi
      rw [contains_cons_ne seen n i hi']
      omega

/-- using the template of field `n` for the first time takes (at least) its size out of the unused templates -/
theorem unseenM_use (rs : List (Nat × Rw)) (seen : List Nat) (n : Nat) (r : Rw) (hg : getRw rs n = some r)
    (hc : seen.contains n = false) : unseenM rs (n :: seen) + sizeM r ≤ unseenM rs seen := by
  induction rs with
  | nil => simp [getRw] at hg
  | cons p rs ih =>
    obtain ⟨i, r'⟩ := p
    rw [getRw_cons] at hg
    simp only [unseenM]
    by_cases hi : (i == n) = true
    · simp only [hi, if_true, Option.some.injEq] at hg
      subst hg
      have e : i = n := by simpa using hi
      subst e
      have : (i :: seen).contains i = true := by simp
      rw [this, hc]
      have := unseenM_mono rs seen i
      simp only [if_true, Bool.false_eq_true, if_false]
      omega
    · have hi' : (i == n) = false := by simpa using hi
      simp only [hi'] at hg
      rw [contains_cons_ne seen n i hi']
      have := ih hg
      omega

end Enc.Lemmas.ProtoRewriteSpec
