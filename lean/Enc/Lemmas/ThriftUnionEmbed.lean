import Enc.Model.ThriftUnionEmbed
import Enc.Lemmas.ThriftEmbedShape
import Enc.Lemmas.ThriftTotalPanic
/-!
Unions whose interface field is promoted from an embedded POINTER struct (`Enc.Model.ThriftUnionEmbed`, after fix 62e5e1f;
corresponded with the Go code by the generated cases `thrift.uembdecode` of C08). Before the fix `Unmarshal` PANICKED on every
input that delivered a member (the earlier version of this file proved `union_behind_nil_embedded_pointer_panics`); now:

  * `loop_keeps_nil`           the struct loop of a union, any input: whenever a member has been accepted (`lastField` valid),
                               a top-level field `j` that no member's index path starts with holds what the zero value holds
                               there (every accepted member resets the struct; the walk to a member touches its own path only)
  * `union_behind_nil_embedded_pointer_decodes`   hence, when the union field's path starts with such a `j`, goes on below it,
                               and the zero value has a nil pointer there: the embedded pointer at `j` IS nil after the loop, the
                               closing walk allocates it, and the union field designates the member decoded last
  * `np_decodeStructUE`, `decodeUE_total`, `unmarshalUE_total`   never `.panic`, every input (member types `Supported`)
  * witnesses (`#guard`, the shapes of harness/thriftunionemb.go): `struct{ TUEMembers; *TUEUnion }` decodes the compact
    input 15 0a 00 (member A = 5) — the former panic — like the value embedding and the shared-pointer shape do.
-/
namespace Enc.Lemmas.ThriftUnionEmbed
open Enc Enc.Model.Thrift Enc.Lemmas.ThriftEmbed

theorem get_setPathA_head_ne (fs : Fields) (vs : Vals) (i j : Nat) (rest : List Nat) (v : Val) (h : i ≠ j) :
    Vals.get (setPathA fs vs (i :: rest) v) j = Vals.get vs j := by
  cases rest with
  | nil => simp only [setPathA]; exact get_set_ne vs i j v h
  | cons k r =>
    simp only [setPathA]
    split <;> exact get_set_ne vs i j _ h

/-- "no member's index path starts with the top-level position `j`" -/
def AwayFrom (descs : List FlatField) (j : Nat) : Prop := ∀ fd ∈ descs, ∃ i rest, fd.index = i :: rest ∧ i ≠ j

/-- the struct loop: once a member has been accepted, position `j` holds what the zero value holds there -/
theorem loop_keeps_nil (p : Proto) (strict : Bool) (d : Nat) (fs : Fields) (descs : List FlatField) (Z : Vals) (j : Nat)
    (hj : AwayFrom descs j) (w : Val) (hZ : Vals.get Z j = w) :
    ∀ (fuel : Nat) (b : Bytes) (vs : Vals) (last : Int) (num : Nat) (seen : List Int) (lastF : Option (List Nat))
      (out : StructOutE × Bytes),
      (lastF.isSome = true → Vals.get vs j = w) →
      decodeStructUE p strict d fs descs (some Z) fuel b vs last num seen lastF = .ok out →
      (out.1.2.2.isSome = true → Vals.get out.1.1 j = w)
  | 0, _, _, _, _, _, _, _, _, h => by simp [decodeStructUE] at h
  | fuel + 1, b, vs, last, num, seen, lastF, out, hl, h => by
    have ih := loop_keeps_nil p strict d fs descs Z j hj w hZ fuel
    rw [decodeStructUE] at h
    cases hr : rField p b with
    | err e => rw [hr] at h; simp only [] at h; split at h <;> simp at h
    | panic e => rw [hr] at h; simp at h
    | ok x =>
      obtain ⟨hd, r⟩ := x
      rw [hr] at h
      simp only [] at h
      by_cases hs : (hd.t == TType.stop) = true
      · simp only [hs, if_true] at h
        split at h
        · simp at h
        · cases h; exact hl
      · simp only [hs, Bool.false_eq_true, if_false] at h
        cases hf : findByIdE descs (wrap16 (if hd.delta then hd.id + last else hd.id)) with
        | none =>
          simp only [hf] at h
          obtain ⟨a, _, ha⟩ := bind_ok _ _ _ h
          exact ih _ _ _ _ _ _ _ hl ha
        | some ff =>
          have hmem : ff ∈ descs := List.mem_of_find?_eq_some hf
          obtain ⟨i, rest, hidx, hne⟩ := hj ff hmem
          have hset : ∀ v, Vals.get (setPathA fs (resetTo (some Z) vs) ff.index v) j = w := by
            intro v
            rw [hidx, get_setPathA_head_ne _ _ _ _ _ _ hne]
            exact hZ
          simp only [hf] at h
          split at h
          · split at h
            · simp at h
            · obtain ⟨a, _, ha⟩ := bind_ok _ _ _ h
              exact ih _ _ _ _ _ _ _ hl ha
          · split at h
            · simp at h
            · split at h
              · exact ih _ _ _ _ _ _ _ (fun _ => hset _) h
              · obtain ⟨a, _, ha⟩ := bind_ok _ _ _ h
                exact ih _ _ _ _ _ _ _ (fun _ => hset _) ha

theorem setPathA_nil_head (fs : Fields) (vs : Vals) (j k : Nat) (rest : List Nat) (v : Val)
    (h : Vals.get vs j = .nil) :
    setPathA fs vs (j :: k :: rest) v =
      Vals.set vs j (.ptr (.struct (setPathA (structOf (tyAtF fs j)) (zeroFields (structOf (tyAtF fs j))) (k :: rest) v))) := by
  simp only [setPathA, h]

/-- **the union field behind a nil embedded pointer: the pointer is allocated, the union field designates the member**
(regression statement for fix 62e5e1f; before it: `panic "nilEmbeddedPointer"`). Struct type `fs` with embedded fields; the
union field's index path is `j :: k :: rest` (it is promoted from the embedded field at top-level position `j`), no member's
path starts with `j`, and the zero value of the struct holds a nil pointer at `j` (pointer embedding). Then, for EVERY input,
protocol, strictness, depth, fuel and target: if the struct loop accepts at least one member (`lastField` = the member at
index path `m`), no required field is missing and the walk is not `blocked` (unexported embedded type), then after the loop
position `j` holds the nil pointer, and the result is the loop's struct with a FRESH struct allocated at `j` — zero but for
the union field, which holds the address of member `m`. -/
theorem union_behind_nil_embedded_pointer_decodes (p : Proto) (strict : Bool) (d fuel : Nat) (fs : Fields) (j k : Nat)
    (rest : List Nat) (hup : unionPathE fs = some (j :: k :: rest)) (hj : AwayFrom (fieldDescsE fs) j)
    (hZ : Vals.get (zeroFields fs) j = .nil) (b : Bytes) (vs : Vals)
    (vs' : Vals) (seen : List Int) (m : List Nat) (r : Bytes)
    (hloop : decodeStructUE p strict (d + 1) fs (fieldDescsE fs) (some (zeroFields fs)) fuel b vs 0 0 [] none
        = .ok ((vs', seen, some m), r))
    (hreq : (fieldDescsE fs).any (fun fd => fd.required && !seen.contains fd.id) = false)
    (hdeep : tooDeep d = false) (hblk : blocked fs vs' (j :: k :: rest) = false) :
    Vals.get vs' j = .nil ∧
    decodeUE p strict d (fuel + 1) (.struct fs) b (.struct vs) =
      .ok (.struct (Vals.set vs' j (.ptr (.struct
        (setPathA (structOf (tyAtF fs j)) (zeroFields (structOf (tyAtF fs j))) (k :: rest) (pathRef m))))), r) := by
  have hnil := loop_keeps_nil p strict (d + 1) fs (fieldDescsE fs) (zeroFields fs) j hj .nil hZ fuel b vs 0 0 [] none
    _ (by simp) hloop (by simp)
  refine ⟨hnil, ?_⟩
  simp only [decodeUE, hdeep, Bool.false_eq_true, if_false, hup, Option.map_some, hloop, Res.bind, structEndUE, hreq,
    hblk, setPathA_nil_head fs vs' j k rest _ hnil]

/-! ## totality: never `.panic`, every input -/
section Total
open Enc.Lemmas.ThriftTotal

theorem np_decodeStructUE (p : Proto) (strict : Bool) (d : Nat) (fs : Fields) (descs : List FlatField) (zero : Option Vals)
    (hd : ∀ fd ∈ descs, Supported fd.ty = true) :
    ∀ (fuel : Nat) (b : Bytes) (vs : Vals) (last : Int) (num : Nat) (seen : List Int) (lastF : Option (List Nat)),
      NP (decodeStructUE p strict d fs descs zero fuel b vs last num seen lastF)
  | 0, _, _, _, _, _, _ => by simp only [decodeStructUE]; exact NP.err _
  | fuel + 1, b, vs, last, num, seen, lastF => by
    have ih := np_decodeStructUE p strict d fs descs zero hd fuel
    rw [decodeStructUE]
    cases hr : rField p b with
    | err e => simp only []; split <;> exact NP.err _
    | panic e => exact absurd hr (np_rField p b e)
    | ok x =>
      obtain ⟨h, r⟩ := x
      simp only []
      apply NP.ite (NP.ite (NP.err _) (NP.ok _))
      have hsk : NP (if ((h.t == .true_ || h.t == .bool) && p.coalesce) = true then (.ok ((), r) : R Unit)
          else skip p d fuel h.t r) := NP.ite (NP.ok _) (np_skip _ _ _ _ _)
      cases hf : findByIdE descs (wrap16 (if h.delta then h.id + last else h.id)) with
      | none =>
        simp only []
        exact NP.bind (NP.dont hsk) (fun _ => ih _ _ _ _ _ _)
      | some fd =>
        have hds : Supported fd.ty = true := hd fd (List.mem_of_find?_eq_some hf)
        simp only []
        apply NP.ite
        · exact NP.ite (NP.err _) (NP.bind (NP.dont hsk) (fun _ => ih _ _ _ _ _ _))
        · apply NP.ite (NP.err _)
          apply NP.ite (ih _ _ _ _ _ _)
          apply NP.bind
          · apply NP.dont
            apply NP.ite
            · cases baseOf fd.ty <;> simp only [] <;>
                first
                  | exact np_decode _ _ _ _ _ _ _ hds
                  | exact NP.bind (np_rI32 _ _) (fun _ => NP.ok _)
            · exact np_decode _ _ _ _ _ _ _ hds
          · intro _; exact ih _ _ _ _ _ _

/-- the Go kinds `decodeFuncOf` accepts, at the promoted members of the outer struct (reached through names and pointers) -/
def SupportedE : Ty → Bool
  | .struct fs => (fieldDescsE fs).all fun fd => Supported fd.ty
  | .ptr t => SupportedE t
  | .named _ t => SupportedE t
  | t => Supported t

theorem np_structEndUE (fs : Fields) (descs : List FlatField) (up : Option (List Nat)) (x : StructOutE × Bytes) :
    NP (structEndUE fs descs up x) := by
  unfold structEndUE
  apply NP.ite (NP.err _)
  split
  · exact NP.ite (NP.err _) (NP.ok _)
  · exact NP.ok _

/-- **totality of the decoder for unions with embedded structs**: every input, protocol, strictness, depth, fuel, target -/
theorem decodeUE_total (p : Proto) (strict : Bool) (d : Nat) :
    ∀ (fuel : Nat) (ty : Ty) (b : Bytes) (cur : Val), SupportedE ty = true → NP (decodeUE p strict d fuel ty b cur)
  | 0, _, _, _, _ => by simp only [decodeUE]; exact NP.err _
  | fuel + 1, ty, b, cur, hs => by
    have ih := decodeUE_total p strict d fuel
    cases ty with
    | struct fs =>
      simp only [SupportedE, List.all_eq_true] at hs
      cases cur with
      | struct vs =>
        simp only [decodeUE]
        apply NP.ite (NP.err _)
        exact NP.bind (np_decodeStructUE p strict (d + 1) fs _ _ hs fuel b vs 0 0 [] none)
          (fun a => np_structEndUE fs _ _ a)
      | _ => simp only [decodeUE]; exact NP.ite (NP.err _) (NP.err _)
    | ptr et =>
      simp only [SupportedE] at hs
      simp only [decodeUE]
      exact NP.bind (ih et b _ hs) (fun _ => NP.ok _)
    | named nm t' =>
      simp only [SupportedE] at hs
      simp only [decodeUE]
      exact ih t' b cur hs
    | bool | f32 | f64 | str | bytes | any | int _ | arr _ _ | slice _ | map _ _ =>
      simp only [SupportedE] at hs
      simp only [decodeUE]
      exact np_decode p strict d (fuel + 1) _ b cur hs

theorem unmarshalUE_total (p : Proto) (strict : Bool) (ty : Ty) (b : Bytes) (e : String) (h : SupportedE ty = true) :
    unmarshalUE p strict ty b ≠ .panic e := by
  unfold unmarshalUE
  have := decodeUE_total p strict 0 (4 * b.length + 64 + depth ty) ty b (zeroOf ty) h
  cases hd : decodeUE p strict 0 (4 * b.length + 64 + depth ty) ty b (zeroOf ty) with
  | ok vr => dsimp only; split <;> simp
  | err e' => simp
  | panic e' => exact absurd hd (this e')
end Total

/-! ## the witness shape `struct { M; *U }`, `M = struct { A int32 (1); B string (2) }`, `U = struct { F any (union) }`
(harness: TUEOuter): the hypotheses of the theorem hold — names and tags abstract, `String` functions do not reduce in the
kernel; the concrete strings are `#guard`ed below -/
def outerPtrOf (nM nU nA nB nF te ta tb tf : String) : Fields :=
  .cons nM te true (.named "M" (.struct (.cons nA ta false (.int .i32) (.cons nB tb false .str .nil))))
    (.cons nU te true (.ptr (.named "U" (.struct (.cons nF tf false .any .nil)))) .nil)

theorem outerPtr_hyps (nM nU nA nB nF te ta tb tf : String)
    (hM : isExported nM = true) (hU : isExported nU = true) (hA : isExported nA = true) (hB : isExported nB = true)
    (hF : isExported nF = true)
    (hta : tagOf ta = some (1, false, false)) (htb : tagOf tb = some (2, false, false)) (htf : tagOf tf = none)
    (hua : isUnionTag ta = false) (hub : isUnionTag tb = false) (huf : isUnionTag tf = true) :
    unionPathE (outerPtrOf nM nU nA nB nF te ta tb tf) = some [1, 0] ∧
    AwayFrom (fieldDescsE (outerPtrOf nM nU nA nB nF te ta tb tf)) 1 ∧
    Vals.get (zeroFields (outerPtrOf nM nU nA nB nF te ta tb tf)) 1 = .nil := by
  refine ⟨?_, ?_, ?_⟩
  · simp [unionPathE, outerPtrOf, unionPaths, unionPathsEmb, hM, hU, hA, hB, hF, hua, hub, huf]
  · intro fd hfd
    simp [fieldDescsE, outerPtrOf, flatten, flattenEmb, hM, hU, hA, hB, hF, hta, htb, htf] at hfd
    rcases hfd with rfl | rfl
    · exact ⟨0, [0], rfl, by decide⟩
    · exact ⟨0, [1], rfl, by decide⟩
  · simp [outerPtrOf, zeroFields, zeroOf, Vals.get]

/-- … and the shape is total (`SupportedE`) -/
theorem outerPtr_supported (nM nU nA nB nF te ta tb tf : String)
    (hM : isExported nM = true) (hU : isExported nU = true) (hA : isExported nA = true) (hB : isExported nB = true)
    (hF : isExported nF = true)
    (hta : tagOf ta = some (1, false, false)) (htb : tagOf tb = some (2, false, false)) (htf : tagOf tf = none) :
    SupportedE (.struct (outerPtrOf nM nU nA nB nF te ta tb tf)) = true := by
  simp [SupportedE, fieldDescsE, outerPtrOf, flatten, flattenEmb, hM, hU, hA, hB, hF, hta, htb, htf,
    Enc.Lemmas.ThriftTotal.Supported, IntKind.signed]

/-! ### concrete witnesses (the descriptors of harness/thriftunionemb.go, concrete names and tags) -/
section Witness
def tg (s : String) : String := "thrift:\"" ++ s ++ "\""
def membersF : Fields := .cons "A" (tg "1") false (.int .i32) (.cons "B" (tg "2") false .str .nil)
def unionF : Fields := .cons "F" (tg ",union") false .any .nil
def outerPtr : Fields := outerPtrOf "TUEMembers" "TUEUnion" "A" "B" "F" "" (tg "1") (tg "2") (tg ",union")
def outerVal : Fields :=
  .cons "TUEMembers" "" true (.named "TUEMembers" (.struct membersF))
    (.cons "TUEUnion" "" true (.named "TUEUnion" (.struct unionF)) .nil)
def shared : Fields :=
  .cons "TUEInner" "" true (.ptr (.named "TUEInner" (.struct
    (.cons "A" (tg "1") false (.int .i32) (.cons "B" (tg "2") false .str (.cons "F" (tg ",union") false .any .nil)))))) .nil
def outc (r : Res Val) : String := match r with | .ok v => "ok:" ++ v.show | .err e => "err:" ++ e | .panic e => "panic:" ++ e

-- the hypotheses of `outerPtr_hyps` on the concrete strings
#guard isExported "TUEMembers" && isExported "TUEUnion" && isExported "A" && isExported "B" && isExported "F"
#guard tagOf (tg "1") == some (1, false, false) && tagOf (tg "2") == some (2, false, false) && tagOf (tg ",union") == none
#guard !isUnionTag (tg "1") && !isUnionTag (tg "2") && isUnionTag (tg ",union")
#guard unionPathE outerPtr == some [1, 0] && unionPathE outerVal == some [1, 0] && unionPathE shared == some [0, 2]
-- compact: field 1 (i32) = 5, stop: the 3-byte input 15 0a 00 — the former PANIC: M = {A 5, B ""}, *U allocated, F → path [0,0] (= A)
#guard outc (unmarshalUE .compact false (.struct outerPtr) [0x15, 0x0a, 0x00]) == "ok:t 2 t 2 i 5 s - p t 1 p l 2 i 0 i 0"
#guard outc (unmarshalUE .compact true (.struct outerPtr) [0x15, 0x0a, 0x00]) == "ok:t 2 t 2 i 5 s - p t 1 p l 2 i 0 i 0"
-- two members: the last one wins (A is reset), F → path [0,1] (= B)
#guard outc (unmarshalUE .compact false (.struct outerPtr) [0x15, 0x0a, 0x18, 0x01, 0x78, 0x00]) == "ok:t 2 t 2 i 0 s 78 p t 1 p l 2 i 0 i 1"
#guard outc (unmarshalUE (.binary true) false (.struct outerPtr) [5, 0, 1, 0, 0, 0, 5, 0, 0, 0]) == "ok:t 2 t 2 i 5 s - p t 1 p l 2 i 0 i 0"
-- no member on the wire: a value; a cut input: an error
#guard (outc (unmarshalUE .compact false (.struct outerPtr) [0x00])).startsWith "ok:"
#guard outc (unmarshalUE .compact false (.struct outerPtr) [0x15, 0x0a]) == "err:unexpectedEof"
-- value embedding, and members + union field behind the SAME embedded pointer: the same input decodes
#guard (outc (unmarshalUE .compact false (.struct outerVal) [0x15, 0x0a, 0x00])).startsWith "ok:"
#guard (outc (unmarshalUE .compact false (.struct shared) [0x15, 0x0a, 0x00])).startsWith "ok:"
end Witness

#print axioms union_behind_nil_embedded_pointer_decodes
#print axioms unmarshalUE_total

end Enc.Lemmas.ThriftUnionEmbed
