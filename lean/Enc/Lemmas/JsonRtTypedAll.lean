import Enc.Lemmas.JsonRtTypedMain
/-!
# Typed round trip: the mutual induction (`rtv`), then whole documents and the composition with the two model = specification
theorems (`decodeTyped_eq_spec`, `encodeTyped_eq_spec`)
-/
namespace Enc.Lemmas.JsonRtTyped
open Enc Enc.Model.Json Enc.Model.Json.Typed
open Enc.Spec.Json (valueS elementsSl elementsAr membersMp membersSt ws isWs lit number digit consumed unquoteLit
  appendString intString intRange intOfLit floatOverflows boolText nullT floatText canonFloat coerceUTF8 encSpec encSpecs
  encSpecMs encSpecFs genericText arrText objText mapText canon canons canonMs canonFs canonG encodesNull norm norms normMs
  normG findField fieldOf consOpt wfT wfFs nameIn validUTF8B joinWith depthV depthVs depthMs depthG valueV keyBelow
  backingOf elemsOf entriesOf bytesVals bytesOf b64DecodeStd)
open Enc.Lemmas.JsonDecAnyRtInt (noNumCont intString_head)
open Enc.Lemmas.JsonDecAnyRender (etail joinWith_etail etail_length noNumCont_etail ws_of_head)
open Enc.Lemmas.JsonEncTyped (mKeys bytesLt_eq_strLT)
open Enc.Model.Json.MapKeyOrder (strLT)

/-! ### assigning strictly ascending keys appends them -/

def insAll : JMs → JMs → JMs
  | m, .nil => m
  | m, .cons k v r => insAll (m.insert k v) r

def JMs.app : JMs → JMs → JMs
  | .nil, y => y
  | .cons k v r, y => .cons k v (JMs.app r y)

def Below : JMs → Bytes → Prop
  | .nil, _ => True
  | .cons k' _ r, k => bytesLt k' k = true ∧ Below r k

theorem insert_below : (m : JMs) → (k : Bytes) → (v : JV) → Below m k → m.insert k v = JMs.app m (.cons k v .nil)
  | .nil, _, _, _ => rfl
  | .cons k' v' r, k, v, h => by
    have h1 : strLT k' k = true := by rw [← bytesLt_eq_strLT]; exact h.1
    have hne : (k == k') = false := by
      rw [beq_eq_false_iff_ne]; intro e; subst e
      rw [Lemmas.JsonMapKeyOrder.strLT_irrefl] at h1; cases h1
    have hlt : bytesLt k k' = false := by
      rw [bytesLt_eq_strLT]; exact Lemmas.JsonMapKeyOrder.strLT_asymm _ _ h1
    simp only [JMs.insert, hne, hlt, Bool.false_eq_true, if_false, JMs.app]
    rw [insert_below r k v h.2]

theorem below_app : (m : JMs) → (k k2 : Bytes) → (v : JV) → Below m k → bytesLt k k2 = true →
    Below (JMs.app m (.cons k v .nil)) k2
  | .nil, _, _, _, _, h => ⟨h, trivial⟩
  | .cons k' v' r, k, k2, v, hb, h => by
    refine ⟨?_, below_app r k k2 v hb.2 h⟩
    have h1 := hb.1
    rw [bytesLt_eq_strLT] at h1 h ⊢
    exact Lemmas.JsonMapKeyOrder.strLT_trans _ _ _ h1 h

theorem app_nil : (m : JMs) → JMs.app m .nil = m
  | .nil => rfl
  | .cons k v r => by simp only [JMs.app, app_nil r]

theorem app_assoc : (a b c : JMs) → JMs.app (JMs.app a b) c = JMs.app a (JMs.app b c)
  | .nil, _, _ => rfl
  | .cons k v r, b, c => by simp only [JMs.app, app_assoc r b c]

/-- the keys ascend strictly (adjacent test, as in `canonMs`) -/
def Chain : JMs → Prop
  | .nil => True
  | .cons k _ r => keyBelow k r = true ∧ Chain r

theorem insAll_chain : (ms m : JMs) → Chain ms → (∀ k v r, ms = .cons k v r → Below m k) → insAll m ms = JMs.app m ms
  | .nil, m, _, _ => by
    simp only [insAll]
    exact (app_nil m).symm
  | .cons k v r, m, hc, hb => by
    have hbk := hb k v r rfl
    simp only [insAll]
    rw [insert_below m k v hbk, insAll_chain r _ hc.2 ?_, app_assoc]
    · rfl
    · intro k2 v2 r2 e
      subst e
      have : bytesLt k k2 = true := by simpa only [keyBelow] using hc.1
      exact below_app m k k2 v hbk this

theorem insAll_nil (ms : JMs) (h : Chain ms) : insAll .nil ms = ms := by
  rw [insAll_chain ms .nil h (fun _ _ _ _ => trivial)]; rfl

theorem keyBelow_normMs (k : Bytes) : (r : JMs) → keyBelow k (normMs r) = keyBelow k r
  | .nil => rfl
  | .cons _ _ _ => rfl

theorem chain_normMs (sc : Strconv) (c : TFlags) (e : JT) : (ms : JMs) → canonMs sc c e ms = true → Chain (normMs ms)
  | .nil, _ => trivial
  | .cons k v r, h => by
    simp only [canonMs, Bool.and_eq_true] at h
    exact ⟨by rw [keyBelow_normMs]; exact h.1.1.2, chain_normMs sc c e r h.2⟩

end Enc.Lemmas.JsonRtTyped
