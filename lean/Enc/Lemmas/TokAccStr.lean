import Enc.Model.Json.TokenAcc
import Enc.Spec.Json.TokenVal
import Enc.Lemmas.JsonDecString
/-!
# C17 accessors, strings: kind of a string token, `Tokenizer.String`, `RawValue.AppendUnquote`
-/
set_option linter.unusedSimpArgs false
namespace Enc.Lemmas.TokAcc
open Enc Enc.Model.Json Enc.Model.Json.Token Enc.Lemmas.JsonString Enc.Lemmas.JsonScan Enc.Lemmas.JsonDecString
open Enc.Spec.Json (unquoteStd plainInner innerOf)

theorem plainInner_iff (s : Bytes) : plainInner s = true ↔ ∀ c ∈ s, (0x20 ≤ c ∧ c ≤ 0x7e) ∧ c ≠ 0x5c := by
  simp [plainInner, List.all_eq_true]

theorem plainInner_append (a b : Bytes) : plainInner (a ++ b) = (plainInner a && plainInner b) := by
  simp [plainInner, List.all_append]

theorem inner_of_plain (s : Bytes) (h : ∀ c ∈ s, Plain c) : Inner s := by
  induction s with
  | nil => exact .nil
  | cons c r ih => exact .plain c r (h c (by simp)) (ih fun x hx => h x (by simp [hx]))

/-- strengthened `parseString_ok`: the body is well formed in both cases, and the kind is `unescaped` EXACTLY when the
body is printable ASCII without a backslash -/
theorem parseString_ok' (fl : PFlags) (b : Bytes) (k : Kind) (rest : Bytes) (hs : QSound fl b)
    (h : parseString fl b = .ok k rest) :
    ∃ s, b = 0x22 :: (s ++ 0x22 :: rest) ∧ Inner s ∧
      ((k = .unescaped ∧ plainInner s = true) ∨ (k = .string ∧ plainInner s = false)) := by
  match b, hs, h with
  | [], _, h => simp [parseString] at h
  | [q], _, h => simp [parseString] at h
  | q :: c :: r, hs, h =>
    by_cases hq : q = 0x22
    · subst hq
      have hlen : ¬ ((0x22 : UInt8) :: c :: r).length < 2 := by simp
      simp only [parseString, hlen, if_false, findQuote_spec, List.drop_succ_cons, List.drop_zero] at h
      simp only [bne_self_eq_false, Bool.false_eq_true, if_false, beq_self_eq_true, if_true] at h
      cases hi : indexByte (c :: r) 0x22 with
      | none => rw [hi] at h; simp at h
      | some i =>
        rw [hi] at h
        obtain ⟨p, q', hb, hl, hp⟩ := indexByte_some hi
        simp only [Option.map_some] at h
        have hinner : (List.take (i + 2) (0x22 :: (p ++ 0x22 :: q'))).drop 1 = p ++ [0x22] := by
          subst hl; simp only [List.take_succ_cons, List.drop_succ_cons, List.drop_zero, take_len_succ]
        have hfs : FlagsSound fl p := by
          rw [hb] at hs
          exact (hs (0x22 :: p) q' rfl).sublist (List.sublist_cons_self _ _)
        split at h
        · rename_i hcond
          rw [hb] at h hcond ⊢
          have hrest : List.drop (i + 2) (0x22 :: (p ++ 0x22 :: q')) = q' := by
            subst hl; simp only [List.drop_succ_cons, drop_len_succ]
          rw [hrest] at h
          rw [hinner] at hcond
          cases h
          simp only [Bool.and_eq_true, Bool.or_eq_true, Bool.not_eq_true'] at hcond
          have hpl : ∀ x ∈ p, (0x20 ≤ x ∧ x ≤ 0x7e) ∧ x ≠ 0x5c := by
            intro x hx
            refine ⟨?_, ?_⟩
            · rcases hcond.2 with h2 | h2
              · exact hfs.2 h2 x hx
              · exact (validPrint_iff _).mp h2 x (List.mem_append_left _ hx)
            · intro e; subst e
              rcases hcond.1 with h1 | h1
              · exact hfs.1 h1 hx
              · have : ¬ (0x5c ∈ p ++ [0x22]) := by simpa using h1
                exact this (List.mem_append_left _ hx)
          refine ⟨p, rfl, inner_of_plain p ?_, Or.inl ⟨rfl, (plainInner_iff p).mpr hpl⟩⟩
          intro x hx
          refine ⟨fun e => hp (e ▸ hx), (hpl x hx).2, ?_⟩
          exact UInt8.not_lt.mpr (hpl x hx).1.1
        · rename_i hcond
          obtain ⟨hk, s, hs', hI⟩ := stringLoop_inner _ _ k rest (Nat.le_refl _) h
          refine ⟨s, by rw [hs'], hI, Or.inr ⟨hk, ?_⟩⟩
          -- the body found by the first-quote search is a prefix of the real body and carries the offending byte
          rw [hb] at hcond
          rw [hinner] at hcond
          have hpre : ∃ a, s = p ++ a := by
            have e : p ++ 0x22 :: q' = s ++ 0x22 :: rest := by rw [← hb, hs']
            rcases List.append_eq_append_iff.mp e with ⟨a, ha, _⟩ | ⟨c', hc', hc2⟩
            · exact ⟨a, ha⟩
            · cases c' with
              | nil => exact ⟨[], by simpa using hc'.symm⟩
              | cons x c'' =>
                simp only [List.cons_append, List.cons.injEq] at hc2
                exact absurd (by rw [hc', ← hc2.1]; simp) hp
          obtain ⟨a, rfl⟩ := hpre
          rw [plainInner_append]
          have hbad : plainInner p = false := by
            cases hpp : plainInner p
            · rfl
            · exfalso
              apply hcond
              have hpl := (plainInner_iff p).mp hpp
              simp only [Bool.and_eq_true, Bool.or_eq_true, Bool.not_eq_true']
              refine ⟨Or.inr ?_, Or.inr ?_⟩
              · have : ¬ (0x5c ∈ p ++ [0x22]) := by
                  simp only [List.mem_append, List.mem_singleton, not_or]
                  exact ⟨fun hm => (hpl _ hm).2 rfl, by decide⟩
                simpa using this
              · apply (validPrint_iff _).mpr
                intro x hx
                rcases List.mem_append.mp hx with hx | hx
                · exact (hpl x hx).1
                · simp only [List.mem_singleton] at hx; subst hx; decide
          simp [hbad]
    · have hq' : (q == 0x22) = false := by simpa using hq
      have hlen' : ¬ (r.length + 1 + 1 < 2) := by omega
      simp [parseString, hlen', hq] at h

/-- the grammar accepts a well-formed body up to its closing quote, whatever follows -/
theorem chars_inner (s : Bytes) (h : Inner s) (r : Bytes) : Spec.Json.chars (s ++ 0x22 :: r) = some r := by
  induction h with
  | nil => rw [List.nil_append, chars_cons]; rfl
  | plain c t hc _ ih =>
    have h1 : (c == 0x22) = false := by simpa using hc.1
    have h2 : (c == 0x5c) = false := by simpa using hc.2.1
    rw [List.cons_append, chars_cons]
    simp only [h1, h2, hc.2.2, Bool.false_eq_true, if_false]
    exact ih
  | simple e t he _ ih =>
    rw [List.cons_append, List.cons_append, chars_cons]
    have : (e == 0x22 || e == 0x5c || e == 0x2f || e == 0x62 || e == 0x66 || e == 0x6e || e == 0x72 || e == 0x74) = true := he
    simp only [show ((0x5c : UInt8) == 0x22) = false by decide, beq_self_eq_true, Bool.false_eq_true, if_false, if_true, this]
    exact ih
  | uni a b c d t hh _ ih =>
    simp only [List.cons_append]
    rw [chars_cons]
    simp only [show ((0x5c : UInt8) == 0x22) = false by decide, beq_self_eq_true, Bool.false_eq_true, if_false, if_true]
    have hu : ((0x75 : UInt8) == 0x22 || (0x75 : UInt8) == 0x5c || (0x75 : UInt8) == 0x2f || (0x75 : UInt8) == 0x62 ||
      (0x75 : UInt8) == 0x66 || (0x75 : UInt8) == 0x6e || (0x75 : UInt8) == 0x72 || (0x75 : UInt8) == 0x74) = false := by decide
    simp only [hu, Bool.false_eq_true, if_false, hh, if_true]
    exact ih

/-- a string token: the literal `"` s `"` with a well-formed body, under flags that are sound for it -/
structure StrLit (fl : PFlags) (v s : Bytes) : Prop where
  eq : v = 0x22 :: (s ++ [0x22])
  inner : Inner s
  sound : QSound fl v

theorem innerOf_lit (s : Bytes) : innerOf (0x22 :: (s ++ [0x22])) = s := by
  unfold innerOf
  simp

theorem qsound_empty (v : Bytes) : QSound {} v := by
  intro p q _
  exact ⟨fun h => Bool.noConfusion h, fun h => Bool.noConfusion h⟩

/-- re-parsing the token text alone (what `String` and `AppendUnquote` do) succeeds, consumes all of it, and the kind
found is again determined by the body -/
theorem reparse {fl : PFlags} {v s : Bytes} (h : StrLit fl v s) :
    ∃ k, parseString fl v = .ok k [] ∧
      ((k = .unescaped ∧ plainInner s = true) ∨ (k = .string ∧ plainInner s = false)) := by
  have hstr : Spec.Json.string v = some [] := by
    rw [h.eq]
    show Spec.Json.chars (s ++ [0x22]) = some []
    exact chars_inner s h.inner []
  have ht := parseString_toOpt fl v h.sound
  rw [hstr] at ht
  cases hp : parseString fl v with
  | err e => rw [hp] at ht; simp at ht
  | ok k rest =>
    rw [hp] at ht
    simp only [toOpt_ok, Option.some.injEq] at ht
    subst ht
    obtain ⟨s', he, _, hk⟩ := parseString_ok' fl v k [] h.sound hp
    have : s' = s := by
      have := h.eq.symm.trans he
      simp only [List.cons.injEq, true_and] at this
      exact (List.append_cancel_right this).symm
    subst this
    exact ⟨k, rfl, hk⟩

theorem plain_ascii {s : Bytes} (h : plainInner s = true) : ∀ x ∈ s, x ≠ 0x5c ∧ x < 0x80 := by
  intro x hx
  obtain ⟨⟨_, h2⟩, h3⟩ := (plainInner_iff s).mp h x hx
  refine ⟨h3, ?_⟩
  have := UInt8.le_iff_toNat_le.mp h2
  apply UInt8.lt_iff_toNat_lt.mpr
  simp at this ⊢; omega

/-- `parseStringUnquote` on a string token: the stdlib's `unquoteBytes` of the body, nothing left over -/
theorem parseStringUnquote_lit {fl : PFlags} {v s : Bytes} (h : StrLit fl v s) :
    parseStringUnquote fl v = some (unquoteStd (s.length + 1) s, []) := by
  obtain ⟨k, hp, hk⟩ := reparse h
  unfold parseStringUnquote
  rw [hp]
  have hin : (List.take (v.length - ([] : Bytes).length) v |>.drop 1).take
      ((List.take (v.length - ([] : Bytes).length) v).length - 2) = s := by
    simp only [List.length_nil, Nat.sub_zero, List.take_length]
    have := innerOf_lit s
    unfold innerOf at this
    rw [h.eq]; exact this
  simp only [hin]
  rcases hk with ⟨rfl, hpl⟩ | ⟨rfl, _⟩
  · simp only [beq_self_eq_true, if_true, std_ascii_id s (plain_ascii hpl) _ (Nat.le_succ _)]
  · have : (Kind.string == Kind.unescaped) = false := by decide
    simp only [this, Bool.false_eq_true, if_false,
      loop_eq_std s.length s (Nat.le_refl _) h.inner (s.length + 1) (s.length + 1) (Nat.le_refl _) (Nat.le_succ _),
      Option.map_some]

/-- after a successful `parseString` the unquoting loop cannot fail (so the partial result the Go code would return
with the loop's error is never observable, and `s[0]` after a trailing backslash never panics) -/
theorem unquote_total (fl : PFlags) (b : Bytes) (k : Kind) (rest : Bytes) (hs : QSound fl b)
    (h : parseString fl b = .ok k rest) : (parseStringUnquote fl b).isSome = true := by
  obtain ⟨s, he, hI, _⟩ := parseString_ok' fl b k rest hs h
  unfold parseStringUnquote
  rw [h]
  simp only
  split
  · rfl
  · have hex := inner_extract s rest
    rw [← he] at hex
    rw [hex, loop_eq_std s.length s (Nat.le_refl _) hI (s.length + 1) (s.length + 1) (Nat.le_refl _) (Nat.le_succ _)]
    rfl

end Enc.Lemmas.TokAcc
