import Enc.Model.Json.EncString
import Enc.Spec.Json.StdEnc
import Std.Tactic.BVDecide
/-!
# JSON (C01), strings: `encoder.encodeString` writes exactly what `encoding/json` writes

* `escMask_ne_zero`, `ctz_escMask` (by `bv_decide`): the SWAR mask of one 8-byte word is non-zero iff one of the bytes
  needs escaping, and then `ctz / 8` is *exactly* the index of the first such byte (no false positive survives: a borrow
  can only come from a lower byte that is itself flagged).
* `escapeIndex_eq`: the word-at-a-time scan is the plain byte-wise first-index search; `escapeIndex_spec`.
* `encLoop_eq`: the slow loop of the model is the specification loop `Spec.Json.appendChars` (same fuel).
* `appendChars_fuel`, `appendChars_prefix`, `take_encLoop`: fuel independence, copied prefix.
* `encodeString_eq`: MAIN.
-/
namespace Enc.Lemmas.JsonEncString

open Enc Enc.Model.Json

theorem hex_table (n : Nat) (h : n < 16) : hexDigitLower n = Spec.Json.hexLower n := by
  have : n = 0 ∨ n = 1 ∨ n = 2 ∨ n = 3 ∨ n = 4 ∨ n = 5 ∨ n = 6 ∨ n = 7 ∨ n = 8 ∨ n = 9 ∨ n = 10 ∨ n = 11 ∨ n = 12 ∨
      n = 13 ∨ n = 14 ∨ n = 15 := by omega
  rcases this with h | h | h | h | h | h | h | h | h | h | h | h | h | h | h | h <;> subst h <;> decide +kernel

/-- the three guards of the slow loop, as named predicates -/
def c1 (c : UInt8) (html : Bool) : Bool :=
  c ≥ 0x20 && c ≤ 0x7f && c != 0x5c && c != 0x22 && (!html || (c != 0x3c && c != 0x3e && c != 0x26))
def c2 (c : UInt8) : Bool :=
  c == 0x5c || c == 0x22 || c == 0x08 || c == 0x0c || c == 0x0a || c == 0x0d || c == 0x09
def c3 (c : UInt8) : Bool := c == 0x3c || c == 0x3e || c == 0x26 || c < 0x20

theorem c1_eq (c : UInt8) (html : Bool) : c1 c html = (decide (c < 0x80) && Spec.Json.safe c html) := by
  unfold c1 Spec.Json.safe; cases html <;> simp only [bne] at * <;> bv_decide

theorem c1_eq_not_needs (c : UInt8) (html : Bool) : c1 c html = !needsEscapeByte c html := by
  unfold c1 needsEscapeByte; cases html <;> simp only [bne] at * <;> bv_decide

theorem c2_hi (c : UInt8) (h : ¬ c < 0x80) : c2 c = false := by
  unfold c2; bv_decide
theorem c3_hi (c : UInt8) (h : ¬ c < 0x80) : c3 c = false := by
  unfold c3; bv_decide
theorem c3_lo (c : UInt8) (html : Bool) (h : c < 0x80) (hs : Spec.Json.safe c html = false) (h2 : c2 c = false) :
    c3 c = true := by
  unfold c3 c2 Spec.Json.safe at *; cases html <;> simp only [bne] at * <;> bv_decide

/-- the escape sequence chosen by the specification for an unsafe ASCII byte -/
def specEsc (c : UInt8) : Bytes :=
  if c == 0x5c || c == 0x22 then [0x5c, c]
  else if c == 0x08 then [0x5c, 0x62] else if c == 0x0c then [0x5c, 0x66]
  else if c == 0x0a then [0x5c, 0x6e] else if c == 0x0d then [0x5c, 0x72] else if c == 0x09 then [0x5c, 0x74]
  else [0x5c, 0x75, 0x30, 0x30, Spec.Json.hexLower (c.toNat / 16), Spec.Json.hexLower (c.toNat % 16)]

theorem specEsc_c2 (c : UInt8) (h : c2 c = true) : specEsc c = [0x5c, escapeByteRepr c] := by
  simp only [c2, Bool.or_eq_true, beq_iff_eq] at h
  rcases h with (((((h | h) | h) | h) | h) | h) | h <;> subst h <;> decide

theorem specEsc_not_c2 (c : UInt8) (h : c2 c = false) :
    specEsc c = [0x5c, 0x75, 0x30, 0x30, Spec.Json.hexLower (c.toNat / 16), Spec.Json.hexLower (c.toNat % 16)] := by
  simp only [c2, Bool.or_eq_false_iff] at h
  obtain ⟨⟨⟨⟨⟨⟨h1, h2⟩, h3⟩, h4⟩, h5⟩, h6⟩, h7⟩ := h
  simp only [specEsc, h1, h2, h3, h4, h5, h6, h7, Bool.or_false, Bool.false_eq_true, if_false]

/-- the slow loop of the model is the specification's loop (same fuel) -/
theorem encLoop_eq (html : Bool) (fuel : Nat) : ∀ s : Bytes,
    encLoop html fuel s = Spec.Json.appendChars html fuel s := by
  induction fuel with
  | zero => intro s; rfl
  | succ fuel ih =>
    intro s
    match s with
    | [] => rfl
    | c :: rest =>
      unfold encLoop Spec.Json.appendChars
      show (if c1 c html = true then _ else if c2 c = true then _ else if c3 c = true then _ else _) =
        (if c < 0x80 then (if Spec.Json.safe c html = true then _ else specEsc c ++ _) else _)
      by_cases h80 : c < 0x80
      · rw [if_pos h80, c1_eq, decide_eq_true h80, Bool.true_and]
        cases hs : Spec.Json.safe c html
        · simp only [Bool.false_eq_true, if_false]
          cases h2 : c2 c
          · simp only [Bool.false_eq_true, if_false, c3_lo c html h80 hs h2, if_true]
            rw [specEsc_not_c2 c h2, ih,
              hex_table _ (by have := c.toNat_lt; omega), hex_table _ (Nat.mod_lt _ (by decide))]
          · simp only [if_true]
            rw [specEsc_c2 c h2, ih]; rfl
        · simp only [if_true]
          rw [ih]
      · rw [if_neg h80, c1_eq, decide_eq_false h80, Bool.false_and, c2_hi c h80, c3_hi c h80]
        simp only [Bool.false_eq_true, if_false]
        generalize Utf8.decodeRune (c :: rest) = p
        obtain ⟨r, size⟩ := p
        simp only [ih, hex_table _ (Nat.mod_lt r (by decide : 0 < 16))]


theorem safe_of_not_needs (c : UInt8) (html : Bool) (h : needsEscapeByte c html = false) :
    c < 0x80 ∧ Spec.Json.safe c html = true := by
  unfold needsEscapeByte Spec.Json.safe at *
  cases html <;> simp only [bne] at * <;> (constructor <;> bv_decide)

theorem decodeRune_size_pos (c : UInt8) (rest : Bytes) : 1 ≤ (Utf8.decodeRune (c :: rest)).2 := by
  unfold Utf8.decodeRune
  simp only []
  repeat' split
  all_goals simp

/-- the specification loop does not depend on the fuel once it exceeds the input length -/
theorem appendChars_fuel (html : Bool) (f1 : Nat) : ∀ (f2 : Nat) (t : Bytes), t.length < f1 → t.length < f2 →
    Spec.Json.appendChars html f1 t = Spec.Json.appendChars html f2 t := by
  induction f1 with
  | zero => intro f2 t h; omega
  | succ f1 ih =>
    intro f2 t h1 h2
    match f2, t, h1, h2 with
    | f2 + 1, [], _, _ => rfl
    | f2 + 1, c :: rest, h1, h2 =>
      simp only [List.length_cons] at h1 h2
      unfold Spec.Json.appendChars
      have hr := ih f2 rest (by omega) (by omega)
      have hp := decodeRune_size_pos c rest
      revert hp
      generalize Utf8.decodeRune (c :: rest) = p
      obtain ⟨r, size⟩ := p
      intro hp
      have hd := ih f2 ((c :: rest).drop size) (by simp only [List.length_drop, List.length_cons]; simp at hp; omega)
        (by simp only [List.length_drop, List.length_cons]; simp at hp; omega)
      simp only [hr, hd]

theorem appendChars_cons_safe (html : Bool) (c : UInt8) (rest : Bytes) (f : Nat) (h80 : c < 0x80)
    (hs : Spec.Json.safe c html = true) :
    Spec.Json.appendChars html (f + 1) (c :: rest) = c :: Spec.Json.appendChars html f rest := by
  rw [Spec.Json.appendChars]
  simp only [h80, hs, if_true]

/-- a prefix of bytes that need no escaping is copied -/
theorem appendChars_prefix (html : Bool) (p t : Bytes) (fuel : Nat)
    (hp : ∀ c ∈ p, needsEscapeByte c html = false) :
    Spec.Json.appendChars html (p.length + fuel) (p ++ t) = p ++ Spec.Json.appendChars html fuel t := by
  induction p with
  | nil => simp
  | cons c p ih =>
    obtain ⟨h80, hs⟩ := safe_of_not_needs c html (hp c (by simp))
    have e : (c :: p).length + fuel = (p.length + fuel) + 1 := by simp; omega
    rw [e, List.cons_append, appendChars_cons_safe html c _ _ h80 hs, ih (fun c hc => hp c (by simp [hc]))]
    rfl

theorem tail_none (html : Bool) (s : Bytes) : ∀ i, escapeIndexTail s i html = none →
    ∀ c ∈ s, needsEscapeByte c html = false := by
  induction s with
  | nil => intro i _ c hc; simp at hc
  | cons x r ih =>
    intro i h c hc
    unfold escapeIndexTail at h
    cases hx : needsEscapeByte x html
    · simp only [hx, Bool.false_eq_true, if_false] at h
      rcases List.mem_cons.mp hc with rfl | hc
      · exact hx
      · exact ih (i + 1) h c hc
    · simp [hx] at h

theorem tail_some (html : Bool) (s : Bytes) : ∀ i j, escapeIndexTail s i html = some j →
    i ≤ j ∧ j - i < s.length ∧ ∀ c ∈ s.take (j - i), needsEscapeByte c html = false := by
  induction s with
  | nil => intro i j h; simp [escapeIndexTail] at h
  | cons x r ih =>
    intro i j h
    unfold escapeIndexTail at h
    cases hx : needsEscapeByte x html
    · simp only [hx, Bool.false_eq_true, if_false] at h
      obtain ⟨h1, h2, h3⟩ := ih (i + 1) j h
      have e : j - i = (j - (i + 1)) + 1 := by omega
      refine ⟨by omega, by simp only [List.length_cons]; omega, ?_⟩
      rw [e, List.take_succ_cons]
      intro c hc
      rcases List.mem_cons.mp hc with rfl | hc
      · exact hx
      · exact h3 c hc
    · simp only [hx, if_true, Option.some.injEq] at h
      subst h
      simp

theorem escMask_ne_zero (a b c d e f g h : UInt8) (html : Bool) :
    (escMask (leWord a b c d e f g h) html != 0#64) =
      (needsEscapeByte a html || (needsEscapeByte b html || (needsEscapeByte c html || (needsEscapeByte d html ||
      (needsEscapeByte e html || (needsEscapeByte f html || (needsEscapeByte g html || needsEscapeByte h html))))))) := by
  unfold escMask leWord needsEscapeByte containsB below expand lsb64 msb64 Gen.c_json_lsb Gen.c_json_msb
  cases html <;> simp only [Bool.false_and, Bool.true_and, Bool.or_false, if_true, Bool.false_eq_true, if_false] <;> bv_decide

/-- index of the first byte needing an escape among eight bytes, as a word -/
def first8 (html : Bool) (a b c d e f g _h : UInt8) : BitVec 64 :=
  if needsEscapeByte a html then 0#64 else if needsEscapeByte b html then 1#64
  else if needsEscapeByte c html then 2#64 else if needsEscapeByte d html then 3#64
  else if needsEscapeByte e html then 4#64 else if needsEscapeByte f html then 5#64
  else if needsEscapeByte g html then 6#64 else 7#64

theorem ctz_escMask (a b c d e f g h : UInt8) (html : Bool)
    (hq : (needsEscapeByte a html || (needsEscapeByte b html || (needsEscapeByte c html || (needsEscapeByte d html ||
      (needsEscapeByte e html || (needsEscapeByte f html || (needsEscapeByte g html || needsEscapeByte h html))))))) = true) :
    (escMask (leWord a b c d e f g h) html).ctz / 8#64 = first8 html a b c d e f g h := by
  unfold first8 escMask leWord needsEscapeByte containsB below expand lsb64 msb64 Gen.c_json_lsb Gen.c_json_msb at *
  cases html <;> simp only [Bool.false_and, Bool.true_and, Bool.or_false, if_true, Bool.false_eq_true, if_false] at * <;> bv_decide

theorem ctz_div8 (m : BitVec 64) : m.ctz.toNat / 8 = (m.ctz / 8#64).toNat := by
  simp [BitVec.toNat_udiv]

/-- the byte-wise search over eight bytes, in terms of `first8` -/
theorem tail8 (a b c d e f g h : UInt8) (rest : Bytes) (base : Nat) (html : Bool) :
    escapeIndexTail (a :: b :: c :: d :: e :: f :: g :: h :: rest) base html =
      if (needsEscapeByte a html || (needsEscapeByte b html || (needsEscapeByte c html || (needsEscapeByte d html ||
        (needsEscapeByte e html || (needsEscapeByte f html || (needsEscapeByte g html || needsEscapeByte h html)))))))
      then some (base + (first8 html a b c d e f g h).toNat)
      else escapeIndexTail rest (base + 8) html := by
  simp only [escapeIndexTail, first8]
  cases needsEscapeByte a html <;> cases needsEscapeByte b html <;> cases needsEscapeByte c html <;>
    cases needsEscapeByte d html <;> cases needsEscapeByte e html <;> cases needsEscapeByte f html <;>
    cases needsEscapeByte g html <;> cases needsEscapeByte h html <;> simp [Nat.add_assoc]

/-- the word-at-a-time scan is the plain byte-wise first-index search -/
theorem go_eq_tail (html : Bool) (n : Nat) : ∀ (s : Bytes) (base : Nat), s.length ≤ n →
    escapeIndex.go html s base = escapeIndexTail s base html := by
  induction n with
  | zero =>
    intro s base hs
    match s, hs with
    | [], _ => unfold escapeIndex.go; rfl
  | succ n ih =>
    intro s base hs
    unfold escapeIndex.go
    split
    · rename_i a b c d e f g h rest
      show (if (escMask (leWord a b c d e f g h) html != 0#64) = true then _ else _) = _
      rw [tail8, escMask_ne_zero]
      split
      · rename_i hq
        rw [ctz_div8, ctz_escMask _ _ _ _ _ _ _ _ _ hq]
      · exact ih rest (base + 8) (by simp at hs; omega)
    · rfl

theorem escapeIndex_eq (s : Bytes) (html : Bool) : escapeIndex s html = escapeIndexTail s 0 html :=
  go_eq_tail html s.length s 0 (Nat.le_refl _)

/-- what the scan returns: no byte needs escaping (`none`), or an index below which no byte needs escaping -/
theorem escapeIndex_spec (s : Bytes) (html : Bool) :
    match escapeIndex s html with
    | none => ∀ c ∈ s, needsEscapeByte c html = false
    | some j => j < s.length ∧ ∀ c ∈ s.take j, needsEscapeByte c html = false := by
  rw [escapeIndex_eq]
  cases h : escapeIndexTail s 0 html with
  | none => exact tail_none html s 0 h
  | some j => have := tail_some html s 0 j h; simpa using this.2

/-- starting the slow loop after a copied prefix that needs no escaping is the same as running the specification loop
from the beginning -/
theorem take_encLoop (html : Bool) (s : Bytes) (j : Nat) (hj : j ≤ s.length)
    (hp : ∀ c ∈ s.take j, needsEscapeByte c html = false) :
    s.take j ++ encLoop html (s.length + 1) (s.drop j) = Spec.Json.appendChars html (s.length + 1) s := by
  rw [encLoop_eq, appendChars_fuel html (s.length + 1) (s.length + 1 - j) (s.drop j) (by simp; omega) (by simp; omega),
    ← appendChars_prefix html (s.take j) (s.drop j) (s.length + 1 - j) hp, List.take_append_drop]
  congr 1
  simp; omega

theorem encodeString_eq (s : Bytes) (escapeHTML : Bool) :
    Model.Json.encodeString s escapeHTML = Spec.Json.appendString s escapeHTML := by
  unfold encodeString Spec.Json.appendString
  cases s with
  | nil => rfl
  | cons x r =>
    have hne : (x :: r).isEmpty = false := rfl
    generalize x :: r = s at hne
    have hspec := escapeIndex_spec s escapeHTML
    simp only [hne, Bool.false_eq_true, if_false]
    by_cases h8 : s.length ≥ 8
    · simp only [h8, decide_true, Bool.true_and, if_true]
      cases h : escapeIndex s escapeHTML with
      | none =>
        rw [h] at hspec
        simp only [Option.isNone_none, if_true]
        have := take_encLoop escapeHTML s s.length (Nat.le_refl _) (by simpa using hspec)
        rw [← this]; simp [encLoop]
      | some j =>
        rw [h] at hspec
        simp only [Option.isNone_some, Bool.false_eq_true, if_false]
        rw [List.append_assoc [0x22], take_encLoop escapeHTML s j (Nat.le_of_lt hspec.1) hspec.2]
    · simp only [h8, decide_false, Bool.false_and, Bool.false_eq_true, if_false]
      have := take_encLoop escapeHTML s 0 (Nat.zero_le _) (by simp)
      simp only [List.take_zero, List.drop_zero, List.nil_append] at this
      simp [this]

end Enc.Lemmas.JsonEncString
