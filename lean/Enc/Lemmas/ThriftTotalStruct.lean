import Enc.Lemmas.ThriftTotalFuel
/-!
C08, thrift: the decoder ACCEPTS what the encoder writes, structs / maps / sets included — success and exact
consumption only (the decoded value is not compared with the encoded one: that is the round-trip property, not C08).
This is what turns the any-input truncation theorems of `ThriftTotalDecode` into statements about `encode p ty v`.

  * `DT ty v` / `DTF fs vs`   the universe: typed values (integers within their signed kind, sizes ≤ MaxInt32) of bool,
        integers, doubles, strings, []byte, slices, maps, sets (`map[K]struct{}`), structs, pointers, named types, any
        nesting; struct fields: ids 1 … 32767 pairwise distinct over the DECLARED fields, real wire types, no `enum`
        option, nil pointers only in non-`required` fields (a `required` nil pointer is dropped by the encoder and
        reported as `missingField` by the decoder), untagged fields arbitrary.
        Excluded (`_partial` in the sense of the task): enum-tagged fields, nil values outside struct fields, unsigned
        kinds / arrays / interfaces.
  * `Shape ty cur`   what the model needs from the current target value (a struct target is a `.struct` of the right
        arity, recursively); `shape_zeroOf`: the zero value has it
  * `decode_ok`      `DT ty v → ∀ dp, dp + nest ty ≤ maxDepth → ∃ F, ∀ fuel ≥ F, ∀ rest cur, Shape ty cur →
                         ∃ v', decode p strict dp fuel ty (encode p ty v ++ rest) cur = ok (v', rest) ∧ Shape ty v'`
        (`dp` = the decoder's nesting depth; beyond `maxDepth` the decoder answers `"maxDepth"`, so the hypothesis is
        needed: `decode_too_deep` in `ThriftTotal`)
  * `decodeStruct_emit_binary/_compact`   the struct loop over `emitFields` of declared fields (delta ids, coalesced
        bools, `findById`, the seen-set and the required check)
-/
namespace Enc.Lemmas.ThriftTotal
open Enc Enc.Model.Thrift Enc.Lemmas.ThriftPrim Enc.Lemmas.ThriftSkip

/-! ### shapes: what the model's struct decoder needs from the current target value -/
mutual
def Shape : Ty → Val → Bool
  | .struct fs, v => (match v with | .struct vs => ShapeF fs vs | _ => false)
  | .named _ t, v => Shape t v
  | .ptr t, v => (match v with | .ptr x => Shape t x | _ => true)
  | _, _ => true
def ShapeF : Fields → Vals → Bool
  | .cons _ _ _ t r, .cons v vs => Shape t v && ShapeF r vs
  | .nil, _ => true
  | .cons _ _ _ _ _, .nil => false
end

mutual
theorem shape_zeroOf : (t : Ty) → Shape t (zeroOf t) = true
  | .struct fs => by simp only [zeroOf, Shape]; exact shapeF_zero fs
  | .named _ t => by simp only [zeroOf, Shape]; exact shape_zeroOf t
  | .ptr t => by simp [zeroOf, Shape]
  | .bool | .int _ | .f32 | .f64 | .str | .bytes | .any | .arr _ _ | .slice _ | .map _ _ => by simp [Shape]
theorem shapeF_zero : (fs : Fields) → ShapeF fs (zeroFields fs) = true
  | .nil => by simp [ShapeF]
  | .cons _ _ _ t r => by simp only [zeroFields, ShapeF, Bool.and_eq_true]; exact ⟨shape_zeroOf t, shapeF_zero r⟩
end

theorem go_cons (n tag : String) (e : Bool) (t : Ty) (rest : Fields) (pos : Nat) :
    fieldDescs.go (.cons n tag e t rest) pos =
      match parseTag tag with
      | none => fieldDescs.go rest (pos + 1)
      | some (id, req, en) =>
        { pos := pos, id := id, required := req, enum := en, ty := t } :: fieldDescs.go rest (pos + 1) := by
  rw [fieldDescs.go]
  unfold parseTag
  cases tagValue tag with
  | none => rfl
  | some v =>
    simp only
    by_cases hv : (v == "") = true
    · simp only [hv, if_true]
    · simp only [hv, Bool.false_eq_true, if_false]
      cases ((v.splitOn ",").headD "").toInt? <;> rfl

def declIds : Fields → List Int
  | .nil => []
  | .cons _ tag _ _ rest =>
    match parseTag tag with
    | none => declIds rest
    | some (id, _, _) => id :: declIds rest

theorem go_ids : (fs : Fields) → (pos : Nat) → (fieldDescs.go fs pos).map (·.id) = declIds fs
  | .nil, _ => by simp [fieldDescs.go, declIds]
  | .cons n tag e t rest, pos => by
    rw [go_cons, declIds]
    have ih := go_ids rest (pos + 1)
    cases parseTag tag with
    | none => simpa using ih
    | some x => obtain ⟨id, req, en⟩ := x; simp [ih]

theorem findById_self : ∀ (l : List FieldDesc), (l.map (·.id)).Nodup → ∀ d ∈ l, findById l d.id = some d := by
  intro l
  induction l with
  | nil => intro _ d hd; cases hd
  | cons a l ih =>
    intro hnd d hd
    rw [List.map_cons, List.nodup_cons] at hnd
    unfold findById
    rw [List.find?_cons]
    rcases List.mem_cons.mp hd with rfl | hd
    · simp
    · have hne : a.id ≠ d.id := by
        intro heq
        apply hnd.1
        rw [heq]
        exact List.mem_map_of_mem hd
      have : (a.id == d.id) = false := by simpa using hne
      simp only [this]
      exact ih hnd.2 d hd

theorem shape_pos : (fs : Fields) → (pos : Nat) → ∀ d ∈ fieldDescs.go fs pos, pos ≤ d.pos ∧
    (∀ cvs, ShapeF fs cvs = true → Shape d.ty (Vals.get cvs (d.pos - pos)) = true) ∧
    (∀ cvs v, ShapeF fs cvs = true → Shape d.ty v = true → ShapeF fs (Vals.set cvs (d.pos - pos) v) = true)
  | .nil, pos => by intro d hd; simp [fieldDescs.go] at hd
  | .cons n tag e t rest, pos => by
    intro d hd
    rw [go_cons] at hd
    have tailCase : d ∈ fieldDescs.go rest (pos + 1) → pos ≤ d.pos ∧
        (∀ cvs, ShapeF (.cons n tag e t rest) cvs = true → Shape d.ty (Vals.get cvs (d.pos - pos)) = true) ∧
        (∀ cvs v, ShapeF (.cons n tag e t rest) cvs = true → Shape d.ty v = true →
          ShapeF (.cons n tag e t rest) (Vals.set cvs (d.pos - pos) v) = true) := by
      intro hd
      obtain ⟨h1, h2, h3⟩ := shape_pos rest (pos + 1) d hd
      have e : d.pos - pos = (d.pos - (pos + 1)) + 1 := by omega
      refine ⟨by omega, fun cvs hs => ?_, fun cvs v hs hv => ?_⟩
      · cases cvs with
        | nil => simp [ShapeF] at hs
        | cons v0 r0 =>
          simp only [ShapeF, Bool.and_eq_true] at hs
          rw [e, Vals.get]
          exact h2 r0 hs.2
      · cases cvs with
        | nil => simp [ShapeF] at hs
        | cons v0 r0 =>
          simp only [ShapeF, Bool.and_eq_true] at hs
          rw [e, Vals.set]
          simp only [ShapeF, Bool.and_eq_true]
          exact ⟨hs.1, h3 r0 v hs.2 hv⟩
    cases hp : parseTag tag with
    | none => rw [hp] at hd; exact tailCase hd
    | some x =>
      obtain ⟨id, req, en⟩ := x
      rw [hp] at hd
      rcases List.mem_cons.mp hd with rfl | hd
      · refine ⟨Nat.le_refl _, fun cvs hs => ?_, fun cvs v hs hv => ?_⟩
        · cases cvs with
          | nil => simp [ShapeF] at hs
          | cons v0 r0 =>
            simp only [ShapeF, Bool.and_eq_true] at hs
            simp only [Nat.sub_self, Vals.get]
            exact hs.1
        · cases cvs with
          | nil => simp [ShapeF] at hs
          | cons v0 r0 =>
            simp only [ShapeF, Bool.and_eq_true] at hs
            simp only [Nat.sub_self, Vals.set, ShapeF, Bool.and_eq_true]
            exact ⟨hv, hs.2⟩
      · exact tailCase hd

theorem shape_get (fs : Fields) (d : FieldDesc) (hd : d ∈ fieldDescs fs) (cvs : Vals) (h : ShapeF fs cvs = true) :
    Shape d.ty (Vals.get cvs d.pos) = true := by
  have := (shape_pos fs 0 d hd).2.1 cvs h
  simpa using this
theorem shape_set (fs : Fields) (d : FieldDesc) (hd : d ∈ fieldDescs fs) (cvs : Vals) (v : Val)
    (h : ShapeF fs cvs = true) (hv : Shape d.ty v = true) : ShapeF fs (Vals.set cvs d.pos v) = true := by
  have := (shape_pos fs 0 d hd).2.2 cvs v h hv
  simpa using this

theorem shape_wrapPtr_bool : (ty : Ty) → (v : Val) → typeOf ty = .bool → Shape ty (wrapPtr ty v) = true
  | .struct _, _, h => by simp [typeOf] at h
  | .named _ t, v, h => by simp only [typeOf] at h; simp only [wrapPtr, Shape]; exact shape_wrapPtr_bool t v h
  | .ptr t, v, h => by simp only [typeOf] at h; simp only [wrapPtr, Shape]; exact shape_wrapPtr_bool t v h
  | .bool, _, _ | .int _, _, _ | .f32, _, _ | .f64, _, _ | .str, _, _ | .bytes, _, _ | .any, _, _ | .arr _ _, _, _
  | .slice _, _, _ | .map _ _, _, _ => by simp [Shape]

/-- what the struct decoder needs from one emitted record: it belongs to a declared field of the announced type, and
the field's decoder succeeds on the record's body -/
def RecOK (p : Proto) (strict : Bool) (dp : Nat) (fs : Fields) (B : Nat) (f : FieldRec) : Prop :=
  1 ≤ f.id ∧ f.id ≤ 32767 ∧ isReal f.t = true ∧ f.t ≠ .true_ ∧
    ∃ d, d ∈ fieldDescs fs ∧ findById (fieldDescs fs) f.id = some d ∧ f.t = typeOf d.ty ∧ d.enum = false ∧
      ∀ fuel, B ≤ fuel → ∀ rest cur, Shape d.ty cur = true →
        ∃ v', decode p strict dp fuel d.ty (f.body ++ rest) cur = .ok (v', rest) ∧ Shape d.ty v' = true

theorem RecOK.mono {p : Proto} {strict : Bool} {dp : Nat} {fs : Fields} {B B' : Nat} {f : FieldRec}
    (h : RecOK p strict dp fs B f) (hB : B ≤ B') : RecOK p strict dp fs B' f := by
  obtain ⟨h1, h2, h3, h4, d, h5, h6, h7, h8, h9⟩ := h
  exact ⟨h1, h2, h3, h4, d, h5, h6, h7, h8, fun fuel hf => h9 fuel (by omega)⟩

theorem decodeStruct_stop (p : Proto) (strict : Bool) (dp fuel : Nat) (descs : List FieldDesc) (rest : Bytes) (vs : Vals)
    (last : Int) (num : Nat) (seen : List Int) (hf : 1 ≤ fuel) :
    decodeStruct p strict dp fuel descs (wStopField p ++ rest) vs last num seen = .ok ((vs, seen), rest) := by
  obtain ⟨f, rfl⟩ : ∃ f, fuel = f + 1 := ⟨fuel - 1, by omega⟩
  cases p with
  | compact =>
    have : wStopField .compact = wField .compact .stop 0 false := rfl
    rw [decodeStruct, this, rField_wField_compact_stop]
    simp
  | binary s =>
    rw [decodeStruct, wStopField_binary s false, rField_wField_binary s .stop 0 false (Or.inr rfl) (by decide)]
    simp

theorem decodeStruct_emit_binary (s strict : Bool) (dp : Nat) (fs : Fields) (B : Nat) :
    ∀ (l : List FieldRec) (last : Int) (num fuel : Nat) (rest : Bytes) (cvs : Vals) (seen : List Int),
      (∀ f ∈ l, RecOK (.binary s) strict dp fs B f) → ShapeF fs cvs = true → B + l.length + 1 ≤ fuel →
      ∃ cvs' seen', decodeStruct (.binary s) strict dp fuel (fieldDescs fs)
          (emitFields (.binary s) l last ++ (wStopField (.binary s) ++ rest)) cvs last num seen
            = .ok ((cvs', seen'), rest) ∧
        ShapeF fs cvs' = true ∧ (∀ f ∈ l, f.id ∈ seen') ∧ (∀ i ∈ seen, i ∈ seen') := by
  intro l
  induction l with
  | nil =>
    intro last num fuel rest cvs seen _ hs hf
    simp only [emitFields, List.nil_append]
    exact ⟨cvs, seen, decodeStruct_stop _ _ dp fuel _ rest cvs last num seen (by omega), hs, by simp, fun i hi => hi⟩
  | cons f r ih =>
    intro last num fuel rest cvs seen hg hs hf
    obtain ⟨h1, h2, hr, hnt, d, hdm, hfind, hft, hen, hdec⟩ := hg f (List.mem_cons_self ..)
    simp only [List.length_cons] at hf
    obtain ⟨fu, rfl⟩ : ∃ fu, fuel = fu + 1 := ⟨fuel - 1, by omega⟩
    obtain ⟨v', hv', hsv'⟩ := hdec fu (by omega) (emitFields (.binary s) r f.id ++ (wStopField (.binary s) ++ rest))
      (Vals.get cvs d.pos) (shape_get fs d hdm cvs hs)
    obtain ⟨cvs', seen', hrec, hs', hmem, hsub⟩ := ih f.id (num + 1) fu rest (Vals.set cvs d.pos v') (f.id :: seen)
      (fun g hg' => hg g (List.mem_cons_of_mem _ hg')) (shape_set fs d hdm cvs v' hs hsv') (by omega)
    refine ⟨cvs', seen', ?_, hs', ?_, fun i hi => hsub i (List.mem_cons_of_mem _ hi)⟩
    · simp only [emitFields, Proto.delta, Proto.coalesce, Bool.false_and, Bool.false_eq_true, if_false,
        List.append_assoc]
      rw [decodeStruct, rField_wField_binary s f.t f.id _ (Or.inl hr) (by omega)]
      simp only [ne_stop_of_real f.t hr, Bool.false_eq_true, if_false, wrap16_id f.id ⟨h1, h2⟩, hfind]
      simp only [hft, bne_self_eq_false, Bool.false_and, Proto.coalesce, Bool.false_eq_true, if_false, hen]
      rw [hv']
      simp only [dontExpectEOF_ok, Res.bind]
      exact hrec
    · intro g hg'
      rcases List.mem_cons.mp hg' with rfl | hg'
      · exact hsub _ (List.mem_cons_self ..)
      · exact hmem g hg'

theorem decodeStruct_emit_compact (strict : Bool) (dp : Nat) (fs : Fields) (B : Nat) :
    ∀ (l : List FieldRec) (last : Int) (num fuel : Nat) (rest : Bytes) (cvs : Vals) (seen : List Int),
      0 ≤ last → (∀ f ∈ l, last < f.id) → l.Pairwise (fun a b => a.id < b.id) →
      (∀ f ∈ l, RecOK .compact strict dp fs B f) → ShapeF fs cvs = true → B + l.length + 1 ≤ fuel →
      ∃ cvs' seen', decodeStruct .compact strict dp fuel (fieldDescs fs)
          (emitFields .compact l last ++ (wStopField .compact ++ rest)) cvs last num seen
            = .ok ((cvs', seen'), rest) ∧
        ShapeF fs cvs' = true ∧ (∀ f ∈ l, f.id ∈ seen') ∧ (∀ i ∈ seen, i ∈ seen') := by
  intro l
  induction l with
  | nil =>
    intro last num fuel rest cvs seen _ _ _ _ hs hf
    simp only [emitFields, List.nil_append]
    exact ⟨cvs, seen, decodeStruct_stop _ _ dp fuel _ rest cvs last num seen (by omega), hs, by simp, fun i hi => hi⟩
  | cons f r ih =>
    intro last num fuel rest cvs seen hl hlast hpw hg hs hf
    obtain ⟨h1, h2, hr, hnt, d, hdm, hfind, hft, hen, hdec⟩ := hg f (List.mem_cons_self ..)
    have hlt := hlast f (List.mem_cons_self ..)
    rw [List.pairwise_cons] at hpw
    simp only [List.length_cons] at hf
    obtain ⟨fu, rfl⟩ : ∃ fu, fuel = fu + 1 := ⟨fuel - 1, by omega⟩
    have ihr := fun cvs2 (hs2 : ShapeF fs cvs2 = true) => ih f.id (num + 1) fu rest cvs2 (f.id :: seen) (by omega)
      hpw.1 hpw.2 (fun g hg' => hg g (List.mem_cons_of_mem _ hg')) hs2 (by omega)
    have fin : ∀ cvs2 (hs2 : ShapeF fs cvs2 = true),
        (∀ cvs' seen', decodeStruct .compact strict dp fu (fieldDescs fs)
          (emitFields .compact r f.id ++ (wStopField .compact ++ rest)) cvs2 f.id (num + 1) (f.id :: seen)
            = .ok ((cvs', seen'), rest) →
          decodeStruct .compact strict dp (fu + 1) (fieldDescs fs)
            (emitFields .compact (f :: r) last ++ (wStopField .compact ++ rest)) cvs last num seen
              = .ok ((cvs', seen'), rest)) →
        ∃ cvs' seen', decodeStruct .compact strict dp (fu + 1) (fieldDescs fs)
          (emitFields .compact (f :: r) last ++ (wStopField .compact ++ rest)) cvs last num seen
            = .ok ((cvs', seen'), rest) ∧
          ShapeF fs cvs' = true ∧ (∀ g ∈ f :: r, g.id ∈ seen') ∧ (∀ i ∈ seen, i ∈ seen') := by
      intro cvs2 hs2 hstep
      obtain ⟨cvs', seen', hrec, hs', hmem, hsub⟩ := ihr cvs2 hs2
      refine ⟨cvs', seen', hstep _ _ hrec, hs', ?_, fun i hi => hsub i (List.mem_cons_of_mem _ hi)⟩
      intro g hg'
      rcases List.mem_cons.mp hg' with rfl | hg'
      · exact hsub _ (List.mem_cons_self ..)
      · exact hmem g hg'
    by_cases hb : f.t = .bool
    · -- coalesced bool: the value travels in the header
      have htb : typeOf d.ty = .bool := by rw [← hft]; exact hb
      apply fin (Vals.set cvs d.pos (wrapPtr d.ty (.bool f.isTrue)))
        (shape_set fs d hdm cvs _ hs (shape_wrapPtr_bool d.ty _ htb))
      intro cvs' seen' hrec
      simp only [emitFields, Proto.delta, Proto.coalesce, Bool.true_and, decide_eq_true_eq, List.append_assoc,
        hb, beq_self_eq_true, if_true, List.nil_append]
      have hreal : isReal (if f.isTrue = true then TType.true_ else TType.bool) = true := by
        split <;> rfl
      obtain ⟨h, hrd, hty, hid⟩ := rField_compact_emit _ f.id last hreal hl hlt h2
        (emitFields .compact r f.id ++ (wStopField .compact ++ rest))
      rw [decodeStruct, hrd]
      have hst : (h.t == TType.stop) = false := by rw [hty]; split <;> rfl
      simp only [hst, Bool.false_eq_true, if_false, hid, wrap16_id f.id ⟨h1, h2⟩, hfind, htb]
      have e1 : (TType.bool == TType.true_) = false := by decide
      have e2 : (TType.true_ != TType.bool) = true := by decide
      cases hT : f.isTrue
      · simp only [hT, Bool.false_eq_true, if_false] at hty
        rw [hT] at hrec
        simp [hty, Proto.coalesce, e1, hrec]
      · simp only [hT, if_true] at hty
        rw [hT] at hrec
        simp [hty, Proto.coalesce, e2, hrec]
    · have hb' : (f.t == TType.bool) = false := by simpa using hb
      obtain ⟨v', hv', hsv'⟩ := hdec fu (by omega) (emitFields .compact r f.id ++ (wStopField .compact ++ rest))
        (Vals.get cvs d.pos) (shape_get fs d hdm cvs hs)
      apply fin (Vals.set cvs d.pos v') (shape_set fs d hdm cvs v' hs hsv')
      intro cvs' seen' hrec
      simp only [emitFields, Proto.delta, Proto.coalesce, Bool.true_and, decide_eq_true_eq, List.append_assoc,
        hb', Bool.false_eq_true, if_false, Bool.false_and]
      obtain ⟨h, hrd, hty, hid⟩ := rField_compact_emit f.t f.id last hr hl hlt h2
        (f.body ++ (emitFields .compact r f.id ++ (wStopField .compact ++ rest)))
      rw [decodeStruct, hrd]
      have hnt' : (f.t == TType.true_) = false := by simpa using hnt
      simp only [hty, ne_stop_of_real f.t hr, Bool.false_eq_true, if_false, hid, wrap16_id f.id ⟨h1, h2⟩, hfind]
      have e1 : (f.t != typeOf d.ty) = false := by rw [hft]; simp
      simp only [e1, Bool.false_and, Bool.false_eq_true, if_false, hnt', hb', Bool.or_self, Bool.and_false, hen]
      rw [hv']
      simp only [dontExpectEOF_ok, Res.bind]
      exact hrec

/-! ### the universe -/
mutual
/-- typed values of every type the thrift encoder supports, structs / maps / sets included -/
def DT : Ty → Val → Bool
  | .bool, v => (match v with | .bool _ => true | _ => false)
  | .int k, v => (match v with | .int i => k.signed && k.inRange i | _ => false)
  | .f32, v | .f64, v => (match v with | .float b => decide (b < 2 ^ 64) | _ => false)
  | .str, v | .bytes, v => (match v with | .str s => decide (s.length ≤ maxLen) | _ => false)
  | .slice t, v =>
    if isU8 t then (match v with | .str s => decide (s.length ≤ maxLen) | _ => false)
    else isReal (typeOf t) &&
      (match v with
       | .list vs => decide (vs.length ≤ maxLen) && vs.toList.all (DT t)
       | _ => false)
  | .map k v, x =>
    isReal (typeOf k) && isReal (typeOf v) && decide ((pairsOfVal x).length ≤ maxLen) &&
      (pairsOfVal x).all fun kv => DT k kv.1 && (isEmptyStruct v || DT v kv.2)
  | .struct fs, v => (match v with | .struct vs => DTF fs vs && decide (declIds fs).Nodup | _ => false)
  | .ptr t, v => (match v with | .ptr x => DT t x | _ => false)
  | .named _ t, v => DT t v
  | .arr _ _, _ | .any, _ => false
/-- fields: tagged fields have an id in 1 … 32767, a real wire type, no `enum` option; a nil pointer only where the
field is not `required` (the encoder drops it, the decoder would report `missingField`) -/
def DTF : Fields → Vals → Bool
  | .cons _ tag _ t rest, .cons x vs =>
    DTF rest vs &&
      (match parseTag tag with
       | none => true
       | some (id, req, en) =>
         decide (1 ≤ id) && decide (id ≤ 32767) && isReal (typeOf t) && !en &&
           (if isNilPtr t x then !req else DT t x))
  | .nil, _ => true
  | .cons _ _ _ _ _, .nil => false
end

theorem DT_slice (t : Ty) (v : Val) : DT (.slice t) v =
    if isU8 t then (match v with | .str s => decide (s.length ≤ maxLen) | _ => false)
    else isReal (typeOf t) &&
      (match v with
       | .list vs => decide (vs.length ≤ maxLen) && vs.toList.all (DT t)
       | _ => false) := by
  cases v <;> rfl

theorem DT_map (k v : Ty) (x : Val) : DT (.map k v) x =
    (isReal (typeOf k) && isReal (typeOf v) && decide ((pairsOfVal x).length ≤ maxLen) &&
      (pairsOfVal x).all fun kv => DT k kv.1 && (isEmptyStruct v || DT v kv.2)) := by
  cases x <;> rfl

theorem DTF_cons (n tag : String) (e : Bool) (t : Ty) (rest : Fields) (x : Val) (vs : Vals) :
    DTF (.cons n tag e t rest) (.cons x vs) =
    (DTF rest vs &&
      (match parseTag tag with
       | none => true
       | some (id, req, en) =>
         decide (1 ≤ id) && decide (id ≤ 32767) && isReal (typeOf t) && !en &&
           (if isNilPtr t x then !req else DT t x))) := by
  rfl

theorem exists_bound {α} (Q : α → Nat → Prop) : ∀ (l : List α),
    (∀ a ∈ l, ∃ F, ∀ fuel, F ≤ fuel → Q a fuel) → ∃ F, ∀ a ∈ l, ∀ fuel, F ≤ fuel → Q a fuel := by
  intro l
  induction l with
  | nil => intro _; exact ⟨0, fun a ha => by cases ha⟩
  | cons a l ih =>
    intro h
    obtain ⟨Fa, ha⟩ := h a (List.mem_cons_self ..)
    obtain ⟨Fl, hl⟩ := ih (fun b hb => h b (List.mem_cons_of_mem _ hb))
    refine ⟨max Fa Fl, fun b hb fuel hf => ?_⟩
    rcases List.mem_cons.mp hb with rfl | hb
    · exact ha fuel (by omega)
    · exact hl b hb fuel (by omega)

/-- `decode` succeeds on an encoding, consuming exactly it, returning a value of the right shape -/
def DecAt (p : Proto) (strict : Bool) (dp : Nat) (t : Ty) (a : Val) (fuel : Nat) : Prop :=
  ∀ rest cur, Shape t cur = true →
    ∃ v', decode p strict dp fuel t (encode p t a ++ rest) cur = .ok (v', rest) ∧ Shape t v' = true
def DecOK (p : Proto) (strict : Bool) (dp : Nat) (t : Ty) (a : Val) (F : Nat) : Prop :=
  ∀ fuel, F ≤ fuel → DecAt p strict dp t a fuel

theorem decodeList_ok (p : Proto) (strict : Bool) (dp : Nat) (et : Ty) (F : Nat) : ∀ (l : List Val),
    (∀ a ∈ l, DecOK p strict dp et a F) → ∀ fuel rest acc, F + l.length + 1 ≤ fuel →
      ∃ v', decodeList p strict dp fuel et l.length ((l.map (encode p et)).flatten ++ rest) acc = .ok (v', rest) := by
  intro l
  induction l with
  | nil =>
    intro _ fuel rest acc hf
    obtain ⟨f, rfl⟩ : ∃ f, fuel = f + 1 := ⟨fuel - 1, by omega⟩
    simp only [List.length_nil, List.map_nil, List.flatten_nil, List.nil_append, decodeList]
    exact ⟨_, rfl⟩
  | cons a l ih =>
    intro h fuel rest acc hf
    simp only [List.length_cons] at hf
    obtain ⟨f, rfl⟩ : ∃ f, fuel = f + 1 := ⟨fuel - 1, by omega⟩
    obtain ⟨v', hv', _⟩ := h a (List.mem_cons_self ..) f (by omega) ((l.map (encode p et)).flatten ++ rest) (zeroOf et)
      (shape_zeroOf et)
    obtain ⟨w, hw⟩ := ih (fun b hb => h b (List.mem_cons_of_mem _ hb)) f rest (v' :: acc) (by omega)
    refine ⟨w, ?_⟩
    simp only [List.length_cons, List.map_cons, List.flatten_cons, List.append_assoc, decodeList]
    rw [hv']
    simp only [dontExpectEOF_ok, Res.bind]
    exact hw

theorem decodeSet_ok (p : Proto) (strict : Bool) (dp : Nat) (kt : Ty) (F : Nat) : ∀ (l : List (Val × Val)),
    (∀ a ∈ l, DecOK p strict dp kt a.1 F) → ∀ fuel rest acc, F + l.length + 1 ≤ fuel →
      ∃ v', decodeSet p strict dp fuel kt l.length ((l.map fun kv => encode p kt kv.1).flatten ++ rest) acc
        = .ok (v', rest) := by
  intro l
  induction l with
  | nil =>
    intro _ fuel rest acc hf
    obtain ⟨f, rfl⟩ : ∃ f, fuel = f + 1 := ⟨fuel - 1, by omega⟩
    simp only [List.length_nil, List.map_nil, List.flatten_nil, List.nil_append, decodeSet]
    exact ⟨_, rfl⟩
  | cons a l ih =>
    intro h fuel rest acc hf
    simp only [List.length_cons] at hf
    obtain ⟨f, rfl⟩ : ∃ f, fuel = f + 1 := ⟨fuel - 1, by omega⟩
    obtain ⟨v', hv', _⟩ := h a (List.mem_cons_self ..) f (by omega) ((l.map fun kv => encode p kt kv.1).flatten ++ rest)
      (zeroOf kt) (shape_zeroOf kt)
    obtain ⟨w, hw⟩ := ih (fun b hb => h b (List.mem_cons_of_mem _ hb)) f rest (mapPut acc v' (.struct .nil)) (by omega)
    refine ⟨w, ?_⟩
    simp only [List.length_cons, List.map_cons, List.flatten_cons, List.append_assoc, decodeSet]
    rw [hv']
    simp only [dontExpectEOF_ok, Res.bind]
    exact hw

theorem decodeMap_ok (p : Proto) (strict : Bool) (dp : Nat) (kt vt : Ty) (F : Nat) : ∀ (l : List (Val × Val)),
    (∀ a ∈ l, DecOK p strict dp kt a.1 F ∧ DecOK p strict dp vt a.2 F) → ∀ fuel rest acc, F + l.length + 1 ≤ fuel →
      ∃ v', decodeMap p strict dp fuel kt vt l.length
        ((l.map fun kv => encode p kt kv.1 ++ encode p vt kv.2).flatten ++ rest) acc = .ok (v', rest) := by
  intro l
  induction l with
  | nil =>
    intro _ fuel rest acc hf
    obtain ⟨f, rfl⟩ : ∃ f, fuel = f + 1 := ⟨fuel - 1, by omega⟩
    simp only [List.length_nil, List.map_nil, List.flatten_nil, List.nil_append, decodeMap]
    exact ⟨_, rfl⟩
  | cons a l ih =>
    intro h fuel rest acc hf
    simp only [List.length_cons] at hf
    obtain ⟨f, rfl⟩ : ∃ f, fuel = f + 1 := ⟨fuel - 1, by omega⟩
    obtain ⟨hk, hv⟩ := h a (List.mem_cons_self ..)
    obtain ⟨k', hk', _⟩ := hk f (by omega) (encode p vt a.2 ++
      ((l.map fun kv => encode p kt kv.1 ++ encode p vt kv.2).flatten ++ rest)) (zeroOf kt) (shape_zeroOf kt)
    obtain ⟨v', hv', _⟩ := hv f (by omega) ((l.map fun kv => encode p kt kv.1 ++ encode p vt kv.2).flatten ++ rest)
      (zeroOf vt) (shape_zeroOf vt)
    obtain ⟨w, hw⟩ := ih (fun b hb => h b (List.mem_cons_of_mem _ hb)) f rest (mapPut acc k' v') (by omega)
    refine ⟨w, ?_⟩
    simp only [List.length_cons, List.map_cons, List.flatten_cons, List.append_assoc, decodeMap]
    rw [hk']
    simp only [dontExpectEOF_ok, Res.bind]
    rw [hv']
    simp only [dontExpectEOF_ok]
    exact hw

theorem emitted_sublist : (fs : Fields) → (vs : Vals) → (emittedIds fs vs).Sublist (declIds fs)
  | .nil, _ => by simp [emittedIds, declIds]
  | .cons _ _ _ _ _, .nil => by simp [emittedIds]
  | .cons n tag e t rest, .cons x vs => by
    have ih := emitted_sublist rest vs
    simp only [emittedIds, declIds, emitted]
    cases parseTag tag with
    | none => exact ih
    | some y =>
      obtain ⟨id, req, en⟩ := y
      simp only
      by_cases c1 : isNilPtr t x = true
      · simp only [c1, if_true]; exact List.Sublist.cons _ ih
      · by_cases c2 : (!req && isZeroAt t x) = true
        · simp only [c1, c2, if_true, Bool.false_eq_true, if_false]; exact List.Sublist.cons _ ih
        · simp only [c1, c2, Bool.false_eq_true, if_false]; exact List.Sublist.cons_cons _ ih

theorem req_emitted : (fs : Fields) → (vs : Vals) → (pos : Nat) → DTF fs vs = true →
    ∀ d ∈ fieldDescs.go fs pos, d.required = true → d.id ∈ emittedIds fs vs
  | .nil, _, _, _ => by intro d hd; simp [fieldDescs.go] at hd
  | .cons _ _ _ _ _, .nil, _, h => by simp [DTF] at h
  | .cons n tag e t rest, .cons x vs, pos, h => by
    intro d hd hreq
    rw [DTF_cons, Bool.and_eq_true] at h
    have ih := req_emitted rest vs (pos + 1) h.1 d
    have h2 := h.2
    rw [go_cons] at hd
    simp only [emittedIds, emitted]
    cases hp : parseTag tag with
    | none =>
      rw [hp] at hd
      exact ih hd hreq
    | some y =>
      obtain ⟨id, req, en⟩ := y
      rw [hp] at hd h2
      simp only [Bool.and_eq_true, decide_eq_true_eq] at h2
      simp only
      rcases List.mem_cons.mp hd with rfl | hd
      · simp only at hreq
        subst hreq
        have hnil : isNilPtr t x = false := by
          cases hn : isNilPtr t x
          · rfl
          · simp [hn] at h2
        simp [hnil]
      · have := ih hd hreq
        by_cases c1 : isNilPtr t x = true
        · simp only [c1, if_true]; exact this
        · by_cases c2 : (!req && isZeroAt t x) = true
          · simp only [c1, c2, if_true, Bool.false_eq_true, if_false]; exact this
          · simp only [c1, c2, Bool.false_eq_true, if_false]; exact List.mem_cons_of_mem _ this

theorem shape_leaf (ty : Ty) (v : Val) (h : ∀ fs, ty ≠ .struct fs) (h2 : ∀ n t, ty ≠ .named n t) (h3 : ∀ t, ty ≠ .ptr t) :
    Shape ty v = true := by
  cases ty <;> simp [Shape] <;> simp_all

theorem typeOf_bool_fix (t : Ty) : (if (typeOf t == TType.true_) = true then TType.bool else typeOf t) = typeOf t := by
  have : (typeOf t == TType.true_) = false := by simpa using typeOf_ne_true t
  simp [this]

mutual
/-- **the decoder accepts what the encoder writes** (success and exact consumption; the value is not compared): every
type of the universe `DT`, both protocols, strict or not, any well-shaped current value, every decoder depth `dp` that
leaves room for the type's own nesting (`dp + nest ty ≤ maxDepth`) -/
theorem decode_ok (p : Proto) (strict : Bool) : (ty : Ty) → (v : Val) → DT ty v = true →
    ∀ dp, dp + nest ty ≤ Gen.c_thrift_maxDepth → ∃ F, DecOK p strict dp ty v F
  | .bool, v, h => by
    intro dp hdp
    refine ⟨1, fun fuel hf rest cur _ => ⟨v, ?_, by simp [Shape]⟩⟩
    exact decode_encode p strict .bool v (by cases v <;> simp_all [DT, RT]) dp fuel rest cur hdp (by simpa [fuelD] using hf)
  | .int k, v, h => by
    intro dp hdp
    refine ⟨1, fun fuel hf rest cur _ => ⟨v, ?_, by simp [Shape]⟩⟩
    exact decode_encode p strict (.int k) v (by cases v <;> simp_all [DT, RT]) dp fuel rest cur hdp
      (by simpa [fuelD] using hf)
  | .f32, v, h => by
    intro dp hdp
    refine ⟨1, fun fuel hf rest cur _ => ⟨v, ?_, by simp [Shape]⟩⟩
    exact decode_encode p strict .f32 v (by cases v <;> simp_all [DT, RT]) dp fuel rest cur hdp (by simpa [fuelD] using hf)
  | .f64, v, h => by
    intro dp hdp
    refine ⟨1, fun fuel hf rest cur _ => ⟨v, ?_, by simp [Shape]⟩⟩
    exact decode_encode p strict .f64 v (by cases v <;> simp_all [DT, RT]) dp fuel rest cur hdp (by simpa [fuelD] using hf)
  | .str, v, h => by
    intro dp hdp
    refine ⟨1, fun fuel hf rest cur _ => ⟨v, ?_, by simp [Shape]⟩⟩
    exact decode_encode p strict .str v (by cases v <;> simp_all [DT, RT]) dp fuel rest cur hdp (by simpa [fuelD] using hf)
  | .bytes, v, h => by
    intro dp hdp
    refine ⟨1, fun fuel hf rest cur _ => ⟨v, ?_, by simp [Shape]⟩⟩
    exact decode_encode p strict .bytes v (by cases v <;> simp_all [DT, RT]) dp fuel rest cur hdp
      (by simpa [fuelD] using hf)
  | .slice t, v, h => by
    intro dp hdp
    rw [DT_slice] at h
    by_cases hu : isU8 t = true
    · simp only [hu, if_true] at h
      refine ⟨1, fun fuel hf rest cur _ => ⟨v, ?_, by simp [Shape]⟩⟩
      exact decode_encode p strict (.slice t) v (by rw [RT_slice]; simp only [hu, if_true]; exact h) dp fuel rest cur hdp
        (by rw [fuelD_slice]; simpa [hu] using hf)
    · simp only [hu, Bool.false_eq_true, if_false, Bool.and_eq_true] at h
      rw [nest_slice] at hdp
      simp only [hu, Bool.false_eq_true, if_false] at hdp
      have htd : tooDeep dp = false := tooDeep_false dp (by omega)
      obtain ⟨hreal, h⟩ := h
      cases v <;> simp only [Bool.false_eq_true] at h
      rename_i vs
      simp only [Bool.and_eq_true, decide_eq_true_eq] at h
      obtain ⟨hlen, hall⟩ := h
      obtain ⟨F, hF⟩ := exists_bound (DecAt p strict (dp + 1) t) vs.toList
        (fun a ha => decode_ok p strict t a (all_toList _ _ hall a ha) (dp + 1) (by omega))
      refine ⟨F + vs.toList.length + 2, fun fuel hf rest cur _ => ?_⟩
      obtain ⟨f, rfl⟩ : ∃ f, fuel = f + 1 := ⟨fuel - 1, by omega⟩
      obtain ⟨w, hw⟩ := decodeList_ok p strict (dp + 1) t F vs.toList hF f rest [] (by omega)
      refine ⟨w, ?_, by simp [Shape]⟩
      rw [decode_slice, encode_slice]
      simp only [hu, Bool.false_eq_true, if_false, List.append_assoc]
      rw [rList_wList p _ _ hreal hlen]
      simp only [Res.bind, typeOf_bool_fix, bne_self_eq_false, Bool.false_eq_true, if_false, htd]
      rw [length_toList vs]
      exact hw
  | .map k v, x, h => by
    intro dp hdp
    rw [DT_map] at h
    simp only [Bool.and_eq_true, decide_eq_true_eq] at h
    obtain ⟨⟨⟨hk, hv⟩, hlen⟩, hall⟩ := h
    have hall' := all_toList _ _ hall
    simp only [nest] at hdp
    have htd : tooDeep dp = false := tooDeep_false dp (by omega)
    by_cases he : isEmptyStruct v = true
    · simp only [he, if_true] at hdp
      obtain ⟨F, hF⟩ := exists_bound (fun (kv : Val × Val) => DecAt p strict (dp + 1) k kv.1) (pairsOfVal x)
        (fun a ha => by
          have := hall' a ha
          simp only [Bool.and_eq_true] at this
          exact decode_ok p strict k a.1 this.1 (dp + 1) (by omega))
      refine ⟨F + (pairsOfVal x).length + 2, fun fuel hf rest cur _ => ?_⟩
      obtain ⟨f, rfl⟩ : ∃ f, fuel = f + 1 := ⟨fuel - 1, by omega⟩
      rw [encode_map]
      simp only [he, if_true, decode, List.append_assoc]
      rw [rList_wList p _ _ hk hlen]
      simp only [Res.bind, typeOf_bool_fix, bne_self_eq_false, Bool.false_eq_true, if_false, htd]
      generalize pairsOfVal x = ps at *
      cases ps with
      | nil =>
        refine ⟨.map .nil, ?_, by simp [Shape]⟩
        simp
      | cons a l =>
        obtain ⟨w, hw⟩ := decodeSet_ok p strict (dp + 1) k F (a :: l) hF f rest .nil (by omega)
        refine ⟨w, ?_, by simp [Shape]⟩
        have : ((a :: l).length == 0) = false := by simp
        simp only [this, Bool.false_eq_true, if_false]
        exact hw
    · simp only [he, Bool.false_eq_true, if_false] at hdp
      obtain ⟨F, hF⟩ := exists_bound
        (fun (kv : Val × Val) fuel => DecAt p strict (dp + 1) k kv.1 fuel ∧ DecAt p strict (dp + 1) v kv.2 fuel)
        (pairsOfVal x)
        (fun a ha => by
          have := hall' a ha
          simp only [Bool.and_eq_true, he, Bool.false_or] at this
          obtain ⟨F1, h1⟩ := decode_ok p strict k a.1 this.1 (dp + 1) (by omega)
          obtain ⟨F2, h2⟩ := decode_ok p strict v a.2 this.2 (dp + 1) (by omega)
          exact ⟨max F1 F2, fun fuel hf => ⟨h1 fuel (by omega), h2 fuel (by omega)⟩⟩)
      refine ⟨F + (pairsOfVal x).length + 2, fun fuel hf rest cur _ => ?_⟩
      obtain ⟨f, rfl⟩ : ∃ f, fuel = f + 1 := ⟨fuel - 1, by omega⟩
      rw [encode_map]
      simp only [he, Bool.false_eq_true, if_false, decode, List.append_assoc]
      rw [rMap_wMap p _ _ _ hk hv hlen]
      simp only [Res.bind]
      generalize pairsOfVal x = ps at *
      cases ps with
      | nil =>
        refine ⟨.map .nil, ?_, by simp [Shape]⟩
        by_cases hp : p = .compact <;> simp [hp]
      | cons a l =>
        obtain ⟨w, hw⟩ := decodeMap_ok p strict (dp + 1) k v F (a :: l)
          (fun b hb => ⟨fun fuel hf => (hF b hb fuel hf).1, fun fuel hf => (hF b hb fuel hf).2⟩) f rest .nil (by omega)
        refine ⟨w, ?_, by simp [Shape]⟩
        have hne : ¬ (p = .compact ∧ (a :: l).length = 0) := by simp
        have : ((a :: l).length == 0) = false := by simp
        have hntk : (typeOf k == TType.true_) = false := by simpa using typeOf_ne_true k
        have hntv : (typeOf v == TType.true_) = false := by simpa using typeOf_ne_true v
        simp only [hne, if_false, this, Bool.false_eq_true, hntk, hntv, bne_self_eq_false, htd]
        exact hw
  | .struct fs, v, h => by
    intro dp hdp
    simp only [nest] at hdp
    have htd : tooDeep dp = false := tooDeep_false dp (by omega)
    cases v <;> simp only [DT, Bool.false_eq_true] at h
    rename_i vs
    simp only [Bool.and_eq_true, decide_eq_true_eq] at h
    obtain ⟨hf, hnd⟩ := h
    have hdn : ((fieldDescs fs).map (·.id)).Nodup := by unfold fieldDescs; rw [go_ids]; exact hnd
    obtain ⟨B, hB⟩ := fields_ok p strict fs fs vs 0 hf
      (fun d hd => ⟨hd, findById_self _ hdn d hd⟩) (dp + 1) (by omega)
    have hsorted : ∀ g ∈ sortRecs (fieldRecs p fs vs), RecOK p strict (dp + 1) fs B g :=
      fun g hg => hB g ((mem_sortRecs g _).mp hg)
    have hrecnd : ((fieldRecs p fs vs).map (·.id)).Nodup := by
      rw [emittedIds_eq]; exact (emitted_sublist fs vs).nodup hnd
    refine ⟨B + (fieldRecs p fs vs).length + 2, fun fuel hfu rest cur hcur => ?_⟩
    obtain ⟨fu, rfl⟩ : ∃ f, fuel = f + 1 := ⟨fuel - 1, by omega⟩
    cases cur <;> simp only [Shape, Bool.false_eq_true] at hcur
    rename_i cvs
    have hwalk : ∃ cvs' seen', decodeStruct p strict (dp + 1) fu (fieldDescs fs)
        (emitFields p (sortRecs (fieldRecs p fs vs)) 0 ++ (wStopField p ++ rest)) cvs 0 0 []
          = .ok ((cvs', seen'), rest) ∧
        ShapeF fs cvs' = true ∧ (∀ g ∈ sortRecs (fieldRecs p fs vs), g.id ∈ seen') ∧ (∀ i ∈ ([] : List Int), i ∈ seen') := by
      have hlen : B + (sortRecs (fieldRecs p fs vs)).length + 1 ≤ fu := by rw [length_sortRecs]; omega
      cases p with
      | binary s => exact decodeStruct_emit_binary s strict (dp + 1) fs B _ 0 0 fu rest cvs [] hsorted hcur hlen
      | compact =>
        apply decodeStruct_emit_compact strict (dp + 1) fs B _ 0 0 fu rest cvs [] (by omega) _ _ hsorted hcur hlen
        · intro g hg; have := (hsorted g hg).1; omega
        · exact pairwise_sortRecs _ hrecnd
    obtain ⟨cvs', seen', hds, hs', hmem, _⟩ := hwalk
    refine ⟨.struct cvs', ?_, by simpa [Shape] using hs'⟩
    rw [encode_struct]
    simp only [decode, List.append_assoc, htd, Bool.false_eq_true, if_false]
    rw [hds]
    simp only [Res.bind]
    have hreq : (fieldDescs fs).any (fun d => d.required && !seen'.contains d.id) = false := by
      rw [List.any_eq_false]
      intro d hd
      by_cases hr : d.required = true
      · have hin : d.id ∈ emittedIds fs vs := req_emitted fs vs 0 hf d hd hr
        rw [← emittedIds_eq p] at hin
        obtain ⟨g, hg, hgid⟩ := List.mem_map.mp hin
        have := hmem g ((mem_sortRecs g _).mpr hg)
        rw [hgid] at this
        simp [this]
      · simp [hr]
    simp only [hreq, Bool.false_eq_true, if_false]
  | .ptr t, v, h => by
    intro dp hdp
    simp only [nest] at hdp
    cases v <;> simp only [DT, Bool.false_eq_true] at h
    rename_i x
    obtain ⟨F, hF⟩ := decode_ok p strict t x h dp hdp
    refine ⟨F + 1, fun fuel hf rest cur hcur => ?_⟩
    obtain ⟨f, rfl⟩ : ∃ f, fuel = f + 1 := ⟨fuel - 1, by omega⟩
    simp only [encode]
    cases cur with
    | ptr c =>
      simp only [Shape] at hcur
      obtain ⟨v', hv', hs'⟩ := hF f (by omega) rest c hcur
      exact ⟨.ptr v', by simp only [decode, hv', Res.bind], by simpa [Shape] using hs'⟩
    | _ =>
      obtain ⟨v', hv', hs'⟩ := hF f (by omega) rest (zeroOf t) (shape_zeroOf t)
      exact ⟨.ptr v', by simp only [decode, hv', Res.bind], by simpa [Shape] using hs'⟩
  | .named _ t, v, h => by
    intro dp hdp
    simp only [nest] at hdp
    simp only [DT] at h
    obtain ⟨F, hF⟩ := decode_ok p strict t v h dp hdp
    refine ⟨F + 1, fun fuel hf rest cur hcur => ?_⟩
    obtain ⟨f, rfl⟩ : ∃ f, fuel = f + 1 := ⟨fuel - 1, by omega⟩
    simp only [Shape] at hcur
    obtain ⟨v', hv', hs'⟩ := hF f (by omega) rest cur hcur
    exact ⟨v', by simp only [decode, encode]; exact hv', by simpa [Shape] using hs'⟩
  | .arr _ _, v, h | .any, v, h => by simp [DT] at h
theorem fields_ok (p : Proto) (strict : Bool) (allfs : Fields) : (fs : Fields) → (vs : Vals) → (pos : Nat) →
    DTF fs vs = true →
    (∀ d ∈ fieldDescs.go fs pos, d ∈ fieldDescs allfs ∧ findById (fieldDescs allfs) d.id = some d) →
    ∀ dp, dp + nestFields fs ≤ Gen.c_thrift_maxDepth →
    ∃ B, ∀ f ∈ fieldRecs p fs vs, RecOK p strict dp allfs B f
  | .nil, vs, _, _, _ => fun _ _ => ⟨0, by simp [fieldRecs]⟩
  | .cons _ _ _ _ _, .nil, _, h, _ => by simp [DTF] at h
  | .cons n tag e t rest, .cons x vs, pos, h, hsub => by
    intro dp hdp
    simp only [nestFields] at hdp
    rw [DTF_cons, Bool.and_eq_true] at h
    have h2 := h.2
    rw [fieldRecs_cons]
    simp only [emitted]
    cases hp : parseTag tag with
    | none =>
      have hsub' : ∀ d ∈ fieldDescs.go rest (pos + 1), d ∈ fieldDescs allfs ∧ findById (fieldDescs allfs) d.id = some d := by
        intro d hd; apply hsub; rw [go_cons, hp]; exact hd
      exact fields_ok p strict allfs rest vs (pos + 1) h.1 hsub' dp (by omega)
    | some y =>
      obtain ⟨id, req, en⟩ := y
      have hsub' : ∀ d ∈ fieldDescs.go rest (pos + 1), d ∈ fieldDescs allfs ∧ findById (fieldDescs allfs) d.id = some d := by
        intro d hd; apply hsub; rw [go_cons, hp]; exact List.mem_cons_of_mem _ hd
      obtain ⟨B, hB⟩ := fields_ok p strict allfs rest vs (pos + 1) h.1 hsub' dp (by omega)
      have hd0 := hsub { pos := pos, id := id, required := req, enum := en, ty := t } (by rw [go_cons, hp]; exact List.mem_cons_self ..)
      rw [hp] at h2
      simp only [Bool.and_eq_true, decide_eq_true_eq, Bool.not_eq_true'] at h2
      obtain ⟨⟨⟨⟨hid1, hid2⟩, hreal⟩, hen⟩, hval⟩ := h2
      simp only
      by_cases c1 : isNilPtr t x = true
      · simp only [c1, if_true]; exact ⟨B, hB⟩
      · by_cases c2 : (!req && isZeroAt t x) = true
        · simp only [c1, c2, if_true, Bool.false_eq_true, if_false]; exact ⟨B, hB⟩
        · simp only [c1, c2, Bool.false_eq_true, if_false]
          simp only [c1, Bool.false_eq_true, if_false] at hval
          obtain ⟨F, hF⟩ := decode_ok p strict t x hval dp (by omega)
          refine ⟨max F B, fun f hf => ?_⟩
          rcases List.mem_cons.mp hf with rfl | hf
          · refine ⟨hid1, hid2, hreal, typeOf_ne_true t, _, hd0.1, hd0.2, rfl, hen, fun fuel hfu rest cur hcur => ?_⟩
            simp only [fieldBody, hen, Bool.false_eq_true, if_false]
            exact hF fuel (by omega) rest cur hcur
          · exact (hB f hf).mono (by omega)
end
end Enc.Lemmas.ThriftTotal
