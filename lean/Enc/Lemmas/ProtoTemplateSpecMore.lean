import Enc.Lemmas.ProtoTemplateNested
import Enc.Lemmas.ProtoTemplateSpecFields
/-!
# More tools for the bridge (`ProtoTemplateBridge.lean`): the SHAPE of decoded messages at pointer / message positions
(`PShape`, an invariant of the reference decoder), presence (`isDefault` / `allDefault`) positionwise, the specification's
`tmplField` on `*struct` fields, and the comparison form of a pointer to a message.
-/
namespace Enc.Lemmas.ProtoTemplate
open Enc Enc.Spec.Protobuf Enc.Lemmas.ProtoRewriteSpec Enc.Lemmas.ProtoSpecFuel
open Enc.Model.Proto (floatIsZero)
open Enc.Model.Json (GV GVs GMs)
open Enc.Spec.ProtoTemplate (isDefault allDefault norm normPresence normPresenceVals)

/-! ### shape of decoded values -/

/-- at a `*struct` position the value is `nil` or a pointer to a message (of that shape); at a `struct` position a message
value has that shape (to depth `d`) -/
def PShape : Nat → Fields → Vals → Prop
  | 0, _, _ => True
  | d + 1, fs, vs =>
    (∀ i tag gs, fieldAt fs i = some (tag, .ptr (.struct gs)) →
        valsGet vs i = .nil ∨ ∃ s, valsGet vs i = .ptr (.struct s) ∧ PShape d gs s) ∧
    (∀ i tag gs s, fieldAt fs i = some (tag, .struct gs) → valsGet vs i = .struct s → PShape d gs s) ∧
    (∀ i tag t gs s, fieldAt fs i = some (tag, t) → isRepeated t = some (.struct gs) →
        Val.struct s ∈ listOf (valsGet vs i) → PShape d gs s) ∧
    (∀ i tag t gs s, fieldAt fs i = some (tag, t) → isRepeated t = some (.ptr (.struct gs)) →
        Val.ptr (.struct s) ∈ listOf (valsGet vs i) → PShape d gs s)

theorem zeroOf_repeated : ∀ (t et : Ty), isRepeated t = some et → zeroOf t = .nil
  | .slice e, _, _ => by simp [zeroOf]
  | .named n t', et, h => by
    by_cases hn : n = "RawMessage"
    · subst hn; simp [isRepeated, unname] at h
    · have h' : isRepeated t' = some et := by simpa only [isRepeated, unname, hn] using h
      have := zeroOf_repeated t' et h'
      simp [zeroOf, this]
  | .bool, _, h | .int _, _, h | .f32, _, h | .f64, _, h | .str, _, h | .bytes, _, h | .any, _, h
  | .arr _ _, _, h | .ptr _, _, h | .map _ _, _, h | .struct _, _, h => by simp [isRepeated, unname] at h

theorem pshape_zero : ∀ d fs, PShape d fs (zeroFields fs)
  | 0, _ => by simp [PShape]
  | d + 1, fs => by
    simp only [PShape]
    refine ⟨?_, ?_, ?_, ?_⟩
    · intro i tag gs h
      left; rw [valsGet_zeroFields fs i tag _ h]; simp [zeroOf]
    · intro i tag gs s h hs
      rw [valsGet_zeroFields fs i tag _ h] at hs
      simp only [zeroOf, Val.struct.injEq] at hs
      subst hs; exact pshape_zero d gs
    · intro i tag t gs s h hr hs
      rw [valsGet_zeroFields fs i tag _ h, zeroOf_repeated t _ hr] at hs
      simp [listOf] at hs
    · intro i tag t gs s h hr hs
      rw [valsGet_zeroFields fs i tag _ h, zeroOf_repeated t _ hr] at hs
      simp [listOf] at hs

theorem valsGet_ge : ∀ (vs : Vals) (i : Nat), vs.length ≤ i → valsGet vs i = .nil
  | .nil, _, _ => rfl
  | .cons _ _, 0, h => by simp [Vals.length] at h
  | .cons _ r, i + 1, h => by
    simp only [valsGet]
    exact valsGet_ge r i (by simp only [Vals.length] at h; omega)

theorem valsGet_set_self (vs : Vals) (i : Nat) (x : Val) :
    valsGet (valsSet vs i x) i = x ∨ valsGet (valsSet vs i x) i = .nil := by
  by_cases h : i < vs.length
  · exact .inl (valsGet_set_eq vs i x h)
  · exact .inr (valsGet_ge _ i (by rw [valsSet_length]; omega))

theorem bind_map_some {α β γ : Type} (p : Option α) (g : α → Option β) (f : β → γ) (x : γ)
    (h : (p.bind fun a => (g a).map f) = some x) : ∃ a r, p = some a ∧ g a = some r ∧ f r = x := by
  cases p with
  | none => simp at h
  | some a =>
    simp only [Option.bind_some, Option.map_eq_some_iff] at h
    obtain ⟨r, hr, e⟩ := h
    exact ⟨a, r, rfl, hr, e⟩

theorem pshape_step (d : Nat)
    (ih : ∀ gs recs vs vs', PShape d gs vs → foldD gs recs vs = some vs' → PShape d gs vs')
    (fs : Fields) (r : Nat × WireVal) (vs vs' : Vals) (h : PShape (d + 1) fs vs) (hs : stepD fs r vs = some vs') :
    PShape (d + 1) fs vs' := by
  obtain ⟨n, w⟩ := r
  rw [stepD_eq] at hs
  cases hf : findField fs n with
  | none => rw [hf] at hs; simp only [Option.some.injEq] at hs; subst hs; exact h
  | some iot =>
    obtain ⟨i, o, t⟩ := iot
    rw [hf] at hs
    simp only [Option.map_eq_some_iff] at hs
    obtain ⟨x, hx, rfl⟩ := hs
    obtain ⟨_, _, tg, hfa, _⟩ := findField_spec fs n i o t hf
    simp only [PShape] at h ⊢
    refine ⟨?_, ?_, ?_, ?_⟩
    · intro j tag gs hj
      by_cases e : i = j
      · subst e
        rw [hfa] at hj
        simp only [Option.some.injEq, Prod.mk.injEq] at hj
        obtain ⟨rfl, rfl⟩ := hj
        rcases valsGet_set_self vs i x with hv | hv
        · rw [hv]
          cases w with
          | len v =>
            rw [fieldD_struct _ gs o v _ rfl (by simp [isRepeated, unname]) (by simp [unname])] at hx
            rcases h.1 i tg gs hfa with hc | ⟨s, hc, hsh⟩
            · rw [hc] at hx
              simp only [unwrapPtr, deref, zeroOf] at hx
              obtain ⟨recs, r, _, hr, e⟩ := bind_map_some _ _ _ _ hx
              simp only [wrapPtr] at e
              exact .inr ⟨r, e.symm, ih gs recs _ r (pshape_zero d gs) hr⟩
            · rw [hc] at hx
              simp only [unwrapPtr] at hx
              obtain ⟨recs, r, _, hr, e⟩ := bind_map_some _ _ _ _ hx
              simp only [wrapPtr] at e
              exact .inr ⟨r, e.symm, ih gs recs _ r hsh hr⟩
          | varint _ | i64 _ | i32 _ =>
            rw [fieldD_struct_nonlen _ gs o _ _ rfl (by simp [isRepeated, unname]) (by simp [unname])
              (by intro v hv; cases hv)] at hx
            cases hx
        · exact .inl hv
      · rw [valsGet_set_ne vs i j x e]; exact h.1 j tag gs hj
    · intro j tag gs s hj hs'
      by_cases e : i = j
      · subst e
        rw [hfa] at hj
        simp only [Option.some.injEq, Prod.mk.injEq] at hj
        obtain ⟨rfl, rfl⟩ := hj
        rcases valsGet_set_self vs i x with hv | hv
        · rw [hv] at hs'
          subst hs'
          cases w with
          | len v =>
            rw [fieldD_struct _ gs o v _ rfl (by simp [isRepeated, unname]) (by simp [unname]), unwrapPtr_struct] at hx
            cases hc : valsGet vs i with
            | struct cvs =>
              rw [hc] at hx
              simp only at hx
              obtain ⟨recs, r, _, hr, e⟩ := bind_map_some _ _ _ _ hx
              simp only [wrapPtr, Val.struct.injEq] at e
              subst e
              exact ih gs recs cvs r (h.2.1 i tg gs cvs hfa hc) hr
            | _ => rw [hc] at hx; cases hx
          | varint _ | i64 _ | i32 _ =>
            rw [fieldD_struct_nonlen _ gs o _ _ rfl (by simp [isRepeated, unname]) (by simp [unname])
              (by intro v hv; cases hv)] at hx
            cases hx
        · rw [hv] at hs'; cases hs'
      · rw [valsGet_set_ne vs i j x e] at hs'; exact h.2.1 j tag gs s hj hs'
    · intro j tag t' gs s hj hr hs'
      by_cases e : i = j
      · subst e
        rw [hfa] at hj
        simp only [Option.some.injEq, Prod.mk.injEq] at hj
        obtain ⟨rfl, rfl⟩ := hj
        rcases valsGet_set_self vs i x with hv | hv
        · rw [hv] at hs'
          unfold fieldD at hx
          rw [hr] at hx
          simp only [deref, zeroOf, Option.map_eq_some_iff] at hx
          obtain ⟨el, he, rfl⟩ := hx
          simp only [listOf, toList_ofList', wrapPtr, List.mem_append, List.mem_singleton] at hs'
          rcases hs' with hs' | hs'
          · exact h.2.2.1 i tg t gs s hfa hr hs'
          · subst hs'
            cases w with
            | len v =>
              rw [show 2 * wvLen (.len v) + 4 = (2 * wvLen (.len v) + 3) + 1 from rfl, decodeOne_struct] at he
              simp only at he
              rw [decodeMsg_eq_foldD gs v _ _ (by simp only [wvLen]; omega)] at he
              simp only [Option.map_eq_some_iff, Option.bind_eq_some_iff, Val.struct.injEq] at he
              obtain ⟨r, ⟨recs, _, hr'⟩, rfl⟩ := he
              exact ih gs recs _ _ (pshape_zero d gs) hr'
            | varint _ | i64 _ | i32 _ => simp [decodeOne] at he
        · rw [hv] at hs'; simp [listOf] at hs'
      · rw [valsGet_set_ne vs i j x e] at hs'; exact h.2.2.1 j tag t' gs s hj hr hs'
    · intro j tag t' gs s hj hr hs'
      by_cases e : i = j
      · subst e
        rw [hfa] at hj
        simp only [Option.some.injEq, Prod.mk.injEq] at hj
        obtain ⟨rfl, rfl⟩ := hj
        rcases valsGet_set_self vs i x with hv | hv
        · rw [hv] at hs'
          unfold fieldD at hx
          rw [hr] at hx
          simp only [deref, zeroOf, Option.map_eq_some_iff] at hx
          obtain ⟨el, he, rfl⟩ := hx
          simp only [listOf, toList_ofList', wrapPtr, List.mem_append, List.mem_singleton, Val.ptr.injEq] at hs'
          rcases hs' with hs' | hs'
          · exact h.2.2.2 i tg t gs s hfa hr hs'
          · subst hs'
            cases w with
            | len v =>
              rw [show 2 * wvLen (.len v) + 4 = (2 * wvLen (.len v) + 3) + 1 from rfl, decodeOne_struct] at he
              simp only at he
              rw [decodeMsg_eq_foldD gs v _ _ (by simp only [wvLen]; omega)] at he
              simp only [Option.map_eq_some_iff, Option.bind_eq_some_iff, Val.struct.injEq] at he
              obtain ⟨r, ⟨recs, _, hr'⟩, rfl⟩ := he
              exact ih gs recs _ _ (pshape_zero d gs) hr'
            | varint _ | i64 _ | i32 _ => simp [decodeOne] at he
        · rw [hv] at hs'; simp [listOf] at hs'
      · rw [valsGet_set_ne vs i j x e] at hs'; exact h.2.2.2 j tag t' gs s hj hr hs'

/-- **the shape is an invariant of the reference decoder** -/
theorem pshape_foldD : ∀ (d : Nat) (fs : Fields) (recs : List (Nat × WireVal)) (vs vs' : Vals),
    PShape d fs vs → foldD fs recs vs = some vs' → PShape d fs vs' := by
  intro d
  induction d with
  | zero => intros; simp [PShape]
  | succ d ih =>
    intro fs recs
    induction recs with
    | nil => intro vs vs' h hf; simp only [foldD, Option.some.injEq] at hf; subst hf; exact h
    | cons r rest ihr =>
      intro vs vs' h hf
      simp only [foldD, Option.bind_eq_some_iff] at hf
      obtain ⟨m, hm, hr⟩ := hf
      exact ihr m vs' (pshape_step d ih fs r vs m h hm) hr

theorem pshape_decode (d : Nat) (fs : Fields) (b : Bytes) (res : Vals) (h : decode (.struct fs) b = some (.struct res)) :
    PShape d fs res := by
  rw [decode_struct_eq] at h
  obtain ⟨recs, r, _, hr, e⟩ := bind_map_some _ _ _ _ h
  simp only [Val.struct.injEq] at e
  subst e
  exact pshape_foldD d fs recs _ r (pshape_zero d fs) hr

/-! ### presence, positionwise -/

theorem allDefault_congr : ∀ (fs : Fields) (vs ws : Vals), vs.length = fs.length → ws.length = fs.length →
    (∀ i tag t, fieldAt fs i = some (tag, t) → isDefault (valsGet vs i) = isDefault (valsGet ws i)) →
    allDefault vs = allDefault ws
  | .nil, .nil, .nil, _, _, _ => rfl
  | .nil, .cons _ _, _, hl, _, _ => by simp [Vals.length, Fields.length] at hl
  | .nil, .nil, .cons _ _, _, hl', _ => by simp [Vals.length, Fields.length] at hl'
  | .cons n tg e t fr, .nil, _, hl, _, _ => by simp [Vals.length, Fields.length] at hl
  | .cons n tg e t fr, .cons _ _, .nil, _, hl', _ => by simp [Vals.length, Fields.length] at hl'
  | .cons n tg e t fr, .cons v vr, .cons w wr, hl, hl', h => by
    simp only [allDefault]
    have h0 := h 0 tg t rfl
    simp only [valsGet] at h0
    rw [h0, allDefault_congr fr vr wr (by simpa [Vals.length, Fields.length] using hl)
      (by simpa [Vals.length, Fields.length] using hl')
      (fun i tag t' hf => by
        have := h (i + 1) tag t' (by simpa only [fieldAt] using hf)
        simpa only [valsGet] using this)]

theorem allDefault_of_pos : ∀ (fs : Fields) (vs : Vals), vs.length = fs.length →
    (∀ i tag t, fieldAt fs i = some (tag, t) → isDefault (valsGet vs i) = true) → allDefault vs = true
  | .nil, .nil, _, _ => rfl
  | .nil, .cons _ _, hl, _ => by simp [Vals.length, Fields.length] at hl
  | .cons n tg e t fr, .nil, hl, _ => by simp [Vals.length, Fields.length] at hl
  | .cons n tg e t fr, .cons v vr, hl, h => by
    simp only [allDefault]
    have h0 := h 0 tg t rfl
    simp only [valsGet] at h0
    rw [h0, allDefault_of_pos fr vr (by simpa [Vals.length, Fields.length] using hl)
      (fun i tag t' hf => by
        have := h (i + 1) tag t' (by simpa only [fieldAt] using hf)
        simpa only [valsGet] using this)]
    rfl

theorem isDefault_zero_scalar (t : Ty) (ht : scalarTy t = true) : isDefault (zeroOf t) = true := by
  cases t <;> simp only [scalarTy] at ht <;> try (exact absurd ht (by decide))
  all_goals simp [zeroOf, isDefault]

/-- leaf values related by `LeafEq` are both default or both not, away from negative zero -/
theorem leafEq_default (t : Ty) (x y : Val) (ht : scalarTy t = true) (h : LeafEq t x y)
    (hnz : ∀ b, y = .float b →
      (t = .f32 → floatIsZero b 32 = false ∨ b = 0) ∧ (t = .f64 → floatIsZero b 64 = false ∨ b = 0)) :
    isDefault x = isDefault y := by
  cases t <;> simp only [scalarTy] at ht <;> try (exact absurd ht (by decide))
  · simp only [LeafEq] at h; subst h; rfl
  · simp only [LeafEq] at h; subst h; rfl
  · obtain ⟨b, hy, hx⟩ := h
    subst hy hx
    rw [floatRead_of_nz b 32 ((hnz b rfl).1 rfl)]
  · obtain ⟨b, hy, hx⟩ := h
    subst hy hx
    rw [floatRead_of_nz b 64 ((hnz b rfl).2 rfl)]
  · simp only [LeafEq] at h; subst h; rfl
  · obtain ⟨s, hy, hx⟩ := h
    subst hy hx
    cases s <;> simp [isDefault]

/-! ### pointers to messages -/

theorem norm_ptr_struct (gs : Fields) (x : Vals) :
    norm (.ptr (.struct gs)) (.ptr (.struct x)) = if allDefault x then .nil else .ptr (norm (.struct gs) (.struct x)) := by
  by_cases h : allDefault x = true
  · simp [norm, canonical, normPresence, isDefault, canonTy, canon, h]
  · simp [norm, canonical, normPresence, isDefault, canonTy, canon, h]

theorem norm_ptr_nil (gs : Fields) : norm (.ptr (.struct gs)) .nil = .nil := by
  simp [norm, canonical, normPresence, canonTy, canon]

open Enc.Spec.ProtoTemplate in
theorem tmplVal_ptrstruct (pf : PF) (F : Nat) (gs : Fields) (j : GV) (cur : Val) :
    tmplVal pf (F + 1) (.ptr (.struct gs)) j none cur =
      (match gvObj j with
       | some ms' =>
         if !allKnown gs ms' then none
         else (tmplFields pf F gs ms' []
           (match unwrapPtr (.ptr (.struct gs)) cur with | .struct vs => vs | _ => zeroFields gs)).map
             fun w => Val.ptr (.struct w)
       | none => none) := by
  rfl

open Enc.Spec.ProtoTemplate in
/-- singular message field behind a pointer, inversion -/
theorem tmplField_ptrstruct_inv (pf : PF) (F : Nat) (gs : Fields) (j : GV) (cur y : Val)
    (h : tmplField pf F (.ptr (.struct gs)) j none cur = some y) :
    ∃ ms' w F', gvObj j = some ms' ∧ allKnown gs ms' = true ∧
      tmplFields pf F' gs ms' [] (match unwrapPtr (.ptr (.struct gs)) cur with | .struct vs => vs | _ => zeroFields gs)
        = some w ∧ y = .ptr (.struct w) := by
  have hs : ∀ G, tmplField pf (G + 1) (.ptr (.struct gs)) j none cur = tmplVal pf G (.ptr (.struct gs)) j none cur :=
    fun G => tmplField_single pf G _ j none cur (by simp [isRepeated, unname]) (by intro kt vt h; simp [unname] at h)
  match F, h with
  | 0, h => rw [tmplField_zero] at h; cases h
  | 1, h => rw [hs, tmplVal_zero] at h; cases h
  | F + 2, h =>
    rw [hs, tmplVal_ptrstruct] at h
    cases hg : gvObj j with
    | none => rw [hg] at h; cases h
    | some ms' =>
      rw [hg] at h
      simp only at h
      by_cases hk : allKnown gs ms' = true
      · simp only [hk, Bool.not_true, Bool.false_eq_true, if_false, Option.map_eq_some_iff] at h
        obtain ⟨w, hw, e⟩ := h
        exact ⟨ms', w, F, rfl, hk, hw, e.symm⟩
      · simp [hk] at h

open Enc.Spec.ProtoTemplate in
/-- a message value (an element of a repeated message field), inversion -/
theorem tmplVal_struct_inv (pf : PF) (F : Nat) (gs : Fields) (j : GV) (cur y : Val)
    (h : tmplVal pf F (.struct gs) j none cur = some y) :
    ∃ ms' w F', gvObj j = some ms' ∧ allKnown gs ms' = true ∧
      tmplFields pf F' gs ms' [] (match cur with | .struct vs => vs | _ => zeroFields gs) = some w ∧ y = .struct w := by
  match F, h with
  | 0, h => rw [tmplVal_zero] at h; cases h
  | F + 1, h =>
    rw [tmplVal_struct] at h
    cases hg : gvObj j with
    | none => rw [hg] at h; cases h
    | some ms' =>
      rw [hg] at h
      simp only at h
      by_cases hk : allKnown gs ms' = true
      · simp only [hk, Bool.not_true, Bool.false_eq_true, if_false, Option.map_eq_some_iff] at h
        obtain ⟨w, hw, e⟩ := h
        exact ⟨ms', w, F, rfl, hk, hw, e.symm⟩
      · simp [hk] at h

open Enc.Spec.ProtoTemplate in
/-- a pointer-to-message value (an element of a `[]*Sub` field), inversion -/
theorem tmplVal_ptrstruct_inv (pf : PF) (F : Nat) (gs : Fields) (j : GV) (cur y : Val)
    (h : tmplVal pf F (.ptr (.struct gs)) j none cur = some y) :
    ∃ ms' w F', gvObj j = some ms' ∧ allKnown gs ms' = true ∧
      tmplFields pf F' gs ms' [] (match unwrapPtr (.ptr (.struct gs)) cur with | .struct vs => vs | _ => zeroFields gs)
        = some w ∧ y = .ptr (.struct w) := by
  match F, h with
  | 0, h => rw [tmplVal_zero] at h; cases h
  | F + 1, h =>
    rw [tmplVal_ptrstruct] at h
    cases hg : gvObj j with
    | none => rw [hg] at h; cases h
    | some ms' =>
      rw [hg] at h
      simp only at h
      by_cases hk : allKnown gs ms' = true
      · simp only [hk, Bool.not_true, Bool.false_eq_true, if_false, Option.map_eq_some_iff] at h
        obtain ⟨w, hw, e⟩ := h
        exact ⟨ms', w, F, rfl, hk, hw, e.symm⟩
      · simp [hk] at h

/-! ### lists -/

theorem getD_map_ptrstruct : ∀ (subs : List Vals) (i : Nat), i < subs.length →
    (subs.map fun s => Val.ptr (.struct s)).getD i .nil = .ptr (.struct (subs.getD i .nil))
  | [], _, h => by simp at h
  | _ :: _, 0, _ => by simp
  | _ :: l, i + 1, h => by
    simp only [List.map_cons, List.getD_cons_succ]
    exact getD_map_ptrstruct l i (by simpa using h)

theorem getD_mem {α : Type} (d : α) : ∀ (l : List α) (i : Nat), i < l.length → l.getD i d ∈ l
  | [], _, h => by simp at h
  | _ :: _, 0, _ => by simp
  | _ :: l, i + 1, h => by
    simp only [List.getD_cons_succ, List.mem_cons]
    exact .inr (getD_mem d l i (by simpa using h))

theorem getD_map_struct : ∀ (subs : List Vals) (i : Nat), i < subs.length →
    (subs.map Val.struct).getD i .nil = .struct (subs.getD i .nil)
  | [], _, h => by simp at h
  | _ :: _, 0, _ => by simp
  | _ :: l, i + 1, h => by
    simp only [List.map_cons, List.getD_cons_succ]
    exact getD_map_struct l i (by simpa using h)

theorem listOf_listVal : ∀ xs : List Val, listOf (listVal xs) = xs
  | [] => rfl
  | x :: xs => by simp only [listVal, listOf, toList_ofList']

#print axioms pshape_decode
#print axioms tmplField_ptrstruct_inv

end Enc.Lemmas.ProtoTemplate
