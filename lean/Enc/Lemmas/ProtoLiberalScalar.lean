import Enc.Lemmas.ProtoLiberalTok
/-!
# C12, second half: one scalar occurrence — the Go codec and the reference `decodeOne` agree on EVERY payload

`scalar_agree`: for a scalar field type of the universe (`bool`, the six integer kinds with their plain / zigzag / fixed /
sfixed encodings, `float32/64`, `string`, `[]byte`) and any payload the reference parser produced (`Pay w p`: varints
verbatim, minimal or not), if the reference decodes the record value `w` to `v`, then the record has the wire type of
the field's codec and the codec decodes the payload bytes `p` to the same `v`, consuming all of them.
-/
set_option linter.unusedSimpArgs false
set_option linter.unusedVariables false
namespace Enc.Lemmas.ProtoLiberal
open Enc Enc.Model.Proto Enc.Lemmas.ProtoWire Enc.Lemmas.ProtoDecode Enc.Lemmas.ProtoRoundTrip
open Enc.Lemmas.ProtoRewriteSpec (VTok wireNum hasAtLeast_iff)
open Enc.Spec.Protobuf (FieldOpt WireVal decodeOne leNat toInt64 unzigzag zigzag)

/-! ## numbers -/

theorem vtok_dec {p : Bytes} {val : Nat} (h : VTok p val) : decodeVarint p = .ok (BitVec.ofNat 64 val, p.length) :=
  vtok_isVarint h

theorem ofNat_ne_zero (n : Nat) (h : n < 2 ^ 64) : (BitVec.ofNat 64 n != 0#64) = (n != 0) := by
  by_cases hn : n = 0
  · subst hn; rfl
  · have : BitVec.ofNat 64 n ≠ 0#64 := by
      intro e
      have e' := congrArg BitVec.toNat e
      rw [ofNat64_toNat n h] at e'
      exact hn e'
    rw [show (BitVec.ofNat 64 n != 0#64) = true from bne_iff_ne.mpr this,
      show (n != 0) = true from bne_iff_ne.mpr hn]

theorem toInt_ofNat (n : Nat) (h : n < 2 ^ 64) : (BitVec.ofNat 64 n).toInt = toInt64 n := by
  rw [BitVec.toInt_eq_toNat_cond, ofNat64_toNat n h]
  unfold toInt64
  simp only [Nat.reducePow] at h ⊢
  split <;> split <;> omega

theorem unzigzag_ofNat (n : Nat) (h : n < 2 ^ 64) : (decodeZigZag64 (BitVec.ofNat 64 n)).toInt = unzigzag n := by
  have h1 : -(2:Int)^63 ≤ (decodeZigZag64 (BitVec.ofNat 64 n)).toInt := BitVec.le_toInt _
  have h2 : (decodeZigZag64 (BitVec.ofNat 64 n)).toInt < (2:Int)^63 := BitVec.toInt_lt
  have hz := ProtoVarint.zigzag_spec _ h1 h2
  rw [BitVec.ofInt_toInt, Lemmas.Proto.zigzag_roundtrip', ofNat64_toNat n h] at hz
  have := unzigzag_zigzag (decodeZigZag64 (BitVec.ofNat 64 n)).toInt
  rw [← hz] at this
  exact this.symm

theorem toNat_ofNat_int (n : Nat) (h : n < 2 ^ 64) : ((BitVec.ofNat 64 n).toNat : Int) = (n : Int) := by
  rw [ofNat64_toNat n h]

theorem le4 (a b c d : UInt8) :
    (d.toBitVec ++ c.toBitVec ++ b.toBitVec ++ a.toBitVec).toNat = leNat [a, b, c, d] := by
  have ha : a.toBitVec.toNat < 2 ^ 8 := a.toBitVec.isLt
  have hb : b.toBitVec.toNat < 2 ^ 8 := b.toBitVec.isLt
  have hc : c.toBitVec.toNat < 2 ^ 8 := c.toBitVec.isLt
  simp only [BitVec.toNat_append, leNat, UInt8.toNat]
  rw [← Nat.shiftLeft_add_eq_or_of_lt ha, ← Nat.shiftLeft_add_eq_or_of_lt hb, ← Nat.shiftLeft_add_eq_or_of_lt hc]
  simp only [Nat.shiftLeft_eq]
  omega

theorem le8 (a b c d e f g h : UInt8) :
    (h.toBitVec ++ g.toBitVec ++ f.toBitVec ++ e.toBitVec ++ d.toBitVec ++ c.toBitVec ++ b.toBitVec ++ a.toBitVec).toNat
      = leNat [a, b, c, d, e, f, g, h] := by
  have ha : a.toBitVec.toNat < 2 ^ 8 := a.toBitVec.isLt
  have hb : b.toBitVec.toNat < 2 ^ 8 := b.toBitVec.isLt
  have hc : c.toBitVec.toNat < 2 ^ 8 := c.toBitVec.isLt
  have hd : d.toBitVec.toNat < 2 ^ 8 := d.toBitVec.isLt
  have he : e.toBitVec.toNat < 2 ^ 8 := e.toBitVec.isLt
  have hf : f.toBitVec.toNat < 2 ^ 8 := f.toBitVec.isLt
  have hg : g.toBitVec.toNat < 2 ^ 8 := g.toBitVec.isLt
  simp only [BitVec.toNat_append, leNat, UInt8.toNat]
  rw [← Nat.shiftLeft_add_eq_or_of_lt ha, ← Nat.shiftLeft_add_eq_or_of_lt hb, ← Nat.shiftLeft_add_eq_or_of_lt hc,
    ← Nat.shiftLeft_add_eq_or_of_lt hd, ← Nat.shiftLeft_add_eq_or_of_lt he, ← Nat.shiftLeft_add_eq_or_of_lt hf,
    ← Nat.shiftLeft_add_eq_or_of_lt hg]
  simp only [Nat.shiftLeft_eq]
  omega

/-- four arbitrary bytes: the Go reader's little-endian word = the reference's `leNat` -/
theorem unLE32_any (p : Bytes) (h : p.length = 4) : ∃ v, unLE32 p = some v ∧ v.toNat = leNat p := by
  match p, h with
  | [a, b, c, d], _ => exact ⟨_, rfl, le4 a b c d⟩

theorem unLE64_any (p : Bytes) (h : p.length = 8) : ∃ v, unLE64 p = some v ∧ v.toNat = leNat p := by
  match p, h with
  | [a, b, c, d, e, f, g, i], _ => exact ⟨_, rfl, le8 a b c d e f g i⟩

theorem toInt32_eq (v : BitVec 32) :
    v.toInt = if v.toNat < 2 ^ 31 then (v.toNat : Int) else (v.toNat : Int) - 2 ^ 32 := by
  rw [BitVec.toInt_eq_toNat_cond]
  have := v.isLt
  simp only [Nat.reducePow] at this ⊢
  split <;> split <;> omega

theorem toInt64_eq (v : BitVec 64) : v.toInt = toInt64 v.toNat := by
  rw [BitVec.toInt_eq_toNat_cond]
  unfold toInt64
  have := v.isLt
  simp only [Nat.reducePow] at this ⊢
  split <;> split <;> omega

/-- a length token followed by the chunk it announces -/
theorem decodeVarlen_tok (pl body : Bytes) (hl : VTok pl body.length) :
    decodeVarlen (pl ++ body) = .ok (body, (pl ++ body).length) := by
  unfold decodeVarlen
  have := hl.dec body
  rw [this]
  simp only [List.drop_left, ofNat64_toNat _ hl.lt, hasAtLeast_iff, Nat.le_refl, decide_true,
    Bool.not_true, Bool.false_eq_true, if_false, List.take_length, List.length_append]

/-! ## the scalar dispatch -/

theorem i32_range (v : Int) (h : IntKind.i32.inRange v = true) : ¬ (v < -2147483648 ∨ v > 2147483647) := by
  have := inRange_spec _ v h
  simp only [IntKind.signed, IntKind.bits, if_true, Nat.reduceSub, Int.reducePow] at this
  omega

theorem u32_range (n : Nat) (h : IntKind.u32.inRange (n : Int) = true) : ¬ (n > 4294967295) := by
  have := inRange_spec _ _ h
  simp only [IntKind.signed, IntKind.bits, Bool.false_eq_true, if_false, Int.reducePow] at this
  omega

theorem ite_some {α : Type} {c : Prop} [Decidable c] {x v : α} (h : (if c then some x else none) = some v) :
    c ∧ x = v := by
  split at h
  · rename_i hc; exact ⟨hc, Option.some.inj h⟩
  · cases h

/-- **one scalar occurrence**: reference accepts ⇒ right wire type, and the Go codec returns the same value and
consumes the whole payload -/
theorem scalar_agree (t : Ty) (o : FieldOpt) (w : WireVal) (p : Bytes) (cur cur' v : Val) (F f : Nat) (fl : Flags)
    (ht : tyOK t = true) (hs : isStructTy t = false) (hnp : isPtr t = false) (hns : isSlice t = false)
    (ho : optOK t o = true) (hfl : fl.zigzag = o.zigzag) (hp : Pay w p)
    (h : decodeOne F t o w cur = some v) :
    wireNum w = (codecFor t o).wire.num ∧ decodeU (f + 1) (codecFor t o) p cur' fl = .ok (v, p.length) := by
  cases F with
  | zero => simp [decodeOne] at h
  | succ F =>
  cases t <;> simp only [tyOK] at ht <;> try (exact absurd ht (by decide))
  case struct => exact absurd hs (by simp [isStructTy])
  case ptr => exact absurd hnp (by simp [isPtr])
  case slice => exact absurd hns (by simp [isSlice])
  case bool =>
    cases w <;> simp only [decodeOne] at h <;> try contradiction
    rename_i n
    simp only [Pay] at hp
    simp only [Option.some.injEq] at h
    subst h
    refine ⟨by simp only [codecFor, codecOf, Codec.wire, wireNum, num_varint, num_fixed32, num_fixed64, num_varlen], ?_⟩
    simp only [codecFor, codecOf, decodeU, vtok_dec hp, Res.bind, ofNat_ne_zero n hp.lt]
  case f32 =>
    cases w <;> simp only [decodeOne] at h <;> try contradiction
    rename_i body
    obtain ⟨rfl, h4⟩ := hp
    simp only [Option.some.injEq] at h
    subst h
    obtain ⟨x, hx, hxn⟩ := unLE32_any p h4
    refine ⟨by simp only [codecFor, codecOf, Codec.wire, wireNum, num_varint, num_fixed32, num_fixed64, num_varlen], ?_⟩
    simp only [codecFor, codecOf, decodeU, hx, hxn, h4]
  case f64 =>
    cases w <;> simp only [decodeOne] at h <;> try contradiction
    rename_i body
    obtain ⟨rfl, h8⟩ := hp
    simp only [Option.some.injEq] at h
    subst h
    obtain ⟨x, hx, hxn⟩ := unLE64_any p h8
    refine ⟨by simp only [codecFor, codecOf, Codec.wire, wireNum, num_varint, num_fixed32, num_fixed64, num_varlen], ?_⟩
    simp only [codecFor, codecOf, decodeU, hx, hxn, h8]
  case str =>
    cases w <;> simp only [decodeOne] at h <;> try contradiction
    rename_i body
    obtain ⟨pl, hl, rfl⟩ := hp
    simp only [Option.some.injEq] at h
    subst h
    refine ⟨by simp only [codecFor, codecOf, Codec.wire, wireNum, num_varint, num_fixed32, num_fixed64, num_varlen], ?_⟩
    simp only [codecFor, codecOf, decodeU, decodeVarlen_tok pl body hl, Res.bind]
  case bytes =>
    cases w <;> simp only [decodeOne] at h <;> try contradiction
    rename_i body
    obtain ⟨pl, hl, rfl⟩ := hp
    simp only [Option.some.injEq] at h
    subst h
    refine ⟨by simp only [codecFor, codecOf, Codec.wire, wireNum, num_varint, num_fixed32, num_fixed64, num_varlen], ?_⟩
    simp only [codecFor, codecOf, decodeU, decodeVarlen_tok pl body hl, Res.bind]
  case arr n e =>
    -- the reference accepts a payload of exactly `n` bytes only; `copy` then takes all of it
    have := isByte_eq e ht; subst this
    cases w <;> simp only [decodeOne] at h <;> try contradiction
    rename_i body
    obtain ⟨pl, hl, rfl⟩ := hp
    obtain ⟨hbl, rfl⟩ := ite_some h
    refine ⟨by simp only [codecFor, codecOf, Codec.wire, wireNum, num_varint, num_fixed32, num_fixed64, num_varlen], ?_⟩
    simp only [codecFor, codecOf, decodeU, decodeVarlen_tok pl body hl, Res.bind]
    subst hbl
    simp
  case int k =>
    cases k <;> simp only [supportedKind] at ht <;> try (exact absurd ht (by decide))
    case int =>
      have hf : o.fixed = false := by simpa [optOK] using ho
      cases w <;> simp only [decodeOne, hf, IntKind.signed, Bool.false_eq_true, if_false, if_true] at h <;>
        try contradiction
      rename_i n
      simp only [Pay] at hp
      obtain ⟨hr, rfl⟩ := ite_some h
      refine ⟨by simp only [codecFor, codecOf, Codec.wire, wireNum, num_varint, num_fixed32, num_fixed64, num_varlen], ?_⟩
      simp only [codecFor, codecOf, decodeU, vtok_dec hp, Res.bind, Flags.i64, hfl]
      split <;> simp only [unzigzag_ofNat n hp.lt, toInt_ofNat n hp.lt]
    case i64 =>
      by_cases hf : o.fixed = true
      · cases w <;> simp only [decodeOne, hf, IntKind.signed, if_true] at h <;> try contradiction
        rename_i body
        obtain ⟨rfl, h8⟩ := hp
        simp only [Option.some.injEq] at h
        subst h
        obtain ⟨x, hx, hxn⟩ := unLE64_any p h8
        refine ⟨by simp only [codecFor, codecOf, Codec.wire, wireNum, num_varint, num_fixed32, num_fixed64, num_varlen, hf, if_true], ?_⟩
        simp only [codecFor, hf, if_true, decodeU, hx, h8, toInt64_eq x, hxn]
      · have hf' : o.fixed = false := by simpa using hf
        cases w <;> simp only [decodeOne, hf', IntKind.signed, Bool.false_eq_true, if_false, if_true] at h <;>
          try contradiction
        rename_i n
        simp only [Pay] at hp
        obtain ⟨hr, rfl⟩ := ite_some h
        refine ⟨by simp only [codecFor, codecOf, Codec.wire, wireNum, num_varint, num_fixed32, num_fixed64, num_varlen, hf', Bool.false_eq_true, if_false], ?_⟩
        simp only [codecFor, hf', Bool.false_eq_true, if_false, decodeU, vtok_dec hp, Res.bind, Flags.i64, hfl]
        split <;> simp only [unzigzag_ofNat n hp.lt, toInt_ofNat n hp.lt]
    case i32 =>
      by_cases hf : o.fixed = true
      · cases w <;> simp only [decodeOne, hf, IntKind.signed, if_true] at h <;> try contradiction
        rename_i body
        obtain ⟨rfl, h4⟩ := hp
        simp only [Option.some.injEq] at h
        subst h
        obtain ⟨x, hx, hxn⟩ := unLE32_any p h4
        refine ⟨by simp only [codecFor, codecOf, Codec.wire, wireNum, num_varint, num_fixed32, num_fixed64, num_varlen, hf, if_true], ?_⟩
        simp only [codecFor, hf, if_true, decodeU, hx, h4, toInt32_eq x, hxn]
      · have hf' : o.fixed = false := by simpa using hf
        cases w <;> simp only [decodeOne, hf', IntKind.signed, Bool.false_eq_true, if_false, if_true] at h <;>
          try contradiction
        rename_i n
        simp only [Pay] at hp
        obtain ⟨hr, rfl⟩ := ite_some h
        refine ⟨by simp only [codecFor, codecOf, Codec.wire, wireNum, num_varint, num_fixed32, num_fixed64, num_varlen, hf', Bool.false_eq_true, if_false], ?_⟩
        have hv : (if fl.zigzag = true then (decodeZigZag64 (BitVec.ofNat 64 n)).toInt else (BitVec.ofNat 64 n).toInt)
            = (if o.zigzag = true then unzigzag n else toInt64 n) := by
          rw [hfl]; split <;> simp only [unzigzag_ofNat n hp.lt, toInt_ofNat n hp.lt]
        simp only [codecFor, hf', Bool.false_eq_true, if_false, decodeU, vtok_dec hp, Flags.i64, hv]
        rw [if_neg (i32_range _ hr)]
    case uint =>
      have hf : o.fixed = false := by simpa [optOK] using ho
      cases w
      case varint n =>
        simp only [decodeOne, hf, IntKind.signed, Bool.false_eq_true, if_false, if_true] at h
        simp only [Pay] at hp
        obtain ⟨hr, rfl⟩ := ite_some h
        refine ⟨by simp only [codecFor, codecOf, Codec.wire, wireNum, num_varint, num_fixed32, num_fixed64, num_varlen], ?_⟩
        simp only [codecFor, codecOf, decodeU, vtok_dec hp, Res.bind, toNat_ofNat_int n hp.lt]
      all_goals simp [decodeOne, hf] at h
    case u64 =>
      by_cases hf : o.fixed = true
      · cases w
        case i64 body =>
          simp only [decodeOne, hf, IntKind.signed, if_true] at h
          obtain ⟨rfl, h8⟩ := hp
          simp only [Option.some.injEq] at h
          subst h
          obtain ⟨x, hx, hxn⟩ := unLE64_any p h8
          refine ⟨by simp only [codecFor, codecOf, Codec.wire, wireNum, num_varint, num_fixed32, num_fixed64, num_varlen, hf, if_true], ?_⟩
          simp only [codecFor, hf, if_true, decodeU, hx, h8, hxn]
        all_goals simp [decodeOne, hf] at h
      · have hf' : o.fixed = false := by simpa using hf
        cases w
        case varint n =>
          simp only [decodeOne, hf', IntKind.signed, Bool.false_eq_true, if_false, if_true] at h
          simp only [Pay] at hp
          obtain ⟨hr, rfl⟩ := ite_some h
          refine ⟨by simp only [codecFor, codecOf, Codec.wire, wireNum, num_varint, num_fixed32, num_fixed64, num_varlen, hf', Bool.false_eq_true, if_false], ?_⟩
          simp only [codecFor, hf', Bool.false_eq_true, if_false, decodeU, vtok_dec hp, Res.bind, toNat_ofNat_int n hp.lt]
        all_goals simp [decodeOne, hf'] at h
    case u32 =>
      by_cases hf : o.fixed = true
      · cases w
        case i32 body =>
          simp only [decodeOne, hf, IntKind.signed, if_true] at h
          obtain ⟨rfl, h4⟩ := hp
          simp only [Option.some.injEq] at h
          subst h
          obtain ⟨x, hx, hxn⟩ := unLE32_any p h4
          refine ⟨by simp only [codecFor, codecOf, Codec.wire, wireNum, num_varint, num_fixed32, num_fixed64, num_varlen, hf, if_true], ?_⟩
          simp only [codecFor, hf, if_true, decodeU, hx, h4, hxn]
        all_goals simp [decodeOne, hf] at h
      · have hf' : o.fixed = false := by simpa using hf
        cases w
        case varint n =>
          simp only [decodeOne, hf', IntKind.signed, Bool.false_eq_true, if_false, if_true] at h
          simp only [Pay] at hp
          obtain ⟨hr, rfl⟩ := ite_some h
          refine ⟨by simp only [codecFor, codecOf, Codec.wire, wireNum, num_varint, num_fixed32, num_fixed64, num_varlen, hf', Bool.false_eq_true, if_false], ?_⟩
          simp only [codecFor, hf', Bool.false_eq_true, if_false, decodeU, vtok_dec hp, Res.bind, ofNat64_toNat n hp.lt]
          rw [if_neg (u32_range n hr)]
        all_goals simp [decodeOne, hf'] at h

end Enc.Lemmas.ProtoLiberal
