import Enc.Lemmas.ProtoMapBytes
/-!
# proto map fields, value level: the reference decoder reads what the model writes back to the value

  * `absent_agrM`        a field the model leaves out agrees with the zero value
  * `mapPut_fresh`       `mapPut` with a key not yet present appends the pair (order of the entries is kept)
  * `decode_entry`       the reference decoder on one entry body: `{key, value'}` with `value'` agreeing with `value`
  * `decode_entries`     the entry records of a map field accumulate in the slot, in order
  * `decode_oneM / decode_fieldsM / decode_fieldsRM`   the mutual induction of `ProtoWireVal` re-run on `tyOKM`
  * `decode_marshal_map_partial`, `decode_marshal_map_ptrmsg_partial`
-/
set_option linter.unusedSimpArgs false
set_option linter.unusedVariables false
namespace Enc.Lemmas.ProtoMap
open Enc Enc.Model.Proto Enc.Spec.Protobuf Enc.Lemmas.ProtoWire

/-! ## agreement -/

theorem AgrM.rfl' (t : Ty) (v : Val) : AgrM t v v := rfl
theorem AgrFM.rfl' (fs : Fields) (vs : Vals) : AgrFM fs vs vs := rfl

theorem AgrM.struct {fs : Fields} {vs' vs : Vals} (h : AgrFM fs vs' vs) :
    AgrM (.struct fs) (.struct vs') (.struct vs) := by
  unfold AgrM AgrFM at *
  simp only [canonical, canonTy, canon, h]

theorem AgrM.ptr {t : Ty} {v' v : Val} (h : AgrM t v' v) : AgrM (.ptr t) (.ptr v') (.ptr v) := by
  unfold AgrM at *
  simp only [canonical] at h
  simp only [canonical, canonTy, canon, h]

theorem AgrFM.cons {name tag : String} {emb : Bool} {t : Ty} {rest : Fields} {v' v : Val}
    {vs' vs : Vals} (h1 : AgrM t v' v) (h2 : AgrFM rest vs' vs) :
    AgrFM (.cons name tag emb t rest) (.cons v' vs') (.cons v vs) := by
  unfold AgrM AgrFM at *
  simp only [canonical] at h1
  simp only [canonTyFields, canonVals, h1, h2]

theorem scalar_noEmptyPtr (t : Ty) (v : Val) (h : isScalarTy t = true) : noEmptyPtr t v = true := by
  cases t <;> cases v <;> simp_all [isScalarTy, isStructTy, isPtr, isSlice, isMap, noEmptyPtr]

/-- whether a field is written does not depend on its options -/
theorem payloadM_isSome (wz : Bool) (t : Ty) (o o' : FieldOpt) (v : Val) :
    (payloadM wz t o v).isSome = (payloadM wz t o' v).isSome := by
  cases t <;> cases v <;> simp only [payloadM] <;> try rfl
  · split <;> rfl
  · exact payloadM_isSome true _ o o' _

theorem canonical_map_nil (k v : Ty) : canonical (.map k v) .nil = .nil := by
  simp [canonical, canonTy, canon]

theorem pairRecs_ne_nil (f : Val → Val → Nat × WireVal) (a b : Val) (r : Vals) :
    pairRecs f (.cons a (.cons b r)) ≠ [] := by simp [pairRecs]

theorem mapRecsM_ne_nil (num : Nat) (kt vt : Ty) (kvs : Vals) (h : hasTypeMapM kt vt kvs = true) :
    mapRecsM num kt vt kvs ≠ [] := by
  match kvs, h with
  | .nil, _ => simp [mapRecsM_nil]
  | .cons _ .nil, h => simp [hasTypeMapM] at h
  | .cons a (.cons b r), _ => rw [mapRecsM_cons]; exact pairRecs_ne_nil _ a b r

/-! ## absent on the wire ⇒ the value agrees with the zero value -/

mutual
theorem absent_agrM (t : Ty) (o : FieldOpt) (v : Val) (wz : Bool)
    (hv : hasTypeM t v = true) (hne : valOKM t v = true) (hns : isSlice t = false) (hnm : isMap t = false)
    (h : payloadM wz t o v = none) : AgrM t (Spec.Protobuf.zeroOf t) v := by
  by_cases hsc : isScalarTy t = true
  · rw [scalar_payload _ _ _ _ hsc] at h
    exact (absent_agr t o v wz (scalar_hasType t v hsc ▸ hv) (scalar_noEmptyPtr t v hsc) hns h).1
  cases t <;> cases v <;> simp only [hasTypeM] at hv <;> try (exact absurd hv (by decide))
  all_goals try (exact absurd rfl hsc)
  case slice.nil => exact absurd hns (by simp [isSlice])
  case slice.list => exact absurd hns (by simp [isSlice])
  case map.map => exact absurd hnm (by simp [isMap])
  case ptr.nil => simp only [Spec.Protobuf.zeroOf]; exact AgrM.rfl' _ _
  case ptr.ptr t' v0 =>
    simp only [payloadM] at h
    simp only [valOKM, Bool.and_eq_true] at hne
    have := hne.1
    rw [payloadM_isSome true t' _ o v0, h] at this
    exact absurd this (by decide)
  case struct.struct fs vs =>
    simp only [payloadM] at h
    split at h
    · rename_i hb
      have hnil : recordsOfM wz 1 fs vs ++ recordsRM 1 fs vs = [] := encRecs_eq_nil (by simpa [encRecs] using hb)
      obtain ⟨h1, h2⟩ := List.append_eq_nil_iff.mp hnil
      simp only [Spec.Protobuf.zeroOf]
      simp only [valOKM] at hne
      exact AgrM.struct (absent_agrFM fs vs wz 1 hv hne h1 h2)
    · cases h
theorem absent_agrFM (fs : Fields) (vs : Vals) (wz : Bool) (pos : Nat)
    (hv : hasTypesM fs vs = true) (hne : valsOKM fs vs = true)
    (h1 : recordsOfM wz pos fs vs = []) (h2 : recordsRM pos fs vs = []) :
    AgrFM fs (Spec.Protobuf.zeroFields fs) vs := by
  cases fs with
  | nil => cases vs <;> simp_all [hasTypesM, Spec.Protobuf.zeroFields]; exact AgrFM.rfl' _ _
  | cons name tag emb t rest =>
    cases vs with
    | nil => simp [hasTypesM] at hv
    | cons v vs =>
      simp only [hasTypesM, Bool.and_eq_true] at hv
      simp only [valsOKM, Bool.and_eq_true] at hne
      simp only [Spec.Protobuf.zeroFields]
      by_cases hmp : isMap t = true
      · cases t <;> simp only [isMap] at hmp <;> try (exact absurd hmp (by decide))
        rename_i kt vt
        cases v <;> simp only [hasTypeM] at hv <;> try (exact absurd hv.1 (by decide))
        rename_i kvs
        rw [recordsRM_map] at h2
        exact absurd (List.append_eq_nil_iff.mp h2).1 (mapRecsM_ne_nil _ kt vt kvs hv.1)
      have hnm : isMap t = false := by simpa using hmp
      by_cases hsl : isSlice t = true
      · cases t <;> simp only [isSlice] at hsl <;> try (exact absurd hsl (by decide))
        rename_i e
        rw [recordsOfM_slice] at h1
        cases v <;> simp only [hasTypeM] at hv <;> try (exact absurd hv.1 (by decide))
        case nil =>
          rw [recordsRM_slice_nil] at h2
          simp only [Spec.Protobuf.zeroOf]
          exact AgrFM.cons (AgrM.rfl' _ _) (absent_agrFM rest vs wz (pos + 1) hv.2 hne.2 h1 h2)
        case list es =>
          simp only [recordsRM] at h2
          obtain ⟨h3, h4⟩ := List.append_eq_nil_iff.mp h2
          have hes : es = .nil := by
            cases es with
            | nil => rfl
            | cons => simp [listRecs] at h3
          subst hes
          simp only [Spec.Protobuf.zeroOf]
          refine AgrFM.cons ?_ (absent_agrFM rest vs wz (pos + 1) hv.2 hne.2 h1 h4)
          unfold AgrM
          rw [canonical_slice_nil, canonical_slice_empty]
      · have hns : isSlice t = false := by simpa using hsl
        rw [recordsRM_plain _ _ _ _ _ _ _ _ hns hnm] at h2
        simp only [recordsOfM] at h1
        cases hp : payloadM wz t (fieldOpt pos tag) v with
        | none =>
          rw [hp] at h1
          simp only at h1
          exact AgrFM.cons (absent_agrM t _ v wz hv.1 hne.1 hns hnm hp) (absent_agrFM rest vs wz (pos + 1) hv.2 hne.2 h1 h2)
        | some w => rw [hp] at h1; simp at h1
end

/-! ## the reference decoder, record by record (on `tyOKM`) -/

theorem base_plumbingM (t : Ty) (ht : tyOKM t = true) (hnp : isPtr t = false) :
    deref t = t ∧ (∀ x, unwrapPtr t x = x) ∧ (∀ x, wrapPtr t x = x) := by
  cases t <;> simp only [tyOKM] at ht <;> try (exact absurd ht (by decide))
  case ptr => exact absurd hnp (by simp [isPtr])
  all_goals exact ⟨by simp [deref], fun x => by cases x <;> simp [unwrapPtr], fun x => by simp [wrapPtr]⟩

/-- a record of a non-repeated, non-map field -/
theorem decodeRecs_stepM (fuel : Nat) (fs : Fields) (num : Nat) (w : WireVal) (rest : List (Nat × WireVal))
    (vs : Vals) (i : Nat) (o : FieldOpt) (t : Ty) (hf : findField fs num = some (i, o, t)) (ht : tyOKM t = true)
    (hns : isSlice t = false) (hnm : isMap t = false) :
    decodeRecs (fuel + 1) fs ((num, w) :: rest) vs
      = (decodeOne fuel (deref t) o w (unwrapPtr t (valsGet vs i))).bind fun v =>
          decodeRecs fuel fs rest (valsSet vs i (wrapPtr t v)) := by
  simp only [decodeRecs, hf]
  cases t <;> simp only [tyOKM] at ht <;> try (exact absurd ht (by decide))
  case slice => exact absurd hns (by simp [isSlice])
  case map => exact absurd hnm (by simp [isMap])
  all_goals simp [isRepeated, unname]

/-- a record of a repeated field: one more element -/
theorem decodeRecs_step_repM (fuel : Nat) (fs : Fields) (num : Nat) (w : WireVal) (rest : List (Nat × WireVal))
    (vs : Vals) (i : Nat) (o : FieldOpt) (e : Ty) (hf : findField fs num = some (i, o, .slice e))
    (ht : tyOKM (.slice e) = true) :
    decodeRecs (fuel + 1) fs ((num, w) :: rest) vs
      = (decodeOne fuel e o w (Spec.Protobuf.zeroOf e)).bind fun x =>
          decodeRecs fuel fs rest (valsSet vs i (.list (Vals.ofList
            ((match valsGet vs i with | .list l => l.toList | _ => []) ++ [x])))) := by
  simp only [tyOKM, elemTy, Bool.and_eq_true, Bool.not_eq_true'] at ht
  obtain ⟨hd, hu, hw⟩ := base_plumbingM e ht.2 ht.1.1.1
  have hrep : isRepeated (.slice e) = some e := by
    cases e <;> simp_all [isRepeated, unname, tyOKM]
    rename_i k; cases k <;> simp_all [supportedKind]
  simp only [decodeRecs, hf, hrep, hd, hw]
  rfl

/-- the synthetic entry message type of the reference decoder -/
def entryF (kt vt : Ty) : Fields := .cons "Key" "" false kt (.cons "Elem" "" false vt .nil)

/-- a record of a map field: one more entry, put into the map -/
theorem decodeRecs_step_map (fuel : Nat) (fs : Fields) (num : Nat) (eb : Bytes) (rest : List (Nat × WireVal))
    (vs : Vals) (i : Nat) (o : FieldOpt) (kt vt : Ty) (hf : findField fs num = some (i, o, .map kt vt)) :
    decodeRecs (fuel + 1) fs ((num, .len eb) :: rest) vs
      = (decodeMsg fuel (entryF kt vt) eb (Spec.Protobuf.zeroFields (entryF kt vt))).bind fun evs =>
          decodeRecs fuel fs rest (valsSet vs i (.map (mapPut (match valsGet vs i with | .map kvs => kvs | _ => .nil)
            (valsGet evs 0) (valsGet evs 1)))) := by
  simp only [decodeRecs, hf, isRepeated, unname, entryF]
  rfl

/-! ## maps: the entries accumulate in order -/

/-- alternating key/value list of a list of pairs -/
def flat : List (Val × Val) → Vals
  | [] => .nil
  | (k, v) :: r => .cons k (.cons v (flat r))

/-- value of a map field after the pairs `acc` have been read (nil until the first one arrives) -/
def accMap : List (Val × Val) → Val
  | [] => .nil
  | p :: l => .map (flat (p :: l))

theorem accMap_cur (acc : List (Val × Val)) :
    (match accMap acc with | .map kvs => kvs | _ => Vals.nil) = flat acc := by
  cases acc <;> rfl

theorem accMap_snoc (acc : List (Val × Val)) (p : Val × Val) : Val.map (flat (acc ++ [p])) = accMap (acc ++ [p]) := by
  cases acc <;> rfl

/-- **order of the entries**: putting a key that is not yet present (under `Val.show`) appends the pair -/
theorem mapPut_fresh : ∀ (acc : List (Val × Val)) (k v : Val), (∀ p ∈ acc, (p.1.show == k.show) = false) →
    mapPut (flat acc) k v = flat (acc ++ [(k, v)])
  | [], k, v, _ => by simp [flat, mapPut]
  | (k0, v0) :: acc, k, v, h => by
    have h0 := h (k0, v0) (by simp)
    simp only at h0
    simp only [flat, mapPut, h0, Bool.false_eq_true, if_false, List.cons_append]
    rw [mapPut_fresh acc k v (fun p hp => h p (by simp [hp]))]

/-- the same for the model's `mapAssign` with `valEqShow` -/
theorem mapAssign_fresh : ∀ (acc : List (Val × Val)) (k v : Val), (∀ p ∈ acc, (p.1.show == k.show) = false) →
    mapAssign (flat acc) k v valEqShow = flat (acc ++ [(k, v)])
  | [], k, v, _ => by simp [flat, mapAssign]
  | (k0, v0) :: acc, k, v, h => by
    have h0 := h (k0, v0) (by simp)
    simp only at h0
    simp only [flat, mapAssign, valEqShow, h0, Bool.false_eq_true, if_false, List.cons_append]
    rw [mapAssign_fresh acc k v (fun p hp => h p (by simp [hp]))]

/-- pair-wise agreement: the same keys in the same order, values equal in normal form -/
def MapAgr (vt : Ty) : List (Val × Val) → Vals → Prop
  | [], .nil => True
  | (k', v') :: ds, .cons k (.cons v r) => k' = k ∧ canonical vt v' = canonical vt v ∧ MapAgr vt ds r
  | _, _ => False

theorem canonVals_flat (kt vt : Ty) : ∀ (ds : List (Val × Val)) (kvs : Vals), MapAgr vt ds kvs →
    canonVals (canonTyMap kt vt (flat ds)) = canonVals (canonTyMap kt vt kvs)
  | [], .nil, _ => rfl
  | [], .cons _ _, h => by simp [MapAgr] at h
  | _ :: _, .nil, h => by simp [MapAgr] at h
  | _ :: _, .cons _ .nil, h => by simp [MapAgr] at h
  | (k', v') :: ds, .cons k (.cons v r), h => by
    simp only [MapAgr] at h
    obtain ⟨rfl, h1, h2⟩ := h
    simp only [canonical] at h1
    simp only [flat, canonTyMap, canonVals, h1, canonVals_flat kt vt ds r h2]

theorem map_agr (kt vt : Ty) (ds : List (Val × Val)) (kvs : Vals) (h : MapAgr vt ds kvs)
    (hne : nonEmptyVals kvs = true) : AgrM (.map kt vt) (accMap ds) (.map kvs) := by
  cases ds with
  | nil =>
    cases kvs with
    | nil => simp [nonEmptyVals] at hne
    | cons => simp [MapAgr] at h
  | cons d ds =>
    have := canonVals_flat kt vt (d :: ds) kvs h
    unfold AgrM
    simp only [accMap, canonical, canonTy, canon, this]

theorem allFresh_cons (a x y : Val) (r : Vals) :
    keysDistinct.allFresh a (.cons x (.cons y r)) = (!(a.show == x.show) && keysDistinct.allFresh a r) := by
  simp only [keysDistinct.allFresh]

/-! ## one entry -/

theorem findField_entry_key (kt vt : Ty) : findField (entryF kt vt) 1 = some (0, { number := 1 }, kt) := by
  simp only [findField, entryF, findField_go_cons, fieldOpt_empty, Nat.zero_add, if_true]

theorem findField_entry_val (kt vt : Ty) : findField (entryF kt vt) 2 = some (1, { number := 2 }, vt) := by
  simp [findField, entryF, findField_go_cons, fieldOpt_empty]

/-- the body of the entry record for the pair `(key, val)` -/
def entryBody (kt vt : Ty) (key val : Val) : Bytes :=
  encRecs (entryRecs (payloadM true kt { number := 1 } key) (payloadM true vt { number := 2 } val))

/-- a key is always written, and the reference decoder reads it back literally -/
theorem key_payload (kt : Ty) (hk : keyTy kt = true) (key : Val) (hkv : hasTypeM kt key = true) :
    ∃ wk, payloadM true kt { number := 1 } key = some wk
      ∧ ∀ f cur, decodeOne (f + 1) kt { number := 1 } wk cur = some key := by
  have hsc := keyTy_scalar kt hk
  have hty := keyTy_tyOK kt hk
  have hv : hasType kt key = true := scalar_hasType kt key hsc ▸ hkv
  rw [scalar_payload _ _ _ _ hsc]
  cases hp : payload true kt { number := 1 } key with
  | none => exact absurd hp (payload_wz_scalar kt _ key hty hv (keyTy_notStruct kt hk) (keyTy_notPtr kt hk)
      (keyTy_notSlice kt hk))
  | some wk =>
    refine ⟨wk, rfl, fun f cur => ?_⟩
    exact decode_scalar_exact kt _ key true cur f (keyTy_notStruct kt hk) (keyTy_notPtr kt hk) (keyTy_notSlice kt hk)
      hty hv (optOK_untagged kt 1) wk hp (by rintro ⟨rfl, _⟩; simp [keyTy] at hk)

/-- **one entry**: the reference decoder on the entry body the model writes for `(key, val)` yields the entry message
`{key, val'}`, the key literally, `val'` agreeing with `val` (also when the value part was left out) -/
theorem decode_entry (kt vt : Ty) (hk : keyTy kt = true) (hvt : tyOKM vt = true) (hvs : isSlice vt = false)
    (hvm : isMap vt = false) (key val : Val) (hkv : hasTypeM kt key = true) (hvv : hasTypeM vt val = true)
    (hne : valOKM vt val = true)
    (IH : ∀ w fuel, payloadM true vt { number := 2 } val = some w → (encRec (2, w)).length < 2 ^ 64 →
      2 * (encRec (2, w)).length ≤ fuel + 1 →
      ∃ v', decodeOne fuel (deref vt) { number := 2 } w (unwrapPtr vt (Spec.Protobuf.zeroOf vt)) = some v'
        ∧ AgrM vt (wrapPtr vt v') val)
    (fuel : Nat) (hlen : (entryBody kt vt key val).length < 2 ^ 64) (hfuel : 2 * (entryBody kt vt key val).length ≤ fuel) :
    ∃ v', decodeMsg fuel (entryF kt vt) (entryBody kt vt key val) (Spec.Protobuf.zeroFields (entryF kt vt))
        = some (.cons key (.cons v' .nil)) ∧ AgrM vt v' val := by
  obtain ⟨wk, hpk, hdk⟩ := key_payload kt hk key hkv
  obtain ⟨hd, hu, hw⟩ := base_plumbingM kt (keyTy_tyOKM kt hk) (keyTy_notPtr kt hk)
  have hkok : ∀ (h : (encRec (1, wk)).length < 2 ^ 64), RecOK (1, wk) := fun h =>
    payload_okM kt _ key true 1 (keyTy_tyOKM kt hk) hkv (optOK_untagged kt 1) (by decide) (by decide) wk hpk h
  unfold entryBody at hlen hfuel ⊢
  rw [hpk] at hlen hfuel ⊢
  have hz : Spec.Protobuf.zeroFields (entryF kt vt)
      = .cons (Spec.Protobuf.zeroOf kt) (.cons (Spec.Protobuf.zeroOf vt) .nil) := rfl
  cases hpv : payloadM true vt { number := 2 } val with
  | none =>
    rw [hpv] at hlen hfuel
    simp only [entryRecs, optRec, List.append_nil, encRecs_cons, encRecs_nil, List.length_append, List.length_nil,
      Nat.add_zero] at hlen hfuel ⊢
    have hk2 := encRec_length_ge_two _ (hkok hlen)
    obtain ⟨f, rfl⟩ : ∃ f, fuel = f + 3 := ⟨fuel - 3, by omega⟩
    refine ⟨Spec.Protobuf.zeroOf vt, ?_, absent_agrM vt _ val true hvv hne hvs hvm hpv⟩
    apply decodeMsg_of _ _ [(1, wk)] _ _ (f + 2)
    · have := parse_encRecs_len [(1, wk)] (by intro r hr; simp only [List.mem_singleton] at hr; subst hr; exact hkok hlen)
      simpa using this
    · rw [decodeRecs_stepM (f + 1) _ 1 wk [] _ 0 _ kt (findField_entry_key kt vt) (keyTy_tyOKM kt hk)
        (keyTy_notSlice kt hk) (keyTy_notMap kt hk), hd, hu, hdk]
      simp [hz, hw, valsSet, decodeRecs]
  | some wv =>
    rw [hpv] at hlen hfuel
    simp only [entryRecs, optRec, List.singleton_append, encRecs_cons, encRecs_nil, List.length_append,
      List.length_nil, Nat.add_zero, List.append_nil] at hlen hfuel ⊢
    have hk2 := encRec_length_ge_two _ (hkok (by omega))
    have hvok : RecOK (2, wv) :=
      payload_okM vt _ val true 2 hvt hvv (optOK_untagged vt 2) (by decide) (by decide) wv hpv (by omega)
    obtain ⟨f, rfl⟩ : ∃ f, fuel = f + 3 := ⟨fuel - 3, by omega⟩
    obtain ⟨v', hdv, hagr⟩ := IH wv f hpv (by omega) (by omega)
    refine ⟨wrapPtr vt v', ?_, hagr⟩
    apply decodeMsg_of _ _ [(1, wk), (2, wv)] _ _ (f + 2)
    · have := parse_encRecs_len [(1, wk), (2, wv)] (by
        intro r hr
        simp only [List.mem_cons, List.mem_singleton, List.not_mem_nil, or_false] at hr
        rcases hr with rfl | rfl
        · exact hkok (by omega)
        · exact hvok)
      simpa using this
    · rw [decodeRecs_stepM (f + 1) _ 1 wk _ _ 0 _ kt (findField_entry_key kt vt) (keyTy_tyOKM kt hk)
        (keyTy_notSlice kt hk) (keyTy_notMap kt hk), hd, hu, hdk]
      simp only [Option.bind_some, hz, hw, valsSet]
      rw [decodeRecs_stepM f _ 2 wv [] _ 1 _ vt (findField_entry_val kt vt) hvt hvs hvm]
      simp only [valsGet, hdv, Option.bind_some, valsSet]
      cases f with
      | zero => have := encRec_length_pos (2, wv); omega
      | succ f => simp [decodeRecs]

/-! ## the entries of one map field -/

/-- the entry records of a map field, read by the reference decoder: the pairs accumulate in the slot in order (keys
pairwise distinct under `Val.show`, and distinct from the keys already there) -/
theorem decode_entries (fsAll : Fields) (kt vt : Ty) (o : FieldOpt) (num : Nat) (pre r : Vals)
    (hff : findField fsAll num = some (pre.length, o, .map kt vt))
    (hstep : ∀ key val, hasTypeM kt key = true → hasTypeM vt val = true → valOKM vt val = true → ∀ fuel,
      (entryBody kt vt key val).length < 2 ^ 64 → 2 * (entryBody kt vt key val).length ≤ fuel →
      ∃ v', decodeMsg fuel (entryF kt vt) (entryBody kt vt key val) (Spec.Protobuf.zeroFields (entryF kt vt))
          = some (.cons key (.cons v' .nil)) ∧ AgrM vt v' val) :
    ∀ (kvs : Vals) (acc : List (Val × Val)) (fuel : Nat), hasTypeMapM kt vt kvs = true → valOKMapM vt kvs = true →
      keysDistinct kvs = true → (∀ p ∈ acc, keysDistinct.allFresh p.1 kvs = true) →
      (encRecs (pairRecsM num kt vt kvs)).length < 2 ^ 64 →
      2 * (encRecs (pairRecsM num kt vt kvs)).length + 1 ≤ fuel →
      ∃ ds, decodeRecs fuel fsAll (pairRecsM num kt vt kvs) (vapp pre (.cons (accMap acc) r))
          = some (vapp pre (.cons (accMap (acc ++ ds)) r)) ∧ MapAgr vt ds kvs
  | .nil, acc, fuel, _, _, _, _, _, hfuel => by
    obtain ⟨f, rfl⟩ : ∃ f, fuel = f + 1 := ⟨fuel - 1, by omega⟩
    exact ⟨[], by simp [pairRecsM, pairRecs, decodeRecs], trivial⟩
  | .cons _ .nil, _, _, hv, _, _, _, _, _ => by simp [hasTypeMapM] at hv
  | .cons key (.cons val rest), acc, fuel, hv, hne, hkd, hacc, hlen, hfuel => by
    simp only [hasTypeMapM, Bool.and_eq_true] at hv
    simp only [valOKMapM, Bool.and_eq_true] at hne
    simp only [keysDistinct, Bool.and_eq_true] at hkd
    have hpr : pairRecsM num kt vt (.cons key (.cons val rest))
        = (num, .len (entryBody kt vt key val)) :: pairRecsM num kt vt rest := rfl
    rw [hpr] at hlen hfuel ⊢
    simp only [encRecs_cons, List.length_append] at hlen hfuel
    have hr1 := encRec_len_length num (entryBody kt vt key val)
    obtain ⟨f, rfl⟩ : ∃ f, fuel = f + 1 := ⟨fuel - 1, by omega⟩
    obtain ⟨v', hone, hagr⟩ := hstep key val hv.1.1 hv.1.2 hne.1 f (by omega) (by omega)
    have hfresh : ∀ p ∈ acc, (p.1.show == key.show) = false := by
      intro p hp
      have := hacc p hp
      rw [allFresh_cons, Bool.and_eq_true] at this
      simpa using this.1
    have hacc' : ∀ p ∈ acc ++ [(key, v')], keysDistinct.allFresh p.1 rest = true := by
      intro p hp
      rcases List.mem_append.mp hp with hp | hp
      · have := hacc p hp
        rw [allFresh_cons, Bool.and_eq_true] at this
        exact this.2
      · simp only [List.mem_singleton] at hp
        subst hp
        exact hkd.1
    obtain ⟨ds, hdec, hl⟩ := decode_entries fsAll kt vt o num pre r hff hstep rest (acc ++ [(key, v')]) f hv.2 hne.2
      hkd.2 hacc' (by omega) (by omega)
    refine ⟨(key, v') :: ds, ?_, ⟨rfl, hagr, hl⟩⟩
    rw [decodeRecs_step_map f fsAll num _ _ _ _ o kt vt hff, hone]
    simp only [Option.bind_some, valsGet_vapp, valsSet_vapp, valsGet, accMap_cur]
    rw [mapPut_fresh acc key v' hfresh, accMap_snoc]
    rw [List.append_assoc] at hdec
    exact hdec

/-! ## repeated fields (copy of `decode_elems` on `tyOKM`) -/

theorem decode_elemsM (fsAll : Fields) (e : Ty) (o : FieldOpt) (num : Nat) (W : Val → WireVal) (pre r : Vals)
    (hff : findField fsAll num = some (pre.length, o, .slice e)) (hty : tyOKM (.slice e) = true)
    (hstep : ∀ v, hasTypeM e v = true → valOKM e v = true → ∀ fuel, (encRec (num, W v)).length < 2 ^ 64 →
      2 * (encRec (num, W v)).length ≤ fuel + 1 →
      ∃ v', decodeOne fuel e o (W v) (Spec.Protobuf.zeroOf e) = some v' ∧ canonical e v' = canonical e v) :
    ∀ (es : Vals) (acc : List Val) (fuel : Nat), hasTypeListM e es = true → valOKListM e es = true →
      (encRecs (listRecs (fun v => (num, W v)) es)).length < 2 ^ 64 →
      2 * (encRecs (listRecs (fun v => (num, W v)) es)).length + 1 ≤ fuel →
      ∃ ds, decodeRecs fuel fsAll (listRecs (fun v => (num, W v)) es) (vapp pre (.cons (accVal acc) r))
          = some (vapp pre (.cons (accVal (acc ++ ds)) r)) ∧ ListAgr e ds es
  | .nil, acc, fuel, _, _, _, hfuel => by
    obtain ⟨f, rfl⟩ : ∃ f, fuel = f + 1 := ⟨fuel - 1, by omega⟩
    exact ⟨[], by simp [listRecs, decodeRecs], trivial⟩
  | .cons v es, acc, fuel, hv, hne, hlen, hfuel => by
    simp only [hasTypeListM, Bool.and_eq_true] at hv
    simp only [valOKListM, Bool.and_eq_true] at hne
    simp only [listRecs, encRecs_cons, List.length_append] at hlen hfuel ⊢
    have hr1 := encRec_length_pos (num, W v)
    obtain ⟨f, rfl⟩ : ∃ f, fuel = f + 1 := ⟨fuel - 1, by omega⟩
    obtain ⟨v', hone, hagr⟩ := hstep v hv.1 hne.1 f (by omega) (by omega)
    obtain ⟨ds, hdec, hl⟩ := decode_elemsM fsAll e o num W pre r hff hty hstep es (acc ++ [v']) f hv.2 hne.2
      (by omega) (by omega)
    refine ⟨v' :: ds, ?_, ⟨hagr, hl⟩⟩
    rw [decodeRecs_step_repM f fsAll num _ _ _ _ o e hff hty, hone]
    simp only [Option.bind_some, valsGet_vapp, valsSet_vapp]
    rw [List.append_assoc] at hdec
    cases acc with
    | nil => simpa only [accVal, List.nil_append, List.cons_append, accVal_snoc] using hdec
    | cons a l => simpa only [accVal, toList_ofList, List.cons_append, List.nil_append, accVal_snoc] using hdec

/-- repeated or map field: filled by the second pass -/
def isRep (t : Ty) : Bool := isSlice t || isMap t

/-- state after the first pass (non-repeated fields decoded, repeated and map fields still nil) -/
def Rel1M : Fields → Vals → Vals → Prop
  | .nil, .nil, .nil => True
  | .cons _ _ _ t rest, .cons u us, .cons v vs =>
    (if isRep t = true then u = .nil else AgrM t u v) ∧ Rel1M rest us vs
  | _, _, _ => False

theorem allRecordsM_len (wz : Bool) (fs : Fields) (vs : Vals) :
    (encRecs (allRecordsM wz fs vs)).length
      = (encRecs (recordsOfM wz 1 fs vs)).length + (encRecs (recordsRM 1 fs vs)).length := by
  simp [allRecordsM, encRecs_append]

/-! ## the mutual induction over the type -/

mutual
theorem decode_oneM (t : Ty) (o : FieldOpt) (v : Val) (wz : Bool) (fuel num : Nat)
    (ht : tyOKM t = true) (hns : isSlice t = false) (hnm : isMap t = false) (hv : hasTypeM t v = true)
    (hne : valOKM t v = true) (ho : optOK t o = true) (w : WireVal) (hp : payloadM wz t o v = some w)
    (hlen : (encRec (num, w)).length < 2 ^ 64) (hfuel : 2 * (encRec (num, w)).length ≤ fuel + 1) :
    ∃ v', decodeOne fuel (deref t) o w (unwrapPtr t (Spec.Protobuf.zeroOf t)) = some v'
      ∧ AgrM t (wrapPtr t v') v := by
  by_cases hptr : isPtr t = true
  · cases t <;> simp only [isPtr] at hptr <;> try (exact absurd hptr (by decide))
    rename_i t'
    simp only [tyOKM, Bool.and_eq_true] at ht
    have ho' : optOK t' o = true := by
      cases t' <;> simp_all [optOK, ptrTarget]
    have hnm' : isMap t' = false := by
      cases t' <;> simp_all [isMap, ptrTarget]
    obtain ⟨hd, hu, hw⟩ := base_plumbingM t' ht.2 (ptrTarget_notPtr t' ht.1)
    cases v <;> simp only [hasTypeM] at hv <;> try (exact absurd hv (by decide))
    case nil => simp [payloadM] at hp
    case ptr v0 =>
      simp only [payloadM] at hp
      simp only [valOKM, Bool.and_eq_true] at hne
      obtain ⟨v', hdec, hagr⟩ := decode_oneM t' o v0 true fuel num ht.2 (ptrTarget_notSlice t' ht.1) hnm' hv hne.2 ho'
        w hp hlen hfuel
      rw [hd, hu] at hdec
      rw [hw] at hagr
      refine ⟨v', ?_, ?_⟩
      · simp only [deref, unwrapPtr, Spec.Protobuf.zeroOf, hd]
        exact hdec
      · simp only [wrapPtr, hw]
        exact AgrM.ptr hagr
  have hnp : isPtr t = false := by simpa using hptr
  obtain ⟨hd, hu, hw⟩ := base_plumbingM t ht hnp
  rw [hd, hu]
  simp only [hw]
  by_cases hs : isStructTy t = true
  · cases t <;> simp only [isStructTy] at hs <;> try (exact absurd hs (by decide))
    rename_i fs
    cases v <;> simp only [hasTypeM] at hv <;> try (exact absurd hv (by decide))
    rename_i vs
    simp only [tyOKM, Bool.and_eq_true, decide_eq_true_eq] at ht
    simp only [valOKM] at hne
    simp only [payloadM] at hp
    split at hp
    · cases hp
    · cases hp
      change (encRec (num, .len (encRecs (allRecordsM wz fs vs)))).length < 2 ^ 64 at hlen
      change 2 * (encRec (num, .len (encRecs (allRecordsM wz fs vs)))).length ≤ fuel + 1 at hfuel
      change ∃ v', decodeOne fuel (.struct fs) o (.len (encRecs (allRecordsM wz fs vs))) _ = some v' ∧ _
      have hl := encRec_len_length num (encRecs (allRecordsM wz fs vs))
      have hal := allRecordsM_len wz fs vs
      obtain ⟨f, rfl⟩ : ∃ f, fuel = f + 2 := ⟨fuel - 2, by omega⟩
      have hbody : (encRecs (allRecordsM wz fs vs)).length < 2 ^ 64 := by omega
      obtain ⟨us, hdec1, hrel⟩ := decode_fieldsM fs fs vs wz .nil [] f 1 rfl ht.1 hv hne ht.2 (by simp)
        (by intro n _; rfl) (by omega) (by omega)
      simp only [vapp] at hdec1
      have hr1 := length_le_encRecs (recordsOfM wz 1 fs vs)
      obtain ⟨ws, hdec2, hagr⟩ := decode_fieldsRM fs fs vs us .nil [] (f - (recordsOfM wz 1 fs vs).length) 1 rfl
        ht.1 hv hne ht.2 (by simp) (by intro n _; rfl) hrel (by omega) (by omega)
      simp only [vapp] at hdec2
      have hdec : decodeRecs f fs (allRecordsM wz fs vs) (Spec.Protobuf.zeroFields fs) = some ws := by
        rw [allRecordsM, decodeRecs_append fs _ _ f _ us hdec1, hdec2]
      refine ⟨.struct ws, ?_, AgrM.struct hagr⟩
      simp only [Spec.Protobuf.zeroOf, decodeOne]
      have hparse := parse_encRecs_len _ (allRecordsM_ok fs vs wz ht.1 hv hbody)
      rw [decodeMsg_of fs _ _ _ ws f hparse hdec]
      rfl
  · have hs' : isStructTy t = false := by simpa using hs
    have := encRec_length_pos (num, w)
    obtain ⟨f, rfl⟩ : ∃ f, fuel = f + 1 := ⟨fuel - 1, by omega⟩
    have hsc : isScalarTy t = true := by simp [isScalarTy, hs', hnp, hns, hnm]
    rw [scalar_payload _ _ _ _ hsc] at hp
    obtain ⟨v', hdec, hagr⟩ := decode_scalar t o v wz (Spec.Protobuf.zeroOf t) f hs' hnp hns (scalar_tyOK t hsc ▸ ht)
      (scalar_hasType t v hsc ▸ hv) ho w hp
    exact ⟨v', hdec, hagr.1⟩
/-- first pass: the records of the non-repeated fields -/
theorem decode_fieldsM (fsAll : Fields) (fs : Fields) (vs : Vals) (wz : Bool) (pre : Vals) (seen : List Nat)
    (fuel pos : Nat) (hpos : pos = pre.length + 1)
    (hf : fieldsOKM pos fs = true) (hv : hasTypesM fs vs = true) (hne : valsOKM fs vs = true)
    (hnd : (fieldNums pos fs).Nodup) (hseen : ∀ n ∈ fieldNums pos fs, n ∉ seen)
    (hfind : ∀ num, num ∉ seen → findField fsAll num = findField.go num fs pre.length)
    (hlen : (encRecs (recordsOfM wz pos fs vs)).length < 2 ^ 64)
    (hfuel : 2 * (encRecs (recordsOfM wz pos fs vs)).length + 1 ≤ fuel) :
    ∃ us, decodeRecs fuel fsAll (recordsOfM wz pos fs vs) (vapp pre (Spec.Protobuf.zeroFields fs))
        = some (vapp pre us) ∧ Rel1M fs us vs := by
  cases fs with
  | nil =>
    cases vs with
    | cons => simp [hasTypesM] at hv
    | nil =>
      obtain ⟨f, rfl⟩ : ∃ f, fuel = f + 1 := ⟨fuel - 1, by omega⟩
      exact ⟨.nil, by simp [recordsOfM, decodeRecs, Spec.Protobuf.zeroFields], trivial⟩
  | cons name tag emb t rest =>
    cases vs with
    | nil => simp [hasTypesM] at hv
    | cons v vs =>
      simp only [fieldsOKM, Bool.and_eq_true] at hf
      simp only [hasTypesM, Bool.and_eq_true] at hv
      simp only [valsOKM, Bool.and_eq_true] at hne
      obtain ⟨⟨hta, hty⟩, hrest⟩ := hf
      simp only [fieldNums, List.nodup_cons] at hnd
      simp only [fieldNums, List.mem_cons, forall_eq_or_imp] at hseen
      have hfind' : ∀ (x : Val) (n : Nat), n ∉ (fieldOpt pos tag).number :: seen →
          findField fsAll n = findField.go n rest (vsnoc pre x).length := by
        intro x n hn
        simp only [List.mem_cons, not_or] at hn
        rw [hfind n hn.2, findField_go_cons, vsnoc_length, ← hpos, if_neg (fun e => hn.1 e.symm)]
      have hseen' : ∀ n ∈ fieldNums (pos + 1) rest, n ∉ (fieldOpt pos tag).number :: seen := by
        intro n hn
        simp only [List.mem_cons, not_or]
        exact ⟨fun e => hnd.1 (e ▸ hn), hseen.2 n hn⟩
      have hpos' : ∀ x : Val, pos + 1 = (vsnoc pre x).length + 1 := by intro x; rw [vsnoc_length, hpos]
      simp only [Spec.Protobuf.zeroFields]
      by_cases hmp : isMap t = true
      · -- a map field: nothing in this pass, the value stays nil
        cases t <;> simp only [isMap] at hmp <;> try (exact absurd hmp (by decide))
        rename_i kt vt
        rw [recordsOfM_map] at hlen hfuel ⊢
        obtain ⟨us, hdec, hrel⟩ := decode_fieldsM fsAll rest vs wz (vsnoc pre .nil) (_ :: seen) fuel (pos + 1)
          (hpos' _) hrest hv.2 hne.2 hnd.2 hseen' (hfind' _) hlen hfuel
        refine ⟨.cons .nil us, ?_, ?_⟩
        · rw [vapp_vsnoc, vapp_vsnoc] at hdec
          simpa only [Spec.Protobuf.zeroOf] using hdec
        · simp only [Rel1M, isRep, isMap, Bool.or_true, if_true]; exact ⟨trivial, hrel⟩
      have hnm : isMap t = false := by simpa using hmp
      rw [tagAgreeM_notMap _ _ _ hnm] at hta
      have hnum := tagAgree_num hta
      have hopt := tagAgree_optOK hta
      by_cases hsl : isSlice t = true
      · -- a repeated field: nothing in this pass, the value stays nil
        cases t <;> simp only [isSlice] at hsl <;> try (exact absurd hsl (by decide))
        rename_i e
        rw [recordsOfM_slice] at hlen hfuel ⊢
        obtain ⟨us, hdec, hrel⟩ := decode_fieldsM fsAll rest vs wz (vsnoc pre .nil) (_ :: seen) fuel (pos + 1)
          (hpos' _) hrest hv.2 hne.2 hnd.2 hseen' (hfind' _) hlen hfuel
        refine ⟨.cons .nil us, ?_, ?_⟩
        · rw [vapp_vsnoc, vapp_vsnoc] at hdec
          simpa only [Spec.Protobuf.zeroOf] using hdec
        · simp only [Rel1M, isRep, isSlice, Bool.true_or, if_true]; exact ⟨trivial, hrel⟩
      have hns : isSlice t = false := by simpa using hsl
      have hnr : isRep t = false := by simp [isRep, hns, hnm]
      simp only [recordsOfM] at hlen hfuel ⊢
      cases hp : payloadM wz t (fieldOpt pos tag) v with
      | none =>
        rw [hp] at hlen hfuel
        simp only at hlen hfuel ⊢
        have hz := absent_agrM t _ v wz hv.1 hne.1 hns hnm hp
        obtain ⟨us, hdec, hrel⟩ := decode_fieldsM fsAll rest vs wz (vsnoc pre (Spec.Protobuf.zeroOf t)) (_ :: seen) fuel
          (pos + 1) (hpos' _) hrest hv.2 hne.2 hnd.2 hseen' (hfind' _) hlen hfuel
        refine ⟨.cons (Spec.Protobuf.zeroOf t) us, ?_, ?_⟩
        · rw [vapp_vsnoc, vapp_vsnoc] at hdec
          exact hdec
        · simp only [Rel1M, hnr, Bool.false_eq_true, if_false]; exact ⟨hz, hrel⟩
      | some w =>
        rw [hp] at hlen hfuel
        simp only [encRecs_cons, List.length_append] at hlen hfuel ⊢
        have hr1 := encRec_length_pos ((fieldOpt pos tag).number, w)
        obtain ⟨f, rfl⟩ : ∃ f, fuel = f + 1 := ⟨fuel - 1, by omega⟩
        have hff : findField fsAll (fieldOpt pos tag).number = some (pre.length, fieldOpt pos tag, t) := by
          rw [hfind _ hseen.1, findField_go_cons, ← hpos, if_pos rfl]
        obtain ⟨v', hone, hagr1⟩ := decode_oneM t (fieldOpt pos tag) v wz f (fieldOpt pos tag).number hty hns hnm hv.1
          hne.1 hopt w hp (by omega) (by omega)
        obtain ⟨us, hdec, hrel⟩ := decode_fieldsM fsAll rest vs false (vsnoc pre (wrapPtr t v')) (_ :: seen) f (pos + 1)
          (hpos' _) hrest hv.2 hne.2 hnd.2 hseen' (hfind' _) (by omega) (by omega)
        refine ⟨.cons (wrapPtr t v') us, ?_, ?_⟩
        · rw [decodeRecs_stepM f fsAll _ w _ _ _ _ t hff hty hns hnm, valsGet_vapp, hone]
          simp only [Option.bind_some, valsSet_vapp]
          rw [vapp_vsnoc, vapp_vsnoc] at hdec
          exact hdec
        · simp only [Rel1M, hnr, Bool.false_eq_true, if_false]; exact ⟨hagr1, hrel⟩
/-- second pass: the records of the repeated and map fields, starting from the state the first pass left -/
theorem decode_fieldsRM (fsAll : Fields) (fs : Fields) (vs us : Vals) (pre : Vals) (seen : List Nat)
    (fuel pos : Nat) (hpos : pos = pre.length + 1)
    (hf : fieldsOKM pos fs = true) (hv : hasTypesM fs vs = true) (hne : valsOKM fs vs = true)
    (hnd : (fieldNums pos fs).Nodup) (hseen : ∀ n ∈ fieldNums pos fs, n ∉ seen)
    (hfind : ∀ num, num ∉ seen → findField fsAll num = findField.go num fs pre.length)
    (hrel : Rel1M fs us vs)
    (hlen : (encRecs (recordsRM pos fs vs)).length < 2 ^ 64)
    (hfuel : 2 * (encRecs (recordsRM pos fs vs)).length + 1 ≤ fuel) :
    ∃ ws, decodeRecs fuel fsAll (recordsRM pos fs vs) (vapp pre us) = some (vapp pre ws) ∧ AgrFM fs ws vs := by
  cases fs with
  | nil =>
    cases vs with
    | cons => simp [hasTypesM] at hv
    | nil =>
      cases us with
      | cons => simp [Rel1M] at hrel
      | nil =>
        obtain ⟨f, rfl⟩ : ∃ f, fuel = f + 1 := ⟨fuel - 1, by omega⟩
        exact ⟨.nil, by simp [recordsRM, decodeRecs], AgrFM.rfl' _ _⟩
  | cons name tag emb t rest =>
    cases vs with
    | nil => simp [hasTypesM] at hv
    | cons v vs =>
      cases us with
      | nil => simp [Rel1M] at hrel
      | cons u us =>
      simp only [fieldsOKM, Bool.and_eq_true] at hf
      simp only [hasTypesM, Bool.and_eq_true] at hv
      simp only [valsOKM, Bool.and_eq_true] at hne
      simp only [Rel1M] at hrel
      obtain ⟨⟨hta, hty⟩, hrest⟩ := hf
      simp only [fieldNums, List.nodup_cons] at hnd
      simp only [fieldNums, List.mem_cons, forall_eq_or_imp] at hseen
      have hfind' : ∀ (x : Val) (n : Nat), n ∉ (fieldOpt pos tag).number :: seen →
          findField fsAll n = findField.go n rest (vsnoc pre x).length := by
        intro x n hn
        simp only [List.mem_cons, not_or] at hn
        rw [hfind n hn.2, findField_go_cons, vsnoc_length, ← hpos, if_neg (fun e => hn.1 e.symm)]
      have hseen' : ∀ n ∈ fieldNums (pos + 1) rest, n ∉ (fieldOpt pos tag).number :: seen := by
        intro n hn
        simp only [List.mem_cons, not_or]
        exact ⟨fun e => hnd.1 (e ▸ hn), hseen.2 n hn⟩
      have hpos' : ∀ x : Val, pos + 1 = (vsnoc pre x).length + 1 := by intro x; rw [vsnoc_length, hpos]
      by_cases hmp : isMap t = true
      · cases t <;> simp only [isMap] at hmp <;> try (exact absurd hmp (by decide))
        rename_i kt vt
        simp only [isRep, isMap, Bool.or_true, if_true] at hrel
        obtain ⟨hu, hrel⟩ := hrel
        subst hu
        simp only [tagAgreeM, isMap, if_true] at hta
        have hnum := tagAgreeMap_num hta
        obtain ⟨hk, hvs, hvm, hvt⟩ := mapTy_parts hty
        cases v <;> simp only [hasTypeM] at hv <;> try (exact absurd hv.1 (by decide))
        rename_i kvs
        simp only [valOKM, Bool.and_eq_true] at hne
        obtain ⟨⟨⟨hnonempty, hdist⟩, hvals⟩, hnerest⟩ := hne
        have hmr : mapRecsM (fieldOpt pos tag).number kt vt kvs = pairRecsM (fieldOpt pos tag).number kt vt kvs := by
          cases kvs with
          | nil => simp [nonEmptyVals] at hnonempty
          | cons a r =>
            cases r with
            | nil => simp [hasTypeMapM] at hv
            | cons b r => rfl
        rw [recordsRM_map, hmr] at hlen hfuel ⊢
        simp only [encRecs_append, List.length_append] at hlen hfuel
        have hff : findField fsAll (fieldOpt pos tag).number = some (pre.length, fieldOpt pos tag, .map kt vt) := by
          rw [hfind _ hseen.1, findField_go_cons, ← hpos, if_pos rfl]
        have hstep : ∀ key val, hasTypeM kt key = true → hasTypeM vt val = true → valOKM vt val = true → ∀ fuel,
            (entryBody kt vt key val).length < 2 ^ 64 → 2 * (entryBody kt vt key val).length ≤ fuel →
            ∃ v', decodeMsg fuel (entryF kt vt) (entryBody kt vt key val) (Spec.Protobuf.zeroFields (entryF kt vt))
                = some (.cons key (.cons v' .nil)) ∧ AgrM vt v' val := by
          intro key val hkv hvv hvok fuel hl1 hl2
          exact decode_entry kt vt hk hvt hvs hvm key val hkv hvv hvok
            (fun w fuel hpw hwl hwf => decode_oneM vt { number := 2 } val true fuel 2 hvt hvs hvm hvv hvok
              (optOK_untagged vt 2) w hpw hwl hwf) fuel hl1 hl2
        have hb1 := length_le_encRecs (pairRecsM (fieldOpt pos tag).number kt vt kvs)
        obtain ⟨ds, hdecE, hmagr⟩ := decode_entries fsAll kt vt (fieldOpt pos tag) (fieldOpt pos tag).number pre us hff
          hstep kvs [] fuel hv.1 hvals hdist (by intro p hp; simp at hp) (by omega) (by omega)
        simp only [accMap, List.nil_append] at hdecE
        obtain ⟨ws, hdec, hagr⟩ := decode_fieldsRM fsAll rest vs us (vsnoc pre (accMap ds)) (_ :: seen)
          (fuel - (pairRecsM (fieldOpt pos tag).number kt vt kvs).length) (pos + 1)
          (hpos' _) hrest hv.2 hnerest hnd.2 hseen' (hfind' _) hrel (by omega) (by omega)
        refine ⟨.cons (accMap ds) ws, ?_, AgrFM.cons (map_agr kt vt ds kvs hmagr hnonempty) hagr⟩
        rw [decodeRecs_append fsAll _ _ fuel _ _ hdecE]
        rw [vapp_vsnoc, vapp_vsnoc] at hdec
        exact hdec
      have hnm : isMap t = false := by simpa using hmp
      rw [tagAgreeM_notMap _ _ _ hnm] at hta
      have hnum := tagAgree_num hta
      have hopt := tagAgree_optOK hta
      by_cases hsl : isSlice t = true
      · cases t <;> simp only [isSlice] at hsl <;> try (exact absurd hsl (by decide))
        rename_i e
        simp only [isRep, isSlice, Bool.true_or, if_true] at hrel
        obtain ⟨hu, hrel⟩ := hrel
        subst hu
        have hty' := hty
        simp only [tyOKM, elemTy, Bool.and_eq_true, Bool.not_eq_true'] at hty'
        simp only [optOK, Bool.and_eq_true, Bool.not_eq_true'] at hopt
        obtain ⟨⟨⟨hep, hes⟩, hem⟩, hety⟩ := hty'
        cases v <;> simp only [hasTypeM] at hv <;> try (exact absurd hv.1 (by decide))
        case nil =>
          rw [recordsRM_slice_nil] at hlen hfuel ⊢
          obtain ⟨ws, hdec, hagr⟩ := decode_fieldsRM fsAll rest vs us (vsnoc pre .nil) (_ :: seen) fuel (pos + 1)
            (hpos' _) hrest hv.2 hne.2 hnd.2 hseen' (hfind' _) hrel hlen hfuel
          refine ⟨.cons .nil ws, ?_, AgrFM.cons (AgrM.rfl' _ _) hagr⟩
          rw [vapp_vsnoc, vapp_vsnoc] at hdec
          exact hdec
        case list es =>
          simp only [valOKM] at hne
          simp only [recordsRM, encRecs_append, List.length_append] at hlen hfuel ⊢
          have hff : findField fsAll (fieldOpt pos tag).number = some (pre.length, fieldOpt pos tag, .slice e) := by
            rw [hfind _ hseen.1, findField_go_cons, ← hpos, if_pos rfl]
          obtain ⟨hd, hun, hwr⟩ := base_plumbingM e hety hep
          have hstep : ∀ x, hasTypeM e x = true → valOKM e x = true → ∀ fuel,
              (encRec ((fieldOpt pos tag).number, (payloadM true e (fieldOpt pos tag) x).getD (.len []))).length < 2 ^ 64 →
              2 * (encRec ((fieldOpt pos tag).number, (payloadM true e (fieldOpt pos tag) x).getD (.len []))).length
                ≤ fuel + 1 →
              ∃ x', decodeOne fuel e (fieldOpt pos tag) ((payloadM true e (fieldOpt pos tag) x).getD (.len []))
                  (Spec.Protobuf.zeroOf e) = some x' ∧ canonical e x' = canonical e x := by
            intro x hx hxne fuel hl1 hl2
            cases hpx : payloadM true e (fieldOpt pos tag) x with
            | some w =>
              rw [hpx, Option.getD_some] at hl1 hl2
              obtain ⟨x', hone, hagr⟩ := decode_oneM e (fieldOpt pos tag) x true fuel (fieldOpt pos tag).number hety hes hem
                hx hxne (optOK_plain e _ hopt.1 hopt.2 hep) w hpx hl1 hl2
              rw [hd, hun] at hone
              rw [hwr] at hagr
              exact ⟨x', by simpa using hone, hagr⟩
            | none =>
              rw [hpx, Option.getD_none] at hl1 hl2
              have hz := absent_agrM e _ x true hx hxne hes hem hpx
              have hst : isStructTy e = true := by
                cases hst : isStructTy e with
                | true => rfl
                | false => exact absurd hpx (payloadM_wz_scalar e _ x hety hx hst hep hes hem)
              cases e <;> simp only [isStructTy] at hst <;> try (exact absurd hst (by decide))
              rename_i efs
              have hl3 := encRec_len_length (fieldOpt pos tag).number []
              obtain ⟨f, rfl⟩ : ∃ f, fuel = f + 3 := ⟨fuel - 3, by omega⟩
              exact ⟨_, decodeOne_empty efs (fieldOpt pos tag) f, by simpa [Spec.Protobuf.zeroOf, AgrM] using hz⟩
          have hb1 := length_le_encRecs (listRecs (fun x => ((fieldOpt pos tag).number,
            (payloadM true e (fieldOpt pos tag) x).getD (.len []))) es)
          obtain ⟨ds, hdecE, hlagr⟩ := decode_elemsM fsAll e (fieldOpt pos tag) (fieldOpt pos tag).number
            (fun x => (payloadM true e (fieldOpt pos tag) x).getD (.len [])) pre us hff hty hstep es [] fuel hv.1 hne.1
            (by omega) (by omega)
          simp only [accVal, List.nil_append] at hdecE
          obtain ⟨ws, hdec, hagr⟩ := decode_fieldsRM fsAll rest vs us (vsnoc pre (accVal ds)) (_ :: seen)
            (fuel - (listRecs (fun x => ((fieldOpt pos tag).number,
              (payloadM true e (fieldOpt pos tag) x).getD (.len []))) es).length) (pos + 1)
            (hpos' _) hrest hv.2 hne.2 hnd.2 hseen' (hfind' _) hrel (by omega) (by omega)
          refine ⟨.cons (accVal ds) ws, ?_, AgrFM.cons (slice_agr false e ds es hlagr).1 hagr⟩
          rw [decodeRecs_append fsAll _ _ fuel _ _ hdecE]
          rw [vapp_vsnoc, vapp_vsnoc] at hdec
          exact hdec
      have hns : isSlice t = false := by simpa using hsl
      have hnr : isRep t = false := by simp [isRep, hns, hnm]
      simp only [hnr, Bool.false_eq_true, if_false] at hrel
      rw [recordsRM_plain _ _ _ _ _ _ _ _ hns hnm] at hlen hfuel ⊢
      obtain ⟨ws, hdec, hagr⟩ := decode_fieldsRM fsAll rest vs us (vsnoc pre u) (_ :: seen) fuel (pos + 1)
        (hpos' _) hrest hv.2 hne.2 hnd.2 hseen' (hfind' _) hrel.2 hlen hfuel
      refine ⟨.cons u ws, ?_, AgrFM.cons hrel.1 hagr⟩
      rw [vapp_vsnoc, vapp_vsnoc] at hdec
      exact hdec
end

/-! ## Part 2: the statements -/

/-- the reference decoder run on the reference encoding of the records of a message value -/
theorem decodeMsg_recordsM (fs : Fields) (vs : Vals) (wz : Bool) (fuel : Nat)
    (hty : tyOKM (.struct fs) = true) (hv : hasTypesM fs vs = true) (hne : valsOKM fs vs = true)
    (hlen : (encRecs (allRecordsM wz fs vs)).length < 2 ^ 64)
    (hfuel : 2 * (encRecs (allRecordsM wz fs vs)).length + 2 ≤ fuel) :
    ∃ ws, decodeMsg fuel fs (encRecs (allRecordsM wz fs vs)) (Spec.Protobuf.zeroFields fs) = some ws
      ∧ AgrFM fs ws vs := by
  simp only [tyOKM, Bool.and_eq_true, decide_eq_true_eq] at hty
  have hal := allRecordsM_len wz fs vs
  obtain ⟨f, rfl⟩ : ∃ f, fuel = f + 1 := ⟨fuel - 1, by omega⟩
  obtain ⟨us, hdec1, hrel⟩ := decode_fieldsM fs fs vs wz .nil [] f 1 rfl hty.1 hv hne hty.2 (by simp)
    (by intro n _; rfl) (by omega) (by omega)
  simp only [vapp] at hdec1
  have hr1 := length_le_encRecs (recordsOfM wz 1 fs vs)
  obtain ⟨ws, hdec2, hagr⟩ := decode_fieldsRM fs fs vs us .nil [] (f - (recordsOfM wz 1 fs vs).length) 1 rfl
    hty.1 hv hne hty.2 (by simp) (by intro n _; rfl) hrel (by omega) (by omega)
  simp only [vapp] at hdec2
  have hdec : decodeRecs f fs (allRecordsM wz fs vs) (Spec.Protobuf.zeroFields fs) = some ws := by
    rw [allRecordsM, decodeRecs_append fs _ _ f _ us hdec1, hdec2]
  exact ⟨ws, decodeMsg_of fs _ _ _ ws f (parse_encRecs_len _ (allRecordsM_ok fs vs wz hty.1 hv hlen)) hdec, hagr⟩

/-- **Part 2 (C12 with map fields), value level** — equality up to `canonical`, as the harness compares.
Universe `tyOKM`: everything `decode_marshal_partial` covers, plus map fields `map[K]V` in any message of the type
(`K` bool / int int32 int64 uint uint32 uint64 / string; `V` scalar, string, `[]byte`, message, `*T` with `T` scalar or
message), tagged or untagged (a `rep` option on the map field is fine).

`_partial`: excluded
  * by `hasTypeM`: nil maps; by `valOKM`: EMPTY maps (both: known class `protoEmptyMapMarker` — the model writes one
    entry with an empty body, which the reference reads as `{zero key: zero value}`), maps with two keys that are equal
    under `Val.show` (not Go values: the keys of a Go map are pairwise distinct), and — as before — a set pointer whose
    pointee writes nothing (class `protoPtrToEmptyEncoding`), also as a map value;
  * NOT excluded: nil pointers as map values (they round-trip: the value part is left out and the entry's value stays
    nil; `Known.hasNilPtrInCollection` over-approximates here), all-default message values, zero keys;
  * as in `decode_marshal_partial`: zigzag/fixed on repeated fields, field numbers ≥ 65536, `[]*T`; not attempted:
    `[]map`, `map[K][]T`, `map[K]map…`, float keys, byte arrays, named types, `RawMessage`. -/
theorem decode_marshal_map_partial (fs : Fields) (v : Val)
    (hty : tyOKM (.struct fs) = true) (hv : hasTypeM (.struct fs) v = true) (hne : valOKM (.struct fs) v = true)
    (hlen : (marshal (.struct fs) v).length < 2 ^ 64) :
    (Spec.Protobuf.decode (.struct fs) (marshal (.struct fs) v)).map (canonical (.struct fs))
      = some (canonical (.struct fs) v) := by
  cases v <;> simp only [hasTypeM] at hv <;> try (exact absurd hv (by decide))
  rename_i vs
  rw [marshal_struct] at hlen ⊢
  have hb := struct_bytesM fs vs { toplevel := true, inline := true } hty hv rfl hlen
  rw [hb] at hlen ⊢
  simp only [valOKM] at hne
  obtain ⟨ws, hdec, hagr⟩ := decodeMsg_recordsM fs vs false
    (4 * (encRecs (allRecordsM false fs vs)).length + 16) hty hv hne hlen (by omega)
  simp only [Spec.Protobuf.decode, deref, hdec, wrapPtr]
  exact congrArg some (AgrM.struct hagr)

/-- the reference decoder's result itself: some value that agrees with the original -/
theorem decode_marshal_map_agr (fs : Fields) (vs : Vals)
    (hty : tyOKM (.struct fs) = true) (hv : hasTypesM fs vs = true) (hne : valsOKM fs vs = true)
    (hlen : (marshal (.struct fs) (.struct vs)).length < 2 ^ 64) :
    ∃ ws, Spec.Protobuf.decode (.struct fs) (marshal (.struct fs) (.struct vs)) = some (.struct ws)
      ∧ AgrFM fs ws vs := by
  rw [marshal_struct] at hlen ⊢
  have hb := struct_bytesM fs vs { toplevel := true, inline := true } hty hv rfl hlen
  rw [hb] at hlen ⊢
  obtain ⟨ws, hdec, hagr⟩ := decodeMsg_recordsM fs vs false
    (4 * (encRecs (allRecordsM false fs vs)).length + 16) hty hv hne hlen (by omega)
  exact ⟨ws, by simp only [Spec.Protobuf.decode, deref, hdec, wrapPtr]; rfl, hagr⟩

/-- **Part 2, message passed by pointer** (`proto.Marshal(&msg)`): same universe and exclusions -/
theorem decode_marshal_map_ptrmsg_partial (fs : Fields) (v : Val)
    (hty : tyOKM (.ptr (.struct fs)) = true) (hv : hasTypeM (.ptr (.struct fs)) (.ptr v) = true)
    (hne : valOKM (.ptr (.struct fs)) (.ptr v) = true)
    (hlen : (marshal (.ptr (.struct fs)) (.ptr v)).length < 2 ^ 64) :
    (Spec.Protobuf.decode (.ptr (.struct fs)) (marshal (.ptr (.struct fs)) (.ptr v))).map
        (canonical (.ptr (.struct fs)))
      = some (canonical (.ptr (.struct fs)) (.ptr v)) := by
  simp only [tyOKM, ptrTarget, Bool.true_and] at hty
  simp only [hasTypeM] at hv
  cases v <;> simp only [hasTypeM] at hv <;> try (exact absurd hv (by decide))
  rename_i vs
  have hm : marshal (.ptr (.struct fs)) (.ptr (.struct vs))
      = encode (.struct (fieldsOf 1 fs)) (.struct vs) { toplevel := true, inline := false, wantzero := true } := by
    simp only [marshal, codecOf, encode]
  rw [hm] at hlen ⊢
  have hb := struct_bytesM fs vs { toplevel := true, inline := false, wantzero := true } (by simpa [tyOKM] using hty)
    hv rfl hlen
  rw [hb] at hlen ⊢
  simp only [valOKM, Bool.and_eq_true] at hne
  obtain ⟨ws, hdec, hagr⟩ := decodeMsg_recordsM fs vs true
    (4 * (encRecs (allRecordsM true fs vs)).length + 16) (by simpa [tyOKM] using hty) hv hne.2 hlen (by omega)
  simp only [Spec.Protobuf.decode, deref, hdec, wrapPtr]
  exact congrArg some (AgrM.ptr (AgrM.struct hagr))

end Enc.Lemmas.ProtoMap
