import Enc.Model.Json.CodecChoiceDec
import Enc.Lemmas.JsonCodecChoiceSeen
/-!
# Facts about the `seen` map of a codec construction, decode side (`DSeen`): the lemmas of JsonCodecChoiceSeen.lean again
(`Evo`: a call never changes or removes a finished struct type and leaves exactly the entries under construction, roots
included, it found; the potential `absentD` / `foreignD`)
-/
namespace Enc.Lemmas.JsonCodecChoiceDecSeen
open Enc.Model.Json.CodecChoice
open Enc.Lemmas.JsonCodecChoiceSeen (filter_length_le filter_length_lt size_pos)

theorem find_set (s : DSeen) (k k' : Key) (e : DEntry) :
    (s.set k e).find k' = if k' = k then some e else s.find k' := by
  simp only [DSeen.set, DSeen.find, List.lookup]
  by_cases h : k' = k
  · subst h; simp
  · have : (k' == k) = false := by simpa using h
    simp [this, h]

theorem find_set_self (s : DSeen) (k : Key) (e : DEntry) : (s.set k e).find k = some e := by
  simp [find_set]

theorem find_set_ne (s : DSeen) (k k' : Key) (e : DEntry) (h : k' ≠ k) : (s.set k e).find k' = s.find k' := by
  simp [find_set, h]

theorem find_erase (s : DSeen) (k k' : Key) :
    (s.erase k).find k' = if k' = k then none else s.find k' := by
  induction s with
  | nil => simp [DSeen.erase, DSeen.find]
  | cons p r ih =>
    obtain ⟨pk, pe⟩ := p
    simp only [DSeen.erase, DSeen.find] at ih ⊢
    by_cases hp : pk = k
    · subst hp
      simp only [List.filter, beq_self_eq_true, Bool.not_true]
      rw [ih]
      by_cases h : k' = pk
      · simp [h]
      · have : (k' == pk) = false := by simpa using h
        simp [List.lookup, this, h]
    · have hpk : (pk == k) = false := by simpa using hp
      simp only [List.filter, hpk, Bool.not_false]
      by_cases h : k' = pk
      · subst h
        simp [List.lookup, hp]
      · have : (k' == pk) = false := by simpa using h
        simp only [List.lookup, this]
        exact ih

/-- what `seen` knows only grows (entries are completed, never removed) -/
def Mono (s s' : DSeen) : Prop := ∀ k, (s.find k).isSome → (s'.find k).isSome

theorem Mono.refl (s : DSeen) : Mono s s := fun _ h => h
theorem Mono.trans {a b c : DSeen} (h1 : Mono a b) (h2 : Mono b c) : Mono a c := fun k h => h2 k (h1 k h)

theorem mono_set (s : DSeen) (k : Key) (e : DEntry) : Mono s (s.set k e) := by
  intro k' h
  rw [find_set]
  by_cases hk : k' = k
  · simp [hk]
  · simpa [hk] using h

/-- registering a named type on the way in and deleting it on the way out leaves everything else in place -/
theorem mono_erase_of_absent (s s' : DSeen) (k : Key) (e : DEntry) (habs : s.find k = none)
    (h : Mono (s.set k e) s') : Mono s (s'.erase k) := by
  intro k' hk'
  rw [find_erase]
  by_cases hk : k' = k
  · subst hk; rw [habs] at hk'; cases hk'
  · simp only [hk, if_false]
    apply h
    rw [find_set_ne _ _ _ _ hk]
    exact hk'

/-! ## How `seen` evolves: a call never changes or removes a finished struct type, and leaves exactly the entries
"under construction" (with their roots) it found -/

def Evo (s s' : DSeen) : Prop :=
  (∀ k fs, s.find k = some (.done fs) → s'.find k = some (.done fs)) ∧
  (∀ k r, s'.find k = some (.building r) ↔ s.find k = some (.building r))

theorem Evo.refl (s : DSeen) : Evo s s := ⟨fun _ _ h => h, fun _ _ => Iff.rfl⟩

theorem Evo.trans {a b c : DSeen} (h1 : Evo a b) (h2 : Evo b c) : Evo a c :=
  ⟨fun k fs h => h2.1 k fs (h1.1 k fs h), fun k r => (h2.2 k r).trans (h1.2 k r)⟩

theorem Evo.mono {s s' : DSeen} (h : Evo s s') : Mono s s' := by
  intro k hk
  cases hf : s.find k with
  | none => simp [hf] at hk
  | some e =>
    cases e with
    | building r => rw [(h.2 k r).mpr hf]; rfl
    | done fs => rw [h.1 k fs hf]; rfl

/-- a named composite type: registered on the way in, deleted on the way out -/
theorem evo_named (s s1 : DSeen) (k r0 : Key) (habs : s.find k = none) (h : Evo (s.set k (.building r0)) s1) :
    Evo s (s1.erase k) := by
  constructor
  · intro k' fs hk'
    have hne : k' ≠ k := by intro e; subst e; rw [habs] at hk'; cases hk'
    rw [find_erase]; simp only [hne, if_false]
    apply h.1
    rw [find_set_ne _ _ _ _ hne]; exact hk'
  · intro k' r
    rw [find_erase]
    by_cases hk : k' = k
    · subst hk; simp [habs]
    · simp only [hk, if_false]
      rw [h.2 k' r, find_set_ne _ _ _ _ hk]

/-- a struct type: registered, then finished -/
theorem evo_struct (s s2 : DSeen) (k r0 : Key) (fs : DL) (habs : s.find k = none) (h : Evo (s.set k (.building r0)) s2) :
    Evo s (s2.set k (.done fs)) := by
  constructor
  · intro k' fs' hk'
    have hne : k' ≠ k := by intro e; subst e; rw [habs] at hk'; cases hk'
    rw [find_set_ne _ _ _ _ hne]
    apply h.1
    rw [find_set_ne _ _ _ _ hne]; exact hk'
  · intro k' r
    by_cases hk : k' = k
    · subst hk; simp [find_set_self, habs]
    · rw [find_set_ne _ _ _ _ hk, h.2 k' r, find_set_ne _ _ _ _ hk]

/-- the second listing: the marker is set to the root and restored -/
theorem evo_relist (s s2 : DSeen) (k r R : Key) (hk : s.find k = some (.building r))
    (h : Evo (s.set k (.building R)) s2) : Evo s (s2.set k (.building r)) := by
  constructor
  · intro k' fs hk'
    have hne : k' ≠ k := by intro e; subst e; rw [hk] at hk'; cases hk'
    rw [find_set_ne _ _ _ _ hne]
    apply h.1
    rw [find_set_ne _ _ _ _ hne]; exact hk'
  · intro k' r'
    by_cases hke : k' = k
    · subst hke
      rw [find_set_self, hk]
    · rw [find_set_ne _ _ _ _ hke, h.2 k' r', find_set_ne _ _ _ _ hke]

/-! ## The potential -/

theorem absent_evo (U : List Key) (s s' : DSeen) (h : Evo s s') : absentD U s' ≤ absentD U s := by
  unfold absentD
  apply filter_length_le
  intro k _ hk
  cases hs : s.find k with
  | none => rfl
  | some e =>
    have := h.mono k (by simp [hs])
    cases hs' : s'.find k with
    | none => simp [hs'] at this
    | some e' => simp [hs'] at hk

theorem absent_set_lt (U : List Key) (s : DSeen) (k : Key) (e : DEntry) (hk : k ∈ U) (habs : s.find k = none) :
    absentD U (s.set k e) < absentD U s := by
  unfold absentD
  apply filter_length_lt _ _ _ _ k hk
  · simp [habs]
  · simp [find_set_self]
  · intro x _ hx
    have := mono_set s k e x
    cases hs : s.find x with
    | none => rfl
    | some e' =>
      have h2 := this (by simp [hs])
      cases hs' : (s.set k e).find x with
      | none => simp [hs'] at h2
      | some _ => simp [hs'] at hx

theorem absent_set_le (U : List Key) (s : DSeen) (k : Key) (e : DEntry) : absentD U (s.set k e) ≤ absentD U s := by
  unfold absentD
  apply filter_length_le
  intro x _ hx
  have := mono_set s k e x
  cases hs : s.find x with
  | none => rfl
  | some e' =>
    have h2 := this (by simp [hs])
    cases hs' : (s.set k e).find x with
    | none => simp [hs'] at h2
    | some _ => simp [hs'] at hx

theorem absent_le (U : List Key) (s : DSeen) : absentD U s ≤ U.length := List.length_filter_le _ _

theorem foreign_le (U : List Key) (s : DSeen) (R : Key) : foreignD U s R ≤ U.length := List.length_filter_le _ _

theorem isForeign_evo (s s' : DSeen) (R k : Key) (h : Evo s s') : isForeignD s' R k = isForeignD s R k := by
  unfold isForeignD
  cases hs : s.find k with
  | none =>
    cases hs' : s'.find k with
    | none => rfl
    | some e =>
      cases e with
      | building r => have := (h.2 k r).mp hs'; rw [hs] at this; cases this
      | done fs => rfl
  | some e =>
    cases e with
    | building r => rw [(h.2 k r).mpr hs]
    | done fs => rw [h.1 k fs hs]

theorem foreign_evo (U : List Key) (s s' : DSeen) (R : Key) (h : Evo s s') : foreignD U s' R = foreignD U s R := by
  unfold foreignD
  have : isForeignD s' R = isForeignD s R := funext fun k => isForeign_evo s s' R k h
  rw [this]

/-- the second listing marks one more struct type under construction with the current root -/
theorem foreign_mark_lt (U : List Key) (s : DSeen) (k r R : Key) (hk : k ∈ U) (hf : s.find k = some (.building r))
    (hne : (r == R) = false) : foreignD U (s.set k (.building R)) R < foreignD U s R := by
  unfold foreignD
  apply filter_length_lt _ _ _ _ k hk
  · have : r ≠ R := by simpa using hne
    simp [isForeignD, hf, this]
  · simp [isForeignD, find_set_self]
  · intro x _ hx
    by_cases hxk : x = k
    · subst hxk; simp [isForeignD, find_set_self] at hx
    · simpa [isForeignD, find_set_ne _ _ _ _ hxk] using hx

end Enc.Lemmas.JsonCodecChoiceDecSeen
