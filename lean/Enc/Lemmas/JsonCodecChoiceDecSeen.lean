import Enc.Model.Json.CodecChoiceDec
import Enc.Lemmas.JsonCodecChoiceSeen
/-!
# Facts about the `seen` map of a codec construction, decode side (`DSeen`): the lemmas of JsonCodecChoiceSeen.lean again
-/
namespace Enc.Lemmas.JsonCodecChoiceDecSeen
open Enc.Model.Json.CodecChoice
open Enc.Lemmas.JsonCodecChoiceSeen (filter_length_le filter_length_lt mem_allKeys size_pos lookup_size_le)

theorem find_set (s : DSeen) (k k' : Key) (e : DEntry) :
    (s.set k e).find k' = if k' = k then some e else s.find k' := by
  simp only [DSeen.set, DSeen.find, List.lookup]
  by_cases h : k' = k
  · subst h; simp
  · have : (k' == k) = false := by simpa using h
    simp [this, h]

theorem find_set_self (s : DSeen) (k : Key) (e : DEntry) : (s.set k e).find k = some e := by
  simp [find_set]

theorem find_set_ne (s : DSeen) (k k' : Key) (e : DEntry) (h : k' ≠ k) : (s.set k e).find k' = s.find k' := by
  simp [find_set, h]

theorem find_erase (s : DSeen) (k k' : Key) :
    (s.erase k).find k' = if k' = k then none else s.find k' := by
  induction s with
  | nil => simp [DSeen.erase, DSeen.find]
  | cons p r ih =>
    obtain ⟨pk, pe⟩ := p
    simp only [DSeen.erase, DSeen.find] at ih ⊢
    by_cases hp : pk = k
    · subst hp
      simp only [List.filter, beq_self_eq_true, Bool.not_true]
      rw [ih]
      by_cases h : k' = pk
      · simp [h]
      · have : (k' == pk) = false := by simpa using h
        simp [List.lookup, this, h]
    · have hpk : (pk == k) = false := by simpa using hp
      simp only [List.filter, hpk, Bool.not_false]
      by_cases h : k' = pk
      · subst h
        simp [List.lookup, hp]
      · have : (k' == pk) = false := by simpa using h
        simp only [List.lookup, this]
        exact ih

/-- what `seen` knows only grows (entries are completed, never removed) -/
def Mono (s s' : DSeen) : Prop := ∀ k, (s.find k).isSome → (s'.find k).isSome

theorem Mono.refl (s : DSeen) : Mono s s := fun _ h => h
theorem Mono.trans {a b c : DSeen} (h1 : Mono a b) (h2 : Mono b c) : Mono a c := fun k h => h2 k (h1 k h)

theorem mono_set (s : DSeen) (k : Key) (e : DEntry) : Mono s (s.set k e) := by
  intro k' h
  rw [find_set]
  by_cases hk : k' = k
  · simp [hk]
  · simpa [hk] using h

/-- registering a named type on the way in and deleting it on the way out leaves everything else in place -/
theorem mono_erase_of_absent (s s' : DSeen) (k : Key) (e : DEntry) (habs : s.find k = none)
    (h : Mono (s.set k e) s') : Mono s (s'.erase k) := by
  intro k' hk'
  rw [find_erase]
  by_cases hk : k' = k
  · subst hk; rw [habs] at hk'; cases hk'
  · simp only [hk, if_false]
    apply h
    rw [find_set_ne _ _ _ _ hk]
    exact hk'

theorem unseen_mono (env : Env) (s s' : DSeen) (h : Mono s s') : unseenD env s' ≤ unseenD env s := by
  unfold unseenD
  apply filter_length_le
  intro k _ hk
  cases hs : s.find k with
  | none => rfl
  | some e =>
    have := h k (by simp [hs])
    cases hs' : s'.find k with
    | none => simp [hs'] at this
    | some e' => simp [hs'] at hk

theorem unseen_set_lt (env : Env) (s : DSeen) (k : Key) (e : DEntry) (hk : k ∈ allKeys env) (habs : s.find k = none) :
    unseenD env (s.set k e) < unseenD env s := by
  unfold unseenD
  apply filter_length_lt _ _ _ _ k hk
  · simp [habs]
  · simp [find_set_self]
  · intro x _ hx
    have := mono_set s k e x
    cases hs : s.find x with
    | none => rfl
    | some e' =>
      have h2 := this (by simp [hs])
      cases hs' : (s.set k e).find x with
      | none => simp [hs'] at h2
      | some _ => simp [hs'] at hx

end Enc.Lemmas.JsonCodecChoiceDecSeen
