import Enc.Lemmas.JsonDecAnyTop
import Enc.Lemmas.JsonDecAnyRtStr
import Enc.Lemmas.JsonDecAnyRtInt
import Enc.Spec.Json.Render
/-!
# C02 round trip: decoding (into `any`, with UseNumber) the JSON text that the encoder's specification `render` writes for a
generic value gives that value back

`JV` values built from null / bool / int / string / array / object-with-plain-fields only (`isGeneric`), nested at most
10000 deep. `generic v` is the Go value expected: integers come back as `json.Number` leaves carrying their decimal
rendering, strings with invalid UTF-8 replaced by U+FFFD (what the encoder wrote), objects as maps (duplicate field names:
the last one wins).
-/
namespace Enc.Lemmas.JsonDecAnyRender
open Enc Enc.Model.Json Enc.Model.Json.Buf Enc.Lemmas.JsonGrammar Enc.Lemmas.JsonDecAnyBase Enc.Lemmas.JsonDecAnyAux
open Enc.Lemmas.JsonDecAnyRtStr Enc.Lemmas.JsonDecAnyRtInt
open Enc.Spec.Json (ws value valueV elementsV membersV mapOf render renderElems renderFields joinWith appendString
  intString unquoteLit consumed dynKindOf dynSpec number digit isWs)

mutual
def isGeneric : JV → Bool
  | .null => true
  | .bool _ => true
  | .int _ => true
  | .str _ => true
  | .bytes _ => false
  | .fail _ => false
  | .arr vs => isGenericL vs
  | .obj fs => isGenericF fs
def isGenericL : JVs → Bool
  | .nil => true
  | .cons v rest => isGeneric v && isGenericL rest
def isGenericF : JFs → Bool
  | .nil => true
  | .cons _ omitempty quoted rb v rest => !omitempty && !quoted && !rb && isGeneric v && isGenericF rest
end

mutual
def depth : JV → Nat
  | .arr vs => depthL vs + 1
  | .obj fs => depthF fs + 1
  | _ => 0
def depthL : JVs → Nat
  | .nil => 0
  | .cons v rest => max (depth v) (depthL rest)
def depthF : JFs → Nat
  | .nil => 0
  | .cons _ _ _ _ v rest => max (depth v) (depthF rest)
end

/-- Go's `string([]rune(s))`: invalid UTF-8 replaced by U+FFFD -/
def coerce (s : Bytes) : Bytes := coerceUTF8 (s.length + 1) s

mutual
/-- the value `Unmarshal` (UseNumber) builds from `render v` -/
def generic : JV → GV
  | .null => .null
  | .bool b => .bool b
  | .int i => .num (intString i) .num
  | .str s => .str (coerce s)
  | .bytes _ => .null
  | .fail _ => .null
  | .arr vs => .arr (genericL vs)
  | .obj fs => .obj (mapOf (genericF fs))
def genericL : JVs → GVs
  | .nil => .nil
  | .cons v rest => .cons (generic v) (genericL rest)
def genericF : JFs → List (Bytes × GV)
  | .nil => []
  | .cons name _ _ _ v rest => (coerce name, generic v) :: genericF rest
end

def un : DynFlags := ⟨true, false, false, false⟩

/-- what follows the first element / member text: `,x,y…]` -/
def etail (close : UInt8) : List Bytes → Bytes → Bytes
  | [], rest => close :: rest
  | x :: xs, rest => 0x2c :: (x ++ etail close xs rest)

theorem joinWith_etail (close : UInt8) (x : Bytes) (xs : List Bytes) (rest : Bytes) :
    joinWith 0x2c (x :: xs) ++ close :: rest = x ++ etail close xs rest := by
  induction xs generalizing x with
  | nil => rfl
  | cons y ys ih =>
    simp only [joinWith, etail, List.append_assoc, List.cons_append, List.nil_append]
    rw [ih y]

theorem etail_length (close : UInt8) (xs : List Bytes) (rest : Bytes) : rest.length < (etail close xs rest).length := by
  induction xs with
  | nil => simp [etail]
  | cons x xs ih => simp only [etail, List.length_cons, List.length_append]; omega

theorem noNumCont_etail (close : UInt8) (hc : close = 0x5d ∨ close = 0x7d) (xs : List Bytes) (rest : Bytes) :
    noNumCont (etail close xs rest) := by
  cases xs with
  | nil => rcases hc with rfl | rfl <;> simp [etail, noNumCont] <;> decide
  | cons x xs => simp [etail, noNumCont]; decide

/-- first byte of the rendering of a generic value: never white space, `]`, `}` -/
theorem render_head (html : Bool) (v : JV) (text : Bytes) (hg : isGeneric v = true) (hr : render html v = some text) :
    ∃ c t, text = c :: t ∧ isWs c = false ∧ c ≠ 0x5d ∧ c ≠ 0x7d := by
  cases v with
  | null => simp only [render, Option.some.injEq] at hr; subst hr; exact ⟨_, _, rfl, by decide, by decide, by decide⟩
  | bool b =>
    cases b <;> (simp only [render, Option.some.injEq] at hr; subst hr; exact ⟨_, _, rfl, by decide, by decide, by decide⟩)
  | int i =>
    simp only [render, Option.some.injEq] at hr; subst hr
    obtain ⟨c, t, e, hc⟩ := intString_head i
    refine ⟨c, t, e, ?_⟩
    rcases hc with rfl | hd
    · exact ⟨by decide, by decide, by decide⟩
    · simp only [digit, Bool.and_eq_true, decide_eq_true_eq] at hd
      refine ⟨?_, ?_, ?_⟩
      · simp only [isWs, Bool.or_eq_false_iff, beq_eq_false_iff_ne, ne_eq]
        refine ⟨⟨⟨?_, ?_⟩, ?_⟩, ?_⟩ <;> (intro e'; subst e'; exact absurd hd.1 (by decide))
      · intro e'; subst e'; exact absurd hd.2 (by decide)
      · intro e'; subst e'; exact absurd hd.2 (by decide)
  | str s =>
    simp only [render, Option.some.injEq] at hr; subst hr
    exact ⟨0x22, _, rfl, by decide, by decide, by decide⟩
  | bytes _ => simp [isGeneric] at hg
  | fail _ => simp [isGeneric] at hg
  | arr vs =>
    simp only [render] at hr
    obtain ⟨xs, _, rfl⟩ := Lemmas.JsonDecAny.map_eq_some hr
    exact ⟨0x5b, _, rfl, by decide, by decide, by decide⟩
  | obj fs =>
    simp only [render] at hr
    obtain ⟨xs, _, rfl⟩ := Lemmas.JsonDecAny.map_eq_some hr
    exact ⟨0x7b, _, rfl, by decide, by decide, by decide⟩

theorem ws_of_head {c : UInt8} {t : Bytes} (h : isWs c = false) : ws (c :: t) = c :: t := by
  simp [ws, h]

theorem dynKind_int (i : Int) : dynKindOf un (intString i) = .num := by
  have hn : number (intString i) = some [] := by
    have := number_render i [] trivial
    simpa using this
  unfold dynKindOf dynSpec
  simp [hn, un]

/-- the three statements, by structural recursion on the value -/
def PV (v : JV) : Prop :=
  ∀ html text rest d f, isGeneric v = true → render html v = some text → depth v ≤ d → noNumCont rest →
    2 * (text.length + rest.length) ≤ f → valueV un f d (text ++ rest) = some (generic v, false, rest)

def PE (vs : JVs) : Prop :=
  ∀ html xs rest d f, isGenericL vs = true → renderElems html vs = some xs → depthL vs ≤ d →
    2 * (etail 0x5d xs rest).length + 1 ≤ f →
    elementsV un f d (etail 0x5d xs rest) false = some (genericL vs, false, rest)

def PF (fs : JFs) : Prop :=
  ∀ html xs rest d f, isGenericF fs = true → renderFields html fs = some xs → depthF fs ≤ d →
    2 * (etail 0x7d xs rest).length + 1 ≤ f →
    membersV un f d (etail 0x7d xs rest) false = some (genericF fs, false, rest)

theorem lit_self (l rest : Bytes) : Spec.Json.lit l (l ++ rest) = some rest := by
  unfold Spec.Json.lit
  have : l.isPrefixOf (l ++ rest) = true := List.isPrefixOf_iff_prefix.mpr (List.prefix_append _ _)
  simp [this]

theorem ws_etail (close : UInt8) (hc : close = 0x5d ∨ close = 0x7d) (xs : List Bytes) (rest : Bytes) :
    ws (etail close xs rest) = etail close xs rest := by
  cases xs with
  | nil => rcases hc with rfl | rfl <;> exact ws_of_head (by decide)
  | cons x xs => exact ws_of_head (by decide)

theorem isClose_of_ne {c : UInt8} {t : Bytes} (h : c ≠ 0x5d) : isClose (c :: t) = false := by
  simpa [isClose] using h

/-- one element followed by the remaining elements: the part of `elementsV` after the separator step -/
theorem elem_bind (v : JV) (vs' : JVs) (html : Bool) (x : Bytes) (xs' : List Bytes) (rest : Bytes) (d f1 : Nat)
    (hv : PV v) (he : PE vs') (hg : isGeneric v = true) (hg' : isGenericL vs' = true)
    (hr : render html v = some x) (hr' : renderElems html vs' = some xs')
    (hd : depth v ≤ d) (hd' : depthL vs' ≤ d) (hf : 2 * (x.length + (etail 0x5d xs' rest).length) ≤ f1) :
    ((valueV un f1 d (x ++ etail 0x5d xs' rest)).bind fun y =>
      (elementsV un f1 d (ws y.2.2) false).map fun z => (GVs.cons y.1 z.1, y.2.1 || z.2.1, z.2.2)) =
    some (GVs.cons (generic v) (genericL vs'), false, rest) := by
  obtain ⟨c, t, rfl, _, _, _⟩ := render_head html v x hg hr
  rw [hv html _ _ d f1 hg hr hd (noNumCont_etail _ (Or.inl rfl) _ _) hf]
  simp only [Option.bind_some]
  rw [ws_etail _ (Or.inl rfl), he html xs' rest d f1 hg' hr' hd' (by simp at hf; omega)]
  rfl

/-- one member followed by the remaining members -/
theorem mem_bind (name : Bytes) (v : JV) (fs' : JFs) (html : Bool) (x : Bytes) (xs' : List Bytes) (rest : Bytes) (d f1 : Nat)
    (hv : PV v) (he : PF fs') (hg : isGeneric v = true) (hg' : isGenericF fs' = true)
    (hr : render html v = some x) (hr' : renderFields html fs' = some xs')
    (hd : depth v ≤ d) (hd' : depthF fs' ≤ d)
    (hf : 2 * ((appendString name html).length + 1 + x.length + (etail 0x7d xs' rest).length) ≤ f1) :
    ((Spec.Json.string (appendString name html ++ [0x3a] ++ x ++ etail 0x7d xs' rest)).bind fun r2 =>
      colonThenV (fun r3 => (valueV un f1 d (ws r3)).bind fun y =>
        (membersV un f1 d (ws y.2.2) false).map fun z =>
          ((unquoteLit (consumed (appendString name html ++ [0x3a] ++ x ++ etail 0x7d xs' rest) r2), y.1) :: z.1,
            y.2.1 || z.2.1, z.2.2)) (ws r2)) =
    some ((coerce name, generic v) :: genericF fs', false, rest) := by
  obtain ⟨c, t, rfl, hws, _, _⟩ := render_head html v x hg hr
  have hb : appendString name html ++ [0x3a] ++ (c :: t) ++ etail 0x7d xs' rest =
      appendString name html ++ (0x3a :: ((c :: t) ++ etail 0x7d xs' rest)) := by simp
  rw [hb, string_render]
  simp only [Option.bind_some]
  rw [ws_of_head (show isWs 0x3a = false by decide)]
  simp only [colonThenV, beq_self_eq_true, if_true]
  rw [show (c :: t) ++ etail 0x7d xs' rest = c :: (t ++ etail 0x7d xs' rest) from rfl, ws_of_head hws]
  rw [show c :: (t ++ etail 0x7d xs' rest) = (c :: t) ++ etail 0x7d xs' rest from rfl]
  rw [hv html _ _ d f1 hg hr hd (noNumCont_etail _ (Or.inr rfl) _ _) (by simp at hf ⊢; omega)]
  simp only [Option.bind_some]
  rw [ws_etail _ (Or.inr rfl), he html xs' rest d f1 hg' hr' hd' (by simp at hf ⊢; omega)]
  simp only [Option.map_some, Bool.or_self]
  have hc : consumed (appendString name html ++ (0x3a :: ((c :: t) ++ etail 0x7d xs' rest)))
      (0x3a :: ((c :: t) ++ etail 0x7d xs' rest)) = appendString name html := litOf_append _ _
  rw [hc, unquote_render]
  rfl

theorem renderElems_cons {html : Bool} {v : JV} {vs' : JVs} {xs : List Bytes}
    (h : renderElems html (.cons v vs') = some xs) :
    ∃ x xs', render html v = some x ∧ renderElems html vs' = some xs' ∧ xs = x :: xs' := by
  simp only [renderElems] at h
  cases h1 : render html v with
  | none => simp [h1] at h
  | some x =>
    cases h2 : renderElems html vs' with
    | none => simp [h1, h2] at h
    | some xs' =>
      simp only [h1, h2, Option.some.injEq] at h
      exact ⟨x, xs', rfl, rfl, h.symm⟩

theorem renderFields_cons {html : Bool} {name : Bytes} {v : JV} {fs' : JFs} {xs : List Bytes}
    (h : renderFields html (.cons name false false false v fs') = some xs) :
    ∃ x xs', render html v = some x ∧ renderFields html fs' = some xs' ∧
      xs = (appendString name html ++ [0x3a] ++ x) :: xs' := by
  simp only [renderFields, Bool.false_and, Bool.or_self, Bool.false_eq_true, if_false] at h
  cases h1 : render html v with
  | none => simp [h1] at h
  | some x =>
    cases h2 : renderFields html fs' with
    | none => simp [h1, h2] at h
    | some xs' =>
      simp only [h1, h2, Option.some.injEq] at h
      exact ⟨x, xs', rfl, rfl, h.symm⟩

theorem num_head_ne {c : UInt8} (hc : c = 0x2d ∨ digit c = true) :
    (c == 0x7b) = false ∧ (c == 0x5b) = false ∧ (c == 0x22) = false ∧ (c == 0x6e) = false ∧ (c == 0x74) = false ∧
      (c == 0x66) = false := by
  rcases hc with rfl | hd
  · decide
  · simp only [digit, Bool.and_eq_true, decide_eq_true_eq] at hd
    refine ⟨?_, ?_, ?_, ?_, ?_, ?_⟩ <;>
      (simp only [beq_eq_false_iff_ne, ne_eq]; intro e'; subst e';
       first | exact absurd hd.2 (by decide) | exact absurd hd.1 (by decide))

theorem appendString_head (s : Bytes) (html : Bool) : ∃ body, appendString s html = 0x22 :: body := by
  refine ⟨Spec.Json.appendChars html (s.length + 1) s ++ [0x22], ?_⟩; simp [appendString]

theorem pv_str (s : Bytes) (html : Bool) (rest : Bytes) (d f : Nat)
    (hf : 2 * ((appendString s html).length + rest.length) ≤ f) :
    valueV un f d (appendString s html ++ rest) = some (GV.str (coerce s), false, rest) := by
  have hs := string_render s html rest
  have hu := unquote_render s html
  obtain ⟨body, hq⟩ := appendString_head s html
  rw [hq] at hs hu hf ⊢
  obtain ⟨f0, rfl⟩ : ∃ f0, f = f0 + 1 := ⟨f - 1, by simp at hf; omega⟩
  show valueV un (f0 + 1) d (0x22 :: (body ++ rest)) = _
  rw [valueV_succ_cons]
  simp only [show ((0x22 : UInt8) == 0x7b) = false by decide, show ((0x22 : UInt8) == 0x5b) = false by decide,
    Bool.false_eq_true, if_false, beq_self_eq_true, if_true]
  rw [show (0x22 : UInt8) :: (body ++ rest) = (0x22 :: body) ++ rest from rfl, hs]
  simp only [Option.map_some]
  have hcon : consumed ((0x22 :: body) ++ rest) rest = 0x22 :: body := litOf_append _ _
  rw [hcon, hu]
  rfl

mutual
theorem pv : ∀ v, PV v
  | .null => by
    intro html text rest d f _ hr _ _ hf
    simp only [render, Option.some.injEq] at hr; subst hr
    obtain ⟨f0, rfl⟩ : ∃ f0, f = f0 + 1 := ⟨f - 1, by simp at hf; omega⟩
    show valueV un (f0 + 1) d (0x6e :: ([0x75, 0x6c, 0x6c] ++ rest)) = _
    rw [valueV_succ_cons]
    simp only [show ((0x6e : UInt8) == 0x7b) = false by decide, show ((0x6e : UInt8) == 0x5b) = false by decide,
      show ((0x6e : UInt8) == 0x22) = false by decide, Bool.false_eq_true, if_false, beq_self_eq_true, if_true]
    rw [show (0x6e : UInt8) :: ([0x75, 0x6c, 0x6c] ++ rest) = [0x6e, 0x75, 0x6c, 0x6c] ++ rest from rfl, lit_self]
    rfl
  | .bool true => by
    intro html text rest d f _ hr _ _ hf
    simp only [render, Option.some.injEq] at hr; subst hr
    obtain ⟨f0, rfl⟩ : ∃ f0, f = f0 + 1 := ⟨f - 1, by simp at hf; omega⟩
    show valueV un (f0 + 1) d (0x74 :: ([0x72, 0x75, 0x65] ++ rest)) = _
    rw [valueV_succ_cons]
    simp only [show ((0x74 : UInt8) == 0x7b) = false by decide, show ((0x74 : UInt8) == 0x5b) = false by decide,
      show ((0x74 : UInt8) == 0x22) = false by decide, show ((0x74 : UInt8) == 0x6e) = false by decide,
      Bool.false_eq_true, if_false, beq_self_eq_true, if_true]
    rw [show (0x74 : UInt8) :: ([0x72, 0x75, 0x65] ++ rest) = [0x74, 0x72, 0x75, 0x65] ++ rest from rfl, lit_self]
    rfl
  | .bool false => by
    intro html text rest d f _ hr _ _ hf
    simp only [render, Option.some.injEq] at hr; subst hr
    obtain ⟨f0, rfl⟩ : ∃ f0, f = f0 + 1 := ⟨f - 1, by simp at hf; omega⟩
    show valueV un (f0 + 1) d (0x66 :: ([0x61, 0x6c, 0x73, 0x65] ++ rest)) = _
    rw [valueV_succ_cons]
    simp only [show ((0x66 : UInt8) == 0x7b) = false by decide, show ((0x66 : UInt8) == 0x5b) = false by decide,
      show ((0x66 : UInt8) == 0x22) = false by decide, show ((0x66 : UInt8) == 0x6e) = false by decide,
      show ((0x66 : UInt8) == 0x74) = false by decide,
      Bool.false_eq_true, if_false, beq_self_eq_true, if_true]
    rw [show (0x66 : UInt8) :: ([0x61, 0x6c, 0x73, 0x65] ++ rest) = [0x66, 0x61, 0x6c, 0x73, 0x65] ++ rest from rfl,
      lit_self]
    rfl
  | .int i => by
    intro html text rest d f _ hr _ hn hf
    simp only [render, Option.some.injEq] at hr; subst hr
    obtain ⟨f0, rfl⟩ : ∃ f0, f = f0 + 1 := ⟨f - 1, by
      obtain ⟨c, t, e, _⟩ := intString_head i
      rw [e] at hf; simp at hf; omega⟩
    obtain ⟨c, t, e, hc⟩ := intString_head i
    have hnum := number_render i rest hn
    have hk := dynKind_int i
    rw [e] at hnum hk ⊢
    show valueV un (f0 + 1) d (c :: (t ++ rest)) = _
    rw [valueV_succ_cons]
    obtain ⟨e1, e2, e3, e4, e5, e6⟩ := num_head_ne hc
    simp only [e1, e2, e3, e4, e5, e6, Bool.false_eq_true, if_false]
    rw [show c :: (t ++ rest) = (c :: t) ++ rest from rfl, hnum]
    simp only [Option.map_some, numLeaf]
    have hcon : consumed ((c :: t) ++ rest) rest = c :: t := litOf_append _ _
    rw [hcon, hk]
    simp only [generic, e]
    rfl
  | .str s => by
    intro html text rest d f _ hr _ _ hf
    simp only [render, Option.some.injEq] at hr; subst hr
    exact pv_str s html rest d f hf
  | .bytes _ => by intro html text rest d f hg; simp [isGeneric] at hg
  | .fail _ => by intro html text rest d f hg; simp [isGeneric] at hg
  | .arr vs => by
    intro html text rest d f hg hr hd hn hf
    simp only [render] at hr
    obtain ⟨xs, hxs, rfl⟩ := Lemmas.JsonDecAny.map_eq_some hr
    simp only [isGeneric] at hg
    simp only [depth] at hd
    obtain ⟨f0, rfl⟩ : ∃ f0, f = f0 + 1 := ⟨f - 1, by simp at hf; omega⟩
    have htext : [0x5b] ++ joinWith 0x2c xs ++ [0x5d] ++ rest = 0x5b :: (joinWith 0x2c xs ++ 0x5d :: rest) := by simp
    rw [htext, valueV_succ_cons]
    have hd0 : (d == 0) = false := by simp; omega
    simp only [show ((0x5b : UInt8) == 0x7b) = false by decide, Bool.false_eq_true, if_false, beq_self_eq_true, if_true,
      hd0]
    simp only [List.length_append, List.length_cons, List.length_nil] at hf
    cases vs with
    | nil =>
      simp only [renderElems, Option.some.injEq] at hxs; subst hxs
      simp only [joinWith, List.nil_append]
      rw [ws_of_head (show isWs 0x5d = false by decide)]
      obtain ⟨f1, rfl⟩ : ∃ f1, f0 = f1 + 1 := ⟨f0 - 1, by omega⟩
      rw [elementsV_succ_cons]
      simp only [beq_self_eq_true, if_true, Option.map_some]
      rfl
    | cons v vs' =>
      obtain ⟨x, xs', hx, hxs', rfl⟩ := renderElems_cons hxs
      simp only [isGenericL, Bool.and_eq_true] at hg
      simp only [depthL] at hd
      have hlen := congrArg List.length (joinWith_etail 0x5d x xs' rest)
      simp only [List.length_append, List.length_cons] at hlen
      rw [joinWith_etail]
      obtain ⟨c, t, hxe, hws, hc1, _⟩ := render_head html v x hg.1 hx
      obtain ⟨f1, rfl⟩ : ∃ f1, f0 = f1 + 1 := ⟨f0 - 1, by omega⟩
      have hb : x ++ etail 0x5d xs' rest = c :: (t ++ etail 0x5d xs' rest) := by rw [hxe]; rfl
      rw [hb, ws_of_head hws, elementsV_succ_cons]
      have hc1' : (c == 0x5d) = false := by simpa using hc1
      simp only [hc1', Bool.false_eq_true, if_false, if_true, Option.bind_some, isClose_of_ne hc1]
      rw [← hb]
      have := elem_bind v vs' html x xs' rest (d - 1) f1 (pv v) (pe vs') hg.1 hg.2 hx hxs' (by omega) (by omega)
        (by omega)
      rw [this]
      rfl
  | .obj fs => by
    intro html text rest d f hg hr hd hn hf
    simp only [render] at hr
    obtain ⟨xs, hxs, rfl⟩ := Lemmas.JsonDecAny.map_eq_some hr
    simp only [isGeneric] at hg
    simp only [depth] at hd
    obtain ⟨f0, rfl⟩ : ∃ f0, f = f0 + 1 := ⟨f - 1, by simp at hf; omega⟩
    have htext : [0x7b] ++ joinWith 0x2c xs ++ [0x7d] ++ rest = 0x7b :: (joinWith 0x2c xs ++ 0x7d :: rest) := by simp
    rw [htext, valueV_succ_cons]
    have hd0 : (d == 0) = false := by simp; omega
    simp only [Bool.false_eq_true, if_false, beq_self_eq_true, if_true, hd0]
    simp only [List.length_append, List.length_cons, List.length_nil] at hf
    cases fs with
    | nil =>
      simp only [renderFields, Option.some.injEq] at hxs; subst hxs
      simp only [joinWith, List.nil_append]
      rw [ws_of_head (show isWs 0x7d = false by decide)]
      obtain ⟨f1, rfl⟩ : ∃ f1, f0 = f1 + 1 := ⟨f0 - 1, by omega⟩
      rw [membersV_succ_cons]
      simp only [beq_self_eq_true, if_true, Option.map_some]
      rfl
    | cons name oe q rb v fs' =>
      simp only [isGenericF, Bool.and_eq_true, Bool.not_eq_true'] at hg
      obtain ⟨⟨⟨⟨rfl, rfl⟩, rfl⟩, hgv⟩, hgf⟩ := hg
      obtain ⟨x, xs', hx, hxs', rfl⟩ := renderFields_cons hxs
      simp only [depthF] at hd
      have hlen := congrArg List.length (joinWith_etail 0x7d (appendString name html ++ [0x3a] ++ x) xs' rest)
      simp only [List.length_append, List.length_cons, List.length_nil] at hlen
      rw [joinWith_etail]
      obtain ⟨f1, rfl⟩ : ∃ f1, f0 = f1 + 1 := ⟨f0 - 1, by omega⟩
      obtain ⟨body, happ⟩ := appendString_head name html
      have hb : appendString name html ++ [0x3a] ++ x ++ etail 0x7d xs' rest =
          0x22 :: (body ++ [0x3a] ++ x ++ etail 0x7d xs' rest) := by
        rw [happ]; simp
      rw [hb, ws_of_head (show isWs 0x22 = false by decide), membersV_succ_cons]
      simp only [show ((0x22 : UInt8) == 0x7d) = false by decide, Bool.false_eq_true, if_false, if_true, Option.bind_some]
      rw [← hb]
      have := mem_bind name v fs' html x xs' rest (d - 1) f1 (pv v) (pf fs') hgv hgf hx hxs' (by omega) (by omega)
        (by omega)
      rw [this]
      rfl
theorem pe : ∀ vs, PE vs
  | .nil => by
    intro html xs rest d f _ hr _ hf
    simp only [renderElems, Option.some.injEq] at hr; subst hr
    obtain ⟨f1, rfl⟩ : ∃ f1, f = f1 + 1 := ⟨f - 1, by omega⟩
    simp only [etail]
    rw [elementsV_succ_cons]
    simp only [beq_self_eq_true, if_true]
    rfl
  | .cons v vs' => by
    intro html xs rest d f hg hr hd hf
    obtain ⟨x, xs', hx, hxs', rfl⟩ := renderElems_cons hr
    simp only [isGenericL, Bool.and_eq_true] at hg
    simp only [depthL] at hd
    obtain ⟨f1, rfl⟩ : ∃ f1, f = f1 + 1 := ⟨f - 1, by omega⟩
    simp only [etail] at hf ⊢
    rw [elementsV_succ_cons]
    obtain ⟨c, t, hxe, hws, hc1, _⟩ := render_head html v x hg.1 hx
    have hb : x ++ etail 0x5d xs' rest = c :: (t ++ etail 0x5d xs' rest) := by rw [hxe]; rfl
    simp only [show ((0x2c : UInt8) == 0x5d) = false by decide, Bool.false_eq_true, if_false, beq_self_eq_true, if_true,
      Option.bind_some]
    rw [hb, ws_of_head hws]
    simp only [isClose_of_ne hc1, Bool.false_eq_true, if_false]
    rw [← hb]
    exact elem_bind v vs' html x xs' rest d f1 (pv v) (pe vs') hg.1 hg.2 hx hxs' (by omega) (by omega)
      (by simp only [List.length_cons, List.length_append] at hf ⊢; omega)
theorem pf : ∀ fs, PF fs
  | .nil => by
    intro html xs rest d f _ hr _ hf
    simp only [renderFields, Option.some.injEq] at hr; subst hr
    obtain ⟨f1, rfl⟩ : ∃ f1, f = f1 + 1 := ⟨f - 1, by omega⟩
    simp only [etail]
    rw [membersV_succ_cons]
    simp only [beq_self_eq_true, if_true]
    rfl
  | .cons name oe q rb v fs' => by
    intro html xs rest d f hg hr hd hf
    simp only [isGenericF, Bool.and_eq_true, Bool.not_eq_true'] at hg
    obtain ⟨⟨⟨⟨rfl, rfl⟩, rfl⟩, hgv⟩, hgf⟩ := hg
    obtain ⟨x, xs', hx, hxs', rfl⟩ := renderFields_cons hr
    simp only [depthF] at hd
    obtain ⟨f1, rfl⟩ : ∃ f1, f = f1 + 1 := ⟨f - 1, by omega⟩
    simp only [etail] at hf ⊢
    rw [membersV_succ_cons]
    obtain ⟨body, happ⟩ := appendString_head name html
    have hb : appendString name html ++ [0x3a] ++ x ++ etail 0x7d xs' rest =
        0x22 :: (body ++ [0x3a] ++ x ++ etail 0x7d xs' rest) := by
      rw [happ]; simp
    simp only [show ((0x2c : UInt8) == 0x7d) = false by decide, Bool.false_eq_true, if_false, beq_self_eq_true, if_true,
      Option.bind_some]
    rw [hb, ws_of_head (show isWs 0x22 = false by decide), ← hb]
    exact mem_bind name v fs' html x xs' rest d f1 (pv v) (pf fs') hgv hgf hx hxs' (by omega) (by omega)
      (by simp only [List.length_cons, List.length_append, List.length_nil] at hf ⊢; omega)
end

/-- **round trip**: decoding what the encoder's specification writes for a generic value gives the value back -/
theorem unmarshal_render (html : Bool) (v : JV) (text : Bytes) (hg : isGeneric v = true) (hr : render html v = some text)
    (hd : depth v ≤ 10000) : unmarshalAny un text = .ok (generic v) := by
  rw [Lemmas.JsonDecAnyTop.model_ok_iff_spec_ok, Lemmas.JsonDecAnyTop.spec_ok_iff]
  obtain ⟨c, t, rfl, hws, _, _⟩ := render_head html v text hg hr
  refine ⟨[], ?_, rfl⟩
  rw [ws_of_head hws]
  have := pv v html (c :: t) [] 10000 (3 * (c :: t).length + 8) hg hr hd trivial (by simp; omega)
  simpa using this

#print axioms unmarshal_render

end Enc.Lemmas.JsonDecAnyRender
