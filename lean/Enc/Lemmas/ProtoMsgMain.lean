import Enc.Lemmas.ProtoMsgLink
/-!
# User-defined message types: the statements used by Props C03 / C16 (encoder side)

Consequences of `ProtoMsgLink` (`encodeToUsr ops c v = encodeTo c (absV ops c v)` under the user contract `LeavesOK`) and of the
proved facts about `Model.Proto` (`Lemmas.Proto.size_eq`, `Lemmas.ProtoTo.encodeTo_spec`).
-/
namespace Enc.Lemmas.ProtoMsg
open Enc Enc.Model.Proto Enc.Lemmas.Proto

/-- **C16 with user types.** Under the user contract, for every codec tree, value, flags and EVERY buffer length: the
encoder succeeds exactly when the buffer has `Size` bytes, then writes the encoding of the payload-level abstraction;
otherwise `io.ErrShortBuffer`. It never fails otherwise and never panics. -/
theorem encodeToUsr_spec (ops : UserOps) (c : Codec) (v : Val) (fl : Flags) (avail : Nat) (h : LeavesOK ops c v) :
    encodeToUsr ops c v fl avail
      = if sizeUsr ops c v fl ≤ avail then .ok (encode c (absV ops c v) fl) else .err "shortBuffer" := by
  rw [encodeToUsr_abs ops c v fl avail h, sizeUsr_abs ops c v fl h, Lemmas.ProtoTo.encodeTo_spec]

/-- **Size = len(Marshal) with user types**, for every codec tree, value and flag combination, under the user contract
`|Marshal(u)| = Size(u)` at the user values of `v` -/
theorem size_eq_len_encode_opaque (ops : UserOps) (c : Codec) (v : Val) (fl : Flags) (h : LeavesOK ops c v) :
    ∃ b, encodeToUsr ops c v fl (sizeUsr ops c v fl) = .ok b ∧ b.length = sizeUsr ops c v fl
      ∧ b = encode c (absV ops c v) fl := by
  refine ⟨encode c (absV ops c v) fl, ?_, ?_, rfl⟩
  · rw [encodeToUsr_spec ops c v fl _ h]; simp
  · rw [sizeUsr_abs ops c v fl h]; exact size_eq _ _ _

/-- … at the entry points: `Marshal` succeeds, returns the payload-level encoding, of `Size(v)` bytes -/
theorem marshalUsr_ok (ops : UserOps) (t : Ty) (v : Val) (h : LeavesOK ops (codecOf t) v) :
    marshalUsr ops t v = .ok (marshal t (absV ops (codecOf t) v))
      ∧ (marshal t (absV ops (codecOf t) v)).length = marshalSizeUsr ops t v := by
  unfold marshalUsr marshalToUsr marshalSizeUsr marshal
  constructor
  · rw [encodeToUsr_spec ops _ v _ _ h]; simp
  · rw [sizeUsr_abs ops _ v _ h]; exact size_eq _ _ _

/-- MarshalTo with user types: enough room -/
theorem marshalToUsr_enough (ops : UserOps) (t : Ty) (v : Val) (avail : Nat) (h : LeavesOK ops (codecOf t) v)
    (ha : marshalSizeUsr ops t v ≤ avail) :
    marshalToUsr ops t v avail = marshalUsr ops t v := by
  rw [(marshalUsr_ok ops t v h).1]
  unfold marshalToUsr marshal
  unfold marshalSizeUsr at ha
  rw [encodeToUsr_spec ops _ v _ _ h]; simp [ha]

/-- MarshalTo with user types: every shorter buffer gives io.ErrShortBuffer — no user method's error, no panic, and (by
`encodeToUsr_abs`: the checks precede every write) nothing written past the buffer -/
theorem marshalToUsr_short (ops : UserOps) (t : Ty) (v : Val) (avail : Nat) (h : LeavesOK ops (codecOf t) v)
    (ha : avail < marshalSizeUsr ops t v) :
    marshalToUsr ops t v avail = .err "shortBuffer" := by
  unfold marshalToUsr
  unfold marshalSizeUsr at ha
  rw [encodeToUsr_spec ops _ v _ _ h]
  have : ¬ sizeUsr ops (codecOf t) v { toplevel := true, inline := true } ≤ avail := by omega
  simp [this]

/-! ## the error path -/

/-- a user `Marshal` that fails fails the leaf with the user's error, whenever the buffer passes the length checks (in
particular inside `Marshal`, which allocates `Size` bytes) -/
theorem encodeToUsr_leaf_err (ops : UserOps) (u : Val) (fl : Flags) (avail : Nat) (e : String)
    (hm : ops.marshal u = .err e) (ha : sizeUsr ops .message u fl ≤ avail) :
    encodeToUsr ops .message u fl avail = .err e := by
  simp only [sizeUsr] at ha
  simp only [encodeToUsr, hm, Res.bind]
  by_cases ht : fl.toplevel = true
  · simp only [ht, if_true] at ha ⊢
    have : ¬ avail < ops.size u := by omega
    simp [this]
  · have ht' : fl.toplevel = false := by simpa using ht
    simp only [ht', Bool.false_eq_true, if_false] at ha ⊢
    have : ¬ avail < sizeOfVarlen (ops.size u) := by omega
    simp [this]

/-! ## types without user methods -/

mutual
/-- no user-defined type anywhere in the codec tree (map key / value codecs included) -/
def noUser : Codec → Bool
  | .message => false
  | .ptr c => noUser c
  | .struct fs => noUserFs fs
  | .slice e _ _ _ => noUser e
  | .map _ k v _ _ entry => noUser k && noUser v && noUser entry
  | _ => true
def noUserFs : CFields → Bool
  | .nil => true
  | .cons _ _ _ _ c rest => noUser c && noUserFs rest
end

mutual
theorem absV_noUser (ops : UserOps) (c : Codec) (v : Val) (h : noUser c = true) : absV ops c v = v := by
  cases c <;> cases v <;> simp only [absV]
  all_goals first
    | (simp [noUser] at h; done)
    | skip
  case ptr.ptr c v => simp only [noUser] at h; rw [absV_noUser ops c v h]
  case struct.struct fs vs => simp only [noUser] at h; rw [absFs_noUser ops fs vs h]
  case slice.list e n w emb vs => simp only [noUser] at h; rw [absL_noUser ops e vs h]
  case map.map n k v ke ve entry kvs =>
    simp only [noUser, Bool.and_eq_true] at h; rw [absM_noUser ops k v kvs h.1.1 h.1.2]
theorem absFs_noUser (ops : UserOps) (fs : CFields) (vs : Vals) (h : noUserFs fs = true) : absFs ops fs vs = vs := by
  cases fs with
  | nil => cases vs <;> simp [absFs]
  | cons number emb rep zz c rest =>
    cases vs with
    | nil => simp [absFs]
    | cons v vs =>
      simp only [noUserFs, Bool.and_eq_true] at h
      simp only [absFs, absV_noUser ops c v h.1, absFs_noUser ops rest vs h.2]
theorem absL_noUser (ops : UserOps) (e : Codec) (vs : Vals) (h : noUser e = true) : absL ops e vs = vs := by
  cases vs with
  | nil => simp [absL]
  | cons v vs => simp only [absL, absV_noUser ops e v h, absL_noUser ops e vs h]
theorem absM_noUser (ops : UserOps) (k v : Codec) (kvs : Vals) (hk : noUser k = true) (hv : noUser v = true) :
    absM ops k v kvs = kvs := by
  match kvs with
  | .nil => simp [absM]
  | .cons _ .nil => simp [absM]
  | .cons a (.cons b r) => simp only [absM, absV_noUser ops k a hk, absV_noUser ops v b hv, absM_noUser ops k v r hk hv]
end

mutual
theorem leavesOK_noUser (ops : UserOps) (c : Codec) (v : Val) (h : noUser c = true) : LeavesOK ops c v := by
  cases c <;> cases v <;> simp only [LeavesOK]
  all_goals first
    | (simp [noUser] at h; done)
    | skip
  case ptr.ptr c v => simp only [noUser] at h; exact leavesOK_noUser ops c v h
  case struct.struct fs vs => simp only [noUser] at h; exact leavesOKFs_noUser ops fs vs h
  case slice.list e n w emb vs => simp only [noUser] at h; exact leavesOKL_noUser ops e vs h
  case map.map n k v ke ve entry kvs =>
    simp only [noUser, Bool.and_eq_true] at h; exact leavesOKM_noUser ops k v kvs h.1.1 h.1.2
theorem leavesOKFs_noUser (ops : UserOps) (fs : CFields) (vs : Vals) (h : noUserFs fs = true) : LeavesOKFs ops fs vs := by
  cases fs with
  | nil => cases vs <;> simp [LeavesOKFs]
  | cons number emb rep zz c rest =>
    cases vs with
    | nil => simp [LeavesOKFs]
    | cons v vs =>
      simp only [noUserFs, Bool.and_eq_true] at h
      simp only [LeavesOKFs]
      exact ⟨leavesOK_noUser ops c v h.1, leavesOKFs_noUser ops rest vs h.2⟩
theorem leavesOKL_noUser (ops : UserOps) (e : Codec) (vs : Vals) (h : noUser e = true) : LeavesOKL ops e vs := by
  cases vs with
  | nil => simp [LeavesOKL]
  | cons v vs => simp only [LeavesOKL]; exact ⟨leavesOK_noUser ops e v h, leavesOKL_noUser ops e vs h⟩
theorem leavesOKM_noUser (ops : UserOps) (k v : Codec) (kvs : Vals) (hk : noUser k = true) (hv : noUser v = true) :
    LeavesOKM ops k v kvs := by
  match kvs with
  | .nil => simp [LeavesOKM]
  | .cons _ .nil => simp [LeavesOKM]
  | .cons a (.cons b r) =>
    simp only [LeavesOKM]
    exact ⟨leavesOK_noUser ops k a hk, leavesOK_noUser ops v b hv, leavesOKM_noUser ops k v r hk hv⟩
end

/-- **"For types without user-supplied marshalling methods Marshal never fails".** On a codec tree without user types the
user's methods are never consulted — whatever they are — and the encoder is the one of `Model.ProtoTo`, which fails only with
`ErrShortBuffer` and never when given `Size` bytes (`Props.C16.encodeTo_spec`) -/
theorem encodeToUsr_noUser (ops : UserOps) (c : Codec) (v : Val) (fl : Flags) (avail : Nat) (h : noUser c = true) :
    encodeToUsr ops c v fl avail = encodeTo c v fl avail ∧ sizeUsr ops c v fl = size c v fl := by
  have hl := leavesOK_noUser ops c v h
  rw [encodeToUsr_abs ops c v fl avail hl, sizeUsr_abs ops c v fl hl, absV_noUser ops c v h]
  exact ⟨rfl, rfl⟩

theorem marshalUsr_noUser (ops : UserOps) (t : Ty) (v : Val) (h : noUser (codecOf t) = true) :
    marshalUsr ops t v = .ok (marshal t v) := by
  have := (marshalUsr_ok ops t v (leavesOK_noUser ops _ v h)).1
  rwa [absV_noUser ops _ v h] at this

/-! ## RawMessage: the contract holds for every value -/

theorem leafOK_rawOps (u : Val) : LeafOK rawOps u := by
  cases u <;> exact ⟨_, rfl, rfl⟩

mutual
theorem leavesOK_rawOps (c : Codec) (v : Val) : LeavesOK rawOps c v := by
  cases c <;> cases v <;> simp only [LeavesOK]
  all_goals first
    | exact leafOK_rawOps _
    | skip
  case ptr.ptr c v => exact leavesOK_rawOps c v
  case struct.struct fs vs => exact leavesOKFs_rawOps fs vs
  case slice.list e n w emb vs => exact leavesOKL_rawOps e vs
  case map.map n k v ke ve entry kvs => exact leavesOKM_rawOps k v kvs
theorem leavesOKFs_rawOps (fs : CFields) (vs : Vals) : LeavesOKFs rawOps fs vs := by
  cases fs with
  | nil => cases vs <;> simp [LeavesOKFs]
  | cons number emb rep zz c rest =>
    cases vs with
    | nil => simp [LeavesOKFs]
    | cons v vs => simp only [LeavesOKFs]; exact ⟨leavesOK_rawOps c v, leavesOKFs_rawOps rest vs⟩
theorem leavesOKL_rawOps (e : Codec) (vs : Vals) : LeavesOKL rawOps e vs := by
  cases vs with
  | nil => simp [LeavesOKL]
  | cons v vs => simp only [LeavesOKL]; exact ⟨leavesOK_rawOps e v, leavesOKL_rawOps e vs⟩
theorem leavesOKM_rawOps (k v : Codec) (kvs : Vals) : LeavesOKM rawOps k v kvs := by
  match kvs with
  | .nil => simp [LeavesOKM]
  | .cons _ .nil => simp [LeavesOKM]
  | .cons a (.cons b r) =>
    simp only [LeavesOKM]; exact ⟨leavesOK_rawOps k a, leavesOK_rawOps v b, leavesOKM_rawOps k v r⟩
end

/-! ## non-vacuity: a user type that is not the identity on bytes -/

/-- a user type whose state is a byte string and whose `Marshal` writes it REVERSED; `Unmarshal` reverses back; a state
starting with 0xEE fails to marshal -/
def revOps : UserOps where
  size := fun v => match v with | .str s => s.length | _ => 0
  marshal := fun v => match v with
    | .str (0xEE :: _) => .err "user"
    | .str s => .ok s.reverse
    | _ => .ok []
  unmarshal := fun _ b => .ok (.str b.reverse)

/-- `struct{ A int32; U T; P *T; L []T; M map[string]T }` with `T` a user type -/
def exUC : Codec :=
  .struct (.cons 1 false false false .int32 (.cons 2 false false false .message (.cons 3 false false false (.ptr .message)
    (.cons 4 false true false (.slice .message 4 .varlen false)
      (.cons 5 true true false (.map 5 .string .message false false
        (.struct (.cons 1 false false false .string (.cons 2 false false false .message .nil)))) .nil)))))
def exUV : Val :=
  .struct (.cons (.int 7) (.cons (.str [1, 2, 3]) (.cons (.ptr (.str [4, 5])) (.cons (.list (.cons (.str [6]) (.cons (.str []) .nil)))
    (.cons (.map (.cons (.str [0x6b]) (.cons (.str [8, 9]) .nil))) .nil)))))

theorem exU_ok : LeavesOK revOps exUC exUV := by
  simp only [exUC, exUV, LeavesOK, LeavesOKFs, LeavesOKL, LeavesOKM, and_true, true_and]
  refine ⟨⟨_, rfl, rfl⟩, ⟨_, rfl, rfl⟩, ⟨⟨_, rfl, rfl⟩, ⟨_, rfl, rfl⟩⟩, ⟨_, rfl, rfl⟩⟩

/-- the bytes: every user value is ONE length-delimited record holding what its `Marshal` wrote (here: the state reversed),
an empty encoding included (`22 00`), the pointer like the value -/
theorem exU_bytes : encodeToUsr revOps exUC exUV {} 28
    = .ok [0x08, 7, 0x12, 3, 3, 2, 1, 0x1a, 2, 5, 4, 0x22, 1, 6, 0x22, 0, 0x2a, 7, 0x0a, 1, 0x6b, 0x12, 2, 9, 8] := by
  decide +kernel

/-- the error path through a message: the second element of the repeated field fails to marshal -/
theorem exU_err : encodeToUsr revOps exUC
    (.struct (.cons (.int 7) (.cons (.str [1]) (.cons .nil (.cons (.list (.cons (.str [6]) (.cons (.str [0xEE, 1]) .nil)))
      (.cons .nil .nil)))))) {} 64 = .err "user" := by
  decide +kernel

end Enc.Lemmas.ProtoMsg
