import Enc.Model.Conc.Pool
/-!
# sync.Pool exclusivity (C09, last sentence): proofs

Part 1 (thread-local, abstract): `exec p σ = some (N, R)` implies that the abstract machine started on `p` never
violates the discipline (`SafeN`, step-indexed), so a goroutine all of whose calls are `Disciplined` is safe forever.
Part 2 (global): the concrete LTS simulates the abstract machine thread by thread; the global invariant `Inv`
(pools duplicate-free, owned objects not free, ownership sets pairwise disjoint, escaped objects stay owned) is
preserved by every step of every schedule.
-/
namespace Enc.Lemmas.ConcPool
open Enc.Model.Conc.Pool

/-! ## Part 1: the abstract machine -/

/-- the abstract machine survives `n` more steps whatever the choices -/
def SafeN : Nat → List Frame → List PProg → A → Prop
  | 0, _, _, _ => True
  | n + 1, todo, calls, σ =>
    ∀ c a todo' calls', next todo calls c = some (a, todo', calls') →
      ∃ σ', aact σ a = some σ' ∧ SafeN n todo' calls' σ'

theorem SafeN.mono : ∀ n todo calls σ, SafeN (n + 1) todo calls σ → SafeN n todo calls σ := by
  intro n
  induction n with
  | zero => intros; trivial
  | succ n ih =>
    intro todo calls σ h c a todo' calls' hn
    obtain ⟨σ', ha, hs⟩ := h c a todo' calls' hn
    exact ⟨σ', ha, ih _ _ _ hs⟩

theorem execAll_sound (f : A → Option (List A × List A)) :
    ∀ l N R, execAll f l = some (N, R) → ∀ x ∈ l, ∃ n r, f x = some (n, r) ∧ (∀ y ∈ n, y ∈ N) ∧ (∀ y ∈ r, y ∈ R) := by
  intro l
  induction l with
  | nil => intro N R _ x hx; cases hx
  | cons a l ih =>
    intro N R h x hx
    simp only [execAll] at h
    cases hfa : f a with
    | none => simp [hfa] at h
    | some nr =>
      obtain ⟨n, r⟩ := nr
      cases hl : execAll f l with
      | none => simp [hfa, hl] at h
      | some nrs =>
        obtain ⟨ns, rs⟩ := nrs
        simp only [hfa, hl, Option.some.injEq, Prod.mk.injEq] at h
        obtain ⟨rfl, rfl⟩ := h
        cases hx with
        | head => exact ⟨n, r, hfa, fun y hy => List.mem_append_left _ hy, fun y hy => List.mem_append_left _ hy⟩
        | tail _ hx' =>
          obtain ⟨n', r', h1, h2, h3⟩ := ih ns rs hl x hx'
          exact ⟨n', r', h1, fun y hy => List.mem_append_right _ (h2 y hy), fun y hy => List.mem_append_right _ (h3 y hy)⟩

/-- **soundness of the abstract interpretation**: if `exec p σ` succeeds and the continuation is safe from every exit
state, then running `p` in front of the continuation is safe -/
theorem exec_sound (p : PProg) : ∀ n σ N R k cs, exec p σ = some (N, R) →
    (∀ σ' ∈ N, SafeN n k cs σ') → (∀ σ' ∈ R, SafeN n (unwind k) cs σ') → SafeN n (.run p :: k) cs σ := by
  induction p with
  | skip =>
    intro n σ N R k cs h hN hR
    cases n with
    | zero => trivial
    | succ m =>
      simp only [exec, Option.some.injEq, Prod.mk.injEq] at h
      obtain ⟨rfl, rfl⟩ := h
      intro c a todo' calls' hn
      simp only [next, Option.some.injEq, Prod.mk.injEq] at hn
      obtain ⟨rfl, rfl, rfl⟩ := hn
      exact ⟨σ, rfl, SafeN.mono _ _ _ _ (hN σ (List.mem_singleton.mpr rfl))⟩
  | ev e =>
    intro n σ N R k cs h hN hR
    cases n with
    | zero => trivial
    | succ m =>
      simp only [exec, Option.map_eq_some_iff, Prod.mk.injEq] at h
      obtain ⟨σ', he, rfl, rfl⟩ := h
      intro c a todo' calls' hn
      simp only [next, Option.some.injEq, Prod.mk.injEq] at hn
      obtain ⟨rfl, rfl, rfl⟩ := hn
      exact ⟨σ', he, SafeN.mono _ _ _ _ (hN σ' (List.mem_singleton.mpr rfl))⟩
  | ret esc =>
    intro n σ N R k cs h hN hR
    cases n with
    | zero => trivial
    | succ m =>
      simp only [exec, Option.map_eq_some_iff, Prod.mk.injEq] at h
      obtain ⟨σ', he, rfl, rfl⟩ := h
      intro c a todo' calls' hn
      simp only [next, Option.some.injEq, Prod.mk.injEq] at hn
      obtain ⟨rfl, rfl, rfl⟩ := hn
      exact ⟨σ', he, SafeN.mono _ _ _ _ (hR σ' (List.mem_singleton.mpr rfl))⟩
  | seq a b iha ihb =>
    intro n σ N R k cs h hN hR
    cases n with
    | zero => trivial
    | succ m =>
      simp only [exec] at h
      cases hea : exec a σ with
      | none => simp [hea] at h
      | some nr =>
        obtain ⟨na, ra⟩ := nr
        cases heb : execAll (exec b) na with
        | none => simp [hea, heb] at h
        | some nr2 =>
          obtain ⟨nb, rb⟩ := nr2
          simp only [hea, heb, Option.some.injEq, Prod.mk.injEq] at h
          obtain ⟨rfl, rfl⟩ := h
          intro c a' todo' calls' hn
          simp only [next, Option.some.injEq, Prod.mk.injEq] at hn
          obtain ⟨rfl, rfl, rfl⟩ := hn
          refine ⟨σ, rfl, iha m σ na ra (.run b :: k) _ hea ?_ ?_⟩
          · intro σ' hσ'
            obtain ⟨n', r', h1, h2, h3⟩ := execAll_sound _ _ _ _ heb σ' hσ'
            refine ihb m σ' n' r' k _ h1 ?_ ?_
            · intro y hy; exact SafeN.mono _ _ _ _ (hN y (h2 y hy))
            · intro y hy; exact SafeN.mono _ _ _ _ (hR y (List.mem_append_right _ (h3 y hy)))
          · intro σ' hσ'
            exact SafeN.mono _ _ _ _ (hR σ' (List.mem_append_left _ hσ'))
  | alt a b iha ihb =>
    intro n σ N R k cs h hN hR
    cases n with
    | zero => trivial
    | succ m =>
      simp only [exec] at h
      cases hea : exec a σ with
      | none => simp [hea] at h
      | some nr =>
        obtain ⟨na, ra⟩ := nr
        cases heb : exec b σ with
        | none => simp [hea, heb] at h
        | some nr2 =>
          obtain ⟨nb, rb⟩ := nr2
          simp only [hea, heb, Option.some.injEq, Prod.mk.injEq] at h
          obtain ⟨rfl, rfl⟩ := h
          intro c a' todo' calls' hn
          simp only [next, Option.some.injEq, Prod.mk.injEq] at hn
          obtain ⟨rfl, rfl, rfl⟩ := hn
          refine ⟨σ, rfl, ?_⟩
          by_cases hc : c = 0
          · simp only [hc, if_true]
            exact iha m σ na ra k _ hea
              (fun y hy => SafeN.mono _ _ _ _ (hN y (List.mem_append_left _ hy)))
              (fun y hy => SafeN.mono _ _ _ _ (hR y (List.mem_append_left _ hy)))
          · simp only [hc, if_false]
            exact ihb m σ nb rb k _ heb
              (fun y hy => SafeN.mono _ _ _ _ (hN y (List.mem_append_right _ hy)))
              (fun y hy => SafeN.mono _ _ _ _ (hR y (List.mem_append_right _ hy)))
  | loop b ihb =>
    intro n σ N R k cs h hN hR
    simp only [exec] at h
    cases he1 : exec b σ with
    | none => simp [he1] at h
    | some nr =>
      obtain ⟨n1, r1⟩ := nr
      cases he2 : execAll (exec b) (σ :: n1) with
      | none => simp [he1, he2] at h
      | some nr2 =>
        obtain ⟨n2, r2⟩ := nr2
        simp only [he1, he2] at h
        by_cases hcl : n2.all (fun x => (σ :: n1).contains x) = true
        · simp only [hcl, if_true, Option.some.injEq, Prod.mk.injEq] at h
          obtain ⟨rfl, rfl⟩ := h
          -- every state of the invariant set is safe in front of the loop, by induction on the step index
          have key : ∀ m, (∀ σ' ∈ σ :: n1, SafeN m k cs σ') → (∀ σ' ∈ r2, SafeN m (unwind k) cs σ') →
              ∀ σ' ∈ σ :: n1, SafeN m (.run (.loop b) :: k) cs σ' := by
            intro m
            induction m with
            | zero => intros; trivial
            | succ m ihm =>
              intro hN' hR' σ' hσ' c a todo' calls' hn
              simp only [next, Option.some.injEq, Prod.mk.injEq] at hn
              obtain ⟨rfl, rfl, rfl⟩ := hn
              refine ⟨σ', rfl, ?_⟩
              by_cases hc : c = 0
              · simp only [hc, if_true]
                exact SafeN.mono _ _ _ _ (hN' σ' hσ')
              · simp only [hc, if_false]
                obtain ⟨n', r', h1, h2, h3⟩ := execAll_sound _ _ _ _ he2 σ' hσ'
                refine ihb m σ' n' r' (.run (.loop b) :: k) _ h1 ?_ ?_
                · intro y hy
                  have hy2 : y ∈ σ :: n1 := by
                    have := List.all_eq_true.mp hcl y (h2 y hy)
                    simpa using this
                  exact ihm (fun z hz => SafeN.mono _ _ _ _ (hN' z hz)) (fun z hz => SafeN.mono _ _ _ _ (hR' z hz)) y hy2
                · intro y hy
                  exact SafeN.mono _ _ _ _ (hR' y (h3 y hy))
          exact key n hN hR σ (List.mem_cons_self ..)
        · rw [if_neg hcl] at h; cases h
  | call b ihb =>
    intro n σ N R k cs h hN hR
    cases n with
    | zero => trivial
    | succ m =>
      simp only [exec] at h
      cases he : exec b σ with
      | none => simp [he] at h
      | some nr =>
        obtain ⟨nb, rb⟩ := nr
        simp only [he, Option.some.injEq, Prod.mk.injEq] at h
        obtain ⟨rfl, rfl⟩ := h
        intro c a' todo' calls' hn
        simp only [next, Option.some.injEq, Prod.mk.injEq] at hn
        obtain ⟨rfl, rfl, rfl⟩ := hn
        refine ⟨σ, rfl, ihb m σ nb rb (.mark :: k) _ he ?_ ?_⟩
        · intro y hy
          cases m with
          | zero => trivial
          | succ j =>
            intro c a todo' calls' hn
            simp only [next, Option.some.injEq, Prod.mk.injEq] at hn
            obtain ⟨rfl, rfl, rfl⟩ := hn
            exact ⟨y, rfl, SafeN.mono _ _ _ _ (SafeN.mono _ _ _ _ (hN y (List.mem_append_left _ hy)))⟩
        · intro y hy
          exact SafeN.mono _ _ _ _ (hN y (List.mem_append_right _ hy))

theorem mem_goodTables : ∀ l : List St, (∀ x ∈ l, x = .unbound ∨ x = .held) → l ∈ goodTables l.length := by
  intro l
  induction l with
  | nil => intro _; simp [goodTables]
  | cons a l ih =>
    intro h
    simp only [List.length_cons, goodTables, List.mem_flatMap]
    refine ⟨l, ih (fun x hx => h x (List.mem_cons_of_mem _ hx)), ?_⟩
    rcases h a (List.mem_cons_self ..) with rfl | rfl <;> simp

/-- a goroutine whose calls are all disciplined is safe forever, from any legal call-boundary state -/
theorem calls_safe (nV nF : Nat) (cs : List PProg) (h : ∀ p ∈ cs, Disciplined nV nF p = true) :
    ∀ n σ, σ.vars.length = nV → σ.flds.length = nF → goodFlds σ = true → SafeN n [] cs σ := by
  induction cs with
  | nil =>
    intro n σ _ _ _
    cases n with
    | zero => trivial
    | succ m => intro c a todo' calls' hn; simp [next] at hn
  | cons p rest ih =>
    intro n σ hV hF hg
    cases n with
    | zero => trivial
    | succ m =>
      intro c a todo' calls' hn
      simp only [next, Option.some.injEq, Prod.mk.injEq] at hn
      obtain ⟨rfl, rfl, rfl⟩ := hn
      refine ⟨{ σ with vars := σ.vars.map fun _ => .unbound }, by simp [aact, hg], ?_⟩
      have hd := h p (List.mem_cons_self ..)
      simp only [Disciplined, Bool.and_eq_true, List.all_eq_true] at hd
      have hmem : σ.flds ∈ goodTables nF := by
        rw [← hF]
        apply mem_goodTables
        intro x hx
        have := List.all_eq_true.mp hg x hx
        simpa using this
      have hd2 := hd.2 σ.flds hmem
      have hvars : (σ.vars.map fun _ => St.unbound) = List.replicate nV .unbound := by
        rw [← hV]; simp [List.map_const']
      rw [hvars]
      cases he : exec p { vars := List.replicate nV .unbound, flds := σ.flds } with
      | none => simp [he] at hd2
      | some nr =>
        obtain ⟨N, R⟩ := nr
        simp only [he, List.all_eq_true, List.mem_append, Bool.and_eq_true, decide_eq_true_eq] at hd2
        refine exec_sound p m _ N R [] rest he ?_ ?_
        · intro y hy
          obtain ⟨⟨h1, h2⟩, h3⟩ := hd2 y (Or.inl hy)
          exact ih (fun q hq => h q (List.mem_cons_of_mem _ hq)) m y h2 h3 h1
        · intro y hy
          obtain ⟨⟨h1, h2⟩, h3⟩ := hd2 y (Or.inr hy)
          exact ih (fun q hq => h q (List.mem_cons_of_mem _ hq)) m y h2 h3 h1

/-! ## Part 2: the concrete LTS simulates the abstract machine -/

theorem A.get_set (σ : A) (r r' : Ref) (s : St) :
    (σ.set r s).get r' = if r' = r then (if σ.inRange r then s else .unbound) else σ.get r' := by
  cases r <;> cases r' <;> simp only [A.set, A.get, A.inRange, List.getElem?_set, Ref.var.injEq, Ref.field.injEq, reduceCtorEq,
    if_false] <;> (try rfl)
  all_goals
    rename_i n m
    by_cases h : m = n
    · subst h; simp only [if_true]; split <;> simp_all <;> omega
    · simp [h, Ne.symm h]

theorem A.set_len (σ : A) (r : Ref) (s : St) :
    (σ.set r s).vars.length = σ.vars.length ∧ (σ.set r s).flds.length = σ.flds.length := by
  cases r <;> simp [A.set]

theorem A.inRange_of_get {σ : A} {r : Ref} (h : σ.get r ≠ .unbound) : σ.inRange r = true := by
  cases r with
  | var n =>
    simp only [A.get, A.inRange, decide_eq_true_eq] at *
    by_cases hn : n < σ.vars.length
    · exact hn
    · rw [List.getElem?_eq_none (by omega)] at h; simp at h
  | field n =>
    simp only [A.get, A.inRange, decide_eq_true_eq] at *
    by_cases hn : n < σ.flds.length
    · exact hn
    · rw [List.getElem?_eq_none (by omega)] at h; simp at h

theorem Thread.lookup_bind (th : Thread) (r r' : Ref) (o : Option Obj) (inR : Bool)
    (hin : inR = match r with | .var n => decide (n < th.vars.length) | .field n => decide (n < th.flds.length)) :
    (th.bind r o).lookup r' = if r' = r then (if inR then o else none) else th.lookup r' := by
  subst hin
  cases r <;> cases r' <;> simp only [Thread.bind, Thread.lookup, List.getElem?_set, Ref.var.injEq, Ref.field.injEq, reduceCtorEq,
    if_false] <;> (try rfl)
  all_goals
    rename_i n m
    by_cases h : m = n
    · subst h; simp only [if_true]; split <;> simp_all <;> omega
    · simp [h, Ne.symm h]

def Own (σ : A) (r : Ref) : Prop := σ.get r = .held ∨ σ.get r = .kept

/-- the concrete thread state refines the abstract one -/
structure Rel (th : Thread) (σ : A) : Prop where
  lenV : σ.vars.length = th.vars.length
  lenF : σ.flds.length = th.flds.length
  unb : ∀ r, σ.get r = .unbound → th.lookup r = none
  own : ∀ r, Own σ r → ∃ o, th.lookup r = some o ∧ o ∈ th.held
  nk : ∀ r o, σ.get r = .held → th.lookup r = some o → o ∉ th.kept
  inj : ∀ r r' o, r ≠ r' → Own σ r → Own σ r' → th.lookup r = some o → th.lookup r' ≠ some o

theorem Rel.inR {th : Thread} {σ : A} (h : Rel th σ) (r : Ref) :
    σ.inRange r = match r with | .var n => decide (n < th.vars.length) | .field n => decide (n < th.flds.length) := by
  cases r <;> simp [A.inRange, h.lenV, h.lenF]

theorem lookupAll_one (th : Thread) (r : Ref) :
    lookupAll th [r] = match th.lookup r with | some o => [o] | none => [] := by
  simp only [lookupAll, List.filterMap]
  cases th.lookup r <;> rfl

/-- `store r` / escaping through r: the object (if any) joins `kept`; it is owned and stays owned -/
theorem rel_store {th : Thread} {σ σ' : A} {r : Ref} (h : Rel th σ) (hk : ∀ o ∈ th.kept, o ∈ th.held)
    (ha : aev σ (.store r) = some σ') :
    Rel { th with kept := lookupAll th [r] ++ th.kept } σ' ∧ (∀ o ∈ lookupAll th [r] ++ th.kept, o ∈ th.held) := by
  simp only [aev] at ha
  rw [lookupAll_one]
  cases hs : σ.get r with
  | released => simp [hs] at ha
  | unbound =>
    simp only [hs, Option.some.injEq] at ha; subst ha
    simp only [h.unb r hs, List.nil_append]
    exact ⟨h, hk⟩
  | kept =>
    simp only [hs, Option.some.injEq] at ha; subst ha
    obtain ⟨o, ho, hoh⟩ := h.own r (Or.inr hs)
    simp only [ho]
    refine ⟨⟨h.lenV, h.lenF, h.unb, h.own, ?_, h.inj⟩, ?_⟩
    · intro r' o' hr' hl' hmem
      simp only [List.cons_append, List.nil_append, List.mem_cons] at hmem
      rcases hmem with rfl | hmem
      · have hne : r ≠ r' := by intro e; subst e; rw [hs] at hr'; cases hr'
        exact h.inj r r' o' hne (Or.inr hs) (Or.inl hr') ho hl'
      · exact h.nk r' o' hr' hl' hmem
    · intro o' hmem
      simp only [List.cons_append, List.nil_append, List.mem_cons] at hmem
      rcases hmem with rfl | hmem
      · exact hoh
      · exact hk _ hmem
  | held =>
    simp only [hs, Option.some.injEq] at ha; subst ha
    obtain ⟨o, ho, hoh⟩ := h.own r (Or.inl hs)
    have hin : σ.inRange r = true := A.inRange_of_get (by rw [hs]; simp)
    have hget : ∀ r', (σ.set r .kept).get r' = if r' = r then .kept else σ.get r' := by
      intro r'; rw [A.get_set, hin]; simp
    simp only [ho]
    have hown : ∀ r', Own (σ.set r .kept) r' → Own σ r' := by
      intro r' h'
      unfold Own at *
      rw [hget] at h'
      by_cases e : r' = r
      · subst e; exact Or.inl hs
      · simpa [e] using h'
    refine ⟨⟨?_, ?_, ?_, ?_, ?_, ?_⟩, ?_⟩
    · rw [(A.set_len σ r .kept).1]; exact h.lenV
    · rw [(A.set_len σ r .kept).2]; exact h.lenF
    · intro r' hr'
      rw [hget] at hr'
      by_cases e : r' = r
      · simp [e] at hr'
      · simp only [e, if_false] at hr'; exact h.unb r' hr'
    · intro r' hr'; exact h.own r' (hown r' hr')
    · intro r' o' hr' hl' hmem
      rw [hget] at hr'
      by_cases e : r' = r
      · simp [e] at hr'
      · simp only [e, if_false] at hr'
        simp only [List.cons_append, List.nil_append, List.mem_cons] at hmem
        rcases hmem with rfl | hmem
        · exact h.inj r r' o' (Ne.symm e) (Or.inl hs) (Or.inl hr') ho hl'
        · exact h.nk r' o' hr' hl' hmem
    · intro r1 r2 o' hne h1 h2; exact h.inj r1 r2 o' hne (hown r1 h1) (hown r2 h2)
    · intro o' hmem
      simp only [List.cons_append, List.nil_append, List.mem_cons] at hmem
      rcases hmem with rfl | hmem
      · exact hoh
      · exact hk _ hmem

theorem aret_eq (σ : A) (r : Ref) (rs : List Ref) :
    aret σ (r :: rs) = (aev σ (.store r)).bind fun σ1 => aret σ1 rs := by
  simp only [aret, aev]
  cases σ.get r <;> rfl

theorem lookupAll_cons (th : Thread) (r : Ref) (rs : List Ref) :
    lookupAll th (r :: rs) = lookupAll th [r] ++ lookupAll th rs := by
  simp only [lookupAll, List.filterMap]
  cases th.lookup r <;> rfl

/-- Rel only looks at membership in `kept` -/
theorem Rel.congr_kept {th : Thread} {σ : A} {K K' : List Obj} (h : Rel { th with kept := K } σ)
    (hK : ∀ o, o ∈ K' ↔ o ∈ K) : Rel { th with kept := K' } σ :=
  ⟨h.lenV, h.lenF, h.unb, h.own, fun r o hr hl hm => h.nk r o hr hl ((hK o).mp hm), h.inj⟩

theorem rel_ret {th : Thread} : ∀ (esc : List Ref) (σ σ' : A) (K : List Obj), Rel { th with kept := K } σ →
    (∀ o ∈ K, o ∈ th.held) → aret σ esc = some σ' →
    Rel { th with kept := lookupAll th esc ++ K } σ' ∧ (∀ o ∈ lookupAll th esc ++ K, o ∈ th.held) := by
  intro esc
  induction esc with
  | nil =>
    intro σ σ' K h hk ha
    simp only [aret, Option.some.injEq] at ha; subst ha
    exact ⟨h, hk⟩
  | cons r rs ih =>
    intro σ σ' K h hk ha
    rw [aret_eq] at ha
    cases h1 : aev σ (.store r) with
    | none => simp [h1] at ha
    | some σ1 =>
      simp only [h1, Option.bind_some] at ha
      obtain ⟨hr1, hk1⟩ := rel_store (th := { th with kept := K }) h hk h1
      have e1 : lookupAll { th with kept := K } [r] = lookupAll th [r] := rfl
      rw [e1] at hr1 hk1
      obtain ⟨hr2, hk2⟩ := ih σ1 σ' (lookupAll th [r] ++ K) hr1 hk1 ha
      rw [lookupAll_cons]
      refine ⟨Rel.congr_kept hr2 ?_, ?_⟩
      · intro o; simp only [List.mem_append]; grind
      · intro o ho
        apply hk2
        simp only [List.mem_append] at ho ⊢
        grind

/-- Get: r is bound to an object nobody in this thread owns -/
theorem rel_get {th : Thread} {σ : A} {r : Ref} {o : Obj} (h : Rel th σ) (hk : ∀ o ∈ th.kept, o ∈ th.held)
    (hin : σ.inRange r = true) (hnew : o ∉ th.held) :
    Rel { th.bind r (some o) with held := o :: th.held } (σ.set r .held) := by
  have hget : ∀ r', (σ.set r .held).get r' = if r' = r then .held else σ.get r' := by
    intro r'; rw [A.get_set, hin]; simp
  have hlk : ∀ r', Thread.lookup { th.bind r (some o) with held := o :: th.held } r' =
      if r' = r then some o else th.lookup r' := by
    intro r'
    have := Thread.lookup_bind th r r' (some o) (σ.inRange r) (h.inR r)
    rw [hin] at this
    have e : Thread.lookup { th.bind r (some o) with held := o :: th.held } r' = (th.bind r (some o)).lookup r' := by
      cases r' <;> rfl
    rw [e, this]; simp
  have hkept : Thread.kept { th.bind r (some o) with held := o :: th.held } = th.kept := by cases r <;> rfl
  refine ⟨?_, ?_, ?_, ?_, ?_, ?_⟩
  · rw [(A.set_len σ r .held).1]; cases r <;> simp [Thread.bind, h.lenV]
  · rw [(A.set_len σ r .held).2]; cases r <;> simp [Thread.bind, h.lenF]
  · intro r' hr'
    rw [hget] at hr'; rw [hlk]
    by_cases e : r' = r
    · simp [e] at hr'
    · simp only [e, if_false] at hr' ⊢; exact h.unb r' hr'
  · intro r' hr'
    unfold Own at hr'
    rw [hget] at hr'; rw [hlk]
    by_cases e : r' = r
    · exact ⟨o, by simp [e], List.mem_cons_self ..⟩
    · simp only [e, if_false] at hr' ⊢
      obtain ⟨o', h1, h2⟩ := h.own r' hr'
      exact ⟨o', h1, List.mem_cons_of_mem _ h2⟩
  · intro r' o' hr' hl' hm
    rw [hget] at hr'; rw [hlk] at hl'; rw [hkept] at hm
    by_cases e : r' = r
    · simp only [e, if_true, Option.some.injEq] at hl'; subst hl'
      exact hnew (hk _ hm)
    · simp only [e, if_false] at hr' hl'
      exact h.nk r' o' hr' hl' hm
  · intro r1 r2 o' hne h1 h2 hl1 hl2
    unfold Own at h1 h2
    rw [hget] at h1 h2; rw [hlk] at hl1 hl2
    by_cases e1 : r1 = r
    · have e2 : r2 ≠ r := fun e => hne (e1.trans e.symm)
      simp only [e1, if_true, Option.some.injEq] at hl1; subst hl1
      simp only [e2, if_false] at h2 hl2
      obtain ⟨o', h3, h4⟩ := h.own r2 h2
      rw [hl2] at h3; cases h3
      exact hnew h4
    · simp only [e1, if_false] at h1 hl1
      by_cases e2 : r2 = r
      · simp only [e2, if_true, Option.some.injEq] at hl2; subst hl2
        obtain ⟨o', h3, h4⟩ := h.own r1 h1
        rw [hl1] at h3; cases h3
        exact hnew h4
      · simp only [e2, if_false] at h2 hl2
        exact h.inj r1 r2 o' hne h1 h2 hl1 hl2

/-- Put of a held ref -/
theorem rel_put {th : Thread} {σ : A} {r : Ref} {o : Obj} (h : Rel th σ) (hk : ∀ o ∈ th.kept, o ∈ th.held)
    (hs : σ.get r = .held) (ho : th.lookup r = some o) :
    Rel { th with held := th.held.filter (· ≠ o) } (σ.set r .released) ∧
      (∀ o' ∈ th.kept, o' ∈ th.held.filter (· ≠ o)) := by
  have hin : σ.inRange r = true := A.inRange_of_get (by rw [hs]; simp)
  have hget : ∀ r', (σ.set r .released).get r' = if r' = r then .released else σ.get r' := by
    intro r'; rw [A.get_set, hin]; simp
  have hown : ∀ r', Own (σ.set r .released) r' → r' ≠ r ∧ Own σ r' := by
    intro r' h'
    unfold Own at *
    rw [hget] at h'
    by_cases e : r' = r
    · simp [e] at h'
    · exact ⟨e, by simpa [e] using h'⟩
  refine ⟨⟨?_, ?_, ?_, ?_, ?_, ?_⟩, ?_⟩
  · rw [(A.set_len σ r .released).1]; exact h.lenV
  · rw [(A.set_len σ r .released).2]; exact h.lenF
  · intro r' hr'
    rw [hget] at hr'
    by_cases e : r' = r
    · simp [e] at hr'
    · simp only [e, if_false] at hr'; exact h.unb r' hr'
  · intro r' hr'
    obtain ⟨e, hr''⟩ := hown r' hr'
    obtain ⟨o', h1, h2⟩ := h.own r' hr''
    refine ⟨o', h1, ?_⟩
    simp only [List.mem_filter, h2, true_and, decide_eq_true_eq]
    intro eo; subst eo
    exact h.inj r r' o' (Ne.symm e) (Or.inl hs) hr'' ho h1
  · intro r' o' hr' hl' hm
    rw [hget] at hr'
    by_cases e : r' = r
    · simp [e] at hr'
    · simp only [e, if_false] at hr'; exact h.nk r' o' hr' hl' hm
  · intro r1 r2 o' hne h1 h2
    exact h.inj r1 r2 o' hne (hown r1 h1).2 (hown r2 h2).2
  · intro o' hm
    simp only [List.mem_filter, hk o' hm, true_and, decide_eq_true_eq]
    intro eo; subst eo
    exact h.nk r o' hs ho hm

theorem rel_clear {th : Thread} {σ : A} {r : Ref} (h : Rel th σ) :
    Rel (th.bind r none) (σ.set r .unbound) := by
  have hget : ∀ r', (σ.set r .unbound).get r' = if r' = r then .unbound else σ.get r' := by
    intro r'; rw [A.get_set]; by_cases e : r' = r <;> simp [e]
  have hlk : ∀ r', (th.bind r none).lookup r' = if r' = r then none else th.lookup r' := by
    intro r'
    have := Thread.lookup_bind th r r' none (σ.inRange r) (h.inR r)
    rw [this]; by_cases e : r' = r <;> simp [e]
  have hheld : (th.bind r none).held = th.held := by cases r <;> rfl
  have hkept : (th.bind r none).kept = th.kept := by cases r <;> rfl
  have hown : ∀ r', Own (σ.set r .unbound) r' → r' ≠ r ∧ Own σ r' := by
    intro r' h'
    unfold Own at *
    rw [hget] at h'
    by_cases e : r' = r
    · simp [e] at h'
    · exact ⟨e, by simpa [e] using h'⟩
  refine ⟨?_, ?_, ?_, ?_, ?_, ?_⟩
  · rw [(A.set_len σ r .unbound).1]; cases r <;> simp [Thread.bind, h.lenV]
  · rw [(A.set_len σ r .unbound).2]; cases r <;> simp [Thread.bind, h.lenF]
  · intro r' hr'
    rw [hget] at hr'; rw [hlk]
    by_cases e : r' = r
    · simp [e]
    · simp only [e, if_false] at hr' ⊢; exact h.unb r' hr'
  · intro r' hr'
    obtain ⟨e, hr''⟩ := hown r' hr'
    rw [hlk, hheld]; simp only [e, if_false]; exact h.own r' hr''
  · intro r' o' hr' hl' hm
    rw [hget] at hr'; rw [hlk] at hl'; rw [hkept] at hm
    by_cases e : r' = r
    · simp [e] at hr'
    · simp only [e, if_false] at hr' hl'; exact h.nk r' o' hr' hl' hm
  · intro r1 r2 o' hne h1 h2 hl1 hl2
    obtain ⟨e1, h1'⟩ := hown r1 h1
    obtain ⟨e2, h2'⟩ := hown r2 h2
    rw [hlk] at hl1 hl2
    simp only [e1, e2, if_false] at hl1 hl2
    exact h.inj r1 r2 o' hne h1' h2' hl1 hl2

theorem rel_startCall {th : Thread} {σ : A} (h : Rel th σ) :
    Rel { th with vars := th.vars.map fun _ => none } { σ with vars := σ.vars.map fun _ => .unbound } := by
  have hget : ∀ r, A.get { σ with vars := σ.vars.map fun _ => St.unbound } r =
      match r with | .var _ => .unbound | .field n => σ.get (.field n) := by
    intro r; cases r with
    | var n => simp only [A.get, List.getElem?_map]; cases σ.vars[n]? <;> rfl
    | field n => rfl
  have hlk : ∀ r, Thread.lookup { th with vars := th.vars.map fun _ => none } r =
      match r with | .var _ => none | .field n => th.lookup (.field n) := by
    intro r; cases r with
    | var n => simp only [Thread.lookup, List.getElem?_map]; cases th.vars[n]? <;> rfl
    | field n => rfl
  have hown : ∀ r, Own { σ with vars := σ.vars.map fun _ => St.unbound } r → ∃ n, r = .field n ∧ Own σ r := by
    intro r h'
    unfold Own at *
    rw [hget] at h'
    cases r with
    | var n => simp at h'
    | field n => exact ⟨n, rfl, h'⟩
  refine ⟨?_, ?_, ?_, ?_, ?_, ?_⟩
  · simp [h.lenV]
  · exact h.lenF
  · intro r hr
    rw [hget] at hr; rw [hlk]
    cases r with
    | var n => rfl
    | field n => exact h.unb _ hr
  · intro r hr
    obtain ⟨n, rfl, hr'⟩ := hown r hr
    exact h.own _ hr'
  · intro r o hr hl hm
    rw [hget] at hr
    cases r with
    | var n => cases hr
    | field n => exact h.nk _ o hr hl hm
  · intro r1 r2 o hne h1 h2 hl1 hl2
    obtain ⟨n1, rfl, h1'⟩ := hown r1 h1
    obtain ⟨n2, rfl, h2'⟩ := hown r2 h2
    exact h.inj _ _ o hne h1' h2' hl1 hl2

/-- what an action does to the pools and to the ownership set of the acting thread -/
inductive Kind (free : List (Nat × Obj)) (fresh : Nat) (th : Thread) (res : List (Nat × Obj) × Nat × Thread) : Prop
  | quiet (h1 : res.1 = free) (h2 : res.2.1 = fresh) (h3 : res.2.2.held = th.held)
  | getFree (e : Nat × Obj) (he : e ∈ free) (h1 : res.1 = free.erase e) (h2 : res.2.1 = fresh)
      (h3 : res.2.2.held = e.2 :: th.held)
  | getFresh (h1 : res.1 = free) (h2 : res.2.1 = fresh + 1) (h3 : res.2.2.held = fresh :: th.held)
  | put (p : Nat) (o : Obj) (ho : o ∈ th.held) (h1 : res.1 = (p, o) :: free) (h2 : res.2.1 = fresh)
      (h3 : res.2.2.held = th.held.filter (· ≠ o))

theorem act_rel (free : List (Nat × Obj)) (fresh : Nat) (th : Thread) (σ σ' : A) (a : Action) (c : Nat)
    (h : Rel th σ) (hk : ∀ o ∈ th.kept, o ∈ th.held) (ha : aact σ a = some σ')
    (hfree : ∀ e ∈ free, e.2 ∉ th.held) (hfresh : fresh ∉ th.held) :
    Rel (act free fresh th a c).2.2 σ' ∧
    (∀ o ∈ (act free fresh th a c).2.2.kept, o ∈ (act free fresh th a c).2.2.held) ∧
    (act free fresh th a c).2.2.todo = th.todo ∧ (act free fresh th a c).2.2.calls = th.calls ∧
    Kind free fresh th (act free fresh th a c) := by
  cases a with
  | tau =>
    simp only [aact, Option.some.injEq] at ha; subst ha
    exact ⟨h, hk, rfl, rfl, .quiet rfl rfl rfl⟩
  | startCall =>
    simp only [aact] at ha
    split at ha
    · simp only [Option.some.injEq] at ha; subst ha
      exact ⟨rel_startCall h, hk, rfl, rfl, .quiet rfl rfl rfl⟩
    · cases ha
  | ret esc =>
    simp only [aact] at ha
    obtain ⟨h1, h2⟩ := rel_ret (th := th) esc σ σ' th.kept h hk ha
    exact ⟨h1, h2, rfl, rfl, .quiet rfl rfl rfl⟩
  | ev e =>
    simp only [aact] at ha
    cases e with
    | use r =>
      simp only [aev] at ha
      split at ha
      · cases ha
      · simp only [Option.some.injEq] at ha; subst ha
        exact ⟨h, hk, rfl, rfl, .quiet rfl rfl rfl⟩
    | callOut r =>
      simp only [aev] at ha
      split at ha
      · cases ha
      · simp only [Option.some.injEq] at ha; subst ha
        exact ⟨h, hk, rfl, rfl, .quiet rfl rfl rfl⟩
    | store r =>
      obtain ⟨h1, h2⟩ := rel_store h hk ha
      exact ⟨h1, h2, rfl, rfl, .quiet rfl rfl rfl⟩
    | clear r =>
      simp only [aev, Option.some.injEq] at ha; subst ha
      have hheld : (th.bind r none).held = th.held := by cases r <;> rfl
      have hkept : (th.bind r none).kept = th.kept := by cases r <;> rfl
      refine ⟨rel_clear h, ?_, by cases r <;> rfl, by cases r <;> rfl, .quiet rfl rfl hheld⟩
      simp only [act, hheld, hkept]; exact hk
    | get p r =>
      simp only [aev] at ha
      split at ha
      · rename_i hin
        simp only [Option.some.injEq] at ha; subst ha
        have hkept : ∀ o : Obj, Thread.kept { th.bind r (some o) with held := o :: th.held } = th.kept := by
          intro o; cases r <;> rfl
        cases hc : (cands free p)[c]? with
        | some e =>
          have hmem : e ∈ free := (List.mem_filter.mp (List.mem_of_getElem? hc)).1
          simp only [act, hc]
          refine ⟨rel_get h hk hin (hfree e hmem), ?_, by cases r <;> rfl, by cases r <;> rfl, .getFree e hmem rfl rfl rfl⟩
          intro o ho; rw [hkept] at ho; exact List.mem_cons_of_mem _ (hk o ho)
        | none =>
          simp only [act, hc]
          refine ⟨rel_get h hk hin hfresh, ?_, by cases r <;> rfl, by cases r <;> rfl, .getFresh rfl rfl rfl⟩
          intro o ho; rw [hkept] at ho; exact List.mem_cons_of_mem _ (hk o ho)
      · cases ha
    | put p r =>
      simp only [aev] at ha
      cases hs : σ.get r with
      | released => simp [hs] at ha
      | kept => simp [hs] at ha
      | unbound =>
        simp only [hs, Option.some.injEq] at ha; subst ha
        have hact : act free fresh th (.ev (.put p r)) c = (free, fresh, th) := by simp only [act, h.unb r hs]
        rw [hact]
        exact ⟨h, hk, rfl, rfl, .quiet rfl rfl rfl⟩
      | held =>
        simp only [hs, Option.some.injEq] at ha; subst ha
        obtain ⟨o, ho, hoh⟩ := h.own r (Or.inl hs)
        obtain ⟨h1, h2⟩ := rel_put h hk hs ho
        have hact : act free fresh th (.ev (.put p r)) c =
            ((p, o) :: free, fresh, { th with held := th.held.filter (· ≠ o) }) := by simp only [act, ho]
        rw [hact]
        exact ⟨h1, h2, rfl, rfl, .put p o hoh rfl rfl rfl⟩

/-- whatever a safe thread touches, it owns -/
theorem touched_owned {th : Thread} {σ σ' : A} {a : Action} (h : Rel th σ) (hk : ∀ o ∈ th.kept, o ∈ th.held)
    (ha : aact σ a = some σ') :
    ∀ o ∈ touched th a, o ∈ th.held := by
  have one : ∀ r, σ.get r ≠ .released → ∀ o ∈ lookupAll th [r], o ∈ th.held := by
    intro r hr o ho
    rw [lookupAll_one] at ho
    cases hs : σ.get r with
    | released => exact absurd hs hr
    | unbound => rw [h.unb r hs] at ho; cases ho
    | held =>
      obtain ⟨o', h1, h2⟩ := h.own r (Or.inl hs)
      rw [h1] at ho; simp only [List.mem_singleton] at ho; subst ho; exact h2
    | kept =>
      obtain ⟨o', h1, h2⟩ := h.own r (Or.inr hs)
      rw [h1] at ho; simp only [List.mem_singleton] at ho; subst ho; exact h2
  cases a with
  | tau => intro o ho; cases ho
  | startCall => intro o ho; cases ho
  | ret esc =>
    simp only [aact] at ha
    intro o ho
    simp only [touched] at ho
    exact (rel_ret (th := th) esc σ σ' th.kept h hk ha).2 o (List.mem_append_left _ ho)
  | ev e =>
    simp only [aact] at ha
    cases e with
    | get p r => intro o ho; cases ho
    | clear r => intro o ho; cases ho
    | use r =>
      simp only [aev] at ha
      split at ha
      · cases ha
      · rename_i hne; exact one r hne
    | callOut r =>
      simp only [aev] at ha
      split at ha
      · cases ha
      · rename_i hne; exact one r hne
    | store r =>
      simp only [aev] at ha
      refine one r ?_
      intro hs; simp [hs] at ha
    | put p r =>
      simp only [aev] at ha
      refine one r ?_
      intro hs; simp [hs] at ha

/-! ### the global invariant -/

structure Inv (s : State) : Prop where
  /-- no object is twice in the pools -/
  freeNodup : (s.free.map (·.2)).Nodup
  /-- no object is simultaneously free and owned -/
  heldFree : ∀ (i : Nat) (th : Thread), s.threads[i]? = some th → ∀ o ∈ th.held, o ∉ s.free.map (·.2)
  /-- no object is owned by two goroutines -/
  disj : ∀ (i j : Nat) (thi thj : Thread), i ≠ j → s.threads[i]? = some thi → s.threads[j]? = some thj → ∀ o ∈ thi.held, o ∉ thj.held
  freshF : ∀ e ∈ s.free, e.2 < s.fresh
  freshH : ∀ (i : Nat) (th : Thread), s.threads[i]? = some th → ∀ o ∈ th.held, o < s.fresh
  /-- an object that escaped to a caller stays owned by that goroutine for ever -/
  keptHeld : ∀ (i : Nat) (th : Thread), s.threads[i]? = some th → ∀ o ∈ th.kept, o ∈ th.held
  /-- every goroutine refines a state of the abstract machine from which the discipline is never violated -/
  safe : ∀ (i : Nat) (th : Thread), s.threads[i]? = some th → ∃ σ, Rel th σ ∧ ∀ n, SafeN n th.todo th.calls σ

theorem getElem?_setNth {α : Type} (x : α) : ∀ (l : List α) (i j : Nat),
    (setNth l i x)[j]? = if j = i then l[i]?.map (fun _ => x) else l[j]? := by
  intro l
  induction l with
  | nil => intro i j; simp [setNth]
  | cons a l ih =>
    intro i j
    cases i with
    | zero => cases j <;> simp [setNth]
    | succ i =>
      cases j with
      | zero => simp [setNth]
      | succ j => simp only [setNth, List.getElem?_cons_succ, ih i j, Nat.add_right_cancel_iff]

theorem inv_update (s : State) (i : Nat) (th th' : Thread) (free' : List (Nat × Obj)) (fresh' : Nat)
    (hI : Inv s) (hth : s.threads[i]? = some th)
    (hND : (free'.map (·.2)).Nodup)
    (hHFi : ∀ o ∈ th'.held, o ∉ free'.map (·.2))
    (hHFo : ∀ (j : Nat) (thj : Thread), j ≠ i → s.threads[j]? = some thj → ∀ o ∈ thj.held, o ∉ free'.map (·.2))
    (hD : ∀ (j : Nat) (thj : Thread), j ≠ i → s.threads[j]? = some thj → ∀ o ∈ th'.held, o ∉ thj.held)
    (hFF : ∀ e ∈ free', e.2 < fresh') (hFHi : ∀ o ∈ th'.held, o < fresh') (hmono : s.fresh ≤ fresh')
    (hKH : ∀ o ∈ th'.kept, o ∈ th'.held)
    (hS : ∃ σ, Rel th' σ ∧ ∀ n, SafeN n th'.todo th'.calls σ) :
    Inv { free := free', fresh := fresh', threads := setNth s.threads i th' } := by
  have look : ∀ j thj, (setNth s.threads i th')[j]? = some thj →
      (j = i ∧ thj = th') ∨ (j ≠ i ∧ s.threads[j]? = some thj) := by
    intro j thj h
    rw [getElem?_setNth] at h
    by_cases e : j = i
    · simp only [e, if_true, hth, Option.map_some, Option.some.injEq] at h
      exact Or.inl ⟨e, h.symm⟩
    · simp only [e, if_false] at h; exact Or.inr ⟨e, h⟩
  refine ⟨hND, ?_, ?_, hFF, ?_, ?_, ?_⟩
  · intro j thj hj
    rcases look j thj hj with ⟨_, rfl⟩ | ⟨e, hj'⟩
    · exact hHFi
    · exact hHFo j thj e hj'
  · intro j1 j2 t1 t2 hne h1 h2 o ho
    rcases look j1 t1 h1 with ⟨e1, rfl⟩ | ⟨e1, h1'⟩ <;> rcases look j2 t2 h2 with ⟨e2, rfl⟩ | ⟨e2, h2'⟩
    · exact absurd (e1.trans e2.symm) hne
    · exact hD j2 t2 e2 h2' o ho
    · intro ho2; exact hD j1 t1 e1 h1' o ho2 ho
    · exact hI.disj j1 j2 t1 t2 hne h1' h2' o ho
  · intro j thj hj o ho
    rcases look j thj hj with ⟨_, rfl⟩ | ⟨e, hj'⟩
    · exact hFHi o ho
    · exact Nat.lt_of_lt_of_le (hI.freshH j thj hj' o ho) hmono
  · intro j thj hj
    rcases look j thj hj with ⟨_, rfl⟩ | ⟨e, hj'⟩
    · exact hKH
    · exact hI.keptHeld j thj hj'
  · intro j thj hj
    rcases look j thj hj with ⟨_, rfl⟩ | ⟨e, hj'⟩
    · exact hS
    · exact hI.safe j thj hj'

theorem not_mem_erase_snd : ∀ (l : List (Nat × Obj)) (e : Nat × Obj), (l.map (·.2)).Nodup → e ∈ l →
    e.2 ∉ (l.erase e).map (·.2) := by
  intro l
  induction l with
  | nil => intro e _ h; cases h
  | cons a l ih =>
    intro e hnd he
    simp only [List.map_cons, List.nodup_cons] at hnd
    by_cases hae : a = e
    · subst hae; simp only [List.erase_cons_head]; exact hnd.1
    · have hne : (a == e) = false := by simpa using hae
      rw [List.erase_cons, hne]
      simp only [Bool.false_eq_true, if_false, List.map_cons, List.mem_cons, not_or]
      have he' : e ∈ l := by
        rcases List.mem_cons.mp he with h | h
        · exact absurd h.symm hae
        · exact h
      refine ⟨?_, ih e hnd.2 he'⟩
      intro h
      exact hnd.1 (h ▸ List.mem_map_of_mem (f := fun x : Nat × Obj => x.2) he')

theorem mem_erase_snd {l : List (Nat × Obj)} {e : Nat × Obj} {o : Obj} (h : o ∈ (l.erase e).map (·.2)) :
    o ∈ l.map (·.2) := by
  obtain ⟨x, hx, rfl⟩ := List.mem_map.mp h
  exact List.mem_map_of_mem (List.mem_of_mem_erase hx)

/-- **every step of every goroutine preserves the invariant** -/
theorem step_inv (s : State) (ic : Nat × Nat) (hI : Inv s) : Inv (step s ic) := by
  unfold step
  cases hth : s.threads[ic.1]? with
  | none => exact hI
  | some th =>
    simp only []
    cases hn : next th.todo th.calls ic.2 with
    | none => exact hI
    | some r =>
      obtain ⟨a, todo', calls'⟩ := r
      simp only []
      obtain ⟨σ, hrel, hsafe⟩ := hI.safe _ th hth
      obtain ⟨σ', ha, _⟩ := hsafe 1 ic.2 a todo' calls' hn
      have hsafe' : ∀ n, SafeN n todo' calls' σ' := by
        intro n
        obtain ⟨σ'', ha', hs⟩ := hsafe (n + 1) ic.2 a todo' calls' hn
        rw [ha] at ha'; cases ha'; exact hs
      have hk := hI.keptHeld _ th hth
      have hHF := hI.heldFree _ th hth
      have hFH := hI.freshH _ th hth
      have hrel0 : Rel { th with todo := todo', calls := calls' } σ :=
        ⟨hrel.lenV, hrel.lenF, hrel.unb, hrel.own, hrel.nk, hrel.inj⟩
      have hfree0 : ∀ e ∈ s.free, e.2 ∉ th.held := fun e he h =>
        hHF e.2 h (List.mem_map_of_mem he)
      have hfresh0 : s.fresh ∉ th.held := fun h => Nat.lt_irrefl _ (hFH _ h)
      obtain ⟨hr', hk', htodo, hcalls, hkind⟩ :=
        act_rel s.free s.fresh { th with todo := todo', calls := calls' } σ σ' a ic.2 hrel0 hk ha hfree0 hfresh0
      generalize act s.free s.fresh { th with todo := todo', calls := calls' } a ic.2 = res at *
      obtain ⟨free', fresh', th'⟩ := res
      simp only [] at hr' hk' htodo hcalls hkind ⊢
      have hS : ∃ σ, Rel th' σ ∧ ∀ n, SafeN n th'.todo th'.calls σ := by
        refine ⟨σ', hr', ?_⟩
        rw [htodo, hcalls]; exact hsafe'
      cases hkind with
      | quiet h1 h2 h3 =>
        simp only [] at h1 h2 h3; subst h1; subst h2
        refine inv_update s ic.1 th th' _ _ hI hth hI.freeNodup ?_ ?_ ?_ hI.freshF ?_ (Nat.le_refl _) hk' hS
        · rw [h3]; exact hHF
        · intro j thj _ hj; exact hI.heldFree j thj hj
        · intro j thj e hj o ho; rw [h3] at ho; exact hI.disj _ j th thj (Ne.symm e) hth hj o ho
        · rw [h3]; exact hFH
      | getFree e he h1 h2 h3 =>
        simp only [] at h1 h2 h3; subst h1; subst h2
        refine inv_update s ic.1 th th' _ _ hI hth ?_ ?_ ?_ ?_ ?_ ?_ (Nat.le_refl _) hk' hS
        · exact List.Nodup.sublist ((List.erase_sublist).map _) hI.freeNodup
        · intro o ho; rw [h3] at ho
          rcases List.mem_cons.mp ho with rfl | ho
          · exact not_mem_erase_snd _ _ hI.freeNodup he
          · intro hm; exact hHF o ho (mem_erase_snd hm)
        · intro j thj _ hj o ho hm; exact hI.heldFree j thj hj o ho (mem_erase_snd hm)
        · intro j thj ej hj o ho; rw [h3] at ho
          rcases List.mem_cons.mp ho with rfl | ho
          · intro hm; exact hI.heldFree j thj hj _ hm (List.mem_map_of_mem he)
          · exact hI.disj _ j th thj (Ne.symm ej) hth hj o ho
        · intro e' he'; exact hI.freshF e' (List.mem_of_mem_erase he')
        · intro o ho; rw [h3] at ho
          rcases List.mem_cons.mp ho with rfl | ho
          · exact hI.freshF e he
          · exact hFH o ho
      | getFresh h1 h2 h3 =>
        simp only [] at h1 h2 h3; subst h1; subst h2
        refine inv_update s ic.1 th th' _ _ hI hth hI.freeNodup ?_ ?_ ?_ ?_ ?_ (Nat.le_succ _) hk' hS
        · intro o ho; rw [h3] at ho
          rcases List.mem_cons.mp ho with rfl | ho
          · intro hm
            obtain ⟨x, hx, hxe⟩ := List.mem_map.mp hm
            have h2 := hI.freshF x hx
            have hxe' : x.2 = s.fresh := hxe
            rw [hxe'] at h2; exact Nat.lt_irrefl _ h2
          · exact hHF o ho
        · intro j thj _ hj; exact hI.heldFree j thj hj
        · intro j thj ej hj o ho; rw [h3] at ho
          rcases List.mem_cons.mp ho with rfl | ho
          · intro hm; exact Nat.lt_irrefl _ (hI.freshH j thj hj _ hm)
          · exact hI.disj _ j th thj (Ne.symm ej) hth hj o ho
        · intro e he; exact Nat.lt_succ_of_lt (hI.freshF e he)
        · intro o ho; rw [h3] at ho
          rcases List.mem_cons.mp ho with rfl | ho
          · exact Nat.lt_succ_self _
          · exact Nat.lt_succ_of_lt (hFH o ho)
      | put p o hoh h1 h2 h3 =>
        simp only [] at h1 h2 h3 hoh; subst h1; subst h2
        have hsub : ∀ o' ∈ th'.held, o' ∈ th.held ∧ o' ≠ o := by
          intro o' ho'; rw [h3] at ho'
          have := List.mem_filter.mp ho'
          exact ⟨this.1, by simpa using this.2⟩
        refine inv_update s ic.1 th th' _ _ hI hth ?_ ?_ ?_ ?_ ?_ ?_ (Nat.le_refl _) hk' hS
        · simp only [List.map_cons, List.nodup_cons]
          exact ⟨hHF o hoh, hI.freeNodup⟩
        · intro o' ho' hm
          obtain ⟨h4, h5⟩ := hsub o' ho'
          simp only [List.map_cons, List.mem_cons] at hm
          rcases hm with hm | hm
          · exact h5 hm
          · exact hHF o' h4 hm
        · intro j thj ej hj o' ho' hm
          simp only [List.map_cons, List.mem_cons] at hm
          rcases hm with hm | hm
          · subst hm; exact hI.disj _ j th thj (Ne.symm ej) hth hj _ hoh ho'
          · exact hI.heldFree j thj hj o' ho' hm
        · intro j thj ej hj o' ho'
          exact hI.disj _ j th thj (Ne.symm ej) hth hj o' (hsub o' ho').1
        · intro e he
          rcases List.mem_cons.mp he with rfl | he
          · exact hFH o hoh
          · exact hI.freshF e he
        · intro o' ho'; exact hFH o' (hsub o' ho').1

theorem run_inv (s : State) (sched : List (Nat × Nat)) (hI : Inv s) : Inv (run s sched) := by
  unfold run
  induction sched generalizing s with
  | nil => exact hI
  | cons ic rest ih => exact ih (step s ic) (step_inv s ic hI)

theorem init_inv (nV nF : Nat) (progs : List (List PProg))
    (hD : ∀ cs ∈ progs, ∀ p ∈ cs, Disciplined nV nF p = true) : Inv (initState nV nF progs) := by
  have look : ∀ (i : Nat) (th : Thread), (initState nV nF progs).threads[i]? = some th →
      ∃ cs ∈ progs, th = { calls := cs, vars := List.replicate nV none, flds := List.replicate nF none } := by
    intro i th h
    simp only [initState, List.getElem?_map, Option.map_eq_some_iff] at h
    obtain ⟨cs, hcs, rfl⟩ := h
    exact ⟨cs, List.mem_of_getElem? hcs, rfl⟩
  refine ⟨by simp [initState], ?_, ?_, by simp [initState], ?_, ?_, ?_⟩
  · intro i th h o ho; obtain ⟨cs, _, rfl⟩ := look i th h; cases ho
  · intro i j thi thj _ hi _ o ho; obtain ⟨cs, _, rfl⟩ := look i thi hi; cases ho
  · intro i th h o ho; obtain ⟨cs, _, rfl⟩ := look i th h; cases ho
  · intro i th h o ho; obtain ⟨cs, _, rfl⟩ := look i th h; cases ho
  · intro i th h
    obtain ⟨cs, hcs, rfl⟩ := look i th h
    have hget : ∀ r, A.get { vars := List.replicate nV St.unbound, flds := List.replicate nF St.unbound } r = .unbound := by
      intro r; cases r <;> simp only [A.get, List.getElem?_replicate] <;> split <;> rfl
    refine ⟨{ vars := List.replicate nV .unbound, flds := List.replicate nF .unbound }, ⟨by simp, by simp, ?_, ?_, ?_, ?_⟩, ?_⟩
    · intro r _
      cases r <;> simp only [Thread.lookup, List.getElem?_replicate] <;> split <;> rfl
    · intro r hr; unfold Own at hr; rw [hget] at hr; rcases hr with hr | hr <;> cases hr
    · intro r o hr; rw [hget] at hr; cases hr
    · intro r r' o _ hr; unfold Own at hr; rw [hget] at hr; rcases hr with hr | hr <;> cases hr
    · intro n
      exact calls_safe nV nF cs (hD cs hcs) n _ (by simp) (by simp) (by simp [goodFlds])

/-- `kept` only grows -/
theorem act_kept_mono (free : List (Nat × Obj)) (fresh : Nat) (th : Thread) (a : Action) (c : Nat) :
    ∀ o ∈ th.kept, o ∈ (act free fresh th a c).2.2.kept := by
  intro o ho
  cases a with
  | tau => exact ho
  | startCall => exact ho
  | ret esc => exact List.mem_append_right _ ho
  | ev e =>
    cases e with
    | use r => exact ho
    | callOut r => exact ho
    | store r => exact List.mem_append_right _ ho
    | clear r => cases r <;> exact ho
    | get p r =>
      simp only [act]
      split <;> (cases r <;> exact ho)
    | put p r =>
      simp only [act]
      split <;> exact ho

theorem step_kept_mono (s : State) (ic : Nat × Nat) (i : Nat) (th : Thread) (h : s.threads[i]? = some th) :
    ∃ th', (step s ic).threads[i]? = some th' ∧ ∀ o ∈ th.kept, o ∈ th'.kept := by
  unfold step
  cases hth : s.threads[ic.1]? with
  | none => exact ⟨th, h, fun _ ho => ho⟩
  | some t =>
    simp only []
    cases hn : next t.todo t.calls ic.2 with
    | none => exact ⟨th, h, fun _ ho => ho⟩
    | some r =>
      obtain ⟨a, todo', calls'⟩ := r
      simp only []
      by_cases e : i = ic.1
      · subst e
        rw [hth] at h; cases h
        refine ⟨(act s.free s.fresh { th with todo := todo', calls := calls' } a ic.2).2.2, ?_, ?_⟩
        · rw [getElem?_setNth]; simp [hth]
        · exact act_kept_mono _ _ { th with todo := todo', calls := calls' } a ic.2
      · refine ⟨th, ?_, fun _ ho => ho⟩
        rw [getElem?_setNth]; simp [e, h]

theorem run_kept_mono (sched : List (Nat × Nat)) : ∀ (s : State) (i : Nat) (th : Thread), s.threads[i]? = some th →
    ∃ th', (run s sched).threads[i]? = some th' ∧ ∀ o ∈ th.kept, o ∈ th'.kept := by
  induction sched with
  | nil => intro s i th h; exact ⟨th, h, fun _ ho => ho⟩
  | cons ic rest ih =>
    intro s i th h
    obtain ⟨t1, h1, k1⟩ := step_kept_mono s ic i th h
    obtain ⟨t2, h2, k2⟩ := ih (step s ic) i t1 h1
    exact ⟨t2, h2, fun o ho => k2 o (k1 o ho)⟩

theorem run_append (s : State) (a b : List (Nat × Nat)) : run s (a ++ b) = run (run s a) b := by
  simp [run, List.foldl_append]

/-- in a state satisfying the invariant, whatever a goroutine is about to touch it owns -/
theorem inv_touch {s : State} (hI : Inv s) (i : Nat) (th : Thread) (c : Nat) (h : s.threads[i]? = some th) :
    ∀ o ∈ aboutToTouch th c, o ∈ th.held := by
  intro o ho
  unfold aboutToTouch at ho
  cases hn : next th.todo th.calls c with
  | none => rw [hn] at ho; cases ho
  | some r =>
    obtain ⟨a, todo', calls'⟩ := r
    rw [hn] at ho
    obtain ⟨σ, hrel, hsafe⟩ := hI.safe i th h
    obtain ⟨σ', ha, _⟩ := hsafe 1 c a todo' calls' hn
    exact touched_owned hrel (hI.keptHeld i th h) ha o ho

/-! ### the main theorems -/

/-- **sync.Pool exclusivity.** If every call of every goroutine is a disciplined skeleton then, whatever the number of
goroutines and whatever the schedule, in the state reached: (1) no object is owned by two goroutines, (2) no owned
object lies free in a pool and no pool holds an object twice, (3) whatever a goroutine is about to touch (use, hand to
foreign code, Put, return) it owns — so by (1), (2) nobody else owns it and it is not free —, (4) every object a caller
still references after its call ended is still owned by that goroutine. -/
theorem pool_exclusive (nV nF : Nat) (progs : List (List PProg))
    (hD : ∀ cs ∈ progs, ∀ p ∈ cs, Disciplined nV nF p = true) (sched : List (Nat × Nat)) :
    let s := run (initState nV nF progs) sched
    (∀ (i j : Nat) (ti tj : Thread), i ≠ j → s.threads[i]? = some ti → s.threads[j]? = some tj →
        ∀ o ∈ ti.held, o ∉ tj.held) ∧
    ((∀ (i : Nat) (ti : Thread), s.threads[i]? = some ti → ∀ o ∈ ti.held, o ∉ s.free.map (·.2)) ∧
        (s.free.map (·.2)).Nodup) ∧
    (∀ (i : Nat) (ti : Thread) (c : Nat), s.threads[i]? = some ti → ∀ o ∈ aboutToTouch ti c, o ∈ ti.held) ∧
    (∀ (i : Nat) (ti : Thread), s.threads[i]? = some ti → ∀ o ∈ ti.kept, o ∈ ti.held) := by
  intro s
  have hI : Inv s := run_inv _ sched (init_inv nV nF progs hD)
  exact ⟨hI.disj, ⟨hI.heldFree, hI.freeNodup⟩, fun i ti c h => inv_touch hI i ti c h, hI.keptHeld⟩

/-- **results stable.** An object that a caller still references once its call has ended (returned un-copied by a
getter, stored, captured) is never again free and never handed to another goroutine, however the run continues. -/
theorem results_stable (nV nF : Nat) (progs : List (List PProg))
    (hD : ∀ cs ∈ progs, ∀ p ∈ cs, Disciplined nV nF p = true) (sched more : List (Nat × Nat))
    (i : Nat) (ti : Thread) (h : (run (initState nV nF progs) sched).threads[i]? = some ti) (o : Obj) (ho : o ∈ ti.kept) :
    let s' := run (initState nV nF progs) (sched ++ more)
    o ∉ s'.free.map (·.2) ∧ ∀ (j : Nat) (tj : Thread), j ≠ i → s'.threads[j]? = some tj → o ∉ tj.held := by
  intro s'
  have hI : Inv s' := run_inv _ _ (init_inv nV nF progs hD)
  obtain ⟨ti', h', hk⟩ := run_kept_mono more _ i ti h
  have h'' : s'.threads[i]? = some ti' := by
    show (run (initState nV nF progs) (sched ++ more)).threads[i]? = some ti'
    rw [run_append]; exact h'
  have hheld := hI.keptHeld i ti' h'' o (hk o ho)
  exact ⟨hI.heldFree i ti' h'' o hheld, fun j tj hne hj => hI.disj i j ti' tj (Ne.symm hne) h'' hj o hheld⟩

/-- the observable violations never happen -/
theorem no_violation (nV nF : Nat) (progs : List (List PProg))
    (hD : ∀ cs ∈ progs, ∀ p ∈ cs, Disciplined nV nF p = true) (sched : List (Nat × Nat)) (i j c : Nat) :
    let s := run (initState nV nF progs) sched
    touchesForeign s i j c = false ∧ touchesFree s i c = false ∧
      (i ≠ j → keptHandedTo s i j = false) ∧ keptIsFree s i = false := by
  intro s
  have hI : Inv s := run_inv _ sched (init_inv nV nF progs hD)
  refine ⟨?_, ?_, ?_, ?_⟩
  · unfold touchesForeign
    cases hi : s.threads[i]? with
    | none => rfl
    | some ti =>
      cases hj : s.threads[j]? with
      | none => rfl
      | some tj =>
        simp only [List.any_eq_false, Bool.and_eq_true, Bool.not_eq_true', not_and, Bool.not_eq_false]
        intro o ho _
        simpa using inv_touch hI i ti c hi o ho
  · unfold touchesFree
    cases hi : s.threads[i]? with
    | none => rfl
    | some ti =>
      simp only [List.any_eq_false]
      intro o ho hc
      have h1 := inv_touch hI i ti c hi o ho
      exact hI.heldFree i ti hi o h1 (by simpa using hc)
  · intro hne
    unfold keptHandedTo
    cases hi : s.threads[i]? with
    | none => rfl
    | some ti =>
      cases hj : s.threads[j]? with
      | none => rfl
      | some tj =>
        simp only [List.any_eq_false]
        intro o ho hc
        exact hI.disj i j ti tj hne hi hj o (hI.keptHeld i ti hi o ho) (by simpa using hc)
  · unfold keptIsFree
    cases hi : s.threads[i]? with
    | none => rfl
    | some ti =>
      simp only [List.any_eq_false]
      intro o ho hc
      exact hI.heldFree i ti hi o (hI.keptHeld i ti hi o ho) (by simpa using hc)

/-! ### negative witnesses: the translator's output for two seeded bugs (scratch copies of json/json.go) -/

/-- `encoderBufferPool.Put(buf)` moved above `enc.writer.Write(b)` in Encoder.Encode -/
def mutantEncode : PProg :=
  .seqs [
    .alts [   -- json.go:528  if enc.err != nil {
      .ret [],   -- json.go:529  return enc.err
      .skip
    ],
    .ev (.get 1 (.var 0)),   -- json.go:533  buf := encoderBufferPool.Get().(*encoderBuffer)
    .ev (.use (.var 0)),   -- json.go:535  buf.data, err = Append(buf.data[:0], v, enc.flags)
    .alts [   -- json.go:536  if err != nil {
      .seqs [
        .ev (.put 1 (.var 0)),   -- json.go:537  encoderBufferPool.Put(buf)
        .ret []   -- json.go:538  return err
      ],
      .skip
    ],
    .alts [   -- json.go:541  if (enc.flags & appendNewline) != 0 {
      .ev (.use (.var 0)),   -- json.go:542  buf.data = append(buf.data, '\n')
      .skip
    ],
    .ev (.use (.var 0)),   -- json.go:544  b := buf.data
    .alts [   -- json.go:546  if enc.prefix != "" || enc.indent != "" {
      .seqs [
        .alts [   -- json.go:547  if enc.buffer == nil {
          .ev (.use (.var 0)),   -- json.go:549  enc.buffer.Grow(2 * len(buf.data))
          .skip
        ],
        .ev (.use (.var 0)),   -- json.go:553  Indent(enc.buffer, buf.data, enc.prefix, enc.indent)
        .ev (.use (.var 0))   -- json.go:554  b = enc.buffer.Bytes()
      ],
      .skip
    ],
    .ev (.put 1 (.var 0)),   -- json.go:557  encoderBufferPool.Put(buf)
    .ev (.callOut (.var 0)),   -- json.go:558  if _, err = enc.writer.Write(b); err != nil {
    .ret []   -- json.go:562  return err
  ]

/-- Marshal returning `buf.data` itself, without the copy, when it is large -/
def mutantMarshal : PProg :=
  .seqs [
    .ev (.get 1 (.var 0)),   -- json.go:285  buf := encoderBufferPool.Get().(*encoderBuffer)
    .ev (.use (.var 0)),   -- json.go:287  if buf.data, err = Append(buf.data[:0], x, EscapeHTML|SortMapKeys); err != nil {
    .alts [   -- json.go:287  if buf.data, err = Append(buf.data[:0], x, EscapeHTML|SortMapKeys); err != nil {
      .ret [],   -- json.go:288  return nil, err
      .skip
    ],
    .ev (.use (.var 0)),   -- json.go:291  if len(buf.data) > 65536 {
    .alts [   -- json.go:291  if len(buf.data) > 65536 {
      .seqs [
        .ev (.use (.var 0)),   -- json.go:292  b := buf.data
        .ev (.put 1 (.var 0)),   -- json.go:293  encoderBufferPool.Put(buf)
        .ev (.use (.var 0)),   -- json.go:294  return b, nil
        .ret [.var 0]   -- json.go:294  return b, nil
      ],
      .skip
    ],
    .ev (.use (.var 0)),   -- json.go:296  b := make([]byte, len(buf.data))
    .ev (.use (.var 0)),   -- json.go:297  copy(b, buf.data)
    .ev (.put 1 (.var 0)),   -- json.go:298  encoderBufferPool.Put(buf)
    .ret []   -- json.go:299  return b, nil
  ]

/-- goroutine 0 runs the mutated Encode up to (not including) `enc.writer.Write(b)` — it has already Put the buffer —,
goroutine 1 starts Encode and Gets that very buffer -/
def schedPutBeforeWrite : List (Nat × Nat) := List.replicate 22 (0, 1) ++ List.replicate 5 (1, 1) ++ [(1, 0)]

/-- goroutine 0 runs the mutated Marshal on a large value to the end (the caller now holds `buf.data`), goroutine 1
starts Marshal and Gets that very buffer -/
def schedReturnUncopied : List (Nat × Nat) :=
  List.replicate 11 (0, 1) ++ [(0, 0)] ++ List.replicate 7 (0, 1) ++ [(1, 1), (1, 1), (1, 0)]

#print axioms pool_exclusive
#print axioms results_stable
#print axioms no_violation
#print axioms exec_sound
#print axioms step_inv
#print axioms init_inv
#print axioms inv_touch

end Enc.Lemmas.ConcPool
