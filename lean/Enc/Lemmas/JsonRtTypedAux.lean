import Enc.Lemmas.JsonRtTypedLeaf
/-!
# Typed round trip, auxiliary facts: first byte of an encoding, struct field lookup by position, assignment of all fields
-/
namespace Enc.Lemmas.JsonRtTyped
open Enc Enc.Model.Json Enc.Model.Json.Typed
open Enc.Spec.Json (valueS elementsSl elementsAr membersMp membersSt ws isWs lit number digit consumed unquoteLit
  appendString intString intRange intOfLit floatOverflows boolText nullT floatText canonFloat coerceUTF8 encSpec encSpecs
  encSpecMs encSpecFs genericText arrText objText mapText canon canons canonMs canonFs canonG encodesNull norm norms normMs
  findField fieldOf consOpt wfT wfFs nameIn validUTF8B joinWith)
open Enc.Lemmas.JsonDecAnyRtInt (noNumCont intString_head)
open Enc.Lemmas.JsonDecAnyRender (etail joinWith_etail etail_length noNumCont_etail ws_of_head)

/-! ### the first byte of an encoding -/

/-- a first byte after which the decoders dispatch on the kind of the value -/
structure Hd (x : Bytes) (isNull : Bool) : Prop where
  ne : ∃ c t, x = c :: t ∧ isWs c = false ∧ c ≠ 0x5d ∧ c ≠ 0x7d ∧ (isNull = false → c ≠ 0x6e)
  null : isNull = true → x = nullT

theorem Hd.of_head {x : Bytes} (c : UInt8) (t : Bytes) (e : x = c :: t) (h1 : isWs c = false) (h2 : c ≠ 0x5d) (h3 : c ≠ 0x7d)
    (h4 : c ≠ 0x6e) : Hd x false :=
  ⟨⟨c, t, e, h1, h2, h3, fun _ => h4⟩, fun h => by cases h⟩

theorem Hd.nullT : Hd nullT true := ⟨⟨0x6e, _, rfl, by decide, by decide, by decide, fun h => by cases h⟩, fun _ => rfl⟩

theorem hd_num {c : UInt8} (hc : c = 0x2d ∨ digit c = true) : isWs c = false ∧ c ≠ 0x5d ∧ c ≠ 0x7d ∧ c ≠ 0x6e := by
  rcases hc with rfl | hd
  · decide
  · revert hd
    obtain ⟨⟨n⟩⟩ := c; revert n; decide +kernel

theorem hd_numLit {l : Bytes} (h : number l = some []) : Hd l false := by
  obtain ⟨c, t, e, hc⟩ := numLit_head h
  obtain ⟨h1, h2, h3, h4⟩ := hd_num hc
  exact Hd.of_head c t e h1 h2 h3 h4

theorem hd_bool (b : Bool) : Hd (boolText b) false := by
  cases b
  · exact Hd.of_head 0x66 _ rfl (by decide) (by decide) (by decide) (by decide)
  · exact Hd.of_head 0x74 _ rfl (by decide) (by decide) (by decide) (by decide)

theorem hd_string (s : Bytes) (html : Bool) : Hd (appendString s html) false := by
  obtain ⟨body, e⟩ := Lemmas.JsonDecAnyRender.appendString_head s html
  exact Hd.of_head 0x22 body e (by decide) (by decide) (by decide) (by decide)

theorem hd_int (i : Int) : Hd (intString i) false := by
  obtain ⟨c, t, e, hc⟩ := intString_head i
  obtain ⟨h1, h2, h3, h4⟩ := hd_num hc
  exact Hd.of_head c t e h1 h2 h3 h4

theorem hd_arr (xs : List Bytes) : Hd (arrText xs) false :=
  Hd.of_head 0x5b _ rfl (by decide) (by decide) (by decide) (by decide)

theorem hd_obj (ps : List (Bytes × Bytes)) : Hd (objText ps) false :=
  Hd.of_head 0x7b _ rfl (by decide) (by decide) (by decide) (by decide)

theorem hd_quoted (p : Bytes) : Hd ([0x22] ++ p ++ [0x22]) false :=
  Hd.of_head 0x22 _ rfl (by decide) (by decide) (by decide) (by decide)

theorem canonFloat_facts {sc : Strconv} {l : Bytes} (h : canonFloat sc l = true) :
    floatText sc l = some l ∧ number l = some [] ∧ floatOverflows l = false := by
  simp only [canonFloat, Bool.and_eq_true, beq_iff_eq, Bool.not_eq_true'] at h
  exact ⟨h.1.1, h.1.2, h.2⟩

theorem hd_generic (sc : Strconv) (c : TFlags) (html : Bool) (g : GV) (x : Bytes) (hc : canonG sc c g = true)
    (hx : genericText sc html g = some x) : Hd x (encodesNull (.anyv g)) := by
  cases g with
  | null => simp only [genericText, Option.some.injEq] at hx; subst hx; exact Hd.nullT
  | bool b => simp only [genericText, Option.some.injEq] at hx; subst hx; exact hd_bool b
  | num l k =>
    cases k with
    | f64 =>
      simp only [canonG, Bool.and_eq_true] at hc
      obtain ⟨h1, h2, _⟩ := canonFloat_facts hc.2
      simp only [genericText, h1, Option.some.injEq] at hx; subst hx
      exact hd_numLit h2
    | num =>
      simp only [canonG, Bool.and_eq_true, beq_iff_eq] at hc
      have hne : l ≠ [] := by intro e; subst e; simp [Lemmas.JsonNumber.number_nil] at hc
      have he : l.isEmpty = false := by cases l <;> simp_all
      simp only [genericText, Spec.Json.numberText, he, Bool.false_eq_true, if_false, hc.2, beq_self_eq_true, if_true,
        Option.some.injEq] at hx
      subst hx
      exact hd_numLit hc.2
    | big => simp [canonG] at hc
    | i64 => simp [canonG] at hc
    | u64 => simp [canonG] at hc
  | str s => simp only [genericText, Option.some.injEq] at hx; subst hx; exact hd_string s html
  | arr vs =>
    simp only [genericText] at hx
    obtain ⟨xs, _, rfl⟩ := Lemmas.JsonDecAny.map_eq_some hx
    exact hd_arr xs
  | obj ms =>
    simp only [genericText] at hx
    obtain ⟨xs, _, rfl⟩ := Lemmas.JsonDecAny.map_eq_some hx
    exact hd_obj _

theorem hd_spec (sc : Strconv) (c : TFlags) (html : Bool) : (v : JV) → (t : JT) → (x : Bytes) → canon sc c t v = true →
    encSpec sc html t v = some x → Hd x (encodesNull v)
  | .bool b, t, x, hc, hx => by
    cases t <;> simp only [canon, Bool.false_eq_true] at hc
    simp only [encSpec, Option.some.injEq] at hx; subst hx; exact hd_bool b
  | .int i, t, x, hc, hx => by
    cases t <;> simp only [canon, Bool.false_eq_true] at hc
    simp only [encSpec, Option.some.injEq] at hx; subst hx; exact hd_int i
  | .float l, t, x, hc, hx => by
    cases t <;> simp only [canon, Bool.false_eq_true] at hc
    obtain ⟨h1, h2, _⟩ := canonFloat_facts hc
    simp only [encSpec, h1, Option.some.injEq] at hx; subst hx
    exact hd_numLit h2
  | .str s, t, x, hc, hx => by
    cases t <;> simp only [canon, Bool.false_eq_true] at hc
    simp only [encSpec, Option.some.injEq] at hx; subst hx; exact hd_string s html
  | .slice isNil vs st, t, x, hc, hx => by
    cases t <;> simp only [canon, Bool.false_eq_true] at hc
    simp only [encSpec] at hx
    cases isNil with
    | true => simp only [if_true, Option.some.injEq] at hx; subst hx; exact Hd.nullT
    | false =>
      simp only [Bool.false_eq_true, if_false] at hx
      split at hx
      · simp only [Option.some.injEq] at hx; subst hx; exact hd_quoted _
      · obtain ⟨xs, _, rfl⟩ := Lemmas.JsonDecAny.map_eq_some hx
        exact hd_arr xs
  | .array vs, t, x, hc, hx => by
    cases t <;> simp only [canon, Bool.false_eq_true] at hc
    simp only [encSpec] at hx
    obtain ⟨xs, _, rfl⟩ := Lemmas.JsonDecAny.map_eq_some hx
    exact hd_arr xs
  | .map isNil ms, t, x, hc, hx => by
    cases t <;> simp only [canon, Bool.false_eq_true] at hc
    simp only [encSpec] at hx
    cases isNil with
    | true => simp only [if_true, Option.some.injEq] at hx; subst hx; exact Hd.nullT
    | false =>
      simp only [Bool.false_eq_true, if_false] at hx
      obtain ⟨xs, _, rfl⟩ := Lemmas.JsonDecAny.map_eq_some hx
      exact hd_obj _
  | .nilptr, t, x, hc, hx => by
    cases t <;> simp only [canon, Bool.false_eq_true] at hc
    simp only [encSpec, Option.some.injEq] at hx; subst hx; exact Hd.nullT
  | .ptr old v, t, x, hc, hx => by
    cases t <;> simp only [canon, Bool.false_eq_true] at hc
    simp only [encSpec] at hx
    exact hd_spec sc c html v _ x hc hx
  | .strct vs, t, x, hc, hx => by
    cases t <;> simp only [canon, Bool.false_eq_true] at hc
    simp only [encSpec] at hx
    obtain ⟨xs, _, rfl⟩ := Lemmas.JsonDecAny.map_eq_some hx
    exact hd_obj _
  | .anyv g, t, x, hc, hx => by
    cases t <;> simp only [canon, Bool.false_eq_true] at hc
    simp only [encSpec] at hx
    exact hd_generic sc c html g x hc hx
  | .anyp t' old v, t, x, hc, hx => by
    cases t <;> simp only [canon, Bool.false_eq_true] at hc

theorem Hd.ws {x : Bytes} {n : Bool} (h : Hd x n) (y : Bytes) : ws (x ++ y) = x ++ y := by
  obtain ⟨c, t, rfl, hw, _⟩ := h.ne
  exact ws_of_head hw

theorem lit_null_none {c : UInt8} (t : Bytes) (h : c ≠ 0x6e) : lit Spec.Json.nullLit (c :: t) = none := by
  unfold lit Spec.Json.nullLit
  have : ([0x6e, 0x75, 0x6c, 0x6c] : Bytes).isPrefixOf (c :: t) = false := by
    simp only [List.isPrefixOf, Bool.and_eq_false_imp, beq_iff_eq]
    intro e; exact absurd e.symm h
  rw [this]; rfl

/-! ### struct fields by position -/

/-- the field at position `i` has this name and type, and no earlier field has the name -/
def At : JFs → Nat → Bytes → JT → Prop
  | .nil, _, _, _ => False
  | .cons n' t' _, 0, n, t => n' = n ∧ t' = t
  | .cons n' _ r, i + 1, n, t => n' ≠ n ∧ At r i n t

def AllAt (whole : JFs) : Nat → JFs → Prop
  | _, .nil => True
  | i, .cons n t r => At whole i n t ∧ AllAt whole (i + 1) r

theorem findField_at : (fs : JFs) → (i k : Nat) → (n : Bytes) → (t : JT) → At fs i n t →
    findField (· == n) fs k = some (k + i, t)
  | .nil, _, _, _, _, h => by cases h
  | .cons n' t' r, 0, k, n, t, h => by
    obtain ⟨rfl, rfl⟩ := h
    simp [findField]
  | .cons n' t' r, i + 1, k, n, t, h => by
    obtain ⟨hne, h⟩ := h
    simp only [findField, show (n' == n) = false by simpa using hne, Bool.false_eq_true, if_false]
    rw [findField_at r i (k + 1) n t h]
    congr 2; omega

theorem fieldOf_at (fs : JFs) (i : Nat) (n : Bytes) (t : JT) (h : At fs i n t) : fieldOf fs n = some (i, t) := by
  unfold fieldOf
  rw [findField_at fs i 0 n t h]
  simp

theorem allAt_cons (n' : Bytes) (t' : JT) (r : JFs) : (sfx : JFs) → (i : Nat) → AllAt r i sfx →
    (∀ n, nameIn n sfx = true → n' ≠ n) → AllAt (.cons n' t' r) (i + 1) sfx
  | .nil, _, _, _ => trivial
  | .cons n t s, i, h, hn => by
    refine ⟨⟨hn n (by simp [nameIn]), h.1⟩, allAt_cons n' t' r s (i + 1) h.2 ?_⟩
    intro m hm
    exact hn m (by simp [nameIn, hm])

theorem allAt_self : (fs : JFs) → wfFs fs = true → AllAt fs 0 fs
  | .nil, _ => trivial
  | .cons n t r, h => by
    simp only [wfFs, Bool.and_eq_true, Bool.not_eq_true'] at h
    refine ⟨⟨rfl, rfl⟩, allAt_cons n t r r 0 (allAt_self r h.2) ?_⟩
    intro m hm e
    subst e
    rw [h.1.1.2] at hm; cases hm

/-- all the given values assigned from position `i` on -/
def setAll : JVs → Nat → JVs → JVs
  | vals, _, .nil => vals
  | vals, i, .cons x r => setAll (vals.set i x) (i + 1) r

theorem setAll_shift : (xs : JVs) → (a : JV) → (r : JVs) → (i : Nat) →
    setAll (.cons a r) (i + 1) xs = .cons a (setAll r i xs)
  | .nil, _, _, _ => rfl
  | .cons x xs, a, r, i => by
    simp only [setAll, JVs.set]
    exact setAll_shift xs a (r.set i x) (i + 1)

theorem setAll_all : (xs vals : JVs) → vals.length = xs.length → setAll vals 0 xs = xs
  | .nil, .nil, _ => rfl
  | .nil, .cons _ _, h => by simp [JVs.length] at h
  | .cons x xs, .nil, h => by simp [JVs.length] at h
  | .cons x xs, .cons a r, h => by
    simp only [JVs.length, Nat.add_right_cancel_iff] at h
    simp only [setAll, JVs.set]
    rw [setAll_shift, setAll_all xs r h]

/-- the slots from position `i` on hold the zero values of the remaining fields -/
def ZeroFrom (vals : JVs) : Nat → JFs → Prop
  | _, .nil => True
  | i, .cons _ t r => vals.get? i = some (zeroOf t) ∧ ZeroFrom vals (i + 1) r

theorem get?_set_ne : (vals : JVs) → (i j : Nat) → (x : JV) → i ≠ j → (vals.set i x).get? j = vals.get? j
  | .nil, _, _, _, _ => rfl
  | .cons a r, 0, 0, _, h => absurd rfl h
  | .cons a r, 0, j + 1, _, _ => rfl
  | .cons a r, i + 1, 0, _, _ => rfl
  | .cons a r, i + 1, j + 1, x, h => by
    simp only [JVs.set, JVs.get?]
    exact get?_set_ne r i j x (by omega)

theorem zeroFrom_set (vals : JVs) (i : Nat) (x : JV) : (fs : JFs) → (j : Nat) → i < j → ZeroFrom vals j fs →
    ZeroFrom (vals.set i x) j fs
  | .nil, _, _, _ => trivial
  | .cons _ t r, j, hij, h => ⟨by rw [get?_set_ne vals i j x (by omega)]; exact h.1, zeroFrom_set vals i x r (j + 1) (by omega) h.2⟩

theorem zeroFrom_zeros_aux : (pre : JVs → JVs) → (fs : JFs) → (i : Nat) →
    (∀ tl j, (pre tl).get? (i + j) = tl.get? j) → ZeroFrom (pre (zerosOf fs)) i fs
  | _, .nil, _, _ => trivial
  | pre, .cons n t r, i, hp => by
    refine ⟨by have := hp (zerosOf (.cons n t r)) 0; simpa [zerosOf, JVs.get?] using this, ?_⟩
    have := zeroFrom_zeros_aux (fun tl => pre (.cons (zeroOf t) tl)) r (i + 1) (by
      intro tl j
      have := hp (.cons (zeroOf t) tl) (j + 1)
      simp only [JVs.get?] at this
      rw [← this]; congr 1; omega)
    simpa [zerosOf] using this

theorem zeroFrom_zeros (fs : JFs) : ZeroFrom (zerosOf fs) 0 fs :=
  zeroFrom_zeros_aux id fs 0 (by intro tl j; simp)

theorem zerosOf_length : (fs : JFs) → (vs : JVs) → canonFs sc c fs vs = true → (zerosOf fs).length = (norms vs).length
  | .nil, .nil, _ => rfl
  | .nil, .cons _ _, h => by simp [canonFs] at h
  | .cons _ _ _, .nil, h => by simp [canonFs] at h
  | .cons n t fr, .cons v vr, h => by
    simp only [canonFs, Bool.and_eq_true] at h
    simp only [zerosOf, norms, JVs.length, zerosOf_length fr vr h.2]

end Enc.Lemmas.JsonRtTyped
