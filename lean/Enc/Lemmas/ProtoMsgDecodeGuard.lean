import Enc.Lemmas.ProtoMsgDecodeLenient
import Enc.Model.ProtoMsgObserver
/-!
# D5: user types whose `Unmarshal` can FAIL — the decoder against an OBSERVER of its calls

`guardOps G` is a user type that observes what the decoder does with it: its `Unmarshal` accepts a byte string `q` only on a
FRESH receiver (`.nil`, the zero value the decoder allocates) and only when `G q`; it then stores `q` (as RawMessage does).
So `unmarshalUsr (guardOps G) t b = .ok w` says: while decoding `b`, every call of a user `Unmarshal` was on a zero receiver
(no slot holding a user value was written twice) with a byte string in `G`, and `w` is the payload-level result.

`decodeUsr_guard`: whatever the observer accepts, ANY user type that accepts the byte strings in `G` on a zero receiver
accepts, with the user's `Unmarshal` applied at every leaf (`concV`) — no assumption on what the user does with other inputs or
other receivers (it may fail, merge, panic).
-/
namespace Enc.Lemmas.ProtoMsgDecode
open Enc Enc.Model.Proto
open Enc.Lemmas.ProtoAlloc (nth lookupField_nth)

-- `guardOps` (the observer) is defined in `Enc/Model/ProtoMsgObserver.lean`, the driver runs it too

/-- `x` succeeds ⇒ `y` succeeds with the image under `g` -/
def Le {α β : Type} (g : α → β) (x : Res α) (y : Res β) : Prop := ∀ a, x = .ok a → y = .ok (g a)

theorem Le.err {α β : Type} {g : α → β} {e : String} {y : Res β} : Le g (.err e) y := fun _ h => by cases h
theorem Le.ok {α β : Type} {g : α → β} {a : α} {y : Res β} (h : y = .ok (g a)) : Le g (.ok a) y := by
  intro a' ha; cases ha; exact h
theorem Le.bind {α β α' β' : Type} {g : α → α'} {h : β → β'} {x : Res α} {y : Res α'} {f : α → Res β} {f' : α' → Res β'}
    (hxy : Le g x y) (hf : ∀ a, x = .ok a → Le h (f a) (f' (g a))) : Le h (x.bind f) (y.bind f') := by
  intro c hc
  cases x with
  | ok a => rw [hxy a rfl]; exact hf a rfl c hc
  | err e => cases hc
  | panic e => cases hc
theorem Le.same {α β β' : Type} {h : β → β'} (x : Res α) {f : α → Res β} {f' : α → Res β'}
    (hf : ∀ a, x = .ok a → Le h (f a) (f' a)) : Le h (x.bind f) (x.bind f') := by
  intro c hc
  cases x with
  | ok a => exact hf a rfl c hc
  | err e => cases hc
  | panic e => cases hc
theorem Le.ite {α β : Type} {g : α → β} {p : Prop} [Decidable p] {x x' : Res α} {y y' : Res β}
    (h1 : p → Le g x y) (h2 : ¬ p → Le g x' y') : Le g (if p then x else x') (if p then y else y') := by
  by_cases hp : p
  · simp only [hp, if_true]; exact h1 hp
  · simp only [hp, if_false]; exact h2 hp
theorem Le.of_bind {α β : Type} {g : α → β} (x : Res α) : Le g x (x.bind fun a => .ok (g a)) := by
  intro a ha; rw [ha]; rfl

section Guard
variable {ops : UserOps} {G : Bytes → Bool}

theorem guard_leaf (hG : ∀ q, G q = true → ∃ u, ops.unmarshal .nil q = .ok u) (cur : Val) (q : Bytes) :
    Le (fun u => concV ops .message u) ((guardOps G).unmarshal cur q) (ops.unmarshal (concV ops .message cur) q) := by
  intro a ha
  cases cur with
  | nil =>
    simp only [guardOps] at ha
    split at ha
    · rename_i hq
      cases ha
      obtain ⟨u, hu⟩ := hG q hq
      simp only [concV, un, hu]
    · cases ha
  | _ => simp [guardOps] at ha

mutual
theorem decodeUsr_guard (hG : ∀ q, G q = true → ∃ u, ops.unmarshal .nil q = .ok u) :
    ∀ (fuel d : Nat) (c : Codec) (b : Bytes) (cur : Val) (fl : Flags), keysPlain c = true →
    Le (fun r => (concV ops c r.1, r.2)) (decodeUsr (guardOps G) fuel d c b cur fl)
      (decodeUsr ops fuel d c b (concV ops c cur) fl)
  | 0, _, _, _, _, _, _ => by simp only [decodeUsr]; exact Le.err
  | fuel + 1, d, c, b, cur, fl, hk => by
    cases c with
    | message =>
      simp only [decodeUsr]
      refine Le.ite (fun _ => ?_) (fun _ => ?_)
      · refine Le.bind (guard_leaf hG cur b) ?_
        intro u _; exact Le.ok rfl
      · refine Le.same _ ?_
        rintro ⟨v, n⟩ _
        simp only []
        refine Le.bind (guard_leaf hG cur v) ?_
        intro u _; exact Le.ok rfl
    | ptr c' =>
      have hk' : keysPlain c' = true := by simpa only [keysPlain] using hk
      have hz := decodeUsr_guard hG fuel d c' b (zeroOfCodec c') fl hk'
      rw [concV_zero] at hz
      cases cur with
      | ptr v =>
        simp only [concV, decodeUsr]
        refine Le.bind (decodeUsr_guard hG fuel d c' b v fl hk') ?_
        rintro ⟨v', n⟩ _; exact Le.ok (by simp only [concV])
      | _ =>
        simp only [concV, decodeUsr]
        refine Le.bind hz ?_
        rintro ⟨v', n⟩ _; exact Le.ok (by simp only [concV])
    | struct fs =>
      have hk' : keysPlainF fs = true := by simpa only [keysPlain] using hk
      cases cur with
      | struct vs =>
        simp only [concV, decodeUsr]
        refine Le.ite (fun _ => Le.err) (fun _ => ?_)
        refine Le.bind (decodeStructUsr_guard hG fuel (d + 1) fs b b.length vs _ 0 hk') ?_
        rintro ⟨vs', n⟩ _; exact Le.ok (by simp only [concV])
      | _ =>
        simp only [concV, decodeUsr]
        exact Le.ite (fun _ => Le.err) (fun _ => Le.err)
    | slice elem number wire emb =>
      have hk' : keysPlain elem = true := by simpa only [keysPlain] using hk
      have hz := decodeUsr_guard hG fuel d elem b (zeroOfCodec elem) {} hk'
      rw [concV_zero] at hz
      cases cur with
      | list vs =>
        simp only [concV, decodeUsr]
        refine Le.bind hz ?_
        rintro ⟨v', n⟩ _; exact Le.ok (by simp only [concV, concL_snoc])
      | _ =>
        simp only [concV, decodeUsr]
        refine Le.bind hz ?_
        rintro ⟨v', n⟩ _
        exact Le.ok (by simp only [concV, concL, Vals.toList, List.nil_append, Vals.ofList])
    | map number k v kEmb vEmb entry =>
      simp only [keysPlain, Bool.and_eq_true] at hk
      obtain ⟨⟨hs, hkn⟩, hke⟩ := hk
      cases entry with
      | struct efs =>
        have hz := decodeUsr_guard hG fuel d (.struct efs) b (zeroOfCodec (.struct efs)) {} hke
        rw [concV_zero] at hz
        have hcm : curMap (concV ops (.map number k v kEmb vEmb (.struct efs)) cur)
            = concM ops (entryKey (.struct efs)) (entryVal (.struct efs)) (curMap cur) := by
          cases cur <;> simp only [concV, curMap, concM]
        rw [decodeUsr_map, decodeUsr_map, hcm]
        refine Le.ite (fun _ => ?_) (fun _ => ?_)
        · exact Le.ok (by cases cur <;> simp only [concV, curMap, concM])
        · refine Le.bind hz ?_
          rintro ⟨w, n⟩ _
          simp only []
          rw [entryAssign_conc ops number k v kEmb vEmb efs hkn (curMap cur) w n]
          exact Le.of_bind _
      | _ => simp [isStructC] at hs
    | _ => simp only [decodeUsr, concV]; exact fun a ha => ha
theorem decodeStructUsr_guard (hG : ∀ q, G q = true → ∃ u, ops.unmarshal .nil q = .ok u) :
    ∀ (fuel d : Nat) (fs : CFields) (b : Bytes) (lenB : Nat) (vs : Vals) (fl : Flags) (off : Nat), keysPlainF fs = true →
    Le (fun r => (concF ops fs r.1, r.2)) (decodeStructUsr (guardOps G) fuel d fs b lenB vs fl off)
      (decodeStructUsr ops fuel d fs b lenB (concF ops fs vs) fl off)
  | 0, _, _, _, _, _, _, _, _ => by simp only [decodeStructUsr]; exact Le.err
  | fuel + 1, d, fs, b, lenB, vs, fl, off, hk => by
    simp only [decodeStructUsr]
    refine Le.ite (fun _ => Le.ok rfl) (fun _ => ?_)
    refine Le.same _ ?_
    rintro ⟨tag, n⟩ _
    simp only []
    cases hl : lookupField fs (tag >>> 3).toNat with
    | none =>
      simp only []
      refine Le.same _ ?_
      intro skip _
      exact decodeStructUsr_guard hG fuel d fs _ lenB vs fl _ hk
    | some r =>
      obtain ⟨i, emb, zz, c⟩ := r
      have hn := lookupField_nth fs _ i emb zz c hl
      have hkc := keysPlain_nth fs i c hk hn
      simp only []
      refine Le.ite (fun _ => Le.err) (fun _ => ?_)
      refine Le.same _ ?_
      rintro ⟨data, pre⟩ _
      simp only []
      rw [get_concF ops fs vs i c hn]
      refine Le.bind (decodeUsr_guard hG fuel d c data _ _ hkc) ?_
      rintro ⟨v, m⟩ _
      simp only []
      rw [set_concF ops fs vs i c v hn]
      exact decodeStructUsr_guard hG fuel d fs _ lenB _ fl _ hk
end

/-- **D5.** Whatever `proto.Unmarshal` accepts with the observer in place of the user types, it accepts with any user type
that accepts the byte strings in `G` on a zero receiver; the result is the observer's, with the user's `Unmarshal` applied
at every leaf. -/
theorem unmarshalUsr_guard (hG : ∀ q, G q = true → ∃ u, ops.unmarshal .nil q = .ok u) (t : Ty) (b : Bytes)
    (hk : keysPlain (codecOf t) = true) (w : Val) (h : unmarshalUsr (guardOps G) t b = .ok w) :
    unmarshalUsr ops t b = .ok (concV ops (codecOf t) w) := by
  simp only [unmarshalUsr] at h ⊢
  split
  · rename_i hb
    simp only [hb, if_true] at h
    cases h
    rw [concV_zeroOf]
  · rename_i hb
    simp only [hb] at h
    have hd := decodeUsr_guard hG (2 * b.length + 8 + Codec.height (codecOf t)) 0 (codecOf t) b (zeroOf t)
      { toplevel := true } hk
    rw [concV_zeroOf] at hd
    cases hg : decodeUsr (guardOps G) (2 * b.length + 8 + Codec.height (codecOf t)) 0 (codecOf t) b (zeroOf t)
        { toplevel := true } with
    | err e => rw [hg] at h; cases h
    | panic e => rw [hg] at h; cases h
    | ok r =>
      obtain ⟨v, n⟩ := r
      rw [hg] at h
      rw [hd _ hg]
      simp only [] at h ⊢
      by_cases hn : n < b.length
      · simp only [hn, if_true] at h; cases h
      · simp only [hn, if_false] at h ⊢
        cases h; rfl

end Guard

end Enc.Lemmas.ProtoMsgDecode

#print axioms Enc.Lemmas.ProtoMsgDecode.decodeUsr_guard
#print axioms Enc.Lemmas.ProtoMsgDecode.unmarshalUsr_guard
