import Enc.Lemmas.JsonCodecChoiceSeen
/-!
# `constructCodec` terminates on every type graph (recursive types through `seen`): the fuel `fuelFor` suffices

Potential, lexicographic:
1. the keys of `keysOf (univ env t0)` (every struct type and defined type in the text of the program) not in `seen`
   yet — unfolding a definition or walking the fields of a struct type happens only after a new key was put into `seen`,
   EXCEPT for the second listing of an embedded struct type that is under construction (`embeddedF`);
2. while fields are listed on behalf of a root: the entries under construction marked with ANOTHER root — a second
   listing marks one more of them with the current root for its duration;
3. the size of the type term being walked.
A call leaves the entries under construction exactly as it found them, roots included (`Evo`), so (2) is the same after
a call as before it.
-/
set_option linter.unusedSimpArgs false
set_option linter.unusedVariables false
namespace Enc.Lemmas.JsonCodecChoiceTerm
open Enc.Model.Json.CodecChoice Enc.Lemmas.JsonCodecChoiceSeen

/-! ## reflect facts -/

theorem under_cases (env : Env) (t : TD) : under env t = t ∨ ∃ id, t = .ref id := by
  cases t <;> simp [under]

/-- a reference that unfolds to something with structure is bound in the environment, and the body is no larger than `maxDef` -/
theorem under_ref (env : Env) (id : Nat) (h : under env (.ref id) ≠ .prim .complex) :
    ∃ d, env.lookup id = some d ∧ (under env (.ref id)).size ≤ maxDef env := by
  unfold under at h ⊢
  cases hl : env.lookup id with
  | none => simp [hl] at h
  | some d =>
    refine ⟨d, rfl, ?_⟩
    have hsz := lookup_size_le env id d hl
    simp only [hl] at h ⊢
    cases hu : d.under <;> simp only [hu] at h hsz ⊢ <;> first | exact hsz | exact absurd rfl h

theorem under_ref_ne (env : Env) (id id' : Nat) : under env (.ref id) ≠ .ref id' := by
  unfold under
  cases hl : env.lookup id with
  | none => simp [hl]
  | some d => cases hd : d.under <;> simp [hl, hd]

theorem under_ref_not_special (env : Env) (id : Nat) (sp : Special) : under env (.ref id) ≠ .special sp := by
  unfold under
  cases hl : env.lookup id with
  | none => simp [hl]
  | some d => cases hd : d.under <;> simp [hl, hd]

/-- the types of an integer kind: time.Duration, the unnamed integer types, defined types with an integer underlying type -/
theorem under_int_cases (env : Env) (k : TD) (hi : isIntKind (under env k) = true) :
    (k = .special .duration) ∨ (∃ p, under env k = .prim p ∧ p ≠ .chan ∧ p ≠ .complex ∧ firstSwitch k = none) := by
  cases k with
  | special s => cases s <;> simp [under, isIntKind] at hi; left; rfl
  | prim p => right; refine ⟨p, by simp [under], ?_, ?_, by simp [firstSwitch]⟩ <;> (intro h; subst h; simp [under, isIntKind] at hi)
  | ref id =>
    right
    cases hu : under env (.ref id) <;> simp [hu, isIntKind] at hi
    · rename_i p
      refine ⟨p, rfl, ?_, ?_, by simp [firstSwitch]⟩ <;> (intro h; subst h; simp at hi)
    · exact absurd hu (under_ref_not_special env id _)
  | _ => simp [under, isIntKind] at hi

/-! ## the universe of type terms -/

theorem subs_self (t : TD) : t ∈ subs t := by cases t <;> simp [subs]

mutual
theorem subs_trans : ∀ (y x z : TD), x ∈ subs y → z ∈ subs x → z ∈ subs y
  | .slice e, x, z, hx, hz => by
    simp only [subs, List.mem_cons] at hx ⊢
    rcases hx with rfl | hx
    · simpa [subs] using hz
    · exact .inr (subs_trans e x z hx hz)
  | .array n e, x, z, hx, hz => by
    simp only [subs, List.mem_cons] at hx ⊢
    rcases hx with rfl | hx
    · simpa [subs] using hz
    · exact .inr (subs_trans e x z hx hz)
  | .ptr e, x, z, hx, hz => by
    simp only [subs, List.mem_cons] at hx ⊢
    rcases hx with rfl | hx
    · simpa [subs] using hz
    · exact .inr (subs_trans e x z hx hz)
  | .map k v, x, z, hx, hz => by
    simp only [subs, List.mem_cons, List.mem_append] at hx ⊢
    rcases hx with rfl | hx | hx
    · simpa [subs] using hz
    · exact .inr (.inl (subs_trans k x z hx hz))
    · exact .inr (.inr (subs_trans v x z hx hz))
  | .struct fs, x, z, hx, hz => by
    simp only [subs, List.mem_cons] at hx ⊢
    rcases hx with rfl | hx
    · simpa [subs] using hz
    · exact .inr (subsF_trans fs x z hx hz)
  | .nil, x, z, hx, hz => by simp only [subs, List.mem_singleton] at hx; subst hx; exact hz
  | .prim _, x, z, hx, hz => by simp only [subs, List.mem_singleton] at hx; subst hx; exact hz
  | .special _, x, z, hx, hz => by simp only [subs, List.mem_singleton] at hx; subst hx; exact hz
  | .any _, x, z, hx, hz => by simp only [subs, List.mem_singleton] at hx; subst hx; exact hz
  | .iface _ _ _, x, z, hx, hz => by simp only [subs, List.mem_singleton] at hx; subst hx; exact hz
  | .ref _, x, z, hx, hz => by simp only [subs, List.mem_singleton] at hx; subst hx; exact hz
theorem subsF_trans : ∀ (fs : FL) (x z : TD), x ∈ subsF fs → z ∈ subs x → z ∈ subsF fs
  | .nil, x, z, hx, _ => by simp [subsF] at hx
  | .cons _ _ _ t r, x, z, hx, hz => by
    simp only [subsF, List.mem_append] at hx ⊢
    rcases hx with hx | hx
    · exact .inl (subs_trans t x z hx hz)
    · exact .inr (subsF_trans r x z hx hz)
end

theorem univ_closed (env : Env) (t0 x z : TD) (hx : x ∈ univ env t0) (hz : z ∈ subs x) : z ∈ univ env t0 := by
  simp only [univ, List.mem_append, List.mem_flatMap] at hx ⊢
  rcases hx with hx | ⟨p, hp, hx⟩
  · exact .inl (subs_trans t0 x z hx hz)
  · exact .inr ⟨p, hp, subs_trans _ x z hx hz⟩

theorem lookup_mem (env : Env) (id : Nat) (d : Def) (h : env.lookup id = some d) : (id, d) ∈ env := by
  induction env with
  | nil => simp at h
  | cons p r ih =>
    obtain ⟨i, d'⟩ := p
    simp only [List.lookup] at h
    by_cases hi : id = i
    · subst hi; simp at h; subst h; simp
    · have : (id == i) = false := by simpa using hi
      simp only [this] at h
      exact List.mem_cons_of_mem _ (ih h)

/-- the structure behind a type of the universe is in the universe -/
theorem under_univ (env : Env) (t0 x : TD) (hx : x ∈ univ env t0) :
    under env x ∈ univ env t0 ∨ under env x = .prim .complex := by
  rcases under_cases env x with h | ⟨id, rfl⟩
  · rw [h]; exact .inl hx
  · cases hl : env.lookup id with
    | none => right; simp [under, hl]
    | some d =>
      have hmem := lookup_mem env id d hl
      have hin : d.under ∈ univ env t0 := by
        simp only [univ, List.mem_append, List.mem_flatMap]
        exact .inr ⟨(id, d), hmem, subs_self _⟩
      cases hd : d.under <;>
        first
        | (right; simp [under, hl, hd]; done)
        | (left
           have hu : under env (.ref id) = d.under := by simp [under, hl, hd]
           rw [hu]; exact hin)

theorem size_le_maxSize (l : List TD) (x : TD) (h : x ∈ l) : x.size ≤ maxSize l := by
  induction l with
  | nil => cases h
  | cons y r ih =>
    simp only [maxSize]
    rcases List.mem_cons.mp h with rfl | h'
    · omega
    · have := ih h'; omega

theorem key_mem (l : List TD) (x : TD) (b : Bool) (h : x ∈ l) : (x, b) ∈ keysOf l := by
  simp only [keysOf, List.mem_flatMap]
  exact ⟨x, h, by cases b <;> simp⟩

theorem peel_subs (ft : TD) : peel ft ∈ subs ft := by
  cases ft <;> simp [peel, subs, subs_self]

theorem peel_size (ft : TD) : (peel ft).size ≤ ft.size := by
  cases ft <;> simp [peel, TD.size]

/-! ## the budget -/

section budget
variable (U : List Key) (M : Nat)

def P (s : Seen) (R : Key) : Nat := absent U s * (U.length + 1) + foreign U s R

/-- what listing fields on behalf of the root `R` may use -/
def NF (s : Seen) (R : Key) (n : Nat) : Nat := 2 * (P U s R * (M + 2) + n)

/-- what a call of `constructCodec` may use: the next struct type it enters is a new key -/
def NFc (s : Seen) (n : Nat) : Nat := 2 * (absent U s * (U.length + 1) * (M + 2) + n)

theorem NFc_le_NF (s : Seen) (R : Key) (n : Nat) : NFc U M s n ≤ NF U M s R n := by
  unfold NFc NF P
  have : absent U s * (U.length + 1) * (M + 2) ≤ (absent U s * (U.length + 1) + foreign U s R) * (M + 2) :=
    Nat.mul_le_mul_right _ (Nat.le_add_right _ _)
  omega

theorem NF_evo {s s' : Seen} (h : Evo s s') (R : Key) {n n' : Nat} (hn : n' ≤ n) : NF U M s' R n' ≤ NF U M s R n := by
  unfold NF P
  rw [foreign_evo U s s' R h]
  have h1 := absent_evo U s s' h
  have h2 := Nat.mul_le_mul_right (U.length + 1) h1
  have h3 : absent U s' * (U.length + 1) + foreign U s R ≤ absent U s * (U.length + 1) + foreign U s R := by omega
  have := Nat.mul_le_mul_right (M + 2) h3
  omega

theorem NFc_evo {s s' : Seen} (h : Evo s s') {n n' : Nat} (hn : n' ≤ n) : NFc U M s' n' ≤ NFc U M s n := by
  unfold NFc
  have h1 := absent_evo U s s' h
  have h2 := Nat.mul_le_mul_right (U.length + 1) h1
  have := Nat.mul_le_mul_right (M + 2) h2
  omega

/-- a new key pays for a whole body, whatever the root -/
theorem NF_newkey (s : Seen) (k : Key) (e : Entry) (hk : k ∈ U) (habs : s.find k = none) (R : Key) (n : Nat)
    (hn : n ≤ M) : NF U M (s.set k e) R n + 4 ≤ NFc U M s 1 := by
  unfold NF NFc P
  have h1 := absent_set_lt U s k e hk habs
  have h2 := foreign_le U (s.set k e) R
  have h3 : absent U (s.set k e) * (U.length + 1) + foreign U (s.set k e) R + 1 ≤ absent U s * (U.length + 1) := by
    have : (absent U (s.set k e) + 1) * (U.length + 1) ≤ absent U s * (U.length + 1) := Nat.mul_le_mul_right _ h1
    rw [Nat.add_mul] at this
    omega
  have := Nat.mul_le_mul_right (M + 2) h3
  rw [Nat.add_mul] at this
  omega

/-- the second listing: one more entry marked with the current root pays for a whole body -/
theorem NF_mark (s : Seen) (k r R : Key) (hk : k ∈ U) (hf : s.find k = some (.building r)) (hne : (r == R) = false)
    (n : Nat) (hn : n ≤ M) : NF U M (s.set k (.building R)) R n + 4 ≤ NF U M s R 1 := by
  unfold NF P
  have h1 := foreign_mark_lt U s k r R hk hf hne
  have h2 := absent_set_le U s k (.building R)
  have h2' := Nat.mul_le_mul_right (U.length + 1) h2
  have h3 : absent U (s.set k (.building R)) * (U.length + 1) + foreign U (s.set k (.building R)) R + 1 ≤
      absent U s * (U.length + 1) + foreign U s R := by omega
  have := Nat.mul_le_mul_right (M + 2) h3
  rw [Nat.add_mul] at this
  omega

theorem NFc_pos (s : Seen) (t : TD) : 2 ≤ NFc U M s t.size := by
  unfold NFc; have := size_pos t; omega

end budget

/-! ## the induction -/

section main
variable (env : Env) (t0 : TD)

/-- the keys and the size bound of the construction of `t0` -/
abbrev UU : List Key := keysOf (univ env t0)
abbrev MM : Nat := maxSize (univ env t0)

def InU (x : TD) : Prop := x ∈ univ env t0

/-- the field list is part of the program text -/
def FLin (fl : FL) : Prop := ∀ x, x ∈ subsF fl → x ∈ univ env t0

def CodecOK (codec : CodecFn) (f : Nat) : Prop :=
  ∀ t a s, InU env t0 t → NFc (UU env t0) (MM env t0) s t.size + 1 ≤ f → ∃ c s', codec t a s = some (c, s') ∧ Evo s s'

def StructOK (strct : StructFn) (f : Nat) : Prop :=
  ∀ t a root s, InU env t0 t → NFc (UU env t0) (MM env t0) s t.size ≤ f →
    ∃ e s', strct t a root s = some (e, s') ∧ Evo s s' ∧
      (∀ r, e = .building r → s' = s ∧ s.find (t, a) = some (.building r))

def ListOK (list : ListFn) (f : Nat) : Prop :=
  ∀ t a R s, InU env t0 t → NF (UU env t0) (MM env t0) s R (fieldsOf env t).size + 2 ≤ f →
    ∃ fs s', list t a R s = some (fs, s') ∧ Evo s s'

theorem fieldsOf_in (t : TD) (h : InU env t0 t) :
    FLin env t0 (fieldsOf env t) ∧ (fieldsOf env t).size + 1 ≤ MM env t0 := by
  have hpos : 1 ≤ MM env t0 := by
    show 1 ≤ maxSize (univ env t0)
    have := size_le_maxSize _ _ h; have := size_pos t; omega
  have hnil : FLin env t0 .nil ∧ FL.nil.size + 1 ≤ MM env t0 :=
    ⟨fun x hx => by simp [subsF] at hx, by simp only [FL.size]; omega⟩
  unfold fieldsOf
  cases hs : under env t with
  | struct fs =>
    simp only
    have hu : TD.struct fs ∈ univ env t0 := by
      rcases under_univ env t0 t h with hu | hu
      · rw [hs] at hu; exact hu
      · rw [hs] at hu; cases hu
    refine ⟨fun x hx => univ_closed env t0 _ x hu (by simp [subs, hx]), ?_⟩
    have := size_le_maxSize _ _ hu
    simp only [TD.size] at this
    exact this
  | _ => exact hnil

theorem integerType_size (u : TD) (h : isIntKind u = true) : (integerType u).size = 1 := by
  unfold isIntKind at h
  split at h <;> simp_all [integerType, TD.size]

/-- a type of an integer kind: one call, `seen` untouched -/
theorem intKind_some (f : Nat) (k : TD) (a : Bool) (s : Seen) (hi : isIntKind (under env k) = true) :
    ∃ c, codecF (f + 1) env k a s = some (c, s) := by
  rw [codecF]
  rcases under_int_cases env k hi with rfl | ⟨p, hu, hc1, hc2, hfs⟩
  · exact ⟨.special .duration, by simp [firstSwitch]⟩
  · simp only [hfs, hu]
    have hn : (isRef k && isComposite (TD.prim p)) = false := by simp [isComposite]
    simp only [hn, Bool.false_and, Bool.false_eq_true, if_false]
    have hk : kindF (codecF f env) (structF f env) env k (.prim p) a s = some (.prim p, s) := by
      unfold kindF
      cases p <;> simp at hc1 hc2 <;> rfl
    simp only [hk]
    exact ⟨_, rfl⟩

theorem integerType_int (u : TD) (h : isIntKind u = true) : isIntKind (integerType u) = true := by
  unfold isIntKind at h
  split at h <;> simp_all [integerType, isIntKind]

theorem stringCodec_ok (f : Nat) (k : TD) (s : Seen) (hk : isIntKind (under env k) = true) :
    ∃ c, stringCodecF (codecF (f + 1) env) env k s = some (c, s) := by
  unfold stringCodecF
  have hi : isIntKind (under env (if implT env .mj k || implPtr env .uj k then integerType (under env k) else k)) = true := by
    split
    · have := integerType_int _ hk
      cases hu : integerType (under env k) <;> simp [hu, isIntKind] at this <;> simpa [under, hu, isIntKind] using this
    · exact hk
  obtain ⟨c, h1⟩ := intKind_some env f _ false s hi
  exact ⟨.quoted c, by simp only [h1]⟩

theorem mapKey_ok (f : Nat) (k : TD) (s : Seen) :
    ∃ r, mapKeyF (codecF (f + 1) env) env k s = some (r, s) := by
  have hkind : ∃ kd, (if isStringKind (under env k) then some (Choice.prim .string, s)
        else if isIntKind (under env k) then stringCodecF (codecF (f + 1) env) env k s else some (Choice.unsupported, s))
        = some (kd, s) := by
    by_cases h1 : isStringKind (under env k) = true
    · simp only [h1, if_true]; exact ⟨_, rfl⟩
    · by_cases h2 : isIntKind (under env k) = true
      · simp only [h1, h2, if_true, if_false]; exact stringCodec_ok env f k s h2
      · simp only [h1, h2, if_false]; exact ⟨_, rfl⟩
  unfold mapKeyF
  simp only
  by_cases h0 : (implT env .mt k || implPtr env .ut k) = true
  · simp only [h0, if_true]
    by_cases h1 : (!implT env .mt k || !implPtr env .ut k) = true
    · simp only [h1, if_true]
      obtain ⟨kd, hk⟩ := hkind
      simp only [hk]
      exact ⟨_, rfl⟩
    · simp only [h1, if_false]
      exact ⟨_, rfl⟩
  · simp only [h0, if_false]
    by_cases h1 : isStringKind (under env k) = true
    · simp only [h1, if_true]; exact ⟨_, rfl⟩
    · by_cases h2 : isIntKind (under env k) = true
      · simp only [h1, h2, if_true, if_false]
        obtain ⟨c, hk⟩ := stringCodec_ok env f k s h2
        simp only [hk]
        exact ⟨_, rfl⟩
      · simp only [h1, h2, if_false]; exact ⟨_, rfl⟩

theorem stringify_ok (codec : CodecFn) (f : Nat) (hc : CodecOK env t0 codec f) (a : Bool) (ft : TD) (c : Choice)
    (s : Seen) (hin : InU env t0 ft) (h : NFc (UU env t0) (MM env t0) s ft.size + 1 ≤ f) :
    ∃ c' s', stringifyF codec env a ft c s = some (c', s') ∧ Evo s s' := by
  unfold stringifyF
  extract_lets typ q q'
  by_cases h0 : (typ != ft) = true
  · simp only [h0, if_true]
    obtain ⟨p, s', h1, h2⟩ := hc ft a s hin h
    simp only [h1]
    exact ⟨_, _, rfl, h2⟩
  · simp only [h0, if_false]
    exact ⟨_, _, rfl, Evo.refl s⟩

theorem fl_size_field (n : String) (e st : Bool) (t : TD) (r : FL) :
    (FL.cons n e st t r).size = t.size + r.size + 1 := by simp [FL.size]

theorem embedded_ok (strct : StructFn) (list : ListFn) (f : Nat) (hs : StructOK env t0 strct f)
    (hl : ListOK env t0 list f) (typ : TD) (b : Bool) (R : Key) (s : Seen) (hin : InU env t0 typ)
    (h : NF (UU env t0) (MM env t0) s R typ.size + 1 ≤ f) :
    ∃ fs s', embeddedF strct list typ b R s = some (fs, s') ∧ Evo s s' := by
  unfold embeddedF
  have hc := NFc_le_NF (UU env t0) (MM env t0) s R typ.size
  obtain ⟨e, s1, h1, m1, hb⟩ := hs typ b (some R) s hin (by omega)
  simp only [h1]
  cases e with
  | done fs => exact ⟨_, _, rfl, m1⟩
  | building r =>
    obtain ⟨rfl, hfind⟩ := hb r rfl
    by_cases hr : (r == R) = true
    · simp only [hr, if_true]; exact ⟨_, _, rfl, Evo.refl _⟩
    · have hr' : (r == R) = false := by simpa using hr
      simp only [hr', Bool.false_eq_true, if_false]
      have hsz := (fieldsOf_in env t0 typ hin).2
      have hmark := NF_mark (UU env t0) (MM env t0) s1 (typ, b) r R (key_mem _ typ b hin) hfind hr'
        (fieldsOf env typ).size (by omega)
      have hle : NF (UU env t0) (MM env t0) s1 R 1 ≤ NF (UU env t0) (MM env t0) s1 R typ.size := by
        unfold NF; have := size_pos typ; omega
      obtain ⟨fs, s2, h2, m2⟩ := hl typ b R (s1.set (typ, b) (.building R)) hin (by omega)
      simp only [h2]
      exact ⟨_, _, rfl, evo_relist s1 s2 (typ, b) r R hfind m2⟩

theorem fields_ok (codec : CodecFn) (strct : StructFn) (list : ListFn) (f : Nat) (hc : CodecOK env t0 codec f)
    (hs : StructOK env t0 strct f) (hl : ListOK env t0 list f) (a : Bool) (R : Key) :
    ∀ (fs : FL) (s : Seen), FLin env t0 fs → NF (UU env t0) (MM env t0) s R fs.size + 1 ≤ f →
      ∃ cl s', fieldsF codec strct list env a R fs s = some (cl, s') ∧ Evo s s'
  | .nil, s, _, _ => ⟨.nil, s, by simp [fieldsF], Evo.refl s⟩
  | .cons name emb str ft rest, s, hin, h => by
    rw [fl_size_field] at h
    have hft : InU env t0 ft := hin ft (by simp [subsF, subs_self])
    have hrestin : FLin env t0 rest := fun x hx => hin x (by simp [subsF, hx])
    unfold fieldsF
    extract_lets isP typ
    have htyp : typ.size ≤ ft.size := peel_size ft
    have htypin : InU env t0 typ := univ_closed env t0 ft _ hft (peel_subs ft)
    have hrest : ∀ s', Evo s s' → NF (UU env t0) (MM env t0) s' R rest.size + 1 ≤ f := fun s' hm => by
      have := NF_evo (UU env t0) (MM env t0) hm R (show rest.size ≤ ft.size + rest.size + 1 by omega); omega
    by_cases h0 : (emb && isStructKind (under env typ)) = true
    · simp only [h0, if_true]
      obtain ⟨sub, s1, h1, m1⟩ := embedded_ok env t0 strct list f hs hl typ (a || isP) R s htypin (by
        have := NF_evo (UU env t0) (MM env t0) (Evo.refl s) R (show typ.size ≤ ft.size + rest.size + 1 by omega); omega)
      simp only [h1]
      obtain ⟨r, s2, h2, m2⟩ := fields_ok codec strct list f hc hs hl a R rest s1 hrestin (hrest s1 m1)
      simp only [h2]
      exact ⟨_, _, rfl, m1.trans m2⟩
    · simp only [h0, if_false]
      have hcb : ∀ s', Evo s s' → NFc (UU env t0) (MM env t0) s' ft.size + 1 ≤ f := fun s' hm => by
        have h1 := NFc_le_NF (UU env t0) (MM env t0) s' R ft.size
        have := NF_evo (UU env t0) (MM env t0) hm R (show ft.size ≤ ft.size + rest.size + 1 by omega); omega
      obtain ⟨c, s1, h1, m1⟩ := hc ft a s hft (hcb s (Evo.refl s))
      simp only [h1]
      have hstr : ∃ c' s2, (if str = true then stringifyF codec env a ft c s1 else some (c, s1)) = some (c', s2) ∧ Evo s1 s2 := by
        by_cases hst : str = true
        · simp only [hst, if_true]
          exact stringify_ok env t0 codec f hc a ft c s1 hft (hcb s1 m1)
        · simp only [hst, if_false]; exact ⟨_, _, rfl, Evo.refl s1⟩
      obtain ⟨c', s2, h2, m2⟩ := hstr
      simp only [h2]
      obtain ⟨r, s3, h3, m3⟩ := fields_ok codec strct list f hc hs hl a R rest s2 hrestin (hrest s2 (m1.trans m2))
      simp only [h3]
      exact ⟨_, _, rfl, (m1.trans m2).trans m3⟩

theorem kind_ok (f : Nat) (hc : CodecOK env t0 (codecF f env) f)
    (hs : StructOK env t0 (structF f env) f) (t u : TD) (a : Bool) (s : Seen)
    (hchild : isComposite u = true → ∀ e : TD, e ∈ subs u → e.size < u.size →
      InU env t0 e ∧ NFc (UU env t0) (MM env t0) s e.size + 1 ≤ f)
    (hstruct : isStructKind u = true → InU env t0 t ∧ NFc (UU env t0) (MM env t0) s t.size ≤ f) :
    ∃ c s', kindF (codecF f env) (structF f env) env t u a s = some (c, s') ∧ Evo s s' := by
  unfold kindF
  split
  · exact ⟨_, _, rfl, Evo.refl s⟩
  · exact ⟨_, _, rfl, Evo.refl s⟩
  · exact ⟨_, _, rfl, Evo.refl s⟩
  · exact ⟨_, _, rfl, Evo.refl s⟩
  · exact ⟨_, _, rfl, Evo.refl s⟩
  · -- array
    rename_i n e
    obtain ⟨hin, hb⟩ := hchild rfl e (by simp [subs, subs_self]) (by simp [TD.size])
    obtain ⟨c, s1, h1, m1⟩ := hc e a s hin hb
    simp only [h1]; exact ⟨_, _, rfl, m1⟩
  · -- slice
    rename_i e
    split
    · exact ⟨_, _, rfl, Evo.refl s⟩
    · obtain ⟨hin, hb⟩ := hchild rfl e (by simp [subs, subs_self]) (by simp [TD.size])
      obtain ⟨c, s1, h1, m1⟩ := hc e true s hin hb
      simp only [h1]; exact ⟨_, _, rfl, m1⟩
  · -- map
    rename_i k v
    split
    · exact ⟨_, _, rfl, Evo.refl s⟩
    · obtain ⟨hin, hb⟩ := hchild rfl v (by simp [subs, subs_self]) (by simp [TD.size]; omega)
      obtain ⟨vc, s1, h1, m1⟩ := hc v false s hin hb
      simp only [h1]
      obtain ⟨f', rfl⟩ : ∃ f', f = f' + 1 := ⟨f - 1, by omega⟩
      obtain ⟨r, h2⟩ := mapKey_ok env f' k s1
      simp only [h2]
      cases r with
      | none => exact ⟨_, _, rfl, m1⟩
      | some kc => exact ⟨_, _, rfl, m1⟩
  · -- struct
    obtain ⟨hin, hb⟩ := hstruct (by simp [isStructKind])
    obtain ⟨e, s1, h1, m1, _⟩ := hs t a none s hin hb
    simp only [h1]; exact ⟨_, _, rfl, m1⟩
  · -- ptr
    rename_i e
    obtain ⟨hin, hb⟩ := hchild rfl e (by simp [subs, subs_self]) (by simp [TD.size])
    obtain ⟨c, s1, h1, m1⟩ := hc e true s hin hb
    simp only [h1]; exact ⟨_, _, rfl, m1⟩
  · exact ⟨_, _, rfl, Evo.refl s⟩

theorem main : ∀ f, CodecOK env t0 (codecF f env) f ∧ StructOK env t0 (structF f env) f ∧ ListOK env t0 (listF f env) f
  | 0 => ⟨fun t a s _ h => by omega, fun t a root s _ h => by have := NFc_pos (UU env t0) (MM env t0) s t; omega,
      fun t a R s _ h => by omega⟩
  | f + 1 => by
    obtain ⟨ihc, ihs, ihl⟩ := main f
    refine ⟨?_, ?_, ?_⟩
    · intro t a s hin h
      rw [codecF]
      cases hfs : firstSwitch t with
      | some c0 => exact ⟨_, _, rfl, Evo.refl s⟩
      | none =>
        simp only
        generalize hnamed : (isRef t && isComposite (under env t)) = named
        by_cases hrec : (named && (s.find (t, false)).isSome) = true
        · simp only [hrec, if_true]; exact ⟨_, _, rfl, Evo.refl s⟩
        · simp only [hrec, if_false]
          have hk : ∃ c s', kindF (codecF f env) (structF f env) env t (under env t) a
              (if named = true then s.set (t, false) (.building (t, false)) else s) = some (c, s') ∧
              Evo (if named = true then s.set (t, false) (.building (t, false)) else s) s' := by
            apply kind_ok env t0 f ihc ihs
            · intro hcomp e he hlt
              have hu : under env t ∈ univ env t0 := by
                rcases under_univ env t0 t hin with h1 | h1
                · exact h1
                · rw [h1] at hcomp; simp [isComposite] at hcomp
              have hein : InU env t0 e := univ_closed env t0 _ e hu he
              refine ⟨hein, ?_⟩
              by_cases hn : named = true
              · simp only [hn, if_true]
                have habs : s.find (t, false) = none := by
                  cases hf : s.find (t, false) with
                  | none => rfl
                  | some _ => simp [hn, hf] at hrec
                have h1 := NF_newkey (UU env t0) (MM env t0) s (t, false) (.building (t, false)) (key_mem _ t false hin)
                  habs (t, false) e.size (size_le_maxSize _ _ hein)
                have h2 := NFc_le_NF (UU env t0) (MM env t0) (s.set (t, false) (.building (t, false))) (t, false) e.size
                have h3 : NFc (UU env t0) (MM env t0) s 1 ≤ NFc (UU env t0) (MM env t0) s t.size := by
                  unfold NFc; have := size_pos t; omega
                omega
              · have hn' : named = false := by simpa using hn
                simp only [hn', Bool.false_eq_true, if_false]
                have hnr : isRef t = false := by
                  have : (isRef t && isComposite (under env t)) = false := by rw [hnamed]; exact hn'
                  simpa [hcomp] using this
                have hut : under env t = t := by
                  rcases under_cases env t with h1 | ⟨id, rfl⟩
                  · exact h1
                  · simp [isRef] at hnr
                rw [hut] at hlt
                have h2 : NFc (UU env t0) (MM env t0) s e.size + 2 ≤ NFc (UU env t0) (MM env t0) s t.size := by
                  unfold NFc; omega
                omega
            · intro hst
              have hn : named = false := by
                rw [← hnamed]
                cases hu : under env t <;> simp [hu, isStructKind, isComposite] at hst ⊢
              simp only [hn]
              simp
              exact ⟨hin, by omega⟩
          obtain ⟨c, s', h1, m1⟩ := hk
          simp only [h1]
          refine ⟨_, _, rfl, ?_⟩
          by_cases hn : named = true
          · simp only [hn, if_true] at m1 ⊢
            have habs : s.find (t, false) = none := by
              cases hf : s.find (t, false) with
              | none => rfl
              | some _ => simp [hn, hf] at hrec
            exact evo_named s s' (t, false) (t, false) habs m1
          · simp only [hn, if_false] at m1 ⊢
            exact m1
    · intro t a root s hin h
      rw [structF]
      cases hf : s.find (t, a) with
      | some e => exact ⟨_, _, rfl, Evo.refl s, fun r he => ⟨rfl, by rw [he]⟩⟩
      | none =>
        simp only
        obtain ⟨hfin, hsz⟩ := fieldsOf_in env t0 t hin
        have h1 := NF_newkey (UU env t0) (MM env t0) s (t, a) (.building (root.getD (t, a))) (key_mem _ t a hin) hf
          (root.getD (t, a)) (fieldsOf env t).size (by omega)
        have h3 : NFc (UU env t0) (MM env t0) s 1 ≤ NFc (UU env t0) (MM env t0) s t.size := by
          unfold NFc; have := size_pos t; omega
        obtain ⟨fs, s2, h2, m2⟩ := fields_ok env t0 _ _ _ f ihc ihs ihl a (root.getD (t, a)) (fieldsOf env t)
          (s.set (t, a) (.building (root.getD (t, a)))) hfin
          (by omega)
        simp only [h2]
        exact ⟨_, _, rfl, evo_struct s s2 (t, a) _ fs hf m2, fun r he => by cases he⟩
    · intro t a R s hin h
      rw [listF]
      exact fields_ok env t0 _ _ _ f ihc ihs ihl a R (fieldsOf env t) s (fieldsOf_in env t0 t hin).1 (by omega)

end main

/-- **choose_terminates.** For every environment (recursive definitions included), every type and addressability, the
construction started with an empty `seen` returns a codec: the fuel of `choose` is never exhausted. -/
theorem choose_terminates (env : Env) (t : TD) (a : Bool) :
    ∃ c s, codecF (fuelFor env t) env t a [] = some (c, s) := by
  have hin : InU env t t := by simp [InU, univ, subs_self]
  obtain ⟨c, s, h, _⟩ := (main env t (fuelFor env t)).1 t a [] hin (by
    simp only [fuelFor, NFc, UU, MM]
    have h1 := absent_le (keysOf (univ env t)) []
    have h2 := Nat.mul_le_mul_right ((keysOf (univ env t)).length + 1) h1
    have h3 := Nat.mul_le_mul_right (maxSize (univ env t) + 2) h2
    omega)
  exact ⟨c, s, h⟩

theorem choose_eq (env : Env) (t : TD) (a : Bool) :
    codecF (fuelFor env t) env t a [] = some (choose env t a) := by
  obtain ⟨c, s, h⟩ := choose_terminates env t a
  simp [choose, h]

theorem choose_ne_cut_fuel (env : Env) (t : TD) (a : Bool) : (codecF (fuelFor env t) env t a []).isSome := by
  obtain ⟨c, s, h⟩ := choose_terminates env t a
  simp [h]

end Enc.Lemmas.JsonCodecChoiceTerm

#print axioms Enc.Lemmas.JsonCodecChoiceTerm.choose_terminates
