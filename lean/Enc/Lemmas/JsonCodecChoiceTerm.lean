import Enc.Lemmas.JsonCodecChoiceSeen
/-!
# `constructCodec` terminates on every type graph (recursive types through `seen`): the fuel `fuelFor` suffices

Potential: the number of keys (defined type, addressability) not in `seen` yet. Unfolding a definition — the only
step that is not structurally decreasing — happens only after a new key was put into `seen`: the struct key
(t, canAddr), which stays, or the key (t, false) of a named slice/map/pointer/array, which is deleted on the way out
but is present for everything below. Between two unfoldings the recursion descends into a definition body.
-/
set_option linter.unusedSimpArgs false
namespace Enc.Lemmas.JsonCodecChoiceTerm
open Enc.Model.Json.CodecChoice Enc.Lemmas.JsonCodecChoiceSeen

def NF (env : Env) (s : Seen) (n : Nat) : Nat := 2 * (unseen env s * (maxDef env + 2) + n)

theorem NF_mono (env : Env) {s s' : Seen} (h : Mono s s') {n n' : Nat} (hn : n' ≤ n) : NF env s' n' ≤ NF env s n := by
  unfold NF
  have := unseen_mono env s s' h
  have := Nat.mul_le_mul_right (maxDef env + 2) this
  omega

/-- after a new key of a defined type went into `seen`, a whole definition body fits into the budget of the reference -/
theorem NF_set (env : Env) (s : Seen) (k : Key) (e : Entry) (hk : k ∈ allKeys env) (habs : s.find k = none)
    (n : Nat) (hn : n ≤ maxDef env) : NF env (s.set k e) n + 4 ≤ NF env s 1 := by
  unfold NF
  have h1 := unseen_set_lt env s k e hk habs
  have : (unseen env (s.set k e) + 1) * (maxDef env + 2) ≤ unseen env s * (maxDef env + 2) :=
    Nat.mul_le_mul_right _ h1
  rw [Nat.add_mul] at this
  omega

def CodecOK (env : Env) (codec : CodecFn) (f : Nat) : Prop :=
  ∀ t a s, NF env s t.size + 1 ≤ f → ∃ c s', codec t a s = some (c, s') ∧ Mono s s'

def StructOK (env : Env) (strct : StructFn) (f : Nat) : Prop :=
  ∀ t a s, NF env s t.size ≤ f → ∃ e s', strct t a s = some (e, s') ∧ Mono s s'

theorem integerType_size (u : TD) (h : isIntKind u = true) : (integerType u).size = 1 := by
  unfold isIntKind at h
  split at h <;> simp_all [integerType, TD.size]

theorem stringCodec_ok (env : Env) (codec : CodecFn) (f : Nat) (hc : CodecOK env codec f) (k : TD) (s : Seen)
    (hk : isIntKind (under env k) = true) (h : NF env s k.size + 1 ≤ f) :
    ∃ c s', stringCodecF codec env k s = some (c, s') ∧ Mono s s' := by
  unfold stringCodecF
  have hsz : (if implT env .mj k || implPtr env .uj k then integerType (under env k) else k).size ≤ k.size := by
    split
    · rw [integerType_size _ hk]; exact size_pos k
    · exact Nat.le_refl _
  obtain ⟨c, s', h1, h2⟩ := hc (if implT env .mj k || implPtr env .uj k then integerType (under env k) else k) false s
    (by have := NF_mono env (Mono.refl s) hsz; omega)
  exact ⟨.quoted c, s', by simp only [h1], h2⟩

theorem mapKey_ok (env : Env) (codec : CodecFn) (f : Nat) (hc : CodecOK env codec f) (k : TD) (s : Seen)
    (h : NF env s k.size + 1 ≤ f) :
    ∃ r s', mapKeyF codec env k s = some (r, s') ∧ Mono s s' := by
  have hkind : ∃ kd s', (if isStringKind (under env k) then some (Choice.prim .string, s)
        else if isIntKind (under env k) then stringCodecF codec env k s else some (Choice.unsupported, s))
        = some (kd, s') ∧ Mono s s' := by
    by_cases h1 : isStringKind (under env k) = true
    · simp only [h1, if_true]; exact ⟨_, _, rfl, Mono.refl s⟩
    · by_cases h2 : isIntKind (under env k) = true
      · simp only [h1, h2, if_true, if_false]; exact stringCodec_ok env codec f hc k s h2 h
      · simp only [h1, h2, if_false]; exact ⟨_, _, rfl, Mono.refl s⟩
  unfold mapKeyF
  simp only
  by_cases h0 : (implT env .mt k || implPtr env .ut k) = true
  · simp only [h0, if_true]
    by_cases h1 : (!implT env .mt k || !implPtr env .ut k) = true
    · simp only [h1, if_true]
      obtain ⟨kd, s', hk, hm⟩ := hkind
      simp only [hk]
      exact ⟨_, _, rfl, hm⟩
    · simp only [h1, if_false]
      exact ⟨_, _, rfl, Mono.refl s⟩
  · simp only [h0, if_false]
    by_cases h1 : isStringKind (under env k) = true
    · simp only [h1, if_true]; exact ⟨_, _, rfl, Mono.refl s⟩
    · by_cases h2 : isIntKind (under env k) = true
      · simp only [h1, h2, if_true, if_false]
        obtain ⟨c, s', hk, hm⟩ := stringCodec_ok env codec f hc k s h2 h
        simp only [hk]
        exact ⟨_, _, rfl, hm⟩
      · simp only [h1, h2, if_false]; exact ⟨_, _, rfl, Mono.refl s⟩

theorem stringify_ok (env : Env) (codec : CodecFn) (f : Nat) (hc : CodecOK env codec f) (a : Bool) (ft : TD) (c : Choice)
    (s : Seen) (h : NF env s ft.size + 1 ≤ f) :
    ∃ c' s', stringifyF codec env a ft c s = some (c', s') ∧ Mono s s' := by
  unfold stringifyF
  extract_lets typ q q'
  by_cases h0 : (typ != ft) = true
  · simp only [h0, if_true]
    obtain ⟨p, s', h1, h2⟩ := hc ft a s h
    simp only [h1]
    exact ⟨_, _, rfl, h2⟩
  · simp only [h0, if_false]
    exact ⟨_, _, rfl, Mono.refl s⟩

theorem fl_size_field (n : String) (e st : Bool) (t : TD) (r : FL) :
    (FL.cons n e st t r).size = t.size + r.size + 1 := by simp [FL.size]

theorem peel_size (ft : TD) : (peel ft).size ≤ ft.size := by
  cases ft <;> simp [peel, TD.size]

theorem fields_ok (env : Env) (codec : CodecFn) (strct : StructFn) (f : Nat) (hc : CodecOK env codec f)
    (hs : StructOK env strct f) (a : Bool) :
    ∀ (fs : FL) (s : Seen), NF env s fs.size + 1 ≤ f →
      ∃ cl s', fieldsF codec strct env a fs s = some (cl, s') ∧ Mono s s'
  | .nil, s, _ => ⟨.nil, s, by simp [fieldsF], Mono.refl s⟩
  | .cons name emb str ft rest, s, h => by
    rw [fl_size_field] at h
    unfold fieldsF
    extract_lets isP typ
    have htyp : typ.size ≤ ft.size := peel_size ft
    have hrest : ∀ s', Mono s s' → NF env s' rest.size + 1 ≤ f := fun s' hm => by
      have := NF_mono env hm (show rest.size ≤ ft.size + rest.size + 1 by omega); omega
    by_cases h0 : (emb && isStructKind (under env typ)) = true
    · simp only [h0, if_true]
      obtain ⟨e, s1, h1, m1⟩ := hs typ (a || isP) s (by
        have := NF_mono env (Mono.refl s) (show typ.size ≤ ft.size + rest.size + 1 by omega); omega)
      simp only [h1]
      obtain ⟨r, s2, h2, m2⟩ := fields_ok env codec strct f hc hs a rest s1 (hrest s1 m1)
      simp only [h2]
      exact ⟨_, _, rfl, m1.trans m2⟩
    · simp only [h0, if_false]
      obtain ⟨c, s1, h1, m1⟩ := hc ft a s (by
        have := NF_mono env (Mono.refl s) (show ft.size ≤ ft.size + rest.size + 1 by omega); omega)
      simp only [h1]
      have hstr : ∃ c' s2, (if str = true then stringifyF codec env a ft c s1 else some (c, s1)) = some (c', s2) ∧ Mono s1 s2 := by
        by_cases hst : str = true
        · simp only [hst, if_true]
          exact stringify_ok env codec f hc a ft c s1 (by
            have := NF_mono env m1 (show ft.size ≤ ft.size + rest.size + 1 by omega); omega)
        · simp only [hst, if_false]; exact ⟨_, _, rfl, Mono.refl s1⟩
      obtain ⟨c', s2, h2, m2⟩ := hstr
      simp only [h2]
      obtain ⟨r, s3, h3, m3⟩ := fields_ok env codec strct f hc hs a rest s2 (hrest s2 (m1.trans m2))
      simp only [h3]
      exact ⟨_, _, rfl, (m1.trans m2).trans m3⟩

theorem kind_ok (env : Env) (codec : CodecFn) (strct : StructFn) (f : Nat) (hc : CodecOK env codec f)
    (hs : StructOK env strct f) (t u : TD) (a : Bool) (s : Seen)
    (hchild : isComposite u = true → ∀ e : TD, e.size < u.size → NF env s e.size + 1 ≤ f)
    (hstruct : isStructKind u = true → NF env s t.size ≤ f) :
    ∃ c s', kindF codec strct env t u a s = some (c, s') ∧ Mono s s' := by
  unfold kindF
  split
  · exact ⟨_, _, rfl, Mono.refl s⟩
  · exact ⟨_, _, rfl, Mono.refl s⟩
  · exact ⟨_, _, rfl, Mono.refl s⟩
  · exact ⟨_, _, rfl, Mono.refl s⟩
  · exact ⟨_, _, rfl, Mono.refl s⟩
  · -- array
    rename_i n e
    obtain ⟨c, s1, h1, m1⟩ := hc e a s (hchild rfl e (by simp [TD.size]))
    simp only [h1]; exact ⟨_, _, rfl, m1⟩
  · -- slice
    rename_i e
    split
    · exact ⟨_, _, rfl, Mono.refl s⟩
    · obtain ⟨c, s1, h1, m1⟩ := hc e true s (hchild rfl e (by simp [TD.size]))
      simp only [h1]; exact ⟨_, _, rfl, m1⟩
  · -- map
    rename_i k v
    split
    · exact ⟨_, _, rfl, Mono.refl s⟩
    · obtain ⟨vc, s1, h1, m1⟩ := hc v false s (hchild rfl v (by simp [TD.size]; omega))
      simp only [h1]
      obtain ⟨r, s2, h2, m2⟩ := mapKey_ok env codec f hc k s1 (by
        have := hchild rfl k (by simp [TD.size]; omega)
        have := NF_mono env m1 (Nat.le_refl k.size); omega)
      simp only [h2]
      cases r with
      | none => exact ⟨_, _, rfl, m1.trans m2⟩
      | some kc => exact ⟨_, _, rfl, m1.trans m2⟩
  · -- struct
    obtain ⟨e, s1, h1, m1⟩ := hs t a s (hstruct (by simp [isStructKind]))
    simp only [h1]; exact ⟨_, _, rfl, m1⟩
  · -- ptr
    rename_i e
    obtain ⟨c, s1, h1, m1⟩ := hc e true s (hchild rfl e (by simp [TD.size]))
    simp only [h1]; exact ⟨_, _, rfl, m1⟩
  · exact ⟨_, _, rfl, Mono.refl s⟩

theorem under_cases (env : Env) (t : TD) : under env t = t ∨ ∃ id, t = .ref id := by
  cases t <;> simp [under]

/-- a reference that unfolds to something with structure is bound in the environment, and the body is no larger than `maxDef` -/
theorem under_ref (env : Env) (id : Nat) (h : under env (.ref id) ≠ .prim .complex) :
    ∃ d, env.lookup id = some d ∧ (under env (.ref id)).size ≤ maxDef env := by
  unfold under at h ⊢
  cases hl : env.lookup id with
  | none => simp [hl] at h
  | some d =>
    refine ⟨d, rfl, ?_⟩
    have hsz := lookup_size_le env id d hl
    simp only [hl] at h ⊢
    cases hu : d.under <;> simp only [hu] at h hsz ⊢ <;> first | exact hsz | exact absurd rfl h

theorem NF_pos (env : Env) (s : Seen) (t : TD) : 2 ≤ NF env s t.size := by
  unfold NF; have := size_pos t; omega

theorem main (env : Env) : ∀ f, CodecOK env (codecF f env) f ∧ StructOK env (structF f env) f
  | 0 => ⟨fun t a s h => by omega, fun t a s h => by have := NF_pos env s t; omega⟩
  | f + 1 => by
    obtain ⟨ihc, ihs⟩ := main env f
    constructor
    · intro t a s h
      rw [codecF]
      cases hfs : firstSwitch t with
      | some c0 => exact ⟨_, _, rfl, Mono.refl s⟩
      | none =>
        simp only
        generalize ht' : t = t' at *
        generalize hnamed : (isRef t' && isComposite (under env t')) = named at *
        by_cases hrec : (named && (s.find (t', false)).isSome) = true
        · simp only [hrec, if_true]; exact ⟨_, _, rfl, Mono.refl s⟩
        · simp only [hrec, if_false]
          have hk : ∃ c s', kindF (codecF f env) (structF f env) env t' (under env t') a
              (if named = true then s.set (t', false) .building else s) = some (c, s') ∧
              Mono (if named = true then s.set (t', false) .building else s) s' := by
            apply kind_ok env _ _ f ihc ihs
            · intro hcomp e he
              by_cases hn : named = true
              · -- a named composite: the key is new, the body fits
                simp only [hn, if_true]
                have habs : s.find (t', false) = none := by
                  cases hf : s.find (t', false) with
                  | none => rfl
                  | some _ => simp [hn, hf] at hrec
                have hr : isRef t' = true := by
                  have : (isRef t' && isComposite (under env t')) = true := by rw [hnamed]; exact hn
                  simp at this; exact this.1
                obtain ⟨id, rfl⟩ : ∃ id, t' = .ref id := by
                  cases t' <;> simp [isRef] at hr; exact ⟨_, rfl⟩
                obtain ⟨d, hd, hsz⟩ := under_ref env id (by
                  intro hc; rw [hc] at hcomp; simp [isComposite] at hcomp)
                have := NF_set env s (.ref id, false) .building (mem_allKeys env id d false hd) habs e.size (by omega)
                have h1 : (TD.ref id).size = 1 := by simp [TD.size]
                rw [h1] at h
                omega
              · have hn' : named = false := by simpa using hn
                simp only [hn', Bool.false_eq_true, if_false]
                have hnr : isRef t' = false := by
                  have : (isRef t' && isComposite (under env t')) = false := by rw [hnamed]; exact hn'
                  simpa [hcomp] using this
                have hu : under env t' = t' := by
                  rcases under_cases env t' with h1 | ⟨id, rfl⟩
                  · exact h1
                  · simp [isRef] at hnr
                rw [hu] at he
                have := NF_mono env (Mono.refl s) (show e.size ≤ t'.size - 1 by omega)
                have h2 : NF env s (t'.size - 1) + 2 ≤ NF env s t'.size := by
                  unfold NF; have := size_pos e; omega
                omega
            · intro hst
              have hn : named = false := by
                rw [← hnamed]
                cases hu : under env t' <;> simp [hu, isStructKind, isComposite] at hst ⊢
              simp only [hn]
              simp
              omega
          obtain ⟨c, s', h1, m1⟩ := hk
          simp only [h1]
          refine ⟨_, _, rfl, ?_⟩
          by_cases hn : named = true
          · simp only [hn, if_true] at m1 ⊢
            have habs : s.find (t', false) = none := by
              cases hf : s.find (t', false) with
              | none => rfl
              | some _ => simp [hn, hf] at hrec
            exact mono_erase_of_absent s s' (t', false) .building habs m1
          · simp only [hn, if_false] at m1 ⊢
            exact m1
    · intro t a s h
      rw [structF]
      cases hf : s.find (t, a) with
      | some e => exact ⟨_, _, rfl, Mono.refl s⟩
      | none =>
        simp only
        have hfit : NF env (s.set (t, a) .building) (fieldsOf env t).size + 1 ≤ f := by
          have hm := mono_set s (t, a) .building
          unfold fieldsOf
          split
          · rename_i fs hu
            rcases under_cases env t with h1 | ⟨id, rfl⟩
            · rw [h1] at hu; subst hu
              have := NF_mono env hm (Nat.le_refl fs.size)
              have h2 : NF env s fs.size + 2 = NF env s (TD.struct fs).size := by unfold NF; simp [TD.size]; omega
              omega
            · obtain ⟨d, hd, hsz⟩ := under_ref env id (by rw [hu]; simp)
              rw [hu] at hsz
              have := NF_set env s (.ref id, a) .building (mem_allKeys env id d a hd) hf fs.size (by
                simp [TD.size] at hsz; omega)
              have h1 : (TD.ref id).size = 1 := by simp [TD.size]
              rw [h1] at h
              omega
          · have := NF_mono env hm (Nat.le_refl 0)
            have h2 : NF env s 0 + 2 ≤ NF env s t.size := by unfold NF; have := size_pos t; omega
            simp only [FL.size]
            omega
        obtain ⟨fs, s2, h2, m2⟩ := fields_ok env _ _ f ihc ihs a (fieldsOf env t) _ hfit
        simp only [h2]
        exact ⟨_, _, rfl, ((mono_set s (t, a) .building).trans m2).trans (mono_set s2 (t, a) (.done fs))⟩

/-- **choose_terminates.** For every environment (recursive definitions included), every type and addressability, the
construction started with an empty `seen` returns a codec: the fuel of `choose` is never exhausted. -/
theorem choose_terminates (env : Env) (t : TD) (a : Bool) :
    ∃ c s, codecF (fuelFor env t) env t a [] = some (c, s) := by
  obtain ⟨c, s, h, _⟩ := (main env (fuelFor env t)).1 t a [] (by unfold fuelFor fuelNeeded NF; omega)
  exact ⟨c, s, h⟩

theorem choose_eq (env : Env) (t : TD) (a : Bool) :
    codecF (fuelFor env t) env t a [] = some (choose env t a) := by
  obtain ⟨c, s, h⟩ := choose_terminates env t a
  simp [choose, h]

theorem choose_ne_cut_fuel (env : Env) (t : TD) (a : Bool) : (codecF (fuelFor env t) env t a []).isSome := by
  obtain ⟨c, s, h⟩ := choose_terminates env t a
  simp [h]

end Enc.Lemmas.JsonCodecChoiceTerm

#print axioms Enc.Lemmas.JsonCodecChoiceTerm.choose_terminates
