import Enc.Lemmas.ThriftRoundTripExact
import Enc.Lemmas.ThriftRoundTripFindings
/-!
# C04 — thrift: `Unmarshal(Marshal(v))` for binary strict, binary non-strict and compact

Entry points of the decoder round trip through structs, sets and maps (all files `ThriftRoundTrip*.lean`):

  * `decode_norm` (`…Main`)        `RTS ty v → d + nest ty ≤ maxDepth → |encode p ty v| + depth ty ≤ fuel →
                                     decode p strict d fuel ty (encode p ty v ++ rest) (zeroOf ty) = ok (norm ty v, rest)`
  * `decode_struct`                 the struct instance, stated with `normFields`
  * `decodeStruct_fields` (`…Fields`) the struct loop: records consumed one by one, all required ids seen
  * `decodeSet_norm`, `decodeMap_norm`, `mapPut_flat` (`…Coll`)
  * `unmarshal_marshal`             `RTS ty v → nest ty ≤ maxDepth → unmarshal p strict ty (marshal p ty v) = ok (norm ty v)`
  * `norm_exact` (`…Exact`), `unmarshal_marshal_exact_partial`   `Exact ty v → … = ok v`

Universe `RTS` (Bool, executable): bool, signed integers within their kind, f32/f64 (bit patterns < 2^64), strings,
`[]byte` (nil allowed), slices (nil allowed), maps and sets (nil allowed; keys pairwise distinct under the `Val.show`
equality of `mapPut`, compared after decoding), structs (field ids as `fieldDescs` reads them in 1 … 32767 and pairwise
distinct; required pointer fields non-nil; an `enum` tag only on fields whose type is int32 up to pointers and named
types; untagged fields allowed), pointers (nil allowed), named types; sizes ≤ MaxInt32. Not in the universe: unsigned
kinds, arrays, interfaces (the encoder rejects them), enum-tagged fields of another kind (known deviation).

The three known deviations are INSIDE the universe and absorbed by `norm` (so the `decode_norm`/`unmarshal_marshal`
statements are unconditional there); they are excluded by `Exact` in the `…_partial` statement.

Nesting depth: since the fix 9c8d6b4 the decoder counts the lists, sets, maps and structs it has entered (`d`, Go
`flags.depth()`) and rejects a container entered at depth ≥ maxDepth = 10000 (`Gen.c_thrift_maxDepth`) with `maxDepth`;
the ENCODER has no such limit. A type nested deeper than maxDepth containers (`nest ty`, defined in the model) therefore
does not round-trip, and the theorems carry the hypothesis `d + nest ty ≤ maxDepth` (`nest ty ≤ maxDepth` for
`unmarshal`, which starts at depth 0). The condition is on the TYPE only and is deliberately not part of `RTS`.
-/
namespace Enc.Lemmas.ThriftRoundTrip
open Enc Enc.Model.Thrift Enc.Lemmas.ThriftPrim Enc.Lemmas.ThriftSkip

/-- **struct level**: the struct decoder, started on the zero value of the struct type, reads back every emitted field
at its declared position; fields that were not written (untagged, nil pointer, non-required zero value) keep their zero
value; the required-field check passes. -/
theorem decode_struct (p : Proto) (strict : Bool) (fs : Fields) (vs : Vals) (h : RTS (.struct fs) (.struct vs) = true)
    (d fuel : Nat) (rest : Bytes) (hd : d + nest (.struct fs) ≤ Gen.c_thrift_maxDepth)
    (hf : (encode p (.struct fs) (.struct vs)).length + depth (.struct fs) ≤ fuel) :
    decode p strict d fuel (.struct fs) (encode p (.struct fs) (.struct vs) ++ rest) (zeroOf (.struct fs))
      = .ok (.struct (normFields fs vs), rest) := by
  have := decode_norm p strict (.struct fs) (.struct vs) h d fuel rest hd hf
  simpa only [norm] using this

/-- **C04, entry point.** `Unmarshal(Marshal(v))` succeeds with the normal form of `v`, for the three protocol settings
and both decoder modes, for every type of the universe nested at most maxDepth = 10000 containers deep (`hd`; deeper
types are rejected by the decoder since the fix 9c8d6b4, pointers and named types do not count): the model's `unmarshal`
supplies the fuel `4·len + 64 + depth ty` (the fuel is a model device: Go recurses on the type without a budget). -/
theorem unmarshal_marshal (p : Proto) (strict : Bool) (ty : Ty) (v : Val) (h : RTS ty v = true)
    (hd : nest ty ≤ Gen.c_thrift_maxDepth) :
    unmarshal p strict ty (marshal p ty v) = .ok (norm ty v) := by
  have := decode_norm p strict ty v h 0 (4 * (encode p ty v).length + 64 + depth ty) [] (by omega) (by omega)
  rw [List.append_nil] at this
  unfold unmarshal marshal
  rw [this]
  rfl

/-- **C04, exact form (partial).** `Unmarshal(Marshal(v)) = v` on `RTS ∩ Exact`. Excluded shapes (on each of them the
exact round trip is false in the model, `norm` says what comes back instead):
  * `-0.0` (and any zero value that is not literally `zeroOf`) in a non-required field: elided, comes back `+0.0`;
  * nil pointers that the encoder writes — inside lists / sets / maps, or an inner nil of a `**T` field: come back as
    pointers to zero values;
  * nil `[]byte` / slice / map in a required field or inside a collection: comes back empty and non-nil;
  * values held by untagged fields (never written), set members other than `struct{}{}`;
and, outside `RTS` altogether: enum-tagged fields of a kind other than int32, required pointer fields that are nil
(`missingField`), unsigned kinds / arrays / interfaces, ids outside 1 … 32767 or repeated; and types nested deeper than
maxDepth containers (`hd`). -/
theorem unmarshal_marshal_exact_partial (p : Proto) (strict : Bool) (ty : Ty) (v : Val) (h : RTS ty v = true)
    (hd : nest ty ≤ Gen.c_thrift_maxDepth) (hx : Exact ty v) : unmarshal p strict ty (marshal p ty v) = .ok v := by
  rw [unmarshal_marshal p strict ty v h hd, norm_exact ty v hx]

/-- the depth hypothesis is satisfiable for nested types (`[]map[string]struct{ A []int32 }`: 4 containers) -/
example : nest (.slice (.map .str (.struct (.cons "A" "thrift:\"1\"" false (.slice (.int .i32)) .nil))))
    ≤ Gen.c_thrift_maxDepth := by decide

/-- non-vacuity of `unmarshal_marshal`: a nested value in the universe (evaluated, tags are strings), within the depth
bound -/
example : nest Findings.big ≤ Gen.c_thrift_maxDepth := by decide
#guard RTS Findings.big Findings.bigV && nest Findings.big == 3

#print axioms decode_norm
#print axioms unmarshal_marshal
#print axioms unmarshal_marshal_exact_partial

end Enc.Lemmas.ThriftRoundTrip
