import Enc.Lemmas.ProtoRewriteSpecMain
/-!
# C19 for the common rewriters, without any hypothesis on the specification

`MessageRewriter` tables whose entries are `RawMessage` templates (or `multiRewriter`s of such) that are themselves valid
messages (`rawOKEnts`, decidable): the specification is defined on EVERY valid input (`specMsg_flat_defined`), hence
(`flat_message_spec`) for every valid input the Go rewriter returns a valid message whose records are EXACTLY the
specification's, and the untemplated records are kept in order.
-/
namespace Enc.Lemmas.ProtoRewriteSpec
open Enc Enc.Model.Proto Enc.Spec.Protobuf

mutual
/-- a `RawMessage` template that is a valid message, or a `multiRewriter` of such -/
def rawOK : Rw → Bool
  | .raw b => (parse (b.length + 1) b).isSome
  | .multi rs => rawOKList rs
  | .message _ _ => false
  | .embedded _ _ _ => false
  | .embeddedMerge _ _ _ => false
  | .replacement _ => false
def rawOKList : List Rw → Bool
  | [] => true
  | r :: rs => rawOK r && rawOKList rs
end

def rawOKEnts : List (Nat × Rw) → Bool
  | [] => true
  | (_, r) :: rs => rawOK r && rawOKEnts rs

theorem rawOK_facts (n : Nat) :
    (∀ r, sizeOf r ≤ n → rawOK r = true → rwOK r = true ∧ hasEmb r = false) ∧
    (∀ rs, sizeOf rs ≤ n → rawOKList rs = true → listOK rs = true ∧ hasEmbList rs = false) := by
  induction n with
  | zero =>
    refine ⟨?_, ?_⟩
    · intro r h; cases r <;> simp at h
    · intro rs h; cases rs <;> simp at h
  | succ n ih =>
    refine ⟨?_, ?_⟩
    · intro r h hr
      cases r with
      | raw b => simp [rwOK, hasEmb]
      | multi rs =>
        simp only [rawOK] at hr
        simp only [Rw.multi.sizeOf_spec] at h
        simpa [rwOK, hasEmb] using ih.2 rs (by omega) hr
      | message len rs => simp [rawOK] at hr
      | embedded number len rs => simp [rawOK] at hr
      | embeddedMerge number len rs => simp [rawOK] at hr
      | replacement r => simp [rawOK] at hr
    · intro rs h hr
      cases rs with
      | nil => simp [listOK, hasEmbList]
      | cons r rs =>
        simp only [rawOKList, Bool.and_eq_true] at hr
        simp only [List.cons.sizeOf_spec] at h
        have h1 := ih.1 r (by omega) hr.1
        have h2 := ih.2 rs (by omega) hr.2
        simp [listOK, hasEmbList, h1, h2]

theorem rawOK_rwOK (r : Rw) (h : rawOK r = true) : rwOK r = true ∧ hasEmb r = false :=
  (rawOK_facts (sizeOf r)).1 r (Nat.le_refl _) h

theorem rawOKEnts_facts (len : Nat) (rs : List (Nat × Rw)) (h : rawOKEnts rs = true)
    (hidx : ∀ p ∈ rs, p.1 < len) : entsOK len rs = true ∧ hasEmbEnts rs = false := by
  induction rs with
  | nil => simp [entsOK, hasEmbEnts]
  | cons p rs ih =>
    obtain ⟨i, r⟩ := p
    simp only [rawOKEnts, Bool.and_eq_true] at h
    have h1 := rawOK_rwOK r h.1
    have h2 := ih h.2 (fun p hp => hidx p (by simp [hp]))
    have hi := hidx (i, r) (by simp)
    simp [entsOK, hasEmbEnts, h1, h2, hi]

theorem getRw_rawOK (rs : List (Nat × Rw)) (f : Nat) (r : Rw) (h : rawOKEnts rs = true) (hg : getRw rs f = some r) :
    rawOK r = true := by
  induction rs with
  | nil => simp [getRw] at hg
  | cons p rs ih =>
    obtain ⟨i, r'⟩ := p
    simp only [rawOKEnts, Bool.and_eq_true] at h
    rw [getRw_cons] at hg
    by_cases hi : (i == f) = true
    · simp only [hi, if_true, Option.some.injEq] at hg
      subst hg; exact h.1
    · simp only [hi] at hg
      exact ih h.2 hg

/-- the specification is defined on raw templates, whatever the payload, with fuel `fuelD r` -/
theorem spec_raw_defined (sf : Nat) :
    (∀ r p, rawOK r = true → fuelD r ≤ sf → ∃ recs, specRw sf (toSpec r) p = some recs) ∧
    (∀ rs p, rawOKList rs = true → 1 + rs.length + fuelDList rs ≤ sf →
      ∃ recs, specMulti sf (toSpecList rs) p = some recs) := by
  induction sf with
  | zero =>
    refine ⟨?_, ?_⟩
    · intro r p _ h; have := fuelD_pos r; omega
    · intro rs p _ h; omega
  | succ f ih =>
    refine ⟨?_, ?_⟩
    · intro r p hr hf
      cases r with
      | raw b =>
        simp only [rawOK] at hr
        simp only [toSpec, specRw_raw]
        cases hp : parse (b.length + 1) b with
        | none => rw [hp] at hr; simp at hr
        | some recs => exact ⟨recs, rfl⟩
      | multi rs =>
        simp only [rawOK] at hr
        simp only [fuelD] at hf
        simp only [toSpec, specRw_multi]
        exact ih.2 rs p hr (by omega)
      | message len rs => simp [rawOK] at hr
      | embedded number len rs => simp [rawOK] at hr
      | embeddedMerge number len rs => simp [rawOK] at hr
      | replacement r => simp [rawOK] at hr
    · intro rs p hr hf
      cases rs with
      | nil => exact ⟨[], by simp [toSpecList, specMulti_nil]⟩
      | cons r rs =>
        simp only [rawOKList, Bool.and_eq_true] at hr
        simp only [fuelDList, List.length_cons] at hf
        obtain ⟨a, ha⟩ := ih.1 r p hr.1 (by omega)
        obtain ⟨b, hb⟩ := ih.2 rs p hr.2 (by omega)
        exact ⟨a ++ b, by simp only [toSpecList, specMulti_cons]; rw [ha, hb]; rfl⟩

theorem specAbsent_flat_defined (rs : List (Nat × Rw)) (h : rawOKEnts rs = true) (seen : List Nat) :
    ∀ sf, rs.length + 1 + fuelDEnts rs ≤ sf →
      ∃ recs, specAbsent sf ((toSpecEnts rs).filter fun p => !seen.contains p.1) = some recs := by
  induction rs with
  | nil =>
    intro sf hf
    cases sf with
    | zero => omega
    | succ f => exact ⟨[], by simp [toSpecEnts, specAbsent_nil]⟩
  | cons p rs ih =>
    obtain ⟨i, r⟩ := p
    intro sf hf
    simp only [rawOKEnts, Bool.and_eq_true] at h
    simp only [fuelDEnts, List.length_cons] at hf
    rw [filter_ents_cons]
    by_cases hc : seen.contains i = true
    · simp only [hc, if_true]
      exact ih h.2 sf (by omega)
    · simp only [hc, Bool.false_eq_true, if_false]
      cases sf with
      | zero => omega
      | succ f =>
        obtain ⟨a, ha⟩ := (spec_raw_defined f).1 r [] h.1 (by omega)
        obtain ⟨b, hb⟩ := ih h.2 f (by omega)
        exact ⟨a ++ b, by rw [specAbsent_cons, ha, hb]; rfl⟩

/-- **the specification is defined on every record list** for tables of valid raw templates -/
theorem specMsg_flat_defined (rs : List (Nat × Rw)) (h : rawOKEnts rs = true) :
    ∀ (recs0 : List (Nat × WireVal)) (seen : List Nat) (sf : Nat),
      recs0.length + rs.length + 2 + fuelDEnts rs ≤ sf →
      ∃ result, specMsg sf (toSpecEnts rs) recs0 seen = some result := by
  intro recs0
  induction recs0 with
  | nil =>
    intro seen sf hf
    simp only [List.length_nil] at hf
    cases sf with
    | zero => omega
    | succ f =>
      rw [specMsg_nil]
      exact specAbsent_flat_defined rs h seen f (by omega)
  | cons q rest ih =>
    obtain ⟨n, w⟩ := q
    intro seen sf hf
    simp only [List.length_cons] at hf
    cases sf with
    | zero => omega
    | succ f =>
      rw [specMsg_cons, lookupRw_toSpec]
      cases hg : getRw rs n with
      | none =>
        obtain ⟨b, hb⟩ := ih seen f (by omega)
        exact ⟨(n, w) :: b, by rw [hb]; rfl⟩
      | some r =>
        simp only [Option.map_some]
        by_cases hc : seen.contains n = true
        · simp only [hc, if_true]
          exact ih seen f (by omega)
        · simp only [hc, Bool.false_eq_true, if_false]
          have hD := (getRw_facts 0 rs n r hg).2.1
          obtain ⟨a, ha⟩ := (spec_raw_defined f).1 r (specPayloadM (toSpec r) n w rest) (getRw_rawOK rs n r h hg) (by omega)
          obtain ⟨b, hb⟩ := ih (n :: seen) f (by omega)
          exact ⟨a ++ b, by rw [ha, hb]; rfl⟩

/-- **C19 for tables of raw templates.**  `MessageRewriter` of length `len` whose non-nil entries `rs` (indices
`< len`) are valid `RawMessage` templates or multi-rewriters of such; ANY valid input `inp` (records `recs0`);
specification fuel `sf` and Go fuel `fuel` above the stated bounds.  Then the rewriter returns `ok out`, `out` is a
valid message, its records are EXACTLY `specRw sf (toSpec r) inp` — templated fields replaced at their first
occurrence, later occurrences dropped, absent templated fields appended — and the untemplated input records are a
sublist of the output records (kept in order, values identical). -/
theorem flat_message_spec (len : Nat) (rs : List (Nat × Rw)) (inp : Bytes) (recs0 : List (Nat × WireVal))
    (hraw : rawOKEnts rs = true) (hidx : ∀ p ∈ rs, p.1 < len)
    (hv : parse (inp.length + 1) inp = some recs0)
    (hsz : (20 + sizeMEnts rs) * (inp.length + 1) < 2 ^ 64)
    (sf : Nat) (hsf : recs0.length + rs.length + 3 + fuelDEnts rs ≤ sf) :
    ∃ out result, (∀ fuel, inp.length + 2 + rs.length + fuelDEnts rs ≤ fuel →
        rewrite fuel (.message len rs) inp = .ok out) ∧
      parse (out.length + 1) out = some result ∧
      specRw sf (toSpec (.message len rs)) inp = some result ∧
      (recs0.filter fun q => (getRw rs q.1).isNone).Sublist result := by
  obtain ⟨hok, hemb⟩ := rawOKEnts_facts len rs hraw hidx
  cases sf with
  | zero => omega
  | succ f =>
    obtain ⟨result, hres⟩ := specMsg_flat_defined rs hraw recs0 [] f (by omega)
    obtain ⟨out, recs', h1, h2, h3, h4⟩ :=
      msg_core f (all_claims f) false len rs inp recs0 result hok hv (by rw [hemb]; simp) hsz hres
    have := h2.eq_of_false
    subst this
    refine ⟨out, recs', h4, h1, ?_, h3⟩
    simp only [toSpec, specRw_message]
    have hv' : parse (inp.length + 1) inp = some recs0 := hv
    rw [hv']
    exact hres

end Enc.Lemmas.ProtoRewriteSpec
