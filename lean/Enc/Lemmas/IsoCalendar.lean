import Enc.Model.Iso
import Enc.Spec.Iso
/-!
# C18 calendar lemmas

* `validate_spec`: the fast path's range check is exactly "month in 1..12, day in 1..daysInMonth, h < 24, mi < 60, s < 60".
* `daysSinceEpoch_spec`: the closed-form uint64 day count equals the recursively defined calendar
  (`Spec.Iso.daysFromCivil`) for every year 0..9999, month 1..12, day 1..31.
-/
namespace Enc.Lemmas.IsoCalendar
open Enc Enc.Model.Iso

theorem isLeapYear_spec (y : Nat) : isLeapYear y = Spec.Iso.isLeap y := by
  rw [Bool.eq_iff_iff]
  simp only [isLeapYear, Spec.Iso.isLeap, Bool.and_eq_true, Bool.or_eq_true, beq_iff_eq, bne_iff_ne, ne_eq]
  omega

theorem validate_spec (y m d h mi s : Nat) :
    Model.Iso.validate y m d h mi s =
      (decide (1 ≤ m) && decide (m ≤ 12) && decide (1 ≤ d) && decide (d ≤ Spec.Iso.daysInMonth y m) &&
        decide (h < 24) && decide (mi < 60) && decide (s < 60)) := by
  unfold validate
  rw [isLeapYear_spec]
  by_cases hm : m = 0 ∨ 12 < m
  · have : Spec.Iso.daysInMonth y m = 0 := by
      unfold Spec.Iso.daysInMonth
      split <;> first | rfl | omega
    rw [this]
    rcases hm with hm | hm
    · subst hm; simp
    · have : ¬ m ≤ 12 := by omega
      simp [this, hm]
  · have : m = 1 ∨ m = 2 ∨ m = 3 ∨ m = 4 ∨ m = 5 ∨ m = 6 ∨ m = 7 ∨ m = 8 ∨ m = 9 ∨ m = 10 ∨ m = 11 ∨ m = 12 := by omega
    rcases this with h | h | h | h | h | h | h | h | h | h | h | h <;> subst h <;>
      simp only [Spec.Iso.daysInMonth] <;> rw [Bool.eq_iff_iff] <;> cases Spec.Iso.isLeap y <;> simp <;> omega

/-! ## the day count -/

/-- `carry` of the Go code, as a number -/
def carryN (m : Nat) : Nat := if m < 3 then 1 else 0
/-- `monthDays` of the Go code, as a number -/
def mdN (m : Nat) : Nat := ((if m < 3 then m + 9 else m - 3) * 62719 + 769) / 2048

/-- the year/day part of `daysSinceEpoch` once the month part has been evaluated -/
def core (ya md d : BitVec 64) : BitVec 64 :=
  ya * 365#64 + (ya / 4#64 - ya / 100#64 + ya / 400#64) + md + (d - 1#64) - 2472632#64

/-- month part: the wrap-around of `month - 3` and its detection by `monthAdjusted > month`, for each of the 12 months -/
theorem dse_eq (y d : BitVec 64) (m : Nat) (h1 : 1 ≤ m) (h2 : m ≤ 12) :
    daysSinceEpoch y (w64 m) d = core (y + 4800#64 - w64 (carryN m)) (w64 (mdN m)) d := by
  have : m = 1 ∨ m = 2 ∨ m = 3 ∨ m = 4 ∨ m = 5 ∨ m = 6 ∨ m = 7 ∨ m = 8 ∨ m = 9 ∨ m = 10 ∨ m = 11 ∨ m = 12 := by omega
  rcases this with h | h | h | h | h | h | h | h | h | h | h | h <;> subst h <;>
    simp [daysSinceEpoch, core, w64, carryN, mdN]

theorem w64_toNat (n : Nat) (h : n < 2 ^ 64) : (w64 n).toNat = n := by
  simp [w64, Nat.mod_eq_of_lt h]

/-- no uint64 operation in `core` wraps except the final subtraction, which `toInt` reads as a signed result -/
theorem core_nat (ya md d : Nat) (hya : ya ≤ 20000) (hmd : md ≤ 400) (hd1 : 1 ≤ d) (hd2 : d ≤ 31) :
    (core (w64 ya) (w64 md) (w64 d)).toInt =
      ((ya * 365 + (ya / 4 - ya / 100 + ya / 400) + md + (d - 1) : Nat) : Int) - 2472632 := by
  have e1 : w64 ya * 365#64 = w64 (ya * 365) := by
    apply BitVec.eq_of_toNat_eq; simp [w64]
  have e4 : w64 ya / 4#64 = w64 (ya / 4) := by
    apply BitVec.eq_of_toNat_eq; rw [BitVec.toNat_udiv, w64_toNat _ (by omega), w64_toNat _ (by omega)]; rfl
  have e100 : w64 ya / 100#64 = w64 (ya / 100) := by
    apply BitVec.eq_of_toNat_eq; rw [BitVec.toNat_udiv, w64_toNat _ (by omega), w64_toNat _ (by omega)]; rfl
  have e400 : w64 ya / 400#64 = w64 (ya / 400) := by
    apply BitVec.eq_of_toNat_eq; rw [BitVec.toNat_udiv, w64_toNat _ (by omega), w64_toNat _ (by omega)]; rfl
  have es : w64 (ya / 4) - w64 (ya / 100) = w64 (ya / 4 - ya / 100) := by
    apply BitVec.eq_of_toNat_eq
    rw [BitVec.toNat_sub, w64_toNat _ (by omega), w64_toNat _ (by omega), w64_toNat _ (by omega)]
    omega
  have ed : w64 d - 1#64 = w64 (d - 1) := by
    apply BitVec.eq_of_toNat_eq
    rw [BitVec.toNat_sub, w64_toNat _ (by omega), w64_toNat _ (by omega)]
    simp; omega
  have add (a b : Nat) : w64 a + w64 b = w64 (a + b) := by
    simp [w64, BitVec.ofNat_add]
  unfold core
  rw [e1, e4, e100, e400, es, ed, add, add, add, add]
  have hN : ya * 365 + (ya / 4 - ya / 100 + ya / 400) + md + (d - 1) ≤ 100000000 := by omega
  generalize ya * 365 + (ya / 4 - ya / 100 + ya / 400) + md + (d - 1) = N at hN ⊢
  rw [BitVec.toInt_eq_toNat_cond, BitVec.toNat_sub, w64_toNat _ (by omega)]
  simp only [BitVec.toNat_ofNat]
  split <;> omega

theorem yearAdj_nat (y c : Nat) (hy : y ≤ 9999) (hc : c ≤ 1) : w64 y + 4800#64 - w64 c = w64 (y + 4800 - c) := by
  apply BitVec.eq_of_toNat_eq
  rw [BitVec.toNat_sub, BitVec.toNat_add, w64_toNat _ (by omega), w64_toNat _ (by omega), w64_toNat _ (by omega)]
  simp; omega

/-! ### recursive calendar in closed form -/

theorem closed_year (y : Nat) :
    Spec.Iso.daysBeforeYear y = 365 * y + (y + 3) / 4 - (y + 99) / 100 + (y + 399) / 400 := by
  induction y with
  | zero => rfl
  | succ n ih =>
    unfold Spec.Iso.daysBeforeYear
    rw [ih]
    simp only [Spec.Iso.isLeap]
    by_cases h4 : n % 4 = 0 <;> by_cases h100 : n % 100 = 0 <;> by_cases h400 : n % 400 = 0 <;>
      simp [h4, h100, h400] <;> omega

theorem month_cum (y m : Nat) (h1 : 1 ≤ m) (h2 : m ≤ 12) :
    Spec.Iso.daysBeforeMonth y m =
      (if m ≤ 2 then (m - 1) * 31
       else ((m - 3) * 62719 + 769) / 2048 + 59 + (if Spec.Iso.isLeap y then 1 else 0)) := by
  have : m = 1 ∨ m = 2 ∨ m = 3 ∨ m = 4 ∨ m = 5 ∨ m = 6 ∨ m = 7 ∨ m = 8 ∨ m = 9 ∨ m = 10 ∨ m = 11 ∨ m = 12 := by omega
  rcases this with h | h | h | h | h | h | h | h | h | h | h | h <;> subst h <;>
    simp [Spec.Iso.daysBeforeMonth, Spec.Iso.daysInMonth] <;> split <;> simp

/-- the closed form over `Nat` equals the recursive calendar -/
theorem days_agree (y m d : Nat) (hy : y ≤ 9999) (h1 : 1 ≤ m) (h2 : m ≤ 12) :
    (((y + 4800 - carryN m) * 365 +
        ((y + 4800 - carryN m) / 4 - (y + 4800 - carryN m) / 100 + (y + 4800 - carryN m) / 400) +
        mdN m + (d - 1) : Nat) : Int) - 2472632 = Spec.Iso.daysFromCivil y m d := by
  unfold Spec.Iso.daysFromCivil carryN mdN
  rw [closed_year, month_cum y m h1 h2]
  have e1 : (y + 4800) / 4 = y / 4 + 1200 := by omega
  have e2 : (y + 4800) / 100 = y / 100 + 48 := by omega
  have e3 : (y + 4800) / 400 = y / 400 + 12 := by omega
  have f1 : (y + 4800 - 1) / 4 = (y + 3) / 4 + 1199 := by omega
  have f2 : (y + 4800 - 1) / 100 = (y + 99) / 100 + 47 := by omega
  have f3 : (y + 4800 - 1) / 400 = (y + 399) / 400 + 11 := by omega
  by_cases hm : m < 3
  · have hm' : m ≤ 2 := by omega
    simp only [hm, hm', if_true, f1, f2, f3]
    have : m = 1 ∨ m = 2 := by omega
    rcases this with h | h <;> subst h <;> omega
  · have hm' : ¬ m ≤ 2 := by omega
    simp only [hm, hm', if_false, Nat.sub_zero, e1, e2, e3]
    have g1 : (y + 3) / 4 = y / 4 + (if y % 4 = 0 then 0 else 1) := by split <;> omega
    have g2 : (y + 99) / 100 = y / 100 + (if y % 100 = 0 then 0 else 1) := by split <;> omega
    have g3 : (y + 399) / 400 = y / 400 + (if y % 400 = 0 then 0 else 1) := by split <;> omega
    rw [g1, g2, g3]
    have hb : ((m - 3) * 62719 + 769) / 2048 ≤ 400 := by omega
    generalize ((m - 3) * 62719 + 769) / 2048 = md at *
    by_cases h4 : y % 4 = 0 <;> by_cases h100 : y % 100 = 0 <;> by_cases h400 : y % 400 = 0 <;>
      simp [Spec.Iso.isLeap, h4, h100, h400] <;> omega

theorem daysSinceEpoch_spec (y m d : Nat) (hy : y ≤ 9999) (hm1 : 1 ≤ m) (hm2 : m ≤ 12) (hd1 : 1 ≤ d) (hd2 : d ≤ 31) :
    (Model.Iso.daysSinceEpoch (Model.Iso.w64 y) (Model.Iso.w64 m) (Model.Iso.w64 d)).toInt =
      Spec.Iso.daysFromCivil y m d := by
  have hc : carryN m ≤ 1 := by unfold carryN; split <;> omega
  have hmd : mdN m ≤ 400 := by unfold mdN; split <;> omega
  rw [dse_eq _ _ m hm1 hm2, yearAdj_nat y _ hy hc, core_nat _ _ _ (by omega) hmd hd1 hd2]
  exact days_agree y m d hy hm1 hm2

#print axioms validate_spec
#print axioms daysSinceEpoch_spec
end Enc.Lemmas.IsoCalendar
