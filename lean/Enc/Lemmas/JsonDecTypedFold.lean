import Enc.Lemmas.JsonDecTypedPlain
/-!
# C02, typed targets: the two case-folding key lookups agree

`fieldIndex` (model: exact name, else the first field whose `appendFoldedName` image — smallest rune of the simple-fold
orbit, ASCII lowered — equals the key's) and `fieldOf` (specification: exact name, else the first field equal under
encoding/json's `foldName` — ASCII upper-cased, KELVIN SIGN ↦ K, LONG S ↦ S) pick the same field, for EVERY key and all
field names: the two folds are images of each other under the ASCII case maps.
-/
namespace Enc.Lemmas.JsonDecTypedFold
open Enc Enc.Model.Json Enc.Model.Json.Typed Enc.Lemmas.JsonDecTypedPlain
open Enc.Spec.Json (foldStd findField fieldOf)

def up (c : UInt8) : UInt8 := if 0x61 ≤ c && c ≤ 0x7a then c - 0x20 else c

theorem up_low (c : UInt8) : up (asciiLowerB c) = up c := by
  obtain ⟨⟨n⟩⟩ := c; revert n; decide +kernel

theorem low_up (c : UInt8) : asciiLowerB (up c) = asciiLowerB c := by
  obtain ⟨⟨n⟩⟩ := c; revert n; decide +kernel

theorem low_low (c : UInt8) : asciiLowerB (asciiLowerB c) = asciiLowerB c := by
  obtain ⟨⟨n⟩⟩ := c; revert n; decide +kernel

theorem foldStd_eq (x : Bytes) : foldStd x = (foldKey x).map up := by
  fun_induction foldKey x with
  | case1 => rfl
  | case2 r ih => simp only [foldStd, List.map_cons, ih]; rfl
  | case3 r ih => simp only [foldStd, List.map_cons, ih]; rfl
  | case4 c r h1 h2 ih =>
    rw [foldStd.eq_4 _ _ h1 h2]
    simp only [List.map_cons, ih, up_low]; rfl

theorem foldKey_low (x : Bytes) : (foldKey x).map asciiLowerB = foldKey x := by
  fun_induction foldKey x with
  | case1 => rfl
  | case2 r ih => simp only [List.map_cons, ih]; rfl
  | case3 r ih => simp only [List.map_cons, ih]; rfl
  | case4 c r h1 h2 ih => simp only [List.map_cons, ih, low_low]

theorem foldKey_eq (x : Bytes) : foldKey x = (foldStd x).map asciiLowerB := by
  rw [foldStd_eq, List.map_map]
  have : (asciiLowerB ∘ up) = asciiLowerB := by funext c; exact low_up c
  rw [this, foldKey_low]

/-- the two folds identify the same pairs of strings -/
theorem fold_iff (n k : Bytes) : foldKey n = foldKey k ↔ foldStd n = foldStd k := by
  constructor
  · intro h; rw [foldStd_eq, foldStd_eq, h]
  · intro h; rw [foldKey_eq, foldKey_eq, h]

theorem fieldExact_eq (key : Bytes) : (fs : JFs) → (i : Nat) → fieldExact key fs i = findField (· == key) fs i
  | .nil, _ => rfl
  | .cons n t rest, i => by simp only [fieldExact, findField, fieldExact_eq key rest (i + 1)]

theorem fieldFolded_eq (key : Bytes) : (fs : JFs) → (i : Nat) →
    fieldFolded (foldKey key) fs i = findField (fun n => foldStd n == foldStd key) fs i
  | .nil, _ => rfl
  | .cons n t rest, i => by
    have hb : (foldKey n == foldKey key) = (foldStd n == foldStd key) := by
      rw [Bool.eq_iff_iff]; simp only [beq_iff_eq]; exact fold_iff n key
    simp only [fieldFolded, findField, fieldFolded_eq key rest (i + 1), hb]

/-- **the key lookups of the decoder and of the specification agree** (every key, every field list) -/
theorem fieldIndex_eq (fs : JFs) (key : Bytes) : fieldIndex fs key = fieldOf fs key := by
  unfold fieldIndex fieldOf
  rw [fieldExact_eq, fieldFolded_eq]
  cases findField (fun x => x == key) fs 0 <;> rfl

theorem findField_props (p : Bytes → Bool) : (fs : JFs) → (i idx : Nat) → (ft : JT) → findField p fs i = some (idx, ft) →
    noPPs fs = true → noPP ft = true ∧ sizeT ft + 1 ≤ sizeFs fs
  | .nil, _, _, _, h, _ => by simp [findField] at h
  | .cons n t rest, i, idx, ft, h, hpp => by
    simp only [noPPs, Bool.and_eq_true] at hpp
    simp only [findField] at h
    split at h
    · simp only [Option.some.injEq, Prod.mk.injEq] at h
      obtain ⟨_, rfl⟩ := h
      exact ⟨hpp.1, by simp only [sizeFs]; omega⟩
    · have := findField_props p rest (i + 1) idx ft h hpp.2
      exact ⟨this.1, by simp only [sizeFs]; omega⟩

theorem fieldOf_props {fs : JFs} {key : Bytes} {idx : Nat} {ft : JT} (h : fieldOf fs key = some (idx, ft))
    (hpp : noPPs fs = true) : noPP ft = true ∧ sizeT ft + 1 ≤ sizeFs fs := by
  unfold fieldOf at h
  split at h
  · rename_i r hr; cases h; exact findField_props _ fs 0 idx ft hr hpp
  · exact findField_props _ fs 0 idx ft h hpp

#print axioms fieldIndex_eq

end Enc.Lemmas.JsonDecTypedFold
