import Enc.Lemmas.JsonRtTypedGen
import Enc.Lemmas.JsonRtTypedInd
/-!
# Typed round trip, the content of an interface: the induction over generic values
-/
set_option linter.unusedSectionVars false
namespace Enc.Lemmas.JsonRtTyped
open Enc Enc.Model.Json Enc.Model.Json.Typed
open Enc.Spec.Json (ws isWs number appendString floatOverflows boolText nullT floatText canonFloat coerceUTF8 genericText
  genericTexts genericMembers arrText objText mapText canonG canonGs canonGm normG normGs normGm consOpt validUTF8B depthG
  depthGs depthGm valueV elementsV membersV mapOf keyBelowG numberText encodesNull)
open Enc.Lemmas.JsonDecAnyRtInt (noNumCont)
open Enc.Lemmas.JsonDecAnyRender (etail etail_length noNumCont_etail ws_of_head)
open Enc.Lemmas.JsonEncTyped (gKeys)

theorem gMembers_keys (sc : Strconv) (html : Bool) : (ms : GMs) → (l : List (Bytes × Bytes)) →
    genericMembers sc html ms = some l → l.map (·.1) = gKeys ms
  | .nil, l, h => by simp only [genericMembers, Option.some.injEq] at h; subst h; rfl
  | .cons k v r, l, h => by
    simp only [genericMembers] at h
    obtain ⟨p1, l', h1, h2, rfl⟩ := consOpt_some h
    obtain ⟨x1, _, rfl⟩ := map_some' h1
    simp only [List.map_cons, gKeys, gMembers_keys sc html r l' h2]

section
variable (sc : Strconv) (c : TFlags) (html : Bool)

mutual
theorem rtg : (g : GV) → (x rest : Bytes) → (f d : Nat) → canonG sc c g = true → genericText sc html g = some x →
    depthG g ≤ d → noNumCont rest → 2 * (x.length + rest.length) ≤ f →
    valueV c.dyn f d (x ++ rest) = some (normG g, false, rest)
  | .null, x, rest, f, d, _, hx, _, _, hf => by
    simp only [genericText, Option.some.injEq] at hx; subst hx
    obtain ⟨f0, rfl⟩ : ∃ f0, f = f0 + 1 := ⟨f - 1, by simp [nullT] at hf; omega⟩
    exact (gv_lit c.dyn f0 d rest).1
  | .bool b, x, rest, f, d, _, hx, _, _, hf => by
    simp only [genericText, Option.some.injEq] at hx; subst hx
    obtain ⟨f0, rfl⟩ : ∃ f0, f = f0 + 1 := ⟨f - 1, by have := (hd_bool b).pos; omega⟩
    cases b
    · exact (gv_lit c.dyn f0 d rest).2.2
    · exact (gv_lit c.dyn f0 d rest).2.1
  | .num l k, x, rest, f, d, hc, hx, _, hn, hf => by
    cases k with
    | f64 =>
      simp only [canonG, Bool.and_eq_true, Bool.not_eq_true'] at hc
      obtain ⟨h1, h2, h3⟩ := canonFloat_facts hc.2
      simp only [genericText, h1, Option.some.injEq] at hx; subst hx
      obtain ⟨f0, rfl⟩ : ∃ f0, f = f0 + 1 := ⟨f - 1, by have := (hd_numLit h2).pos; omega⟩
      have := gv_num c f0 d l h2 rest hn (fun _ => h3)
      rw [this, hc.1]; rfl
    | num =>
      simp only [canonG, Bool.and_eq_true, beq_iff_eq] at hc
      have hne : l.isEmpty = false := by
        cases l with
        | nil => simp [Lemmas.JsonNumber.number_nil] at hc
        | cons _ _ => rfl
      simp only [genericText, numberText, hne, Bool.false_eq_true, if_false, hc.2, beq_self_eq_true, if_true,
        Option.some.injEq] at hx
      subst hx
      obtain ⟨f0, rfl⟩ : ∃ f0, f = f0 + 1 := ⟨f - 1, by have := (hd_numLit hc.2).pos; omega⟩
      have := gv_num c f0 d l hc.2 rest hn (fun h => by rw [hc.1] at h; cases h)
      rw [this, hc.1]; rfl
    | big => simp [canonG] at hc
    | i64 => simp [canonG] at hc
    | u64 => simp [canonG] at hc
  | .str s, x, rest, f, d, _, hx, _, _, hf => by
    simp only [genericText, Option.some.injEq] at hx; subst hx
    obtain ⟨f0, rfl⟩ : ∃ f0, f = f0 + 1 := ⟨f - 1, by have := (hd_string s html).pos; omega⟩
    exact gv_str c.dyn f0 d s html rest
  | .arr vs, x, rest, f, d, hc, hx, hd, hn, hf => by
    simp only [genericText] at hx
    simp only [canonG] at hc
    simp only [depthG] at hd
    obtain ⟨xs, hxs, rfl⟩ := map_some' hx
    obtain ⟨f0, rfl⟩ : ∃ f0, f = f0 + 1 := ⟨f - 1, by have := (hd_arr xs).pos; omega⟩
    have hd0 : (d == 0) = false := by simp; omega
    cases vs with
    | nil =>
      simp only [genericTexts, Option.some.injEq] at hxs; subst hxs
      rw [arr_nil, Lemmas.JsonDecAnyBase.valueV_succ_cons]
      obtain ⟨f1, rfl⟩ : ∃ f1, f0 = f1 + 1 := ⟨f0 - 1, by simp [arrText, Spec.Json.joinWith] at hf; omega⟩
      simp only [show ((0x5b : UInt8) == 0x7b) = false by decide, Bool.false_eq_true, if_false, beq_self_eq_true, if_true,
        hd0, ws_of_head (show isWs 0x5d = false by decide), ev_end, Option.map_some, normG, normGs]
    | cons v vr =>
      simp only [genericTexts] at hxs
      obtain ⟨x1, xs', h1, h2, rfl⟩ := consOpt_some hxs
      simp only [canonGs, Bool.and_eq_true] at hc
      simp only [depthGs] at hd
      have hh := hd_generic sc c html v x1 hc.1 h1
      have hlen := etail_length 0x5d xs' rest
      have hpos := hh.pos
      have hL := arr_cons_len x1 xs' rest
      rw [arr_cons, Lemmas.JsonDecAnyBase.valueV_succ_cons]
      obtain ⟨f1, rfl⟩ : ∃ f1, f0 = f1 + 1 := ⟨f0 - 1, by omega⟩
      have hv := rtg v x1 (etail 0x5d xs' rest) f1 (d - 1) hc.1 h1 (by omega) (noNumCont_etail _ (Or.inl rfl) _ _)
        (by omega)
      have hr := rtgs vr xs' rest f1 (d - 1) hc.2 h2 (by omega) hn (by omega)
      have := (ev_elem c.dyn f1 (d - 1) x1 _ rest _ _ _ hh hv (ws_etail _ (Or.inl rfl) _ _) hr).1
      simp only [show ((0x5b : UInt8) == 0x7b) = false by decide, Bool.false_eq_true, if_false, beq_self_eq_true, if_true,
        hd0, hh.ws, this, Option.map_some, normG, normGs]
  | .obj ms, x, rest, f, d, hc, hx, hd, hn, hf => by
    simp only [genericText] at hx
    simp only [canonG] at hc
    simp only [depthG] at hd
    obtain ⟨l, hl, rfl⟩ := map_some' hx
    have hsorted : Spec.Json.MapKeys.stdSort l = l := by
      rw [Lemmas.JsonEncTyped.stdSort_eq_sortBy]
      apply Lemmas.JsonEncTyped.sortBy_sorted_id
      exact Lemmas.JsonEncTyped.pairwise_of_keys l (gKeys ms) (gMembers_keys sc html ms l hl)
        (Lemmas.JsonEncTyped.gKeys_pairwise ms (canonGm_wt sc c ms hc))
    have hchain := gchain_norm sc c ms hc
    simp only [mapText, hsorted] at hf ⊢
    obtain ⟨f0, rfl⟩ : ∃ f0, f = f0 + 1 := ⟨f - 1, by have := (hd_obj (kq html l)).pos; simp only [kq] at this; omega⟩
    have hd0 : (d == 0) = false := by simp; omega
    cases ms with
    | nil =>
      simp only [genericMembers, Option.some.injEq] at hl; subst hl
      simp only [List.map_nil]
      rw [obj_nil, Lemmas.JsonDecAnyBase.valueV_succ_cons]
      obtain ⟨f1, rfl⟩ : ∃ f1, f0 = f1 + 1 := ⟨f0 - 1, by simp [objText] at hf; omega⟩
      simp only [beq_self_eq_true, if_true, hd0, Bool.false_eq_true, if_false,
        ws_of_head (show isWs 0x7d = false by decide), mv_end, Option.map_some, normG, normGm]
      rfl
    | cons k v r =>
      simp only [genericMembers] at hl
      obtain ⟨p1, l', h1, h2, rfl⟩ := consOpt_some hl
      obtain ⟨x1, hx1, rfl⟩ := map_some' h1
      simp only [canonGm, Bool.and_eq_true] at hc
      simp only [depthGm] at hd
      have hh := hd_generic sc c html v x1 hc.1.2 hx1
      have hpos := hh.pos
      simp only [List.map_cons] at hf ⊢
      have hL := obj_cons_len (appendString k html, x1) (kq html l') rest
      simp only [kq] at hL
      rw [obj_cons, Lemmas.JsonDecAnyBase.valueV_succ_cons]
      have hlen := etail_length 0x7d (mtexts (kq html l')) rest
      obtain ⟨f1, rfl⟩ : ∃ f1, f0 = f1 + 1 := ⟨f0 - 1, by omega⟩
      have hv := rtg v x1 (etail 0x7d (mtexts (kq html l')) rest) f1 (d - 1) hc.1.2 hx1 (by omega)
        (noNumCont_etail _ (Or.inr rfl) _ _) (by simp only [kq] at hf hlen ⊢; omega)
      have hr := rtgm r l' rest f1 (d - 1) hc.2 h2 (by omega) hn (by simp only [kq] at hf hlen ⊢; omega)
      have := (mv_elem c.dyn f1 (d - 1) k html x1 _ rest _ _ _ hh hc.1.1.1 hv (ws_etail _ (Or.inr rfl) _ _) hr).1
      obtain ⟨body, hq⟩ := Lemmas.JsonDecAnyRender.appendString_head k html
      have hwk : ws (appendString k html ++ 0x3a :: (x1 ++ etail 0x7d (mtexts (kq html l')) rest)) =
          appendString k html ++ 0x3a :: (x1 ++ etail 0x7d (mtexts (kq html l')) rest) := by
        rw [hq]; exact ws_of_head (by decide)
      simp only [kq] at this hwk
      simp only [beq_self_eq_true, if_true, hd0, Bool.false_eq_true, if_false, hwk, this, Option.map_some, normG]
      have e2 : mapOf ((k, normG v) :: gList (normGm r)) = normGm (.cons k v r) := by
        have := mapOf_gList _ hchain
        simpa only [normGm, gList] using this
      rw [e2]
theorem rtgs : (vs : GVs) → (xs : List Bytes) → (rest : Bytes) → (f d : Nat) → canonGs sc c vs = true →
    genericTexts sc html vs = some xs → depthGs vs ≤ d → noNumCont rest → 2 * (etail 0x5d xs rest).length + 1 ≤ f →
    elementsV c.dyn f d (etail 0x5d xs rest) false = some (normGs vs, false, rest)
  | .nil, xs, rest, f, d, _, hx, _, _, hf => by
    simp only [genericTexts, Option.some.injEq] at hx; subst hx
    obtain ⟨f0, rfl⟩ : ∃ f0, f = f0 + 1 := ⟨f - 1, by omega⟩
    exact ev_end c.dyn f0 d rest false
  | .cons v vr, xs, rest, f, d, hc, hx, hd, hn, hf => by
    simp only [genericTexts] at hx
    obtain ⟨x1, xs', h1, h2, rfl⟩ := consOpt_some hx
    simp only [canonGs, Bool.and_eq_true] at hc
    simp only [depthGs] at hd
    have hh := hd_generic sc c html v x1 hc.1 h1
    have hpos := hh.pos
    have hlen := etail_length 0x5d xs' rest
    rw [etail_cons_len] at hf
    obtain ⟨f0, rfl⟩ : ∃ f0, f = f0 + 1 := ⟨f - 1, by omega⟩
    have hv := rtg v x1 (etail 0x5d xs' rest) f0 d hc.1 h1 (by omega) (noNumCont_etail _ (Or.inl rfl) _ _) (by omega)
    have hr := rtgs vr xs' rest f0 d hc.2 h2 (by omega) hn (by omega)
    exact (ev_elem c.dyn f0 d x1 _ rest _ _ _ hh hv (ws_etail _ (Or.inl rfl) _ _) hr).2
theorem rtgm : (ms : GMs) → (l : List (Bytes × Bytes)) → (rest : Bytes) → (f d : Nat) → canonGm sc c ms = true →
    genericMembers sc html ms = some l → depthGm ms ≤ d → noNumCont rest →
    2 * (etail 0x7d (mtexts (kq html l)) rest).length + 1 ≤ f →
    membersV c.dyn f d (etail 0x7d (mtexts (kq html l)) rest) false = some (gList (normGm ms), false, rest)
  | .nil, l, rest, f, d, _, hx, _, _, hf => by
    simp only [genericMembers, Option.some.injEq] at hx; subst hx
    obtain ⟨f0, rfl⟩ : ∃ f0, f = f0 + 1 := ⟨f - 1, by omega⟩
    exact mv_end c.dyn f0 d rest false
  | .cons k v r, l, rest, f, d, hc, hx, hd, hn, hf => by
    simp only [genericMembers] at hx
    obtain ⟨p1, l', h1, h2, rfl⟩ := consOpt_some hx
    obtain ⟨x1, hx1, rfl⟩ := map_some' h1
    simp only [canonGm, Bool.and_eq_true] at hc
    simp only [depthGm] at hd
    have hh := hd_generic sc c html v x1 hc.1.2 hx1
    have hpos := hh.pos
    have hlen := etail_length 0x7d (mtexts (kq html l')) rest
    simp only [kq, mtexts, List.map_cons, etail_cons_len, List.length_append, List.length_cons, List.length_nil] at hf
    obtain ⟨f0, rfl⟩ : ∃ f0, f = f0 + 1 := ⟨f - 1, by omega⟩
    have hv := rtg v x1 (etail 0x7d (mtexts (kq html l')) rest) f0 d hc.1.2 hx1 (by omega)
      (noNumCont_etail _ (Or.inr rfl) _ _) (by simp only [kq, mtexts] at hlen ⊢; omega)
    have hr := rtgm r l' rest f0 d hc.2 h2 (by omega) hn (by simp only [kq, mtexts] at hlen ⊢; omega)
    have := (mv_elem c.dyn f0 d k html x1 _ rest _ _ _ hh hc.1.1.1 hv (ws_etail _ (Or.inr rfl) _ _) hr).2
    simp only [kq, mtexts, List.map_cons, etail, List.append_assoc, List.cons_append, List.nil_append, normGm, gList]
      at this ⊢
    exact this
end

end

end Enc.Lemmas.JsonRtTyped
