import Enc.Lemmas.JsonDecAnyBase
import Enc.Lemmas.JsonValue
import Enc.Lemmas.JsonValid
import Enc.Lemmas.JsonDecString
/-!
# C02 (decode into `any`), part 3: auxiliary facts about the model's leaves

* the kind reported by `parseValue` is determined by the first byte (what `decodeInterface` switches on);
* `parseStringUnquote` against the specification (`string` + `unquoteStd`), for any input with a remainder;
* small list facts (`litOf`, prefixes and `QSound`).
-/
namespace Enc.Lemmas.JsonDecAnyAux
open Enc Enc.Model.Json Enc.Lemmas.JsonString Enc.Lemmas.JsonGrammar Enc.Lemmas.JsonValue
open Enc.Lemmas.JsonWs (skipSpaces_eq_ws)
open Enc.Spec.Json (ws value elements members lit number consumed unquoteLit)

theorem litOf_append (v rest : Bytes) : litOf (v ++ rest) rest = v := by
  unfold litOf
  have : (v ++ rest).length - rest.length = v.length := by simp
  rw [this, List.take_left']
  rfl

theorem consumed_eq_litOf (b r : Bytes) : consumed b r = litOf b r := rfl

theorem litOf_nil (v : Bytes) : litOf v [] = v := by
  have := litOf_append v []
  simpa using this

theorem QSound.prefix {fl : PFlags} {v rest : Bytes} (h : QSound fl (v ++ rest)) : QSound fl v := by
  intro p q hv
  exact h p (q ++ rest) (by rw [hv]; simp)

/-- a proper suffix splits the input -/
theorem sfx_split {r b : Bytes} (h : Sfx r b) : ∃ v, b = v ++ r ∧ v ≠ [] := by
  obtain ⟨⟨u, hu⟩, hl⟩ := h
  refine ⟨u, hu.symm, ?_⟩
  intro e; subst e; simp at hu; subst hu; omega

/-! ### kinds -/

theorem arrayLoop_kind (fl : PFlags) : ∀ (f dp : Nat) (b : Bytes) (i : Nat) (k : Kind) (r : Bytes),
    arrayLoop fl dp f b i = .ok k r → k = .array := by
  intro f
  induction f with
  | zero => intro dp b i k r h; simp [arrayLoop] at h
  | succ f ih =>
    intro dp b i k r h
    rw [arrayLoop_succ] at h
    split at h
    · cases h
    · split at h
      · cases h; rfl
      · unfold sepK at h
        split at h
        · cases h
        · cases h
        · dsimp only at h
          split at h
          · exact ih _ _ _ _ _ h
          · cases h

theorem objectLoop_kind (fl : PFlags) : ∀ (f dp : Nat) (b : Bytes) (i : Nat) (k : Kind) (r : Bytes),
    objectLoop fl dp f b i = .ok k r → k = .object := by
  intro f
  induction f with
  | zero => intro dp b i k r h; simp [objectLoop] at h
  | succ f ih =>
    intro dp b i k r h
    rw [objectLoop_succ] at h
    split at h
    · cases h
    · split at h
      · cases h; rfl
      · unfold sepK at h
        split at h
        · cases h
        · cases h
        · dsimp only at h
          split at h
          · cases h
          · split at h
            · cases h
            · split at h
              · cases h
              · split at h
                · exact ih _ _ _ _ _ h
                · cases h

theorem parseLit_kind {b l : Bytes} {k k' : Kind} {r : Bytes} (h : parseLit b l k = .ok k' r) : k' = k := by
  unfold parseLit at h
  split at h
  · cases h; rfl
  · split at h <;> cases h

theorem expPart_kind {k1 k : Kind} {b3 r : Bytes} (h : JsonNumber.expPart k1 b3 = .ok k r) : k = k1 ∨ k = .float := by
  simp only [JsonNumber.expPart] at h
  repeat' split at h
  all_goals first | (cases h <;> simp) | skip

theorem fracPart_kind {k0 k1 : Kind} {b2 b3 : Bytes} (h : JsonNumber.fracPart k0 b2 = some (k1, b3)) :
    k1 = k0 ∨ k1 = .float := by
  simp only [JsonNumber.fracPart] at h
  repeat' split at h
  all_goals first | (cases h <;> simp) | skip

theorem numBody_kind {k0 k : Kind} {b1 r : Bytes} (h : JsonNumber.numBody k0 b1 = .ok k r) : k = k0 ∨ k = .float := by
  simp only [JsonNumber.numBody] at h
  repeat' split at h
  all_goals first | (cases h <;> simp) | skip
  rename_i k1 b3 hf
  rcases expPart_kind h with e | e
  · rcases fracPart_kind hf with e' | e'
    · exact Or.inl (e.trans e')
    · exact Or.inr (e.trans e')
  · exact Or.inr e

theorem parseNumber_kind {b : Bytes} {k : Kind} {r : Bytes} (h : parseNumber b = .ok k r) : k.isNum = true := by
  cases b with
  | nil => simp [parseNumber] at h
  | cons c0 r0 =>
    rw [JsonNumber.parseNumber_cons] at h
    split at h
    · rcases numBody_kind h with e | e <;> subst e <;> rfl
    · rcases numBody_kind h with e | e <;> subst e <;> rfl

/-- the kind class `decodeInterface` switches on, as a function of the first byte -/
inductive KindOf : UInt8 → Kind → Prop where
  | obj : KindOf 0x7b .object
  | arr : KindOf 0x5b .array
  | str (k : Kind) (h : k = .string ∨ k = .unescaped) : KindOf 0x22 k
  | null : KindOf 0x6e .null
  | true_ : KindOf 0x74 .true_
  | false_ : KindOf 0x66 .false_
  | num (c : UInt8) (k : Kind) (h : k.isNum = true)
      (hc : c ≠ 0x7b ∧ c ≠ 0x5b ∧ c ≠ 0x22 ∧ c ≠ 0x6e ∧ c ≠ 0x74 ∧ c ≠ 0x66) : KindOf c k

theorem parseValue_kind (fl : PFlags) (dp f : Nat) (c : UInt8) (t : Bytes) (k : Kind) (r : Bytes)
    (hq : QSound fl (c :: t)) (h : parseValue fl dp f (c :: t) = .ok k r) : KindOf c k := by
  cases f with
  | zero => simp [parseValue] at h
  | succ f =>
    rw [parseValue_succ_cons] at h
    split at h
    · rename_i hc; have : c = 0x7b := by simpa using hc
      subst this
      cases f with
      | zero => simp [parseObject] at h
      | succ f =>
        rw [parseObject_succ_cons] at h
        split at h
        · cases h
        · split at h
          · rw [objectLoop_kind fl _ _ _ _ _ _ h]; exact .obj
          · cases h
    split at h
    · rename_i _ hc; have : c = 0x5b := by simpa using hc
      subst this
      cases f with
      | zero => simp [parseArray] at h
      | succ f =>
        rw [parseArray_succ_cons] at h
        split at h
        · cases h
        · split at h
          · rw [arrayLoop_kind fl _ _ _ _ _ _ h]; exact .arr
          · cases h
    split at h
    · rename_i _ _ hc; have : c = 0x22 := by simpa using hc
      subst this
      obtain ⟨s, _, hk⟩ := Enc.Lemmas.JsonDecString.parseString_ok fl _ k r hq h
      rcases hk with ⟨e, _⟩ | ⟨e, _⟩
      · exact .str k (Or.inr e)
      · exact .str k (Or.inl e)
    split at h
    · rename_i _ _ _ hc; have : c = 0x6e := by simpa using hc
      subst this; rw [parseLit_kind h]; exact .null
    split at h
    · rename_i _ _ _ _ hc; have : c = 0x74 := by simpa using hc
      subst this; rw [parseLit_kind h]; exact .true_
    split at h
    · rename_i _ _ _ _ _ hc; have : c = 0x66 := by simpa using hc
      subst this; rw [parseLit_kind h]; exact .false_
    split at h
    · rename_i h1 h2 h3 h4 h5 h6 _
      exact .num c k (parseNumber_kind h)
        ⟨by simpa using h1, by simpa using h2, by simpa using h3, by simpa using h4, by simpa using h5, by simpa using h6⟩
    · cases h

/-! ### strings -/

open Enc.Lemmas.JsonDecString in
/-- `parseStringUnquote` (the word-at-a-time quote search, the flag-guarded fast path, the chunk-wise unescaping loop)
returns the content that encoding/json's `unquote` computes for the literal matched by the grammar's `string`, and the
same remainder — for every input and flags sound before each quotation mark -/
theorem parseStringUnquote_spec (fl : PFlags) (b : Bytes) (hq : QSound fl b) :
    parseStringUnquote fl b = (Spec.Json.string b).map fun rest => (unquoteLit (consumed b rest), rest) := by
  have ht := parseString_toOpt fl b hq
  unfold parseStringUnquote
  cases hp : parseString fl b with
  | err e => rw [hp] at ht; simp only [toOpt_err] at ht; rw [← ht]; rfl
  | ok k rest =>
    rw [hp] at ht; simp only [toOpt_ok] at ht
    rw [← ht]
    obtain ⟨s, rfl, hk⟩ := parseString_ok _ _ _ _ hq hp
    simp only [Option.map_some, unquoteLit, consumed, inner_extract]
    rcases hk with ⟨rfl, hs⟩ | ⟨rfl, hI⟩
    · simp only [beq_self_eq_true, if_true, std_ascii_id s hs _ (Nat.le_succ _)]
    · have : (Kind.string == Kind.unescaped) = false := by decide
      simp only [this, Bool.false_eq_true, if_false,
        loop_eq_std s.length s (Nat.le_refl _) hI (s.length + 1) (s.length + 1) (Nat.le_refl _) (Nat.le_succ _),
        Option.map_some]

theorem string_head {b r : Bytes} (h : Spec.Json.string b = some r) : ∃ t, b = 0x22 :: t := by
  cases b with
  | nil => cases h
  | cons c t =>
    rw [string_cons] at h
    split at h
    · rename_i hc; have : c = 0x22 := by simpa using hc
      exact ⟨t, by rw [this]⟩
    · cases h

theorem hasPrefix_null_quote (t : Bytes) : hasPrefix (0x22 :: t) nullLit = false := by
  simp [hasPrefix, nullLit, List.isPrefixOf]

theorem hasPrefix_null_ne (c : UInt8) (t : Bytes) (h : c ≠ 0x6e) : hasPrefix (c :: t) nullLit = false := by
  simp only [hasPrefix, nullLit, List.isPrefixOf]
  have : (0x6e == c) = false := by
    cases hh : ((0x6e : UInt8) == c)
    · rfl
    · exact absurd (by simpa using hh : (0x6e : UInt8) = c).symm h
  simp [this]

end Enc.Lemmas.JsonDecAnyAux
