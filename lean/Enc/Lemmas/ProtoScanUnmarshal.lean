import Enc.Lemmas.ProtoScanSpec
import Enc.Lemmas.ProtoLiberalConv
import Enc.Lemmas.ProtoDepth
/-!
# Lemmas for C07 — `Scan` and `Unmarshal` walk the same top-level fields

If the struct loop of `Unmarshal` works through a buffer, `Scan` succeeds on it: at every step the loop consumes exactly
the field `Parse` returns (an undeclared field is skipped whole; a declared field's codec consumes the whole `data`
window carved for it — `field_conv` / `slice_conv` of the C12 development give `m' = data.length`).
Universe: `tyOK` (the message types of C12: scalars, strings, bytes, pointers, repeated fields, nested messages).
-/
set_option linter.unusedSimpArgs false
set_option linter.unusedVariables false
namespace Enc.Lemmas.ProtoScan
open Enc Enc.Model.Proto Enc.Model.ProtoScan Enc.Lemmas.ProtoDecode Enc.Lemmas.ProtoWire Enc.Lemmas.ProtoRoundTrip
open Enc.Lemmas.ProtoLiberal
open Enc.Lemmas.ProtoRewriteSpec (VTok wireNum tag_num tag_type)
open Enc.Spec.Protobuf (FieldOpt WireVal findField)

/-- a tag token followed by a complete payload of the tag's wire type is one field -/
theorem isField_of_payload (tg p : Bytes) (tag : BitVec 64) (htg : IsVarint tg tag)
    (hp : IsPayload (tag &&& 7#64).toNat p) :
    ∃ v, IsField (tag >>> 3).toNat (tag &&& 7#64).toNat v (tg ++ p) := by
  generalize hw : (tag &&& 7#64).toNat = w at hp
  cases hp with
  | varint p u hu => exact ⟨p, ⟨tg, [], tag, by simp, htg, rfl, hw.symm, Or.inl ⟨rfl, rfl, u, hu⟩⟩⟩
  | fixed64 p h8 => exact ⟨p, ⟨tg, [], tag, by simp, htg, rfl, hw.symm, Or.inr (Or.inr (Or.inr ⟨rfl, rfl, h8⟩))⟩⟩
  | varlen l c len hl hc =>
    exact ⟨c, ⟨tg, l, tag, by simp, htg, rfl, hw.symm, Or.inr (Or.inl ⟨rfl, len, hl, hc⟩)⟩⟩
  | fixed32 p h4 => exact ⟨p, ⟨tg, [], tag, by simp, htg, rfl, hw.symm, Or.inr (Or.inr (Or.inl ⟨rfl, rfl, h4⟩))⟩⟩

/-- one step of the argument: tag token, complete payload, and the rest scans ⇒ the whole scans -/
theorem fields_step (ptag p m : Bytes) (tagN : Nat) (wv : WireVal) (htok : VTok ptag tagN) (hwn : wireNum wv = tagN % 8)
    (hpay : Pay wv p) (hb : GoLen (ptag ++ p ++ m)) (hm : (fields m).2 = .ok ()) :
    (fields (ptag ++ p ++ m)).2 = .ok () := by
  have htg : IsVarint ptag (BitVec.ofNat 64 tagN) := vtok_isVarint htok
  have hip : IsPayload (BitVec.ofNat 64 tagN &&& 7#64).toNat p := by
    rw [tag_type tagN htok.lt, ← hwn]; exact pay_isPayload hpay
  obtain ⟨v, hf⟩ := isField_of_payload ptag p _ htg hip
  rw [fields_ok_cons _ _ v (ptag ++ p) m hb hf]
  exact hm

/-- statement proved by induction on the model's fuel -/
def ScanOK (f : Nat) : Prop :=
  ∀ (fs : Fields) (fl : Flags) (b : Bytes) (lenB off : Nat) (vs : Vals) (R : Vals × Nat),
    tyOK (.struct fs) = true → fl.zigzag = false → lenB = off + b.length → GoLen b →
    decodeStructU f (fieldsOf 1 fs) b lenB vs fl off = .ok R → (fields b).2 = .ok ()

theorem scan_step (f : Nat) (ih : ∀ f', f' < f → ScanOK f') : ScanOK f := by
  intro fs fl b lenB off vs R hty hfl hL hgo h
  cases f with
  | zero => simp [decodeStructU] at h
  | succ f1 =>
  rw [decodeStruct_succ] at h
  by_cases hb : b = []
  · subst hb; rw [fields_nil]
  · have hbe : b.isEmpty = false := by cases b <;> simp_all
    simp only [hbe, Bool.false_eq_true, if_false] at h
    cases hd : decodeVarint b with
    | err e => simp [hd] at h
    | panic e => simp [hd] at h
    | ok a =>
      obtain ⟨tag, n⟩ := a
      simp only [hd] at h
      obtain ⟨ptag, b1, tagN, eb, htok, hn, htag⟩ := vtok_of_decodeVarint b tag n hd
      subst eb hn htag
      rw [tag_num tagN htok.lt, tag_type tagN htok.lt, List.drop_left] at h
      have hty' := hty
      simp only [tyOK, Bool.and_eq_true, decide_eq_true_eq] at hty'
      have l1 := htok.length_pos
      simp only [List.length_append] at hL
      have hlook := lookupField_fieldsOf fs (tagN / 8) hty
      cases hff : findField fs (tagN / 8) with
      | none =>
        simp only [hff] at hlook
        simp only [hlook] at h
        obtain ⟨skip, hsk, hrest⟩ := bind_ok _ _ _ h
        obtain ⟨wv, p, m, e1, hskl, hpay, hwn⟩ := skip_pay _ _ _ _ hsk
        subst e1 hskl
        rw [List.drop_left] at hrest
        simp only [List.length_append] at hL
        rw [← List.append_assoc] at hgo ⊢
        have hm := ih f1 (by omega) fs fl m lenB _ vs R hty hfl (by omega) hgo.of_append_right hrest
        exact fields_step ptag p m tagN wv htok hwn hpay hgo hm
      | some r =>
        obtain ⟨i, o, t⟩ := r
        simp only [hff] at hlook
        obtain ⟨htt, hot, hnum, _, _⟩ := find_ok (tagN / 8) fs 0 i o t hty'.1 hff
        have hflz : ({ fl with zigzag := fl.zigzag || o.zigzag } : Flags).zigzag = o.zigzag := by
          simp only [hfl, Bool.false_or]
        by_cases hsl : isSlice t = true
        · cases t <;> simp only [isSlice] at hsl <;> try (exact absurd hsl (by decide))
          rename_i e
          simp only [descr] at hlook
          simp only [hlook] at h
          split at h
          · simp at h
          · rename_i hwire
            have hwire' : tagN % 8 = (codecOf e).wire.num := by simpa [Codec.wire] using hwire
            obtain ⟨⟨data, pre⟩, hcv, h2⟩ := bind_ok _ _ _ h
            obtain ⟨⟨v, m'⟩, hdv, hrest⟩ := bind_ok _ _ _ h2
            obtain ⟨wv, p, m, e1, hwn, hcarved⟩ := carve_pay _ _ _ _ _ _ _ (by omega)
              (fun he => by rw [hwire', struct_wire e he]; rfl) hcv
            subst e1
            simp only [List.length_append] at hL
            obtain ⟨hm', _⟩ := slice_conv f1 (fun f' _ => conv_all f') e o wv p data pre (Vals.get vs i) v
              { fl with zigzag := fl.zigzag || false } m' o.number htt hot hcarved (by rw [hwn, hwire']) hdv
            have hcl := hcarved.len
            have hdrop : List.drop (pre + m') (p ++ m) = m := by rw [hm', hcl, List.drop_left]
            rw [hdrop] at hrest
            rw [← List.append_assoc] at hgo ⊢
            have hm := ih f1 (by omega) fs fl m lenB _ _ R hty hfl (by omega) hgo.of_append_right hrest
            exact fields_step ptag p m tagN wv htok hwn hcarved.pay hgo hm
        · have hns : isSlice t = false := by simpa using hsl
          rw [descr_notslice t o hns] at hlook
          simp only [hlook] at h
          split at h
          · simp at h
          · rename_i hwire
            have hwire' : tagN % 8 = (codecFor t o).wire.num := by simpa using hwire
            obtain ⟨⟨data, pre⟩, hcv, h2⟩ := bind_ok _ _ _ h
            obtain ⟨⟨v, m'⟩, hdv, hrest⟩ := bind_ok _ _ _ h2
            obtain ⟨wv, p, m, e1, hwn, hcarved⟩ := carve_pay _ _ _ _ _ _ _ (by omega)
              (fun he => by rw [hwire', emb_wire t o he]; rfl) hcv
            subst e1
            simp only [List.length_append] at hL
            obtain ⟨hm', _⟩ := field_conv f1 (fun f' _ => conv_all f') t o wv p data pre (Vals.get vs i) v
              { fl with zigzag := fl.zigzag || o.zigzag } m' htt hns hot hflz hcarved (by rw [hwn, hwire']) hdv
            have hcl := hcarved.len
            have hdrop : List.drop (pre + m') (p ++ m) = m := by rw [hm', hcl, List.drop_left]
            rw [hdrop] at hrest
            rw [← List.append_assoc] at hgo ⊢
            have hm := ih f1 (by omega) fs fl m lenB _ _ R hty hfl (by omega) hgo.of_append_right hrest
            exact fields_step ptag p m tagN wv htok hwn hcarved.pay hgo hm

theorem scan_all (f : Nat) : ScanOK f := by
  induction f using Nat.strongRecOn with
  | _ f ih => exact scan_step f ih

/-- the decoder without the nesting counter (`unmarshalU`) succeeds ⇒ Scan succeeds -/
theorem scan_of_unmarshalU (fs : Fields) (hty : tyOK (.struct fs) = true) (b : Bytes) (hb : GoLen b) (v : Val)
    (h : unmarshalU (.struct fs) b = .ok v) : (scanList b).2 = .ok () := by
  rw [scanList_eq_fields]
  unfold unmarshalU at h
  by_cases hbn : b = []
  · subst hbn; rw [fields_nil]
  · have hbe : b.isEmpty = false := by cases b <;> simp_all
    simp only [hbe, Bool.false_eq_true, if_false, codecOf, zeroOf] at h
    generalize 2 * b.length + 8 + Codec.height (Codec.struct (fieldsOf 1 fs)) = FUEL at h
    cases FUEL with
    | zero => simp [decodeU] at h
    | succ f =>
      rw [decode_struct_succ] at h
      cases hds : decodeStructU f (fieldsOf 1 fs) b b.length (zeroFields fs)
          { ({ toplevel := true } : Flags) with toplevel := false } 0 with
      | err e => simp [hds, Res.bind] at h
      | panic e => simp [hds, Res.bind] at h
      | ok R => exact scan_all f fs _ b b.length 0 (zeroFields fs) R hty rfl (by omega) hb hds

/-- **Unmarshal succeeds ⇒ Scan succeeds** (message types of the C12 universe). About the REAL decoder, with its
nesting counter: whenever it succeeds it agrees with the unlimited one (`unmarshal_eq_or_deep`), so no depth
hypothesis is needed. -/
theorem scan_of_unmarshal (fs : Fields) (hty : tyOK (.struct fs) = true) (b : Bytes) (hb : GoLen b) (v : Val)
    (h : unmarshal (.struct fs) b = .ok v) : (scanList b).2 = .ok () := by
  rcases Lemmas.ProtoDepth.unmarshal_eq_or_deep (.struct fs) b with he | he
  · rw [he] at h; exact scan_of_unmarshalU fs hty b hb v h
  · rw [he] at h; simp at h

/-! ## a concrete message type for the non-vacuity examples of Props/C07 -/

/-- `struct { A int32; B []string }` -/
def exFs : Fields := .cons "A" "" false (.int .i32) (.cons "B" "" false (.slice .str) .nil)

theorem exFs_ty : tyOK (.struct exFs) = true := by
  simp [tyOK, fieldsOK, exFs, tagAgree_empty, fieldNums, fieldOpt_empty, supportedKind, elemTy, isPtr, isSlice]

theorem exFs_codec : fieldsOf 1 exFs
    = .cons 1 false false false .int32 (.cons 2 false true false (.slice .string 2 .varlen false) .nil) := by
  have hm : (lookupProtobuf "").bind parseStructTag = none := modelTag_empty
  simp [exFs, codecOf, fieldsOf, hm, fieldCodecOf, isStructBase, embBase, baseTy, Codec.wire]

/-- outcome class of a result, for `decide`d examples (`Val` has no decidable equality) -/
def outcome {α : Type} : Res α → String
  | .ok _ => "ok"
  | .err e => "err:" ++ e
  | .panic e => "panic:" ++ e

/-- a message with an undeclared fixed32 field 3 at the end is accepted by `Unmarshal` -/
theorem exFs_accepts : outcome (unmarshal (.struct exFs) [0x08, 0x05, 0x12, 0x01, 0x41, 0x1d, 1, 2, 3, 4]) = "ok" := by
  simp only [unmarshal, codecOf, exFs_codec]; decide +kernel

/-- a fixed32 record for the varint field 1 is rejected by `Unmarshal` -/
theorem exFs_mismatch : outcome (unmarshal (.struct exFs) [0x0d, 1, 2, 3, 4]) = "err:wireType" := by
  simp only [unmarshal, codecOf, exFs_codec]; decide +kernel

end Enc.Lemmas.ProtoScan
