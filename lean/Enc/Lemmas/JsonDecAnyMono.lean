import Enc.Lemmas.JsonValid
/-!
# Nesting-budget monotonicity of the RFC 8259 reference recogniser

A larger nesting budget accepts everything a smaller one accepts, with the same remainder (`value`, `elements`,
`members` of `Enc.Spec.Json`, by simultaneous induction on the fuel).
-/
namespace Enc.Lemmas.JsonDecAnyMono
open Enc Enc.Spec.Json Enc.Lemmas.JsonGrammar

theorem mono_all (f : Nat) :
    (∀ d d' b r, d ≤ d' → value f d b = some r → value f d' b = some r) ∧
    (∀ d d' b first r, d ≤ d' → elements f d b first = some r → elements f d' b first = some r) ∧
    (∀ d d' b first r, d ≤ d' → members f d b first = some r → members f d' b first = some r) := by
  induction f with
  | zero => refine ⟨?_, ?_, ?_⟩ <;> intros <;> simp_all [value, elements, members]
  | succ f ih =>
    obtain ⟨ihv, ihe, ihm⟩ := ih
    refine ⟨?_, ?_, ?_⟩
    · intro d d' b r hd h
      cases b with
      | nil => rw [value_nil] at h; cases h
      | cons c t =>
        rw [value_succ_cons] at h ⊢
        split at h
        · rename_i hc
          split at h
          · cases h
          · rename_i h0
            have h0' : d ≠ 0 := by simpa using h0
            have e' : (d' == 0) = false := by simp; omega
            simp only [hc, e', if_true, Bool.false_eq_true, if_false]
            exact ihm (d - 1) (d' - 1) _ _ _ (by omega) h
        rename_i hc1
        split at h
        · rename_i hc
          split at h
          · cases h
          · rename_i h0
            have h0' : d ≠ 0 := by simpa using h0
            have e' : (d' == 0) = false := by simp; omega
            simp only [hc1, hc, e', if_true, Bool.false_eq_true, if_false]
            exact ihe (d - 1) (d' - 1) _ _ _ (by omega) h
        rename_i hc2
        simp only [hc1, hc2, Bool.false_eq_true, if_false]
        exact h
    · intro d d' b first r hd h
      cases b with
      | nil => rw [elements_nil] at h; cases h
      | cons c t =>
        rw [elements_succ_cons] at h ⊢
        split at h
        · rename_i hc; simp only [hc, if_true]; exact h
        · rename_i hc
          obtain ⟨b2, hb2, h⟩ := bind_some h
          split at h
          · cases h
          · rename_i hcl
            obtain ⟨r2, hv, h⟩ := bind_some h
            have hv' := ihv d d' b2 r2 hd hv
            have he' := ihe d d' (ws r2) false r hd h
            simp only [hc, Bool.false_eq_true, if_false, hb2, Option.bind_some, hcl, hv', he']
    · intro d d' b first r hd h
      cases b with
      | nil => rw [members_nil] at h; cases h
      | cons c t =>
        rw [members_succ_cons] at h ⊢
        split at h
        · rename_i hc; simp only [hc, if_true]; exact h
        · rename_i hc
          obtain ⟨b2, hb2, h⟩ := bind_some h
          obtain ⟨r2, hs, h⟩ := bind_some h
          obtain ⟨r3, hr3, h⟩ := colonThen_some h
          obtain ⟨r4, hv, h⟩ := bind_some h
          have hv' := ihv d d' (ws r3) r4 hd hv
          have hm' := ihm d d' (ws r4) false r hd h
          simp only [hc, Bool.false_eq_true, if_false, hb2, Option.bind_some, hs, hr3, colonThen, beq_self_eq_true, if_true, hv', hm']

theorem value_budget_mono {f d d' : Nat} {b r : Bytes} (hd : d ≤ d') (h : value f d b = some r) :
    value f d' b = some r := (mono_all f).1 d d' b r hd h

theorem elements_budget_mono {f d d' : Nat} {b r : Bytes} {first : Bool} (hd : d ≤ d')
    (h : elements f d b first = some r) : elements f d' b first = some r := (mono_all f).2.1 d d' b first r hd h

theorem members_budget_mono {f d d' : Nat} {b r : Bytes} {first : Bool} (hd : d ≤ d')
    (h : members f d b first = some r) : members f d' b first = some r := (mono_all f).2.2 d d' b first r hd h

/-- non-vacuity: `[[1]]` needs a budget of 2, and is then accepted by every larger budget -/
example : value 20 2 [0x5b, 0x5b, 0x31, 0x5d, 0x5d] = some [] := by decide
example : value 20 7 [0x5b, 0x5b, 0x31, 0x5d, 0x5d] = some [] := value_budget_mono (d := 2) (by omega) (by decide)
example : value 20 1 [0x5b, 0x5b, 0x31, 0x5d, 0x5d] = none := by decide

#print axioms mono_all
#print axioms value_budget_mono
#print axioms elements_budget_mono
#print axioms members_budget_mono

end Enc.Lemmas.JsonDecAnyMono
