import Enc.Lemmas.JsonRTString
import Enc.Lemmas.JsonEncInt
import Enc.Lemmas.JsonDecInt
import Enc.Lemmas.JsonBuf
import Enc.Spec.Json.Render
/-!
# Whole values (C14 / C05 / C17): the rendering of every value is valid JSON, and is its own token concatenation

* `Term`, `ValText` — a complete value text: followed by `,` `]` `}` or nothing, the grammar's `value` consumes exactly it
  (with fuel ≥ its length and nesting budget ≥ its depth) and the token specification yields tokens whose texts
  concatenate to it.
* scalars: `valText_lit`, `valText_int`, `valText_string`; containers: `valText_arr`, `valText_obj`.
* `render_valText` — mutual induction over the value universe `JV` of Model/Json/Buf.lean.
* main theorems: `valid_render`, `tokens_render`.
-/
namespace Enc.Lemmas.JsonRTValue
open Enc Enc.Model.Json Enc.Model.Json.Buf
open Enc.Spec.Json (ws isWs digit digit19 digits int frac exp number lit value elements members tokValue tokElems tokMembers
  STok scalar appendString intString decimal render renderElems renderFields joinWith)
open Enc.Lemmas.JsonGrammar (value_succ_cons elements_succ_cons members_succ_cons isClose colonThen)
open Enc.Lemmas.TokConcat (vals vals_nil vals_cons vals_append)
open Enc.Lemmas.JsonEncInt (dig decimal_eq_if decimal_lt10 decimal_ge10 decimal_head)
open Enc.Lemmas.JsonRTString (string_accepts appendString_eq)
open Enc.Lemmas.JsonDecString (Plain)

/-- what may follow a value inside a rendering: nothing, or one of `,` `]` `}` -/
def Term (rest : Bytes) : Prop := ∀ c t, rest = c :: t → c = 0x2c ∨ c = 0x5d ∨ c = 0x7d

theorem Term.nil : Term [] := by intro c t h; cases h
theorem Term.comma (t : Bytes) : Term (0x2c :: t) := by intro c t' h; cases h; exact Or.inl rfl
theorem Term.close_arr (t : Bytes) : Term (0x5d :: t) := by intro c t' h; cases h; exact Or.inr (Or.inl rfl)
theorem Term.close_obj (t : Bytes) : Term (0x7d :: t) := by intro c t' h; cases h; exact Or.inr (Or.inr rfl)

/-- a byte that can begin a value text: not white space and none of `]` `}` `,` -/
def startOK (c : UInt8) : Bool := !isWs c && c != 0x5d && c != 0x7d && c != 0x2c

def Head (x : Bytes) : Prop := ∃ c t, x = c :: t ∧ startOK c = true

theorem ws_of_not_ws (c : UInt8) (t : Bytes) (h : isWs c = false) : ws (c :: t) = c :: t := by
  simp only [ws, h, Bool.false_eq_true, if_false]

theorem Head.ws {x : Bytes} (h : Head x) (y : Bytes) : ws (x ++ y) = x ++ y := by
  obtain ⟨c, t, rfl, hc⟩ := h
  simp only [startOK, Bool.and_eq_true, Bool.not_eq_true'] at hc
  exact ws_of_not_ws c _ hc.1.1.1

theorem Head.not_close {x : Bytes} (h : Head x) (y : Bytes) : isClose (x ++ y) = false := by
  obtain ⟨c, t, rfl, hc⟩ := h
  simp only [startOK, Bool.and_eq_true, Bool.not_eq_true', bne_iff_ne, ne_eq] at hc
  simp only [List.cons_append, isClose, beq_eq_false_iff_ne, ne_eq]
  exact hc.1.1.2

/-- a complete value text of nesting depth at most `d` -/
structure ValText (d : Nat) (x : Bytes) : Prop where
  head : Head x
  value : ∀ f d' rest, x.length ≤ f → d ≤ d' → Term rest → Spec.Json.value f d' (x ++ rest) = some rest
  toks : ∀ f dep idx rest, x.length ≤ f → Term rest →
    ∃ ts, tokValue f dep idx (x ++ rest) = some (ts, rest) ∧ vals ts = x

theorem ValText.mono {d d' : Nat} {x : Bytes} (h : ValText d x) (hd : d ≤ d') : ValText d' x :=
  ⟨h.head, fun f d'' rest hf hd' ht => h.value f d'' rest hf (Nat.le_trans hd hd') ht, h.toks⟩

/-! ### scalars -/

/-- the scalar productions as `value` / `scalar` try them, after `{` and `[` -/
def chain (c : UInt8) (b : Bytes) : Option Bytes :=
  if c == 0x22 then Spec.Json.string b
  else if c == 0x6e then lit [0x6e, 0x75, 0x6c, 0x6c] b
  else if c == 0x74 then lit [0x74, 0x72, 0x75, 0x65] b
  else if c == 0x66 then lit [0x66, 0x61, 0x6c, 0x73, 0x65] b
  else number b

theorem take_prefix (x rest : Bytes) : (x ++ rest).take ((x ++ rest).length - rest.length) = x := by
  have : (x ++ rest).length - rest.length = x.length := by simp
  rw [this, List.take_left']; rfl

/-- a non-container text on which the scalar chain succeeds is a value text of depth 0 -/
theorem valText_scalar (c : UInt8) (t : Bytes) (h1 : c ≠ 0x7b) (h2 : c ≠ 0x5b) (hs : startOK c = true)
    (h : ∀ rest, Term rest → chain c (c :: t ++ rest) = some rest) : ValText 0 (c :: t) := by
  have h1' : (c == 0x7b) = false := by simpa using h1
  have h2' : (c == 0x5b) = false := by simpa using h2
  refine ⟨⟨c, t, rfl, hs⟩, ?_, ?_⟩
  · intro f d' rest hf _ ht
    obtain ⟨f', rfl⟩ : ∃ f', f = f' + 1 := ⟨f - 1, by simp at hf; omega⟩
    have := h rest ht
    rw [List.cons_append] at this ⊢
    rw [value_succ_cons]
    simp only [h1', h2', Bool.false_eq_true, if_false]
    exact this
  · intro f dep idx rest hf ht
    obtain ⟨f', rfl⟩ : ∃ f', f = f' + 1 := ⟨f - 1, by simp at hf; omega⟩
    have hc := h rest ht
    have htk := take_prefix (c :: t) rest
    rw [List.cons_append] at hc htk ⊢
    refine ⟨[{ delim := 0, value := c :: t, depth := dep, index := idx, isKey := false }], ?_, by simp⟩
    have hsc : scalar (c :: (t ++ rest)) = some (c :: t, rest) := by
      simp only [scalar]
      show (chain c (c :: (t ++ rest))).map _ = _
      rw [hc, Option.map_some, htk]
    rw [tokValue]
    simp only [h1', h2', Bool.false_eq_true, if_false, hsc, Option.map_some]

theorem lit_self (l rest : Bytes) : lit l (l ++ rest) = some rest := by
  simp [lit]

theorem valText_null : ValText 0 [0x6e, 0x75, 0x6c, 0x6c] :=
  valText_scalar 0x6e _ (by decide) (by decide) (by decide) (fun rest _ => lit_self [0x6e, 0x75, 0x6c, 0x6c] rest)
theorem valText_true : ValText 0 [0x74, 0x72, 0x75, 0x65] :=
  valText_scalar 0x74 _ (by decide) (by decide) (by decide) (fun rest _ => lit_self [0x74, 0x72, 0x75, 0x65] rest)
theorem valText_false : ValText 0 [0x66, 0x61, 0x6c, 0x73, 0x65] :=
  valText_scalar 0x66 _ (by decide) (by decide) (by decide) (fun rest _ => lit_self [0x66, 0x61, 0x6c, 0x73, 0x65] rest)

/-- every string literal the encoder writes -/
theorem valText_string (s : Bytes) (html : Bool) : ValText 0 (appendString s html) := by
  rw [appendString_eq]
  apply valText_scalar 0x22 _ (by decide) (by decide) (by decide)
  intro rest _
  have := string_accepts s html rest
  rw [appendString_eq] at this
  exact this

/-! ### integers -/

/-- what may follow a number without being absorbed into it -/
def NumEnd (rest : Bytes) : Prop := ∀ c t, rest = c :: t → digit c = false ∧ c ≠ 0x2e ∧ c ≠ 0x65 ∧ c ≠ 0x45

theorem Term.numEnd {rest : Bytes} (h : Term rest) : NumEnd rest := by
  intro c t e
  rcases h c t e with rfl | rfl | rfl <;> decide

theorem NumEnd.nil : NumEnd [] := by intro c t h; cases h

theorem dig_digit (d : Nat) (h : d < 10) : digit (dig d) = true := by
  have : d = 0 ∨ d = 1 ∨ d = 2 ∨ d = 3 ∨ d = 4 ∨ d = 5 ∨ d = 6 ∨ d = 7 ∨ d = 8 ∨ d = 9 := by omega
  rcases this with h | h | h | h | h | h | h | h | h | h <;> subst h <;> decide

theorem decimal_digits (n : Nat) : ∀ c ∈ decimal n, digit c = true := by
  induction n using Nat.strongRecOn with
  | _ n ih =>
    rw [decimal_eq_if]
    split
    · rename_i h; intro c hc; simp only [List.mem_singleton] at hc; subst hc; exact dig_digit n h
    · intro c hc
      rcases List.mem_append.mp hc with hc | hc
      · exact ih (n / 10) (by omega) c hc
      · simp only [List.mem_singleton] at hc; subst hc; exact dig_digit _ (Nat.mod_lt _ (by decide))

theorem digits_through (ds rest : Bytes) (hd : ∀ c ∈ ds, digit c = true) (hr : NumEnd rest) :
    digits (ds ++ rest) = rest := by
  induction ds with
  | nil =>
    cases rest with
    | nil => rfl
    | cons c t => simp only [List.nil_append, digits, (hr c t rfl).1, Bool.false_eq_true, if_false]
  | cons c ds ih =>
    simp only [List.cons_append, digits, hd c (by simp), if_true]
    exact ih (fun c hc => hd c (by simp [hc]))

theorem frac_exp_end (rest : Bytes) (hr : NumEnd rest) : (frac rest).bind exp = some rest := by
  cases rest with
  | nil => rfl
  | cons c t =>
    obtain ⟨_, h1, h2, h3⟩ := hr c t rfl
    rw [Enc.Lemmas.JsonNumber.frac_cons]
    have h1' : (c == 0x2e) = false := by simpa using h1
    have h2' : (c == 0x65) = false := by simpa using h2
    have h3' : (c == 0x45) = false := by simpa using h3
    simp only [h1', Bool.false_eq_true, if_false, Option.bind_some, exp, h2', h3', Bool.or_self]

theorem int_decimal (n : Nat) (rest : Bytes) (hr : NumEnd rest) : int (decimal n ++ rest) = some rest := by
  by_cases h0 : n = 0
  · subst h0
    have : decimal 0 = [0x30] := by rw [decimal_lt10 0 (by decide)]; rfl
    rw [this]; rfl
  · obtain ⟨d, r, hdr, hd⟩ := decimal_head n (by omega)
    have hall := decimal_digits n
    rw [hdr] at hall ⊢
    have hdig := hall d (by simp)
    have h19 : digit19 d = true := by
      rcases Enc.Lemmas.JsonDecInt.digit_zero_or_19 hdig with h | h
      · exact absurd h hd
      · exact h
    have hd' : (d == 0x30) = false := by simpa using hd
    simp only [List.cons_append, int, hd', Bool.false_eq_true, if_false, h19, if_true]
    rw [digits_through r rest (fun c hc => hall c (by simp [hc])) hr]

theorem decimal_head_digit (n : Nat) : ∃ d r, decimal n = d :: r ∧ digit d = true := by
  have hall := decimal_digits n
  cases h : decimal n with
  | nil =>
    rw [decimal_eq_if] at h
    split at h <;> simp at h
  | cons d r => rw [h] at hall; exact ⟨d, r, rfl, hall d (by simp)⟩

/-- the grammar reads a rendered integer as exactly one number -/
theorem number_intString (i : Int) (rest : Bytes) (hr : NumEnd rest) : number (intString i ++ rest) = some rest := by
  unfold intString
  split
  · rw [List.cons_append, Enc.Lemmas.JsonDecInt.number_neg, int_decimal _ rest hr, Option.bind_some, frac_exp_end rest hr]
  · obtain ⟨d, r, hdr, hdig⟩ := decimal_head_digit i.natAbs
    have hne : (decimal i.natAbs ++ rest).head? ≠ some 0x2d := by
      rw [hdr]; simp only [List.cons_append, List.head?_cons, ne_eq, Option.some.injEq]
      intro e; subst e; exact absurd hdig (by decide)
    rw [Enc.Lemmas.JsonDecInt.number_pos _ hne, int_decimal _ rest hr, Option.bind_some, frac_exp_end rest hr]

theorem digit_chain {c : UInt8} (h : digit c = true ∨ c = 0x2d) (b : Bytes) : chain c b = number b := by
  have : (c == 0x22) = false ∧ (c == 0x6e) = false ∧ (c == 0x74) = false ∧ (c == 0x66) = false := by
    rcases h with h | rfl
    · simp only [digit, Bool.and_eq_true, decide_eq_true_eq, UInt8.le_iff_toNat_le] at h
      have h1 : 48 ≤ c.toNat := by simpa using h.1
      have h2 : c.toNat ≤ 57 := by simpa using h.2
      refine ⟨?_, ?_, ?_, ?_⟩ <;> (rw [beq_eq_false_iff_ne]; intro e; subst e; revert h1 h2; decide)
    · decide
  simp only [chain, this, Bool.false_eq_true, if_false]

theorem digit_startOK {c : UInt8} (h : digit c = true ∨ c = 0x2d) :
    startOK c = true ∧ c ≠ 0x7b ∧ c ≠ 0x5b := by
  rcases h with h | rfl
  · simp only [digit, Bool.and_eq_true, decide_eq_true_eq, UInt8.le_iff_toNat_le] at h
    have h1 : 48 ≤ c.toNat := by simpa using h.1
    have h2 : c.toNat ≤ 57 := by simpa using h.2
    refine ⟨?_, ?_, ?_⟩
    · simp only [startOK, isWs, Bool.and_eq_true, Bool.not_eq_true', Bool.or_eq_false_iff, beq_eq_false_iff_ne, bne_iff_ne,
        ne_eq]
      refine ⟨⟨⟨⟨⟨⟨?_, ?_⟩, ?_⟩, ?_⟩, ?_⟩, ?_⟩, ?_⟩ <;> (intro e; subst e; revert h1 h2; decide)
    · intro e; subst e; revert h1 h2; decide
    · intro e; subst e; revert h1 h2; decide
  · decide

/-- every integer the encoder writes -/
theorem valText_int (i : Int) : ValText 0 (intString i) := by
  have hhead : ∃ c t, intString i = c :: t ∧ (digit c = true ∨ c = 0x2d) := by
    unfold intString
    split
    · exact ⟨_, _, rfl, Or.inr rfl⟩
    · obtain ⟨d, r, hdr, hdig⟩ := decimal_head_digit i.natAbs
      exact ⟨d, r, hdr, Or.inl hdig⟩
  obtain ⟨c, t, hct, hc⟩ := hhead
  obtain ⟨h1, h2, h3⟩ := digit_startOK hc
  rw [hct]
  apply valText_scalar c t h2 h3 h1
  intro rest ht
  rw [digit_chain hc, ← hct]
  exact number_intString i rest ht.numEnd

/-! ### base64 text -/

theorem b64Char_small : ∀ n, n < 64 → (b64Char n != 0x22 && b64Char n != 0x5c && decide (0x20 ≤ b64Char n)) = true := by
  decide +kernel

theorem b64Char_plain (n : Nat) : Plain (b64Char n) := by
  by_cases h : n < 64
  · have := b64Char_small n h
    simp only [Bool.and_eq_true, bne_iff_ne, ne_eq, decide_eq_true_eq] at this
    exact ⟨this.1.1, this.1.2, UInt8.not_lt.mpr this.2⟩
  · have e : b64Char n = 0x2f := by
      simp only [b64Char]
      rw [if_neg (by omega), if_neg (by omega), if_neg (by omega), if_neg (by omega)]
    rw [e]; exact ⟨by decide, by decide, by decide⟩

theorem b64_plain : ∀ (v : Bytes), ∀ c ∈ b64 v, Plain c
  | [] => by intro c hc; simp [b64] at hc
  | [a] => by
    intro c hc
    simp only [b64, List.mem_cons, List.not_mem_nil, or_false] at hc
    rcases hc with rfl | rfl | rfl | rfl
    · exact b64Char_plain _
    · exact b64Char_plain _
    · exact ⟨by decide, by decide, by decide⟩
    · exact ⟨by decide, by decide, by decide⟩
  | [a, b] => by
    intro c hc
    simp only [b64, List.mem_cons, List.not_mem_nil, or_false] at hc
    rcases hc with rfl | rfl | rfl | rfl
    · exact b64Char_plain _
    · exact b64Char_plain _
    · exact b64Char_plain _
    · exact ⟨by decide, by decide, by decide⟩
  | a :: b :: c' :: d :: rest => by
    intro c hc
    simp only [b64, List.mem_cons] at hc
    rcases hc with rfl | rfl | rfl | rfl | hc
    · exact b64Char_plain _
    · exact b64Char_plain _
    · exact b64Char_plain _
    · exact b64Char_plain _
    · exact b64_plain (d :: rest) c hc
  | [a, b, c'] => by
    intro c hc
    simp only [b64, List.mem_cons, List.not_mem_nil, or_false] at hc
    rcases hc with rfl | rfl | rfl | rfl
    · exact b64Char_plain _
    · exact b64Char_plain _
    · exact b64Char_plain _
    · exact b64Char_plain _

/-- a quoted text without quote, backslash or control byte (base64) is a string value -/
theorem valText_quoted (p : Bytes) (hp : ∀ c ∈ p, Plain c) : ValText 0 ([0x22] ++ p ++ [0x22]) := by
  apply valText_scalar 0x22 _ (by decide) (by decide) (by decide)
  intro rest _
  show Spec.Json.string (0x22 :: ((p ++ [0x22]) ++ rest)) = some rest
  rw [Enc.Lemmas.JsonString.string_cons]
  simp only [beq_self_eq_true, if_true, List.append_assoc]
  rw [Enc.Lemmas.JsonRTString.chars_plains p _ hp]
  simp only [List.cons_append, List.nil_append]
  rw [Enc.Lemmas.JsonString.chars_cons]; rfl

/-! ### arrays -/

/-- what follows the first element of an array: `(, x)* ]` -/
def elemsTail : List Bytes → Bytes
  | [] => [0x5d]
  | x :: xs => 0x2c :: (x ++ elemsTail xs)

theorem join_elems (x : Bytes) (xs : List Bytes) : joinWith 0x2c (x :: xs) ++ [0x5d] = x ++ elemsTail xs := by
  induction xs generalizing x with
  | nil => rfl
  | cons y ys ih =>
    show x ++ [0x2c] ++ joinWith 0x2c (y :: ys) ++ [0x5d] = x ++ (0x2c :: (y ++ elemsTail ys))
    rw [List.append_assoc, List.append_assoc, ih y]; rfl

theorem elemsTail_term (xs : List Bytes) (rest : Bytes) : Term (elemsTail xs ++ rest) := by
  cases xs with
  | nil => exact Term.close_arr _
  | cons x xs => exact Term.comma _

theorem elemsTail_ws (xs : List Bytes) (rest : Bytes) : ws (elemsTail xs ++ rest) = elemsTail xs ++ rest := by
  cases xs <;> rfl

theorem elements_tail (D : Nat) (xs : List Bytes) (hx : ∀ x ∈ xs, ValText D x) :
    ∀ f d' rest, (elemsTail xs).length ≤ f → D ≤ d' → elements f d' (elemsTail xs ++ rest) false = some rest := by
  induction xs with
  | nil =>
    intro f d' rest hf _
    obtain ⟨f', rfl⟩ : ∃ f', f = f' + 1 := ⟨f - 1, by simp [elemsTail] at hf; omega⟩
    show elements (f' + 1) d' (0x5d :: rest) false = some rest
    rw [elements_succ_cons]; rfl
  | cons x xs ih =>
    intro f d' rest hf hd
    have hv := hx x (by simp)
    simp only [elemsTail, List.length_cons, List.length_append] at hf
    obtain ⟨f', rfl⟩ : ∃ f', f = f' + 1 := ⟨f - 1, by omega⟩
    show elements (f' + 1) d' (0x2c :: (x ++ elemsTail xs ++ rest)) false = some rest
    rw [elements_succ_cons]
    have h1 : ((0x2c : UInt8) == 0x5d) = false := by decide
    simp only [h1, Bool.false_eq_true, if_false, beq_self_eq_true, if_true, Option.bind_some, List.append_assoc]
    rw [hv.head.ws, hv.head.not_close]
    simp only [Bool.false_eq_true, if_false]
    rw [hv.value f' d' _ (by omega) hd (elemsTail_term xs rest), Option.bind_some, elemsTail_ws]
    exact ih (fun y hy => hx y (by simp [hy])) f' d' rest (by omega) hd

theorem tokElems_run (xs : List Bytes) : ∀ (D : Nat) (x : Bytes), ValText D x → (∀ y ∈ xs, ValText D y) →
    ∀ f dep i rest, (x ++ elemsTail xs).length ≤ f →
    ∃ ts, tokElems f dep i (x ++ elemsTail xs ++ rest) = some (ts, rest) ∧ vals ts ++ [0x5d] = x ++ elemsTail xs := by
  induction xs with
  | nil =>
    intro D x hv _ f dep i rest hf
    simp only [elemsTail, List.length_append, List.length_cons, List.length_nil] at hf
    obtain ⟨f', rfl⟩ : ∃ f', f = f' + 1 := ⟨f - 1, by omega⟩
    obtain ⟨c, t, rfl, hc⟩ := hv.head
    obtain ⟨ts, hts, hvals⟩ := hv.toks f' dep i (0x5d :: rest) (by simp at hf ⊢; omega) (Term.close_arr rest)
    refine ⟨ts, ?_, by rw [hvals]; rfl⟩
    have hc5 : (c == 0x5d) = false := by
      simp only [startOK, Bool.and_eq_true, bne_iff_ne, ne_eq] at hc
      simpa using hc.1.1.2
    show tokElems (f' + 1) dep i (c :: (t ++ [0x5d] ++ rest)) = _
    rw [tokElems]
    simp only [hc5, Bool.false_and, Bool.false_eq_true, if_false]
    have e : c :: (t ++ [0x5d] ++ rest) = c :: t ++ 0x5d :: rest := by simp
    rw [e, hts]
    rfl
  | cons y ys ih =>
    intro D x hv hys f dep i rest hf
    have hy := hys y (by simp)
    simp only [elemsTail, List.length_append, List.length_cons] at hf
    obtain ⟨f', rfl⟩ : ∃ f', f = f' + 1 := ⟨f - 1, by omega⟩
    obtain ⟨c, t, rfl, hc⟩ := hv.head
    obtain ⟨ts, hts, hvals⟩ := hv.toks f' dep i (0x2c :: (y ++ elemsTail ys ++ rest)) (by simp at hf ⊢; omega)
      (Term.comma _)
    obtain ⟨ts2, hts2, hvals2⟩ := ih D y hy (fun z hz => hys z (by simp [hz])) f' dep (i + 1) rest
      (by simp only [List.length_append]; omega)
    refine ⟨ts ++ [{ delim := 0x2c, value := [0x2c], depth := dep, index := i, isKey := false }] ++ ts2, ?_, ?_⟩
    · have hc5 : (c == 0x5d) = false := by
        simp only [startOK, Bool.and_eq_true, bne_iff_ne, ne_eq] at hc
        simpa using hc.1.1.2
      have e : c :: t ++ elemsTail (y :: ys) ++ rest = c :: (t ++ 0x2c :: (y ++ elemsTail ys ++ rest)) := by
        simp [elemsTail]
      rw [e, tokElems]
      simp only [hc5, Bool.false_and, Bool.false_eq_true, if_false]
      have e2 : c :: (t ++ 0x2c :: (y ++ elemsTail ys ++ rest)) = c :: t ++ 0x2c :: (y ++ elemsTail ys ++ rest) := rfl
      rw [e2, hts, Option.bind_some]
      simp only
      have hw : ws (0x2c :: (y ++ elemsTail ys ++ rest)) = 0x2c :: (y ++ elemsTail ys ++ rest) := rfl
      rw [hw]
      simp only
      have hw2 : ws (y ++ elemsTail ys ++ rest) = y ++ elemsTail ys ++ rest := by
        rw [List.append_assoc]; exact hy.head.ws _
      rw [hw2]
      obtain ⟨cy, ty, rfl, hcy⟩ := hy.head
      have hcy5 : cy ≠ 0x5d := by
        simp only [startOK, Bool.and_eq_true, bne_iff_ne, ne_eq] at hcy
        exact hcy.1.1.2
      split
      · rename_i heq; simp only [List.cons_append, List.cons.injEq] at heq; exact absurd heq.1 hcy5
      · rw [hts2]; rfl
    · simp only [vals_append, vals_cons, vals_nil, List.append_nil, List.append_assoc]
      rw [hvals2, hvals]; simp [elemsTail]

theorem elemsTail_pos (xs : List Bytes) : 1 ≤ (elemsTail xs).length := by
  cases xs <;> simp [elemsTail]

/-- an array of value texts is a value text one level deeper -/
theorem valText_arr (D : Nat) (xs : List Bytes) (hx : ∀ x ∈ xs, ValText D x) :
    ValText (D + 1) ([0x5b] ++ joinWith 0x2c xs ++ [0x5d]) := by
  have h7 : ((0x5b : UInt8) == 0x7b) = false := by decide
  cases xs with
  | nil =>
    refine ⟨⟨0x5b, [0x5d], rfl, by decide⟩, ?_, ?_⟩
    · intro f d' rest hf hd _
      obtain ⟨f', rfl⟩ : ∃ f', f = f' + 2 := ⟨f - 2, by simp [joinWith] at hf; omega⟩
      obtain ⟨d'', rfl⟩ : ∃ d'', d' = d'' + 1 := ⟨d' - 1, by omega⟩
      show Spec.Json.value (f' + 1 + 1) (d'' + 1) (0x5b :: 0x5d :: rest) = some rest
      rw [value_succ_cons]
      simp only [h7, Bool.false_eq_true, if_false, beq_self_eq_true, if_true, Nat.add_one_ne_zero, beq_iff_eq]
      show elements (f' + 1) d'' (0x5d :: rest) true = some rest
      rw [elements_succ_cons]; rfl
    · intro f dep idx rest hf _
      obtain ⟨f', rfl⟩ : ∃ f', f = f' + 2 := ⟨f - 2, by simp [joinWith] at hf; omega⟩
      refine ⟨[{ delim := 0x5b, value := [0x5b], depth := dep, index := idx, isKey := false },
               { delim := 0x5d, value := [0x5d], depth := dep, index := idx, isKey := false }], ?_, rfl⟩
      show tokValue (f' + 1 + 1) dep idx (0x5b :: 0x5d :: rest) = _
      rw [tokValue]
      simp only [beq_self_eq_true, if_true]
      have : ws (0x5d :: rest) = 0x5d :: rest := rfl
      rw [this, tokElems]
      simp
  | cons x xs =>
    have hv := hx x (by simp)
    have hxs : ∀ y ∈ xs, ValText D y := fun y hy => hx y (by simp [hy])
    have hform : [0x5b] ++ joinWith 0x2c (x :: xs) ++ [0x5d] = 0x5b :: (x ++ elemsTail xs) := by
      rw [List.append_assoc, join_elems]; rfl
    rw [hform]
    have htp := elemsTail_pos xs
    refine ⟨⟨0x5b, _, rfl, by decide⟩, ?_, ?_⟩
    · intro f d' rest hf hd _
      simp only [List.length_cons, List.length_append] at hf
      obtain ⟨f', rfl⟩ : ∃ f', f = f' + 2 := ⟨f - 2, by have := hv.head; obtain ⟨c, t, rfl, _⟩ := this; simp only [List.length_cons] at hf; omega⟩
      obtain ⟨d'', rfl⟩ : ∃ d'', d' = d'' + 1 := ⟨d' - 1, by omega⟩
      show Spec.Json.value (f' + 1 + 1) (d'' + 1) (0x5b :: (x ++ elemsTail xs ++ rest)) = some rest
      rw [value_succ_cons]
      simp only [h7, Bool.false_eq_true, if_false, beq_self_eq_true, if_true, Nat.add_one_ne_zero, beq_iff_eq,
        Nat.add_sub_cancel, List.append_assoc]
      rw [hv.head.ws]
      obtain ⟨c, t, rfl, hc⟩ := hv.head
      have hc5 : (c == 0x5d) = false := by
        simp only [startOK, Bool.and_eq_true, bne_iff_ne, ne_eq] at hc
        simpa using hc.1.1.2
      rw [List.cons_append, elements_succ_cons]
      simp only [hc5, Bool.false_eq_true, if_false, if_true, Option.bind_some]
      have hnc := hv.head.not_close (elemsTail xs ++ rest)
      rw [List.cons_append] at hnc
      rw [hnc]
      simp only [Bool.false_eq_true, if_false]
      have := hv.value f' d'' (elemsTail xs ++ rest) (by simp only [List.length_cons] at hf ⊢; omega) (by omega)
        (elemsTail_term xs rest)
      rw [List.cons_append] at this
      rw [this, Option.bind_some, elemsTail_ws]
      exact elements_tail D xs hxs f' d'' rest (by simp only [List.length_cons] at hf; omega) (by omega)
    · intro f dep idx rest hf _
      simp only [List.length_cons] at hf
      obtain ⟨f', rfl⟩ : ∃ f', f = f' + 1 := ⟨f - 1, by omega⟩
      obtain ⟨ts, hts, hvals⟩ := tokElems_run xs D x hv hxs f' (dep + 1) 0 rest (by omega)
      refine ⟨{ delim := 0x5b, value := [0x5b], depth := dep, index := idx, isKey := false } :: ts ++
               [{ delim := 0x5d, value := [0x5d], depth := dep, index := idx, isKey := false }], ?_, ?_⟩
      · show tokValue (f' + 1) dep idx (0x5b :: (x ++ elemsTail xs ++ rest)) = _
        rw [tokValue]
        simp only [beq_self_eq_true, if_true]
        have hw : ws (x ++ elemsTail xs ++ rest) = x ++ elemsTail xs ++ rest := by
          rw [List.append_assoc]; exact hv.head.ws _
        rw [hw, hts]; rfl
      · simp only [List.cons_append, vals_cons, vals_append, vals_nil, List.append_nil]
        rw [hvals]; rfl

/-! ### objects -/

/-- the text of a member name: a string literal -/
structure KeyText (k : Bytes) : Prop where
  head : ∃ t, k = 0x22 :: t
  str : ∀ rest, Spec.Json.string (k ++ rest) = some rest

theorem keyText_appendString (name : Bytes) (html : Bool) : KeyText (appendString name html) :=
  ⟨⟨_, appendString_eq name html⟩, string_accepts name html⟩

theorem KeyText.ws {k : Bytes} (h : KeyText k) (y : Bytes) : ws (k ++ y) = k ++ y := by
  obtain ⟨t, rfl⟩ := h.head; rfl

/-- what follows the first member of an object: `(, key : x)* }` -/
def memsTail : List (Bytes × Bytes) → Bytes
  | [] => [0x7d]
  | p :: ps => 0x2c :: (p.1 ++ 0x3a :: (p.2 ++ memsTail ps))

def memText (p : Bytes × Bytes) : Bytes := p.1 ++ [0x3a] ++ p.2

theorem join_mems (p : Bytes × Bytes) (ps : List (Bytes × Bytes)) :
    joinWith 0x2c ((p :: ps).map memText) ++ [0x7d] = p.1 ++ 0x3a :: (p.2 ++ memsTail ps) := by
  induction ps generalizing p with
  | nil => simp [joinWith, memText, memsTail]
  | cons q qs ih =>
    show memText p ++ [0x2c] ++ joinWith 0x2c ((q :: qs).map memText) ++ [0x7d] = _
    rw [List.append_assoc, List.append_assoc, ih q]; simp [memText, memsTail]

theorem memsTail_term (ps : List (Bytes × Bytes)) (rest : Bytes) : Term (memsTail ps ++ rest) := by
  cases ps with
  | nil => exact Term.close_obj _
  | cons x xs => exact Term.comma _

theorem memsTail_ws (ps : List (Bytes × Bytes)) (rest : Bytes) : ws (memsTail ps ++ rest) = memsTail ps ++ rest := by
  cases ps <;> rfl

theorem memsTail_pos (ps : List (Bytes × Bytes)) : 1 ≤ (memsTail ps).length := by
  cases ps <;> simp [memsTail]

theorem members_tail (D : Nat) (ps : List (Bytes × Bytes)) (hp : ∀ p ∈ ps, KeyText p.1 ∧ ValText D p.2) :
    ∀ f d' rest, (memsTail ps).length ≤ f → D ≤ d' → members f d' (memsTail ps ++ rest) false = some rest := by
  induction ps with
  | nil =>
    intro f d' rest hf _
    obtain ⟨f', rfl⟩ : ∃ f', f = f' + 1 := ⟨f - 1, by simp [memsTail] at hf; omega⟩
    show members (f' + 1) d' (0x7d :: rest) false = some rest
    rw [members_succ_cons]; rfl
  | cons p ps ih =>
    intro f d' rest hf hd
    obtain ⟨hk, hv⟩ := hp p (by simp)
    have htp := memsTail_pos ps
    simp only [memsTail, List.length_cons, List.length_append] at hf
    obtain ⟨f', rfl⟩ : ∃ f', f = f' + 1 := ⟨f - 1, by omega⟩
    show members (f' + 1) d' (0x2c :: (p.1 ++ 0x3a :: (p.2 ++ memsTail ps) ++ rest)) false = some rest
    rw [members_succ_cons]
    have h1 : ((0x2c : UInt8) == 0x7d) = false := by decide
    simp only [h1, Bool.false_eq_true, if_false, beq_self_eq_true, if_true, Option.bind_some, List.append_assoc,
      List.cons_append]
    rw [hk.ws, hk.str, Option.bind_some]
    have hw : ws (0x3a :: (p.2 ++ (memsTail ps ++ rest))) = 0x3a :: (p.2 ++ (memsTail ps ++ rest)) := rfl
    rw [hw]
    simp only [colonThen, beq_self_eq_true, if_true]
    rw [hv.head.ws, hv.value f' d' _ (by omega) hd (memsTail_term ps rest), Option.bind_some, memsTail_ws]
    exact ih (fun q hq => hp q (by simp [hq])) f' d' rest (by omega) hd

theorem tokMembers_run (ps : List (Bytes × Bytes)) : ∀ (D : Nat) (p : Bytes × Bytes), KeyText p.1 → ValText D p.2 →
    (∀ q ∈ ps, KeyText q.1 ∧ ValText D q.2) →
    ∀ f dep i rest, (p.1 ++ 0x3a :: (p.2 ++ memsTail ps)).length ≤ f →
    ∃ ts, tokMembers f dep i (p.1 ++ 0x3a :: (p.2 ++ memsTail ps) ++ rest) = some (ts, rest) ∧
      vals ts ++ [0x7d] = p.1 ++ 0x3a :: (p.2 ++ memsTail ps) := by
  induction ps with
  | nil =>
    intro D p hk hv _ f dep i rest hf
    simp only [memsTail, List.length_append, List.length_cons, List.length_nil] at hf
    obtain ⟨f', rfl⟩ : ∃ f', f = f' + 1 := ⟨f - 1, by omega⟩
    obtain ⟨t, hkt⟩ := hk.head
    obtain ⟨ts, hts, hvals⟩ := hv.toks f' dep i (0x7d :: rest) (by omega) (Term.close_obj rest)
    refine ⟨[{ delim := 0, value := p.1, depth := dep, index := i, isKey := true },
             { delim := 0x3a, value := [0x3a], depth := dep, index := i, isKey := false }] ++ ts, ?_, ?_⟩
    · have e : p.1 ++ 0x3a :: (p.2 ++ memsTail []) ++ rest = p.1 ++ (0x3a :: (p.2 ++ 0x7d :: rest)) := by
        simp [memsTail]
      rw [e]
      have hstr := hk.str (0x3a :: (p.2 ++ 0x7d :: rest))
      have htk := take_prefix p.1 (0x3a :: (p.2 ++ 0x7d :: rest))
      revert hstr htk
      rw [hkt]
      intro hstr htk
      rw [List.cons_append] at hstr htk ⊢
      rw [tokMembers]
      have h1 : ((0x22 : UInt8) == 0x7d) = false := by decide
      simp only [h1, Bool.false_and, Bool.false_eq_true, if_false, hstr, Option.bind_some, htk]
      have hw : ws (0x3a :: (p.2 ++ 0x7d :: rest)) = 0x3a :: (p.2 ++ 0x7d :: rest) := rfl
      rw [hw]
      simp only
      rw [hv.head.ws, hts, Option.bind_some]
      rfl
    · simp only [vals_append, vals_cons, vals_nil, List.append_nil, List.append_assoc]
      rw [hvals]; simp [memsTail]
  | cons q qs ih =>
    intro D p hk hv hqs f dep i rest hf
    obtain ⟨hkq, hvq⟩ := hqs q (by simp)
    have htp := memsTail_pos qs
    simp only [memsTail, List.length_append, List.length_cons] at hf
    obtain ⟨f', rfl⟩ : ∃ f', f = f' + 1 := ⟨f - 1, by omega⟩
    obtain ⟨t, hkt⟩ := hk.head
    obtain ⟨ts, hts, hvals⟩ := hv.toks f' dep i (0x2c :: (q.1 ++ 0x3a :: (q.2 ++ memsTail qs) ++ rest)) (by omega)
      (Term.comma _)
    obtain ⟨ts2, hts2, hvals2⟩ := ih D q hkq hvq (fun z hz => hqs z (by simp [hz])) f' dep (i + 1) rest
      (by simp only [List.length_append, List.length_cons]; omega)
    refine ⟨[{ delim := 0, value := p.1, depth := dep, index := i, isKey := true },
             { delim := 0x3a, value := [0x3a], depth := dep, index := i, isKey := false }] ++ ts ++
             [{ delim := 0x2c, value := [0x2c], depth := dep, index := i, isKey := false }] ++ ts2, ?_, ?_⟩
    · have e : p.1 ++ 0x3a :: (p.2 ++ memsTail (q :: qs)) ++ rest =
          p.1 ++ (0x3a :: (p.2 ++ 0x2c :: (q.1 ++ 0x3a :: (q.2 ++ memsTail qs) ++ rest))) := by
        simp [memsTail]
      rw [e]
      have hstr := hk.str (0x3a :: (p.2 ++ 0x2c :: (q.1 ++ 0x3a :: (q.2 ++ memsTail qs) ++ rest)))
      have htk := take_prefix p.1 (0x3a :: (p.2 ++ 0x2c :: (q.1 ++ 0x3a :: (q.2 ++ memsTail qs) ++ rest)))
      revert hstr htk
      rw [hkt]
      intro hstr htk
      rw [List.cons_append] at hstr htk ⊢
      rw [tokMembers]
      have h1 : ((0x22 : UInt8) == 0x7d) = false := by decide
      simp only [h1, Bool.false_and, Bool.false_eq_true, if_false, hstr, Option.bind_some, htk]
      have hw : ws (0x3a :: (p.2 ++ 0x2c :: (q.1 ++ 0x3a :: (q.2 ++ memsTail qs) ++ rest))) =
          0x3a :: (p.2 ++ 0x2c :: (q.1 ++ 0x3a :: (q.2 ++ memsTail qs) ++ rest)) := rfl
      rw [hw]
      simp only
      rw [hv.head.ws, hts, Option.bind_some]
      simp only
      have hw2 : ws (0x2c :: (q.1 ++ 0x3a :: (q.2 ++ memsTail qs) ++ rest)) =
          0x2c :: (q.1 ++ 0x3a :: (q.2 ++ memsTail qs) ++ rest) := rfl
      rw [hw2]
      simp only
      have hw3 : ws (q.1 ++ 0x3a :: (q.2 ++ memsTail qs) ++ rest) = q.1 ++ 0x3a :: (q.2 ++ memsTail qs) ++ rest := by
        rw [List.append_assoc]; exact hkq.ws _
      rw [hw3]
      obtain ⟨tq, hkqt⟩ := hkq.head
      split
      · rename_i heq
        rw [hkqt] at heq
        simp only [List.cons_append, List.cons.injEq] at heq
        exact absurd heq.1 (by decide)
      · rw [hts2]; rfl
    · simp only [vals_append, vals_cons, vals_nil, List.append_nil, List.append_assoc]
      rw [hvals2, hvals]; simp [memsTail]

/-- an object of members with value texts is a value text one level deeper -/
theorem valText_obj (D : Nat) (ps : List (Bytes × Bytes)) (hp : ∀ p ∈ ps, KeyText p.1 ∧ ValText D p.2) :
    ValText (D + 1) ([0x7b] ++ joinWith 0x2c (ps.map memText) ++ [0x7d]) := by
  have h5 : ((0x7b : UInt8) == 0x5b) = false := by decide
  cases ps with
  | nil =>
    refine ⟨⟨0x7b, [0x7d], rfl, by decide⟩, ?_, ?_⟩
    · intro f d' rest hf hd _
      obtain ⟨f', rfl⟩ : ∃ f', f = f' + 2 := ⟨f - 2, by simp [joinWith] at hf; omega⟩
      obtain ⟨d'', rfl⟩ : ∃ d'', d' = d'' + 1 := ⟨d' - 1, by omega⟩
      show Spec.Json.value (f' + 1 + 1) (d'' + 1) (0x7b :: 0x7d :: rest) = some rest
      rw [value_succ_cons]
      simp only [beq_self_eq_true, if_true, Nat.add_one_ne_zero, beq_iff_eq, if_false]
      show members (f' + 1) d'' (0x7d :: rest) true = some rest
      rw [members_succ_cons]; rfl
    · intro f dep idx rest hf _
      obtain ⟨f', rfl⟩ : ∃ f', f = f' + 2 := ⟨f - 2, by simp [joinWith] at hf; omega⟩
      refine ⟨[{ delim := 0x7b, value := [0x7b], depth := dep, index := idx, isKey := false },
               { delim := 0x7d, value := [0x7d], depth := dep, index := idx, isKey := false }], ?_, rfl⟩
      show tokValue (f' + 1 + 1) dep idx (0x7b :: 0x7d :: rest) = _
      rw [tokValue]
      simp only [h5, Bool.false_eq_true, if_false, beq_self_eq_true, if_true]
      have : ws (0x7d :: rest) = 0x7d :: rest := rfl
      rw [this, tokMembers]
      simp
  | cons p ps =>
    obtain ⟨hk, hv⟩ := hp p (by simp)
    have hps : ∀ q ∈ ps, KeyText q.1 ∧ ValText D q.2 := fun q hq => hp q (by simp [hq])
    have hform : [0x7b] ++ joinWith 0x2c ((p :: ps).map memText) ++ [0x7d] = 0x7b :: (p.1 ++ 0x3a :: (p.2 ++ memsTail ps)) := by
      rw [List.append_assoc, join_mems]; rfl
    rw [hform]
    have htp := memsTail_pos ps
    obtain ⟨tk, hkt⟩ := hk.head
    have hklen : 1 ≤ p.1.length := by rw [hkt]; simp
    refine ⟨⟨0x7b, _, rfl, by decide⟩, ?_, ?_⟩
    · intro f d' rest hf hd _
      simp only [List.length_cons, List.length_append] at hf
      obtain ⟨f', rfl⟩ : ∃ f', f = f' + 2 := ⟨f - 2, by omega⟩
      obtain ⟨d'', rfl⟩ : ∃ d'', d' = d'' + 1 := ⟨d' - 1, by omega⟩
      show Spec.Json.value (f' + 1 + 1) (d'' + 1) (0x7b :: (p.1 ++ 0x3a :: (p.2 ++ memsTail ps) ++ rest)) = some rest
      rw [value_succ_cons]
      simp only [beq_self_eq_true, if_true, Nat.add_one_ne_zero, beq_iff_eq, if_false, Nat.add_sub_cancel, List.append_assoc,
        List.cons_append]
      rw [hk.ws]
      have hstr := hk.str (0x3a :: (p.2 ++ (memsTail ps ++ rest)))
      revert hstr
      rw [hkt]
      intro hstr
      rw [List.cons_append] at hstr ⊢
      rw [members_succ_cons]
      have h1 : ((0x22 : UInt8) == 0x7d) = false := by decide
      simp only [h1, Bool.false_eq_true, if_false, if_true, Option.bind_some, hstr]
      have hw : ws (0x3a :: (p.2 ++ (memsTail ps ++ rest))) = 0x3a :: (p.2 ++ (memsTail ps ++ rest)) := rfl
      rw [hw]
      simp only [colonThen, beq_self_eq_true, if_true]
      rw [hv.head.ws, hv.value f' d'' _ (by omega) (by omega) (memsTail_term ps rest), Option.bind_some, memsTail_ws]
      exact members_tail D ps hps f' d'' rest (by omega) (by omega)
    · intro f dep idx rest hf _
      simp only [List.length_cons] at hf
      obtain ⟨f', rfl⟩ : ∃ f', f = f' + 1 := ⟨f - 1, by omega⟩
      obtain ⟨ts, hts, hvals⟩ := tokMembers_run ps D p hk hv hps f' (dep + 1) 0 rest (by omega)
      refine ⟨{ delim := 0x7b, value := [0x7b], depth := dep, index := idx, isKey := false } :: ts ++
               [{ delim := 0x7d, value := [0x7d], depth := dep, index := idx, isKey := false }], ?_, ?_⟩
      · show tokValue (f' + 1) dep idx (0x7b :: (p.1 ++ 0x3a :: (p.2 ++ memsTail ps) ++ rest)) = _
        rw [tokValue]
        simp only [h5, Bool.false_eq_true, if_false, beq_self_eq_true, if_true]
        have hw : ws (p.1 ++ 0x3a :: (p.2 ++ memsTail ps) ++ rest) = p.1 ++ 0x3a :: (p.2 ++ memsTail ps) ++ rest := by
          rw [List.append_assoc]; exact hk.ws _
        rw [hw, hts]; rfl
      · simp only [List.cons_append, vals_cons, vals_append, vals_nil, List.append_nil]
        rw [hvals]; rfl

/-! ### the value universe -/

mutual
theorem render_valText (html : Bool) (v : JV) (x : Bytes) (h : render html v = some x) : ValText v.depth x := by
  cases v with
  | null => simp only [render, Option.some.injEq] at h; subst h; exact valText_null
  | bool b =>
    cases b <;> simp only [render, Option.some.injEq] at h <;> subst h
    · exact valText_false
    · exact valText_true
  | int i => simp only [render, Option.some.injEq] at h; subst h; exact valText_int i
  | str s => simp only [render, Option.some.injEq] at h; subst h; exact valText_string s html
  | bytes ov =>
    cases ov with
    | none => simp only [render, Option.some.injEq] at h; subst h; exact valText_null
    | some b => simp only [render, Option.some.injEq] at h; subst h; exact valText_quoted _ (b64_plain b)
  | fail p => simp [render] at h
  | arr vs =>
    simp only [render] at h
    cases hx : renderElems html vs with
    | none => rw [hx] at h; simp at h
    | some xs =>
      rw [hx] at h; simp only [Option.map_some, Option.some.injEq] at h; subst h
      simp only [JV.depth]
      exact valText_arr _ xs (renderElems_valText html vs xs hx)
  | obj fs =>
    simp only [render] at h
    cases hx : renderFields html fs with
    | none => rw [hx] at h; simp at h
    | some ms =>
      rw [hx] at h; simp only [Option.map_some, Option.some.injEq] at h; subst h
      obtain ⟨ps, rfl, hps⟩ := renderFields_valText html fs ms hx
      simp only [JV.depth]
      exact valText_obj _ ps hps
theorem renderElems_valText (html : Bool) (vs : JVs) (xs : List Bytes) (h : renderElems html vs = some xs) :
    ∀ x ∈ xs, ValText vs.depth x := by
  cases vs with
  | nil => simp only [renderElems, Option.some.injEq] at h; subst h; intro x hx; cases hx
  | cons v rest =>
    simp only [renderElems] at h
    cases h1 : render html v with
    | none => rw [h1] at h; simp at h
    | some y =>
      cases h2 : renderElems html rest with
      | none => rw [h1, h2] at h; simp at h
      | some ys =>
        rw [h1, h2] at h; simp only [Option.some.injEq] at h; subst h
        intro x hx
        simp only [JVs.depth]
        rcases List.mem_cons.mp hx with rfl | hx
        · exact (render_valText html v x h1).mono (Nat.le_max_left _ _)
        · exact (renderElems_valText html rest ys h2 x hx).mono (Nat.le_max_right _ _)
theorem renderFields_valText (html : Bool) (fs : JFs) (ms : List Bytes) (h : renderFields html fs = some ms) :
    ∃ ps : List (Bytes × Bytes), ms = ps.map memText ∧ ∀ p ∈ ps, KeyText p.1 ∧ ValText fs.depth p.2 := by
  cases fs with
  | nil => simp only [renderFields, Option.some.injEq] at h; subst h; exact ⟨[], rfl, by intro p hp; cases hp⟩
  | cons name omitempty quoted rb v rest =>
    simp only [renderFields] at h
    simp only [JFs.depth]
    split at h
    · rename_i hskip
      rw [if_pos hskip]
      exact renderFields_valText html rest ms h
    · rename_i hskip
      rw [if_neg hskip]
      cases h1 : render html v with
      | none => rw [h1] at h; simp at h
      | some y =>
        cases h2 : renderFields html rest with
        | none => rw [h1, h2] at h; simp at h
        | some ys =>
          rw [h1, h2] at h; simp only [Option.some.injEq] at h; subst h
          obtain ⟨ps, rfl, hps⟩ := renderFields_valText html rest ys h2
          refine ⟨(appendString name html, if quoted then appendString y html else y) :: ps, ?_, ?_⟩
          · simp [memText]
          · intro p hp
            rcases List.mem_cons.mp hp with rfl | hp
            · refine ⟨keyText_appendString name html, ?_⟩
              cases quoted
              · simp only [Bool.false_eq_true, if_false]
                exact (render_valText html v y h1).mono (Nat.le_max_left _ _)
              · simp only [if_true]
                exact (valText_string y html).mono (Nat.zero_le _)
            · exact ⟨(hps p hp).1, (hps p hp).2.mono (Nat.le_max_right _ _)⟩
end

/-- **C (validator).** Whatever `render` (= `Append`, C15) produces for a value nested at most 10000 deep is valid JSON
for encoding/json's `Valid` … -/
theorem validStd_render (html : Bool) (v : JV) (x : Bytes) (h : render html v = some x) (hd : v.depth ≤ 10000) :
    Spec.Json.validStd x = true := by
  have hv := render_valText html v x h
  unfold Spec.Json.validStd
  have hw := hv.head.ws []
  rw [List.append_nil] at hw
  have := hv.value (3 * x.length + 8) 10000 [] (by omega) hd Term.nil
  rw [List.append_nil] at this
  rw [hw, this]; rfl

/-- … and for the validator model -/
theorem valid_render (html : Bool) (v : JV) (x : Bytes) (h : render html v = some x) (hd : v.depth ≤ 10000) :
    Model.Json.valid x = true := by
  rw [Enc.Lemmas.JsonValid.valid_eq_validStd]; exact validStd_render html v x h hd

/-- the RFC 8259 grammar with any nesting budget that covers the value's depth accepts the rendering, whatever the depth -/
theorem value_render (html : Bool) (v : JV) (x : Bytes) (h : render html v = some x) (f d : Nat) (rest : Bytes)
    (hf : x.length ≤ f) (hd : v.depth ≤ d) (hr : Term rest) : Spec.Json.value f d (x ++ rest) = some rest :=
  (render_valText html v x h).value f d rest hf hd hr

/-- **C (tokenizer specification).** The rendering is a valid document for the token specification and the token texts
concatenate to the rendering itself: the output is already compact -/
theorem tokensOf_render (html : Bool) (v : JV) (x : Bytes) (h : render html v = some x) :
    ∃ ts, Spec.Json.tokensOf x = some ts ∧ vals ts = x := by
  have hv := render_valText html v x h
  have hw := hv.head.ws []
  rw [List.append_nil] at hw
  obtain ⟨ts, hts, hvals⟩ := hv.toks (3 * x.length + 8) 0 0 [] (by omega) Term.nil
  rw [List.append_nil] at hts
  refine ⟨ts, ?_, hvals⟩
  unfold Spec.Json.tokensOf
  rw [hw, hts]; rfl

/-- **C (tokenizer model).** Iterating the tokenizer over a rendering ends without error and the token Values,
concatenated, are the rendering -/
theorem tokens_render (html : Bool) (v : JV) (x : Bytes) (h : render html v = some x) :
    (Token.tokens x).2 = false ∧ ((Token.tokens x).1.map (·.value)).flatten = x := by
  obtain ⟨ts, hts, hvals⟩ := tokensOf_render html v x h
  have h1 := Enc.Lemmas.TokSpec.tokens_spec x ts hts
  refine ⟨h1.1, ?_⟩
  have h2 := Enc.Lemmas.TokConcat.concat_values x ts hts
  have h3 := Enc.Lemmas.TokConcat.spec_concat_values x ts hts
  rw [h2, ← h3]; exact hvals

/-- the rendering is its own compaction (no insignificant white space) -/
theorem compact_render (html : Bool) (v : JV) (x : Bytes) (h : render html v = some x) :
    Enc.Lemmas.TokConcat.compact x = x := by
  obtain ⟨ts, hts, hvals⟩ := tokensOf_render html v x h
  rw [← Enc.Lemmas.TokConcat.spec_concat_values x ts hts]; exact hvals

#print axioms valid_render
#print axioms tokens_render


/-- the model of `Append(nil, v, flags)` (C15) returns valid JSON whenever it returns no error -/
theorem append_valid (grow : Nat → Nat → Nat) (html : Bool) (v : JV) (hv : v.Ranged) (hd : v.depth ≤ 10000)
    (he : (append grow html Slice.empty v).2 = false) :
    Model.Json.valid (append grow html Slice.empty v).1 = true := by
  have h := Enc.Lemmas.JsonBuf.append_eq_render grow html Slice.empty Enc.Lemmas.JsonBuf.empty_wf v hv
  cases hr : render html v with
  | none => rw [hr] at h; simp only at h; rw [h.1] at he; cases he
  | some x =>
    rw [hr] at h; simp only at h
    rw [h, Enc.Lemmas.JsonBuf.empty_data, List.nil_append]
    exact valid_render html v x hr hd

end Enc.Lemmas.JsonRTValue
