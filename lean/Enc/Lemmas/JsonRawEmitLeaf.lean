import Enc.Lemmas.JsonRawEmitEsc
import Enc.Lemmas.JsonDecAnyRtInt
import Enc.Lemmas.JsonDecAnyLoc
/-!
# RawMessage / MarshalJSON re-emission, part 3: scalar tokens

* `TPre b r` — `b = v ++ r` where `v` consists of token bytes (no white space, quote, `<>&`, E2): number literals and
  `null/true/false` are such prefixes; the scanner copies them and the escape map leaves them alone.
* `number_ext` — a number literal followed by anything that cannot continue a number parses to exactly that rest.
-/
namespace Enc.Lemmas.JsonRawEmitLeaf
open Enc Enc.Model.Json Enc.Model.Json.RawEmit Enc.Lemmas.JsonRawEmitLoop Enc.Lemmas.JsonRawEmitEsc
open Enc.Lemmas.TokConcat (Mode strip plain)
open Enc.Spec.Json (isWs ws digit digit19 digits digits1 int frac exp number lit hexdig)
open Enc.Lemmas.JsonGrammar (bind_some)
open Enc.Lemmas.JsonDecAnyRtInt (noNumCont)

/-- a byte of a number literal or of `null` / `true` / `false`: copied by the scanner outside strings, untouched by the
escape map -/
def tokB (c : UInt8) : Bool := plain c && clean c

theorem K_out_tok (e : Bool) (c : UInt8) (r : Bytes) (h : tokB c = true) : K e .out 0 (c :: r) = c :: K e .out 0 r := by
  simp only [tokB, plain, Bool.and_eq_true, Bool.not_eq_true', bne_iff_ne, ne_eq] at h
  have h2 : (c == 0x22) = false := by simpa using h.1.2
  simp only [K, h.1.1, h2, Bool.false_eq_true, if_false]

theorem K_out_ws (e : Bool) (b : Bytes) : K e .out 0 (ws b) = K e .out 0 b := by
  induction b with
  | nil => rfl
  | cons c r ih =>
    simp only [ws]
    split
    · rename_i h; rw [ih]; simp only [K, h, if_true]
    · rfl

def TPre (b rest : Bytes) : Prop := ∃ v, b = v ++ rest ∧ ∀ c ∈ v, tokB c = true

theorem TPre.refl (b : Bytes) : TPre b b := ⟨[], rfl, by simp⟩
theorem TPre.cons {c : UInt8} {r rest : Bytes} (hc : tokB c = true) (h : TPre r rest) : TPre (c :: r) rest := by
  obtain ⟨v, rfl, hv⟩ := h
  exact ⟨c :: v, rfl, by intro x hx; rcases List.mem_cons.mp hx with rfl | hx; exact hc; exact hv x hx⟩
theorem TPre.trans {a b c : Bytes} (h1 : TPre a b) (h2 : TPre b c) : TPre a c := by
  obtain ⟨v, rfl, hv⟩ := h1
  obtain ⟨w, rfl, hw⟩ := h2
  exact ⟨v ++ w, by simp, by intro x hx; rcases List.mem_append.mp hx with hx | hx; exact hv x hx; exact hw x hx⟩

theorem K_append_tok (e : Bool) (v rest : Bytes) (hv : ∀ c ∈ v, tokB c = true) :
    K e .out 0 (v ++ rest) = v ++ K e .out 0 rest := by
  induction v with
  | nil => rfl
  | cons c v ih =>
    rw [List.cons_append, K_out_tok e c _ (hv c (by simp)), ih (fun x hx => hv x (by simp [hx]))]; rfl

theorem EscOK.of_tok (v : Bytes) (hv : ∀ c ∈ v, tokB c = true) : EscOK v v :=
  EscOK.of_clean v (fun c hc => by have := hv c hc; simp only [tokB, Bool.and_eq_true] at this; exact this.2)

theorem digit_tok {c : UInt8} (h : digit c = true) : tokB c = true := by
  simp only [tokB, plain, clean, isHtml, isWs, Bool.and_eq_true, Bool.not_eq_true', Bool.or_eq_false_iff, beq_eq_false_iff_ne,
    ne_eq, bne_iff_ne]
  refine ⟨⟨⟨⟨⟨?_, ?_⟩, ?_⟩, ?_⟩, ?_⟩, ⟨⟨?_, ?_⟩, ?_⟩, ?_⟩ <;> (intro e; subst e; revert h; decide)

theorem digits_tpre (b : Bytes) : TPre b (digits b) := by
  induction b with
  | nil => exact TPre.refl _
  | cons c r ih =>
    simp only [digits]; split
    · rename_i h; exact TPre.cons (digit_tok h) ih
    · exact TPre.refl _

theorem digits1_tpre {b r : Bytes} (h : digits1 b = some r) : TPre b r := by
  cases b with
  | nil => cases h
  | cons c t =>
    simp only [digits1] at h
    split at h
    · rename_i hd; cases h; exact TPre.cons (digit_tok hd) (digits_tpre t)
    · cases h

theorem int_tpre {b r : Bytes} (h : int b = some r) : TPre b r := by
  cases b with
  | nil => cases h
  | cons c t =>
    simp only [int] at h
    split at h
    · rename_i hc; cases h
      have : c = 0x30 := by simpa using hc
      subst this; exact TPre.cons (by decide) (TPre.refl _)
    · split at h
      · rename_i hd; cases h
        have hd' : digit c = true := by
          simp only [Spec.Json.digit19, Bool.and_eq_true, decide_eq_true_eq] at hd
          simp only [digit, Bool.and_eq_true, decide_eq_true_eq]
          refine ⟨?_, hd.2⟩
          have := UInt8.le_iff_toNat_le.mp hd.1
          apply UInt8.le_iff_toNat_le.mpr
          simp at this ⊢; omega
        exact TPre.cons (digit_tok hd') (digits_tpre t)
      · cases h

theorem frac_tpre {b r : Bytes} (h : frac b = some r) : TPre b r := by
  cases b with
  | nil => cases h; exact TPre.refl _
  | cons c t =>
    rw [JsonNumber.frac_cons] at h
    split at h
    · rename_i hc
      have : c = 0x2e := by simpa using hc
      subst this; exact TPre.cons (by decide) (digits1_tpre h)
    · cases h; exact TPre.refl _

theorem exp_tpre {b r : Bytes} (h : exp b = some r) : TPre b r := by
  cases b with
  | nil => cases h; exact TPre.refl _
  | cons c t =>
    simp only [exp] at h
    split at h
    · rename_i hc
      have hcp : tokB c = true := by
        simp only [Bool.or_eq_true, beq_iff_eq] at hc
        rcases hc with rfl | rfl <;> decide
      cases t with
      | nil => cases h
      | cons s r2 =>
        simp only at h
        split at h
        · rename_i hs
          have hsp : tokB s = true := by
            simp only [Bool.or_eq_true, beq_iff_eq] at hs
            rcases hs with rfl | rfl <;> decide
          exact TPre.cons hcp (TPre.cons hsp (digits1_tpre h))
        · exact TPre.cons hcp (digits1_tpre h)
    · cases h; exact TPre.refl _

theorem number_tpre {b r : Bytes} (h : number b = some r) : TPre b r := by
  cases b with
  | nil => cases h
  | cons c t =>
    rw [JsonNumber.number_cons] at h
    have key : ∀ b0 : Bytes, ((int b0).bind fun r => (frac r).bind exp) = some r → TPre b0 r := by
      intro b0 h0
      obtain ⟨r1, hi, h0⟩ := bind_some h0
      obtain ⟨r2, hf, h0⟩ := bind_some h0
      exact (int_tpre hi).trans ((frac_tpre hf).trans (exp_tpre h0))
    split at h
    · rename_i hc
      have : c = 0x2d := by simpa using hc
      subst this; exact TPre.cons (by decide) (key t h)
    · exact key _ h

theorem lit_tpre {l b r : Bytes} (hl : ∀ c ∈ l, tokB c = true) (h : lit l b = some r) : TPre b r := by
  simp only [lit] at h
  split at h
  · cases h
    rename_i hp
    obtain ⟨t, rfl⟩ := List.isPrefixOf_iff_prefix.mp hp
    exact ⟨l, by simp, hl⟩
  · cases h

/-! ### a number literal in a new right context -/

theorem digits_ext (x t : Bytes) (ht : noNumCont t) : digits (x ++ t) = digits x ++ t := by
  induction x with
  | nil => exact JsonDecAnyRtInt.digits_noNumCont t ht
  | cons c x ih =>
    simp only [List.cons_append, digits]
    split
    · exact ih
    · rfl

theorem digits1_ext {x y : Bytes} (t : Bytes) (ht : noNumCont t) (h : digits1 x = some y) :
    digits1 (x ++ t) = some (y ++ t) := by
  cases x with
  | nil => cases h
  | cons c x =>
    simp only [digits1] at h
    simp only [List.cons_append, digits1]
    split at h
    · rename_i hd; cases h; simp only [hd, if_true, digits_ext x t ht]
    · cases h

theorem int_ext {x y : Bytes} (t : Bytes) (ht : noNumCont t) (h : int x = some y) : int (x ++ t) = some (y ++ t) := by
  cases x with
  | nil => cases h
  | cons c x =>
    simp only [int] at h
    simp only [List.cons_append, int]
    split at h
    · rename_i hc; cases h; simp only [hc, if_true]
    · rename_i hc
      split at h
      · rename_i hd; cases h; simp [hc, hd, digits_ext x t ht]
      · cases h

theorem frac_ext {x y : Bytes} (t : Bytes) (ht : noNumCont t) (h : frac x = some y) : frac (x ++ t) = some (y ++ t) := by
  cases x with
  | nil =>
    cases h
    cases t with
    | nil => rfl
    | cons c t =>
      rw [List.nil_append, JsonNumber.frac_cons]
      have : (c == 0x2e) = false := by simpa using ht.2.1
      simp only [this, Bool.false_eq_true, if_false]
  | cons c x =>
    rw [JsonNumber.frac_cons] at h
    rw [List.cons_append, JsonNumber.frac_cons]
    split at h
    · rename_i hc; simp only [hc, if_true]; exact digits1_ext t ht h
    · rename_i hc; cases h; simp only [hc, if_false]; rfl

theorem exp_ext {x y : Bytes} (t : Bytes) (ht : noNumCont t) (h : exp x = some y) : exp (x ++ t) = some (y ++ t) := by
  cases x with
  | nil =>
    cases h
    cases t with
    | nil => rfl
    | cons c t =>
      have h1 : (c == 0x65) = false := by simpa using ht.2.2.1
      have h2 : (c == 0x45) = false := by simpa using ht.2.2.2
      simp only [List.nil_append, exp, h1, h2, Bool.or_self, Bool.false_eq_true, if_false]
  | cons c x =>
    simp only [exp] at h
    simp only [List.cons_append, exp]
    split at h
    · rename_i hc
      simp only [hc, if_true]
      cases x with
      | nil => cases h
      | cons s r2 =>
        simp only at h
        simp only [List.cons_append]
        split at h
        · rename_i hs; simp only [hs, if_true]; exact digits1_ext t ht h
        · rename_i hs; simp only [hs, if_false]
          have := digits1_ext t ht h
          simpa using this
    · rename_i hc; cases h; simp only [hc, if_false]; rfl

theorem number_ext {x y : Bytes} (t : Bytes) (ht : noNumCont t) (h : number x = some y) :
    number (x ++ t) = some (y ++ t) := by
  cases x with
  | nil => cases h
  | cons c x =>
    rw [JsonNumber.number_cons] at h
    rw [List.cons_append, JsonNumber.number_cons]
    have key : ∀ b0 : Bytes, ((int b0).bind fun r => (frac r).bind exp) = some y →
        ((int (b0 ++ t)).bind fun r => (frac r).bind exp) = some (y ++ t) := by
      intro b0 h0
      obtain ⟨r1, hi, h0⟩ := bind_some h0
      obtain ⟨r2, hf, h0⟩ := bind_some h0
      rw [int_ext t ht hi]; simp only [Option.bind_some]
      rw [frac_ext t ht hf]; simp only [Option.bind_some]
      exact exp_ext t ht h0
    split at h
    · rename_i hc; simp only [hc, if_true]; exact key x h
    · rename_i hc; simp only [hc, if_false]; exact key (c :: x) h

end Enc.Lemmas.JsonRawEmitLeaf
