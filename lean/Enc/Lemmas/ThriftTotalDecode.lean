import Enc.Lemmas.ThriftTotalSkip
import Enc.Lemmas.ThriftDecode
/-!
C08, thrift: the decoder (`decode`, `decodeList`, `decodeSet`, `decodeMap`, `decodeStruct`) is a prefix reader, for EVERY
input (not only encoder output), every type, every fuel, strict or not, every current target value:

  * `pre_decode`        `Pre true PS (decode p strict d fuel ty · cur)`: the strict class for EVERY type and depth
                        (`"eof"` iff cut at 0, `"unexpectedEof"` otherwise)
  * `pre_decodeList/Set/Map`   uniform class `PU`
  * `pre_decodeStruct`  `PS` for the first field header (`num = 0`), `PU` afterwards
-/
namespace Enc.Lemmas.ThriftTotal
open Enc Enc.Model.Thrift Enc.Lemmas.ThriftPrim Enc.Lemmas.ThriftSkip

/-- a reader followed by a continuation that reads nothing and returns a constant (the non-strict "skip the value" branches) -/
theorem Pre.thenConst {α β} {ne : Bool} {P : Nat → String → Prop} {f : Bytes → R α} (hf : Pre ne P f) (w : β) :
    Pre ne P (fun b => (f b).bind fun x => (.ok (w, x.2) : R β)) :=
  Pre.bind_pure hf (g := fun x => .ok (w, x.2)) (fun _ => Pre.pure w)

theorem decodeStruct_succ (p : Proto) (strict : Bool) (d fuel : Nat) (descs : List FieldDesc) (b : Bytes) (vs : Vals)
    (last : Int) (num : Nat) (seen : List Int) :
    decodeStruct p strict d (fuel + 1) descs b vs last num seen =
      (wrapE (decide (0 < num)) (rField p b)).bind fun ((h, r) : FieldHdr × Bytes) =>
        if h.t == .stop then (if h.delta then .err "deltaStop" else .ok ((vs, seen), r))
        else
          match findById descs (wrap16 (if h.delta then h.id + last else h.id)) with
          | none =>
            (dontExpectEOF (if (h.t == .true_ || h.t == .bool) && p.coalesce then (.ok ((), r) : R Unit)
              else skip p d fuel h.t r)).bind fun ((_, r) : Unit × Bytes) =>
                decodeStruct p strict d fuel descs r vs (wrap16 (if h.delta then h.id + last else h.id)) (num + 1) seen
          | some fd =>
            if h.t != typeOf fd.ty && !(h.t == .true_ && typeOf fd.ty == .bool) then
              if strict then .err "typeMismatch"
              else
                (dontExpectEOF (if (h.t == .true_ || h.t == .bool) && p.coalesce then (.ok ((), r) : R Unit)
                  else skip p d fuel h.t r)).bind fun ((_, r) : Unit × Bytes) =>
                    decodeStruct p strict d fuel descs r vs (wrap16 (if h.delta then h.id + last else h.id)) (num + 1)
                      (wrap16 (if h.delta then h.id + last else h.id) :: seen)
            else if p.coalesce && (h.t == .true_ || h.t == .bool) then
              decodeStruct p strict d fuel descs r (Vals.set vs fd.pos (wrapPtr fd.ty (.bool (h.t == .true_))))
                (wrap16 (if h.delta then h.id + last else h.id)) (num + 1)
                (wrap16 (if h.delta then h.id + last else h.id) :: seen)
            else
              (dontExpectEOF
                (if fd.enum then
                  (match baseOf fd.ty with
                   | .int k => (rI32 p r).bind fun ((x, r) : Int × Bytes) =>
                      (.ok (wrapPtr fd.ty (.int (wrapTo k.bits x)), r) : R Val)
                   | _ => decode p strict d fuel fd.ty r (Vals.get vs fd.pos))
                else decode p strict d fuel fd.ty r (Vals.get vs fd.pos))).bind fun ((v, r) : Val × Bytes) =>
                  decodeStruct p strict d fuel descs r (Vals.set vs fd.pos v)
                    (wrap16 (if h.delta then h.id + last else h.id)) (num + 1)
                    (wrap16 (if h.delta then h.id + last else h.id) :: seen) := by
  rw [decodeStruct]
  cases hr : rField p b with
  | ok hr' => obtain ⟨h, r⟩ := hr'; simp only [wrapE_ok]; rfl
  | err e =>
    simp only [wrapE_err, Res.bind]; cases (decide (0 < num)) <;> simp [wrapE, dontExpectEOF_err] <;> split <;> rfl
  | panic e => simp only [wrapE_panic, Res.bind]

theorem decode_all (p : Proto) (strict : Bool) : ∀ fuel,
    (∀ d ty cur, Pre true PS (fun b => decode p strict d fuel ty b cur)) ∧
    (∀ d et n acc, Pre false PU (fun b => decodeList p strict d fuel et n b acc)) ∧
    (∀ d kt n acc, Pre false PU (fun b => decodeSet p strict d fuel kt n b acc)) ∧
    (∀ d kt vt n acc, Pre false PU (fun b => decodeMap p strict d fuel kt vt n b acc)) ∧
    (∀ d descs vs last num seen,
      Pre true (PStruct num) (fun b => decodeStruct p strict d fuel descs b vs last num seen)) := by
  intro fuel
  induction fuel with
  | zero =>
    refine ⟨fun d ty cur => ?_, fun d et n acc => ?_, fun d kt n acc => ?_, fun d kt vt n acc => ?_,
      fun d descs vs last num seen => ?_⟩
    · simp only [decode]; exact Pre.err _
    · simp only [decodeList]; exact Pre.err _
    · simp only [decodeSet]; exact Pre.err _
    · simp only [decodeMap]; exact Pre.err _
    · simp only [decodeStruct]; exact Pre.err _
  | succ fuel ih =>
    obtain ⟨ih1, ih2, ih3, ih4, ih5⟩ := ih
    have ih1W : ∀ d ty cur, Pre false PW (fun b => decode p strict d fuel ty b cur) :=
      fun d ty cur => (ih1 d ty cur).toPW.weaken
    have ih5U : ∀ d descs vs last num seen,
        Pre false PU (fun b => decodeStruct p strict d fuel descs b vs last (num + 1) seen) := by
      intro d descs vs last num seen
      have := ih5 d descs vs last (num + 1) seen
      rw [PStruct_succ] at this
      exact this.weaken
    refine ⟨fun d ty cur => ?_, fun d et n acc => ?_, fun d kt n acc => ?_, fun d kt vt n acc => ?_,
      fun d descs vs last num seen => ?_⟩
    · -- decode
      cases ty with
      | bool =>
        simp only [decode]; exact Pre.bind_post (pre_rBool p) (by pure_tac)
      | int k =>
        cases k <;> simp only [decode] <;>
          first
            | exact Pre.panic _
            | exact Pre.bind_post (pre_rI8 p) (by pure_tac)
            | exact Pre.bind_post (pre_rI16 p) (by pure_tac)
            | exact Pre.bind_post (pre_rI32 p) (by pure_tac)
            | exact Pre.bind_post (pre_rI64 p) (by pure_tac)
      | f32 | f64 =>
        simp only [decode]; exact Pre.bind_post (pre_rDouble p) (by pure_tac)
      | str | bytes =>
        simp only [decode]; exact Pre.bind_post (pre_rBytes p) (by pure_tac)
      | any => simp only [decode]; exact Pre.panic _
      | arr n t => simp only [decode]; exact Pre.panic _
      | slice et =>
        refine Pre.congr ?_ (fun b => decode_slice p strict d fuel et b cur)
        by_cases hu : isU8 et = true
        · simp only [hu, if_true]
          exact Pre.bind_post (pre_rBytes p) (by pure_tac)
        · simp only [hu, Bool.false_eq_true, if_false]
          refine Pre.bind_first (pre_rList p) (fun a => ?_) PS_pos
          dsimp +instances only
          apply Pre.ite
          · intro _
            apply Pre.ite
            · exact fun _ => Pre.err _
            · exact fun _ => (pre_skipN p (d + 1) fuel _ a.2).thenConst _
          · intro _
            apply Pre.ite
            · exact fun _ => Pre.err _
            · exact fun _ => ih2 (d + 1) et a.2 []
      | map kt vt =>
        simp only [decode]
        apply Pre.ite
        · intro _
          refine Pre.bind_first (pre_rList p) (fun a => ?_) PS_pos
          dsimp +instances only
          apply Pre.ite
          · exact fun _ => Pre.pure _
          · intro _
            apply Pre.ite
            · intro _
              apply Pre.ite
              · exact fun _ => Pre.err _
              · exact fun _ => (pre_skipN p (d + 1) fuel _ a.2).thenConst _
            · intro _
              apply Pre.ite
              · exact fun _ => Pre.err _
              · exact fun _ => ih3 (d + 1) kt a.2 .nil
        · intro _
          refine Pre.bind_first (pre_rMap p) (fun a => ?_) PS_pos
          dsimp +instances only
          apply Pre.ite
          · exact fun _ => Pre.pure _
          · intro _
            apply Pre.ite
            · intro _
              apply Pre.ite
              · exact fun _ => Pre.err _
              · exact fun _ => (pre_skipPairs p (d + 1) fuel _ _ a.2.2).thenConst _
            · intro _
              apply Pre.ite
              · intro _
                apply Pre.ite
                · exact fun _ => Pre.err _
                · exact fun _ => (pre_skipPairs p (d + 1) fuel _ _ a.2.2).thenConst _
              · intro _
                apply Pre.ite
                · exact fun _ => Pre.err _
                · exact fun _ => ih4 (d + 1) kt vt a.2.2 .nil
      | struct fs =>
        cases cur <;> simp only [decode] <;> refine Pre.ite (fun _ => Pre.err _) (fun _ => ?_) <;>
          (try exact Pre.err _)
        rename_i vs _
        have := ih5 (d + 1) (fieldDescs fs) vs 0 0 []
        have e : PStruct 0 = PS := by unfold PStruct; simp
        rw [e] at this
        exact Pre.bind_post this (by pure_tac)
      | ptr et =>
        cases cur <;> simp only [decode] <;> exact Pre.bind_post (ih1 d et _) (by pure_tac)
      | named nm t' =>
        simp only [decode]
        exact ih1 d t' cur
    · -- decodeList
      cases n with
      | zero => simp only [decodeList]; exact Pre.pure _
      | succ n =>
        simp only [decodeList]
        exact Pre.seqU (Pre.dontExpect (ih1W d et _)) (fun a => by dsimp +instances only; exact ih2 d et n _)
    · cases n with
      | zero => simp only [decodeSet]; exact Pre.pure _
      | succ n =>
        simp only [decodeSet]
        exact Pre.seqU (Pre.dontExpect (ih1W d kt _)) (fun a => by dsimp +instances only; exact ih3 d kt n _)
    · cases n with
      | zero => simp only [decodeMap]; exact Pre.pure _
      | succ n =>
        simp only [decodeMap]
        refine Pre.seqU (Pre.dontExpect (ih1W d kt _)) (fun k => ?_)
        dsimp +instances only
        exact Pre.seqU (Pre.dontExpect (ih1W d vt _)) (fun v => by dsimp +instances only; exact ih4 d kt vt n _)
    · -- decodeStruct
      refine Pre.congr ?_ (fun b => decodeStruct_succ p strict d fuel descs b vs last num seen)
      refine Pre.bind_first (pre_wrapE_rField p num) (fun h => ?_) (PStruct_pos num)
      dsimp +instances only
      apply Pre.ite
      · intro _
        apply Pre.ite
        · exact fun _ => Pre.err _
        · exact fun _ => Pre.pure _
      · intro _
        generalize findById descs (wrap16 (if h.delta = true then h.id + last else h.id)) = od
        cases od with
        | none =>
          dsimp +instances only
          refine Pre.seqU (ne := false) (Pre.dontExpect ?_) (fun _ => ih5U d _ _ _ _ _)
          apply Pre.ite
          · exact fun _ => Pre.pure _
          · exact fun _ => (pre_skip p d fuel h.t).toPW.weaken
        | some fd =>
          dsimp +instances only
          apply Pre.ite
          · intro _
            apply Pre.ite
            · exact fun _ => Pre.err _
            · intro _
              refine Pre.seqU (ne := false) (Pre.dontExpect ?_) (fun _ => ih5U d _ _ _ _ _)
              apply Pre.ite
              · exact fun _ => Pre.pure _
              · exact fun _ => (pre_skip p d fuel h.t).toPW.weaken
          · intro _
            apply Pre.ite
            · exact fun _ => ih5U d _ _ _ _ _
            · intro _
              refine Pre.seqU (ne := false) (Pre.dontExpect ?_)
                (fun _ => by dsimp +instances only; exact ih5U d _ _ _ _ _)
              apply Pre.ite
              · intro _
                generalize baseOf fd.ty = bt
                cases bt <;> dsimp +instances only <;>
                  first
                    | exact ih1W d _ _
                    | exact (Pre.bind_post (pre_rI32 p) (by pure_tac)).toPW.weaken
              · exact fun _ => ih1W d _ _

variable (p : Proto) (strict : Bool) (d fuel : Nat)

theorem pre_decode (ty : Ty) (cur : Val) : Pre true PS (fun b => decode p strict d fuel ty b cur) :=
  (decode_all p strict fuel).1 d ty cur
theorem pre_decodeList (et : Ty) (n : Nat) (acc : List Val) :
    Pre false PU (fun b => decodeList p strict d fuel et n b acc) :=
  (decode_all p strict fuel).2.1 d et n acc
theorem pre_decodeSet (kt : Ty) (n : Nat) (acc : Vals) :
    Pre false PU (fun b => decodeSet p strict d fuel kt n b acc) :=
  (decode_all p strict fuel).2.2.1 d kt n acc
theorem pre_decodeMap (kt vt : Ty) (n : Nat) (acc : Vals) :
    Pre false PU (fun b => decodeMap p strict d fuel kt vt n b acc) :=
  (decode_all p strict fuel).2.2.2.1 d kt vt n acc
theorem pre_decodeStruct (descs : List FieldDesc) (vs : Vals) (last : Int) (num : Nat) (seen : List Int) :
    Pre true (PStruct num) (fun b => decodeStruct p strict d fuel descs b vs last num seen) :=
  (decode_all p strict fuel).2.2.2.2 d descs vs last num seen

end Enc.Lemmas.ThriftTotal
