import Enc.Lemmas.ThriftRoundTripAux
/-!
# C04 — thrift: Unmarshal(Marshal(v)) through structs, sets and maps

Main results (binary strict, binary non-strict, compact; decoder strict or not):

  * `decode_norm`       `RTS ty v → d + nest ty ≤ maxDepth → |encode p ty v| + depth ty ≤ fuel →
                           decode p strict d fuel ty (encode p ty v ++ rest) (zeroOf ty) = ok (norm ty v, rest)`
  * `fields_steps`      the per-field statement (mutual with `decode_norm`), `d + nestFields fs ≤ maxDepth`
  * `unmarshal_marshal` `RTS ty v → nest ty ≤ maxDepth → unmarshal p strict ty (marshal p ty v) = ok (norm ty v)`
                        (in `ThriftRoundTrip`)

`d` is the decoder's nesting counter (`flags.depth()`): since the fix 9c8d6b4 the decoder rejects a list / set / map /
struct entered at depth ≥ maxDepth (= 10000, `Gen.c_thrift_maxDepth`), hence the hypothesis `d + nest ty ≤ maxDepth`
(`nest ty` = number of nested containers of the type).
-/
namespace Enc.Lemmas.ThriftRoundTrip
open Enc Enc.Model.Thrift Enc.Lemmas.ThriftPrim Enc.Lemmas.ThriftSkip

theorem decode_map (p : Proto) (strict : Bool) (d fuel : Nat) (kt vt : Ty) (b : Bytes) (cur : Val) :
    decode p strict d (fuel + 1) (.map kt vt) b cur =
      if isEmptyStruct vt then
        (rList p b).bind fun ((st, n), r) =>
          let st := if st == .true_ then TType.bool else st
          if n == 0 then .ok (.map .nil, r)
          else if typeOf kt != st then
            (if strict then .err "typeMismatch"
             else (skipN p (d + 1) fuel st n r).bind fun (_, r) => .ok (.map .nil, r))
          else if tooDeep d then .err "maxDepth"
          else decodeSet p strict (d + 1) fuel kt n r .nil
      else
        (rMap p b).bind fun ((k, v, n), r) =>
          let k := if k == .true_ then TType.bool else k
          let v := if v == .true_ then TType.bool else v
          if n == 0 then .ok (.map .nil, r)
          else if typeOf kt != k then
            (if strict then .err "typeMismatch"
             else (skipPairs p (d + 1) fuel k v n r).bind fun (_, r) => .ok (.map .nil, r))
          else if typeOf vt != v then
            (if strict then .err "typeMismatch"
             else (skipPairs p (d + 1) fuel k v n r).bind fun (_, r) => .ok (.map .nil, r))
          else if tooDeep d then .err "maxDepth"
          else decodeMap p strict (d + 1) fuel kt vt n r .nil := by
  simp only [decode]

theorem length_flatten_le {α} (l : List (List α)) (a : List α) (h : a ∈ l) : a.length ≤ l.flatten.length := by
  induction l with
  | nil => cases h
  | cons x l ih =>
    simp only [List.flatten_cons, List.length_append]
    rcases List.mem_cons.mp h with rfl | h
    · omega
    · have := ih h; omega

mutual
/-- **Round trip through the decoder** on the universe `RTS` (structs, sets, maps, lists, pointers, named types over the
scalar kinds), started on the zero value at any nesting depth `d` that leaves room for the containers of the type
(`d + nest ty ≤ maxDepth`; deeper types are rejected by the decoder): the result is the normal form `norm ty v`.
Fuel: output length + type depth. -/
theorem decode_norm (p : Proto) (strict : Bool) : (ty : Ty) → (v : Val) → RTS ty v = true →
    ∀ (d fuel : Nat) (rest : Bytes), d + nest ty ≤ Gen.c_thrift_maxDepth → (encode p ty v).length + depth ty ≤ fuel →
      decode p strict d fuel ty (encode p ty v ++ rest) (zeroOf ty) = .ok (norm ty v, rest)
  | .bool, v, h => by
    intro d fuel rest hd hf
    simp only [RTS] at h
    cases v <;> simp [boolOK] at h
    simp only [depth] at hf
    obtain ⟨f, rfl⟩ : ∃ f, fuel = f + 1 := ⟨fuel - 1, by omega⟩
    simp only [decode, encode, rBool_wBool, Res.bind, norm]
  | .int k, v, h => by
    intro d fuel rest hd hf
    simp only [RTS] at h
    cases v <;> simp only [intOK, Bool.false_eq_true] at h
    rename_i i
    simp only [depth] at hf
    obtain ⟨f, rfl⟩ : ∃ f, fuel = f + 1 := ⟨fuel - 1, by omega⟩
    obtain ⟨hs, h1, h2⟩ := inRange_signed k i h
    cases k <;> simp [IntKind.signed] at hs <;> simp only [IntKind.bits, Nat.reduceSub, Int.reducePow] at h1 h2 <;>
      simp only [decode, encode, norm]
    · rw [rI64_wI64 p i ⟨by omega, by omega⟩]; rfl
    · rw [rI8_wI8 p i ⟨by omega, by omega⟩]; rfl
    · rw [rI16_wI16 p i ⟨by omega, by omega⟩]; rfl
    · rw [rI32_wI32 p i ⟨by omega, by omega⟩]; rfl
    · rw [rI64_wI64 p i ⟨by omega, by omega⟩]; rfl
  | .f32, v, h | .f64, v, h => by
    intro d fuel rest hd hf
    simp only [RTS] at h
    cases v <;> simp [floatOK] at h
    simp only [depth] at hf
    obtain ⟨f, rfl⟩ : ∃ f, fuel = f + 1 := ⟨fuel - 1, by omega⟩
    simp only [decode, encode, rDouble_wDouble p _ h, Res.bind, norm]
  | .str, v, h => by
    intro d fuel rest hd hf
    simp only [RTS] at h
    cases v <;> simp [strOK] at h
    simp only [depth] at hf
    obtain ⟨f, rfl⟩ : ∃ f, fuel = f + 1 := ⟨fuel - 1, by omega⟩
    simp only [decode, encode, rBytes_wBytes p _ h, Res.bind, norm]
  | .bytes, v, h => by
    intro d fuel rest hd hf
    simp only [RTS] at h
    simp only [depth] at hf
    obtain ⟨f, rfl⟩ : ∃ f, fuel = f + 1 := ⟨fuel - 1, by omega⟩
    cases v <;> simp [bytesOK] at h
    · simp only [decode, encode, rBytes_wBytes p _ h, Res.bind, norm]
    · simp only [decode, encode, rBytes_wBytes p [] (by simp), Res.bind, norm]
  | .slice t, v, h => by
    intro d fuel rest hd hf
    rw [RTS_slice] at h
    rw [depth_slice] at hf
    rw [nest_slice] at hd
    obtain ⟨f, rfl⟩ : ∃ f, fuel = f + 1 := ⟨fuel - 1, by omega⟩
    rw [decode_slice, norm_slice]
    rw [encode_slice] at hf ⊢
    by_cases hu : isU8 t = true
    · simp only [hu, if_true] at h hf ⊢
      cases v <;> simp [bytesOK] at h
      · simp only [rBytes_wBytes p _ h, Res.bind]
      · simp only [rBytes_wBytes p [] (by simp), Res.bind]
    · simp only [hu, Bool.false_eq_true, if_false, Bool.and_eq_true] at h hf hd ⊢
      obtain ⟨hreal, h⟩ := h
      have hnt : (typeOf t == TType.true_) = false := by simpa using typeOf_ne_true t
      have htd : tooDeep d = false := tooDeep_false d (by omega)
      cases v <;> simp only [listOK, Bool.false_eq_true] at h
      · -- nil slice: written as an empty list, read back as an empty non-nil slice
        simp only at hf ⊢
        rw [rList_wList p _ _ hreal (by omega)]
        simp only [Res.bind, hnt, Bool.false_eq_true, if_false, bne_self_eq_false, htd]
        obtain ⟨g, rfl⟩ : ∃ g, f = g + 1 := ⟨f - 1, by omega⟩
        simp [decodeList, Vals.ofList]
      · rename_i vs
        simp only [Bool.and_eq_true, decide_eq_true_eq] at h hf ⊢
        obtain ⟨hlen, hall⟩ := h
        rw [List.append_assoc, rList_wList p _ _ hreal hlen]
        simp only [Res.bind, hnt, Bool.false_eq_true, if_false, bne_self_eq_false, htd]
        rw [length_toList vs]
        simp only [List.length_append] at hf
        rw [decodeList_norm p strict (d + 1) t (norm t) (depth t) vs.toList
          (fun a ha => encode_pos p t a (all_toList _ _ hall a ha))
          (fun a ha fuel rest hfa =>
            decode_norm p strict t a (all_toList _ _ hall a ha) (d + 1) fuel rest (by omega) hfa)
          f rest [] (by omega)]
        simp
  | .map k v, x, h => by
    intro d fuel rest hd hf
    rw [RTS_map] at h
    simp only [Bool.and_eq_true, decide_eq_true_eq] at h
    obtain ⟨⟨⟨⟨⟨hk, hv⟩, _⟩, hlen⟩, hall⟩, hnd⟩ := h
    have hall' := all_toList _ _ hall
    simp only [depth] at hf
    simp only [nest] at hd
    have htd : tooDeep d = false := tooDeep_false d (by omega)
    have hnk : d + 1 + nest k ≤ Gen.c_thrift_maxDepth := by split at hd <;> omega
    obtain ⟨f, rfl⟩ : ∃ f, fuel = f + 1 := ⟨fuel - 1, by omega⟩
    rw [decode_map, norm_map]
    rw [encode_map] at hf ⊢
    generalize pairsOfVal x = ps at *
    have hntk : (typeOf k == TType.true_) = false := by simpa using typeOf_ne_true k
    have hkpos : ∀ a ∈ ps, 1 ≤ (encode p k a.1).length := by
      intro a ha
      have := hall' a ha
      simp only [Bool.and_eq_true] at this
      exact encode_pos p k a.1 this.1
    have hkdec : ∀ a ∈ ps, ∀ fuel rest, (encode p k a.1).length + max (depth k) (depth v) ≤ fuel →
        decode p strict (d + 1) fuel k (encode p k a.1 ++ rest) (zeroOf k) = .ok (norm k a.1, rest) := by
      intro a ha fuel rest hfa
      have := hall' a ha
      simp only [Bool.and_eq_true] at this
      exact decode_norm p strict k a.1 this.1 (d + 1) fuel rest (by omega)
        (by have := Nat.le_max_left (depth k) (depth v); omega)
    by_cases he : isEmptyStruct v = true
    · simp only [he, if_true] at hf ⊢
      simp only [List.length_append] at hf
      rw [List.append_assoc, rList_wList p _ _ hk hlen]
      simp only [Res.bind, hntk, Bool.false_eq_true, if_false, bne_self_eq_false, htd]
      cases ps with
      | nil => simp [flat_nil]
      | cons a l =>
        have hn0 : ((a :: l).length == 0) = false := by simp
        simp only [hn0, Bool.false_eq_true, if_false]
        have := decodeSet_norm p strict (d + 1) k (norm k) (max (depth k) (depth v)) (a :: l) [] hkpos hkdec
          (by simpa using hnd) f rest (by omega)
        rw [flat_nil] at this
        rw [this]; simp
    · simp only [he, Bool.false_eq_true, if_false] at hf hd ⊢
      simp only [List.length_append] at hf
      rw [List.append_assoc, rMap_wMap p _ _ _ hk hv hlen]
      simp only [Res.bind]
      cases ps with
      | nil => by_cases hp : p = .compact <;> simp [hp, flat_nil]
      | cons a l =>
        have hne : ¬ (p = .compact ∧ (a :: l).length = 0) := by simp
        have hn0 : ((a :: l).length == 0) = false := by simp
        have hntv : (typeOf v == TType.true_) = false := by simpa using typeOf_ne_true v
        simp only [hne, if_false, hn0, Bool.false_eq_true, hntk, hntv, bne_self_eq_false, htd]
        have hvdec : ∀ b ∈ a :: l, ∀ fuel rest, (encode p v b.2).length + max (depth k) (depth v) ≤ fuel →
            decode p strict (d + 1) fuel v (encode p v b.2 ++ rest) (zeroOf v) = .ok (norm v b.2, rest) := by
          intro b hb fuel rest hfa
          have := hall' b hb
          simp only [Bool.and_eq_true, he, Bool.false_or] at this
          exact decode_norm p strict v b.2 this.2 (d + 1) fuel rest (by omega)
            (by have := Nat.le_max_right (depth k) (depth v); omega)
        have := decodeMap_norm p strict (d + 1) k v (norm k) (norm v) (max (depth k) (depth v)) (a :: l) [] hkpos hkdec hvdec
          (by simpa using hnd) f rest (by omega)
        rw [flat_nil] at this
        rw [this]; simp
  | .struct fs, v, h => by
    intro d fuel rest hd hf
    simp only [RTS, Bool.and_eq_true] at h
    obtain ⟨hids, h⟩ := h
    cases v <;> simp only [structOK, Bool.false_eq_true] at h
    rename_i vs
    rw [depth_struct] at hf
    rw [encode_struct] at hf ⊢
    simp only [List.length_append] at hf
    simp only [nest] at hd
    have htd : tooDeep d = false := tooDeep_false d (by omega)
    have hstop := wStopField_length_pos p
    obtain ⟨f, rfl⟩ : ∃ f, fuel = f + 1 := ⟨fuel - 1, by omega⟩
    obtain ⟨seen, hdec, hreq⟩ := decodeStruct_fields p strict (d + 1) fs vs hids h
      (fields_steps p strict fs vs h (d + 1) (by omega)) f rest (by omega)
    simp only [decode, htd, Bool.false_eq_true, if_false, zeroOf, List.append_assoc, hdec, Res.bind, hreq, norm]
  | .ptr t, v, h => by
    intro d fuel rest hd hf
    simp only [RTS] at h
    simp only [depth] at hf
    simp only [nest] at hd
    obtain ⟨f, rfl⟩ : ∃ f, fuel = f + 1 := ⟨fuel - 1, by omega⟩
    cases v <;> simp only [ptrOK, Bool.false_eq_true] at h <;> simp only [encode] at hf ⊢ <;>
      simp only [decode, zeroOf, norm]
    · rw [decode_norm p strict t _ h d f rest hd (by omega)]; rfl
    · rw [decode_norm p strict t _ h d f rest hd (by omega)]; rfl
  | .named _ t, v, h => by
    intro d fuel rest hd hf
    simp only [RTS] at h
    simp only [depth, encode] at hf
    simp only [nest] at hd
    obtain ⟨f, rfl⟩ : ∃ f, fuel = f + 1 := ⟨fuel - 1, by omega⟩
    simp only [decode, encode, zeroOf, norm]
    exact decode_norm p strict t v h d f rest hd (by omega)
  | .arr _ _, _, h | .any, _, h => by simp [RTS] at h
/-- every emitted field of a struct value of the universe round-trips as the struct decoder reads it, at any depth `d`
(of the fields) that leaves room for the containers of the field types -/
theorem fields_steps (p : Proto) (strict : Bool) : (fs : Fields) → (vs : Vals) → RTSFields fs vs = true →
    ∀ (d : Nat), d + nestFields fs ≤ Gen.c_thrift_maxDepth → AllSteps p strict d fs vs
  | .nil, _, _ => by simp [AllSteps]
  | .cons _ _ _ _ _, .nil, _ => by simp [AllSteps]
  | .cons n tag e t rest, .cons x vs, h => by
    intro d hd
    simp only [nestFields] at hd
    rw [RTSFields_cons] at h
    simp only [Bool.and_eq_true] at h
    obtain ⟨⟨hrest, _⟩, hfield⟩ := h
    refine ⟨?_, fields_steps p strict rest vs hrest d (by omega)⟩
    cases hem : emitted tag t x with
    | none => trivial
    | some y =>
      obtain ⟨id, en⟩ := y
      rw [hem] at hfield
      simp only [Bool.and_eq_true] at hfield
      obtain ⟨⟨_, hen⟩, hx⟩ := hfield
      simp only
      refine ⟨?_, ?_, fun ht => wrapPtr_bool t x ht hx⟩
      · intro k hek hbk
        subst hek
        have : baseOf t = .int .i32 := by
          simp only [enumTyOK, Bool.not_true, Bool.false_or] at hen
          split at hen
          · assumption
          · cases hen
        have hk : k = .i32 := by rw [this] at hbk; cases hbk; rfl
        subst hk
        exact enum_field p t x this hx
      · intro hne fuel rs hfu
        have hen' : en = false := by
          cases en with
          | false => rfl
          | true =>
            exfalso; apply hne
            refine ⟨rfl, ?_⟩
            simp only [enumTyOK, Bool.not_true, Bool.false_or] at hen
            split at hen
            · exact ⟨_, ‹_›⟩
            · cases hen
        subst hen'
        simp only [fieldBody, Bool.false_eq_true, if_false] at hfu ⊢
        exact decode_norm p strict t x hx d fuel rs (by omega) hfu
end

end Enc.Lemmas.ThriftRoundTrip
