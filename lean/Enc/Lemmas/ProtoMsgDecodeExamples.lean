import Enc.Lemmas.ProtoMsgDecodeLenient
import Enc.Lemmas.ProtoMsgDecodeSound
/-!
# Non-vacuity of D1 / D4 / D2: `rawOps`, and a user type whose `Unmarshal` is NOT the identity (`revOps`: the state is the
payload read backwards)
-/
namespace Enc.Lemmas.ProtoMsgDecode
open Enc Enc.Model.Proto

/-- a user type whose state is the reversed payload: `Marshal` writes the state backwards, `Unmarshal` reads it backwards -/
def revOps : UserOps where
  size := fun v => match v with | .str s => s.length | _ => 0
  marshal := fun v => match v with | .str s => .ok s.reverse | _ => .ok []
  unmarshal := fun _ b => .ok (.str b.reverse)

/-- RawMessage is lenient (`hres` by `rfl`, `htot` by `⟨_, rfl⟩`) -/
theorem rawOps_lenient : Lenient rawOps := ⟨fun _ _ => rfl, fun _ => ⟨_, rfl⟩⟩
theorem zooOps_lenient : Lenient zooOps := ⟨fun _ _ => rfl, fun _ => ⟨_, rfl⟩⟩
theorem revOps_lenient : Lenient revOps := ⟨fun _ _ => rfl, fun _ => ⟨_, rfl⟩⟩

theorem un_rawOps (q : Bytes) : un rawOps q = .str q := rfl
theorem un_revOps (q : Bytes) : un revOps q = .str q.reverse := rfl

/-! ## D4: the user contract holds for `revOps` on every state `.str s` -/
example (s : Bytes) (cur : Val) :
    revOps.marshal (.str s) = .ok s.reverse ∧ s.reverse.length = revOps.size (.str s)
      ∧ revOps.unmarshal cur s.reverse = .ok (.str s) := by
  refine ⟨rfl, by simp [revOps], ?_⟩
  simp [revOps]

/-- field position, both directions, for the state `.str [1,2,3]` (payload `03 02 01`, record body `03 03 02 01`) -/
example : encodeToUsr revOps .message (.str [1, 2, 3]) {} (sizeOfVarlen 3) = .ok (encodeVarint 3#64 ++ [3, 2, 1]) :=
  encodeToUsr_message_field revOps (.str [1, 2, 3]) [3, 2, 1] {} rfl rfl rfl
example : decodeUsr revOps 1 0 .message (encodeVarint 3#64 ++ [3, 2, 1]) .nil {} = .ok (.str [1, 2, 3], sizeOfVarlen 3) :=
  decodeUsr_message_field revOps (.str [1, 2, 3]) .nil [3, 2, 1] 0 0 {} rfl (by decide) rfl
/-- the error path: the failing implementer of the zoo (`ZFail{N: 2}`) -/
example : encodeToUsr zooOps .message (.int 2) {} 3 = .err "user" :=
  encodeToUsr_message_err zooOps (.int 2) "user" {} 3 rfl (by decide)

/-! ## D2 on a concrete message: `struct { A Z; M map[string]Z; P *Z; L []Z }` with `Z` a user type -/
private theorem split_empty' (sep : String) (h : (sep == "") = false) : "".splitOn sep = [""] := by
  unfold String.splitOn
  simp only [h]
  rw [String.splitOnAux]
  have h1 : String.Pos.Raw.atEnd "" 0 = true := by decide
  have h2 : String.Pos.Raw.extract "" 0 0 = "" := by decide
  simp [h1, h2]
private theorem tag_empty : (lookupProtobuf "").bind parseStructTag = none := by
  unfold lookupProtobuf
  rw [split_empty' _ (by decide)]; rfl

def exZ : Ty := .named "RawMessage" (.named "Z" .bytes)
def exFs : Fields :=
  .cons "A" "" false exZ (.cons "M" "" false (.map .str exZ) (.cons "P" "" false (.ptr exZ) (.cons "L" "" false (.slice exZ) .nil)))
def exEntry : Codec := .struct (.cons 1 false false false .string (.cons 2 false false false .message .nil))
def exC : Codec := .struct
  (.cons 1 false false false .message
  (.cons 2 true true false (.map 2 .string .message false false exEntry)
  (.cons 3 false false false (.ptr .message)
  (.cons 4 false true false (.slice .message 4 .varlen false) .nil))))

theorem ex_codec : codecOf (.struct exFs) = exC := by
  simp [exFs, exZ, exC, exEntry, fieldsOf, tag_empty, fieldCodecOf, codecOf, isStructBase, embBase, Codec.wire]

/-- the hypothesis of `unmarshalUsr_lenient` holds for the example type -/
theorem ex_keysPlain : keysPlain (codecOf (.struct exFs)) = true := by rw [ex_codec]; rfl

def exB : Bytes := [0x0a, 2, 1, 2,  0x12, 7, 0x0a, 1, 0x6b, 0x12, 2, 3, 4,  0x1a, 1, 5,  0x22, 2, 6, 7]

theorem ex_zero : zeroOf (.struct exFs) = .struct (.cons .nil (.cons .nil (.cons .nil (.cons .nil .nil)))) := by
  simp [exFs, exZ, zeroOf, zeroFields]

/-- the payload-level decoder: every leaf is the carved payload -/
theorem ex_unmarshal : unmarshal (.struct exFs) exB
    = .ok (.struct (.cons (.str [1, 2]) (.cons (.map (.cons (.str [0x6b]) (.cons (.str [3, 4]) .nil)))
        (.cons (.ptr (.str [5])) (.cons (.list (.cons (.str [6, 7]) .nil)) .nil))))) := by
  simp only [unmarshal, ex_codec, ex_zero]
  rfl

/-- the decoder with the user's methods, computed directly: every leaf is the user's state (payload reversed); the map KEY
is a plain string and stays -/
theorem ex_unmarshalUsr : unmarshalUsr revOps (.struct exFs) exB
    = .ok (.struct (.cons (.str [2, 1]) (.cons (.map (.cons (.str [0x6b]) (.cons (.str [4, 3]) .nil)))
        (.cons (.ptr (.str [5])) (.cons (.list (.cons (.str [7, 6]) .nil)) .nil))))) := by
  simp only [unmarshalUsr, ex_codec, ex_zero]
  rfl

/-- … and the same through the theorem -/
example : unmarshalUsr revOps (.struct exFs) exB
    = (unmarshal (.struct exFs) exB).bind fun w => .ok (concV revOps (codecOf (.struct exFs)) w) :=
  unmarshalUsr_lenient revOps_lenient _ _ ex_keysPlain

example : concV revOps exC (.struct (.cons (.str [1, 2]) (.cons (.map (.cons (.str [0x6b]) (.cons (.str [3, 4]) .nil)))
        (.cons (.ptr (.str [5])) (.cons (.list (.cons (.str [6, 7]) .nil)) .nil)))))
    = .struct (.cons (.str [2, 1]) (.cons (.map (.cons (.str [0x6b]) (.cons (.str [4, 3]) .nil)))
        (.cons (.ptr (.str [5])) (.cons (.list (.cons (.str [7, 6]) .nil)) .nil)))) := by
  simp [exC, exEntry, concV, concF, concL, concM, entryKey, entryVal, un_revOps]

/-- D1 on the example: with RawMessage the two decoders coincide -/
example : unmarshalUsr rawOps (.struct exFs) exB = unmarshal (.struct exFs) exB := unmarshalUsr_rawOps _ _

/-! ## D3 on a user type that is NOT lenient: `Unmarshal` rejects payloads of odd length and appends to its receiver -/
def strictOps : UserOps where
  size := fun v => match v with | .str s => s.length | _ => 0
  marshal := fun v => match v with | .str s => .ok s | _ => .ok []
  unmarshal := fun cur b =>
    if b.length % 2 = 1 then .err "odd" else .ok (.str ((match cur with | .str s => s | _ => []) ++ b))

theorem ex_mapsWF : mapsWF (codecOf (.struct exFs)) = true := by rw [ex_codec]; rfl

/-- field `A` twice: the second `Unmarshal` sees the state left by the first (`[1,2] ++ [8,9]`) -/
def exB2 : Bytes := [0x0a, 2, 1, 2,  0x0a, 2, 8, 9,  0x1a, 2, 5, 5]
theorem ex_strict : unmarshalUsr strictOps (.struct exFs) exB2
    = .ok (.struct (.cons (.str [1, 2, 8, 9]) (.cons .nil (.cons (.ptr (.str [5, 5])) (.cons .nil .nil))))) := by
  simp only [unmarshalUsr, ex_codec, ex_zero]
  rfl
/-- the hypotheses of `unmarshalUsr_sound` hold here: the payload-level decoder accepts `exB2` too -/
example : ∃ w, unmarshal (.struct exFs) exB2 = .ok w := by
  obtain ⟨w, hw, _⟩ := unmarshalUsr_sound strictOps _ _ _ ex_mapsWF ex_strict
  exact ⟨w, hw⟩
/-- the converse fails, as it must: the user rejects `exB` (the payload of `P` has odd length), the payload level accepts it -/
example : unmarshalUsr strictOps (.struct exFs) exB = .err "odd" := by
  simp only [unmarshalUsr, ex_codec, ex_zero]
  rfl

/-- `mapsWF` is needed: on an ill-formed map codec whose entry codec is a user leaf, a user state that looks like a decoded
`{Key, Elem}` pair is accepted by `decodeUsr` and refused at the payload level -/
def pairOps : UserOps where
  size := fun _ => 0
  marshal := fun _ => .ok []
  unmarshal := fun _ b => .ok (.struct (.cons (.str b) (.cons .nil .nil)))
example : decodeUsr pairOps 2 0 (.map 1 .string .message false false .message) [1, 7] .nil {}
    = .ok (.map (.cons (.str [7]) (.cons .nil .nil)), 2) := by rfl
example : decode 2 0 (.map 1 .string .message false false .message) [1, 7] .nil {} = .err "modelType" := by rfl

end Enc.Lemmas.ProtoMsgDecode

#print axioms Enc.Lemmas.ProtoMsgDecode.decodeUsr_sound
#print axioms Enc.Lemmas.ProtoMsgDecode.unmarshalUsr_sound
#print axioms Enc.Lemmas.ProtoMsgDecode.decodeUsr_rawOps
#print axioms Enc.Lemmas.ProtoMsgDecode.decodeStructUsr_rawOps
#print axioms Enc.Lemmas.ProtoMsgDecode.unmarshalUsr_rawOps
#print axioms Enc.Lemmas.ProtoMsgDecode.encodeToUsr_message_top
#print axioms Enc.Lemmas.ProtoMsgDecode.decodeUsr_message_top
#print axioms Enc.Lemmas.ProtoMsgDecode.encodeToUsr_message_field
#print axioms Enc.Lemmas.ProtoMsgDecode.decodeUsr_message_field
#print axioms Enc.Lemmas.ProtoMsgDecode.encodeToUsr_ptr_message_field
#print axioms Enc.Lemmas.ProtoMsgDecode.decodeUsr_ptr_message_field
#print axioms Enc.Lemmas.ProtoMsgDecode.encodeToUsr_message_err
#print axioms Enc.Lemmas.ProtoMsgDecode.decodeUsr_message_field_err
#print axioms Enc.Lemmas.ProtoMsgDecode.decodeUsr_lenient
#print axioms Enc.Lemmas.ProtoMsgDecode.decodeStructUsr_lenient
#print axioms Enc.Lemmas.ProtoMsgDecode.unmarshalUsr_lenient
#print axioms Enc.Lemmas.ProtoMsgDecode.ex_unmarshalUsr
