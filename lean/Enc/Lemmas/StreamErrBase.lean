import Enc.Lemmas.StreamFull
/-!
# JSON streaming (C11), readers that deliver data together with an error and readers that fail: the machinery

`Enc.Lemmas.StreamFull` treats clean scripts (no event carries an error, `final = eof`). Here the layers of that file are
redone for scripts in which an event may carry the reader's terminal condition (`io.EOF` or another error) together with
its bytes, and for `final = other`:

* `WF final r` — the `io.Reader` contract for a script: an event carrying an error carries the terminal condition `final`
  of the reader, and after it nothing more is delivered (only `(0, final)` results may follow: `Tail`).
* `readFull_spec` — `io.ReadFull` over such a script.
* `Inv`, `refill_eq`, `refillWith_spec` (`Refilled`), `readValue_spec` (`Step`), `decodeAllG_spec`.

The outcome: the decoder yields `finStream final n all`: the model parser iterated over the delivered bytes; with
`final = eof` this is `wholeStream` (`finStream_eof_eq`); with `final = other` the two "end of input" outcomes `eof` /
`unexpectedEof` become `readerErr` (`fin`), and a NUMBER that reaches the end of the delivered bytes is not yielded (it may
have been cut): `readerErr` instead (the decoder accepts such a number only when `dec.err == io.EOF`).
-/
namespace Enc.Lemmas.StreamErr
open Enc Enc.Model.Json Enc.Model.Json.Stream
open Enc.Spec.Json (ws value SOut specStream)
open Enc.Lemmas.StreamFull (pend pend_nil pend_cons read_nil read_cons_le read_cons_gt readFull_done readFull_succ
  tryParse errOut refill readValue_succ rest refillWith ws_ws_append erase parseWin skipSpaces_of_N tryParse_nil
  tryParse_ok_accept tryParse_ok_wait tryParse_err_false tryParse_err_true ws_fix_append wholeStream wholeStream_eof
  wholeStream_err wholeStream_val wholeStream_ws decodeAllG modelFuel pend_length decodeAll_eq)

/-- what follows the event that reported the terminal condition: `Read` results `(0, final)` only -/
def Tail (final : RErr) (r : Reader) : Prop := ∀ e ∈ r, e.data = [] ∧ e.err = some final

/-- **the `io.Reader` contract for a script**: an event that carries an error carries the terminal condition of the reader
(`final`, the answer of every `Read` once the script is over), and no byte is delivered after it -/
def WF (final : RErr) : Reader → Prop
  | [] => True
  | e :: tl => (e.err = none ∧ WF final tl) ∨ (e.err = some final ∧ Tail final tl)

theorem Tail.nil (final : RErr) : Tail final [] := fun _ h => by cases h

theorem Tail.wf {final : RErr} : ∀ {r : Reader}, Tail final r → WF final r
  | [], _ => trivial
  | e :: _, h => Or.inr ⟨(h e (List.mem_cons_self ..)).2, fun x hx => h x (List.mem_cons_of_mem _ hx)⟩

theorem Tail.pend {final : RErr} : ∀ {r : Reader}, Tail final r → pend r = []
  | [], _ => rfl
  | e :: tl, h => by
    have h1 := (h e (List.mem_cons_self ..)).1
    have h2 := Tail.pend (r := tl) (fun x hx => h x (List.mem_cons_of_mem _ hx))
    simp [h1, h2]

/-- clean scripts are well formed, whatever the terminal condition -/
theorem WF.of_clean (final : RErr) : ∀ {r : Reader}, (∀ e ∈ r, e.err = none) → WF final r
  | [], _ => trivial
  | e :: _, h => Or.inl ⟨h e (List.mem_cons_self ..), WF.of_clean final (fun x hx => h x (List.mem_cons_of_mem _ hx))⟩

/-- a clean script followed by one event that carries the terminal condition -/
theorem WF.append_last (final : RErr) (d : Bytes) : ∀ {r : Reader}, (∀ e ∈ r, e.err = none) →
    WF final (r ++ [⟨d, some final⟩])
  | [], _ => Or.inr ⟨rfl, Tail.nil _⟩
  | e :: _, h => Or.inl ⟨h e (List.mem_cons_self ..), WF.append_last final d (fun x hx => h x (List.mem_cons_of_mem _ hx))⟩

/-- the error `io.ReadFull` hands on for a reader condition met before any byte was read -/
def ferr : RErr → FErr
  | .eof => .eof
  | .other => .other

/-- what one `io.ReadFull` over a well-formed script does -/
structure RF (final : RErr) (r : Reader) (want : Nat) (acc : Bytes) (res : Bytes × Option FErr × Reader) : Prop where
  data : ∃ d, res.1 = acc ++ d ∧ d ++ pend res.2.2 = pend r
  wf : WF final res.2.2
  len : res.2.2.length ≤ r.length
  bound : res.1.length ≤ max want acc.length
  enone : res.2.1 = none → want ≤ res.1.length
  esome : res.2.1 ≠ none → Tail final res.2.2 ∧ res.1.length < want ∧
    (final = .eof ∧ (res.2.1 = some .eof ∧ res.1 = [] ∨ res.2.1 = some .unexpectedEof ∧ res.1 ≠ []) ∨
     final = .other ∧ res.2.1 = some .other)

theorem RF.stay (final : RErr) (r : Reader) (want : Nat) (acc : Bytes) (hc : WF final r) (hw : want ≤ acc.length) :
    RF final r want acc (acc, none, r) :=
  ⟨⟨[], by simp, by simp⟩, hc, Nat.le_refl _, by simp; omega, fun _ => hw, fun h => absurd rfl h⟩

/-- the result of `ReadFull` when the reader reports its terminal condition with `acc` (shorter than asked) read so far -/
theorem RF.stop (final : RErr) (r tl : Reader) (want : Nat) (acc0 d : Bytes) (fe : FErr) (hfe : fe = ferr final)
    (hd : d ++ pend tl = pend r)
    (ht : Tail final tl) (hl : tl.length ≤ r.length) (hlt : (acc0 ++ d).length < want) :
    RF final r want acc0
      (if (acc0 ++ d).length > 0 ∧ (final == .eof) = true then (acc0 ++ d, some .unexpectedEof, tl)
       else (acc0 ++ d, some fe, tl)) := by
  subst hfe
  by_cases ha : acc0 ++ d = []
  · have h0 : ¬ (acc0 ++ d).length > 0 := by rw [ha]; simp
    rw [if_neg (fun h => h0 h.1)]
    refine ⟨⟨d, rfl, hd⟩, ht.wf, hl, by simp at hlt ⊢; omega, fun h => (by cases h), fun _ => ⟨ht, hlt, ?_⟩⟩
    cases final
    · exact Or.inl ⟨rfl, Or.inl ⟨rfl, ha⟩⟩
    · exact Or.inr ⟨rfl, rfl⟩
  · have hpos : (acc0 ++ d).length > 0 := List.length_pos_iff.mpr ha
    cases final
    · rw [if_pos ⟨hpos, rfl⟩]
      exact ⟨⟨d, rfl, hd⟩, ht.wf, hl, by simp at hlt ⊢; omega, fun h => (by cases h),
        fun _ => ⟨ht, hlt, Or.inl ⟨rfl, Or.inr ⟨rfl, ha⟩⟩⟩⟩
    · rw [if_neg (fun h => by cases h.2)]
      exact ⟨⟨d, rfl, hd⟩, ht.wf, hl, by simp at hlt ⊢; omega, fun h => (by cases h),
        fun _ => ⟨ht, hlt, Or.inr ⟨rfl, rfl⟩⟩⟩

theorem readFull_spec (final : RErr) (want : Nat) : ∀ (fuel : Nat) (r : Reader) (acc : Bytes), WF final r →
    (acc.length < want → r.length + 1 ≤ fuel) → RF final r want acc (readFull final fuel r want acc) := by
  intro fuel
  induction fuel with
  | zero =>
    intro r acc hc hf
    have hw : want ≤ acc.length := by
      apply Nat.le_of_not_lt; intro h; have := hf h; omega
    rw [readFull_done _ _ _ _ _ hw]
    exact RF.stay final r want acc hc hw
  | succ f ih =>
    intro r acc hc hf
    by_cases hw : want ≤ acc.length
    · rw [readFull_done _ _ _ _ _ hw]
      exact RF.stay final r want acc hc hw
    · have hlt : acc.length < want := Nat.lt_of_not_le hw
      have hfuel := hf hlt
      rw [readFull_succ _ _ _ _ _ hlt]
      cases r with
      | nil =>
        rw [read_nil]
        simp only [ge_iff_le]
        have hlt' : (acc ++ ([] : Bytes)).length < want := by simpa using hlt
        rw [if_neg (Nat.not_le.mpr hlt')]
        exact RF.stop final [] [] want acc [] _ (by cases final <;> rfl) rfl (Tail.nil _) (Nat.le_refl _) hlt'
      | cons e tl =>
        by_cases hk : e.data.length ≤ want - acc.length
        · rw [read_cons_le _ _ _ _ hk]
          cases hx : e.err with
          | none =>
            have hctl : WF final tl := by
              rcases hc with ⟨_, h⟩ | ⟨h, _⟩
              · exact h
              · rw [hx] at h; cases h
            simp only
            have hfu : (acc ++ e.data).length < want → tl.length + 1 ≤ f := by
              intro _; simp at hfuel; omega
            have R := ih tl (acc ++ e.data) hctl hfu
            obtain ⟨d, hd1, hd2⟩ := R.data
            refine ⟨⟨e.data ++ d, by rw [hd1]; simp, by simp [hd2]⟩, R.wf, ?_, ?_, R.enone, R.esome⟩
            · have := R.len; simp; omega
            · have := R.bound; simp at this ⊢; omega
          | some x =>
            have hxt : x = final ∧ Tail final tl := by
              rcases hc with ⟨h, _⟩ | ⟨h, ht⟩
              · rw [hx] at h; cases h
              · rw [hx] at h; cases h; exact ⟨rfl, ht⟩
            obtain ⟨rfl, ht⟩ := hxt
            simp only [ge_iff_le]
            by_cases hfill : want ≤ (acc ++ e.data).length
            · rw [if_pos hfill]
              refine ⟨⟨e.data, rfl, by simp [ht.pend]⟩, ht.wf, by simp, ?_, fun _ => hfill, fun h => absurd rfl h⟩
              simp at hk ⊢; omega
            · rw [if_neg hfill]
              exact RF.stop x (e :: tl) tl want acc e.data _ (by cases x <;> rfl) (by simp) ht (by simp) (Nat.lt_of_not_le hfill)
        · rw [read_cons_gt _ _ _ _ hk]
          simp only
          have hw' : want ≤ (acc ++ List.take (want - acc.length) e.data).length := by
            simp [List.length_take]; omega
          rw [readFull_done _ _ _ _ _ hw']
          refine ⟨⟨_, rfl, by simp [← List.append_assoc]⟩, ?_, by simp, ?_, fun _ => hw', fun h => absurd rfl h⟩
          · rcases hc with ⟨h1, h2⟩ | ⟨h1, h2⟩
            · exact Or.inl ⟨h1, h2⟩
            · exact Or.inr ⟨h1, h2⟩
          · simp [List.length_take]; omega

/-! ### the decoder state -/

structure Inv (minBuf : Nat) (s : St) : Prop where
  wf : WF s.final s.reader
  nows : skipSpacesN s.remain = s.remain
  err : s.err = none ∨ (s.err = some (ferr s.final) ∧ Tail s.final s.reader)
  cap : s.remain.length ≤ s.cap
  notStarted : s.started = false → s.remain = []
  started : s.started = true → minBuf ≤ s.cap

theorem refill_eq {minBuf minRead : Nat} {s : St} (hI : Inv minBuf s) (h0 : 0 < minRead) (h1 : minRead ≤ minBuf) :
    ∃ cap1, minBuf ≤ cap1 ∧ s.remain.length + minRead ≤ cap1 ∧ refill minBuf minRead s = refillWith s cap1 := by
  cases hs : s.started with
  | false =>
    have hr := hI.notStarted hs
    refine ⟨if minBuf - 0 < minRead then 2 * minBuf else minBuf, ?_, ?_, ?_⟩
    · split <;> omega
    · rw [hr]; split <;> simp <;> omega
    · simp only [refill, refillWith, hs, hr, skipN]
      rfl
  | true =>
    have hm := hI.started hs
    have hc := hI.cap
    have ht : s.remain.take s.cap = s.remain := List.take_of_length_le hc
    refine ⟨if s.cap - s.remain.length < minRead then 2 * s.cap else s.cap, ?_, ?_, ?_⟩
    · split <;> omega
    · split <;> omega
    · simp only [refill, refillWith, hs, ht, skipN]
      rfl

/-- what one refill does to a state satisfying the invariant -/
structure Refilled (minBuf : Nat) (s s' : St) : Prop where
  inv : Inv minBuf s'
  final : s'.final = s.final
  rest : ws (rest s') = ws (rest s)
  len : s'.reader.length ≤ s.reader.length
  pendLe : (pend s'.reader).length ≤ (pend s.reader).length
  progress : s'.err = none → (pend s'.reader).length < (pend s.reader).length

theorem refillWith_spec {minBuf : Nat} {s : St} {cap1 : Nat} (hI : Inv minBuf s)
    (hcap : s.remain.length < cap1) (hmb : minBuf ≤ cap1) : Refilled minBuf s (refillWith s cap1) := by
  have R := readFull_spec s.final (cap1 - s.remain.length) (cap1 + 2 + s.reader.length) s.reader [] hI.wf
    (by intro _; omega)
  generalize hres : readFull s.final (cap1 + 2 + s.reader.length) s.reader (cap1 - s.remain.length) [] = res at R
  have hs' : refillWith s cap1 =
      { s with started := true, buffer := s.remain ++ res.1, cap := cap1, remain := skipSpacesN (s.remain ++ res.1),
               offset := s.offset + ((s.remain ++ res.1).length - (skipSpacesN (s.remain ++ res.1)).length),
               err := if res.1.length > 0 then none else (match res.2.1 with | some .unexpectedEof => some .eof | x => x),
               reader := res.2.2 } := by
    simp only [refillWith, hres]
    rfl
  obtain ⟨d, hd1, hd2⟩ := R.data
  simp only [List.nil_append] at hd1
  have hbound : res.1.length ≤ cap1 - s.remain.length := by
    have := R.bound; simp at this; exact this
  have hskip : (skipSpacesN (s.remain ++ res.1)).length ≤ (s.remain ++ res.1).length := by
    rw [JsonWs.skipSpacesN_eq_ws]; exact JsonGrammar.ws_length_le _
  -- nothing read: `ReadFull` reported the terminal condition
  have hzero : ¬ res.1.length > 0 → Tail s.final res.2.2 ∧
      (match res.2.1 with | some .unexpectedEof => some FErr.eof | x => x) = some (ferr s.final) := by
    intro hz
    have hne : res.2.1 ≠ none := by
      intro h; have := R.enone h; omega
    obtain ⟨h1, _, h3⟩ := R.esome hne
    refine ⟨h1, ?_⟩
    rcases h3 with ⟨hf, ⟨h3, _⟩ | ⟨_, h4⟩⟩ | ⟨hf, h3⟩
    · rw [h3, hf]; rfl
    · exfalso; apply hz; exact List.length_pos_iff.mpr h4
    · rw [h3, hf]; rfl
  rw [hs']
  refine ⟨⟨R.wf, ?_, ?_, ?_, fun h => by simp at h, fun _ => hmb⟩, rfl, ?_, R.len, ?_, ?_⟩
  · simp only [JsonWs.skipSpacesN_eq_ws, JsonGrammar.ws_ws]
  · show (if res.1.length > 0 then none else _) = none ∨ _
    by_cases hpos : res.1.length > 0
    · left; simp [hpos]
    · right
      obtain ⟨h1, h2⟩ := hzero hpos
      exact ⟨by rw [if_neg hpos]; exact h2, h1⟩
  · show (skipSpacesN (s.remain ++ res.1)).length ≤ cap1
    simp only [List.length_append] at hskip; omega
  · show ws (skipSpacesN (s.remain ++ res.1) ++ pend res.2.2) = ws (s.remain ++ pend s.reader)
    rw [JsonWs.skipSpacesN_eq_ws, ws_ws_append, ← hd2, hd1, List.append_assoc]
  · show (pend res.2.2).length ≤ _
    rw [← hd2]; simp
  · show (if res.1.length > 0 then none else _) = none → (pend res.2.2).length < _
    intro h
    have hpos : res.1.length > 0 := by
      apply Nat.lt_of_not_le; intro hle
      have hz : ¬ res.1.length > 0 := by omega
      obtain ⟨_, h2⟩ := hzero hz
      rw [if_neg hz, h2] at h; cases h
    have : (pend s.reader).length = d.length + (pend res.2.2).length := by rw [← hd2]; simp
    rw [hd1] at hpos; omega

/-! ### one `readValue` call -/

/-- how the reader's terminal condition shows in the final outcome: with `eof` as it is; with a failing reader both
"the input ended here" outcomes become the reader's error -/
def fin : RErr → Out → Out
  | .other, .eof => .readerErr
  | .other, .unexpectedEof => .readerErr
  | _, o => o

@[simp] theorem fin_eof (o : Out) : fin .eof o = o := by cases o <;> rfl
@[simp] theorem fin_value (f : RErr) (raw : Bytes) (k : Kind) : fin f (.value raw k) = .value raw k := by cases f <;> rfl
@[simp] theorem fin_syntax (f : RErr) : fin f .syntax = .syntax := by cases f <;> rfl
@[simp] theorem fin_other_eof : fin .other .eof = .readerErr := rfl
@[simp] theorem fin_other_ueof : fin .other .unexpectedEof = .readerErr := rfl

/-- what one `readValue` call must deliver when the part of the DELIVERED bytes not yet consumed, white space skipped, is
`b` and the reader's terminal condition is `f` -/
def Step (minBuf : Nat) (f : RErr) (b : Bytes) (o : Out) (s' : St) : Prop :=
  (b = [] ∧ o = fin f .eof) ∨
  (b ≠ [] ∧ parseWin b = .err false ∧ o = .syntax) ∨
  (b ≠ [] ∧ parseWin b = .err true ∧ o = fin f .unexpectedEof) ∨
  (∃ r k, b ≠ [] ∧ parseWin b = .ok k r ∧ (r ≠ [] ∨ f = .eof ∨ k.isNum = false) ∧
    o = .value (b.take (b.length - r.length)) k ∧ Inv minBuf s' ∧ s'.final = f ∧ ws (rest s') = ws r) ∨
  (∃ k, b ≠ [] ∧ parseWin b = .ok k [] ∧ k.isNum = true ∧ f = .other ∧ o = .readerErr)

/-- pending bytes + pending events + 1 while the terminal condition has not been seen -/
def M1 (s : St) : Nat := (pend s.reader).length + s.reader.length + (if s.err = none then 1 else 0)

theorem M1_refill {minBuf : Nat} {s s' : St} (he : s.err = none) (R : Refilled minBuf s s') : M1 s' < M1 s := by
  have h1 := R.len
  have h2 := R.pendLe
  by_cases h : s'.err = none
  · have h3 := R.progress h
    simp only [M1, h, he, if_true]; omega
  · simp only [M1, h, he, if_true, if_false]; omega

theorem errOut_ferr (s : St) (f : RErr) :
    errOut s (ferr f) = fin f (if !s.remain.isEmpty then Out.unexpectedEof else Out.eof) := by
  cases f
  · simp [errOut, ferr]
  · simp only [errOut, ferr]; split <;> rfl

/-- **One `readValue` call** on a state over a well-formed script, any terminal condition. -/
theorem readValue_spec {minBuf minRead : Nat} (h0 : 0 < minRead) (h1 : minRead ≤ minBuf) :
    ∀ (n : Nat) (s : St), Inv minBuf s → M1 s < n →
      Step minBuf s.final (ws (rest s)) (readValue minBuf minRead n s).1 (readValue minBuf minRead n s).2 := by
  intro n
  induction n with
  | zero => intro s _ h; omega
  | succ n ih =>
    intro s hI hM
    -- the refill branch
    have hrefill : tryParse s = none → s.err = none →
        Step minBuf s.final (ws (rest s)) (readValue minBuf minRead (n + 1) s).1 (readValue minBuf minRead (n + 1) s).2 := by
      intro htp he
      rw [readValue_succ, htp, he]
      simp only
      obtain ⟨cap1, hc1, hc2, heq⟩ := refill_eq hI h0 h1
      have hR := refillWith_spec (s := s) (cap1 := cap1) hI (by omega) hc1
      rw [← heq] at hR
      have hM' := M1_refill he hR
      have := ih _ hR.inv (by omega)
      rw [hR.rest, hR.final] at this
      exact this
    by_cases hw : s.remain = []
    · -- empty window
      have htp := tryParse_nil hw
      rcases hI.err with he | ⟨he, hr⟩
      · exact hrefill htp he
      · rw [readValue_succ, htp, he]
        simp only [errOut_ferr, hw, rest, hr.pend]
        left; exact ⟨rfl, rfl⟩
    · -- non-empty window `w`, followed in the stream by `P`
      have hsk : skipSpaces s.remain = s.remain := skipSpaces_of_N hI.nows
      have hb : ws (rest s) = s.remain ++ pend s.reader := ws_fix_append _ hI.nows hw
      have hbne : s.remain ++ pend s.reader ≠ [] := by simp [hw]
      cases hp : parseValue (internalParseFlags s.remain) 0 (fuelFor s.remain) s.remain with
      | ok k r =>
        by_cases hc : (!r.isEmpty || s.err == some .eof || !k.isNum) = true
        · -- the value is accepted
          have hcond : r ++ pend s.reader ≠ [] ∨ s.final = .eof ∨ k.isNum = false := by
            simp only [Bool.or_eq_true, Bool.not_eq_true', List.isEmpty_eq_false_iff, beq_iff_eq] at hc
            rcases hc with (h | h) | h
            · left; simp [h]
            · right; left
              rcases hI.err with he | ⟨he, _⟩
              · rw [he] at h; cases h
              · rw [he] at h
                cases hf : s.final with
                | eof => rfl
                | other => rw [hf] at h; cases h
            · right; right; exact h
          have hfull : parseValue (internalParseFlags (s.remain ++ pend s.reader)) 0 (fuelFor (s.remain ++ pend s.reader))
              (s.remain ++ pend s.reader) = .ok k (r ++ pend s.reader) := by
            rcases hI.err with he | ⟨he, hr⟩
            · apply StreamStable.window_ok_stable _ _ _ _ hsk hp
              have hne : (s.err == some FErr.eof) = false := by rw [he]; rfl
              simp only [hne, Bool.or_false, Bool.or_eq_true, Bool.not_eq_true', List.isEmpty_eq_false_iff] at hc
              exact hc
            · simp only [hr.pend, List.append_nil]; exact hp
          have hsuf : r <:+ s.remain := StreamStable.parseValue_suffix hp
          have hlen := hsuf.length_le
          rw [readValue_succ, tryParse_ok_accept hw hp hc, hb]
          simp only
          right; right; right; left
          refine ⟨r ++ pend s.reader, k, hbne, hfull, hcond, ?_, ?_, rfl, ?_⟩
          · congr 1
            have : (s.remain ++ pend s.reader).length - (r ++ pend s.reader).length = s.remain.length - r.length := by
              simp only [List.length_append]; omega
            rw [this, List.take_append_of_le_length (by omega)]
          · have hl2 : (skipSpacesN r).length ≤ r.length := by
              rw [JsonWs.skipSpacesN_eq_ws]; exact JsonGrammar.ws_length_le _
            refine ⟨hI.wf, ?_, hI.err, ?_, ?_, hI.started⟩
            · simp only [JsonWs.skipSpacesN_eq_ws, JsonGrammar.ws_ws]
            · have := hI.cap; show (skipSpacesN r).length ≤ s.cap; omega
            · intro hst; exact absurd (hI.notStarted hst) hw
          · show ws (skipSpacesN r ++ pend s.reader) = _
            rw [JsonWs.skipSpacesN_eq_ws, ws_ws_append]
        · -- a number that reaches the end of the window while the end of the stream has not been seen
          have hc' : (!r.isEmpty || s.err == some .eof || !k.isNum) = false := by simpa using hc
          rcases hI.err with he | ⟨he, hr⟩
          · -- the reader has not ended: wait
            exact hrefill (tryParse_ok_wait hp hc') he
          · -- the reader failed: the number may have been cut, the reader's error is reported
            simp only [Bool.or_eq_false_iff, Bool.not_eq_false', List.isEmpty_iff] at hc'
            obtain ⟨⟨hr0, hbeq⟩, hk⟩ := hc'
            have hfo : s.final = .other := by
              cases hf : s.final with
              | other => rfl
              | eof => rw [he, hf] at hbeq; cases hbeq
            have hout : errOut s (ferr s.final) = Out.readerErr := by rw [hfo]; rfl
            rw [readValue_succ, tryParse_ok_wait hp (by simp [hr0, hbeq, hk]), he, hb]
            simp only [hout]
            right; right; right; right
            refine ⟨k, hbne, ?_, hk, hfo, rfl⟩
            simp only [hr.pend, List.append_nil]
            rw [← hr0]; exact hp
      | err e =>
        cases e with
        | false =>
          have hfull := StreamStable.window_err_stable s.remain (pend s.reader) hsk hp
          rw [readValue_succ, tryParse_err_false hw hp, hb]
          simp only
          right; left
          exact ⟨hbne, hfull, rfl⟩
        | true =>
          have htp := tryParse_err_true hp
          rcases hI.err with he | ⟨he, hr⟩
          · exact hrefill htp he
          · rw [readValue_succ, htp, he, hb]
            have hwe : s.remain.isEmpty = false := by cases h : s.remain <;> simp_all
            simp only [errOut_ferr, hwe]
            right; right; left
            refine ⟨hbne, ?_, rfl⟩
            simp only [hr.pend, List.append_nil]
            exact hp

/-! ### the `Decode` loop -/

/-- the model parser iterated over the delivered bytes, as the decoder sees them once the reader has reported the terminal
condition `f`. With `f = eof` this is `wholeStream`. With `f = other`: the end of the bytes is the reader's error, and a
number that reaches the end of the bytes is not a value (it may have been cut). -/
def finStream (f : RErr) : Nat → Bytes → List Out
  | 0, _ => []
  | n + 1, b =>
    let b := skipSpacesN b
    if b.isEmpty then [fin f .eof]
    else match parseWin b with
      | .ok k r =>
        if r ≠ [] ∨ f = .eof ∨ k.isNum = false then .value (b.take (b.length - r.length)) k :: finStream f n r
        else [.readerErr]
      | .err false => [.syntax]
      | .err true => [fin f .unexpectedEof]

theorem finStream_end (f : RErr) (n : Nat) {b : Bytes} (h : ws b = []) : finStream f (n + 1) b = [fin f .eof] := by
  simp [finStream, JsonWs.skipSpacesN_eq_ws, h]

theorem finStream_err (f : RErr) (n : Nat) {b : Bytes} {e : Bool} (h : ws b ≠ []) (hv : parseWin (ws b) = .err e) :
    finStream f (n + 1) b = [if e then fin f .unexpectedEof else .syntax] := by
  have : (ws b).isEmpty = false := by cases h' : ws b <;> simp_all
  simp only [finStream, JsonWs.skipSpacesN_eq_ws, this]
  rw [hv]; cases e <;> rfl

theorem finStream_val (f : RErr) (n : Nat) {b r : Bytes} {k : Kind} (h : ws b ≠ []) (hv : parseWin (ws b) = .ok k r)
    (hc : r ≠ [] ∨ f = .eof ∨ k.isNum = false) :
    finStream f (n + 1) b = .value ((ws b).take ((ws b).length - r.length)) k :: finStream f n r := by
  have : (ws b).isEmpty = false := by cases h' : ws b <;> simp_all
  simp only [finStream, JsonWs.skipSpacesN_eq_ws, this]
  rw [hv]; simp only [if_pos hc]; rfl

theorem finStream_num (f : RErr) (n : Nat) {b r : Bytes} {k : Kind} (h : ws b ≠ []) (hv : parseWin (ws b) = .ok k r)
    (hc : ¬ (r ≠ [] ∨ f = .eof ∨ k.isNum = false)) : finStream f (n + 1) b = [.readerErr] := by
  have : (ws b).isEmpty = false := by cases h' : ws b <;> simp_all
  simp only [finStream, JsonWs.skipSpacesN_eq_ws, this]
  rw [hv]; simp only [if_neg hc]; rfl

theorem finStream_ws (f : RErr) (n : Nat) (b : Bytes) : finStream f n (ws b) = finStream f n b := by
  cases n with
  | zero => rfl
  | succ n => simp only [finStream, JsonWs.skipSpacesN_eq_ws, JsonGrammar.ws_ws]

/-- with `io.EOF` as the terminal condition: the model parser over all the bytes -/
theorem finStream_eof_eq : ∀ (n : Nat) (b : Bytes), finStream .eof n b = wholeStream n b := by
  intro n
  induction n with
  | zero => intro b; rfl
  | succ n ih =>
    intro b
    by_cases hw : ws b = []
    · rw [finStream_end _ n hw, wholeStream_eof n hw]; rfl
    · cases hp : parseWin (ws b) with
      | ok k r => rw [finStream_val _ n hw hp (Or.inr (Or.inl rfl)), wholeStream_val n hw hp, ih]
      | err e => rw [finStream_err _ n hw hp, wholeStream_err n hw hp]; cases e <;> rfl

theorem decodeAllG_spec {minBuf minRead : Nat} (h0 : 0 < minRead) (h1 : minRead ≤ minBuf) (rf : St → Nat)
    (hrf : ∀ s, M1 s < rf s) :
    ∀ (n : Nat) (s : St), Inv minBuf s →
      decodeAllG rf minBuf minRead n s = finStream s.final n (rest s) := by
  intro n
  induction n with
  | zero => intro s _; rfl
  | succ n ih =>
    intro s hI
    have hstep := readValue_spec h0 h1 (rf s) s hI (hrf s)
    simp only [decodeAllG]
    generalize readValue minBuf minRead (rf s) s = res at hstep
    obtain ⟨o, s'⟩ := res
    simp only at hstep ⊢
    rcases hstep with ⟨hb, ho⟩ | ⟨hb, hv, ho⟩ | ⟨hb, hv, ho⟩ | ⟨r, k, hb, hv, hc, ho, hI', hf', hr⟩ | ⟨k, hb, hv, hk, hf, ho⟩
    · subst ho
      rw [finStream_end _ n hb]
      cases s.final <;> rfl
    · subst ho
      rw [finStream_err _ n hb hv]; rfl
    · subst ho
      rw [finStream_err _ n hb hv]; cases s.final <;> rfl
    · subst ho
      rw [finStream_val _ n hb hv hc]
      simp only
      rw [ih s' hI', ← finStream_ws _ n (rest s'), hr, finStream_ws, hf']
    · subst ho
      rw [finStream_num _ n hb hv (by rw [hf, hk]; simp)]

theorem modelFuel_ok (s : St) : M1 s < modelFuel s := by
  simp only [M1, modelFuel, pend_length]; split <;> omega

/-- the initial decoder state -/
abbrev init (final : RErr) (evs : Reader) : St := { reader := evs, final := final }

theorem init_inv (minBuf : Nat) {final : RErr} {evs : Reader} (hc : WF final evs) : Inv minBuf (init final evs) :=
  ⟨hc, rfl, Or.inl rfl, Nat.le_refl _, fun _ => rfl, fun h => by cases h⟩

/-- **the decoder over a well-formed script, any terminal condition, any sufficient per-call fuel** -/
theorem decodeAllG_whole {minBuf minRead : Nat} (h0 : 0 < minRead) (h1 : minRead ≤ minBuf) (rf : St → Nat)
    (hrf : ∀ s : St, (pend s.reader).length + s.reader.length + 2 ≤ rf s)
    (final : RErr) (evs : Reader) (hc : WF final evs) (limit : Nat) :
    decodeAllG rf minBuf minRead limit { reader := evs, final := final } =
      finStream final limit (evs.map (·.data)).flatten :=
  decodeAllG_spec h0 h1 rf (fun s => by have := hrf s; simp only [M1]; split <;> omega) limit (init final evs)
    (init_inv minBuf hc)

/-- **the model's `decodeAll` over a well-formed script, any terminal condition** -/
theorem decodeAll_whole {minBuf minRead : Nat} (h0 : 0 < minRead) (h1 : minRead ≤ minBuf)
    (final : RErr) (evs : Reader) (hc : WF final evs) (limit : Nat) :
    decodeAll minBuf minRead limit { reader := evs, final := final } =
      finStream final limit (evs.map (·.data)).flatten := by
  rw [decodeAll_eq]
  exact decodeAllG_spec h0 h1 modelFuel modelFuel_ok limit (init final evs) (init_inv minBuf hc)

end Enc.Lemmas.StreamErr
