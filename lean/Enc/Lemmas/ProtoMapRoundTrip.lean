import Enc.Lemmas.ProtoMapRef
/-!
# proto map fields: `Unmarshal(Marshal(v))` — the model's own decoder inverts the model's encoder on `tyOKM`

  * `zeroOf_eqM / zeroOfCodec_codecForM / cnums_fieldsOfM`   preparations of `ProtoRoundTripZero/Field` on `tyOKM`
  * `dec_entry`          the synthetic entry codec decodes one entry chunk to `{key, val'}`
  * `decode_map`         the `.map` arm of `decodeU` on an entry chunk assigns the pair (`mapAssign`)
  * `dec_entries`        what `encodeMap` wrote is a segment of the decoder's struct loop that fills the slot in order
  * `dec_oneM / dec_fieldsM / dec_fieldsRM`   the mutual induction of `ProtoRoundTrip` re-run on `tyOKM`
  * `unmarshal_marshal_map_partial`, `unmarshal_marshal_map_ptrmsg_partial`
-/
set_option linter.unusedSimpArgs false
set_option linter.unusedVariables false
namespace Enc.Lemmas.ProtoMap
open Enc Enc.Model.Proto Enc.Lemmas.ProtoWire Enc.Lemmas.ProtoDecode Enc.Lemmas.ProtoRoundTrip
open Enc.Spec.Protobuf (FieldOpt fieldOpt canonical WireVal encRec canonTy canon)

/-! ## zero values -/

mutual
theorem zeroOf_eqM (t : Ty) (ht : tyOKM t = true) : zeroOf t = Spec.Protobuf.zeroOf t := by
  cases t <;> simp only [tyOKM] at ht <;> try (exact absurd ht (by decide))
  case struct fs =>
    simp only [Bool.and_eq_true] at ht
    simp only [zeroOf, Spec.Protobuf.zeroOf, zeroFields_eqM fs 1 ht.1]
  case arr n e =>
    have := isByte_eq e ht; subst this
    simp only [zeroOf, Spec.Protobuf.zeroOf]
  all_goals simp only [zeroOf, Spec.Protobuf.zeroOf]
theorem zeroFields_eqM (fs : Fields) (pos : Nat) (hf : fieldsOKM pos fs = true) :
    zeroFields fs = Spec.Protobuf.zeroFields fs := by
  cases fs with
  | nil => simp only [zeroFields, Spec.Protobuf.zeroFields]
  | cons name tag emb t rest =>
    simp only [fieldsOKM, Bool.and_eq_true] at hf
    simp only [zeroFields, Spec.Protobuf.zeroFields, zeroOf_eqM t hf.1.2, zeroFields_eqM rest (pos + 1) hf.2]
end

mutual
theorem zeroOfCodec_codecForM (t : Ty) (o : FieldOpt) (ht : tyOKM t = true) (hnm : isMap t = false) :
    zeroOfCodec (codecFor t o) = zeroOf t := by
  cases t <;> simp only [tyOKM] at ht <;> try (exact absurd ht (by decide))
  case map => exact absurd hnm (by simp [isMap])
  case struct fs =>
    simp only [Bool.and_eq_true] at ht
    simp only [codecFor, codecOf, zeroOfCodec, zeroOf, zeroCFields_fieldsOfM fs 1 ht.1]
  case int k =>
    cases k <;> simp only [supportedKind] at ht <;> try (exact absurd ht (by decide))
    all_goals (simp only [codecFor, codecOf]; try split) <;> simp only [zeroOfCodec, zeroOf]
  case ptr t' =>
    simp only [Bool.and_eq_true] at ht
    simp only [codecFor_ptr t' o ht.1, zeroOfCodec, zeroOf]
  case slice e =>
    have : codecFor (.slice e) o = codecOf (.slice e) := rfl
    rw [this]
    cases e with
    | int k => cases k <;> simp only [codecOf, zeroOfCodec, zeroOf]
    | _ => simp only [codecOf, zeroOfCodec, zeroOf]
  case arr n e =>
    have := isByte_eq e ht; subst this
    simp only [codecFor, codecOf, zeroOfCodec, zeroOf]
  all_goals simp only [codecFor, codecOf, zeroOfCodec, zeroOf]
theorem zeroCFields_fieldsOfM (fs : Fields) (pos : Nat) (hf : fieldsOKM pos fs = true) :
    zeroOfCodec.zeroCFields (fieldsOf pos fs) = zeroFields fs := by
  cases fs with
  | nil => simp only [fieldsOf, zeroOfCodec.zeroCFields, zeroFields]
  | cons name tag emb t rest =>
    simp only [fieldsOKM, Bool.and_eq_true] at hf
    obtain ⟨⟨hta, hty⟩, hrest⟩ := hf
    by_cases hmp : isMap t = true
    · cases t <;> simp only [isMap] at hmp <;> try (exact absurd hmp (by decide))
      rename_i kt vt
      simp only [tagAgreeM, isMap, if_true] at hta
      rw [fieldsOf_cons_map pos name tag emb kt vt rest hta hty]
      simp only [zeroOfCodec.zeroCFields, mapC, zeroOfCodec, zeroFields, zeroOf, zeroCFields_fieldsOfM rest (pos + 1) hrest]
    have hnm : isMap t = false := by simpa using hmp
    rw [tagAgreeM_notMap _ _ _ hnm] at hta
    by_cases hsl : isSlice t = true
    · cases t <;> simp only [isSlice] at hsl <;> try (exact absurd hsl (by decide))
      rename_i e
      rw [fieldsOf_cons_sliceM pos name tag emb e rest hta hty]
      simp only [zeroOfCodec.zeroCFields, zeroOfCodec, zeroFields, zeroOf, zeroCFields_fieldsOfM rest (pos + 1) hrest]
    · have hns : isSlice t = false := by simpa using hsl
      rw [fieldsOf_cons_okM pos name tag emb t rest hta hty hns hnm]
      simp only [zeroOfCodec.zeroCFields, zeroFields, zeroOfCodec_codecForM t _ hty hnm,
        zeroCFields_fieldsOfM rest (pos + 1) hrest]
end

theorem zeroOfCodec_codecOfM (t : Ty) (ht : tyOKM t = true) (hnm : isMap t = false) :
    zeroOfCodec (codecOf t) = zeroOf t := by
  rw [← codecFor_nofixed t { number := 0 } rfl]; exact zeroOfCodec_codecForM t _ ht hnm

/-- the numbers `structCodecOf` assigns are the ones the reference reads from the struct tags -/
theorem cnums_fieldsOfM : ∀ (fs : Fields) (pos : Nat), fieldsOKM pos fs = true →
    cnums (fieldsOf pos fs) = fieldNums pos fs
  | .nil, pos, _ => by simp [fieldsOf, cnums, fieldNums]
  | .cons name tag emb t rest, pos, h => by
    simp only [fieldsOKM, Bool.and_eq_true] at h
    obtain ⟨⟨hta, hty⟩, hrest⟩ := h
    by_cases hmp : isMap t = true
    · cases t <;> simp only [isMap] at hmp <;> try (exact absurd hmp (by decide))
      rename_i kt vt
      simp only [tagAgreeM, isMap, if_true] at hta
      rw [fieldsOf_cons_map pos name tag emb kt vt rest hta hty]
      simp only [cnums, fieldNums, cnums_fieldsOfM rest (pos + 1) hrest]
    have hnm : isMap t = false := by simpa using hmp
    rw [tagAgreeM_notMap _ _ _ hnm] at hta
    by_cases hsl : isSlice t = true
    · cases t <;> simp only [isSlice] at hsl <;> try (exact absurd hsl (by decide))
      rename_i e
      rw [fieldsOf_cons_sliceM pos name tag emb e rest hta hty]
      simp only [cnums, fieldNums, cnums_fieldsOfM rest (pos + 1) hrest]
    · have hns : isSlice t = false := by simpa using hsl
      rw [fieldsOf_cons_okM pos name tag emb t rest hta hty hns hnm]
      simp only [cnums, fieldNums, cnums_fieldsOfM rest (pos + 1) hrest]

/-! ## keys come back literally -/

theorem canon_eq_bool (v : Val) (b : Bool) (h : canon v = .bool b) : v = .bool b := by
  cases v <;> simp only [canon] at h
  all_goals first
    | exact h
    | cases h
    | (split at h <;> cases h)
theorem canon_eq_int (v : Val) (i : Int) (h : canon v = .int i) : v = .int i := by
  cases v <;> simp only [canon] at h
  all_goals first
    | exact h
    | cases h
    | (split at h <;> cases h)
theorem canon_eq_str (v : Val) (s : Bytes) (h : canon v = .str s) : v = .str s := by
  cases v <;> simp only [canon] at h
  all_goals first
    | exact h
    | cases h
    | (split at h <;> cases h)

/-- on key types, agreement in normal form is literal equality -/
theorem key_canon_inj (kt : Ty) (hk : keyTy kt = true) (v v' : Val) (hv : hasTypeM kt v = true)
    (h : canonical kt v' = canonical kt v) : v' = v := by
  cases kt <;> simp only [keyTy] at hk <;> try (exact absurd hk (by decide))
  all_goals (cases v <;> simp only [hasTypeM] at hv <;> try (exact absurd hv (by decide)))
  · have e : canonical .bool v' = canon v' := by cases v' <;> simp [canonical, canonTy]
    rw [e] at h; exact canon_eq_bool v' _ (by simpa [canonical, canonTy, canon] using h)
  · rename_i k i
    have e : canonical (.int k) v' = canon v' := by cases v' <;> simp [canonical, canonTy]
    rw [e] at h; exact canon_eq_int v' _ (by simpa [canonical, canonTy, canon] using h)
  · have e : canonical .str v' = canon v' := by cases v' <;> simp [canonical, canonTy]
    rw [e] at h; exact canon_eq_str v' _ (by simpa [canonical, canonTy, canon] using h)

/-- a key as the map encoder writes it: a complete payload, decoded back literally by the key codec -/
theorem dec_key (kt : Ty) (hk : keyTy kt = true) (key : Val) (hkv : hasTypeM kt key = true) (dfl : Flags)
    (hzd : dfl.zigzag = false) (hlen : (encode (codecOf kt) key wz).length < 2 ^ 64) :
    0 < size (codecOf kt) key wz ∧ IsPayload (codecOf kt).wire.num (encode (codecOf kt) key wz)
      ∧ ∀ f cur, decodeU (f + 1) (codecOf kt) (encode (codecOf kt) key wz) cur dfl
          = .ok (key, (encode (codecOf kt) key wz).length) := by
  have hsc := keyTy_scalar kt hk
  have hty := keyTy_tyOK kt hk
  have hv : hasType kt key = true := scalar_hasType kt key hsc ▸ hkv
  have hcf := codecFor_nofixed kt { number := 1 } rfl
  have hfs := key_spec kt hk key hkv hlen
  cases hp : payload true kt { number := 1 } key with
  | none => exact absurd hp (payload_wz_scalar kt _ key hty hv (keyTy_notStruct kt hk) (keyTy_notPtr kt hk)
      (keyTy_notSlice kt hk))
  | some wk =>
    rw [scalar_payload _ _ _ _ hsc, hp] at hfs
    simp only [FieldSpec] at hfs
    obtain ⟨v', hpl, hdec, hagr⟩ := dec_scalar kt { number := 1 } key wz dfl (keyTy_notStruct kt hk) (keyTy_notPtr kt hk)
      (keyTy_notSlice kt hk) hty hv (optOK_untagged kt 1) rfl hzd wk hp (by rw [hcf]; exact hlen)
    rw [hcf] at hpl hdec
    have : v' = key := key_canon_inj kt hk key v' hkv hagr.1
    subst this
    exact ⟨hfs.1, hpl, hdec⟩

theorem lookup_entry_key (kt vt : Ty) :
    lookupField (.cons 1 (isEmb kt) false false (codecOf kt) (.cons 2 (isEmb vt) false false (codecOf vt) .nil)) 1
      = some (0, isEmb kt, false, codecOf kt) := by
  simp [lookupField, lookupField.go]

theorem lookup_entry_val (kt vt : Ty) :
    lookupField (.cons 1 (isEmb kt) false false (codecOf kt) (.cons 2 (isEmb vt) false false (codecOf vt) .nil)) 2
      = some (1, isEmb vt, false, codecOf vt) := by
  simp [lookupField, lookupField.go]

/-- the entry body the map encoder writes for `(key, val)` -/
def entryBytes (kt vt : Ty) (key val : Val) : Bytes :=
  partBytes 1 (isEmb kt) (codecOf kt) key ++ partBytes 2 (isEmb vt) (codecOf vt) val

theorem entryBytes_eq (kt vt : Ty) (hk : keyTy kt = true) (hvt : tyOKM vt = true) (hvs : isSlice vt = false)
    (hvm : isMap vt = false) (key val : Val) (hkv : hasTypeM kt key = true) (hvv : hasTypeM vt val = true)
    (hlen : (entryBytes kt vt key val).length < 2 ^ 64) : entryBytes kt vt key val = entryBody kt vt key val := by
  unfold entryBytes at hlen ⊢
  simp only [List.length_append] at hlen
  have hkl : (encode (codecOf kt) key wz).length ≤ (partBytes 1 (isEmb kt) (codecOf kt) key).length := by
    rw [partBytes_length 1 (.inl rfl), Lemmas.Proto.size_eq]; split <;> omega
  have hvl : (encode (codecOf vt) val wz).length ≤ (partBytes 2 (isEmb vt) (codecOf vt) val).length := by
    rw [partBytes_length 2 (.inr rfl), Lemmas.Proto.size_eq]; split <;> omega
  rw [partBytes_spec 1 _ _ _ _ (key_spec kt hk key hkv (by omega)),
    partBytes_spec 2 _ _ _ _ (val_spec vt hvt hvs hvm val hvv (by omega))]
  simp only [entryBody, entryRecs, encRecs_append]

/-- **one entry, model side**: the synthetic entry codec decodes the entry body the map encoder wrote for
`(key, val)` — starting from the zero entry, as the `.map` arm of `decodeU` does — to `{key, val'}`, the key literally,
`val'` agreeing with `val` (also when the value part was left out) -/
theorem dec_entry (kt vt : Ty) (hk : keyTy kt = true) (hvt : tyOKM vt = true) (hvs : isSlice vt = false)
    (hvm : isMap vt = false) (key val : Val) (hkv : hasTypeM kt key = true) (hvv : hasTypeM vt val = true)
    (hne : valOKM vt val = true)
    (IH : ∀ w, payloadM true vt { number := 2 } val = some w → (encode (codecOf vt) val wz).length < 2 ^ 64 →
      ∃ v', (if isEmb vt = true then (codecOf vt).wire = .varlen
              else IsPayload (codecOf vt).wire.num (encode (codecOf vt) val wz))
        ∧ (∃ f, decodeU f (codecOf vt) (encode (codecOf vt) val wz) (zeroOf vt) { toplevel := false }
              = .ok (v', (encode (codecOf vt) val wz).length))
        ∧ AgrM vt v' val)
    (hlen : (entryBytes kt vt key val).length < 2 ^ 64) :
    ∃ v', (∃ f, decodeU f (entryC kt vt) (entryBytes kt vt key val) (zeroOfCodec (entryC kt vt)) {}
        = .ok (.struct (.cons key (.cons v' .nil)), (entryBytes kt vt key val).length)) ∧ AgrM vt v' val := by
  unfold entryBytes at hlen ⊢
  simp only [List.length_append] at hlen
  have hkl : (encode (codecOf kt) key wz).length ≤ (partBytes 1 (isEmb kt) (codecOf kt) key).length := by
    rw [partBytes_length 1 (.inl rfl), Lemmas.Proto.size_eq]; split <;> omega
  have hvl : (encode (codecOf vt) val wz).length ≤ (partBytes 2 (isEmb vt) (codecOf vt) val).length := by
    rw [partBytes_length 2 (.inr rfl), Lemmas.Proto.size_eq]; split <;> omega
  obtain ⟨hkpos, hkpl, hkdec⟩ := dec_key kt hk key hkv { toplevel := false } rfl (by omega)
  have hkemb := keyTy_isEmb kt hk
  have hzk := zeroOfCodec_codecOfM kt (keyTy_tyOKM kt hk) (keyTy_notMap kt hk)
  have hzv := zeroOfCodec_codecOfM vt hvt hvm
  have hzero : zeroOfCodec (entryC kt vt) = .struct (.cons (zeroOf kt) (.cons (zeroOf vt) .nil)) := by
    simp only [entryC, zeroOfCodec, zeroOfCodec.zeroCFields, hzk, hzv]
  -- the key record
  have hseg1 := seg_field (.cons 1 (isEmb kt) false false (codecOf kt) (.cons 2 (isEmb vt) false false (codecOf vt) .nil))
    { toplevel := false } 1 0 (isEmb kt) false (codecOf kt) (encode (codecOf kt) key wz)
    (.cons (zeroOf kt) (.cons (zeroOf vt) .nil)) key (by decide) (lookup_entry_key kt vt)
    (by rw [hkemb]; simpa using hkpl) ⟨1, hkdec 0 _⟩
  have hp1 : partBytes 1 (isEmb kt) (codecOf kt) key
      = encodeTag 1 (codecOf kt).wire ++ (if isEmb kt = true then encodeVarint (BitVec.ofNat 64 (encode (codecOf kt) key wz).length) else [])
        ++ encode (codecOf kt) key wz := by
    simp only [partBytes, hkpos, if_true, Lemmas.Proto.size_eq]
  rw [← hp1] at hseg1
  simp only [Vals.set] at hseg1
  -- the value record, or nothing
  have hvspec := val_spec vt hvt hvs hvm val hvv (by omega)
  cases hpv : payloadM true vt { number := 2 } val with
  | none =>
    rw [hpv] at hvspec
    simp only [FieldSpec] at hvspec
    have hp2 : partBytes 2 (isEmb vt) (codecOf vt) val = [] := by simp [partBytes, hvspec]
    rw [hp2, List.append_nil]
    have hagr := absent_agrM vt _ val true hvv hne hvs hvm hpv
    rw [← zeroOf_eqM vt hvt] at hagr
    obtain ⟨f, hrun⟩ := hseg1.run
    refine ⟨zeroOf vt, ⟨f + 1, ?_⟩, hagr⟩
    rw [hzero, entryC, decode_struct_succ, hrun]
    rfl
  | some wv =>
    rw [hpv] at hvspec
    simp only [FieldSpec] at hvspec
    obtain ⟨v', hsh, hdec, hagr⟩ := IH wv hpv (by omega)
    have hseg2 := seg_field (.cons 1 (isEmb kt) false false (codecOf kt) (.cons 2 (isEmb vt) false false (codecOf vt) .nil))
      { toplevel := false } 2 1 (isEmb vt) false (codecOf vt) (encode (codecOf vt) val wz)
      (.cons key (.cons (zeroOf vt) .nil)) v' (by decide) (lookup_entry_val kt vt)
      (by
        cases hE : isEmb vt with
        | true => rw [hE] at hsh; simp only [if_true] at hsh ⊢; exact ⟨hsh, by omega⟩
        | false => rw [hE] at hsh; simpa using hsh)
      (by simpa [Vals.get] using hdec)
    have hp2 : partBytes 2 (isEmb vt) (codecOf vt) val
        = encodeTag 2 (codecOf vt).wire ++ (if isEmb vt = true then encodeVarint (BitVec.ofNat 64 (encode (codecOf vt) val wz).length) else [])
          ++ encode (codecOf vt) val wz := by
      simp only [partBytes, hvspec.1, if_true, Lemmas.Proto.size_eq]
    rw [← hp2] at hseg2
    simp only [Vals.set] at hseg2
    obtain ⟨f, hrun⟩ := (hseg1.append hseg2).run
    refine ⟨v', ⟨f + 1, ?_⟩, hagr⟩
    rw [hzero, entryC, decode_struct_succ, hrun]
    rfl

/-- **the `.map` arm of `decodeU`** on a non-empty entry chunk: the entry codec's result `{k, v}` is assigned to the map
in the slot (`mapAssign` with `valEqShow`); a key not yet present is appended -/
theorem decode_map (f : Nat) (num : Nat) (kc vc : Codec) (kEmb vEmb : Bool) (entry : Codec) (d : Bytes)
    (acc : List (Val × Val)) (fl : Flags) (k v : Val) (n : Nat) (hd : d ≠ [])
    (h : decodeU f entry d (zeroOfCodec entry) {} = .ok (.struct (.cons k (.cons v .nil)), n))
    (hfresh : ∀ p ∈ acc, (p.1.show == k.show) = false) :
    decodeU (f + 1) (.map num kc vc kEmb vEmb entry) d (accMap acc) fl = .ok (accMap (acc ++ [(k, v)]), n) := by
  have he : d.isEmpty = false := by cases d <;> simp_all
  simp only [decodeU, he, Bool.false_eq_true, if_false, h]
  cases acc with
  | nil => simp only [accMap, mapAssign, List.nil_append, flat]
  | cons p l =>
    simp only [accMap]
    rw [mapAssign_fresh (p :: l) k v hfresh]; rfl

theorem entryBytes_ne_nil (kt vt : Ty) (hk : keyTy kt = true) (key val : Val) (hkv : hasTypeM kt key = true)
    (hlen : (entryBytes kt vt key val).length < 2 ^ 64) : entryBytes kt vt key val ≠ [] := by
  unfold entryBytes at hlen ⊢
  simp only [List.length_append] at hlen
  have hkl : (encode (codecOf kt) key wz).length ≤ (partBytes 1 (isEmb kt) (codecOf kt) key).length := by
    rw [partBytes_length 1 (.inl rfl), Lemmas.Proto.size_eq]; split <;> omega
  obtain ⟨hkpos, _, _⟩ := dec_key kt hk key hkv {} rfl (by omega)
  intro h
  have := congrArg List.length h
  simp only [List.length_append, List.length_nil, partBytes_length 1 (.inl rfl), hkpos, if_true] at this
  omega

theorem encodeMap_cons' (num : Nat) (kt vt : Ty) (key val : Val) (rest : Vals) :
    encodeMap (encodeTag num .varlen) (codecOf kt) (codecOf vt) (isEmb kt) (isEmb vt) (.cons key (.cons val rest))
      = (encodeTag num (mapC num kt vt).wire
            ++ (if true = true then encodeVarint (BitVec.ofNat 64 (entryBytes kt vt key val).length) else [])
            ++ entryBytes kt vt key val)
          ++ encodeMap (encodeTag num .varlen) (codecOf kt) (codecOf vt) (isEmb kt) (isEmb vt) rest := by
  rw [encodeMap_cons]; rfl

/-- **what `encodeMap` wrote, read by the decoder's struct loop**: a segment that assigns the pairs to the slot of the
map field one after the other, in order (keys pairwise distinct under `Val.show`) -/
theorem dec_entries (cfsAll : CFields) (dfl : Flags) (kt vt : Ty) (hk : keyTy kt = true) (num : Nat) (zz : Bool)
    (pre r : Vals) (hnum : num < 2 ^ 61)
    (hlk : lookupField cfsAll num = some (pre.length, true, zz, mapC num kt vt))
    (hstep : ∀ key val, hasTypeM kt key = true → hasTypeM vt val = true → valOKM vt val = true →
      (entryBytes kt vt key val).length < 2 ^ 64 →
      ∃ v', (∃ f, decodeU f (entryC kt vt) (entryBytes kt vt key val) (zeroOfCodec (entryC kt vt)) {}
          = .ok (.struct (.cons key (.cons v' .nil)), (entryBytes kt vt key val).length)) ∧ AgrM vt v' val) :
    ∀ (kvs : Vals) (acc : List (Val × Val)), hasTypeMapM kt vt kvs = true → valOKMapM vt kvs = true →
      keysDistinct kvs = true → (∀ p ∈ acc, keysDistinct.allFresh p.1 kvs = true) →
      (encodeMap (encodeTag num .varlen) (codecOf kt) (codecOf vt) (isEmb kt) (isEmb vt) kvs).length < 2 ^ 64 →
      ∃ ds, Seg cfsAll dfl (encodeMap (encodeTag num .varlen) (codecOf kt) (codecOf vt) (isEmb kt) (isEmb vt) kvs)
          (vapp pre (.cons (accMap acc) r)) (vapp pre (.cons (accMap (acc ++ ds)) r)) ∧ MapAgr vt ds kvs
  | .nil, acc, _, _, _, _, _ => ⟨[], by simpa [encodeMap] using Seg.nil _ _ _, trivial⟩
  | .cons _ .nil, _, hv, _, _, _, _ => by simp [hasTypeMapM] at hv
  | .cons key (.cons val rest), acc, hv, hne, hkd, hacc, hlen => by
    simp only [hasTypeMapM, Bool.and_eq_true] at hv
    simp only [valOKMapM, Bool.and_eq_true] at hne
    simp only [keysDistinct, Bool.and_eq_true] at hkd
    rw [encodeMap_cons'] at hlen ⊢
    simp only [List.length_append] at hlen
    have hel : (entryBytes kt vt key val).length < 2 ^ 64 := by omega
    obtain ⟨v', ⟨f, hdec⟩, hagr⟩ := hstep key val hv.1.1 hv.1.2 hne.1 hel
    have hfresh : ∀ p ∈ acc, (p.1.show == key.show) = false := by
      intro p hp
      have := hacc p hp
      rw [allFresh_cons, Bool.and_eq_true] at this
      simpa using this.1
    have hacc' : ∀ p ∈ acc ++ [(key, v')], keysDistinct.allFresh p.1 rest = true := by
      intro p hp
      rcases List.mem_append.mp hp with hp | hp
      · have := hacc p hp
        rw [allFresh_cons, Bool.and_eq_true] at this
        exact this.2
      · simp only [List.mem_singleton] at hp
        subst hp
        exact hkd.1
    obtain ⟨ds, hseg, hl⟩ := dec_entries cfsAll dfl kt vt hk num zz pre r hnum hlk hstep rest (acc ++ [(key, v')])
      hv.2 hne.2 hkd.2 hacc' (by omega)
    refine ⟨(key, v') :: ds, ?_, ⟨rfl, hagr, hl⟩⟩
    have hfield := seg_field cfsAll dfl num pre.length true zz (mapC num kt vt) (entryBytes kt vt key val)
      (vapp pre (.cons (accMap acc) r)) (accMap (acc ++ [(key, v')])) hnum hlk
      (by simp only [if_true]; exact ⟨rfl, hel⟩)
      ⟨f + 1, by
        rw [get_vapp]
        exact decode_map f num _ _ _ _ _ _ acc _ key v' _ (entryBytes_ne_nil kt vt hk key val hv.1.1 hel) hdec hfresh⟩
    rw [set_vapp] at hfield
    rw [List.append_assoc] at hseg
    exact hfield.append hseg

/-- the records of one repeated field (`dec_elems` on `tyOKM`) -/
theorem dec_elemsM (cfsAll : CFields) (dfl : Flags) (e : Ty) (ec : Codec) (num : Nat) (emb : Bool) (pre r : Vals)
    (hnum : num < 2 ^ 61)
    (hlk : lookupField cfsAll num = some (pre.length, emb, false, .slice ec num ec.wire emb))
    (hstep : ∀ x, hasTypeM e x = true → valOKM e x = true → (encode ec x wz).length < 2 ^ 64 →
      ∃ x', (if emb = true then ec.wire = .varlen else IsPayload ec.wire.num (encode ec x wz))
        ∧ (∃ f, decodeU f ec (encode ec x wz) (zeroOfCodec ec) {} = .ok (x', (encode ec x wz).length))
        ∧ canonical e x' = canonical e x) :
    ∀ (es : Vals) (acc : List Val), hasTypeListM e es = true → valOKListM e es = true →
      (encodeSlice ec (encodeTag num ec.wire) emb es).length < 2 ^ 64 →
      ∃ ds, Seg cfsAll dfl (encodeSlice ec (encodeTag num ec.wire) emb es)
          (vapp pre (.cons (accVal acc) r)) (vapp pre (.cons (accVal (acc ++ ds)) r)) ∧ ListAgr e ds es
  | .nil, acc, _, _, _ => ⟨[], by simpa [encodeSlice] using Seg.nil _ _ _, trivial⟩
  | .cons x es, acc, hv, hne, hlen => by
    simp only [hasTypeListM, Bool.and_eq_true] at hv
    simp only [valOKListM, Bool.and_eq_true] at hne
    simp only [encodeSlice, List.length_append] at hlen ⊢
    obtain ⟨x', hsh, ⟨f, hdec⟩, hagr⟩ := hstep x hv.1 hne.1 (by omega)
    obtain ⟨ds, hseg, hl⟩ := dec_elemsM cfsAll dfl e ec num emb pre r hnum hlk hstep es (acc ++ [x']) hv.2 hne.2
      (by omega)
    refine ⟨x' :: ds, ?_, ⟨hagr, hl⟩⟩
    have hfield := seg_field cfsAll dfl num pre.length emb false (.slice ec num ec.wire emb) (encode ec x wz)
      (vapp pre (.cons (accVal acc) r)) (accVal (acc ++ [x'])) hnum hlk
      (by
        simp only [Codec.wire]
        cases emb with
        | true => simp only [if_true] at hsh ⊢; exact ⟨hsh, by omega⟩
        | false => simpa using hsh)
      ⟨f + 1, by rw [get_vapp]; exact decode_slice f ec num _ emb _ acc _ x' _ hdec⟩
    rw [set_vapp] at hfield
    simp only [Codec.wire, Lemmas.Proto.size_eq] at hfield
    rw [List.append_assoc] at hseg
    exact hfield.append hseg

/-! ## the mutual induction over the type -/

mutual
theorem dec_oneM (t : Ty) (o : FieldOpt) (v : Val) (efl dfl : Flags)
    (ht : tyOKM t = true) (hns : isSlice t = false) (hnm : isMap t = false) (hv : hasTypeM t v = true)
    (hne : valOKM t v = true) (ho : optOK t o = true) (hze : efl.zigzag = o.zigzag) (hzd : dfl.zigzag = o.zigzag)
    (w : WireVal) (hp : payloadM efl.wantzero t o v = some w)
    (hlen : (encode (codecFor t o) v efl).length < 2 ^ 64) :
    ∃ v', (if isEmb t = true then (codecFor t o).wire = .varlen
            else IsPayload (codecFor t o).wire.num (encode (codecFor t o) v efl))
      ∧ (∃ f, decodeU f (codecFor t o) (encode (codecFor t o) v efl) (zeroOf t) dfl
            = .ok (v', (encode (codecFor t o) v efl).length))
      ∧ AgrM t v' v := by
  by_cases hptr : isPtr t = true
  · cases t <;> simp only [isPtr] at hptr <;> try (exact absurd hptr (by decide))
    rename_i t'
    simp only [tyOKM, Bool.and_eq_true] at ht
    have ho' : optOK t' o = true := by
      cases t' <;> simp_all [optOK, ptrTarget]
    have hemb : isEmb (.ptr t') = isEmb t' := by
      cases t' <;> simp_all [isEmb, ptrTarget]
    have hnm' : isMap t' = false := by
      cases t' <;> simp_all [isMap, ptrTarget]
    have hcod := codecFor_ptr t' o ht.1
    cases v <;> simp only [hasTypeM] at hv <;> try (exact absurd hv (by decide))
    case nil => simp [payloadM] at hp
    case ptr v0 =>
      simp only [payloadM] at hp
      simp only [valOKM, Bool.and_eq_true] at hne
      rw [hcod] at hlen ⊢
      rw [hemb]
      simp only [encode] at hlen ⊢
      obtain ⟨v', hsh, ⟨f, hdec⟩, hagr⟩ := dec_oneM t' o v0 { efl with wantzero := true, inline := false } dfl ht.2
        (ptrTarget_notSlice t' ht.1) hnm' hv hne.2 ho' hze hzd w hp hlen
      refine ⟨.ptr v', ?_, ⟨f + 1, ?_⟩, AgrM.ptr hagr⟩
      · simpa only [Codec.wire] using hsh
      · simp only [decodeU, zeroOf, zeroOfCodec_codecForM t' o ht.2 hnm', hdec, Res.bind]
  have hnp : isPtr t = false := by simpa using hptr
  by_cases hs : isStructTy t = true
  · cases t <;> simp only [isStructTy] at hs <;> try (exact absurd hs (by decide))
    rename_i fs
    cases v <;> simp only [hasTypeM] at hv <;> try (exact absurd hv (by decide))
    rename_i vs
    simp only [tyOKM, Bool.and_eq_true, decide_eq_true_eq] at ht
    simp only [valOKM] at hne
    have hzz : o.zigzag = false := by simpa [optOK] using ho
    rw [hzz] at hze hzd
    have hc : codecFor (.struct fs) o = .struct (fieldsOf 1 fs) := by simp only [codecFor, codecOf]
    rw [hc] at hlen ⊢
    have henc := encode_struct (fieldsOf 1 fs) vs efl
    rw [henc] at hlen ⊢
    simp only [List.length_append] at hlen
    obtain ⟨us, hseg1, hrel⟩ := dec_fieldsM (fieldsOf 1 fs) fs vs (sfl efl (fieldsOf 1 fs)) { dfl with toplevel := false }
      .nil [] 1 rfl ht.1 hv hne ht.2 (by simp) (by intro n _; rfl) hze hzd (by omega)
    obtain ⟨ws, hseg2, hagr⟩ := dec_fieldsRM (fieldsOf 1 fs) fs vs us
      (encodeUnique (fieldsOf 1 fs) vs (sfl efl (fieldsOf 1 fs))).2 { dfl with toplevel := false }
      .nil [] 1 rfl ht.1 hv hne ht.2 (by simp) (by intro n _; rfl) hzd hrel (by omega)
    simp only [vapp] at hseg1 hseg2
    obtain ⟨f, hrun⟩ := (hseg1.append hseg2).run
    refine ⟨.struct ws, ?_, ⟨f + 1, ?_⟩, AgrM.struct hagr⟩
    · simp [isEmb, Codec.wire]
    · simp only [zeroOf]
      rw [decode_struct_succ, hrun]
      rfl
  · have hs' : isStructTy t = false := by simpa using hs
    have hemb : isEmb t = false := by
      cases t <;> simp_all [isEmb, isStructTy, isPtr]
    have hsc : isScalarTy t = true := by simp [isScalarTy, hs', hnp, hns, hnm]
    rw [scalar_payload _ _ _ _ hsc] at hp
    obtain ⟨v', hpl, hdec, hagr⟩ := dec_scalar t o v efl dfl hs' hnp hns (scalar_tyOK t hsc ▸ ht)
      (scalar_hasType t v hsc ▸ hv) ho hze hzd w hp hlen
    exact ⟨v', by simpa [hemb] using hpl, ⟨1, hdec 0 _⟩, hagr.1⟩
/-- the first encoder loop (non-repeated fields from position `pos` on) is a segment of the decoder's struct loop
that fills the slots behind `pre` with values agreeing with the originals (repeated and map fields stay nil) -/
theorem dec_fieldsM (cfsAll : CFields) (fs : Fields) (vs : Vals) (efl dfl : Flags) (pre : Vals) (seen : List Nat)
    (pos : Nat) (hpos : pos = pre.length + 1)
    (hf : fieldsOKM pos fs = true) (hv : hasTypesM fs vs = true) (hne : valsOKM fs vs = true)
    (hnd : (fieldNums pos fs).Nodup) (hseen : ∀ n ∈ fieldNums pos fs, n ∉ seen)
    (hfind : ∀ num, num ∉ seen → lookupField cfsAll num = lookupField.go num (fieldsOf pos fs) pre.length none)
    (hze : efl.zigzag = false) (hzd : dfl.zigzag = false)
    (hlen : (encodeUnique (fieldsOf pos fs) vs efl).1.length < 2 ^ 64) :
    ∃ us, Seg cfsAll dfl (encodeUnique (fieldsOf pos fs) vs efl).1 (vapp pre (zeroFields fs)) (vapp pre us)
      ∧ Rel1M fs us vs := by
  cases fs with
  | nil =>
    cases vs with
    | cons => simp [hasTypesM] at hv
    | nil => exact ⟨.nil, by simpa [fieldsOf, encodeUnique, zeroFields] using Seg.nil _ _ _, trivial⟩
  | cons name tag emb t rest =>
    cases vs with
    | nil => simp [hasTypesM] at hv
    | cons v vs =>
      simp only [fieldsOKM, Bool.and_eq_true] at hf
      simp only [hasTypesM, Bool.and_eq_true] at hv
      simp only [valsOKM, Bool.and_eq_true] at hne
      obtain ⟨⟨hta, hty⟩, hrest⟩ := hf
      simp only [fieldNums, List.nodup_cons] at hnd
      simp only [fieldNums, List.mem_cons, forall_eq_or_imp] at hseen
      have hcn := cnums_fieldsOfM rest (pos + 1) hrest
      have hseen' : ∀ n ∈ fieldNums (pos + 1) rest, n ∉ (fieldOpt pos tag).number :: seen := by
        intro n hn
        simp only [List.mem_cons, not_or]
        exact ⟨fun e => hnd.1 (e ▸ hn), hseen.2 n hn⟩
      have hpos' : ∀ x : Val, pos + 1 = (vsnoc pre x).length + 1 := by intro x; rw [vsnoc_length, hpos]
      simp only [zeroFields]
      by_cases hmp : isMap t = true
      · -- a map field: nothing in this loop, the slot stays nil
        cases t <;> simp only [isMap] at hmp <;> try (exact absurd hmp (by decide))
        rename_i kt vt
        simp only [tagAgreeM, isMap, if_true] at hta
        rw [fieldsOf_cons_map pos name tag emb kt vt rest hta hty] at hlen hfind ⊢
        simp only [encodeUnique] at hlen ⊢
        have hfind' := find_tail cfsAll seen _ _ _ _ _ _ _ hfind
        obtain ⟨us, hseg, hrel⟩ := dec_fieldsM cfsAll rest vs efl dfl (vsnoc pre .nil) (_ :: seen) (pos + 1)
          (hpos' _) hrest hv.2 hne.2 hnd.2 hseen' (by rw [vsnoc_length]; exact hfind') hze hzd hlen
        refine ⟨.cons .nil us, ?_, ?_⟩
        · rw [vapp_vsnoc, vapp_vsnoc] at hseg
          simpa only [zeroOf] using hseg
        · simp only [Rel1M, isRep, isMap, Bool.or_true, if_true]; exact ⟨trivial, hrel⟩
      have hnm : isMap t = false := by simpa using hmp
      rw [tagAgreeM_notMap _ _ _ hnm] at hta
      have hnum := tagAgree_num hta
      have hopt := tagAgree_optOK hta
      by_cases hsl : isSlice t = true
      · -- a repeated field: nothing in this loop, the slot stays nil
        cases t <;> simp only [isSlice] at hsl <;> try (exact absurd hsl (by decide))
        rename_i e
        rw [fieldsOf_cons_sliceM pos name tag emb e rest hta hty] at hlen hfind ⊢
        simp only [encodeUnique] at hlen ⊢
        have hfind' := find_tail cfsAll seen _ _ _ _ _ _ _ hfind
        obtain ⟨us, hseg, hrel⟩ := dec_fieldsM cfsAll rest vs efl dfl (vsnoc pre .nil) (_ :: seen) (pos + 1)
          (hpos' _) hrest hv.2 hne.2 hnd.2 hseen' (by rw [vsnoc_length]; exact hfind') hze hzd hlen
        refine ⟨.cons .nil us, ?_, ?_⟩
        · rw [vapp_vsnoc, vapp_vsnoc] at hseg
          simpa only [zeroOf] using hseg
        · simp only [Rel1M, isRep, isSlice, Bool.true_or, if_true]; exact ⟨trivial, hrel⟩
      have hns : isSlice t = false := by simpa using hsl
      have hnr : isRep t = false := by simp [isRep, hns, hnm]
      rw [fieldsOf_cons_okM pos name tag emb t rest hta hty hns hnm] at hlen hfind ⊢
      rw [encodeUnique_cons] at hlen ⊢
      have hfind' := find_tail cfsAll seen _ _ _ _ _ _ _ hfind
      have hlk := find_head cfsAll seen _ _ _ _ _ _ _ hfind hseen.1 (by rw [hcn]; exact hnd.1)
      generalize fieldOpt pos tag = o at *
      have hzf : ({ efl with zigzag := efl.zigzag || o.zigzag } : Flags).zigzag = o.zigzag := by simp [hze]
      have hzdf : ({ dfl with zigzag := dfl.zigzag || o.zigzag } : Flags).zigzag = o.zigzag := by simp [hzd]
      have hse := Lemmas.Proto.size_eq (codecFor t o) v { efl with zigzag := efl.zigzag || o.zigzag }
      by_cases hsz : size (codecFor t o) v { efl with zigzag := efl.zigzag || o.zigzag } > 0
      · simp only [hsz, if_true, List.length_append, fieldBytes] at hlen
        simp only [hsz, if_true]
        have hfs := field_bytesM t o v { efl with zigzag := efl.zigzag || o.zigzag } o.number hty hns hnm hv.1 hopt hzf
          (by omega) (by omega)
        rw [show ({ efl with zigzag := efl.zigzag || o.zigzag } : Flags).wantzero = efl.wantzero from rfl] at hfs
        cases hp : payloadM efl.wantzero t o v with
        | none => rw [hp] at hfs; simp only [FieldSpec] at hfs; omega
        | some w =>
          obtain ⟨v', hsh, hdec, hagr⟩ := dec_oneM t o v { efl with zigzag := efl.zigzag || o.zigzag }
            { dfl with zigzag := dfl.zigzag || o.zigzag } hty hns hnm hv.1 hne.1 hopt hzf hzdf w hp (by omega)
          have hfield := seg_field cfsAll dfl o.number pre.length (isEmb t) o.zigzag (codecFor t o)
            (encode (codecFor t o) v { efl with zigzag := efl.zigzag || o.zigzag })
            (vapp pre (.cons (zeroOf t) (zeroFields rest))) v' (by omega) hlk
            (by
              cases hE : isEmb t with
              | true => rw [hE] at hsh; simp only [if_true] at hsh ⊢; exact ⟨hsh, by omega⟩
              | false => rw [hE] at hsh; simpa using hsh)
            (by rw [get_vapp]; exact hdec)
          rw [set_vapp] at hfield
          obtain ⟨us, hseg, hrel⟩ := dec_fieldsM cfsAll rest vs { efl with wantzero := false } dfl (vsnoc pre v')
            (_ :: seen) (pos + 1) (hpos' _) hrest hv.2 hne.2 hnd.2 hseen' (by rw [vsnoc_length]; exact hfind') hze hzd
            (by omega)
          refine ⟨.cons v' us, ?_, ?_⟩
          · rw [vapp_vsnoc, vapp_vsnoc] at hseg
            have := hfield.append hseg
            simpa only [fieldBytes, Lemmas.Proto.size_eq] using this
          · simp only [Rel1M, hnr, Bool.false_eq_true, if_false]
            exact ⟨hagr, hrel⟩
      · have h0 : size (codecFor t o) v { efl with zigzag := efl.zigzag || o.zigzag } = 0 := by omega
        simp only [hsz, if_false] at hlen ⊢
        have hfs := field_bytesM t o v { efl with zigzag := efl.zigzag || o.zigzag } o.number hty hns hnm hv.1 hopt hzf
          (by omega) (by omega)
        rw [show ({ efl with zigzag := efl.zigzag || o.zigzag } : Flags).wantzero = efl.wantzero from rfl] at hfs
        cases hp : payloadM efl.wantzero t o v with
        | some w => rw [hp] at hfs; simp only [FieldSpec] at hfs; omega
        | none =>
          have hz := absent_agrM t o v efl.wantzero hv.1 hne.1 hns hnm hp
          rw [← zeroOf_eqM t hty] at hz
          obtain ⟨us, hseg, hrel⟩ := dec_fieldsM cfsAll rest vs efl dfl (vsnoc pre (zeroOf t)) (_ :: seen) (pos + 1)
            (hpos' _) hrest hv.2 hne.2 hnd.2 hseen' (by rw [vsnoc_length]; exact hfind') hze hzd hlen
          refine ⟨.cons (zeroOf t) us, ?_, ?_⟩
          · rw [vapp_vsnoc, vapp_vsnoc] at hseg
            exact hseg
          · simp only [Rel1M, hnr, Bool.false_eq_true, if_false]; exact ⟨hz, hrel⟩
/-- the second encoder loop (repeated and map fields), starting from the state the first loop left -/
theorem dec_fieldsRM (cfsAll : CFields) (fs : Fields) (vs us : Vals) (rfl_ dfl : Flags) (pre : Vals)
    (seen : List Nat) (pos : Nat) (hpos : pos = pre.length + 1)
    (hf : fieldsOKM pos fs = true) (hv : hasTypesM fs vs = true) (hne : valsOKM fs vs = true)
    (hnd : (fieldNums pos fs).Nodup) (hseen : ∀ n ∈ fieldNums pos fs, n ∉ seen)
    (hfind : ∀ num, num ∉ seen → lookupField cfsAll num = lookupField.go num (fieldsOf pos fs) pre.length none)
    (hzd : dfl.zigzag = false) (hrel : Rel1M fs us vs)
    (hlen : (encodeRepeated (fieldsOf pos fs) vs rfl_).length < 2 ^ 64) :
    ∃ ws, Seg cfsAll dfl (encodeRepeated (fieldsOf pos fs) vs rfl_) (vapp pre us) (vapp pre ws)
      ∧ AgrFM fs ws vs := by
  cases fs with
  | nil =>
    cases vs with
    | cons => simp [hasTypesM] at hv
    | nil =>
      cases us with
      | cons => simp [Rel1M] at hrel
      | nil => exact ⟨.nil, by simpa [fieldsOf, encodeRepeated] using Seg.nil _ _ _, AgrFM.rfl' _ _⟩
  | cons name tag emb t rest =>
    cases vs with
    | nil => simp [hasTypesM] at hv
    | cons v vs =>
      cases us with
      | nil => simp [Rel1M] at hrel
      | cons u us =>
      simp only [fieldsOKM, Bool.and_eq_true] at hf
      simp only [hasTypesM, Bool.and_eq_true] at hv
      simp only [valsOKM, Bool.and_eq_true] at hne
      simp only [Rel1M] at hrel
      obtain ⟨⟨hta, hty⟩, hrest⟩ := hf
      simp only [fieldNums, List.nodup_cons] at hnd
      simp only [fieldNums, List.mem_cons, forall_eq_or_imp] at hseen
      have hcn := cnums_fieldsOfM rest (pos + 1) hrest
      have hseen' : ∀ n ∈ fieldNums (pos + 1) rest, n ∉ (fieldOpt pos tag).number :: seen := by
        intro n hn
        simp only [List.mem_cons, not_or]
        exact ⟨fun e => hnd.1 (e ▸ hn), hseen.2 n hn⟩
      have hpos' : ∀ x : Val, pos + 1 = (vsnoc pre x).length + 1 := by intro x; rw [vsnoc_length, hpos]
      by_cases hmp : isMap t = true
      · cases t <;> simp only [isMap] at hmp <;> try (exact absurd hmp (by decide))
        rename_i kt vt
        simp only [isRep, isMap, Bool.or_true, if_true] at hrel
        obtain ⟨hu, hrel⟩ := hrel
        subst hu
        simp only [tagAgreeM, isMap, if_true] at hta
        have hnum := tagAgreeMap_num hta
        obtain ⟨hk, hvs, hvm, hvt⟩ := mapTy_parts hty
        rw [fieldsOf_cons_map pos name tag emb kt vt rest hta hty] at hlen hfind ⊢
        have hfind' := find_tail cfsAll seen _ _ _ _ _ _ _ hfind
        have hlk := find_head cfsAll seen _ _ _ _ _ _ _ hfind hseen.1 (by rw [hcn]; exact hnd.1)
        simp only [encodeRepeated, List.length_append] at hlen ⊢
        cases v <;> simp only [hasTypeM] at hv <;> try (exact absurd hv.1 (by decide))
        rename_i kvs
        simp only [valOKM, Bool.and_eq_true] at hne
        obtain ⟨⟨⟨hnonempty, hdist⟩, hvals⟩, hnerest⟩ := hne
        generalize fieldOpt pos tag = o at *
        -- a non-empty map: the codec writes the entries, no marker
        have henc : ∀ fl, encode (mapC o.number kt vt) (.map kvs) fl
            = encodeMap (encodeTag o.number .varlen) (codecOf kt) (codecOf vt) (isEmb kt) (isEmb vt) kvs := by
          intro fl
          rw [encode_mapC]
          match kvs, hnonempty, hv.1 with
          | .nil, h, _ => simp [nonEmptyVals] at h
          | .cons _ .nil, _, h => simp [hasTypeMapM] at h
          | .cons key (.cons val r), _, _ =>
            have hne' : (encodeMap (encodeTag o.number .varlen) (codecOf kt) (codecOf vt) (isEmb kt) (isEmb vt)
                (.cons key (.cons val r))).isEmpty = false := by
              rw [encodeMap_cons]
              have := encodeTag_ne_nil o.number .varlen
              cases h : encodeTag o.number .varlen with
              | nil => exact absurd h this
              | cons => rfl
            rw [hne']; rfl
        rw [henc] at hlen ⊢
        have hstep : ∀ key val, hasTypeM kt key = true → hasTypeM vt val = true → valOKM vt val = true →
            (entryBytes kt vt key val).length < 2 ^ 64 →
            ∃ v', (∃ f, decodeU f (entryC kt vt) (entryBytes kt vt key val) (zeroOfCodec (entryC kt vt)) {}
                = .ok (.struct (.cons key (.cons v' .nil)), (entryBytes kt vt key val).length)) ∧ AgrM vt v' val := by
          intro key val hkv hvv hvok hel
          refine dec_entry kt vt hk hvt hvs hvm key val hkv hvv hvok ?_ hel
          intro w hpw hwl
          have hcf := codecFor_nofixed vt { number := 2 } rfl
          have := dec_oneM vt { number := 2 } val wz { toplevel := false } hvt hvs hvm hvv hvok (optOK_untagged vt 2)
            rfl rfl w hpw (by rw [hcf]; exact hwl)
          rw [hcf] at this
          exact this
        obtain ⟨ds, hsegE, hmagr⟩ := dec_entries cfsAll dfl kt vt hk o.number (mzz tag) pre us (by omega) hlk hstep kvs []
          hv.1 hvals hdist (by intro p hp; simp at hp) (by omega)
        simp only [accMap, List.nil_append] at hsegE
        obtain ⟨ws, hseg, hagr⟩ := dec_fieldsRM cfsAll rest vs us _ dfl (vsnoc pre (accMap ds)) (_ :: seen) (pos + 1)
          (hpos' _) hrest hv.2 hnerest hnd.2 hseen' (by rw [vsnoc_length]; exact hfind') hzd hrel
          (Nat.lt_of_le_of_lt (Nat.le_add_left _ _) hlen)
        refine ⟨.cons (accMap ds) ws, ?_, AgrFM.cons (map_agr kt vt ds kvs hmagr hnonempty) hagr⟩
        rw [vapp_vsnoc, vapp_vsnoc] at hseg
        exact hsegE.append hseg
      have hnm : isMap t = false := by simpa using hmp
      rw [tagAgreeM_notMap _ _ _ hnm] at hta
      have hnum := tagAgree_num hta
      have hopt := tagAgree_optOK hta
      by_cases hsl : isSlice t = true
      · cases t <;> simp only [isSlice] at hsl <;> try (exact absurd hsl (by decide))
        rename_i e
        simp only [isRep, isSlice, Bool.true_or, if_true] at hrel
        obtain ⟨hu, hrel⟩ := hrel
        subst hu
        have hty' := hty
        simp only [tyOKM, elemTy, Bool.and_eq_true, Bool.not_eq_true'] at hty'
        simp only [optOK, Bool.and_eq_true, Bool.not_eq_true'] at hopt
        obtain ⟨⟨⟨hep, hes⟩, hem⟩, hety⟩ := hty'
        rw [fieldsOf_cons_sliceM pos name tag emb e rest hta hty] at hlen hfind ⊢
        have hfind' := find_tail cfsAll seen _ _ _ _ _ _ _ hfind
        have hlk := find_head cfsAll seen _ _ _ _ _ _ _ hfind hseen.1 (by rw [hcn]; exact hnd.1)
        simp only [encodeRepeated, List.length_append] at hlen ⊢
        cases v <;> simp only [hasTypeM] at hv <;> try (exact absurd hv.1 (by decide))
        case nil =>
          simp only [encode, List.nil_append, List.length_nil, Nat.zero_add, Nat.lt_irrefl, if_false] at hlen ⊢
          obtain ⟨ws, hseg, hagr⟩ := dec_fieldsRM cfsAll rest vs us rfl_ dfl (vsnoc pre .nil) (_ :: seen) (pos + 1)
            (hpos' _) hrest hv.2 hne.2 hnd.2 hseen' (by rw [vsnoc_length]; exact hfind') hzd hrel hlen
          refine ⟨.cons .nil ws, ?_, AgrFM.cons (AgrM.rfl' _ _) hagr⟩
          rw [vapp_vsnoc, vapp_vsnoc] at hseg
          exact hseg
        case list es =>
          simp only [valOKM] at hne
          simp only [encode] at hlen ⊢
          generalize fieldOpt pos tag = o at *
          have hcf := codecFor_nofixed e o hopt.2
          have hembs : isEmb e = isStructTy e := by
            cases e <;> simp_all [isEmb, isStructTy, isPtr]
          have hstep : ∀ x, hasTypeM e x = true → valOKM e x = true → (encode (codecOf e) x wz).length < 2 ^ 64 →
              ∃ x', (if isStructTy e = true then (codecOf e).wire = .varlen
                      else IsPayload (codecOf e).wire.num (encode (codecOf e) x wz))
                ∧ (∃ f, decodeU f (codecOf e) (encode (codecOf e) x wz) (zeroOfCodec (codecOf e)) {}
                      = .ok (x', (encode (codecOf e) x wz).length))
                ∧ canonical e x' = canonical e x := by
            intro x hx hxne hxl
            have hfs := field_bytesM e o x wz o.number hety hes hem hx (optOK_plain e _ hopt.1 hopt.2 hep)
              (by rw [hopt.1]; rfl) (by omega) (by rw [hcf]; exact hxl)
            have hzc : zeroOfCodec (codecOf e) = zeroOf e := zeroOfCodec_codecOfM e hety hem
            rw [hcf, hembs, show wz.wantzero = true from rfl] at hfs
            rw [hzc]
            cases hpx : payloadM true e o x with
            | some w =>
              obtain ⟨x', hsh, hdec, hagr⟩ := dec_oneM e o x wz {} hety hes hem hx hxne (optOK_plain e _ hopt.1 hopt.2 hep)
                (by rw [hopt.1]; rfl) (by rw [hopt.1]) w hpx (by rw [hcf]; exact hxl)
              rw [hcf, hembs] at hsh
              rw [hcf] at hdec
              exact ⟨x', hsh, hdec, hagr⟩
            | none =>
              rw [hpx] at hfs
              simp only [FieldSpec] at hfs
              have hz := absent_agrM e o x true hx hxne hes hem hpx
              rw [← zeroOf_eqM e hety] at hz
              have hst : isStructTy e = true := by
                cases hst : isStructTy e with
                | true => rfl
                | false => exact absurd hpx (payloadM_wz_scalar e _ x hety hx hst hep hes hem)
              have hnil : encode (codecOf e) x wz = [] := by
                apply List.eq_nil_of_length_eq_zero; rw [Lemmas.Proto.size_eq, hfs]
              cases e <;> simp only [isStructTy] at hst <;> try (exact absurd hst (by decide))
              rename_i efs
              refine ⟨zeroOf (.struct efs), by simp [isStructTy, codecOf, Codec.wire], ⟨2, ?_⟩, hz⟩
              rw [hnil]
              simp only [codecOf, zeroOf]
              exact decode_struct_empty 0 _ _ _
          obtain ⟨ds, hsegE, hlagr⟩ := dec_elemsM cfsAll dfl e (codecOf e) o.number (isStructTy e) pre us (by omega) hlk
            hstep es [] hv.1 hne.1 (by omega)
          simp only [accVal, List.nil_append] at hsegE
          obtain ⟨ws, hseg, hagr⟩ := dec_fieldsRM cfsAll rest vs us _ dfl (vsnoc pre (accVal ds)) (_ :: seen) (pos + 1)
            (hpos' _) hrest hv.2 hne.2 hnd.2 hseen' (by rw [vsnoc_length]; exact hfind') hzd hrel
            (Nat.lt_of_le_of_lt (Nat.le_add_left _ _) hlen)
          refine ⟨.cons (accVal ds) ws, ?_, AgrFM.cons (slice_agr false e ds es hlagr).1 hagr⟩
          rw [vapp_vsnoc, vapp_vsnoc] at hseg
          exact hsegE.append hseg
      have hns : isSlice t = false := by simpa using hsl
      have hnr : isRep t = false := by simp [isRep, hns, hnm]
      simp only [hnr, Bool.false_eq_true, if_false] at hrel
      rw [fieldsOf_cons_okM pos name tag emb t rest hta hty hns hnm] at hlen hfind ⊢
      have hfind' := find_tail cfsAll seen _ _ _ _ _ _ _ hfind
      simp only [encodeRepeated] at hlen ⊢
      obtain ⟨ws, hseg, hagr⟩ := dec_fieldsRM cfsAll rest vs us rfl_ dfl (vsnoc pre u) (_ :: seen) (pos + 1)
        (hpos' _) hrest hv.2 hne.2 hnd.2 hseen' (by rw [vsnoc_length]; exact hfind') hzd hrel.2 hlen
      refine ⟨.cons u ws, ?_, AgrFM.cons hrel.1 hagr⟩
      rw [vapp_vsnoc, vapp_vsnoc] at hseg
      exact hseg
end

/-! ## Part 3: the statements -/

/-- **message level, general form** on `tyOKM`: `unmarshalU` succeeds on what `marshal` wrote and returns a value that
agrees with the original in `canonical` form; covers the empty encoding. -/
theorem unmarshal_marshal_map_agr (fs : Fields) (vs : Vals)
    (hty : tyOKM (.struct fs) = true) (hv : hasTypesM fs vs = true) (hne : valsOKM fs vs = true)
    (hlen : (marshal (.struct fs) (.struct vs)).length < 2 ^ 64) :
    ∃ v', unmarshalU (.struct fs) (marshal (.struct fs) (.struct vs)) = .ok v'
      ∧ AgrM (.struct fs) v' (.struct vs) := by
  have hc : codecFor (.struct fs) { number := 0 } = codecOf (.struct fs) := by simp only [codecFor]
  have hm : marshal (.struct fs) (.struct vs)
      = encode (codecFor (.struct fs) { number := 0 }) (.struct vs) { toplevel := true, inline := true } := by
    rw [hc]; rfl
  rw [hm] at hlen ⊢
  have hfs := field_bytesM (.struct fs) { number := 0 } (.struct vs) { toplevel := true, inline := true } 1 hty rfl rfl
    (by simpa [hasTypeM] using hv) rfl rfl (by decide) hlen
  cases hp : payloadM false (.struct fs) { number := 0 } (.struct vs) with
  | none =>
    rw [show ({ toplevel := true, inline := true } : Flags).wantzero = false from rfl, hp] at hfs
    simp only [FieldSpec] at hfs
    have hnil : encode (codecFor (.struct fs) { number := 0 }) (.struct vs) { toplevel := true, inline := true } = [] := by
      apply List.eq_nil_of_length_eq_zero; rw [Lemmas.Proto.size_eq, hfs]
    have hz := absent_agrM (.struct fs) { number := 0 } (.struct vs) false (by simpa [hasTypeM] using hv)
      (by simpa [valOKM] using hne) rfl rfl hp
    rw [← zeroOf_eqM _ hty] at hz
    exact ⟨zeroOf (.struct fs), by rw [hnil]; rfl, hz⟩
  | some w =>
    rw [show ({ toplevel := true, inline := true } : Flags).wantzero = false from rfl, hp] at hfs
    simp only [FieldSpec] at hfs
    obtain ⟨v', _, hdec, hagr⟩ := dec_oneM (.struct fs) { number := 0 } (.struct vs) { toplevel := true, inline := true }
      { toplevel := true } hty rfl rfl (by simpa [hasTypeM] using hv) (by simpa [valOKM] using hne) rfl rfl rfl w hp hlen
    refine ⟨v', ?_, hagr⟩
    apply unmarshal_ok
    · intro h
      have := Lemmas.Proto.size_eq (codecFor (.struct fs) { number := 0 }) (.struct vs) { toplevel := true, inline := true }
      rw [h] at this
      simp only [List.length_nil] at this
      omega
    · rw [← hc]; exact hdec

/-- **Part 3 (C03 with map fields)**: `Unmarshal(Marshal(v))` reproduces `v` up to `canonical`.
Universe `tyOKM` and exclusions exactly as in `decode_marshal_map_partial`: everything `unmarshal_marshal_partial`
covers, plus map fields `map[K]V` (`K` bool / int int32 int64 uint uint32 uint64 / string; `V` scalar, string,
`[]byte`, message, `*T`) anywhere in the message; maps non-nil, non-empty, keys pairwise distinct under `Val.show`
(`valOKM`); nil pointers and all-default messages as map values are inside. -/
theorem unmarshal_marshal_map_partial (fs : Fields) (v : Val)
    (hty : tyOKM (.struct fs) = true) (hv : hasTypeM (.struct fs) v = true) (hne : valOKM (.struct fs) v = true)
    (hlen : (marshal (.struct fs) v).length < 2 ^ 64) :
    ∃ v', unmarshalU (.struct fs) (marshal (.struct fs) v) = .ok v'
      ∧ canonical (.struct fs) v' = canonical (.struct fs) v := by
  cases v <;> simp only [hasTypeM] at hv <;> try (exact absurd hv (by decide))
  rename_i vs
  exact unmarshal_marshal_map_agr fs vs hty hv (by simpa [valOKM] using hne) hlen

/-- **Part 3, message passed by pointer** (`b, _ := proto.Marshal(&msg); var p *Msg; proto.Unmarshal(b, &p)`) -/
theorem unmarshal_marshal_map_ptrmsg_partial (fs : Fields) (v : Val)
    (hty : tyOKM (.ptr (.struct fs)) = true) (hv : hasTypeM (.ptr (.struct fs)) (.ptr v) = true)
    (hne : valOKM (.ptr (.struct fs)) (.ptr v) = true)
    (hlen : (marshal (.ptr (.struct fs)) (.ptr v)).length < 2 ^ 64) :
    ∃ v', unmarshalU (.ptr (.struct fs)) (marshal (.ptr (.struct fs)) (.ptr v)) = .ok v'
      ∧ canonical (.ptr (.struct fs)) v' = canonical (.ptr (.struct fs)) (.ptr v) := by
  have hc : codecFor (.ptr (.struct fs)) { number := 0 } = codecOf (.ptr (.struct fs)) := by simp only [codecFor]
  have hm : marshal (.ptr (.struct fs)) (.ptr v)
      = encode (codecFor (.ptr (.struct fs)) { number := 0 }) (.ptr v) { toplevel := true, inline := true } := by
    rw [hc]; rfl
  rw [hm] at hlen ⊢
  have hne' := hne
  simp only [valOKM, Bool.and_eq_true] at hne'
  have hfs := field_bytesM (.ptr (.struct fs)) { number := 0 } (.ptr v) { toplevel := true, inline := true } 1 hty rfl rfl
    hv rfl rfl (by decide) hlen
  cases hp : payloadM true (.struct fs) { number := 0 } v with
  | none => rw [hp] at hne'; simp at hne'
  | some w =>
    have hp' : payloadM ({ toplevel := true, inline := true } : Flags).wantzero (.ptr (.struct fs)) { number := 0 } (.ptr v)
        = some w := by simp only [payloadM, hp]
    rw [hp'] at hfs
    simp only [FieldSpec] at hfs
    obtain ⟨v', _, hdec, hagr⟩ := dec_oneM (.ptr (.struct fs)) { number := 0 } (.ptr v) { toplevel := true, inline := true }
      { toplevel := true } hty rfl rfl hv hne rfl rfl rfl w hp' hlen
    refine ⟨v', ?_, hagr⟩
    apply unmarshal_ok
    · intro h
      have := Lemmas.Proto.size_eq (codecFor (.ptr (.struct fs)) { number := 0 }) (.ptr v)
        { toplevel := true, inline := true }
      rw [h] at this
      simp only [List.length_nil] at this
      omega
    · rw [← hc]; exact hdec

/-- both decoders on what `Marshal` wrote: the model's `unmarshalU` and the reference `decodeU` succeed and return
values with the same `canonical` form (that of the original) -/
theorem unmarshal_decode_marshal_map (fs : Fields) (v : Val)
    (hty : tyOKM (.struct fs) = true) (hv : hasTypeM (.struct fs) v = true) (hne : valOKM (.struct fs) v = true)
    (hlen : (marshal (.struct fs) v).length < 2 ^ 64) :
    ∃ v' v'', unmarshalU (.struct fs) (marshal (.struct fs) v) = .ok v'
      ∧ Spec.Protobuf.decode (.struct fs) (marshal (.struct fs) v) = some v''
      ∧ canonical (.struct fs) v' = canonical (.struct fs) v'' := by
  obtain ⟨v', h1, h2⟩ := unmarshal_marshal_map_partial fs v hty hv hne hlen
  have h3 := decode_marshal_map_partial fs v hty hv hne hlen
  cases hd : Spec.Protobuf.decode (.struct fs) (marshal (.struct fs) v) with
  | none => rw [hd] at h3; simp at h3
  | some v'' =>
    rw [hd] at h3
    simp only [Option.map_some, Option.some.injEq] at h3
    exact ⟨v', v'', h1, rfl, by rw [h2, h3]⟩

end Enc.Lemmas.ProtoMap
