import Enc.Lemmas.JsonFields
/-!
# Field resolution, part 4 (specification side): when shadowing explains every collision, the dominant fields of
# encoding/json are the unshadowed candidates

`visible fs`: the candidates not hidden by a direct field (of the same JSON name) of an enclosing struct.
If their names are pairwise distinct, they are exactly the dominant candidates (`stdFields_eq_visible`).
-/
namespace Enc.Lemmas.JsonFields
open Enc Enc.Model.Json.Fields Enc.Spec.Json.Fields List

/-! ### index sequences identify candidates -/

mutual
theorem cands_paths_ne : ∀ (fs : Fields) (i : Nat), (cands fs i).Pairwise (fun a b => a.path ≠ b.path)
  | .nil, _ => by simp [cands]
  | .cons g tag an ex ty rest, i => by
    have h1 := cands_paths_ne rest (i + 1)
    have h2 := (cands_sorted rest (i + 1)).2
    rw [cands]
    cases hrole : role g tag an ex ty.isStruct with
    | ignored => simpa using h1
    | embedded =>
      simp only
      refine List.pairwise_append.mpr ⟨?_, h1, ?_⟩
      · rw [List.pairwise_map]
        exact (candsOf_paths_ne ty).imp (fun {a b} h => by simpa using h)
      · intro a ha b hb
        obtain ⟨c, _, rfl⟩ := List.mem_map.mp ha
        obtain ⟨k, p, hp, hk⟩ := h2 b hb
        rw [hp]
        simp only [ne_eq, List.cons.injEq, not_and]
        intro h; omega
    | candidate n t o s =>
      simp only [List.singleton_append]
      refine List.pairwise_cons.mpr ⟨?_, h1⟩
      intro b hb
      obtain ⟨k, p, hp, hk⟩ := h2 b hb
      rw [hp]
      simp only [ne_eq, List.cons.injEq, not_and]
      intro h; omega
theorem candsOf_paths_ne : ∀ (ty : Ty), (candsOf ty).Pairwise (fun a b => a.path ≠ b.path)
  | .leaf => by simp [candsOf]
  | .ptrLeaf => by simp [candsOf]
  | .struct fs => by rw [candsOf]; exact cands_paths_ne fs 0
  | .ptrStruct fs => by rw [candsOf]; exact cands_paths_ne fs 0
end

theorem candidates_nodup (fs : Fields) : (candidates fs).Nodup :=
  (cands_paths_ne fs 0).imp (fun {a b} h e => h (by rw [e]))

/-- a sublist of a duplicate-free list is the filter by membership -/
theorem filter_eq_of_sublist {α} (p : α → Bool) : ∀ {l' l : List α}, l' <+ l → l.Nodup →
    (∀ x ∈ l, p x = true ↔ x ∈ l') → l.filter p = l'
  | _, _, .slnil, _, _ => rfl
  | l', _, .cons (l₂ := l) a hs, hn, hp => by
    rw [List.nodup_cons] at hn
    have ha : p a = false := by
      cases h : p a with
      | false => rfl
      | true => exact absurd (hs.subset ((hp a (List.mem_cons_self ..)).mp h)) hn.1
    rw [List.filter_cons, ha]
    simp only [Bool.false_eq_true, if_false]
    exact filter_eq_of_sublist p hs hn.2 (fun x hx => hp x (List.mem_cons_of_mem _ hx))
  | _, _, .cons_cons (l₁ := l') (l₂ := l) a hs, hn, hp => by
    rw [List.nodup_cons] at hn
    have ha : p a = true := (hp a (List.mem_cons_self ..)).mpr (List.mem_cons_self ..)
    rw [List.filter_cons, ha]
    simp only [if_true]
    congr 1
    refine filter_eq_of_sublist p hs hn.2 (fun x hx => ?_)
    rw [hp x (List.mem_cons_of_mem _ hx), List.mem_cons]
    constructor
    · rintro (rfl | h)
      · exact absurd hx hn.1
      · exact h
    · exact Or.inr

/-! ### the unshadowed candidates -/

mutual
theorem visibleFrom_sublist : ∀ (dn : List Bytes) (fs : Fields) (i : Nat), visibleFrom dn fs i <+ cands fs i
  | _, .nil, _ => by simp [visibleFrom, cands]
  | dn, .cons g tag an ex ty rest, i => by
    rw [visibleFrom, cands]
    refine List.Sublist.append ?_ (visibleFrom_sublist dn rest (i + 1))
    cases role g tag an ex ty.isStruct with
    | ignored => exact List.Sublist.refl _
    | embedded => exact (List.filter_sublist.trans (visibleOf_sublist ty)).map _
    | candidate n t o s => exact List.Sublist.refl _
theorem visibleOf_sublist : ∀ (ty : Ty), visibleOf ty <+ candsOf ty
  | .leaf => by simp [visibleOf, candsOf]
  | .ptrLeaf => by simp [visibleOf, candsOf]
  | .struct fs => by rw [visibleOf, candsOf]; exact visibleFrom_sublist _ fs 0
  | .ptrStruct fs => by rw [visibleOf, candsOf]; exact visibleFrom_sublist _ fs 0
end

/-- a direct name is the name of an unshadowed candidate of depth 1 -/
theorem mem_directNames (dn : List Bytes) (n : Bytes) : ∀ (fs : Fields) (i : Nat), n ∈ directNames fs →
    ∃ d ∈ visibleFrom dn fs i, d.name = n ∧ d.depth = 1
  | .nil, _, h => by simp [directNames] at h
  | .cons g tag an ex ty rest, i, h => by
    rw [directNames] at h
    rw [visibleFrom]
    rcases List.mem_append.mp h with h | h
    · cases hrole : role g tag an ex ty.isStruct with
      | ignored => rw [hrole] at h; simp at h
      | embedded => rw [hrole] at h; simp at h
      | candidate n' t o s =>
        rw [hrole] at h
        simp only [List.mem_singleton] at h
        subst h
        exact ⟨_, List.mem_append_left _ (List.mem_singleton.mpr rfl), rfl, rfl⟩
    · obtain ⟨d, hd, h1, h2⟩ := mem_directNames dn n rest (i + 1) h
      exact ⟨d, List.mem_append_right _ hd, h1, h2⟩

mutual
/-- every candidate has an unshadowed one of its name that is itself or strictly shallower — or its name is a direct
name `dn` of the struct being listed and it lies below an embedded field -/
theorem visible_repr : ∀ (dn : List Bytes) (fs : Fields) (i : Nat), ∀ c ∈ cands fs i,
    (∃ v ∈ visibleFrom dn fs i, v.name = c.name ∧ (v = c ∨ v.depth < c.depth)) ∨ (c.name ∈ dn ∧ 2 ≤ c.depth)
  | _, .nil, _, c, hc => by simp [cands] at hc
  | dn, .cons g tag an ex ty rest, i, c, hc => by
    rw [cands] at hc
    rw [visibleFrom]
    rcases List.mem_append.mp hc with hc | hc
    · cases hrole : role g tag an ex ty.isStruct with
      | ignored => rw [hrole] at hc; simp at hc
      | candidate n t o s =>
        rw [hrole] at hc
        simp only [List.mem_singleton] at hc
        subst hc
        exact Or.inl ⟨_, List.mem_append_left _ (List.mem_singleton.mpr rfl), rfl, Or.inl rfl⟩
      | embedded =>
        rw [hrole] at hc
        simp only at hc ⊢
        obtain ⟨c', hc', rfl⟩ := List.mem_map.mp hc
        obtain ⟨v', hv', hname, hrel⟩ := visibleOf_repr ty c' hc'
        by_cases hdn : c'.name ∈ dn
        · right
          refine ⟨hdn, ?_⟩
          have hne : ∃ k p, c'.path = k :: p := by
            cases ty with
            | leaf => simp [candsOf] at hc'
            | ptrLeaf => simp [candsOf] at hc'
            | struct fs => rw [candsOf] at hc'; obtain ⟨k, p, h, _⟩ := (cands_sorted fs 0).2 c' hc'; exact ⟨k, p, h⟩
            | ptrStruct fs => rw [candsOf] at hc'; obtain ⟨k, p, h, _⟩ := (cands_sorted fs 0).2 c' hc'; exact ⟨k, p, h⟩
          obtain ⟨k, p, hp⟩ := hne
          simp [Cand.depth, hp]
        · left
          refine ⟨{ v' with path := i :: v'.path, viaPtr := ty.isPtr || v'.viaPtr }, ?_, hname, ?_⟩
          · apply List.mem_append_left
            apply List.mem_map.mpr
            refine ⟨v', List.mem_filter.mpr ⟨hv', ?_⟩, rfl⟩
            rw [hname]
            simpa using hdn
          · rcases hrel with rfl | hlt
            · exact Or.inl rfl
            · right
              simp only [Cand.depth, List.length_cons] at hlt ⊢
              omega
    · rcases visible_repr dn rest (i + 1) c hc with ⟨v, hv, h⟩ | h
      · exact Or.inl ⟨v, List.mem_append_right _ hv, h⟩
      · exact Or.inr h
theorem visibleOf_repr : ∀ (ty : Ty), ∀ c ∈ candsOf ty,
    ∃ v ∈ visibleOf ty, v.name = c.name ∧ (v = c ∨ v.depth < c.depth)
  | .leaf, c, hc => by simp [candsOf] at hc
  | .ptrLeaf, c, hc => by simp [candsOf] at hc
  | .struct fs, c, hc => by
    rw [candsOf] at hc
    rw [visibleOf]
    rcases visible_repr (directNames fs) fs 0 c hc with h | ⟨hn, hd⟩
    · exact h
    · obtain ⟨d, hd', h1, h2⟩ := mem_directNames (directNames fs) c.name fs 0 hn
      exact ⟨d, hd', h1, Or.inr (by omega)⟩
  | .ptrStruct fs, c, hc => by
    rw [candsOf] at hc
    rw [visibleOf]
    rcases visible_repr (directNames fs) fs 0 c hc with h | ⟨hn, hd⟩
    · exact h
    · obtain ⟨d, hd', h1, h2⟩ := mem_directNames (directNames fs) c.name fs 0 hn
      exact ⟨d, hd', h1, Or.inr (by omega)⟩
end

/-- when the unshadowed candidates have pairwise distinct names they are the dominant ones -/
theorem dominant_iff_visible (fs : Fields) (hv : ((visible fs).map (·.name)).Nodup) :
    ∀ c ∈ candidates fs, dominant (candidates fs) c = true ↔ c ∈ visible fs := by
  have hsub : visible fs <+ candidates fs := visibleFrom_sublist _ fs 0
  have hrep : ∀ c ∈ candidates fs, ∃ v ∈ visible fs, v.name = c.name ∧ (v = c ∨ v.depth < c.depth) :=
    visibleOf_repr (.struct fs)
  intro c hc
  constructor
  · intro hdom
    obtain ⟨v, hv', hname, hrel⟩ := hrep c hc
    rcases hrel with rfl | hlt
    · exact hv'
    · exfalso
      unfold dominant at hdom
      have := List.all_eq_true.mp hdom v (hsub.subset hv')
      have hp : (v.path == c.path) = false := by
        apply beq_false_of_ne
        intro e
        simp only [Cand.depth, e] at hlt
        omega
      have hn : (v.name != c.name) = false := by simp [hname]
      have hb : beats c v = false := by
        simp only [beats, Bool.or_eq_false_iff, decide_eq_false_iff_not, Bool.and_eq_false_iff, beq_eq_false_iff_ne]
        constructor
        · omega
        · left; left; omega
      simp [hp, hn, hb] at this
  · intro hvis
    unfold dominant
    rw [List.all_eq_true]
    intro d hd
    by_cases hdn : d.name = c.name
    · obtain ⟨v, hv', hname, hrel⟩ := hrep d hd
      have hvc : v = c := eq_of_nodup_map (·.name) _ hv v hv' c hvis (hname.trans hdn)
      subst hvc
      rcases hrel with rfl | hlt
      · simp
      · have : beats v d = true := by simp [beats, hlt]
        simp [this]
    · have : (d.name != c.name) = true := by simpa using hdn
      simp [this]

/-- if shadowing explains every collision, encoding/json serialises exactly the unshadowed candidates -/
theorem stdFields_eq_visible (fs : Fields) (hv : ((visible fs).map (·.name)).Nodup) :
    stdFields fs = (visible fs).map Cand.field := by
  rw [stdFields_eq_filter]
  congr 1
  exact filter_eq_of_sublist _ (visibleFrom_sublist _ fs 0) (candidates_nodup fs) (dominant_iff_visible fs hv)

end Enc.Lemmas.JsonFields
