import Enc.Lemmas.ProtoRoundTripField
/-!
# C03, value level, preparations: zero values of codecs, the scalar dispatch

  * `zeroOf_eq`, `zeroOfCodec_codecFor`   the three notions of "zero value" (model by type, reference by type, model by
                                          codec) coincide on the universe `tyOK`
  * `dec_scalar`                          a written scalar field of any type of the universe: complete payload, decoded
                                          back to the value
-/
set_option linter.unusedSimpArgs false
set_option linter.unusedVariables false
namespace Enc.Lemmas.ProtoRoundTrip
open Enc Enc.Model.Proto Enc.Lemmas.ProtoWire Enc.Lemmas.ProtoDecode
open Enc.Spec.Protobuf (FieldOpt fieldOpt canonical WireVal encRec canonTy)

mutual
theorem zeroOf_eq (t : Ty) (ht : tyOK t = true) : zeroOf t = Spec.Protobuf.zeroOf t := by
  cases t <;> simp only [tyOK] at ht <;> try (exact absurd ht (by decide))
  case struct fs =>
    simp only [Bool.and_eq_true] at ht
    simp only [zeroOf, Spec.Protobuf.zeroOf, zeroFields_eq fs 1 ht.1]
  case arr n e =>
    have := isByte_eq e ht; subst this
    simp only [zeroOf, Spec.Protobuf.zeroOf]
  all_goals simp only [zeroOf, Spec.Protobuf.zeroOf]
theorem zeroFields_eq (fs : Fields) (pos : Nat) (hf : fieldsOK pos fs = true) :
    zeroFields fs = Spec.Protobuf.zeroFields fs := by
  cases fs with
  | nil => simp only [zeroFields, Spec.Protobuf.zeroFields]
  | cons name tag emb t rest =>
    simp only [fieldsOK, Bool.and_eq_true] at hf
    simp only [zeroFields, Spec.Protobuf.zeroFields, zeroOf_eq t hf.1.2, zeroFields_eq rest (pos + 1) hf.2]
end

theorem codecFor_ptr (t' : Ty) (o : FieldOpt) (h : ptrTarget t' = true) :
    codecFor (.ptr t') o = .ptr (codecFor t' o) := by
  cases t' with
  | int k => cases k <;> simp [codecFor, codecOf] <;> split <;> rfl
  | ptr t2 => simp [ptrTarget] at h
  | _ => simp [codecFor, codecOf]

mutual
theorem zeroOfCodec_codecFor (t : Ty) (o : FieldOpt) (ht : tyOK t = true) : zeroOfCodec (codecFor t o) = zeroOf t := by
  cases t <;> simp only [tyOK] at ht <;> try (exact absurd ht (by decide))
  case struct fs =>
    simp only [Bool.and_eq_true] at ht
    simp only [codecFor, codecOf, zeroOfCodec, zeroOf, zeroCFields_fieldsOf fs 1 ht.1]
  case int k =>
    cases k <;> simp only [supportedKind] at ht <;> try (exact absurd ht (by decide))
    all_goals (simp only [codecFor, codecOf]; try split) <;> simp only [zeroOfCodec, zeroOf]
  case ptr t' =>
    simp only [Bool.and_eq_true] at ht
    simp only [codecFor_ptr t' o ht.1, zeroOfCodec, zeroOf]
  case slice e =>
    have : codecFor (.slice e) o = codecOf (.slice e) := rfl
    rw [this]
    cases e with
    | int k => cases k <;> simp only [codecOf, zeroOfCodec, zeroOf]
    | _ => simp only [codecOf, zeroOfCodec, zeroOf]
  case arr n e =>
    have := isByte_eq e ht; subst this
    simp only [codecFor, codecOf, zeroOfCodec, zeroOf]
  all_goals simp only [codecFor, codecOf, zeroOfCodec, zeroOf]
theorem zeroCFields_fieldsOf (fs : Fields) (pos : Nat) (hf : fieldsOK pos fs = true) :
    zeroOfCodec.zeroCFields (fieldsOf pos fs) = zeroFields fs := by
  cases fs with
  | nil => simp only [fieldsOf, zeroOfCodec.zeroCFields, zeroFields]
  | cons name tag emb t rest =>
    simp only [fieldsOK, Bool.and_eq_true] at hf
    obtain ⟨⟨hta, hty⟩, hrest⟩ := hf
    by_cases hsl : isSlice t = true
    · cases t <;> simp only [isSlice] at hsl <;> try (exact absurd hsl (by decide))
      rename_i e
      rw [fieldsOf_cons_slice pos name tag emb e rest hta hty]
      simp only [zeroOfCodec.zeroCFields, zeroOfCodec, zeroFields, zeroOf, zeroCFields_fieldsOf rest (pos + 1) hrest]
    · have hns : isSlice t = false := by simpa using hsl
      rw [fieldsOf_cons_ok pos name tag emb t rest hta hty hns]
      simp only [zeroOfCodec.zeroCFields, zeroFields, zeroOfCodec_codecFor t _ hty, zeroCFields_fieldsOf rest (pos + 1) hrest]
end

theorem isPayload_bool (b : Bool) : IsPayload Wire.varint.num [if b then 1 else 0] := by
  rw [one_byte]; exact isPayload_varint _

/-- a written scalar field: the data is a complete payload of the codec's wire type, and the codec decodes it back to
the value (to `[]byte{}` for a nil `[]byte` forced onto the wire) -/
theorem dec_scalar (t : Ty) (o : FieldOpt) (v : Val) (efl dfl : Flags)
    (hs : isStructTy t = false) (hnp : isPtr t = false) (hns : isSlice t = false) (ht : tyOK t = true)
    (hv : hasType t v = true) (ho : optOK t o = true)
    (hze : efl.zigzag = o.zigzag) (hzd : dfl.zigzag = o.zigzag)
    (w : WireVal) (hp : payload efl.wantzero t o v = some w)
    (hlen : (encode (codecFor t o) v efl).length < 2 ^ 64) :
    ∃ v', IsPayload (codecFor t o).wire.num (encode (codecFor t o) v efl)
      ∧ (∀ f cur, decodeU (f + 1) (codecFor t o) (encode (codecFor t o) v efl) cur dfl
            = .ok (v', (encode (codecFor t o) v efl).length))
      ∧ Agr efl.wantzero t v' v := by
  have hz : dfl.zigzag = efl.zigzag := by rw [hze, hzd]
  cases t <;> simp only [tyOK] at ht <;> try (exact absurd ht (by decide))
  case struct => exact absurd hs (by simp [isStructTy])
  case ptr => exact absurd hnp (by simp [isPtr])
  case slice => exact absurd hns (by simp [isSlice])
  case bool =>
    cases v <;> simp only [hasType] at hv <;> try (exact absurd hv (by decide))
    rename_i b
    simp only [codecFor, codecOf] at hlen ⊢
    simp only [payload] at hp
    split at hp
    · rename_i hw
      refine ⟨.bool b, ?_, fun f cur => decode_encode_bool b efl dfl cur f hw, Agr.rfl' _ _ _⟩
      simp only [codecFor, codecOf, encode, hw, if_true, Codec.wire]
      exact isPayload_bool b
    · cases hp
  case int k =>
    cases v <;> simp only [hasType] at hv <;> try (exact absurd hv (by decide))
    rename_i i
    simp only [payload] at hp
    split at hp
    · rename_i hw
      refine ⟨.int i, ?_, ?_, Agr.rfl' _ _ _⟩
      · cases k <;> simp only [supportedKind] at ht <;> try (exact absurd ht (by decide))
        all_goals (simp only [codecFor, codecOf]; try split) <;> simp only [encode, hw, if_true, Codec.wire]
        all_goals first
          | exact isPayload_varint _
          | exact isPayload_fixed32 _
          | exact isPayload_fixed64 _
      · intro f cur
        cases k <;> simp only [supportedKind] at ht <;> try (exact absurd ht (by decide))
        case int =>
          obtain ⟨h1, h2⟩ := inRange_signed _ i (by simp) hv
          simp only [codecFor, codecOf]
          exact decode_encode_int _ (.inl rfl) i efl dfl cur f hz h1 h2 hw
        case i64 =>
          obtain ⟨h1, h2⟩ := inRange_signed _ i (by simp) hv
          simp only [codecFor]
          split
          · exact decode_encode_sfixed64 i efl dfl cur f h1 h2 hw
          · exact decode_encode_int _ (.inr rfl) i efl dfl cur f hz h1 h2 hw
        case i32 =>
          have := inRange_spec _ i hv
          simp only [IntKind.signed, IntKind.bits, if_true, Nat.reduceSub] at this
          simp only [codecFor]
          split
          · exact decode_encode_sfixed32 i efl dfl cur f this.1 this.2 hw
          · exact decode_encode_int32 i efl dfl cur f hz this.1 this.2 hw
        case uint =>
          obtain ⟨h1, h2⟩ := inRange_unsigned _ i (by simp) hv
          simp only [codecFor, codecOf]
          exact decode_encode_uint _ (.inl rfl) i efl dfl cur f h1 h2 hw
        case u64 =>
          obtain ⟨h1, h2⟩ := inRange_unsigned _ i (by simp) hv
          simp only [codecFor]
          split
          · exact decode_encode_fixed64 i efl dfl cur f h1 h2 hw
          · exact decode_encode_uint _ (.inr rfl) i efl dfl cur f h1 h2 hw
        case u32 =>
          obtain ⟨h1, h2⟩ := inRange_u32 i hv
          simp only [codecFor]
          split
          · exact decode_encode_fixed32 i efl dfl cur f h1 h2 hw
          · exact decode_encode_uint32 i efl dfl cur f h1 h2 hw
    · cases hp
  case f32 =>
    cases v <;> simp only [hasType, decide_eq_true_eq] at hv <;> try (exact absurd hv (by decide))
    rename_i b
    simp only [codecFor, codecOf] at hlen ⊢
    simp only [payload] at hp
    split at hp
    · rename_i hw
      refine ⟨.float b, ?_, fun f cur => decode_encode_float32 b efl dfl cur f hv hw, Agr.rfl' _ _ _⟩
      simp only [codecFor, codecOf, encode, hw, if_true, Codec.wire]
      exact isPayload_fixed32 _
    · cases hp
  case f64 =>
    cases v <;> simp only [hasType, decide_eq_true_eq] at hv <;> try (exact absurd hv (by decide))
    rename_i b
    simp only [codecFor, codecOf] at hlen ⊢
    simp only [payload] at hp
    split at hp
    · rename_i hw
      refine ⟨.float b, ?_, fun f cur => decode_encode_float64 b efl dfl cur f hv hw, Agr.rfl' _ _ _⟩
      simp only [codecFor, codecOf, encode, hw, if_true, Codec.wire]
      exact isPayload_fixed64 _
    · cases hp
  case str =>
    cases v <;> simp only [hasType] at hv <;> try (exact absurd hv (by decide))
    rename_i s
    simp only [codecFor, codecOf] at hlen ⊢
    simp only [payload] at hp
    split at hp
    · rename_i hw
      have hsl : s.length < 2 ^ 64 := by
        simp only [codecFor, codecOf, encode, hw, if_true, List.length_append] at hlen; omega
      refine ⟨.str s, ?_, fun f cur => decode_encode_string s efl dfl cur f hsl hw, Agr.rfl' _ _ _⟩
      simp only [codecFor, codecOf, encode, hw, if_true, Codec.wire]
      exact isPayload_varlen s hsl
    · cases hp
  case bytes =>
    cases v <;> simp only [hasType] at hv <;> try (exact absurd hv (by decide))
    case str s =>
      simp only [codecFor, codecOf] at hlen ⊢
      have hsl : s.length < 2 ^ 64 := by
        simp only [codecFor, codecOf, encode, List.length_append] at hlen; omega
      refine ⟨.str s, ?_, fun f cur => decode_encode_bytes s efl dfl cur f hsl, Agr.rfl' _ _ _⟩
      simp only [codecFor, codecOf, encode, Codec.wire]
      exact isPayload_varlen s hsl
    case nil =>
      simp only [codecFor, codecOf] at hlen ⊢
      simp only [payload] at hp
      split at hp
      · rename_i hw
        refine ⟨.str [], ?_, fun f cur => decode_encode_bytes_nil efl dfl cur f hw, ?_⟩
        · simp only [codecFor, codecOf, encode, hw, if_true, Codec.wire]
          exact isPayload_varlen [] (by simp)
        · exact ⟨by simp [canonical, canonTy], by simp [hw]⟩
      · cases hp
  case arr n e =>
    have := isByte_eq e ht; subst this
    cases v <;> simp only [hasType, Bool.and_eq_true, decide_eq_true_eq] at hv <;> try (exact absurd hv (by decide))
    rename_i s
    obtain ⟨_, hv⟩ := hv
    subst hv
    simp only [codecFor, codecOf] at hlen ⊢
    simp only [payload] at hp
    split at hp
    · rename_i hw
      have hw' : (efl.wantzero || !isZeroBytes s) = true := by rw [Bool.or_comm]; exact hw
      have hsl : s.length < 2 ^ 64 := by
        simp only [encode, hw', if_true, fixLen_self, List.length_append] at hlen; omega
      refine ⟨.str s, ?_, fun f cur => decode_encode_byteArray s efl dfl cur f hsl hw', Agr.rfl' _ _ _⟩
      simp only [encode, hw', if_true, Codec.wire, fixLen_self]
      exact isPayload_varlen s hsl
    · cases hp
end Enc.Lemmas.ProtoRoundTrip
