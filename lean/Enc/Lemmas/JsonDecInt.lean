import Enc.Model.Json.DecScalar
import Enc.Spec.Json.StdDec
import Enc.Lemmas.JsonNumber
import Enc.Lemmas.JsonWs
/-!
# JSON scalar decoders (C02), integers: `unmarshalInt` stores exactly what encoding/json stores

* `posLoopU_eq`, `posLoopS_eq`, `negLoop_eq` — the three accumulation loops of parseUint / parseInt with their BitVec 64
  overflow tests, as arithmetic over Nat/Int: the loop consumes the maximal digit prefix `dpre b`, returns its value
  `acc a (dpre b)` when that value fits (≤ 2^64-1, ≤ 2^63-1, ≤ 2^63 for the negative branch) and `overflow` otherwise.
* `parseUint_eq`, `parseInt_pos`, `parseInt_neg` — the parsers in closed form (leading-zero test, loop, `.eE` test).
* `core` — closed form against the RFC 8259 `number` production plus the spec's "no `.`/`e`/`E` in the literal" test.
* `unmarshalInt_eq` — MAIN.
-/
set_option linter.unusedSimpArgs false
namespace Enc.Lemmas.JsonDecInt
open Enc Enc.Model.Json
open Enc.Spec.Json (digits digit digit19 natOfDigits int frac exp number digits1 ws isWs intValue nullLit)
open Enc.Lemmas.JsonNumber

/-- digit accumulator from `a` -/
def acc (a : Nat) (ds : Bytes) : Nat := ds.foldl (fun a c => a * 10 + (c.toNat - 0x30)) a

/-- maximal digit prefix -/
def dpre : Bytes → Bytes
  | [] => []
  | c :: r => if digit c then c :: dpre r else []

theorem acc_nil (a : Nat) : acc a [] = a := rfl
theorem acc_cons (a : Nat) (c : UInt8) (r : Bytes) : acc a (c :: r) = acc (a * 10 + (c.toNat - 0x30)) r := by
  unfold acc; exact List.foldl_cons ..
theorem natOfDigits_eq (ds : Bytes) : natOfDigits ds = acc 0 ds := by unfold natOfDigits acc; rfl

theorem acc_ge (a : Nat) (ds : Bytes) : a ≤ acc a ds := by
  induction ds generalizing a with
  | nil => exact Nat.le_refl _
  | cons c r ih => rw [acc_cons]; have := ih (a * 10 + (c.toNat - 0x30)); omega

theorem acc_mono {a b : Nat} (h : a ≤ b) (ds : Bytes) : acc a ds ≤ acc b ds := by
  induction ds generalizing a b with
  | nil => exact h
  | cons c r ih => rw [acc_cons, acc_cons]; exact ih (by omega)

theorem digit_toNat {c : UInt8} (h : digit c = true) : 48 ≤ c.toNat ∧ c.toNat ≤ 57 := by
  simp only [digit, Bool.and_eq_true, decide_eq_true_eq] at h
  have h1 := UInt8.le_iff_toNat_le.mp h.1
  have h2 := UInt8.le_iff_toNat_le.mp h.2
  simp at h1 h2; omega

theorem dpre_append_digits (b : Bytes) : dpre b ++ digits b = b := by
  induction b with
  | nil => rfl
  | cons c r ih =>
    simp only [dpre, digits]
    split
    · simp [ih]
    · rfl

theorem dval_toNat {c : UInt8} (h : digit c = true) : (dval c).toNat = c.toNat - 0x30 := by
  have := digit_toNat h
  simp only [dval, BitVec.toNat_ofNat]; omega

theorem maxU_div : maxU64 / 10#64 = 1844674407370955161#64 := by decide
theorem maxU_toNat : maxU64.toNat = 18446744073709551615 := by decide
theorem maxI_sdiv : maxI64.sdiv 10#64 = 922337203685477580#64 := by decide
theorem minI_sdiv_toInt : (minI64.sdiv 10#64).toInt = -922337203685477580 := by decide
theorem maxI_toNat : maxI64.toNat = 9223372036854775807 := by decide
theorem minI_toInt : minI64.toInt = -9223372036854775808 := by decide
theorem limS_toInt : (922337203685477580#64 : BitVec 64).toInt = 922337203685477580 := by decide
theorem ten_toInt : (10#64 : BitVec 64).toInt = 10 := by decide

theorem toInt_of_lt {v : BitVec 64} (h : v.toNat < 2 ^ 63) : v.toInt = v.toNat := by
  rw [BitVec.toInt_eq_toNat_cond]; split <;> omega

theorem mul10_toNat {v : BitVec 64} (h : v.toNat ≤ 1844674407370955161) : (v * 10#64).toNat = v.toNat * 10 := by
  rw [BitVec.toNat_mul]; simp; omega

/-! ### one step of each loop, as arithmetic -/

theorem stepU_ov (v : BitVec 64) (x : BitVec 64) (hx : x.toNat ≤ 9) :
    (decide (maxU64 / 10#64 < v) || decide (maxU64 - x < v * 10#64)) = decide (2 ^ 64 ≤ v.toNat * 10 + x.toNat) := by
  rw [maxU_div]
  by_cases h1 : v.toNat ≤ 1844674407370955161
  · have hm := mul10_toNat h1
    have e1 : ¬ (1844674407370955161#64 < v) := by rw [BitVec.lt_def]; simp; omega
    have e2 : (maxU64 - x < v * 10#64) ↔ 2 ^ 64 ≤ v.toNat * 10 + x.toNat := by
      rw [BitVec.lt_def, BitVec.toNat_sub, hm, maxU_toNat]; omega
    simp only [e1, e2, decide_false, Bool.false_or]
  · have e1 : (1844674407370955161#64 < v) := by rw [BitVec.lt_def]; simp; omega
    have e3 : 2 ^ 64 ≤ v.toNat * 10 + x.toNat := by omega
    simp only [e1, e3, decide_true, Bool.true_or]

theorem stepU_val (v : BitVec 64) (x : BitVec 64) (h : v.toNat * 10 + x.toNat < 2 ^ 64) :
    (v * 10#64 + x).toNat = v.toNat * 10 + x.toNat := by
  rw [BitVec.toNat_add, mul10_toNat (by omega)]; omega

theorem stepS_ov (v : BitVec 64) (x : BitVec 64) (hv : v.toNat < 2 ^ 63) (hx : x.toNat ≤ 9) :
    ((maxI64.sdiv 10#64).slt v || (maxI64 - x).slt (v * 10#64)) = decide (2 ^ 63 ≤ v.toNat * 10 + x.toNat) := by
  rw [maxI_sdiv, BitVec.slt_eq_decide, BitVec.slt_eq_decide, limS_toInt, toInt_of_lt hv]
  have hs : (maxI64 - x).toNat = 9223372036854775807 - x.toNat := by
    rw [BitVec.toNat_sub, maxI_toNat]; omega
  have hsi : (maxI64 - x).toInt = ((9223372036854775807 - x.toNat : Nat) : Int) := by
    rw [toInt_of_lt (by omega), hs]
  rw [hsi]
  by_cases h1 : v.toNat ≤ 922337203685477580
  · have hm := mul10_toNat (v := v) (by omega)
    have hmi : (v * 10#64).toInt = ((v.toNat * 10 : Nat) : Int) := by
      rw [toInt_of_lt (by omega), hm]
    rw [hmi]
    have e1 : ¬ ((922337203685477580 : Int) < (v.toNat : Int)) := by omega
    have e2 : (((9223372036854775807 - x.toNat : Nat) : Int) < ((v.toNat * 10 : Nat) : Int)) ↔
        2 ^ 63 ≤ v.toNat * 10 + x.toNat := by omega
    simp only [e1, e2, decide_false, Bool.false_or]
  · have e1 : ((922337203685477580 : Int) < (v.toNat : Int)) := by omega
    have e3 : 2 ^ 63 ≤ v.toNat * 10 + x.toNat := by omega
    simp only [e1, e3, decide_true, Bool.true_or]

theorem stepN_lim (v : BitVec 64) (a : Nat) (hv : v.toInt = -(a : Int)) :
    v.slt (minI64.sdiv 10#64) = decide (922337203685477580 < a) := by
  rw [BitVec.slt_eq_decide, minI_sdiv_toInt, hv]
  have : (-(a : Int) < -922337203685477580) ↔ 922337203685477580 < a := by omega
  simp only [this]

theorem mul10_toInt (v : BitVec 64) (a : Nat) (hv : v.toInt = -(a : Int)) (ha : a ≤ 922337203685477580) :
    (v * 10#64).toInt = -((a * 10 : Nat) : Int) := by
  rw [BitVec.toInt_mul, hv, ten_toInt, Int.bmod_def]; omega

theorem x_toInt {x : BitVec 64} (hx : x.toNat ≤ 9) : x.toInt = (x.toNat : Int) := toInt_of_lt (by omega)

theorem stepN_ov (v x : BitVec 64) (a : Nat) (hv : v.toInt = -(a : Int)) (ha : a ≤ 922337203685477580)
    (hx : x.toNat ≤ 9) : (v * 10#64).slt (minI64 + x) = decide (2 ^ 63 < a * 10 + x.toNat) := by
  have hsi : (minI64 + x).toInt = -9223372036854775808 + (x.toNat : Int) := by
    rw [BitVec.toInt_add, x_toInt hx, minI_toInt, Int.bmod_def]; omega
  rw [BitVec.slt_eq_decide, mul10_toInt v a hv ha, hsi]
  have : (-((a * 10 : Nat) : Int) < -9223372036854775808 + (x.toNat : Int)) ↔ 2 ^ 63 < a * 10 + x.toNat := by omega
  simp only [this]

theorem stepN_val (v x : BitVec 64) (a : Nat) (hv : v.toInt = -(a : Int)) (ha : a ≤ 922337203685477580)
    (hx : x.toNat ≤ 9) (h : a * 10 + x.toNat ≤ 2 ^ 63) :
    (v * 10#64 - x).toInt = -((a * 10 + x.toNat : Nat) : Int) := by
  rw [BitVec.toInt_sub, mul10_toInt v a hv ha, x_toInt hx, Int.bmod_def]; omega

/-! ### the three loops -/

theorem posLoopU_eq (b : Bytes) (v : BitVec 64) (n : Nat) :
    posLoopU b v n =
      if acc v.toNat (dpre b) < 2 ^ 64 then .done (BitVec.ofNat 64 (acc v.toNat (dpre b))) (n + (dpre b).length)
      else .overflow := by
  induction b generalizing v n with
  | nil =>
    have := v.isLt
    simp [posLoopU, dpre, acc_nil, this]
  | cons c r ih =>
    simp only [posLoopU, dpre]
    by_cases hd : digit c = true
    · have hd' : isDigit c = true := hd
      have hx := dval_toNat hd
      have hc := digit_toNat hd
      simp only [hd', hd, Bool.not_true, Bool.false_eq_true, if_false, if_true, acc_cons, List.length_cons]
      rw [stepU_ov v (dval c) (by omega), hx]
      by_cases hov : v.toNat * 10 + (c.toNat - 0x30) < 2 ^ 64
      · have hn := stepU_val v (dval c) (by omega)
        have : ¬ (2 ^ 64 ≤ v.toNat * 10 + (c.toNat - 0x30)) := by omega
        simp only [this, decide_false, Bool.false_eq_true, if_false]
        rw [ih, hn, hx]
        congr 2; omega
      · have hge := acc_ge (v.toNat * 10 + (c.toNat - 0x30)) (dpre r)
        have h1 : ¬ acc (v.toNat * 10 + (c.toNat - 0x30)) (dpre r) < 2 ^ 64 := by omega
        have h2 : (2 ^ 64 ≤ v.toNat * 10 + (c.toNat - 0x30)) := by omega
        simp only [h1, h2, decide_true, if_true, if_false]
    · have hd2 : digit c = false := by simpa using hd
      have hd' : isDigit c = false := hd2
      have := v.isLt
      simp [hd', hd2, acc_nil, this]

theorem posLoopS_eq (b : Bytes) (v : BitVec 64) (n : Nat) (hv : v.toNat < 2 ^ 63) :
    posLoopS b v n =
      if acc v.toNat (dpre b) < 2 ^ 63 then .done (BitVec.ofNat 64 (acc v.toNat (dpre b))) (n + (dpre b).length)
      else .overflow := by
  induction b generalizing v n with
  | nil =>
    have := v.isLt
    simp [posLoopS, dpre, acc_nil, hv]
  | cons c r ih =>
    simp only [posLoopS, dpre]
    by_cases hd : digit c = true
    · have hd' : isDigit c = true := hd
      have hx := dval_toNat hd
      have hc := digit_toNat hd
      simp only [hd', hd, Bool.not_true, Bool.false_eq_true, if_false, if_true, acc_cons, List.length_cons]
      rw [stepS_ov v (dval c) hv (by omega), hx]
      by_cases hov : v.toNat * 10 + (c.toNat - 0x30) < 2 ^ 63
      · have hn := stepU_val v (dval c) (by omega)
        have : ¬ (2 ^ 63 ≤ v.toNat * 10 + (c.toNat - 0x30)) := by omega
        simp only [this, decide_false, Bool.false_eq_true, if_false]
        rw [ih _ _ (by omega), hn, hx]
        congr 2; omega
      · have hge := acc_ge (v.toNat * 10 + (c.toNat - 0x30)) (dpre r)
        have h1 : ¬ acc (v.toNat * 10 + (c.toNat - 0x30)) (dpre r) < 2 ^ 63 := by omega
        have h2 : (2 ^ 63 ≤ v.toNat * 10 + (c.toNat - 0x30)) := by omega
        simp only [h1, h2, decide_true, if_true, if_false]
    · have hd2 : digit c = false := by simpa using hd
      have hd' : isDigit c = false := hd2
      simp [hd', hd2, acc_nil, hv]

theorem negLoop_eq (b : Bytes) (v : BitVec 64) (n : Nat) (a : Nat) (ha : a ≤ 2 ^ 63) (hv : v.toInt = -(a : Int)) :
    negLoop b v n =
      if acc a (dpre b) ≤ 2 ^ 63 then .done (BitVec.ofInt 64 (-(acc a (dpre b) : Int))) (n + (dpre b).length)
      else .overflow := by
  induction b generalizing v n a with
  | nil => simp [negLoop, dpre, acc_nil, ha, ← hv]
  | cons c r ih =>
    simp only [negLoop, dpre]
    by_cases hd : digit c = true
    · have hd' : isDigit c = true := hd
      have hx := dval_toNat hd
      have hc := digit_toNat hd
      simp only [hd', hd, Bool.not_true, Bool.false_eq_true, if_false, if_true, acc_cons, List.length_cons]
      rw [stepN_lim v a hv]
      by_cases h1 : a ≤ 922337203685477580
      · have c1 : ¬ (922337203685477580 < a) := by omega
        simp only [c1, decide_false, Bool.false_eq_true, if_false]
        rw [stepN_ov v (dval c) a hv h1 (by omega), hx]
        by_cases hov : a * 10 + (c.toNat - 0x30) ≤ 2 ^ 63
        · have hn := stepN_val v (dval c) a hv h1 (by omega) (by omega)
          have : ¬ (2 ^ 63 < a * 10 + (c.toNat - 0x30)) := by omega
          simp only [this, decide_false, Bool.false_eq_true, if_false]
          rw [hx] at hn
          rw [ih _ _ _ hov hn]
          congr 2; omega
        · have hge := acc_ge (a * 10 + (c.toNat - 0x30)) (dpre r)
          have h2 : ¬ acc (a * 10 + (c.toNat - 0x30)) (dpre r) ≤ 2 ^ 63 := by omega
          have h3 : (2 ^ 63 < a * 10 + (c.toNat - 0x30)) := by omega
          simp only [h2, h3, decide_true, if_true, if_false]
      · have hge := acc_ge (a * 10 + (c.toNat - 0x30)) (dpre r)
        have h2 : ¬ acc (a * 10 + (c.toNat - 0x30)) (dpre r) ≤ 2 ^ 63 := by omega
        have c1 : (922337203685477580 < a) := by omega
        simp only [h2, c1, decide_true, if_true, if_false]
    · have hd2 : digit c = false := by simpa using hd
      have hd' : isDigit c = false := hd2
      simp [hd', hd2, acc_nil, ha, ← hv]

def isDotE (c : UInt8) : Bool := c == 0x2e || c == 0x65 || c == 0x45
def lzb : Bytes → Bool
  | c0 :: c1 :: _ => c0 == 0x30 && isDigit c1
  | _ => false
def fin (v : BitVec 64) (rest : Bytes) : IR :=
  match rest with
  | c :: _ => if isDotE c then .err else .ok v rest
  | [] => .ok v []

theorem finishInt_eq (b : Bytes) (v : BitVec 64) (n : Nat) : finishInt b v n = fin v (b.drop n) := by
  unfold finishInt fin
  cases b.drop n with
  | nil => rfl
  | cons c r => rfl

theorem drop_dpre (b : Bytes) : b.drop (dpre b).length = digits b := by
  have h := dpre_append_digits b
  conv => lhs; arg 2; rw [← h]
  exact List.drop_left

theorem parseUint_aux (b : Bytes) (lz : Bool) :
    (if lz then IR.err else
      match posLoopU b 0#64 0 with
      | .overflow => .err
      | .done v n => if n == 0 then .err else finishInt b v n) =
    if lz then .err else if ¬ (acc 0 (dpre b) < 2 ^ 64) then .err else if dpre b = [] then .err
    else fin (BitVec.ofNat 64 (acc 0 (dpre b))) (digits b) := by
  rw [posLoopU_eq]
  have h0 : (0#64 : BitVec 64).toNat = 0 := rfl
  rw [h0]
  cases lz
  · simp only [Bool.false_eq_true, if_false]
    by_cases hN : acc 0 (dpre b) < 2 ^ 64
    · simp only [hN, if_true, not_true, if_false, finishInt_eq, Nat.zero_add, drop_dpre]
      by_cases hd : dpre b = []
      · simp [hd]
      · have : ¬ (dpre b).length = 0 := by simpa using hd
        simp [hd, this]
    · simp only [hN, if_false, not_false_eq_true, if_true]
  · rfl

theorem parseUint_eq (b : Bytes) : parseUint b =
    if lzb b then .err else if ¬ (acc 0 (dpre b) < 2 ^ 64) then .err else if dpre b = [] then .err
    else fin (BitVec.ofNat 64 (acc 0 (dpre b))) (digits b) := by
  rw [← parseUint_aux]
  match b with
  | [] => simp [parseUint, lzb, posLoopU]
  | [c0] => rfl
  | c0 :: c1 :: b2 => rfl

theorem parseIntPos_aux (b : Bytes) (lz : Bool) :
    (if lz then IR.err else
      match posLoopS b 0#64 0 with
      | .overflow => .err
      | .done v n => if n == 0 then .err else finishInt b v n) =
    if lz then .err else if ¬ (acc 0 (dpre b) < 2 ^ 63) then .err else if dpre b = [] then .err
    else fin (BitVec.ofNat 64 (acc 0 (dpre b))) (digits b) := by
  rw [posLoopS_eq _ _ _ (by decide)]
  have h0 : (0#64 : BitVec 64).toNat = 0 := rfl
  rw [h0]
  cases lz
  · simp only [Bool.false_eq_true, if_false]
    by_cases hN : acc 0 (dpre b) < 2 ^ 63
    · simp only [hN, if_true, not_true, if_false, finishInt_eq, Nat.zero_add, drop_dpre]
      by_cases hd : dpre b = []
      · simp [hd]
      · have : ¬ (dpre b).length = 0 := by simpa using hd
        simp [hd, this]
    · simp only [hN, if_false, not_false_eq_true, if_true]
  · rfl

theorem parseIntNeg_aux (b1 : Bytes) (lz : Bool) :
    (if lz then IR.err else
      match negLoop b1 0#64 0 with
      | .overflow => .err
      | .done v n => if n == 0 then .err else finishInt (0x2d :: b1) v (n + 1)) =
    if lz then .err else if ¬ (acc 0 (dpre b1) ≤ 2 ^ 63) then .err else if dpre b1 = [] then .err
    else fin (BitVec.ofInt 64 (-(acc 0 (dpre b1) : Int))) (digits b1) := by
  rw [negLoop_eq _ _ _ 0 (by decide) (by decide)]
  cases lz
  · simp only [Bool.false_eq_true, if_false]
    by_cases hN : acc 0 (dpre b1) ≤ 2 ^ 63
    · simp only [hN, if_true, not_true, if_false, finishInt_eq, Nat.zero_add, List.drop_succ_cons, drop_dpre]
      by_cases hd : dpre b1 = []
      · simp [hd]
      · have : ¬ (dpre b1).length = 0 := by simpa using hd
        simp [hd, this]
    · simp only [hN, if_false, not_false_eq_true, if_true]
  · rfl

theorem parseInt_neg (b1 : Bytes) : parseInt (0x2d :: b1) =
    if lzb b1 then .err else if ¬ (acc 0 (dpre b1) ≤ 2 ^ 63) then .err else if dpre b1 = [] then .err
    else fin (BitVec.ofInt 64 (-(acc 0 (dpre b1) : Int))) (digits b1) := by
  rw [← parseIntNeg_aux]
  match b1 with
  | [] => simp [parseInt, lzb, negLoop]
  | [c0] => rfl
  | c0 :: c1 :: b2 => rfl

theorem parseInt_pos (b : Bytes) (h : b.head? ≠ some 0x2d) : parseInt b =
    if lzb b then .err else if ¬ (acc 0 (dpre b) < 2 ^ 63) then .err else if dpre b = [] then .err
    else fin (BitVec.ofNat 64 (acc 0 (dpre b))) (digits b) := by
  rw [← parseIntPos_aux]
  match b, h with
  | [], _ => simp [parseInt, lzb, posLoopS]
  | [c0], h =>
    have : (c0 == 0x2d) = false := by simpa using h
    simp only [parseInt, this]; rfl
  | c0 :: c1 :: b2, h =>
    have : (c0 == 0x2d) = false := by simpa using h
    simp only [parseInt, this]; rfl

/-! ### grammar side -/

theorem dpre_nil_iff (d : Bytes) : dpre d = [] ↔ (d = [] ∨ ∃ c r, d = c :: r ∧ digit c = false) := by
  cases d with
  | nil => simp [dpre]
  | cons c r =>
    simp only [dpre]
    cases h : digit c <;> simp [h]

theorem digit_zero_or_19 {c : UInt8} (h : digit c = true) : c = 0x30 ∨ digit19 c = true := by
  by_cases h0 : c = 0x30
  · exact Or.inl h0
  · right
    have hd := digit_toNat h
    simp only [digit, Bool.and_eq_true, decide_eq_true_eq] at h
    simp only [digit19, Bool.and_eq_true, decide_eq_true_eq]
    refine ⟨?_, h.2⟩
    have h2 : c.toNat ≠ (0x30 : UInt8).toNat := fun e => h0 (UInt8.toNat_inj.mp e)
    apply UInt8.le_iff_toNat_le.mpr
    simp at h2 ⊢; omega

theorem digit19_digit {c : UInt8} (h : digit19 c = true) : digit c = true := by
  simp only [digit19, Bool.and_eq_true, decide_eq_true_eq] at h
  simp only [digit, Bool.and_eq_true, decide_eq_true_eq]
  refine ⟨?_, h.2⟩
  have := UInt8.le_iff_toNat_le.mp h.1
  apply UInt8.le_iff_toNat_le.mpr
  simp at this ⊢; omega

theorem int_none_of_dpre (d : Bytes) (h : dpre d = []) : int d = none := by
  rcases (dpre_nil_iff d).mp h with rfl | ⟨c, r, rfl, hc⟩
  · rfl
  · have h0 : (c == 0x30) = false := by
      cases h0 : (c == 0x30)
      · rfl
      · have : c = 0x30 := by simpa using h0
        subst this; exact absurd hc (by decide)
    have h19 : digit19 c = false := by
      cases h19 : digit19 c
      · rfl
      · rw [digit19_digit h19] at hc; cases hc
    simp [int, h0, h19]

/-- leading zero: the grammar's `int` stops after the `0`, a digit follows -/
theorem int_of_lz (d : Bytes) (h : lzb d = true) :
    ∃ c r, digit c = true ∧ (int d).bind (fun r => (frac r).bind exp) = some (c :: r) := by
  match d, h with
  | c0 :: c1 :: r, h =>
    simp only [lzb, Bool.and_eq_true, beq_iff_eq] at h
    obtain ⟨rfl, h1⟩ := h
    refine ⟨c1, r, h1, ?_⟩
    have hd := digit_toNat (c := c1) h1
    have hne : (c1 != 0x2e && c1 != 0x65 && c1 != 0x45) = true := by
      simp only [Bool.and_eq_true, bne_iff_ne, ne_eq]
      refine ⟨⟨?_, ?_⟩, ?_⟩ <;> (intro e; subst e; simp at hd)
    simp only [int, beq_self_eq_true, if_true, Option.bind_some]
    exact frac_exp_digit c1 r hne

theorem digits_of_not_digit {c : UInt8} {r : Bytes} (h : digit c = false) : digits (c :: r) = c :: r := by
  simp [digits, h]

/-- no leading zero and at least one digit: the grammar's `int` takes exactly the digit prefix -/
theorem int_of_nolz (d : Bytes) (hd : dpre d ≠ []) (h : lzb d = false) : int d = some (digits d) := by
  match d, hd, h with
  | [], hd, _ => simp [dpre] at hd
  | c :: r, hd, h =>
    have hc : digit c = true := by
      cases hc : digit c
      · simp [dpre, hc] at hd
      · rfl
    simp only [digits, hc, if_true]
    rcases digit_zero_or_19 hc with rfl | h19
    · simp only [int, beq_self_eq_true, if_true]
      match r, h with
      | [], _ => rfl
      | c1 :: r2, h =>
        simp only [lzb, beq_self_eq_true, Bool.true_and] at h
        have : digit c1 = false := h
        rw [digits_of_not_digit this]
    · have h0 : (c == 0x30) = false := by
        cases h0 : (c == 0x30)
        · rfl
        · have : c = 0x30 := by simpa using h0
          subst this; exact absurd h19 (by decide)
      simp [int, h0, h19]

theorem digits_length_lt_of_digits1 {r r' : Bytes} (h : digits1 r = some r') : r'.length ≤ r.length := by
  cases r with
  | nil => cases h
  | cons c t =>
    simp only [digits1] at h
    split at h
    · cases h; have := digits_length_le t; simp; omega
    · cases h

theorem exp_length_le {r r' : Bytes} (h : exp r = some r') : r'.length ≤ r.length := by
  match r, h with
  | [], h => cases h; exact Nat.le_refl _
  | c :: t, h =>
    simp only [exp] at h
    split at h
    · match t, h with
      | [], h => cases h
      | s :: t2, h =>
        simp only at h
        split at h
        · have := digits_length_lt_of_digits1 h; simp; omega
        · have := digits_length_lt_of_digits1 h; simp at this ⊢; omega
    · cases h; exact Nat.le_refl _

theorem fracExp_length_lt (c : UInt8) (r2 r' : Bytes) (hc : isDotE c = true)
    (h : (frac (c :: r2)).bind exp = some r') : r'.length ≤ r2.length := by
  rw [frac_cons] at h
  by_cases hdot : c = 0x2e
  · subst hdot
    simp only [beq_self_eq_true, if_true] at h
    cases h1 : digits1 r2 with
    | none => rw [h1] at h; cases h
    | some r3 =>
      rw [h1] at h
      have := digits_length_lt_of_digits1 h1
      have := exp_length_le (r := r3) h
      omega
  · have hdot' : (c == 0x2e) = false := by simpa using hdot
    simp only [hdot', Bool.false_eq_true, if_false, Option.bind_some] at h
    have he : (c == 0x65 || c == 0x45) = true := by simpa [isDotE, hdot'] using hc
    simp only [exp, he, if_true] at h
    match r2, h with
    | [], h => cases h
    | s :: t2, h =>
      simp only at h
      split at h
      · have := digits_length_lt_of_digits1 h; simp; omega
      · have := digits_length_lt_of_digits1 h; simpa using this

theorem fracExp_id (rest : Bytes) (h : ∀ c r, rest = c :: r → isDotE c = false) :
    (frac rest).bind exp = some rest := by
  cases rest with
  | nil => rfl
  | cons c r =>
    have := h c r rfl
    apply frac_exp_digit
    simp only [isDotE, Bool.or_eq_false_iff] at this
    simp [bne, this.1.1, this.1.2, this.2]

/-! ### the specification after `ws` and the `null` test -/

def specCore (signed : Bool) (lo hi : Int) (b : Bytes) : Option Int :=
  match number b with
    | none => none
    | some rest =>
      if !(ws rest).isEmpty then none
      else
        let lit := b.take (b.length - rest.length)
        if lit.any (fun c => c == 0x2e || c == 0x65 || c == 0x45) then none
        else if !signed && lit.head? == some 0x2d then none
        else
          let v := intValue lit
          if lo ≤ v ∧ v ≤ hi then some v else none

theorem spec_unfold (signed : Bool) (lo hi : Int) (doc : Bytes) :
    Spec.Json.unmarshalInt signed lo hi doc =
      if nullLit.isPrefixOf (ws doc) then (if (ws ((ws doc).drop 4)).isEmpty then some 0 else none)
      else specCore signed lo hi (ws doc) := rfl

theorem dpre_all_digit (d : Bytes) : ∀ c ∈ dpre d, digit c = true := by
  induction d with
  | nil => simp [dpre]
  | cons x r ih =>
    simp only [dpre]
    split
    · intro c hc
      rcases List.mem_cons.mp hc with rfl | h
      · assumption
      · exact ih c h
    · simp

theorem digit_not_dotE {c : UInt8} (h : digit c = true) : isDotE c = false := by
  have hd := digit_toNat h
  simp only [isDotE, Bool.or_eq_false_iff, beq_eq_false_iff_ne, ne_eq]
  refine ⟨⟨?_, ?_⟩, ?_⟩ <;> (intro e; subst e; simp at hd)

theorem digit_not_ws {c : UInt8} (h : digit c = true) : isWs c = false := by
  have hd := digit_toNat h
  simp only [isWs, Bool.or_eq_false_iff, beq_eq_false_iff_ne, ne_eq]
  refine ⟨⟨⟨?_, ?_⟩, ?_⟩, ?_⟩ <;> (intro e; subst e; simp at hd)

theorem fin_ok (V : BitVec 64) (rest : Bytes) (h : ∀ c r, rest = c :: r → isDotE c = false) : fin V rest = .ok V rest := by
  cases rest with
  | nil => rfl
  | cons c r => simp [fin, h c r rfl]

theorem intValue_digits (dp : Bytes) (h : ∀ c ∈ dp, digit c = true) : intValue dp = (acc 0 dp : Int) := by
  cases dp with
  | nil => rfl
  | cons c r =>
    have hc := h c (by simp)
    have : c ≠ 0x2d := by intro e; subst e; exact absurd hc (by decide)
    rw [Spec.Json.intValue.eq_2 _ (by intro ds e; cases e; exact this rfl), natOfDigits_eq]

theorem intValue_neg (dp : Bytes) : intValue (0x2d :: dp) = -(acc 0 dp : Int) := by
  rw [Spec.Json.intValue.eq_1, natOfDigits_eq]

/-- common skeleton of the three parsers against the specification; `post` is what decodeIntTy / Unmarshal do with
the parse result -/
theorem core (signed : Bool) (lo hi : Int) (sgn d : Bytes) (hs : sgn = [] ∨ sgn = [0x2d])
    (hnum : number (sgn ++ d) = (int d).bind (fun r => (frac r).bind exp))
    (P : Prop) [Decidable P] (V : BitVec 64) (post : IR → Option Int) (hpost : post .err = none)
    (hgood : dpre d ≠ [] → ∀ rest, (∀ c r, rest = c :: r → isDotE c = false) →
      (if ¬ P then none else post (.ok V rest)) =
        if !(ws rest).isEmpty then none
        else if !signed && sgn == [0x2d] then none
        else if lo ≤ (if sgn = [] then (acc 0 (dpre d) : Int) else -(acc 0 (dpre d) : Int)) ∧
                (if sgn = [] then (acc 0 (dpre d) : Int) else -(acc 0 (dpre d) : Int)) ≤ hi
          then some (if sgn = [] then (acc 0 (dpre d) : Int) else -(acc 0 (dpre d) : Int)) else none) :
    post (if lzb d then .err else if ¬ P then .err else if dpre d = [] then .err else fin V (digits d)) =
      specCore signed lo hi (sgn ++ d) := by
  unfold specCore
  rw [hnum]
  by_cases hl : lzb d = true
  · obtain ⟨c, r, hc, hn⟩ := int_of_lz d hl
    have hw : ws (c :: r) = c :: r := by simp [ws, digit_not_ws hc]
    simp [hl, hpost, hn, hw]
  · have hl' : lzb d = false := by simpa using hl
    by_cases hd : dpre d = []
    · rw [int_none_of_dpre d hd]
      by_cases hP : P <;> simp [hl', hd, hpost, hP]
    · rw [int_of_nolz d hd hl']
      simp only [Option.bind_some]
      by_cases hdot : ∃ c r2, digits d = c :: r2 ∧ isDotE c = true
      · obtain ⟨c, r2, hdd, hc⟩ := hdot
        have hfin : fin V (digits d) = .err := by simp [hdd, fin, hc]
        have hm : post (if lzb d then .err else if ¬ P then .err else if dpre d = [] then .err else fin V (digits d)) = none := by
          by_cases hP : P <;> simp [hl', hd, hpost, hP, hfin]
        rw [hm, hdd]
        cases hfe : (frac (c :: r2)).bind exp with
        | none => rfl
        | some r' =>
          have hlen := fracExp_length_lt c r2 r' hc hfe
          simp only
          split
          · rfl
          · have hb : sgn ++ d = (sgn ++ dpre d) ++ c :: r2 := by
              rw [List.append_assoc, ← hdd, dpre_append_digits]
            have hany : (List.take ((sgn ++ d).length - r'.length) (sgn ++ d)).any
                (fun c => c == 0x2e || c == 0x65 || c == 0x45) = true := by
              rw [List.any_eq_true]
              refine ⟨c, ?_, hc⟩
              rw [hb, List.mem_take_iff_getElem]
              refine ⟨(sgn ++ dpre d).length, ?_, ?_⟩
              · simp; omega
              · simp
            rw [if_pos hany]
      · have hrest : ∀ c r, digits d = c :: r → isDotE c = false := by
          intro c r h
          cases hc : isDotE c
          · rfl
          · exact absurd ⟨c, r, h, hc⟩ hdot
        rw [fracExp_id _ hrest, fin_ok _ _ hrest]
        have hm : post (if lzb d then .err else if ¬ P then .err else if dpre d = [] then .err else .ok V (digits d)) =
            (if ¬ P then none else post (.ok V (digits d))) := by
          by_cases hP : P <;> simp [hl', hd, hpost, hP]
        rw [hm, hgood hd _ hrest]
        have hlit : List.take ((sgn ++ d).length - (digits d).length) (sgn ++ d) = sgn ++ dpre d := by
          have : (sgn ++ d).length - (digits d).length = (sgn ++ dpre d).length := by
            have h2 := congrArg List.length (dpre_append_digits d)
            simp only [List.length_append] at h2 ⊢
            omega
          rw [this]
          conv => lhs; arg 2; rw [← dpre_append_digits d, ← List.append_assoc]
          exact List.take_left
        have hall := dpre_all_digit d
        simp only [hlit]
        have hany : (sgn ++ dpre d).any (fun c => c == 0x2e || c == 0x65 || c == 0x45) = false := by
          rw [List.any_eq_false]
          intro c hc
          rcases List.mem_append.mp hc with h | h
          · rcases hs with rfl | rfl
            · simp at h
            · have : c = 0x2d := by simpa using h
              subst this; decide
          · have := digit_not_dotE (hall c h)
            simpa [isDotE] using this
        simp only [hany, Bool.false_eq_true, if_false]
        rcases hs with rfl | rfl
        · have hhead : ((dpre d).head? == some 0x2d) = false := by
            cases hdp : dpre d with
            | nil => rfl
            | cons x t =>
              have hx := hall x (by simp [hdp])
              have : x ≠ 0x2d := by intro e; subst e; exact absurd hx (by decide)
              simpa using this
          simp [hhead, intValue_digits _ hall]
        · simp [intValue_neg]

/-! ### the width tests and the final composition -/

def lo (t : ITy) : Int := if t.signed then -(2 ^ (t.bits - 1) : Int) else 0
def hi (t : ITy) : Int := if t.signed then (2 ^ (t.bits - 1) : Int) - 1 else (2 ^ t.bits : Int) - 1

/-- what `decodeIntTy` (signed target) and `unmarshalInt` do with the result of `parseInt` -/
def postS (t : ITy) (x : IR) : Option Int :=
  match x with
  | .err => none
  | .ok v r =>
    if t.bits < 64 && (v.toInt < -(2 ^ (t.bits - 1) : Int) || v.toInt > (2 ^ (t.bits - 1) : Int) - 1) then none
    else if (ws r).isEmpty then some v.toInt else none

def postU (t : ITy) (x : IR) : Option Int :=
  match x with
  | .err => none
  | .ok v r =>
    if t.bits < 64 && v.toNat > 2 ^ t.bits - 1 then none
    else if (ws r).isEmpty then some (v.toNat : Int) else none

theorem model_signed (t : ITy) (doc b : Bytes) (hb : skipSpaces doc = b)
    (hn : hasPrefix b [0x6e, 0x75, 0x6c, 0x6c] = false) (hs : t.signed = true) :
    Model.Json.unmarshalInt t doc = postS t (parseInt b) := by
  unfold Model.Json.unmarshalInt
  rw [hb]
  simp only [decodeIntTy, hn, hs, Bool.false_eq_true, if_false, if_true, postS]
  cases parseInt b with
  | err => rfl
  | ok v r =>
    simp only [Enc.Lemmas.JsonWs.skipSpaces_eq_ws]
    generalize (decide (t.bits < 64) && _) = c
    cases c <;> rfl

theorem model_unsigned (t : ITy) (doc b : Bytes) (hb : skipSpaces doc = b)
    (hn : hasPrefix b [0x6e, 0x75, 0x6c, 0x6c] = false) (hs : t.signed = false) :
    Model.Json.unmarshalInt t doc = postU t (parseUint b) := by
  unfold Model.Json.unmarshalInt
  rw [hb]
  simp only [decodeIntTy, hn, hs, Bool.false_eq_true, if_false, postU]
  cases parseUint b with
  | err => rfl
  | ok v r =>
    simp only [Enc.Lemmas.JsonWs.skipSpaces_eq_ws]
    generalize (decide (t.bits < 64) && _) = c
    cases c <;> rfl

theorem combine {P R : Prop} [Decidable P] [Decidable R] (E : Bool) (i : Int) (X : Option Int) (h1 : ¬ P → ¬ R)
    (hX : P → X = if R then (if E then some i else none) else none) :
    (if ¬ P then none else X) = (if !E then none else if R then some i else none) := by
  by_cases hP : P
  · rw [hX hP]; cases E <;> by_cases hR : R <;> simp [hP, hR]
  · have := h1 hP; cases E <;> simp [hP, this]

theorem ite_flip (c : Bool) (R : Prop) [Decidable R] (Y : Option Int) (h : c = true ↔ ¬ R) :
    (if c = true then none else Y) = if R then Y else none := by
  by_cases hR : R
  · have : ¬ c = true := fun hc => h.mp hc hR
    simp [hR, this]
  · simp [hR, h.mpr hR]

theorem number_pos (b : Bytes) (h : b.head? ≠ some 0x2d) : number b = (int b).bind (fun r => (frac r).bind exp) := by
  cases b with
  | nil => rfl
  | cons c r =>
    have : (c == 0x2d) = false := by simpa using h
    rw [number_cons, this]; rfl

theorem number_neg (d : Bytes) : number (0x2d :: d) = (int d).bind (fun r => (frac r).bind exp) := rfl

theorem hi_le (t : ITy) : hi t ≤ 2 ^ 64 - 1 := by cases t <;> decide
theorem lo_ge (t : ITy) : -(2 ^ 63) ≤ lo t := by cases t <;> decide
theorem hi_le_signed (t : ITy) (h : t.signed = true) : hi t ≤ 2 ^ 63 - 1 := by cases t <;> first | decide | cases h

theorem ofNat_toNat_of_lt {N : Nat} (h : N < 2 ^ 64) : (BitVec.ofNat 64 N).toNat = N := by
  simp only [BitVec.toNat_ofNat]; omega

theorem good_unsigned (t : ITy) (hs : t.signed = false) (N : Nat) (rest : Bytes) :
    (if ¬ (N < 2 ^ 64) then none else postU t (.ok (BitVec.ofNat 64 N) rest)) =
      if !(ws rest).isEmpty then none
      else if lo t ≤ (N : Int) ∧ (N : Int) ≤ hi t then some (N : Int) else none := by
  apply combine
  · intro hP hR; have := hi_le t; omega
  · intro hP
    simp only [postU, ofNat_toNat_of_lt hP]
    apply ite_flip
    simp only [Bool.and_eq_true, Bool.or_eq_true, decide_eq_true_eq]
    cases t <;> first | exact absurd hs (by decide) |
      (simp only [ITy.bits, lo, hi, ITy.signed, if_true, Bool.false_eq_true, if_false, Nat.reduceSub, Int.reducePow,
        Nat.reducePow]; omega)

theorem good_pos (t : ITy) (hs : t.signed = true) (N : Nat) (rest : Bytes) :
    (if ¬ (N < 2 ^ 63) then none else postS t (.ok (BitVec.ofNat 64 N) rest)) =
      if !(ws rest).isEmpty then none
      else if lo t ≤ (N : Int) ∧ (N : Int) ≤ hi t then some (N : Int) else none := by
  apply combine
  · intro hP hR; have := hi_le_signed t hs; omega
  · intro hP
    have hv : (BitVec.ofNat 64 N).toInt = (N : Int) := by
      rw [toInt_of_lt (by rw [ofNat_toNat_of_lt (by omega)]; exact hP), ofNat_toNat_of_lt (by omega)]
    simp only [postS, hv]
    apply ite_flip
    simp only [Bool.and_eq_true, Bool.or_eq_true, decide_eq_true_eq]
    cases t <;> first | exact absurd hs (by decide) |
      (simp only [ITy.bits, lo, hi, ITy.signed, if_true, Bool.false_eq_true, if_false, Nat.reduceSub, Int.reducePow,
        Nat.reducePow]; omega)

theorem good_neg (t : ITy) (hs : t.signed = true) (N : Nat) (rest : Bytes) :
    (if ¬ (N ≤ 2 ^ 63) then none else postS t (.ok (BitVec.ofInt 64 (-(N : Int))) rest)) =
      if !(ws rest).isEmpty then none
      else if lo t ≤ -(N : Int) ∧ -(N : Int) ≤ hi t then some (-(N : Int)) else none := by
  apply combine
  · intro hP hR; have := lo_ge t; omega
  · intro hP
    have hv : (BitVec.ofInt 64 (-(N : Int))).toInt = -(N : Int) := by
      rw [BitVec.toInt_ofInt, Int.bmod_def]; omega
    simp only [postS, hv]
    apply ite_flip
    simp only [Bool.and_eq_true, Bool.or_eq_true, decide_eq_true_eq]
    cases t <;> first | exact absurd hs (by decide) |
      (simp only [ITy.bits, lo, hi, ITy.signed, if_true, Bool.false_eq_true, if_false, Nat.reduceSub, Int.reducePow,
        Nat.reducePow]; omega)

theorem dpre_neg_head (d : Bytes) : dpre (0x2d :: d) = [] := by
  have : digit 0x2d = false := by decide
  simp [dpre, this]

/-- **MAIN (C02, integers)**: the hand-written integer decoders store exactly what encoding/json stores -/
theorem unmarshalInt_eq (t : ITy) (doc : Bytes) :
    Model.Json.unmarshalInt t doc = Spec.Json.unmarshalInt t.signed (lo t) (hi t) doc := by
  rw [spec_unfold]
  have hb := Enc.Lemmas.JsonWs.skipSpaces_eq_ws doc
  generalize ws doc = b at hb ⊢
  by_cases hn : nullLit.isPrefixOf b = true
  · have hn' : hasPrefix b [0x6e, 0x75, 0x6c, 0x6c] = true := hn
    unfold Model.Json.unmarshalInt
    rw [hb]
    simp only [decodeIntTy, hn', hn, if_true, Enc.Lemmas.JsonWs.skipSpaces_eq_ws]
    rfl
  · have hn' : hasPrefix b [0x6e, 0x75, 0x6c, 0x6c] = false := by
      cases h : hasPrefix b [0x6e, 0x75, 0x6c, 0x6c]
      · rfl
      · exact absurd h hn
    rw [if_neg hn]
    cases hs : t.signed
    · rw [model_unsigned t doc b hb hn' hs]
      by_cases hb : b.head? = some 0x2d
      · obtain ⟨d, rfl⟩ : ∃ d, b = 0x2d :: d := by
          cases b with
          | nil => cases hb
          | cons c r => simp at hb; exact ⟨r, by rw [hb]⟩
        have hm : postU t (parseUint (0x2d :: d)) = none := by
          rw [parseUint_eq, dpre_neg_head]; simp [lzb, postU]
        rw [hm]
        have := core false (lo t) (hi t) [0x2d] d (Or.inr rfl) (number_neg d) True 0#64 (fun _ => none) rfl
          (by intro _ rest _; simp)
        simpa using this
      · rw [parseUint_eq]
        have := core false (lo t) (hi t) [] b (Or.inl rfl) (number_pos b hb) (acc 0 (dpre b) < 2 ^ 64)
          (BitVec.ofNat 64 (acc 0 (dpre b))) (postU t) rfl
          (by intro _ rest _; rw [good_unsigned t hs]; simp)
        simpa using this
    · rw [model_signed t doc b hb hn' hs]
      by_cases hb : b.head? = some 0x2d
      · obtain ⟨d, rfl⟩ : ∃ d, b = 0x2d :: d := by
          cases b with
          | nil => cases hb
          | cons c r => simp at hb; exact ⟨r, by rw [hb]⟩
        rw [parseInt_neg]
        have := core true (lo t) (hi t) [0x2d] d (Or.inr rfl) (number_neg d) (acc 0 (dpre d) ≤ 2 ^ 63)
          (BitVec.ofInt 64 (-(acc 0 (dpre d) : Int))) (postS t) rfl
          (by intro _ rest _; rw [good_neg t hs]; simp)
        simpa using this
      · rw [parseInt_pos b hb]
        have := core true (lo t) (hi t) [] b (Or.inl rfl) (number_pos b hb) (acc 0 (dpre b) < 2 ^ 63)
          (BitVec.ofNat 64 (acc 0 (dpre b))) (postS t) rfl
          (by intro _ rest _; rw [good_pos t hs]; simp)
        simpa using this

end Enc.Lemmas.JsonDecInt
