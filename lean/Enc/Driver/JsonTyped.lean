import Enc.Model.Json.DecTyped
import Enc.Spec.Json.DecTypedSpec
/-!
line-protocol handler
  `json.dectyped    <type> <flags 0..3: UseNumber=1 DisallowUnknownFields=2> <hex doc>[,<hex doc>…]`
  `json.dectypedcls …` (same arguments; the model's error CLASS, no specification column)
: the documents are decoded one after the other into the SAME target (all but the last are "priors": the data the target
already holds), each with `Unmarshal` / `Parse` / `Decoder.Decode`.

Type descriptor (shared with harness/c02typed.go):
  T ::= b | i1 i2 i4 i8 i0 (int8 int16 int32 int64 int) | u1 u2 u4 u8 u0 | f (float64) | s (string) | y ([]byte)
      | L T ([]T) | A <n> : T ([n]T) | M T (map[string]T) | P T (*T, initially nil) | N T (*T, initially non-nil)
      | { Name : T , … } (struct) | a (any, initially nil) | Q T (any, initially holding a non-nil *T)
`N` and `Q` describe the INITIAL content of the target only (their types are `*T` and `any`).

Observable: the canonical rendering of the final content
  T F | decimal | f<16 hex digits: IEEE bits> | s<hex> | N (nil slice / map) | [v,…] | <v,…> (array) | {<hexkey>:v,…} (sorted)
  | _ (nil pointer) | &o v (pointer that existed before the LAST call) | &n v (allocated by it) | &z v (zero-size pointee:
  addresses are not comparable) | (v;…) (struct) | a<generic> | a&o v …
  generic ::= nil | true | false | s(hex) | f64(<bits>) | num(<literal>) | [g,…] | {<hexkey>:g,…}
or `E<k>` (property level) / `E<k>:syntax|type|other` (class level) when the k-th call (0-based) fails.

A float64 is stored as its literal by model and specification (strconv.ParseFloat is a shared parameter); for the
rendering only, `f64Bits` computes the correctly rounded IEEE-754 double of the literal exactly (integer arithmetic).
-/
namespace Enc.Driver.JsonTyped
open Enc Enc.Model.Json Enc.Model.Json.Typed

/-! ### IEEE-754 bits of a JSON number literal (round to nearest even), for rendering -/

def roundDiv (p q : Nat) : Nat :=
  let fl := p / q
  let rem := p % q
  if 2 * rem > q || (2 * rem == q && fl % 2 == 1) then fl + 1 else fl

/-- bits of the double nearest to num/den (num, den > 0) -/
def ratBits (num den : Nat) : Nat :=
  let e0 : Int := (Nat.log2 num : Int) - (Nat.log2 den : Int)
  let ge (e : Int) : Bool := if 0 ≤ e then decide (den * 2 ^ e.toNat ≤ num) else decide (den ≤ num * 2 ^ (-e).toNat)
  let e : Int := if ge e0 then e0 else e0 - 1
  if e < -1022 then roundDiv (num * 2 ^ 1074) den
  else
    let sh : Int := 52 - e
    let m := if 0 ≤ sh then roundDiv (num * 2 ^ sh.toNat) den else roundDiv num (den * 2 ^ (-sh).toNat)
    let bits := (e + 1022).toNat * 2 ^ 52 + m
    if bits ≥ 2047 * 2 ^ 52 then 2047 * 2 ^ 52 else bits

def f64Bits (lit : Bytes) : Nat :=
  let neg := lit.head? == some 0x2d
  let b := if neg then lit.drop 1 else lit
  let (ip, r1) := Spec.Json.fSpan b
  let (fp, r2) : Bytes × Bytes := match r1 with | 0x2e :: r => Spec.Json.fSpan r | _ => ([], r1)
  let (eneg, xs) : Bool × Bytes :=
    match r2 with
    | c :: r => if c == 0x65 || c == 0x45 then
        (match r with
         | 0x2d :: r' => (true, (Spec.Json.fSpan r').1)
         | 0x2b :: r' => (false, (Spec.Json.fSpan r').1)
         | _ => (false, (Spec.Json.fSpan r).1))
      else (false, [])
    | [] => (false, [])
  let d := Spec.Json.fNat (ip ++ fp)
  let xn := if xs.length > 8 then 100000000 else Spec.Json.fNat xs
  let x : Int := if eneg then -(xn : Int) else (xn : Int)
  let e10 : Int := x - (fp.length : Int)
  let sign := if neg then 2 ^ 63 else 0
  if d == 0 then sign
  else if e10 > 400 then sign + 2047 * 2 ^ 52
  else if e10 + ((ip.length + fp.length : Nat) : Int) < -400 then sign
  else if 0 ≤ e10 then sign + ratBits (d * 10 ^ e10.toNat) 1
  else sign + ratBits d (10 ^ (-e10).toNat)

def hex16 (n : Nat) : String :=
  String.ofList ((List.range 16).reverse.map fun i => hexDigit ((n / 16 ^ i) % 16))

def str (x : Bytes) : String := String.ofList (x.map fun c => Char.ofNat c.toNat)

/-! ### rendering -/

mutual
def showG : GV → String
  | .null => "nil"
  | .bool true => "true"
  | .bool false => "false"
  | .num lit .f64 => "f64(" ++ hex16 (f64Bits lit) ++ ")"
  | .num lit _ => "num(" ++ str lit ++ ")"
  | .str s => "s(" ++ toHex s ++ ")"
  | .arr vs => "[" ++ String.intercalate "," (showGs vs) ++ "]"
  | .obj ms => "{" ++ String.intercalate "," (showGm ms) ++ "}"
def showGs : GVs → List String
  | .nil => []
  | .cons v rest => showG v :: showGs rest
def showGm : GMs → List String
  | .nil => []
  | .cons k v rest => (toHex k ++ ":" ++ showG v) :: showGm rest
end

mutual
/-- the content of a zero-size type: pointers to it all compare equal in Go -/
def zsV : JV → Bool
  | .array vs => zsVs vs
  | .strct vs => zsVs vs
  | _ => false
def zsVs : JVs → Bool
  | .nil => true
  | .cons v r => zsV v && zsVs r
end

def ptrFlag (old zs : Bool) : String := if zs then "z" else if old then "o" else "n"

mutual
def showV : JV → String
  | .bool true => "T"
  | .bool false => "F"
  | .int v => toString v
  | .float lit => "f" ++ hex16 (f64Bits lit)
  | .str s => "s" ++ toHex s
  | .slice true _ _ => "N"
  | .slice false vs _ => "[" ++ String.intercalate "," (showVs vs) ++ "]"
  | .array vs => "<" ++ String.intercalate "," (showVs vs) ++ ">"
  | .map true _ => "N"
  | .map false ms => "{" ++ String.intercalate "," (showMs ms) ++ "}"
  | .nilptr => "_"
  | .ptr old v => "&" ++ ptrFlag old (zsV v) ++ showV v
  | .strct vs => "(" ++ String.intercalate ";" (showVs vs) ++ ")"
  | .anyv g => "a" ++ showG g
  | .anyp _ old v => "a&" ++ ptrFlag old (zsV v) ++ showV v
def showVs : JVs → List String
  | .nil => []
  | .cons v r => showV v :: showVs r
def showMs : JMs → List String
  | .nil => []
  | .cons k v r => (toHex k ++ ":" ++ showV v) :: showMs r
end

/-! ### type descriptors -/

def isNameChar (c : Char) : Bool := c.isAlphanum || c == '_'

def widthOf (signed : Bool) (c : Char) : Option ITy :=
  match signed, c with
  | true, '1' => some .i8 | true, '2' => some .i16 | true, '4' => some .i32 | true, '8' => some .i64 | true, '0' => some .int
  | false, '1' => some .u8 | false, '2' => some .u16 | false, '4' => some .u32 | false, '8' => some .u64 | false, '0' => some .uint
  | _, _ => none

def nameBytes (cs : List Char) : Bytes := cs.map fun c => UInt8.ofNat c.toNat

mutual
/-- type, initial content, rest of the descriptor -/
def parseTy : Nat → List Char → Option (JT × JV × List Char)
  | 0, _ => none
  | _ + 1, [] => none
  | n + 1, c :: r =>
    match c with
    | 'b' => some (.bool, .bool false, r)
    | 'i' => (match r with | w :: r' => (widthOf true w).map fun t => (JT.int t, JV.int 0, r') | [] => none)
    | 'u' => (match r with | w :: r' => (widthOf false w).map fun t => (JT.int t, JV.int 0, r') | [] => none)
    | 'f' => some (.float, .float zeroLit, r)
    | 's' => some (.str, .str [], r)
    | 'y' => some (.slice (.int .u8), .slice true .nil .nil, r)
    | 'L' => (parseTy n r).map fun x => (JT.slice x.1, JV.slice true .nil .nil, x.2.2)
    | 'M' => (parseTy n r).map fun x => (JT.mapS x.1, JV.map true .nil, x.2.2)
    | 'P' => (parseTy n r).map fun x => (JT.ptr x.1, JV.nilptr, x.2.2)
    | 'N' => (parseTy n r).map fun x => (JT.ptr x.1, JV.ptr true x.2.1, x.2.2)
    | 'a' => some (.any, .anyv .null, r)
    | 'Q' => (parseTy n r).map fun x => (JT.any, JV.anyp x.1 true x.2.1, x.2.2)
    | 'A' =>
      let ds := r.takeWhile Char.isDigit
      (match r.dropWhile Char.isDigit with
       | ':' :: r' =>
         (parseTy n r').map fun x =>
           let k := (String.ofList ds).toNat!
           (JT.array k x.1, JV.array (JVs.replicate x.2.1 k), x.2.2)
       | _ => none)
    | '{' =>
      (match r with
       | '}' :: r' => some (.strct .nil, .strct .nil, r')
       | _ => (parseFs n r).map fun x => (JT.strct x.1, JV.strct x.2.1, x.2.2))
    | _ => none
def parseFs : Nat → List Char → Option (JFs × JVs × List Char)
  | 0, _ => none
  | n + 1, r =>
    let nm := r.takeWhile isNameChar
    match r.dropWhile isNameChar with
    | ':' :: r1 =>
      (parseTy n r1).bind fun x =>
        match x.2.2 with
        | ',' :: r2 => (parseFs n r2).map fun y => (JFs.cons (nameBytes nm) x.1 y.1, JVs.cons x.2.1 y.2.1, y.2.2)
        | '}' :: r2 => some (JFs.cons (nameBytes nm) x.1 .nil, JVs.cons x.2.1 .nil, r2)
        | _ => none
    | _ => none
end

/-- the descriptor (prefix notation) has a pointer to a pointer: `P`/`N`/`Q` directly followed by `P`/`N` -/
def adjPtr : List Char → Bool
  | a :: b :: r => ((a == 'P' || a == 'N' || a == 'Q') && (b == 'P' || b == 'N')) || adjPtr (b :: r)
  | _ => false

def clsName : UR → String
  | .ok _ => "ok"
  | .syn => "syntax"
  | .ty => "type"
  | .oth => "other"

def showSeq (cls : Bool) : SeqRes → String
  | .ok v => showV v
  | .failed k e => "E" ++ toString k ++ (if cls then ":" ++ clsName e else "")

def showSpec : JV ⊕ Nat → String
  | .inl v => showV v
  | .inr k => "E" ++ toString k

def containsNull (docs : List Bytes) : Bool :=
  docs.any fun d => (List.range d.length).any fun i => hasPrefix (d.drop i) nullLit

def run (cls : Bool) (ty : String) (m : Nat) (docs : List Bytes) : Option (String × String × String) := do
  let (t, init, rest) ← parseTy (ty.length + 1) ty.toList
  if !rest.isEmpty then none
  let c : TFlags := { useNumber := m % 2 == 1, disallowUnknown := m / 2 % 2 == 1 }
  let mS := showSeq cls (unmarshalSeq c t init docs 0)
  if cls then pure (mS, "-", "")
  else
    let sS := showSpec (Spec.Json.unmarshalSeq c t init docs 0)
    let k := if mS != sS && adjPtr ty.toList && containsNull docs then "jsonNullNestedPointer" else ""
    pure (mS, sS, k)

def handle (op : String) (args : List String) : Option (String × String × String) :=
  match args with
  | [ty, m, ds] => do
    let m ← m.toNat?
    let docs ← (ds.splitOn ",").mapM fromHex
    run (op == "json.dectypedcls") ty m docs
  | _ => none

end Enc.Driver.JsonTyped
