import Enc.Model.Json.CodecChoiceDec
import Enc.Spec.Json.StdCodecChoiceDec
import Enc.Spec.Json.DecDeviation
import Enc.Driver.JsonCodec
import Enc.Spec.Json.EmbedCycle
/-!
Driver for the op `json.codecchoicedec <descriptor> <variant>` (descriptor grammar: Driver/JsonCodec.lean; the harness,
harness/c01codecdec.go, derives the descriptor from a Go value by reflection).

The CANONICAL DOCUMENT of a type is the JSON text of its canonical value (Driver/JsonCodec.lean: true, 7, 1.5, "s",
Number 1, Duration 7, zero Time, RawMessage [1], one element per slice / map, pointers, slices and maps nil below
`maxIndir` indirections) written by kind alone: no method is consulted, promoted fields of embedded structs are members
of the enclosing object (of the members with the same name — a cycle of embedded pointers — the shallowest one is
written), a field with the `string` option (scalar kinds, one unnamed pointer removed) is quoted, a
`[]E` with E of kind uint8 is the base64 string "Bw==" unless `*E` has an unmarshaling method (then `[7]`).

Variants: `full` — the canonical document into a fresh (zero) target; `fullp` — into a target PRE-FILLED with the
canonical value (interfaces then hold pointers); `n0`, `n1`, `n2` — pre-filled target, every value at JSON depth 0 / 1 / 2
of the document replaced by `null`; `alt` — fresh target, the two forms of byte slices swapped.

Observable: `<document> => <dump of the target after Unmarshal>` or `<document> => err`. Every UnmarshalJSON /
UnmarshalText method of the zoo records a code in the value it is called on: 101 UnmarshalJSON (pointer receiver), 111
the same called with `null`, 102 UnmarshalText (pointer receiver), 103 / 113 / 104 the same for value receivers (only
visible on non-nil slices and maps: the element is overwritten). Dump: `nil`, `&v`, `[a,b]`, `{k:v,…}` (maps sorted by
the dump of the key), `{Name:v,…}` (structs: JSON names, embedded structs nested), `<kind:v>` (interface content).
-/
namespace Enc.Driver.JsonCodecDec
open Enc.Model.Json.CodecChoice Enc.Driver.JsonCodec

/-! ### documents -/

inductive LitCls where
  | bool | num | str
  deriving DecidableEq, Repr

inductive J where
  | null
  | lit (text : String) (cls : LitCls)      -- str: the content of the string
  | arr (xs : List J)
  | obj (ms : List (String × J))
  deriving Repr, Inhabited

partial def J.render : J → String
  | .null => "null"
  | .lit s .str => quoteJSON s
  | .lit s _ => s
  | .arr xs => "[" ++ String.intercalate "," (xs.map J.render) ++ "]"
  | .obj ms => "{" ++ String.intercalate "," (ms.map fun (k, v) => quoteJSON k ++ ":" ++ v.render) ++ "}"

/-- the literal inside a quoted field (documents of this driver only: no escapes inside) -/
def J.ofContent (s : String) : J :=
  if s == "null" then .null
  else if s == "true" || s == "false" then .lit s .bool
  else match s.toList with
    | '"' :: r => .lit (String.ofList (r.take (r.length - 1))) .str
    | _ => .lit s .num

partial def J.hasNull : J → Bool
  | .null => true
  | .arr xs => xs.any J.hasNull
  | .obj ms => ms.any fun (_, v) => v.hasNull
  | _ => false

partial def J.nullAt : Nat → J → J
  | 0, _ => .null
  | k + 1, .arr xs => .arr (xs.map (J.nullAt k))
  | k + 1, .obj ms => .obj (ms.map fun (n, v) => (n, J.nullAt k v))
  | _, j => j

/-- target state: the zero value, or the canonical value `visits` indirections below the root -/
inductive St where
  | zero
  | canon (visits : Nat)
  deriving DecidableEq, Repr

def isNilKind : TD → Bool
  | .ptr _ | .slice _ | .map .. => true
  | _ => false

def hasUnm (env : Env) (e : TD) : Bool := implPtr env .uj e || implPtr env .ut e

def keyText (env : Env) (k : TD) : String :=
  if isIntKind (under env k) then "7" else "s"

/-- of the members with the same name (promoted through a cycle of embedded pointers) the shallowest one is written, the
first one of these -/
def shallowest (ms : List (String × Nat × J)) : List (String × J) :=
  let ims := (List.range ms.length).zip ms
  ims.filterMap fun (i, (n, d, j)) =>
    if ims.any (fun (i2, (n2, d2, _)) => n2 == n && (d2 < d || (d2 == d && i2 < i))) then none else some (n, j)

mutual
/-- the canonical document of type `t`, `visits` indirections below the root; `alt`: byte-slice forms swapped -/
partial def docOf (env : Env) (alt : Bool) (t : TD) (visits : Nat) : J :=
  let u := under env t
  if decide (maxIndir ≤ visits) && isNilKind u then .null
  else
    match u with
    | .special .number => .lit "1" .num
    | .special .duration => .lit "7" .num
    | .special .time => .lit "0001-01-01T00:00:00Z" .str
    | .special .rawMessage => .arr [.lit "1" .num]
    | .prim .bool => .lit "true" .bool
    | .prim .float32 | .prim .float64 => .lit "1.5" .num
    | .prim .string => .lit "s" .str
    | .prim .chan | .prim .complex => .null
    | .prim _ => .lit "7" .num
    | .slice e =>
      if under env e == .prim .uint8 && (hasUnm env e == alt) then .lit "Bw==" .str
      else .arr [docOf env alt e (visits + 1)]
    | .array n e => .arr (List.replicate n (docOf env alt e visits))
    | .map k v => .obj [(keyText env k, docOf env alt v (visits + 1))]
    | .ptr e => docOf env alt e (visits + 1)
    | .struct fs => .obj (shallowest (docFields env alt fs visits 0))
    | .any dyn | .iface _ _ dyn => (match dyn with | .nil => .null | dyn => docOf env alt dyn visits)
    | _ => .null
/-- the members with the depth of embedding they are promoted from -/
partial def docFields (env : Env) (alt : Bool) (fs : FL) (visits depth : Nat) : List (String × Nat × J) :=
  match fs with
  | .nil => []
  | .cons name emb str ft rest =>
    let typ := match ft with | .ptr e => e | t => t
    let here :=
      if emb && isStructKind (under env typ) then
        if isPtrKind ft then
          (if maxIndir ≤ visits then [] else docFields env alt (fieldsOf env typ) (visits + 1) (depth + 1))
        else docFields env alt (fieldsOf env typ) visits (depth + 1)
      else
        let j := docOf env alt ft visits
        let j := if str && isScalarKind (under env typ) then
            (match j with | .null => J.null | j => .lit j.render .str)
          else j
        [(name, depth, j)]
    here ++ docFields env alt rest visits depth
end

/-! ### dumps -/

def kindName (env : Env) (t : TD) : String :=
  match under env t with
  | .prim .bool => "bool" | .prim .int => "int" | .prim .int8 => "int8" | .prim .int16 => "int16"
  | .prim .int32 => "int32" | .prim .int64 => "int64" | .prim .uint => "uint" | .prim .uint8 => "uint8"
  | .prim .uint16 => "uint16" | .prim .uint32 => "uint32" | .prim .uint64 => "uint64" | .prim .uintptr => "uintptr"
  | .prim .float32 => "float32" | .prim .float64 => "float64" | .prim .string => "string"
  | .prim .chan => "chan" | .prim .complex => "complex128"
  | .special .number => "string" | .special .duration => "int64" | .special .time => "struct"
  | .special .rawMessage => "slice"
  | .slice _ => "slice" | .array .. => "array" | .map .. => "map" | .ptr _ => "ptr" | .struct _ => "struct"
  | .any _ | .iface .. => "interface" | .nil => "nil" | .ref _ => "?"

def sortEntries (es : List (String × String)) : List (String × String) :=
  (es.toArray.qsort fun a b => a.1 < b.1).toList

def showMap (es : List (String × String)) : String :=
  "{" ++ String.intercalate "," ((sortEntries es).map fun (k, v) => k ++ ":" ++ v) ++ "}"

mutual
/-- the dump of the zero value / of the canonical value of type t -/
partial def dumpVal (env : Env) (t : TD) (st : St) : String :=
  let u := under env t
  match st with
  | .zero =>
    (match u with
      | .prim .bool => "false"
      | .prim .string | .special .number => "\"\""
      | .prim .chan | .prim .complex => "nil"
      | .prim _ | .special .duration => "0"
      | .special .time => "T0001-01-01T00:00:00Z"
      | .array n e => "[" ++ String.intercalate "," (List.replicate n (dumpVal env e .zero)) ++ "]"
      | .struct fs => "{" ++ String.intercalate "," (dumpFields env fs .zero) ++ "}"
      | _ => "nil")
  | .canon v =>
    if decide (maxIndir ≤ v) && isNilKind u then "nil"
    else
      (match u with
        | .prim .bool => "true"
        | .prim .float32 | .prim .float64 => "1.5"
        | .prim .string => "\"s\""
        | .prim .chan | .prim .complex => "nil"
        | .prim _ | .special .duration => "7"
        | .special .number => "\"1\""
        | .special .time => "T0001-01-01T00:00:00Z"
        | .special .rawMessage => "raw:[1]"
        | .slice e => "[" ++ dumpVal env e (.canon (v + 1)) ++ "]"
        | .array n e => "[" ++ String.intercalate "," (List.replicate n (dumpVal env e (.canon v))) ++ "]"
        | .map k e => "{" ++ dumpVal env k (.canon (v + 1)) ++ ":" ++ dumpVal env e (.canon (v + 1)) ++ "}"
        | .ptr e => "&" ++ dumpVal env e (.canon (v + 1))
        | .struct fs => "{" ++ String.intercalate "," (dumpFields env fs (.canon v)) ++ "}"
        | .any dyn | .iface _ _ dyn =>
          (match dyn with
            | .nil => "nil"
            | dyn => "<" ++ kindName env dyn ++ ":" ++ dumpVal env dyn (.canon v) ++ ">")
        | _ => "nil")
partial def dumpFields (env : Env) (fs : FL) (st : St) : List String :=
  match fs with
  | .nil => []
  | .cons name _ _ ft rest => (name ++ ":" ++ dumpVal env ft st) :: dumpFields env rest st
end

/-- a pointer / slice / map in this state is non-nil -/
def St.nonNil : St → Bool
  | .canon v => decide (v < maxIndir)
  | .zero => false

/-- the state of what a pointer (slice element 0, embedded pointer) leads to: the existing target, or a fresh one -/
def St.inner : St → St
  | .canon v => if v < maxIndir then .canon (v + 1) else .zero
  | .zero => .zero

/-! ### what the methods of the zoo record -/

/-- the receiver the method `m` that `*t` has is declared with (an unnamed struct: of the promoting field's type) -/
partial def recvOfMeth (env : Env) (m : Meth) (t : TD) : Recv :=
  match t with
  | .struct fs =>
    let rec go : FL → Recv
      | .nil => .none
      | .cons _ emb _ ft r =>
        let typ := match ft with | .ptr e => e | t => t
        if emb && (declared env typ).get m != .none then (declared env typ).get m else go r
    go fs
  | t => (declared env t).get m

mutual
/-- the dump of a value of type t (state st) after a pointer-receiver method stored `code` in it -/
partial def codeInto (env : Env) (t : TD) (code : String) (st : St) : String :=
  match under env t with
  | .prim .string | .special .number => "\"" ++ code ++ "\""
  | .prim _ | .special .duration => code
  | .slice _ => "[" ++ code ++ "]"
  | .map .. => "{\"s\":" ++ code ++ "}"
  | .array n e => "[" ++ String.intercalate "," (code :: List.replicate (n - 1) (dumpVal env e st)) ++ "]"
  | .struct fs => "{" ++ String.intercalate "," (codeFields env fs code st).1 ++ "}"
  | _ => dumpVal env t st
/-- the field X of the struct, or of the first embedded struct that has one, is set -/
partial def codeFields (env : Env) (fs : FL) (code : String) (st : St) : List String × Bool :=
  match fs with
  | .nil => ([], false)
  | .cons name emb _ ft rest =>
    if name == "X" && !emb then
      ((name ++ ":" ++ code) :: dumpFields env rest st, true)
    else
      let typ := match ft with | .ptr e => e | t => t
      let viaEmb : Option String :=
        if emb && isStructKind (under env typ) && !isPtrKind ft then
          let (sub, ok) := codeFields env (fieldsOf env typ) code st
          if ok then some (name ++ ":{" ++ String.intercalate "," sub ++ "}") else none
        else none
      match viaEmb with
      | some s => (s :: dumpFields env rest st, true)
      | none =>
        let (r, ok) := codeFields env rest code st
        ((name ++ ":" ++ dumpVal env ft st) :: r, ok)
end

/-- the value after `(*T).UnmarshalJSON` / `UnmarshalText` ran on it (`isNull`: called with `null`) -/
def afterMethod (env : Env) (m : Meth) (t : TD) (isNull : Bool) (st : St) : String :=
  let base := if m == .uj then (if isNull then 111 else 101) else 102
  match recvOfMeth env m t with
  | .ptr => codeInto env t (toString base) st
  | .val =>
    -- a value receiver can only write through a non-nil slice or map
    (match under env t with
      | .slice _ | .map .. => if st.nonNil then codeInto env t (toString (base + 2)) st else dumpVal env t st
      | _ => dumpVal env t st)
  | .none => "BAD-nomethod"

/-! ### the run-time walk -/

structure Sem where
  nullAct : DChoice → TD → NullAct
  /-- the decoder of a top-level target of this type (what an interface holds is decoded through the cache) -/
  top : TD → DChoice

partial def genDump : J → String
  | .null => "nil"
  | .lit s .bool => "<bool:" ++ s ++ ">"
  | .lit s .num => "<float64:" ++ s ++ ">"
  | .lit s .str => "<string:" ++ quoteJSON s ++ ">"
  | .arr xs => "<slice:[" ++ String.intercalate "," (xs.map genDump) ++ "]>"
  | .obj ms => "<map:" ++ showMap (ms.map fun (k, v) => (quoteJSON k, genDump v)) ++ ">"

def isNumText (s : String) : Bool := !s.isEmpty && s.toList.all fun c => c.isDigit || c == '-' || c == '.'
def isIntText (s : String) : Bool := !s.isEmpty && s.toList.all fun c => c.isDigit || c == '-'

def stripEmbed : DChoice → DChoice
  | .embedPtr x => stripEmbed x
  | c => c

/-- the JSON names of the fields of a struct, promoted ones included -/
partial def leafNames (env : Env) (fuel : Nat) (fs : FL) : List String :=
  match fs with
  | .nil => []
  | .cons name emb _ ft rest =>
    let typ := match ft with | .ptr e => e | t => t
    (if emb && isStructKind (under env typ) then
      (if fuel == 0 then [] else leafNames env (fuel - 1) (fieldsOf env typ))
     else [name]) ++ leafNames env fuel rest

def isFloatKind : TD → Bool
  | .prim .float32 | .prim .float64 => true
  | _ => false

/-- the field list of a structType laid over the fields of the TYPE: which entry decodes which field. `sub = none`: the
embedded struct contributes no entries (the promotion was cut there). -/
inductive FT where
  | leaf (name : String) (ft : TD) (c : DChoice)
  | emb (name : String) (ft : TD) (sub : Option (List FT))

def embedCount : DChoice → Nat
  | .embedPtr x => embedCount x + 1
  | _ => 0

def dlLength : DL → Nat
  | .nil => 0
  | .cons _ _ _ r => dlLength r + 1

/-- the entries are in field order, the entries of an embedded struct in place, wrapped once per embedded pointer on the
way (`k`); an embedded struct is entered only when the next entry can belong to it (this bounds the descent through a
cycle of embedded pointers). `none`: the list does not fit the type. -/
partial def parseFields (env : Env) (fs : FL) (k : Nat) (dl : DL) : Option (List FT × DL) :=
  match fs with
  | .nil => some ([], dl)
  | .cons name emb _ ft rest =>
    let typ := peel ft
    if emb && isStructKind (under env typ) then
      let k' := if isPtrKind ft then k + 1 else k
      let present : Option (List FT × DL) :=
        match dl with
        | .nil => none
        | .cons _ _ c _ =>
          if embedCount c < k' then none
          else
            match parseFields env (fieldsOf env typ) k' dl with
            | some (sub, dl') => if dlLength dl' < dlLength dl then some (sub, dl') else none
            | none => none
      match present with
      | some (sub, dl') => do
        let (r, dl'') ← parseFields env rest k dl'
        pure (.emb name ft (some sub) :: r, dl'')
      | none => do
        let (r, dl'') ← parseFields env rest k dl
        pure (.emb name ft none :: r, dl'')
    else
      match dl with
      | .cons n _ c r =>
        if n == name && embedCount c == k then do
          let (x, dl') ← parseFields env rest k r
          pure (.leaf name ft c :: x, dl')
        else none
      | .nil => none

partial def FT.leaves : FT → List String
  | .leaf n _ _ => [n]
  | .emb _ _ none => []
  | .emb _ _ (some sub) => sub.flatMap FT.leaves

mutual
partial def dec (env : Env) (sem : Sem) (c : DChoice) (t : TD) (j : J) (st : St) : Option String :=
  let u := under env t
  let cur := dumpVal env t st
  /- an interface holding a non-nil pointer: the pointer's element type -/
  let held : Option TD :=
    match st, u with
    | .canon v, .any dyn | .canon v, .iface _ _ dyn =>
      (match under env dyn with
        | .ptr e => if v < maxIndir then some e else none
        | _ => none)
    | _, _ => none
  let through (e : TD) : Option String := do
    let r ← dec env sem (sem.top e) e j st.inner
    pure ("<ptr:&" ++ r ++ ">")
  match c with
  | .cut => some "CUT"
  | .structRef .. | .recur .. | .mapFast _ | .embedPtr _ | .keyInt => some "BAD-node"
  | _ =>
  match j with
  | .null =>
    (match sem.nullAct c u with
      | .leave => some cur
      | .zero => some "nil"
      | .method => some (afterMethod env .uj t true st)
      | .raw => some "raw:null"
      | .inner =>
        (match c with
          | .quoted x | .quotedInt x => dec env sem x t .null st
          | _ => some "BAD-inner")
      | .ptrFwd =>
        (match c, u with
          | .ptr x, .ptr e =>
            if st.nonNil && isPtrKind (under env e) then do
              let r ← dec env sem x e .null st.inner
              pure ("&" ++ r)
            else some "nil"
          | _, _ => some "BAD-ptrFwd")
      | .ifaceHeld =>
        (match held with
          | some e => if isPtrKind (under env e) then through e else some "nil"
          | none => some "nil"))
  | j =>
    match c with
    | .null => none
    | .prim k =>
      (match j with
        | .lit s .bool => if k == .bool then some s else none
        | .lit s .num =>
          if isFloatKind (.prim k) then some s
          else if isIntKind (.prim k) && isIntText s then some s
          else none
        | .lit s .str => if k == .string then some (quoteJSON s) else none
        | _ => none)
    | .special .number =>
      (match j with
        | .lit s .num => some (quoteJSON s)
        | .lit s .str => if isNumText s then some (quoteJSON s) else none
        | _ => none)
    | .special .duration =>
      (match j with
        | .lit s .num => if isIntText s then some s else none
        | _ => none)
    | .special .time =>
      (match j with
        | .lit s .str => some ("T" ++ s)
        | _ => none)
    | .special .rawMessage => some ("raw:" ++ j.render)
    | .bytes => decSlice env sem (.prim .uint8) (.prim .uint8) j st
    | .slice x =>
      (match u with
        | .slice e => decSlice env sem x e j st
        | _ => some "BAD-slice")
    | .array n x =>
      (match u, j with
        | .array _ e, .arr xs => do
          let rs ← (List.range n).mapM fun i =>
            match xs[i]? with
            | some xj => dec env sem x e xj st
            | none => some (dumpVal env e .zero)
          pure ("[" ++ String.intercalate "," rs ++ "]")
        | .array .., _ => none
        | _, _ => some "BAD-array")
    | .ptr x =>
      (match u with
        | .ptr e => do
          let r ← dec env sem x e j st.inner
          pure ("&" ++ r)
        | _ => some "BAD-ptr")
    | .map kc vc =>
      (match u, j with
        | .map k v, .obj ms => do
          let es ← ms.mapM fun (name, jv) => do
            let kd ← decKey env kc k name
            let vd ← dec env sem vc v jv .zero
            pure (kd, vd)
          -- the entries the map already has stay, unless overwritten
          let old :=
            if st.nonNil then
              let kd := dumpVal env k st.inner
              if es.any (fun e => e.1 == kd) then [] else [(kd, dumpVal env v st.inner)]
            else []
          pure (showMap (old ++ es))
        | .map .., _ => none
        | _, _ => some "BAD-map")
    | .struct dl =>
      (match u, j with
        | .struct fs, .obj ms =>
          (match parseFields env fs 0 dl with
            | some (fts, .nil) => do
              let rs ← decFields env sem fts ms st
              pure ("{" ++ String.intercalate "," rs ++ "}")
            | _ => some "BAD-fields")
        | .struct _, _ => none
        | _, _ => some "BAD-struct")
    | .quoted x | .quotedInt x =>
      (match j with
        | .lit s .str => dec env sem x t (J.ofContent s) st
        | _ => none)
    | .uj => some (afterMethod env .uj t false st)
    | .ut =>
      (match j with
        | .lit _ .str => some (afterMethod env .ut t false st)
        | _ => none)
    | .iface | .ifaceMaybe =>
      (match held with
        | some e => through e
        | none =>
          let empty := match u with | .any _ => true | _ => false
          if c == .iface || empty then some (genDump j) else none)
    | _ => none
/-- decodeSlice / d.array into a slice: slot 0 of a non-nil canonical slice (len = cap = 1) keeps its old content -/
partial def decSlice (env : Env) (sem : Sem) (x : DChoice) (e : TD) (j : J) (st : St) : Option String :=
  match j with
  | .arr xs => do
    let rs ← (List.range xs.length).mapM fun i =>
      dec env sem x e (xs.getD i .null) (if i == 0 then st.inner else .zero)
    pure ("[" ++ String.intercalate "," rs ++ "]")
  | .lit s .str =>
    if under env e == .prim .uint8 then (if s == "Bw==" then some "[7]" else none) else none
  | _ => none
partial def decKey (env : Env) (kc : DChoice) (k : TD) (name : String) : Option String :=
  match kc with
  | .prim .string => some (quoteJSON name)
  | .keyInt => if isIntText name then some name else none
  | .ut =>
    -- (*time.Time).UnmarshalText: the key texts of this driver ("s", "7") are not times
    (match under env k with
      | .special _ => none
      | _ => some (afterMethod env .ut k false .zero))
  | .uj =>
    (match under env k with
      | .special _ => none
      | _ => some (afterMethod env .uj k false .zero))
  | _ => none
/-- decodeStruct / d.object into a struct: by the fields of the TYPE, each with the entry of the structType that decodes it -/
partial def decFields (env : Env) (sem : Sem) (fts : List FT) (ms : List (String × J)) (st : St) :
    Option (List String) :=
  match fts with
  | [] => some []
  | f :: rest => do
    let here ←
      match f with
      | .emb name ft none => pure (name ++ ":" ++ dumpVal env ft st)
      | .emb name ft (some sub) =>
        if isPtrKind ft then
          -- decodeEmbeddedStructPointer allocates as soon as a promoted field is decoded (a `null` included)
          let touched := (sub.flatMap FT.leaves).any fun n => (ms.lookup n).isSome
          if st.nonNil || touched then do
            let rs ← decFields env sem sub ms st.inner
            pure (name ++ ":&{" ++ String.intercalate "," rs ++ "}")
          else pure (name ++ ":nil")
        else do
          let rs ← decFields env sem sub ms st
          pure (name ++ ":{" ++ String.intercalate "," rs ++ "}")
      | .leaf name ft fc =>
        match ms.lookup name with
        | some fj => do
          let r ← dec env sem (stripEmbed fc) ft fj st
          pure (name ++ ":" ++ r)
        | none => pure (name ++ ":" ++ dumpVal env ft st)
    let r ← decFields env sem rest ms st
    pure (here :: r)
end

/-! ### the op -/

def modelSem (depth : Nat) (env : Env) : Sem :=
  { nullAct := nullActM, top := fun e => topTreeD depth env e }

def specSem (depth : Nat) (env : Env) : Sem :=
  { nullAct := Enc.Spec.Json.StdCodecChoiceDec.nullActS,
    top := fun e => Enc.Spec.Json.StdCodecChoiceDec.stdDecD depth env e true }

structure Variant where
  prefilled : Bool
  alt : Bool
  nullDepth : Option Nat

def variantOf : String → Option Variant
  | "full" => some ⟨false, false, none⟩
  | "fullp" => some ⟨true, false, none⟩
  | "alt" => some ⟨false, true, none⟩
  | "n0" => some ⟨true, false, some 0⟩
  | "n1" => some ⟨true, false, some 1⟩
  | "n2" => some ⟨true, false, some 2⟩
  | _ => none

def docFor (env : Env) (t : TD) (v : Variant) : J :=
  let j := match t with | .nil => J.null | t => docOf env v.alt t 0
  match v.nullDepth with
  | some k => j.nullAt k
  | none => j

/-- the trees are unfolded only as deep as the walk needs: deepen until it meets no `.cut` -/
def runSem (mk : Nat → Env → Sem) (env : Env) (t : TD) (v : Variant) : String :=
  let j := docFor env t v
  let st := if v.prefilled then St.canon 0 else St.zero
  let rec go (fuel depth : Nat) : String :=
    let sem := mk depth env
    let r := match t with
      | .nil => "err"
      | t => (dec env sem (sem.top t) t j st).getD "err"
    match fuel with
    | 0 => r
    | fuel + 1 => if hasCut r then go fuel (depth + 2) else r
  j.render ++ " => " ++ go 20 3

/-! ### known findings (classes computed from the type graph; attached only when model and specification differ) -/

mutual
partial def subTypes (env : Env) (fuel : Nat) (t : TD) : List TD :=
  t :: (if fuel == 0 then [] else
    match t with
    | .slice e | .array _ e | .ptr e => subTypes env (fuel - 1) e
    | .map k v => subTypes env (fuel - 1) k ++ subTypes env (fuel - 1) v
    | .struct fs => subTypesF env (fuel - 1) fs
    | .any dyn | .iface _ _ dyn => subTypes env (fuel - 1) dyn
    | _ => [])
partial def subTypesF (env : Env) (fuel : Nat) : FL → List TD
  | .nil => []
  | .cons _ _ _ t r => subTypes env fuel t ++ subTypesF env fuel r
end

def allTypes (env : Env) (t : TD) : List TD :=
  subTypes env 16 t ++ env.flatMap fun (id, d) => TD.ref id :: subTypes env 16 d.under

/-- the shape that can still differ after the repair of `jsonEmbeddedStructUnderConstruction` (json/codec.go
`structType.root`): the root type, or the type of the content of an interface inside the value (each is compiled on its
own, through the cache), has a struct type on a cycle of EMBEDDED structs (Spec/Json/EmbedCycle.lean) -/
def embedCycleAny (env : Env) (t : TD) : Bool :=
  let roots := t :: (dyns t ++ env.flatMap fun (_, d) => dyns d.under)
  roots.any (Enc.Spec.Json.EmbedCycle.embedCycle env)

def classes (env : Env) (t : TD) (v : Variant) : List String :=
  let ts := allTypes env t
  let isNullVar := (docFor env t v).hasNull
  let c1 := if embedCycleAny env t then ["jsonEmbeddedStructUnderConstruction"] else []
  -- the class predicates are the definitions of Spec/Json/DecDeviation.lean (the hypotheses of `chooseDec_eq_std`)
  let c2 := if ts.any (Enc.Spec.Json.DecDeviation.promotedUnm env) then ["jsonDecPromotedUnmarshalerOfUnnamedStruct"] else []
  let c3 := if isNullVar && ts.any (Enc.Spec.Json.DecDeviation.nullKeepsTextContainer env)
    then ["jsonDecNullKeepsTextUnmarshalerContainer"] else []
  let c4 := if isNullVar && ts.any (Enc.Spec.Json.DecDeviation.nullNestedPointer env) then ["jsonNullNestedPointer"] else []
  let c5 := if ts.any (fun x => match under env x with
      | .map k _ => Enc.Spec.Json.DecDeviation.mapKeyBothUnm env k
      | _ => false) then ["jsonDecMapKeyPrefersUnmarshalText"] else []
  let c6 := if isNullVar && ts.any (Enc.Spec.Json.DecDeviation.nullNamedIfaceHeld env)
    then ["jsonDecNullNamedInterfaceHoldingPointer"] else []
  c1 ++ c2 ++ c3 ++ c4 ++ c5 ++ c6

def run (d variant : String) : Option (String × String × String) := do
  let (env, t) ← parse d
  let v ← variantOf variant
  let m := runSem modelSem env t v
  let s := runSem specSem env t v
  pure (m, s, if m != s then String.intercalate "," (classes env t v) else "")

/-- debug: the trees themselves -/
def runTree (d : String) : Option (String × String × String) := do
  let (env, t) ← parse d
  pure (toString (repr (topTreeD 8 env t)), toString (repr (Enc.Spec.Json.StdCodecChoiceDec.stdDecD 8 env t true)),
    toString (repr (constructDec env t)))

/-- debug: at which depths 0..12 and addressabilities the unfolded model tree differs from the spec tree (`viaPtr`) -/
def runEq (d : String) : Option (String × String × String) := do
  let (env, t) ← parse d
  let bad := (List.range 13).foldl (fun acc dep =>
    [false, true].foldl (fun acc a =>
      let r := chooseDec env t a
      if expandDecD dep env r.2 r.1 == Enc.Spec.Json.StdCodecChoiceDec.stdDecD dep env t true then acc
      else acc ++ [toString dep ++ (if a then "a" else "n")]) acc) []
  -- second component: the hypotheses of `chooseDec_eq_std` (Props/C01CodecDec.lean) evaluated on this type
  pure (String.intercalate "," bad,
    "embedCycle=" ++ toString (Enc.Spec.Json.EmbedCycle.embedCycle env t) ++ " decDeviationFree=" ++
      toString (Enc.Spec.Json.DecDeviation.decDeviationFree env t), "")

end Enc.Driver.JsonCodecDec
