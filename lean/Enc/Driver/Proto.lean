import Enc.Model.Proto
import Enc.Model.ProtoTo
import Enc.Spec.Protobuf
import Enc.Spec.Known
import Enc.Driver.ProtoScan
/-! line-protocol handlers, area `proto`. -/
namespace Enc.Driver.Proto
open Enc

def showDec (ty : Ty) : Res Val → String
  | .ok v => "ok:" ++ (Spec.Protobuf.canonical ty v).show
  | .err _ => "err"
  | .panic e => "panic:" ++ e

def handle (op : String) (args : List String) : Option (String × String × String) :=
  match op, args with
  | "proto.varint", [n] => do
    let n ← n.toNat?
    let m := Model.Proto.encodeVarint (BitVec.ofNat 64 n)
    pure (toHex m ++ ":" ++ toString (Model.Proto.sizeOfVarint (BitVec.ofNat 64 n)),
          toHex (Spec.Protobuf.leb128 n) ++ ":" ++ toString (Spec.Protobuf.leb128 n).length, "")
  | "proto.devarint", [h] => do
    let b ← fromHex h
    let m := match Model.Proto.decodeVarint b with
      | .ok (v, n) => s!"ok:{v.toNat}:{n}"
      | .err _ => "err"
      | .panic e => "panic:" ++ e
    let s := match Spec.Protobuf.readVarint b with
      | some (v, rest) => s!"ok:{v}:{b.length - rest.length}"
      | none => "err"
    pure (m, s, "")
  | "proto.zigzag", [i] => do
    let i ← i.toInt?
    let m := (Model.Proto.encodeZigZag64 (BitVec.ofInt 64 i)).toNat
    let back := (Model.Proto.decodeZigZag64 (BitVec.ofNat 64 m)).toInt
    pure (s!"{m}:{back}", s!"{Spec.Protobuf.zigzag i}:{i}", "")
  | "proto.marshal", [ty, v] => do
    let ty ← Ty.parse ty
    let v ← Val.parse v
    let b := Model.Proto.marshal ty v
    pure ("ok:" ++ toHex b ++ ":" ++ toString (Model.Proto.marshalSize ty v), "-",
          String.intercalate "," (Known.protoClasses ty v))
  | "proto.roundtrip", [ty, v, implhex] => do
    let ty ← Ty.parse ty
    let v ← Val.parse v
    let ib ← fromHex implhex
    let b := Model.Proto.marshal ty v
    let m := s!"sz={Model.Proto.marshalSize ty v};len={b.length};rt=" ++ showDec ty (Model.Proto.unmarshal ty b)
    let s := match Spec.Protobuf.decode ty ib with
      | some d => s!"sz={ib.length};len={ib.length};rt=ok:" ++ (Spec.Protobuf.canonical ty d).show
      | none => "-"
    pure (m, s, String.intercalate "," (Known.protoClasses ty v))
  -- proto.hist <type> <val1> <val2>: the round trip of val2 after failed decodes of corrupted encodings of val1 (history must not matter)
  | "proto.hist", [ty, _v1, v2] => handle "proto.roundtrip" [ty, v2]
  | "proto.roundtrip", [ty, v] => do
    let ty ← Ty.parse ty
    let v ← Val.parse v
    let b := Model.Proto.marshal ty v
    let m := s!"sz={Model.Proto.marshalSize ty v};len={b.length};rt=" ++ showDec ty (Model.Proto.unmarshal ty b)
    pure (m, "-", String.intercalate "," (Known.protoClasses ty v))
  | "proto.decode", [tys, h, want] => do
    let (m, s, k) ← handle "proto.decode" [tys, h]
    let ty ← Ty.parse tys
    let k2 := match Val.parse ((want.drop 3).toString) with
      | some v => Known.protoClasses ty v
      | none => []
    pure (m, s, String.intercalate "," ((k.splitOn ",").filter (· ≠ "") ++ k2))
  | "proto.decode", [ty, h] => do
    let ty ← Ty.parse ty
    let b ← fromHex h
    let s := match Spec.Protobuf.decode ty b with
      | some d => "ok:" ++ (Spec.Protobuf.canonical ty d).show
      | none => "-"
    pure (showDec ty (Model.Proto.unmarshal ty b), s,
          String.intercalate "," ((if Known.hasRepeatedZigzagOrFixed ty then ["protoRepeatedZigzagOrFixed"] else [])
            ++ (if Known.hasWideFieldNumber ty then ["protoFieldNumberUint16"] else [])))
  | "proto.marshalto", [ty, v, n] => do
    let ty ← Ty.parse ty
    let v ← Val.parse v
    let n ← n.toNat?
    let size := Model.Proto.marshalSize ty v
    let m := match Model.Proto.marshalTo ty v n with
      | .ok b =>
        if n ≥ size then s!"ok:n={b.length};bytes=" ++ (if b == Model.Proto.marshal ty v then "same" else "differ") ++ ";guard=1"
        else s!"ok:n={b.length}"
      | .err _ => if n ≥ size then "err" else "shortbuffer;guard=1"
      | .panic e => "panic:" ++ e
    -- spec: the statement of C16 itself
    let s := if n ≥ size then s!"ok:n={size};bytes=same;guard=1" else "shortbuffer;guard=1"
    pure (m, s, "")
  | "proto.decodeany", [ty, h] => do
    let ty ← Ty.parse ty
    let b ← fromHex h
    pure (showDec ty (Model.Proto.unmarshal ty b), "-", "")
  | op, args => Driver.ProtoScan.handle op args     -- proto.scan, proto.scanerr, proto.rawvalue, proto.tag

end Enc.Driver.Proto
