import Enc.Model.Proto
import Enc.Model.ProtoTo
import Enc.Model.ProtoAlloc
import Enc.Model.ProtoMsg
import Enc.Model.ProtoMsgObserver
import Enc.Driver.ProtoZoo
import Enc.Spec.Protobuf
import Enc.Spec.Known
import Enc.Driver.ProtoScan
/-! line-protocol handlers, area `proto`. -/
namespace Enc.Driver.Proto
open Enc

def showDec (ty : Ty) : Res Val → String
  | .ok v => "ok:" ++ (Spec.Protobuf.canonical ty v).show
  | .err _ => "err"
  | .panic e => "panic:" ++ e


/-! ### nesting limit on a recursive message type (`proto.deep`)

Go side: `type recG[T any] struct { Next *recG[T]; V int32; Leaf T }` (harness/protodeep.go). The `Ty` universe has no
recursive types, so the model decodes against the unrolling `chainTy n leaf` with `n` larger than any depth the decoder
can reach (`maxDepth + 3`; every struct decoder beyond `maxDepth` fails before it reads a byte). -/

def chainStep (leaf next : Ty) : Ty :=
  .struct (.cons "Next" "" false (.ptr next) (.cons "V" "" false (.int .i32) (.cons "Leaf" "" false leaf .nil)))

/-- `n` levels of `recG[leaf]`; below them a message without fields -/
def chainTy (n : Nat) (leaf : Ty) : Ty := (List.range n).foldl (fun t _ => chainStep leaf t) (.struct .nil)

/-- the input both sides build: `inner` (body of the innermost message) wrapped `levels - 1` times as field 1 (Next), every
enclosing message carrying `pre` before and `post` after that field -/
def nestBytes (levels : Nat) (pre post inner : Bytes) : Bytes :=
  -- body lengths from the innermost (l_1 = |inner|) outwards; `hdrs` = headers, outermost first
  let step := fun (acc : Nat × List Bytes) (_ : Nat) =>
    let (l, hdrs) := acc
    let hdr := pre ++ [0x0a] ++ Model.Proto.encodeVarint (BitVec.ofNat 64 l)
    (hdr.length + l + post.length, hdr :: hdrs)
  let (_, hdrs) := (List.range (levels - 1)).foldl step (inner.length, [])
  hdrs.flatten ++ inner ++ (List.replicate (levels - 1) post).flatten

def byteSum (b : Bytes) : Nat := b.foldl (fun a x => (a + x.toNat) % 4294967296) 0

/-- walk the decoded chain: (number of levels, V of the innermost, Leaf of the innermost) -/
def walkChain : Nat → Val → Nat → Nat × Int × Val
  | 0, _, n => (n, 0, .nil)
  | fuel + 1, .struct (.cons next (.cons (.int v) (.cons lf .nil))), n =>
    match next with
    | .ptr nx => walkChain fuel nx (n + 1)
    | _ => (n + 1, v, lf)
  | _, _, n => (n, 0, .nil)

/-! ### allocation accounting (`proto.allocm`)
slack of the correspondence `measured ≤ 3/2 · modelAlloc + allocC0`: size-class rounding of the Go allocator and the
one-off runtime costs of a call (boxing in `fmt.Errorf`, `sync.Pool` bookkeeping). Measured on 13 000 thorough cases:
median measured/model = 0.83, and `measured − 3/2·model ≤ 15` bytes everywhere. -/
def allocC0 : Nat := 512

def handle (op : String) (args : List String) : Option (String × String × String) :=
  match op, args with
  -- proto.allocm <type> <hex> <measured>: the third argument is the TotalAlloc delta the harness measured on the real code.
  -- M = layout and bound constants of the type, then the verdict of the two inequalities (distinct texts when one fails)
  | "proto.allocm", [ty, h, meas] => do
    let ty ← Ty.parse ty
    let b ← fromHex h
    let meas ← meas.toNat?
    let c := Model.Proto.codecOf ty
    let a := (Model.Proto.unmarshalA ty b).2
    let bound := c.K * b.length + c.K0
    let verdict :=
      if a > bound then s!"model={a}>bound={bound}"
      else if 2 * meas > 3 * a + 2 * allocC0 then s!"meas={meas}>1.5*model={a}+{allocC0}"
      else "ok"
    pure (s!"sz={Enc.sizeOfTy ty};csz={c.sz};K={c.K};K0={c.K0};{verdict}", "-", "")
  -- proto.allocnum <type> <hex>: the model's count alone (inspection / replay aid)
  | "proto.allocnum", [ty, h] => do
    let ty ← Ty.parse ty
    let b ← fromHex h
    let r := Model.Proto.unmarshalA ty b
    pure (s!"alloc={r.2};" ++ showDec ty r.1, "-", "")
  | "proto.varint", [n] => do
    let n ← n.toNat?
    let m := Model.Proto.encodeVarint (BitVec.ofNat 64 n)
    pure (toHex m ++ ":" ++ toString (Model.Proto.sizeOfVarint (BitVec.ofNat 64 n)),
          toHex (Spec.Protobuf.leb128 n) ++ ":" ++ toString (Spec.Protobuf.leb128 n).length, "")
  | "proto.devarint", [h] => do
    let b ← fromHex h
    let m := match Model.Proto.decodeVarint b with
      | .ok (v, n) => s!"ok:{v.toNat}:{n}"
      | .err _ => "err"
      | .panic e => "panic:" ++ e
    let s := match Spec.Protobuf.readVarint b with
      | some (v, rest) => s!"ok:{v}:{b.length - rest.length}"
      | none => "err"
    pure (m, s, "")
  | "proto.zigzag", [i] => do
    let i ← i.toInt?
    let m := (Model.Proto.encodeZigZag64 (BitVec.ofInt 64 i)).toNat
    let back := (Model.Proto.decodeZigZag64 (BitVec.ofNat 64 m)).toInt
    pure (s!"{m}:{back}", s!"{Spec.Protobuf.zigzag i}:{i}", "")
  | "proto.marshal", [ty, v] => do
    let ty ← Ty.parse ty
    let v ← Val.parse v
    let b := Model.Proto.marshal ty v
    pure ("ok:" ++ toHex b ++ ":" ++ toString (Model.Proto.marshalSize ty v), "-",
          String.intercalate "," (Known.protoClasses ty v))
  | "proto.roundtrip", [ty, v, implhex] => do
    let ty ← Ty.parse ty
    let v ← Val.parse v
    let ib ← fromHex implhex
    let b := Model.Proto.marshal ty v
    let m := s!"sz={Model.Proto.marshalSize ty v};len={b.length};rt=" ++ showDec ty (Model.Proto.unmarshal ty b)
    let s := match Spec.Protobuf.decode ty ib with
      | some d => s!"sz={ib.length};len={ib.length};rt=ok:" ++ (Spec.Protobuf.canonical ty d).show
      | none => "-"
    pure (m, s, String.intercalate "," (Known.protoClasses ty v))
  -- proto.hist <type> <val1> <val2>: the round trip of val2 after failed decodes of corrupted encodings of val1 (history must not matter)
  | "proto.hist", [ty, _v1, v2] => handle "proto.roundtrip" [ty, v2]
  | "proto.roundtrip", [ty, v] => do
    let ty ← Ty.parse ty
    let v ← Val.parse v
    let b := Model.Proto.marshal ty v
    let m := s!"sz={Model.Proto.marshalSize ty v};len={b.length};rt=" ++ showDec ty (Model.Proto.unmarshal ty b)
    pure (m, "-", String.intercalate "," (Known.protoClasses ty v))
  | "proto.decode", [tys, h, want] => do
    let (m, s, k) ← handle "proto.decode" [tys, h]
    let ty ← Ty.parse tys
    let k2 := match Val.parse ((want.drop 3).toString) with
      | some v => Known.protoClasses ty v
      | none => []
    pure (m, s, String.intercalate "," ((k.splitOn ",").filter (· ≠ "") ++ k2))
  | "proto.decode", [ty, h] => do
    let ty ← Ty.parse ty
    let b ← fromHex h
    let s := match Spec.Protobuf.decode ty b with
      | some d => "ok:" ++ (Spec.Protobuf.canonical ty d).show
      | none => "-"
    pure (showDec ty (Model.Proto.unmarshal ty b), s,
          String.intercalate "," ((if Known.hasRepeatedZigzagOrFixed ty then ["protoRepeatedZigzagOrFixed"] else [])
            ++ (if Known.hasWideFieldNumber ty then ["protoFieldNumberUint16"] else [])))
  | "proto.marshalto", [ty, v, n] => do
    let ty ← Ty.parse ty
    let v ← Val.parse v
    let n ← n.toNat?
    let size := Model.Proto.marshalSize ty v
    let m := match Model.Proto.marshalTo ty v n with
      | .ok b =>
        if n ≥ size then s!"ok:n={b.length};bytes=" ++ (if b == Model.Proto.marshal ty v then "same" else "differ") ++ ";guard=1"
        else s!"ok:n={b.length}"
      | .err _ => if n ≥ size then "err" else "shortbuffer;guard=1"
      | .panic e => "panic:" ++ e
    -- spec: the statement of C16 itself
    let s := if n ≥ size then s!"ok:n={size};bytes=same;guard=1" else "shortbuffer;guard=1"
    pure (m, s, "")
  -- proto.deep <leafTy> <levels> <prehex> <posthex> <innerhex>
  | "proto.deep", [lt, lv, pre, post, inner] => do
    let leaf ← Ty.parse lt
    let levels ← lv.toNat?
    let pre ← fromHex pre
    let post ← fromHex post
    let inner ← fromHex inner
    let b := nestBytes levels pre post inner
    let ty := chainTy (Gen.c_proto_maxDepth + 3) leaf
    let hd := s!"len={b.length};sum={byteSum b};"
    let m := match Model.Proto.unmarshal ty b with
      | .ok v =>
        let (n, vv, lf) := walkChain (levels + 8) v 0
        s!"ok:n={n};v={vv};leaf=" ++ (Spec.Protobuf.canonical leaf lf).show
      | .err _ => "err"
      | .panic e => "panic:" ++ e
    pure (hd ++ m, "-", "")
  | "proto.decodeany", [ty, h] => do
    let ty ← Ty.parse ty
    let b ← fromHex h
    pure (showDec ty (Model.Proto.unmarshal ty b), "-", "")
  /- message types with user-defined (Message / gogo custom) types, harness/protomsg.go: M = the model with the user's methods
     as parameters (`Model.ProtoMsg`), instantiated by what the zoo types implement at the level of payloads (`zooOps`) -/
  | "proto.msgmarshal", [ty, v] => do
    let ty ← Ty.parse ty
    let v ← Val.parse v
    let m := match Model.Proto.marshalUsr Model.Proto.zooOps ty v with
      | .ok b => "ok:" ++ toHex b ++ ":" ++ toString (Model.Proto.marshalSizeUsr Model.Proto.zooOps ty v)
      | .err _ => "err"
      | .panic e => "panic:" ++ e
    pure (m, "-", String.intercalate "," (Known.protoClasses ty v))
  | "proto.msgroundtrip", [ty, v] => do
    let ty ← Ty.parse ty
    let v ← Val.parse v
    let m := match Model.Proto.marshalUsr Model.Proto.zooOps ty v with
      | .ok b =>
        /- the invariant `Lemmas.ProtoMsg.PresentsLeavesOnce` (hypothesis `hinv` of `Props.C03.unmarshal_marshal_opaque_failing_partial`,
           not yet proved in general), evaluated on every generated message: with the OBSERVER in place of the user types
           (`Model.Proto.guardOps`: accepts only the encodings of the leaves of `v`, only on a zero receiver) `Unmarshal` does on the
           bytes `Marshal` wrote what the payload-level decoder does. A message on which it fails is reported as a model
           observable no implementation produces, i.e. as DRIFT. -/
        let calls := Model.Proto.leafCalls Model.Proto.zooOps (Model.Proto.codecOf ty) v
        let obs := Model.Proto.unmarshalUsr (Model.Proto.guardOps fun q => calls.contains q) ty b
        if showDec ty obs != showDec ty (Model.Proto.unmarshal ty b) then
          "INVARIANT PresentsLeavesOnce VIOLATED: observer=" ++ showDec ty obs ++ " payload-level=" ++ showDec ty (Model.Proto.unmarshal ty b)
        else
        s!"sz={Model.Proto.marshalSizeUsr Model.Proto.zooOps ty v};len={b.length};rt="
          ++ showDec ty (Driver.ProtoZoo.mapRes (Driver.ProtoZoo.showZero ty) (Model.Proto.unmarshalUsr Model.Proto.zooOps ty b))
      | .err _ => "marshal-err"
      | .panic e => "panic:" ++ e
    pure (m, "-", String.intercalate "," (Known.protoClasses ty v))
  | "proto.msgmarshalto", [ty, v, n] => do
    let ty ← Ty.parse ty
    let v ← Val.parse v
    let n ← n.toNat?
    let size := Model.Proto.marshalSizeUsr Model.Proto.zooOps ty v
    let m := match Model.Proto.marshalUsr Model.Proto.zooOps ty v with
      | .ok full =>
        (match Model.Proto.marshalToUsr Model.Proto.zooOps ty v n with
        | .ok b =>
          if n ≥ size then s!"ok:n={b.length};bytes=" ++ (if b == full then "same" else "differ") ++ ";guard=1"
          else s!"ok:n={b.length}"
        | .err _ => if n ≥ size then "err" else "shortbuffer;guard=1"
        | .panic e => "panic:" ++ e)
      | _ => "marshal-err"
    let s := match Model.Proto.marshalUsr Model.Proto.zooOps ty v with
      | .ok _ => if n ≥ size then s!"ok:n={size};bytes=same;guard=1" else "shortbuffer;guard=1"
      | _ => "-"
    pure (m, s, "")
  | "proto.msgdecode", [ty, h] => do
    let ty ← Ty.parse ty
    let b ← fromHex h
    -- the zoo's Unmarshal methods reject malformed payloads: `ProtoZoo.opsFor`
    let m := match Driver.ProtoZoo.opsFor ty with
      | some ops => showDec ty (Driver.ProtoZoo.mapRes (Driver.ProtoZoo.showZero ty) (Model.Proto.unmarshalUsr ops ty b))
      | none => "-"
    pure (m, "-", "")
  | op, args => Driver.ProtoScan.handle op args     -- proto.scan, proto.scanerr, proto.rawvalue, proto.tag

end Enc.Driver.Proto
