import Enc.Model.Ascii
import Enc.Model.AsciiAsm
import Enc.Spec.Ascii
/-! line-protocol handlers, area `ascii`. Reply = (model observable, spec observable, known classes). -/
namespace Enc.Driver.Ascii
open Enc

def reply (m s : Bool) : Option (String × String × String) := some (boolStr m, boolStr s, "")

def pair (x y : Bool) : String := boolStr x ++ "/" ++ boolStr y

def handle (op : String) (args : List String) : Option (String × String × String) :=
  match op, args with
  | "ascii.valid", [h] => do let s ← fromHex h; reply (Model.Ascii.validString s) (Spec.Ascii.valid s)
  | "ascii.validprint", [h] => do let s ← fromHex h; reply (Model.Ascii.validPrintString s) (Spec.Ascii.validPrint s)
  | "ascii.equalfold", [a, b] => do
      let a ← fromHex a; let b ← fromHex b
      reply (Model.Ascii.equalFoldString a b) (Spec.Ascii.equalFold a b)
  | "ascii.hasprefixfold", [a, b] => do
      let a ← fromHex a; let b ← fromHex b
      reply (Model.Ascii.hasPrefixFold a b) (Spec.Ascii.hasPrefixFold a b)
  | "ascii.hassuffixfold", [a, b] => do
      let a ← fromHex a; let b ← fromHex b
      reply (Model.Ascii.hasSuffixFold a b) (Spec.Ascii.hasSuffixFold a b)
  | "ascii.validbyte", [n] => do
      let n ← n.toNat?; reply (Model.Ascii.validByte (UInt8.ofNat n)) (Spec.Ascii.validByte (UInt8.ofNat n))
  | "ascii.validprintbyte", [n] => do
      let n ← n.toNat?; reply (Model.Ascii.validPrintByte (UInt8.ofNat n)) (Spec.Ascii.validPrintByte (UInt8.ofNat n))
  | "ascii.validrune", [n] => do
      let n ← n.toInt?; reply (Model.Ascii.validRune n) (Spec.Ascii.validRune n)
  | "ascii.validprintrune", [n] => do
      let n ← n.toInt?; reply (Model.Ascii.validPrintRune n) (Spec.Ascii.validPrintRune n)
  -- both operands are views of one buffer: s = buf[i:j], t = buf[x:y] (values only: aliasing must not matter)
  | "ascii.foldalias", [h, i, j, x, y] => do
      let buf ← fromHex h
      let i ← i.toNat?; let j ← j.toNat?; let x ← x.toNat?; let y ← y.toNat?
      let s := (buf.drop i).take (j - i)
      let t := (buf.drop x).take (y - x)
      some (boolStr (Model.Ascii.equalFoldString s t) ++ boolStr (Model.Ascii.hasPrefixFold s t) ++
              boolStr (Model.Ascii.hasSuffixFold s t),
            boolStr (Spec.Ascii.equalFold s t) ++ boolStr (Spec.Ascii.hasPrefixFold s t) ++
              boolStr (Spec.Ascii.hasSuffixFold s t), "")
  -- the ASSEMBLY model (Enc/Model/AsciiAsm.lean): M = `<with AVX2>/<without AVX2>`, S = the byte-wise definition in the same form
  | "asmascii.valid", [h] => do
      let s ← fromHex h
      some (pair (Model.AsciiAsm.asmValidString true s) (Model.AsciiAsm.asmValidString false s),
            pair (Spec.Ascii.valid s) (Spec.Ascii.valid s), "")
  | "asmascii.validprint", [h] => do
      let s ← fromHex h
      some (pair (Model.AsciiAsm.asmValidPrintString true s) (Model.AsciiAsm.asmValidPrintString false s),
            pair (Spec.Ascii.validPrint s) (Spec.Ascii.validPrint s), "")
  | "asmascii.equalfold", [a, b] => do
      let a ← fromHex a; let b ← fromHex b
      some (pair (Model.AsciiAsm.asmEqualFoldString true a b) (Model.AsciiAsm.asmEqualFoldString false a b),
            pair (Spec.Ascii.equalFold a b) (Spec.Ascii.equalFold a b), "")
  | _, _ => none

end Enc.Driver.Ascii
