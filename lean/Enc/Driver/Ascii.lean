import Enc.Model.Ascii
import Enc.Spec.Ascii
/-! line-protocol handlers, area `ascii`. Reply = (model observable, spec observable, known classes). -/
namespace Enc.Driver.Ascii
open Enc

def reply (m s : Bool) : Option (String × String × String) := some (boolStr m, boolStr s, "")

def handle (op : String) (args : List String) : Option (String × String × String) :=
  match op, args with
  | "ascii.valid", [h] => do let s ← fromHex h; reply (Model.Ascii.validString s) (Spec.Ascii.valid s)
  | "ascii.validprint", [h] => do let s ← fromHex h; reply (Model.Ascii.validPrintString s) (Spec.Ascii.validPrint s)
  | "ascii.equalfold", [a, b] => do
      let a ← fromHex a; let b ← fromHex b
      reply (Model.Ascii.equalFoldString a b) (Spec.Ascii.equalFold a b)
  | "ascii.hasprefixfold", [a, b] => do
      let a ← fromHex a; let b ← fromHex b
      reply (Model.Ascii.hasPrefixFold a b) (Spec.Ascii.hasPrefixFold a b)
  | "ascii.hassuffixfold", [a, b] => do
      let a ← fromHex a; let b ← fromHex b
      reply (Model.Ascii.hasSuffixFold a b) (Spec.Ascii.hasSuffixFold a b)
  | "ascii.validbyte", [n] => do
      let n ← n.toNat?; reply (Model.Ascii.validByte (UInt8.ofNat n)) (Spec.Ascii.validByte (UInt8.ofNat n))
  | "ascii.validprintbyte", [n] => do
      let n ← n.toNat?; reply (Model.Ascii.validPrintByte (UInt8.ofNat n)) (Spec.Ascii.validPrintByte (UInt8.ofNat n))
  | "ascii.validrune", [n] => do
      let n ← n.toInt?; reply (Model.Ascii.validRune n) (Spec.Ascii.validRune n)
  | "ascii.validprintrune", [n] => do
      let n ← n.toInt?; reply (Model.Ascii.validPrintRune n) (Spec.Ascii.validPrintRune n)
  | _, _ => none

end Enc.Driver.Ascii
