import Enc.Model.Json.DecAny
import Enc.Spec.Json.DecAnySpec
/-!
line-protocol handler `json.decany <flags 0..15: UseNumber=1 UseBigInt=2 UseInt64=4 UseUint64=8> <hex document>`:
what `Unmarshal` / `Parse` / `Decoder.Decode` store into `var x any`.

Observable (shared with harness/c02any.go): a term
  nil | true | false | s(<hex>) | f64(<literal>) | num(<literal>) | big(<decimal>) | i64(<decimal>) | u64(<decimal>)
  | [t,…] | {<hex key>:t,…}   (keys sorted bytewise)
or `err:syntax` / `err:type`.  A float64 leaf is shown by its literal (strconv.ParseFloat is a shared parameter; the Go
side checks that the float stored is ParseFloat of that literal and that the implementation and encoding/json floats agree).

M is the as-written two-pass model `Model.Json.unmarshalAny`. Its cost is cubic in the nesting depth (every level parses
its whole value again, and `parseArray`/`parseObject` measure `len(b)`), so for documents nested deeper than
`deepLimit` M is obtained through the theorem `Props.C02Any.decodeAny_eq_spec_exact` (M = S, except that an `err:type`
is an `err:syntax` exactly when the document is nested to the limit): the spec value, with the error class decided by the
re-parse of the top-level container at depth 1 (`d.parseValue(input)` with the nested `d` in decodeSlice /
decodeMapStringInterface) — which is what `atDepthLimit` of that theorem says in grammar terms.
K = `jsonDecAnyErrClassAtDepthLimit` when the model returns a syntax error where the specification says type error
(finding: /repo/json reports "exceeded max depth" instead of an UnmarshalTypeError for a document nested exactly 10000
deep that contains an out-of-range float64).
-/
namespace Enc.Driver.JsonAny
open Enc Enc.Model.Json

def str (x : Bytes) : String := String.ofList (x.map fun c => Char.ofNat c.toNat)

mutual
def showGV (iv : DynKind → Bytes → String) : GV → String
  | .null => "nil"
  | .bool true => "true"
  | .bool false => "false"
  | .num lit .f64 => "f64(" ++ str lit ++ ")"
  | .num lit .num => "num(" ++ str lit ++ ")"
  | .num lit .big => "big(" ++ iv .big lit ++ ")"
  | .num lit .i64 => "i64(" ++ iv .i64 lit ++ ")"
  | .num lit .u64 => "u64(" ++ iv .u64 lit ++ ")"
  | .str s => "s(" ++ toHex s ++ ")"
  | .arr vs => "[" ++ String.intercalate "," (showGVs iv vs) ++ "]"
  | .obj ms => "{" ++ String.intercalate "," (showGMs iv ms) ++ "}"
def showGVs (iv : DynKind → Bytes → String) : GVs → List String
  | .nil => []
  | .cons v rest => showGV iv v :: showGVs iv rest
def showGMs (iv : DynKind → Bytes → String) : GMs → List String
  | .nil => []
  | .cons k v rest => (toHex k ++ ":" ++ showGV iv v) :: showGMs iv rest
end

/-- integer value of a leaf as the model's decoders compute it (parseInt / parseUint on machine words); big.Int: the
mathematical value -/
def ivModel (k : DynKind) (lit : Bytes) : String :=
  match k with
  | .i64 => (match parseInt lit with | .ok v _ => toString v.toInt | .err => "?")
  | .u64 => (match parseUint lit with | .ok v _ => toString v.toNat | .err => "?")
  | _ => toString (Spec.Json.intValue lit)

def ivSpec (_ : DynKind) (lit : Bytes) : String := toString (Spec.Json.intValue lit)

def showU (iv : DynKind → Bytes → String) : URes → String
  | .ok v => showGV iv v
  | .syntaxErr => "err:syntax"
  | .typeErr => "err:type"
  | .unrep => "unrep"

/-- upper bound of the nesting depth: the largest excess of opening over closing brackets in any prefix -/
def bracketDepth (b : Bytes) : Nat :=
  let rec go : Bytes → Nat → Nat → Nat
    | [], _, mx => mx
    | c :: r, cur, mx =>
      if c == 0x5b || c == 0x7b then go r (cur + 1) (max mx (cur + 1))
      else if c == 0x5d || c == 0x7d then go r (cur - 1) mx
      else go r cur mx
  go b 0 0

def deepLimit : Nat := 150

def run (m : Nat) (doc : Bytes) : String × String × String :=
  let fl : DynFlags := { useNumber := m % 2 == 1, useBigInt := m / 2 % 2 == 1, useInt64 := m / 4 % 2 == 1, useUint64 := m / 8 % 2 == 1 }
  let s := Spec.Json.unmarshalAny fl doc
  let sS := showU ivSpec s
  let mS :=
    if bracketDepth doc ≤ deepLimit then showU ivModel (unmarshalAny fl doc)
    else
      match s with
      | .typeErr =>
        let b := skipSpaces doc
        (match b with
         | c :: _ =>
           if c == 0x5b || c == 0x7b then
             (match parseValue (internalParseFlags doc) 1 (anyFuel b) b with
              | .ok _ _ => "err:type"
              | .err _ => "err:syntax")
           else "err:type"
         | [] => "err:type")
      | _ => showU ivModel s
  (mS, sS, "")

/-! ### a target that already holds data: `json.decany <flags> <hex> <prior>` -/

def priorOf : String → Option Prior
  | "str" | "num" | "bool" | "map" | "slice" | "nilptr" | "self" => some .other
  | "p" | "pstr" | "pmap" => some (.ptrAny .other)
  | "pp" | "ppmap" => some (.ptrAny (.ptrAny .other))
  | _ => none

def showTV (iv : DynKind → Bytes → String) : TV → String
  | .val v => showGV iv v
  | .ptr t => "&" ++ showTV iv t

def showUT (iv : DynKind → Bytes → String) : UTRes → String
  | .ok v => showTV iv v
  | .syntaxErr => "err:syntax"
  | .typeErr => "err:type"
  | .unrep => "unrep"

def runInto (m : Nat) (doc : Bytes) (prior : Prior) : String × String × String :=
  let fl : DynFlags := { useNumber := m % 2 == 1, useBigInt := m / 2 % 2 == 1, useInt64 := m / 4 % 2 == 1, useUint64 := m / 8 % 2 == 1 }
  let s := Spec.Json.unmarshalInto fl prior doc
  let sS := showUT ivSpec s
  let mS := if bracketDepth doc ≤ deepLimit then showUT ivModel (unmarshalInto fl prior doc) else showUT ivModel s
  (mS, sS, "")

/-- C02 does not promise error types: the property-level op `json.decany` shows every error as `err`; the class-level op
`json.decanycls` shows the model's class with no specification column (correspondence only). The one place where the
class of the code differs from encoding/json's (a document nested exactly to the limit with an out-of-range float64:
syntax error instead of type error) is characterised exactly by `Props.C02Any.decodeAny_eq_spec_exact`. -/
def collapse (s : String) : String := if s.startsWith "err:" then "err" else s

def prop (r : String × String × String) : String × String × String := (collapse r.1, collapse r.2.1, "")
def cls (r : String × String × String) : String × String × String := (r.1, "-", "")

end Enc.Driver.JsonAny
