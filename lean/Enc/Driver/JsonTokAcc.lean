import Enc.Model.Json.TokenAcc
import Enc.Spec.Json.TokenVal
/-! line-protocol handler `json.tokacc` (C17 accessors): per token
`delim/valuehex/kind/class/bool/int/uint/floatlithex:bits/stringhex/raw5/unquote`, then END|ERR. -/
namespace Enc.Driver.JsonTokAcc
open Enc

def showRes : Res Bytes → String
  | .ok b => "ok:" ++ toHex b
  | .err _ => "err"
  | .panic _ => "panic"

def recM (fl : Model.Json.PFlags) (t : Model.Json.Token.Tok) : String :=
  let a := Model.Json.Token.accOf fl t
  s!"{t.delim.toNat}/{toHex t.value}/{a.kind}/{a.cls}/{boolStr a.bool}/{a.int}/{a.uint}/{toHex a.floatLit}:{a.floatBits}/{toHex a.str}/{String.join (a.rawFlags.map boolStr)}/{showRes a.unquote}"

def recS (t : Spec.Json.STok) : String :=
  let a := Spec.Json.saccOf t
  let k := a.kind
  let raw := Spec.Json.rawFlagsOf k
  let unq := if a.isString then "ok:" ++ toHex (Model.Json.Token.accPfx ++ a.str) else "panic"
  s!"{t.delim.toNat}/{toHex t.value}/{a.kind}/{a.cls}/{boolStr a.bool}/{a.int}/{a.uint}/{toHex a.floatLit}:64/{toHex a.str}/{String.join (raw.map boolStr)}/{unq}"

def run (b : Bytes) : String × String × String :=
  let fl := Model.Json.internalParseFlags b
  let (toks, err) := Model.Json.Token.tokens b
  let m := String.intercalate ";" (toks.map (recM fl) ++ [if err then "ERR" else "END"])
  let s := match Spec.Json.tokensOf b with
    | some ts => String.intercalate ";" (ts.map recS ++ ["END"])
    | none => "-"
  (m, s, "")

end Enc.Driver.JsonTokAcc
