import Enc.Model.Json.MapKeyOrder
import Enc.Spec.Json.MapKeys
/-!
Driver for `json.mapkeyorder <kind> <keys>` (harness/c01mapkeys.go).

kind = a Go integer kind (`int` … `uintptr`, `n<kind>` = a named type of that kind) | `intunm` `uintunm` (integer kind whose
pointer type has UnmarshalText only) | `inttext` `inttextboth` (integer kind with MarshalText) | `string` `nstring` `ss`
`sa` `sb` `sl` `sr` (string keys: generic codec, named, and the five specialised map codecs) | `strtext` `strunm` |
`text` `textonly` `ptext` (struct / pointer keys with MarshalText) | `unmonly` `float` (unsupported key types).
keys = comma separated: decimal integers for the kinds sorted as numbers, else hex texts (`-` = empty, `~` = nil pointer
= empty text). Observable: `ok:` + the key texts AS WRITTEN (with their quotes, hex) in output order joined by `,`, or `err`.
-/
namespace Enc.Driver.JsonMapKeys
open Enc Enc.Model.Json.MapKeyOrder

def intKindOf : String → Option IntKind
  | "int" => some .int | "int8" => some .int8 | "int16" => some .int16 | "int32" => some .int32 | "int64" => some .int64
  | "uint" => some .uint | "uint8" => some .uint8 | "uint16" => some .uint16 | "uint32" => some .uint32
  | "uint64" => some .uint64 | "uintptr" => some .uintptr
  | _ => none

/-- (key-type facts, integer kind when the keys are transported as numbers) -/
def kindOf (s : String) : Option (KeyType × Option IntKind) :=
  let plain (k : IntKind) : KeyType × Option IntKind := (⟨if k.signed then .int else .uint, false, false⟩, some k)
  match intKindOf s with
  | some k => some (plain k)
  | none =>
    match s with
    | "intunm" => some (⟨.int, false, true⟩, some .int64)
    | "uintunm" => some (⟨.uint, false, true⟩, some .uint64)
    | "inttext" => some (⟨.int, true, false⟩, none)
    | "inttextboth" => some (⟨.int, true, true⟩, none)
    | "string" | "nstring" | "ss" | "sa" | "sb" | "sl" | "sr" => some (⟨.string, false, false⟩, none)
    | "strtext" => some (⟨.string, true, false⟩, none)
    | "strunm" => some (⟨.string, false, true⟩, none)
    | "text" => some (⟨.other, true, true⟩, none)
    | "textonly" | "ptext" => some (⟨.other, true, false⟩, none)
    | "unmonly" => some (⟨.other, false, true⟩, none)
    | "float" => some (⟨.other, false, false⟩, none)
    | _ =>
      if s.startsWith "n" then (intKindOf (s.drop 1).toString).map plain else none

def splitKeys (s : String) : List String := (s.splitOn ",").filter (· ≠ "")

def parseText (s : String) : Option Bytes := if s == "~" then some [] else fromHex s

/-- the mathematical value of the decimal `i` converted to the Go type (conversion wraps), written independently of `widen` -/
def wrapInt (bits : Nat) (signed : Bool) (i : Int) : Int :=
  let m := i % (2 ^ bits : Int)
  if signed && m ≥ (2 ^ (bits - 1) : Int) then m - (2 ^ bits : Int) else m

def render (l : List Bytes) : String := "ok:" ++ String.intercalate "," (l.map toHex)

def handle (op : String) (args : List String) : Option (String × String × String) :=
  match op, args with
  | "json.mapkeyorder", [kind, keys] => do
    let (t, ik) ← kindOf kind
    let ms := sortKeysOf t
    let ss := Spec.Json.MapKeys.keyNameOf t
    match ik with
    | some k =>
      let ints ← (splitKeys keys).mapM String.toInt?
      -- model: stored words, widened as Value.Int()/Uint() do, one entry per distinct key
      let raws := (ints.map fun i => widen k (BitVec.ofInt 64 i)).eraseDups
      let m := match ms with
        | .int => render ((sortBy (intLess true) raws).map fun v => intKeyText true v true)
        | .uint => render ((sortBy (intLess false) raws).map fun v => intKeyText false v true)
        | _ => "err"
      -- spec: the values, their stdlib key names, sorted as texts
      let vals := (ints.map (wrapInt k.bits k.signed)).eraseDups
      let s := match ss with
        | .int | .uint =>
          render ((Spec.Json.MapKeys.stdSort (vals.map fun i => (Spec.Json.MapKeys.intKs i, []))).map
            fun p => Spec.Json.appendString p.1 true)
        | _ => "err"
      pure (m, s, "")
    | none =>
      let texts ← (splitKeys keys).mapM parseText
      let texts := texts.eraseDups
      let m := match ms with
        | .str | .text => render ((sortBy strLT texts).map fun k => Model.Json.encodeString k true)
        | .unsupportedKey => if texts.isEmpty then render [] else "err"     -- only the key encoder fails
        | _ => "err"
      let s := match ss with
        | .str | .text =>
          render ((Spec.Json.MapKeys.stdSort (texts.map fun k => (k, []))).map fun p => Spec.Json.appendString p.1 true)
        | _ => "err"
      pure (m, s, "")
  -- json.mapkeydec <kind> <class> <dochex>: Unmarshal of a document of class null | empty | one (one member whose key is
  -- acceptable for the key decoder of the kind) into a map of that key type: `ok:<len>` | `err`
  | "json.mapkeydec", [kind, cls, _doc] => do
    let (t, _) ← kindOf kind
    let outcome (d : SortBy) : String :=
      if cls == "null" then "ok:0"
      else match d with
        | .unsupportedType => "err"
        | .unsupportedKey => if cls == "empty" then "ok:0" else "err"
        | _ => if cls == "empty" then "ok:0" else "ok:1"
    pure (outcome (decodeKeysOf t), outcome (Spec.Json.MapKeys.keyDecoderOf t), "")
  | _, _ => none

end Enc.Driver.JsonMapKeys
