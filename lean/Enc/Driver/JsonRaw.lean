import Enc.Model.Json.RawEmit
import Enc.Spec.Json.Compact
import Enc.Spec.Json.DecAnySpec
/-!
line-protocol handler
  `json.rawemit <flags 0..7: EscapeHTML=1 SortMapKeys=2 TrustRawMessage=4> <kind>.<pos> <hex bytes | nil>`
kind = raw (json.RawMessage value) | mj (MarshalJSON with a value receiver) | mjptr (pointer receiver, passed as *T);
pos = top | field | map | slice | iface: where the value sits in what is given to `Append`.
`nil` = a nil RawMessage / MarshalJSON returning nil bytes / a nil *T.

M = `ok:<hex output>` / `err` from Model.Json.RawEmit (wrapped by the fixed text of the position).
S = the same built from `Spec.Json.compact` for every flag subset under which encoding/json's rule applies (always for
MarshalJSON output; for RawMessage values when TrustRawMessage is off), else `-`.
With TrustRawMessage and a RawMessage that IS valid JSON, `;trusted-differs` is appended to M when the output is not
valid JSON meaning what the default flags' output means (never, by Props.C14Raw.rawEmit_trusted).
-/
namespace Enc.Driver.JsonRaw
open Enc Enc.Model.Json.RawEmit

def asc (s : String) : Bytes := s.toUTF8.toList

def wrap (pos : String) (x : Bytes) : Option Bytes :=
  match pos with
  | "top" => some x
  | "field" => some (asc "{\"a\":" ++ x ++ asc "}")
  | "map" => some (asc "{\"k\":" ++ x ++ asc "}")
  | "slice" => some (asc "[" ++ x ++ asc "]")
  | "iface" => some (asc "[" ++ x ++ asc "]")
  | _ => none

def showR (pos : String) : Option Bytes → Option String
  | none => some "err"
  | some x => (wrap pos x).map fun w => "ok:" ++ toHex w

def useNumber : Model.Json.DynFlags := ⟨true, false, false, false⟩

def handle (op : String) (args : List String) : Option (String × String × String) :=
  match op, args with
  | "json.rawemit", [m, mode, h] => do
    let m ← m.toNat?
    let fl : AFlags := { escapeHTML := m % 2 == 1, sortMapKeys := m / 2 % 2 == 1, trustRawMessage := m / 4 % 2 == 1 }
    let (kind, pos) ← match mode.splitOn "." with | [k, p] => some (k, p) | _ => none
    let raw : Option Bytes ← if h == "nil" then pure none else (fromHex h).map some
    let bytes := raw.getD []
    let emit (fl : AFlags) : Option (Option Bytes) :=
      match kind with
      | "raw" => some (encodeRawMessage fl raw)
      | "mj" => some (encodeJSONMarshaler fl false bytes)
      | "mjptr" => some (encodeJSONMarshaler fl raw.isNone bytes)
      | _ => none
    let out ← emit fl
    let mstr ← showR pos out
    -- specification
    let nullCase := raw.isNone && kind != "mj"
    let specOut : Option Bytes := if nullCase then some nullLit else Spec.Json.compact fl.escapeHTML bytes
    let applies := kind != "raw" || !fl.trustRawMessage
    let sstr ← if applies then showR pos specOut else some "-"
    -- trusted raw messages that are valid JSON: same meaning as the default output
    let mstr :=
      if kind == "raw" && fl.trustRawMessage && (nullCase || Spec.Json.validStd bytes) then
        let dflt := encodeRawMessage { escapeHTML := true, sortMapKeys := true } raw
        match out, dflt with
        | some o, some d =>
          if Spec.Json.validStd o && (Spec.Json.unmarshalAny useNumber o == Spec.Json.unmarshalAny useNumber d) then mstr
          else mstr ++ ";trusted-differs"
        | _, _ => mstr ++ ";trusted-differs"
      else mstr
    pure (mstr, sstr, "")
  | _, _ => none

end Enc.Driver.JsonRaw
