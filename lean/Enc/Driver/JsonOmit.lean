import Enc.Model.Json.OmitEmpty
import Enc.Spec.Json.OmitEmpty
/-!
Driver for `json.omitempty <type> <value> <facts>` (harness/c01omit.go): the type name selects kind / identity with
[]byte or RawMessage; `<value>` is only for the Go side; `<facts>` = `b=.,wz=.,fe=.,fb=.,len=N,pn=.,in=.,ef=.` are the
value facts the harness computed from the value with plain Go comparisons.
Observable: `0` (field omitted) | `1` (written) | `err` (Marshal failed).
-/
namespace Enc.Driver.JsonOmit
open Enc Enc.Model.Json.OmitEmpty

def typeOf : String → Option FieldType
  | "bool" => some ⟨.bool, false⟩
  | "int" => some ⟨.int, false⟩ | "int8" => some ⟨.int8, false⟩ | "int16" => some ⟨.int16, false⟩
  | "int32" => some ⟨.int32, false⟩ | "int64" => some ⟨.int64, false⟩
  | "uint" => some ⟨.uint, false⟩ | "uint8" => some ⟨.uint8, false⟩ | "uint16" => some ⟨.uint16, false⟩
  | "uint32" => some ⟨.uint32, false⟩ | "uint64" => some ⟨.uint64, false⟩ | "uintptr" => some ⟨.uintptr, false⟩
  | "nint" => some ⟨.int, false⟩ | "duration" => some ⟨.int64, false⟩
  | "float32" => some ⟨.float32, false⟩ | "float64" => some ⟨.float64, false⟩ | "nfloat" => some ⟨.float64, false⟩
  | "complex" => some ⟨.complex128, false⟩
  | "string" | "nstring" | "number" => some ⟨.string, false⟩
  | "slice" | "sstr" | "nbytes" | "sany" => some ⟨.slice, false⟩
  | "bytes" | "raw" => some ⟨.slice, true⟩
  | "arr0" | "arr0e" => some ⟨.array 0, false⟩
  | "arr1" | "arr1p" => some ⟨.array 1, false⟩
  | "arr2s" => some ⟨.array 2, false⟩
  | "map" | "mapany" => some ⟨.map, false⟩
  | "ptr" | "pstruct" | "pptr" | "ptime" => some ⟨.ptr, false⟩
  | "any" | "stringer" => some ⟨.iface, false⟩
  | "struct0" | "struct1" | "time" => some ⟨.struct, false⟩
  | "chan" => some ⟨.chan, false⟩
  | "func" => some ⟨.func, false⟩
  | _ => none

def parseFacts (s : String) : Option Facts :=
  (s.splitOn ",").foldlM (init := ({} : Facts)) fun f kv =>
    match kv.splitOn "=" with
    | [k, v] =>
      let b := v == "1"
      match k with
      | "b" => some { f with boolVal := b }
      | "wz" => some { f with wordZero := b }
      | "fe" => some { f with floatEqZero := b }
      | "fb" => some { f with floatBitsZero := b }
      | "len" => v.toNat?.map fun n => { f with len := n }
      | "pn" => some { f with ptrNil := b }
      | "in" => some { f with ifaceTypNil := b }
      | "ef" => some { f with encFails := b }
      | _ => none
    | _ => none

def showOutcome : Outcome → String
  | .omitted => "0" | .written => "1" | .error => "err"

def handle (op : String) (args : List String) : Option (String × String × String) :=
  match op, args with
  | "json.omitempty", [ty, _val, facts] => do
    let t ← typeOf ty
    let f ← parseFacts facts
    pure (showOutcome (fieldOutcome t f), showOutcome (Spec.Json.OmitEmpty.fieldOutcome t.kind f), "")
  | _, _ => none

end Enc.Driver.JsonOmit
