import Enc.Model.Json.StrHelpers
import Enc.Spec.Json.StrHelpers
/-! line-protocol handler, `json.strhelper <api> <hex input> <html 0/1> <prefix len> <spare>` (C15 / C01)
M = the slice model run on the destination [pattern prefix | spare] (`ok:<hex>` / `panic`), S = prefix ++ specification. -/
namespace Enc.Driver.JsonStrHelpers
open Enc Enc.Model.Json.Buf Enc.Model.Json.StrHelpers

/-- Go's amortised growth is irrelevant to the observable (Props.C15 `…_oblivious`); the driver uses "exactly what is needed" -/
def growExact (_cap need : Nat) : Nat := need

def pattern (i : Nat) : UInt8 := UInt8.ofNat (0xA0 + i % 23)

def showRes : Res Slice → String
  | .ok s => "ok:" ++ toHex s.data
  | _ => "panic"

def handle (op : String) (args : List String) : Option (String × String × String) :=
  match op, args with
  | "json.strhelper", [api, inp, html, pl, sp] => do
    let inp ← fromHex inp
    let pl ← pl.toNat?
    let sp ← sp.toNat?
    let h := html == "1"
    let pre := (List.range pl).map pattern
    let b : Slice := ⟨pre ++ List.replicate sp 0xEE, pl⟩
    let ok (x : Bytes) : String := "ok:" ++ toHex x
    let optS (x : Option Bytes) : String := match x with | some u => ok (pre ++ u) | none => "panic"
    match api with
    | "escape" => pure (ok (escape growExact inp).data, ok (Spec.Json.escapeStd inp true), "")
    | "appendescape" => pure (ok (appendEscape growExact b inp h).data, ok (pre ++ Spec.Json.escapeStd inp h), "")
    | "unescape" => pure (ok (unescape growExact inp).data, ok (Spec.Json.unescapeStd inp), "")
    | "appendunescape" => pure (ok (appendUnescape growExact {} b inp).data, ok (pre ++ Spec.Json.unescapeStd inp), "")
    | "unquote" => pure (showRes (unquote growExact inp), optS (Spec.Json.unquoteTok inp), "")
    | "appendunquote" => pure (showRes (appendUnquote growExact inp (some b)), optS (Spec.Json.unquoteTok inp), "")
    | _ => none
  | _, _ => none

end Enc.Driver.JsonStrHelpers
