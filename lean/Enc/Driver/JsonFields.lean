import Enc.Model.Json.Fields
import Enc.Spec.Json.Fields
/-!
Descriptor of a struct-type tree for the ops `json.fields` / `json.fieldsdec` (same grammar as harness/c01fields.go):

    struct := '{' [ field { ';' field } ] '}'
    field  := [ '@' ] NAME [ '"' TAG '"' ] ':' type          '@' = anonymous (embedded) field
    type   := 'i' (int) | 'p' (*int) | struct | '*' struct
    NAME   := Go identifier, ASCII; exported iff it starts with A-Z
    TAG    := the raw value of the json struct tag: any bytes except '"', tab, space (absent = no json tag)

Observable: the members in output order, `key=value` joined by `;`, value = the leaf id (the index path from the root of
the whole tree, each position + 1, as decimal digits; prefixed by `s` when written inside a JSON string) or `{…}` for a
struct-valued member (its own members, recursively).
-/
namespace Enc.Driver.JsonFields
open Enc Enc.Model.Json.Fields

def isNameStart (c : Char) : Bool := c.isAlpha || c == '_'
def isNameChar (c : Char) : Bool := c.isAlphanum || c == '_'

def toBytes (cs : List Char) : Bytes := cs.map fun c => UInt8.ofNat c.toNat
def ofBytes (b : Bytes) : String := String.ofList (b.map fun c => Char.ofNat c.toNat)

mutual
partial def pStruct : List Char → Option (Fields × List Char)
  | '{' :: '}' :: r => some (.nil, r)
  | '{' :: r => pFields r
  | _ => none
/-- after '{' or ';': one field, then ';' more fields or '}' -/
partial def pFields (cs : List Char) : Option (Fields × List Char) := do
  let (anon, cs) := match cs with
    | '@' :: r => (true, r)
    | _ => (false, cs)
  let name := cs.takeWhile isNameChar
  let cs := cs.dropWhile isNameChar
  let c0 ← name.head?
  if !isNameStart c0 then none
  let (tag, cs) ← match cs with
    | '"' :: r =>
      let t := r.takeWhile (· != '"')
      match r.dropWhile (· != '"') with
      | '"' :: r' => some (t, r')
      | _ => none
    | _ => some ([], cs)
  let cs ← match cs with
    | ':' :: r => some r
    | _ => none
  let (ty, cs) ← pType cs
  let exported := c0.isUpper
  match cs with
  | ';' :: r => do
    let (rest, cs) ← pFields r
    pure (.cons (toBytes name) (toBytes tag) anon exported ty rest, cs)
  | '}' :: r => pure (.cons (toBytes name) (toBytes tag) anon exported ty .nil, r)
  | _ => none
partial def pType : List Char → Option (Ty × List Char)
  | 'i' :: r => some (.leaf, r)
  | 'p' :: r => some (.ptrLeaf, r)
  | '*' :: r => do
    let (fs, r) ← pStruct r
    pure (.ptrStruct fs, r)
  | cs => do
    let (fs, r) ← pStruct cs
    pure (.struct fs, r)
end

def parse (d : String) : Option Fields :=
  match pStruct d.toList with
  | some (fs, []) => some fs
  | _ => none

def fieldAt : Fields → Nat → Option Ty
  | .nil, _ => none
  | .cons _ _ _ _ ty _, 0 => some ty
  | .cons _ _ _ _ _ rest, n + 1 => fieldAt rest n

def typeAt (fs : Fields) : List Nat → Option Ty
  | [] => none
  | [i] => fieldAt fs i
  | i :: p =>
    match fieldAt fs i with
    | some (.struct sub) | some (.ptrStruct sub) => typeAt sub p
    | _ => none

def leafId (path : List Nat) : String := toString (path.foldl (fun n i => n * 10 + (i + 1)) 0)

/-- render the members `resolve sub` of the struct `fs` located at `pfx` in the whole tree -/
partial def render (resolve : Fields → List Field) (pfx : List Nat) (fs : Fields) : String :=
  String.intercalate ";" <| (resolve fs).map fun f =>
    ofBytes f.name ++ "=" ++
      match typeAt fs f.path with
      | some (.struct sub) | some (.ptrStruct sub) => "{" ++ render resolve (pfx ++ f.path) sub ++ "}"
      | _ => (if f.quoted then "s" else "") ++ leafId (pfx ++ f.path)

def modelFields (fs : Fields) : List Field := (segFields fs).map Resolved.obs

/-- `p` holds of the struct and of every struct-valued member (an object of its own), recursively -/
partial def allObjects (p : Fields → Bool) (fs : Fields) : Bool :=
  p fs && (Spec.Json.Fields.candidates fs).all fun c =>
    match typeAt fs c.path with
    | some (.struct sub) | some (.ptrStruct sub) => allObjects p sub
    | _ => true

/-- debug: the members predicted by shadowing alone and whether the sharper agreement condition holds -/
def runVisible (d : String) : Option (String × String × String) := do
  let fs ← parse d
  pure (render (fun f => (Spec.Json.Fields.visible f).map Spec.Json.Fields.Cand.field) [] fs,
    boolStr (allObjects Spec.Json.Fields.shadowingOnly fs) ++ boolStr (allObjects Spec.Json.Fields.regular fs), "")

/-- json.fieldsdec: the object `k1=n1;k2=n2;…` (numbers into int leaves) unmarshalled into a zero value: which leaf
holds which number afterwards, `leafid=n;…` in declaration order; `err` when a number meets a struct-valued member -/
def decode (fs : Fields) (lookup : Bytes → Option Field) (pairs : List (Bytes × String)) : String :=
  let step (acc : Option (List (List Nat × String))) (kv : Bytes × String) : Option (List (List Nat × String)) :=
    match acc with
    | none => none
    | some asg =>
      match lookup kv.1 with
      | none => some asg
      | some f =>
        match typeAt fs f.path with
        | some .leaf | some .ptrLeaf => some ((asg.filter fun a => a.1 != f.path) ++ [(f.path, kv.2)])
        | _ => none
  match pairs.foldl step (some []) with
  | none => "err"
  | some asg =>
    String.intercalate ";" <|
      (asg.mergeSort fun a b => Spec.Json.Fields.pathLE a.1 b.1).map fun a => leafId a.1 ++ "=" ++ a.2

def runDecode (cpu d obj : String) : Option (String × String × String) := do
  let fs ← parse d
  let pairs ← ((obj.splitOn ";").filter (· ≠ "")).mapM fun kv =>
    match kv.splitOn "=" with
    | [k, v] => some (toBytes k.toList, v)
    | _ => none
  let rs := segFields fs
  let m := decode fs (fun k => (lookupKey (cpu == "1") rs k).map Resolved.obs) pairs
  let s := decode fs (Spec.Json.Fields.lookupKey (Spec.Json.Fields.stdFields fs)) pairs
  pure (m, s, "")

/-- json.fieldsnil: every embedded struct pointer is nil: the members behind one are omitted -/
def runNil (d : String) : Option (String × String × String) := do
  let fs ← parse d
  pure (render (fun f => (modelFields f).filter (!·.viaPtr)) [] fs,
    render (fun f => (Spec.Json.Fields.stdFields f).filter (!·.viaPtr)) [] fs, "")

def run (d : String) : Option (String × String × String) := do
  let fs ← parse d
  pure (render modelFields [] fs, render Spec.Json.Fields.stdFields [] fs, "")

end Enc.Driver.JsonFields
