import Enc.Driver.Thrift
import Enc.Model.ThriftUnionEmbed
/-! line-protocol handler for `thrift.uembdecode <proto> <strict> <ptr|val|shared> <hex>`: unions whose interface field is
promoted from an embedded struct (harness/thriftunionemb.go; generated at the end of the C08 runner; shape `stringer`: no
model, M = `-`). M = the outcome of `unmarshalUE` on the descriptor of
the shape: `ok:A=<int> B=<hex> F=<A|B|nil>`, `err:<class>` (never `panic:` since fix 62e5e1f). -/
namespace Enc.Driver.ThriftUnionEmbed
open Enc Enc.Driver.Thrift Enc.Model.Thrift

def tg (s : String) : String := "thrift:\"" ++ s ++ "\""
def membersF : Fields := .cons "A" (tg "1") false (.int .i32) (.cons "B" (tg "2") false .str .nil)
def unionF : Fields := .cons "F" (tg ",union") false .any .nil
/-- `struct { TUEMembers; *TUEUnion }` -/
def outerPtr : Fields :=
  .cons "TUEMembers" "" true (.named "TUEMembers" (.struct membersF))
    (.cons "TUEUnion" "" true (.ptr (.named "TUEUnion" (.struct unionF))) .nil)
/-- `struct { TUEMembers; TUEUnion }` -/
def outerVal : Fields :=
  .cons "TUEMembers" "" true (.named "TUEMembers" (.struct membersF))
    (.cons "TUEUnion" "" true (.named "TUEUnion" (.struct unionF)) .nil)
/-- `struct { *TUEInner }`, `TUEInner = struct { A; B; F any (union) }` -/
def shared : Fields :=
  .cons "TUEInner" "" true (.ptr (.named "TUEInner" (.struct
    (.cons "A" (tg "1") false (.int .i32) (.cons "B" (tg "2") false .str (.cons "F" (tg ",union") false .any .nil)))))) .nil

def shapeOf : String → Option Fields
  | "ptr" => some outerPtr
  | "val" => some outerVal
  | "shared" => some shared
  | _ => none

def showLeaf : Val → String
  | .int i => toString i
  | .str b => if b.isEmpty then "" else toHex b
  | _ => "?"

/-- the observable of harness/thriftunionemb.go: the promoted members by name, and which member the union field points to -/
def showOut (fs : Fields) : Res Val → String
  | .ok (.struct vs) =>
    let ffs := fieldDescsE fs
    let val (n : String) : String :=
      match ffs.find? (·.name == n) with
      | some ff => showLeaf (getPathA fs vs ff.index)
      | none => "?"
    let f : String :=
      match unionPathE fs with
      | some up =>
        if fieldByIndexOK vs up then
          (match ffs.find? (fun ff => (getPathA fs vs up).show == (pathRef ff.index).show) with
           | some ff => ff.name
           | none => "nil")
        else "nil"
      | none => "nil"
    "ok:A=" ++ val "A" ++ " B=" ++ val "B" ++ " F=" ++ f
  | .ok _ => "ok:?"
  | .err e => "err:" ++ errClass e
  | .panic e => "panic:" ++ e

def handle (op : String) (args : List String) : Option (String × String × String) :=
  match op, args with
  | "thrift.uembdecode", [p, strict, shape, h] => do
    let (mp, _) ← protoOf p
    let b ← fromHex h
    match shapeOf shape with
    | some fs => pure (showOut fs (unmarshalUE mp (strict == "1") (.struct fs) b), "-", "")
    | none => pure ("-", "-", "")
  | _, _ => none

end Enc.Driver.ThriftUnionEmbed
