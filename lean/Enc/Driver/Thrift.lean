import Enc.Model.Thrift
import Enc.Model.ThriftUnion
import Enc.Model.ThriftAlloc
import Enc.Spec.Thrift
import Enc.Spec.Protobuf
/-! line-protocol handlers, area `thrift`. -/
namespace Enc.Driver.Thrift
open Enc

def protoOf : String → Option (Model.Thrift.Proto × Spec.Thrift.Proto)
  | "bs" => some (.binary true, .binary true)
  | "bn" => some (.binary false, .binary false)
  | "c" => some (.compact, .compact)
  | _ => none

def errClass (e : String) : String :=
  if e == "eof" then "eof" else if e == "unexpectedEof" then "unexpectedEof"
  else if e == "missingField" then "missingField" else if e == "typeMismatch" then "typeMismatch"
  else if e == "trailing" then "trailing" else "other"

def showRes (ty : Ty) : Res Val → String
  | .ok v => "ok:" ++ (Spec.Protobuf.canonical ty v).show
  | .err e => "err:" ++ errClass e
  | .panic e => "panic:" ++ e

mutual
def hasFloat : Ty → Bool
  | .f32 | .f64 => true
  | .ptr t | .slice t | .named _ t | .arr _ t => hasFloat t
  | .map k v => hasFloat k || hasFloat v
  | .struct fs => hasFloatF fs
  | _ => false
def hasFloatF : Fields → Bool
  | .nil => false
  | .cons _ _ _ t r => hasFloat t || hasFloatF r
end

mutual
/-- a non-required float field holding -0.0 (dropped by `reflect.Value.IsZero`) -/
def hasNegZero : Ty → Val → Bool
  | .f64, .float b => b == 2 ^ 63
  | .f32, .float b => b == 2 ^ 63 || b == 2 ^ 31
  | .ptr t, .ptr v => hasNegZero t v
  | .named _ t, v => hasNegZero t v
  | .slice t, .list vs => negZeroL t vs
  | .map _ vt, .map kvs => negZeroM vt kvs
  | .struct fs, .struct vs => negZeroF fs vs
  | _, _ => false
def negZeroL (t : Ty) : Vals → Bool
  | .nil => false
  | .cons v r => hasNegZero t v || negZeroL t r
def negZeroM (t : Ty) : Vals → Bool
  | .cons _ (.cons v r) => hasNegZero t v || negZeroM t r
  | _ => false
def negZeroF : Fields → Vals → Bool
  | .cons _ _ _ t fr, .cons v vr => hasNegZero t v || negZeroF fr vr
  | _, _ => false
end

def isPtrTy : Ty → Bool | .ptr _ => true | _ => false
def anyNil : Vals → Bool
  | .nil => false
  | .cons .nil _ => true
  | .cons _ r => anyNil r
def nilVals : Vals → Bool
  | .cons _ (.cons v r) => (match v with | .nil => true | _ => false) || nilVals r
  | _ => false
mutual
def nilInColl : Ty → Val → Bool
  | .slice t, .list vs => (isPtrTy t && anyNil vs) || nilL t vs
  | .map _ vt, .map kvs => (isPtrTy vt && nilVals kvs) || nilM vt kvs
  | .ptr t, .ptr v => (isPtrTy t && (match v with | .nil => true | _ => false)) || nilInColl t v
  | .named _ t, v => nilInColl t v
  | .struct fs, .struct vs => nilF fs vs
  | _, _ => false
def nilL (t : Ty) : Vals → Bool
  | .nil => false
  | .cons v r => nilInColl t v || nilL t r
def nilM (t : Ty) : Vals → Bool
  | .cons _ (.cons v r) => nilInColl t v || nilM t r
  | _ => false
def nilF : Fields → Vals → Bool
  | .cons _ _ _ t fr, .cons v vr => nilInColl t v || nilF fr vr
  | _, _ => false
end

mutual
/-- an enum-tagged field whose Go kind is not int32: announced with the kind's thrift type, written as i32 -/
def hasWideEnum : Ty → Bool
  | .ptr t | .slice t | .named _ t | .arr _ t => hasWideEnum t
  | .map k v => hasWideEnum k || hasWideEnum v
  | .struct fs => wideEnumF fs
  | _ => false
def wideEnumF : Fields → Bool
  | .nil => false
  | .cons _ tag _ t r =>
    (match Spec.Thrift.tagOf tag with
     | some (_, _, true) => (match t with | .int .i32 => false | _ => true)
     | _ => false) || hasWideEnum t || wideEnumF r
end

mutual
/-- some union value inside designates a member that holds its zero value and shares its Go type with another member: the
encoder's `zeroMember` cannot tell them apart and writes nothing (finding: residue of fix fb0bd25) -/
def ambigZero : Ty → Val → Bool
  | .ptr t, .ptr v => ambigZero t v
  | .named _ t, v => ambigZero t v
  | .slice t, .list vs => ambigL t vs
  | .map _ vt, .map kvs => ambigM vt kvs
  | .struct fs, .struct vs =>
    (match Model.Thrift.unionPos fs 0 with
     | none => false
     | some u =>
       (match Model.Thrift.Vals.get vs u with
        | .ptr (.int k) =>
          decide (0 ≤ k) && (Model.Thrift.zeroMember fs vs).isNone &&
            (match Model.Thrift.tyAt fs k.toNat with
             | some (.ptr _) => false
             | some ut => (match Model.Thrift.zmScan ut fs vs 0 with | some l => l.contains k.toNat | none => false)
             | none => false)
        | _ => false)) || ambigF fs vs
  | _, _ => false
def ambigL (t : Ty) : Vals → Bool
  | .nil => false
  | .cons v r => ambigZero t v || ambigL t r
def ambigM (t : Ty) : Vals → Bool
  | .cons _ (.cons v r) => ambigZero t v || ambigM t r
  | _ => false
def ambigF : Fields → Vals → Bool
  | .cons _ _ _ t fr, .cons v vr => ambigZero t v || ambigF fr vr
  | _, _ => false
end

def showBytes : Res Bytes → String
  | .ok b => "ok:" ++ toHex b
  | .err _ => "err"
  | .panic e => "panic:" ++ e

def classes (p : Model.Thrift.Proto) (ty : Ty) (v : Val) : List String :=
  (if ambigZero ty v then ["thriftUnionZeroAmbiguous"] else []) ++
  (if hasWideEnum ty then ["thriftEnumFieldType"] else []) ++
  (match p with | .binary _ => ["thriftBinaryTypeCodes"] | .compact => (if hasFloat ty then ["thriftCompactDoubleBE"] else []))
  ++ (if hasNegZero ty v then ["thriftNegZeroDropped"] else [])
  ++ (if nilInColl ty v then ["thriftNilPtrInCollection"] else [])

/-- the nominal linear bound the harness compares the measured allocation with (`thrift.alloc`, `thrift.allocm`) -/
def allocBound (ty : Ty) (len : Nat) : Nat := len * 64 * (sizeOfTy ty + 64) + 65536
/-- slack of the correspondence measured ↔ model, both directions (error values, decoder bookkeeping, map buckets) -/
def allocC0 : Nat := 16384

def handle (op : String) (args : List String) : Option (String × String × String) :=
  match op, args with
  -- thrift.allocm <proto> <type> <hex> <measured>: the allocation clause of C08 on the real code against the model's count
  -- of the wire-sized allocation sites (Enc/Model/ThriftAlloc.lean). M = the verdict the harness computes from the measured
  -- number, PROVIDED the measured number and the model's count agree (`model ≤ 1.5·meas + c0` and `meas ≤ 4·model + 8320·len + c0`),
  -- else the disagreement. The model counts the wire-sized sites only; what it leaves out is linear in the input with a LARGE
  -- factor: every struct decoded allocates its `seen` bitmap, 8·((maxID−minID+1)/64+1) bytes — up to 8 KiB for a type whose
  -- field ids span the int16 range — and an empty struct is ONE input byte (observed: 4126 bytes per element). The known class is decided by the MODEL: it
  -- is attached exactly when the model's own count exceeds the linear bound.
  | "thrift.allocm", [pn, ty, h, meas] => do
    let (p, _) ← protoOf pn
    let ty ← Ty.parse ty
    let b ← fromHex h
    let meas ← meas.toNat?
    let a := (Model.Thrift.unmarshalA p false ty b).2
    let bound := allocBound ty b.length
    let pre := s!"sz={sizeOfTy ty};"
    let verdict :=
      if 2 * a > 3 * meas + 2 * allocC0 then s!"model={a}>1.5*meas={meas}+{allocC0}"
      else if meas > 4 * a + 8320 * b.length + allocC0 then s!"meas={meas}>4*model={a}+8320*{b.length}+{allocC0}"
      else if meas ≤ bound then "ok" else s!"alloc={meas}>bound={bound}"
    pure (pre ++ verdict, "-", if a > bound then "thriftWireSizeAlloc" else "")
  | "thrift.allocnum", [pn, ty, h] => do
    let (p, _) ← protoOf pn
    let ty ← Ty.parse ty
    let b ← fromHex h
    let r := Model.Thrift.unmarshalA p false ty b
    pure (s!"alloc={r.2};" ++ showRes ty r.1, "-", "")
  | "thrift.marshal", [p, ty, v] => do
    let (mp, sp) ← protoOf p
    let ty ← Ty.parse ty
    let v ← Val.parse v
    -- the model with unions (Model/ThriftUnion.lean; = `Model.Thrift.marshal` on union-free types:
    -- Lemmas.ThriftUnionCons.marshalU_eq_marshal); specification: `Spec.Thrift.encode`, with unions `encodeU`
    let spec := if Model.Thrift.noUnion ty then "ok:" ++ toHex (Spec.Thrift.encode sp ty v)
      else match Spec.Thrift.encodeU sp ty v with | some b => "ok:" ++ toHex b | none => "-"
    pure (showBytes (Model.Thrift.marshalU mp ty v), spec, String.intercalate "," (classes mp ty v))
  | "thrift.marshalx", [p, ty, v] => do      -- values with multi-entry maps: no byte comparison, classes only
    let (mp, _) ← protoOf p
    let ty ← Ty.parse ty
    let v ← Val.parse v
    pure ("-", "-", String.intercalate "," (classes mp ty v))
  | "thrift.roundtrip", [p, ty, v] => do
    let (mp, _) ← protoOf p
    let ty ← Ty.parse ty
    let v ← Val.parse v
    let m := match Model.Thrift.marshalU mp ty v with
      | .ok b => showRes ty (Model.Thrift.unmarshalU mp false ty b)
      | _ => "marshal-err"
    pure (m, "-", String.intercalate "," (classes mp ty v))
  | "thrift.rtm", [p, ty, v] => do      -- same as thrift.roundtrip, no Go-side oracle (improper union values)
    let (mp, _) ← protoOf p
    let ty ← Ty.parse ty
    let v ← Val.parse v
    let m := match Model.Thrift.marshalU mp ty v with
      | .ok b => showRes ty (Model.Thrift.unmarshalU mp false ty b)
      | _ => "marshal-err"
    pure (m, "-", String.intercalate "," (classes mp ty v))
  | "thrift.decode", [p, strict, ty, h] => do
    let (mp, _) ← protoOf p
    let ty ← Ty.parse ty
    let b ← fromHex h
    pure (showRes ty (Model.Thrift.unmarshalU mp (strict == "1") ty b), "-", "")
  | "thrift.decode", [p, strict, tys, h, want] => do
    let (m, s, _) ← handle "thrift.decode" [p, strict, tys, h]
    let (mp, _) ← protoOf p
    let ty ← Ty.parse tys
    let k := match Val.parse ((want.drop 3).toString) with
      | some v => classes mp ty v
      | none => []
    pure (m, s, String.intercalate "," k)
  | "thrift.message", [p, mtype, name, seq] => do
    let (mp, sp) ← protoOf p
    let mt ← mtype.toNat?
    let nm ← fromHex name
    let sq ← seq.toInt?
    -- spec message types are 1..4 for Call..Oneway; the known-finding class is attached exactly where the written header
    -- is not the specified one
    let m := toHex (Model.Thrift.wMessage mp mt nm sq)
    let s := toHex (Spec.Thrift.message sp (mt + 1) nm sq)
    pure (m, s, if m == s then "" else "thriftMessageHeader")
  | "thrift.readmessage", [p, h] => do          -- ReadMessage on arbitrary bytes (model only)
    let (mp, _) ← protoOf p
    let b ← fromHex h
    let m := match Model.Thrift.rMessage mp b with
      | .ok (msg, rest) => "ok:" ++ toString msg.mtype ++ " " ++ toHex msg.name ++ " " ++ toString msg.seq ++ " " ++ toString rest.length
      | .err e => "err:" ++ errClass e
      | .panic e => "panic:" ++ e
    pure (m, "-", "")
  | "thrift.readmessage", [p, h, _want] => handle "thrift.readmessage" [p, h]   -- third argument: Go-side oracle
  | "thrift.wfield", [p, t, id, delta] => do    -- Writer.WriteField(Field{ID, Type, Delta}) (model only)
    let (mp, _) ← protoOf p
    let tn ← t.toNat?
    let i ← id.toInt?
    pure (toHex (Model.Thrift.wField mp (Model.Thrift.TType.ofCode tn) i (delta == "1")), "-", "")
  | _, _ => none

end Enc.Driver.Thrift
