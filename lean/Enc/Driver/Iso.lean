import Enc.Model.Iso
import Enc.Spec.Iso
namespace Enc.Driver.Iso
open Enc

def handle (op : String) (args : List String) : Option (String × String × String) :=
  match op, args with
  | "iso.parse", [h] => do
    let s ← fromHex h
    let m := match Model.Iso.parseFast s with
      | .notFast => "-"
      | .rangeErr => "err"
      | .ok u n => s!"ok:{u}:{n}:0"
    let sp := match Spec.Iso.parseZ s with
      | none => "-"
      | some none => "err"
      | some (some (u, n)) => s!"ok:{u}:{n}:0"
    pure (m, sp, "")
  | "iso.valid", [h, f] => do
    let s ← fromHex h
    let f ← f.toNat?
    let mf := Model.Iso.VFlags.ofNat f
    -- spec flags by their documented meaning; bit values are those of the Go constants (1<<iota starting at iota=1)
    let sf : Spec.Iso.Flags := { space := f &&& 2 != 0, missingTime := f &&& 4 != 0, missingSubsecond := f &&& 8 != 0,
                                 missingTimezone := f &&& 16 != 0, numericTimezone := f &&& 32 != 0 }
    pure (boolStr (Model.Iso.valid s mf), boolStr (Spec.Iso.validSpec s sf), "")
  | _, _ => none
end Enc.Driver.Iso
