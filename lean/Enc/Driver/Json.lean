import Enc.Model.Json.Scan
import Enc.Spec.Json.Grammar
/-! line-protocol handlers, area `json` (syntax layer). -/
namespace Enc.Driver.Json
open Enc

def handle (op : String) (args : List String) : Option (String × String × String) :=
  match op, args with
  | "json.valid", [h] => do
    let b ← fromHex h
    let k := if Spec.Json.validRFC b && !Spec.Json.validStd b then "jsonDepthOver10000" else ""
    pure (boolStr (Model.Json.valid b), boolStr (Spec.Json.validStd b), k)
  -- syntax-only consumers: the language they accept must be that of Valid
  | "json.consumer", [_which, h] => do
    let b ← fromHex h
    let k := if Spec.Json.validRFC b && !Spec.Json.validStd b then "jsonDepthOver10000" else ""
    pure ("-", boolStr (Spec.Json.validStd b), k)
  | _, _ => none

end Enc.Driver.Json
