import Enc.Model.Json.Scan
import Enc.Model.Json.Stream
import Enc.Model.Json.Token
import Enc.Spec.Json.Tokens
import Enc.Model.Json.EncString
import Enc.Spec.Json.StdEnc
import Enc.Spec.Json.Grammar
import Enc.Spec.Json.StreamSpec
import Enc.Model.Json.DecScalar
import Enc.Spec.Json.StdDec
import Enc.Model.Json.DynNumber
import Enc.Spec.Json.DynNumber
import Enc.Model.Json.Own
import Enc.Spec.Json.Cyclic
import Enc.Driver.JsonFields
import Enc.Driver.JsonAny
import Enc.Driver.JsonCodec
import Enc.Driver.JsonCodecDec
import Enc.Driver.JsonTyped
import Enc.Spec.Json.RoundTrip
import Enc.Model.Json.MapOrder
import Enc.Model.Json.EncFloat
import Enc.Spec.Json.StdEncFloat
import Enc.Driver.JsonTokAcc
/-! line-protocol handlers, area `json` (syntax layer). -/
namespace Enc.Driver.Json
open Enc

def handle (op : String) (args : List String) : Option (String × String × String) :=
  match op, args with
  | "json.valid", [h] => do
    let b ← fromHex h
    pure (boolStr (Model.Json.valid b), boolStr (Spec.Json.validStd b), "")
  -- syntax-only consumers: the language they accept must be that of Valid
  | "json.consumer", [_which, h] => do
    let b ← fromHex h
    pure ("-", boolStr (Spec.Json.validStd b), "")
  -- json.stream <events> <final>: events = comma-separated d:<hex> (data) | e:<hex> (data delivered with the final error)
  | "json.stream", evs :: fin :: _ => do
    let final := if fin == "eof" then Model.Json.Stream.RErr.eof else .other
    let evl ← (evs.splitOn ",").filter (· ≠ "") |>.mapM fun e =>
      match e.splitOn ":" with
      | ["d", h] => (fromHex h).map fun b => ({ data := b, err := none } : Model.Json.Stream.Ev)
      | ["e", h] => (fromHex h).map fun b => ({ data := b, err := some final } : Model.Json.Stream.Ev)
      | _ => none
    let outs := Model.Json.Stream.decodeAll Gen.c_json_minBufferSize Gen.c_json_minReadSize 100000
      { reader := evl, final := final }
    let all : Bytes := (evl.map (·.data)).flatten
    let showOut : Model.Json.Stream.Out → String
      | .value raw _ => toHex raw
      | .eof => "EOF" | .unexpectedEof => "ERR" | .syntax => "ERR" | .readerErr => "RERR"
    -- spec: the chunking-free value stream of the concatenated bytes (Spec/Json/StreamSpec.lean; theorem Props.C11.decodeAll_eq_spec)
    let showS : Spec.Json.SOut → String
      | .value raw => toHex raw | .eof => "EOF" | .err => "ERR"
    let specVals : List String := (Spec.Json.specStream (all.length + 2) all).map showS
    let s := if fin == "eof" then String.intercalate "," specVals ++ ";off=1;buf=1" else "-"
    let m := String.intercalate "," (outs.map showOut) ++ ";off=1;buf=1"
    -- canonical forms: model END markers → compare on values + class of the end
    pure (m, s, "")
  -- json.streamoff <events> <final>: per Decode call `InputOffset/len(Buffered)/class` (the calls go on until the third
  -- one that does not return a value), then `;mono=` offsets never decrease, `;bounds=` after each successful call
  -- stop(value) ≤ offset ≤ start(next) with the positions of the chunking-free specification (Spec.Json.specStreamPos),
  -- `;cons=` after every call consumed prefix ++ Buffered ++ undelivered rest of the script = whole input
  | "json.streamoff", evs :: fin :: _ => do
    let final := if fin == "eof" then Model.Json.Stream.RErr.eof else .other
    let evl ← (evs.splitOn ",").filter (· ≠ "") |>.mapM fun e =>
      match e.splitOn ":" with
      | ["d", h] => (fromHex h).map fun b => ({ data := b, err := none } : Model.Json.Stream.Ev)
      | ["e", h] => (fromHex h).map fun b => ({ data := b, err := some final } : Model.Json.Stream.Ev)
      | _ => none
    let calls := Model.Json.Stream.decodeCalls Gen.c_json_minBufferSize Gen.c_json_minReadSize 100000 2
      { reader := evl, final := final }
    let all : Bytes := (evl.map (·.data)).flatten
    let cls : Model.Json.Stream.Out → String
      | .value .. => "V" | .eof => "EOF" | .unexpectedEof => "ERR" | .syntax => "ERR" | .readerErr => "RERR"
    let trip := calls.map fun (o, s) => s!"{s.inputOffset}/{s.buffered.length}/{cls o}"
    let offs := calls.map fun (_, s) => s.inputOffset
    let mono := (offs.zip (offs.drop 1)).all fun (a, b) => a ≤ b
    let cons := calls.all fun (_, s) =>
      s.inputOffset ≤ all.length && all.drop s.inputOffset == s.buffered ++ (s.reader.map (·.data)).flatten
    -- the spec's positions: element i of the spec stream against call i, while the calls return values
    let sp := Spec.Json.specStreamPos (all.length + 2) 0 all
    let rec chk : List (Model.Json.Stream.Out × Model.Json.Stream.St) → List (Spec.Json.SOut × Nat × Nat) → Bool
      | (.value raw _, s) :: cs, (.value raw', _, stop) :: (o', start', x) :: ss =>
        raw == raw' && stop ≤ s.inputOffset && s.inputOffset ≤ start' && chk cs ((o', start', x) :: ss)
      | (.value .., _) :: _, _ => false
      | _, _ => true
    let m := String.intercalate "," trip ++ s!";mono={boolStr mono};bounds={boolStr (chk calls sp)};cons={boolStr cons}"
    pure (m, "-", "")
  -- json.parserem <hex>: remainder returned by Parse = bytes after the first value and its trailing white space
  | "json.parserem", [h] => do
    let b ← fromHex h
    let b0 := Model.Json.skipSpaces b
    let m := match Model.Json.parseValue (Model.Json.internalParseFlags b) 0 (Model.Json.fuelFor b0) b0 with
      | .ok _ r => "ok:" ++ toHex (Model.Json.skipSpaces r)
      | .err _ => "err"
    let b1 := Spec.Json.ws b
    let s := match Spec.Json.value (3 * b1.length + 8) (b1.length + 1) b1 with
      | some r => "ok:" ++ toHex (Spec.Json.ws r)
      | none => "err"
    pure (m, s, "")
  -- json.tokens <hex>: the whole token stream, one record per token `delim/valuehex/depth/index/iskey`, then END|ERR
  | "json.tokens", [h] => do
    let b ← fromHex h
    let (toks, err) := Model.Json.Token.tokens b
    let showT (t : Model.Json.Token.Tok) : String :=
      s!"{t.delim.toNat}/{toHex t.value}/{t.depth}/{t.index}/{boolStr t.isKey}/{t.remaining}"
    let m := String.intercalate ";" (toks.map showT ++ [if err then "ERR" else "END"])
    pure (m, "-", "")
  -- json.tokspec <hex>: for a VALID document, the token stream as the grammar-directed specification defines it
  | "json.tokspec", [h] => do
    let b ← fromHex h
    let s := match Spec.Json.tokensOf b with
      | some ts => String.intercalate ";" (ts.map fun t => s!"{t.delim.toNat}/{toHex t.value}/{t.depth}/{t.index}/{boolStr t.isKey}")
      | none => "invalid"
    pure ("-", s, "")
  -- json.decint <hex>: the document unmarshalled into a zero variable of each of the ten integer types
  | "json.decint", [h] => do
    let b ← fromHex h
    let tys : List (Model.Json.ITy × Int × Int) := [(.i8, -128, 127), (.i16, -32768, 32767), (.i32, -2147483648, 2147483647),
      (.i64, -9223372036854775808, 9223372036854775807), (.int, -9223372036854775808, 9223372036854775807),
      (.u8, 0, 255), (.u16, 0, 65535), (.u32, 0, 4294967295), (.u64, 0, 18446744073709551615), (.uint, 0, 18446744073709551615)]
    let sh : Option Int → String := fun | some v => toString v | none => "E"
    let m := String.join (tys.map fun (t, _, _) => sh (Model.Json.unmarshalInt t b) ++ ",")
    let sp := String.join (tys.map fun (t, lo, hi) => sh (Spec.Json.unmarshalInt t.signed lo hi b) ++ ",")
    pure (m, sp, "")
  -- json.dynnum <flags 0..15> <hex>: dynamic type (and value) chosen for a number stored into an interface
  | "json.dynnum", [m, h] => do
    let m ← m.toNat?
    let b ← fromHex h
    let fl : Model.Json.DynFlags := { useNumber := m % 2 == 1, useBigInt := m / 2 % 2 == 1, useInt64 := m / 4 % 2 == 1, useUint64 := m / 8 % 2 == 1 }
    let str (x : Bytes) : String := String.ofList (x.map fun c => Char.ofNat c.toNat)
    let sh : Model.Json.Dyn → String
      | .u64 v => "u64:" ++ toString v
      | .i64 v => "i64:" ++ toString v
      | .big l => "big:" ++ toString (Spec.Json.intValue l)
      | .num l => "num:" ++ str l
      | .f64 => "f64"
      | .err => "err"
    pure (sh (Model.Json.decodeDynamicNumber fl b), sh (Spec.Json.dynSpec fl b), "")
  -- json.prov <copyflags 0..7> <shape> <hex literal> <hex document>: does the decoded leaf point into the input buffer?
  | "json.prov", [m, shape, h, hd] => do
    let m ← m.toNat?
    let lit ← fromHex h
    let doc ← fromHex hd
    let fl : Model.Json.Own.CopyFlags := { dontCopyString := m % 2 == 1, dontCopyNumber := m / 2 % 2 == 1, dontCopyRawMessage := m / 4 % 2 == 1 }
    let leaf : Model.Json.Own.Leaf := if shape == "num" || shape == "numfield" then .number
      else if shape == "raw" || shape == "rawelem" then .raw else if shape == "bytes" then .bytes else .string
    let pf := Model.Json.internalParseFlags doc
    let flagOn := match leaf with | .string => fl.dontCopyString | .number => fl.dontCopyNumber | .raw => fl.dontCopyRawMessage | .bytes => false
    let empty := (leaf == .string || leaf == .bytes) && lit.length == 2
    let mres := match Model.Json.Own.leafProv fl pf leaf lit with
      | none => "err"
      | some p => if empty then "empty" else if p == .input then "in" else "out"
    let sres := if mres == "err" || mres == "empty" then mres else if flagOn then "-" else "out"
    pure (mres, sres, "")
  -- json.cycle <root> <graph>: graph = nodes separated by ';', node = <kind p|s|m>:<child ids separated by ','>
  | "json.cycle", [root, gr] => do
    let root ← root.toNat?
    let nodes ← (gr.splitOn ";").filter (· ≠ "") |>.mapM fun nd =>
      match nd.splitOn ":" with
      | [_, cs] => ((cs.splitOn ",").filter (· ≠ "")).mapM (·.toNat?)
      | _ => none
    let m := match Model.Json.Cycle.marshal nodes root with
      | .ok => "ok" | .cycle => "err" | .outOfFuel => "fuel"
    pure (m, if Spec.Json.cyclicFrom nodes root then "err" else "ok", "")
  | "json.decstr", [h] => do
    let b ← fromHex h
    let sh : Option Bytes → String := fun | some v => "ok:" ++ toHex v | none => "err"
    pure (sh (Model.Json.unmarshalString b), sh (Spec.Json.unmarshalString b), "")
  | "json.encstr", [html, h] => do
    let s ← fromHex h
    pure (toHex (Model.Json.encodeString s (html == "1")), toHex (Spec.Json.appendString s (html == "1")), "")
  -- json.strrt <html> <hex>: the string decoder model applied to the string encoder model's output (C14 round trip);
  -- the validator and tokenizer models must accept that output as one string value / one token
  | "json.strrt", [html, h] => do
    let s ← fromHex h
    let enc := Model.Json.encodeString s (html == "1")
    let m := match Model.Json.unmarshalString enc with | some v => "ok:" ++ toHex v | none => "err"
    let m := if Model.Json.valid enc then m else "err:output-not-valid"
    let (toks, terr) := Model.Json.Token.tokens enc
    let m := if terr || toks.length != 1 then m ++ ";tokens=" ++ toString toks.length
             else if toks.all (fun t => t.value == enc) then m else m ++ ";token-differs"
    pure (m, "ok:" ++ toHex (Spec.Json.coerceUTF8 s), "")
  -- json.maporder <html> <entries>: map[string]string rendered with SortMapKeys (the order given is irrelevant: keys are
  -- distinct); ";perm" = the output without the flag is a permutation of it (theorem Props.C14.sortMapKeys_members_perm)
  | "json.maporder", [html, es] => do
    let m : Option Model.Json.MapOrder.Entries ←
      if es == "nil" then pure none
      else if es == "empty" then pure (some [])
      else ((es.splitOn ",").mapM (fun (e : String) => match e.splitOn ":" with
        | [k, v] => (fromHex k).bind fun kb => (fromHex v).map fun vb => (kb, vb)
        | _ => none)).map some
    pure (toHex (Model.Json.MapOrder.encodeMapStringString (html == "1") true m) ++ ";perm", "-", "")
  -- json.decany <flags 0..15> <hex document>: the value stored into `var x any` (see Driver/JsonAny.lean)
  | "json.decany", [m, h] => do
    let m ← m.toNat?
    let b ← fromHex h
    pure (Driver.JsonAny.prop (Driver.JsonAny.run m b))
  | "json.decany", [m, h, prior] => do
    let m ← m.toNat?
    let b ← fromHex h
    let p ← Driver.JsonAny.priorOf prior
    pure (Driver.JsonAny.prop (Driver.JsonAny.runInto m b p))
  | "json.decanycls", [m, h] => do
    let m ← m.toNat?
    let b ← fromHex h
    pure (Driver.JsonAny.cls (Driver.JsonAny.run m b))
  | "json.decanycls", [m, h, prior] => do
    let m ← m.toNat?
    let b ← fromHex h
    let p ← Driver.JsonAny.priorOf prior
    pure (Driver.JsonAny.cls (Driver.JsonAny.runInto m b p))
  -- json.dectyped / json.dectypedcls <type> <flags> <hex docs>: typed targets (see Driver/JsonTyped.lean)
  | "json.dectyped", args => Driver.JsonTyped.handle op args
  | "json.dectypedcls", args => Driver.JsonTyped.handle op args
  | "json.codecchoice", [d] => Driver.JsonCodec.run d
  | "json.codecchoicedec", [d, v] => Driver.JsonCodecDec.run d v
  | "json.codectreedec", [d] => Driver.JsonCodecDec.runTree d
  | "json.codeceqdec", [d] => Driver.JsonCodecDec.runEq d
  | "json.codectree", [d] => Driver.JsonCodec.runTree d
  | "json.codeceq", [d] => Driver.JsonCodec.runEq d
  | "json.fields", [d] => Driver.JsonFields.run d
  | "json.fieldsnil", [d] => Driver.JsonFields.runNil d
  | "json.fieldsvis", [d] => Driver.JsonFields.runVisible d
  | "json.fieldsdec", [cpu, d, obj] => Driver.JsonFields.runDecode cpu d obj
  -- json.encfloat <float bits hex> <32|64> <prefix hex> <cmp: 7 × 0/1 = isNaN isInf abs≠0 <1e-6 ≥1e21 f32<1e-6 f32≥1e21>
  --               <hex of strconv 'f' digits> <hex of strconv 'e' digits>
  -- M = encodeFloat on the whole buffer; S = prefix ++ stdlib rule on the digits alone; the trusted strconv shape is
  -- checked on every case (";shape" appended to M when the digits handed over do not have it)
  | "json.encfloat", [_bits, w, pre, cmp, hf, he] => do
    let w ← w.toNat?
    let dst ← fromHex pre
    let dF ← fromHex hf
    let dE ← fromHex he
    let cs := cmp.toList.map (· == '1')
    if cs.length != 7 then none
    let g (i : Nat) : Bool := cs.getD i false
    let c : Model.Json.FloatCmp := ⟨g 0, g 1, g 2, g 3, g 4, g 5, g 6⟩
    let finite := !c.isNaN && !c.isInf
    let shapeOk := !finite || (Model.Json.shapeF dF && Model.Json.shapeE dE)
    let m := match Model.Json.encodeFloat dst w c dF dE with
      | .ok b => "ok:" ++ toHex b
      | _ => "err"
    let sp := match Spec.Json.stdEncodeFloat c.isNaN c.isInf c.nonZero (if w == 64 then c.lt64 else c.lt32)
        (if w == 64 then c.ge64 else c.ge32) dF dE with
      | some x => "ok:" ++ toHex (dst ++ x)
      | none => "err"
    pure (if shapeOk then m else m ++ ";shape", sp, "")
  -- json.tokacc <hex>: every token with what the accessors report (Driver/JsonTokAcc.lean); json.tokaccstd: Go-side only
  | "json.tokacc", [h] => do
    let b ← fromHex h
    pure (Driver.JsonTokAcc.run b)
  | "json.tokaccstd", [_h] => pure ("-", "-", "")
  | "json.encint", [n] => do
    let i ← n.toInt?
    pure (toHex (Model.Json.appendInt i), toHex (Spec.Json.intString i), "")
  | _, _ => none

end Enc.Driver.Json
