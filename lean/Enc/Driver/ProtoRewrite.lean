import Enc.Model.ProtoRewrite
import Enc.Spec.Protobuf
/-! line-protocol handler for `proto.msgrewrite`. Rewriter text (prefix tokens):
  raw <hex> | multi <n> R*n | msg <k> (<fieldno> R)*k | emb <number> <k> (<fieldno> R)*k | embm <number> <k> (<fieldno> R)*k
  | repl R        (embm = embddedRewriter{merge: true}, repl = replacement{R}: both built by ParseRewriteTemplate only) -/
namespace Enc.Driver.ProtoRewrite
open Enc

def lenOf (ps : List (Nat × Model.Proto.Rw)) : Nat := ps.foldl (fun m p => max m (p.1 + 1)) 0

def sortPairs {α} (ps : List (Nat × α)) : List (Nat × α) :=
  ps.foldr (fun p acc =>
    let rec ins (p : Nat × α) : List (Nat × α) → List (Nat × α)
      | [] => [p]
      | q :: r => if p.1 ≤ q.1 then p :: q :: r else q :: ins p r
    ins p acc) []

mutual
def parseRw : Nat → List String → Option ((Model.Proto.Rw × Spec.Protobuf.SRw) × List String)
  | 0, _ => none
  | fuel + 1, tok :: rest =>
    match tok with
    | "raw" => match rest with
      | h :: rest => do let b ← fromHex h; pure ((.raw b, .raw b), rest)
      | _ => none
    | "multi" => match rest with
      | n :: rest => do
        let n ← n.toNat?
        let (rs, rest) ← parseMany fuel n rest
        pure ((.multi (rs.map (·.1)), .multi (rs.map (·.2))), rest)
      | _ => none
    | "msg" => match rest with
      | k :: rest => do
        let k ← k.toNat?
        let (ps, rest) ← parsePairs fuel k rest
        let ps := sortPairs ps
        pure ((.message (lenOf (ps.map fun p => (p.1, p.2.1))) (ps.map fun p => (p.1, p.2.1)), .message (ps.map fun p => (p.1, p.2.2))), rest)
      | _ => none
    | "emb" => match rest with
      | num :: k :: rest => do
        let num ← num.toNat?
        let k ← k.toNat?
        let (ps, rest) ← parsePairs fuel k rest
        let ps := sortPairs ps
        pure ((.embedded num (lenOf (ps.map fun p => (p.1, p.2.1))) (ps.map fun p => (p.1, p.2.1)), .embedded num (ps.map fun p => (p.1, p.2.2))), rest)
      | _ => none
    | "embm" => match rest with
      | num :: k :: rest => do
        let num ← num.toNat?
        let k ← k.toNat?
        let (ps, rest) ← parsePairs fuel k rest
        let ps := sortPairs ps
        pure ((.embeddedMerge num (lenOf (ps.map fun p => (p.1, p.2.1))) (ps.map fun p => (p.1, p.2.1)), .embeddedMerge num (ps.map fun p => (p.1, p.2.2))), rest)
      | _ => none
    | "repl" => do
      let (r, rest) ← parseRw fuel rest
      pure ((.replacement r.1, .replacement r.2), rest)
    | _ => none
  | _, [] => none
def parseMany : Nat → Nat → List String → Option (List (Model.Proto.Rw × Spec.Protobuf.SRw) × List String)
  | 0, _, _ => none
  | _, 0, rest => some ([], rest)
  | fuel + 1, n + 1, rest => do
    let (r, rest) ← parseRw fuel rest
    let (rs, rest) ← parseMany fuel n rest
    pure (r :: rs, rest)
def parsePairs : Nat → Nat → List String → Option (List (Nat × (Model.Proto.Rw × Spec.Protobuf.SRw)) × List String)
  | 0, _, _ => none
  | _, 0, rest => some ([], rest)
  | fuel + 1, n + 1, idx :: rest => do
    let i ← idx.toNat?
    let (r, rest) ← parseRw fuel rest
    let (ps, rest) ← parsePairs fuel n rest
    pure ((i, r) :: ps, rest)
  | _, _, [] => none
end

/-- decidable version of `Lemmas.ProtoRewriteSpec.Sim true`: equal records, or length-delimited records of the same number
whose payloads are both valid messages with similar records (a sub-message copied verbatim below an `embedded` rewriter
keeps its non-minimal varints, the specification re-encodes canonically) -/
def simRecs : Nat → List (Nat × Spec.Protobuf.WireVal) → List (Nat × Spec.Protobuf.WireVal) → Bool
  | _, [], [] => true
  | 0, _, _ => false
  | fuel + 1, (n, a) :: as, (m, b) :: bs =>
    (n == m) && simRecs fuel as bs &&
      (Spec.Protobuf.showRec (n, a) == Spec.Protobuf.showRec (m, b) ||
        match a, b with
        | .len x, .len y =>
          match Spec.Protobuf.parse (x.length + 1) x, Spec.Protobuf.parse (y.length + 1) y with
          | some rx, some ry => simRecs fuel rx ry
          | _, _ => false
        | _, _ => false)
  | _, _, _ => false

def handle (op : String) (args : List String) : Option (String × String × String) :=
  match op, args with
  -- proto.tmplrewrite <type> <template json hex> <rewriter text> <input hex> [<impl output hex>]: the Go side builds the
  -- rewriter with ParseRewriteTemplate; the rewriter text is the tree it is expected to build
  | "proto.tmplrewrite", _ :: _ :: rest => handle "proto.msgrewrite" rest
  | "proto.msgrewrite", rw :: inh :: rest => do
    let toks := tokens rw
    let ((mrw, srw), tl) ← parseRw (toks.length + 2) toks
    if !tl.isEmpty then none
    let inp ← fromHex inh
    let hasEmbText := toks.any fun t => t == "emb" || t == "embm"
    -- fuel: Lemmas.ProtoRewriteSpec.rewrite_fine needs inp.length + fuelD r; the token count bounds the size of r
    let fuel := 4 * inp.length + 64 + 16 * toks.length
    let m := match Model.Proto.rewrite fuel mrw inp with
      | .ok b => "ok:" ++ toHex b
      | .err _ => "err"
      | .panic e => "panic:" ++ e
    -- spec: compare at the level of parsed records with what the implementation produced (3rd argument)
    let s := match rest with
      | [implhex] =>
        (match (fromHex implhex) with
         | some ib =>
           (match Spec.Protobuf.specRw fuel srw inp, Spec.Protobuf.parse (ib.length + 1) ib with
            | some want, some got =>
              if want.map Spec.Protobuf.showRec == got.map Spec.Protobuf.showRec
                  || (hasEmbText && simRecs (ib.length + 2) got want) then "ok:" ++ implhex
              else "records:" ++ String.intercalate "," (want.map Spec.Protobuf.showRec)
            | some _, none => "impl-output-not-a-valid-message"
            | none, _ => "-")
         | none => "-")
      | _ => "-"
    pure (m, s, "")
  | _, _ => none

end Enc.Driver.ProtoRewrite
