import Enc.Model.Conc.CowCache
import Enc.Gen.Pools
import Enc.Base.Bytes
/-! line-protocol handlers, area `conc` (C09): replay a harness schedule on the copy-on-write cache model.
Harness events: L<i> = thread i runs from the start of its call up to (not including) the publication of its new cache
(model steps: load, lookup/construct); S<i> = thread i publishes and finishes (model step: store). Threads still blocked
at the end are released in index order. -/
namespace Enc.Driver.Conc
open Enc Enc.Model.Conc

def parseNats (s : String) : Option (List Nat) := ((s.splitOn ",").filter (· ≠ "")).mapM (·.toNat?)

/-- schedule of model steps for the harness events; `started` tracks which threads have begun -/
def expand (evs : List String) (nThreads : Nat) : List Nat × List Nat :=
  let rec go (evs : List String) (started : List Nat) (acc : List Nat) : List Nat × List Nat :=
    match evs with
    | [] => (acc, started)
    | ev :: rest =>
      match (ev.drop 1).toString.toNat? with
      | none => go rest started acc
      | some i =>
        if i ≥ nThreads then go rest started acc
        else if ev.startsWith "L" then
          if started.contains i then go rest started acc else go rest (i :: started) (acc ++ [i, i])
        else if started.contains i then go rest started (acc ++ [i]) else go rest started acc
  go evs [] []

def simulate (nTypes : Nat) (threads : List Nat) (evs : List String) : String × String :=
  let (steps, started) := expand evs threads.length
  let tail := (List.range threads.length).filter started.contains
  let s0 : State Nat Nat := initState [] (threads.map fun t => (t, []))
  let s := run (fun t => t) s0 (steps ++ tail)
  let mem := String.join ((List.range nTypes).map fun t => boolStr ((lookup s.cache t).isSome))
  let res := String.join ((List.range threads.length).map fun i =>
    if !started.contains i then "-" else
      match s.threads[i]? with
      | some th => (match th.pc with | .done c => boolStr (c == th.ty) | _ => "?")
      | none => "?")
  (res, mem)

def handle (op : String) (args : List String) : Option (String × String × String) :=
  match op, args with
  | "conc.sched", [_pkg, nT, ths, sched] => do
    let nT ← nT.toNat?
    let ths ← parseNats ths
    let (res, _) := simulate nT ths (sched.splitOn ",")
    pure (res, res, "")
  | "conc.cache", [_pkg, nT, ths, sched] => do
    let nT ← nT.toNat?
    let ths ← parseNats ths
    let (_, mem) := simulate nT ths (sched.splitOn ",")
    pure (mem, "-", "")
  | "conc.pooldisc", _ =>
    -- per regenerated sync.Pool site: ok / bad from the decidable discipline predicate; S = what the property demands
    let m := Gen.Pools.allSites.map fun s =>
      s.1 ++ "=" ++ (if Model.Conc.Pool.Disciplined Gen.Pools.numVars Gen.Pools.numFields s.2 then "ok" else "bad")
    let sp := Gen.Pools.allSites.map fun s => s.1 ++ "=ok"
    pure (",".intercalate m, ",".intercalate sp, "")
  | _, _ => none

end Enc.Driver.Conc
