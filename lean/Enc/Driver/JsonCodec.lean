import Enc.Model.Json.CodecChoiceExpand
import Enc.Spec.Json.StdCodecChoice
import Enc.Spec.Json.EmbedCycle
/-!
Driver for the op `json.codecchoice <descriptor>` (same grammar as harness/c01codec.go, which DERIVES the descriptor
from a Go value by reflection):

    desc   := type { '|' def }
    def    := '#' id '=' m m m m ':' type                 m = '-' | 'v' | 'p'  (MarshalJSON, MarshalText, UnmarshalJSON, UnmarshalText)
    type   := 'nil' | 'any{' type '}' | 'if' b b '{' type '}' | '[]' type | '[' n ']' type | 'map[' type ']' type
            | '*' type | '{' [ field { ';' field } ] '}' | '#' id | kind | special
    field  := [ '@' ] NAME [ ',s' ] ':' type             '@' = anonymous and untagged, ',s' = `string` option
    kind   := bool int int8 … uintptr float32 float64 string chan complex
    special:= number duration time raw

Observable: the JSON text `Marshal` writes for THE canonical value of the type (every method of the zoo returns a text
naming itself: "MJ-val", "MJ-ptr", "MT-val", "MT-ptr"), `err` when the type has no encoding. Canonical value: true, 7,
1.5, "s", Number "1", Duration 7, the zero Time, RawMessage `[1]`; slices and maps have one element (key: the canonical
value of the key type), arrays n, pointers are non-nil, interfaces hold the canonical value of `dyn` — except that a
pointer, slice or map is nil below `maxIndir` indirections (pointer targets, slice elements, map entries, embedded
pointers) from the root: recursive types are unrolled that far.
-/
namespace Enc.Driver.JsonCodec
open Enc.Model.Json.CodecChoice

def kindOfName : String → Option Kind
  | "bool" => some .bool | "int" => some .int | "int8" => some .int8 | "int16" => some .int16 | "int32" => some .int32
  | "int64" => some .int64 | "uint" => some .uint | "uint8" => some .uint8 | "uint16" => some .uint16
  | "uint32" => some .uint32 | "uint64" => some .uint64 | "uintptr" => some .uintptr | "float32" => some .float32
  | "float64" => some .float64 | "string" => some .string | "chan" => some .chan | "complex" => some .complex
  | _ => none

def specialOfName : String → Option Special
  | "number" => some .number | "duration" => some .duration | "time" => some .time | "raw" => some .rawMessage
  | _ => none

def isIdent (c : Char) : Bool := c.isAlphanum || c == '_'

def natOf (cs : List Char) : Option Nat := (String.ofList cs).toNat?

mutual
partial def pType (cs : List Char) : Option (TD × List Char) :=
  match cs with
  | '[' :: ']' :: r => do
    let (e, r) ← pType r
    pure (.slice e, r)
  | '[' :: r => do
    let n ← natOf (r.takeWhile Char.isDigit)
    match r.dropWhile Char.isDigit with
    | ']' :: r => do
      let (e, r) ← pType r
      pure (.array n e, r)
    | _ => none
  | '*' :: r => do
    let (e, r) ← pType r
    pure (.ptr e, r)
  | '#' :: r => do
    let n ← natOf (r.takeWhile Char.isDigit)
    pure (.ref n, r.dropWhile Char.isDigit)
  | '{' :: '}' :: r => pure (.struct .nil, r)
  | '{' :: r => do
    let (fs, r) ← pFields r
    pure (.struct fs, r)
  | _ =>
    let w := String.ofList (cs.takeWhile isIdent)
    let r := cs.dropWhile isIdent
    if w == "nil" then pure (.nil, r)
    else if w == "any" then
      match r with
      | '{' :: r => do
        let (e, r) ← pType r
        match r with
        | '}' :: r => pure (.any e, r)
        | _ => none
      | _ => none
    else if w == "map" then
      match r with
      | '[' :: r => do
        let (k, r) ← pType r
        match r with
        | ']' :: r => do
          let (v, r) ← pType r
          pure (.map k v, r)
        | _ => none
      | _ => none
    else if w == "if00" || w == "if01" || w == "if10" || w == "if11" then
      match r with
      | '{' :: r => do
        let (e, r) ← pType r
        match r with
        | '}' :: r => pure (.iface (w == "if10" || w == "if11") (w == "if01" || w == "if11") e, r)
        | _ => none
      | _ => none
    else
      match kindOfName w with
      | some k => pure (.prim k, r)
      | none =>
        match specialOfName w with
        | some s => pure (.special s, r)
        | none => none
partial def pFields (cs : List Char) : Option (FL × List Char) := do
  let (emb, cs) := match cs with
    | '@' :: r => (true, r)
    | _ => (false, cs)
  let name := cs.takeWhile isIdent
  let cs := cs.dropWhile isIdent
  if name.isEmpty then none
  let (str, cs) := match cs with
    | ',' :: 's' :: r => (true, r)
    | _ => (false, cs)
  let cs ← match cs with
    | ':' :: r => some r
    | _ => none
  let (t, cs) ← pType cs
  match cs with
  | ';' :: r => do
    let (rest, cs) ← pFields r
    pure (.cons (String.ofList name) emb str t rest, cs)
  | '}' :: r => pure (.cons (String.ofList name) emb str t .nil, r)
  | _ => none
end

def recvOf : Char → Option Recv
  | '-' => some .none | 'v' => some .val | 'p' => some .ptr
  | _ => none

def pDef (s : String) : Option (Nat × Def) :=
  match s.toList with
  | '#' :: r => do
    let id ← natOf (r.takeWhile Char.isDigit)
    match r.dropWhile Char.isDigit with
    | '=' :: a :: b :: c :: d :: ':' :: r => do
      let m : Meths := ⟨← recvOf a, ← recvOf b, ← recvOf c, ← recvOf d⟩
      match pType r with
      | some (t, []) => pure (id, ⟨m, t⟩)
      | _ => none
    | _ => none
  | _ => none

def parse (d : String) : Option (Env × TD) :=
  match d.splitOn "|" with
  | root :: defs => do
    let env ← defs.mapM pDef
    match pType root.toList with
    | some (t, []) => pure (env, t)
    | _ => none
  | [] => none

/-! ### the canonical value, written by a Choice tree -/

def quoteJSON (s : String) : String :=
  "\"" ++ String.join (s.toList.map fun c => if c == '"' then "\\\"" else if c == '\\' then "\\\\" else c.toString) ++ "\""

def primText : Kind → Option String
  | .bool => some "true"
  | .float32 | .float64 => some "1.5"
  | .string => some "\"s\""
  | .chan | .complex => none
  | _ => some "7"

def specialText : Special → String
  | .number => "1"
  | .duration => "\"7ns\""
  | .time => "\"0001-01-01T00:00:00Z\""
  | .rawMessage => "[1]"

def maxIndir : Nat := 5

/-- the method a marshaler node runs for a value of type t: named after the receiver it is DECLARED with -/
def directTag (env : Env) (m : Meth) (t : TD) : String :=
  let nm := if m == .mj then "MJ" else "MT"
  match t with
  | .ptr e => if (declared env e).get m == .ptr then nm ++ "-ptr" else nm ++ "-val"
  | _ => nm ++ "-val"

/-- what a direct marshaler node writes: the special types' own methods write their canonical text -/
def directText (env : Env) (m : Meth) (t : TD) : String :=
  match t with
  | .special s | .ptr (.special s) => specialText s
  | t => quoteJSON (directTag env m t)

/-- the field lives behind an embedded pointer that is nil in the canonical value -/
def embedNil (visits : Nat) : Choice → Bool
  | .embedPtr x => decide (maxIndir ≤ visits) || embedNil (visits + 1) x
  | _ => false

/-- `top dyn` = the tree of a top-level value of type dyn (the content of an interface goes through the cache) -/
partial def render (env : Env) (top : TD → Choice) (visits : Nat) (t : TD) (c : Choice) : Option String :=
  let u := under env t
  let isNil := decide (maxIndir ≤ visits) && (match u with | .ptr _ | .slice _ | .map .. => true | _ => false)
  let content (dyn : TD) : Option String :=
    match dyn with
    | .nil => some "null"
    | dyn => render env top visits dyn (top dyn)
  match c with
  | .null => some "null"
  | .prim k => primText k
  | .special s => some (specialText s)
  | .bytes => some (if isNil then "null" else "\"Bw==\"")
  | .mjDirect =>
    (match u with
      | .ptr _ => some (if isNil then "null" else directText env .mj t)
      | .any dyn | .iface _ _ dyn =>
        (match dyn with
          | .nil => some "null"
          | dyn => some (directText env .mj dyn))
      | _ => some (directText env .mj t))
  | .mtDirect =>
    (match u with
      | .ptr _ => some (if isNil then "null" else directText env .mt t)
      | .any dyn | .iface _ _ dyn =>
        (match dyn with
          | .nil => some "null"
          | dyn => some (directText env .mt dyn))
      | _ => some (directText env .mt t))
  | .mjAddr => some (quoteJSON "MJ-ptr")
  | .mtAddr => some (quoteJSON "MT-ptr")
  | .iface =>
    (match u with
      | .any dyn | .iface _ _ dyn => content dyn
      | _ => some "BAD-iface")
  | .slice x =>
    (match u with
      | .slice e => if isNil then some "null" else do
        let s ← render env top (visits + 1) e x
        pure ("[" ++ s ++ "]")
      | _ => some "BAD-slice")
  | .array n x =>
    (match u with
      | .array _ e => do
        if n == 0 then pure "[]" else
        let s ← render env top visits e x
        pure ("[" ++ String.intercalate "," (List.replicate n s) ++ "]")
      | _ => some "BAD-array")
  | .ptr x =>
    (match u with
      | .ptr e => if isNil then some "null" else render env top (visits + 1) e x
      | _ => some "BAD-ptr")
  | .map kc vc =>
    (match u with
      | .map k v => if isNil then some "null" else do
        let ks ← render env top (visits + 1) k kc
        let vs ← render env top (visits + 1) v vc
        pure ("{" ++ ks ++ ":" ++ vs ++ "}")
      | _ => some "BAD-map")
  | .struct fs => do
    let rec go : CL → Option (List String)
      | .nil => some []
      | .cons n ft fc r => do
        -- a field behind a nil embedded pointer is left out (encodeEmbeddedStructPointer: rollback)
        if embedNil visits fc then go r else
        let s ← render env top visits ft fc
        let rest ← go r
        pure ((quoteJSON n ++ ":" ++ s) :: rest)
    let ms ← go fs
    pure ("{" ++ String.intercalate "," ms ++ "}")
  | .quoted x => do
    let s ← render env top visits t x
    pure (quoteJSON s)
  | .nilOrQuoted q p => if isNil then render env top visits t p else render env top visits t q
  | .embedPtr x => render env top (visits + 1) t x
  | .inlineValue x | .keyNilPtr x => render env top visits t x
  | .mapFast _ => some "BAD-mapFast"
  | .structRef .. | .recur .. => some "BAD-backref"
  | .unsupported => none
  | .cut => some "CUT"

def modelTop (depth : Nat) (env : Env) (t : TD) : Choice := topTree depth env t
def specTop (depth : Nat) (env : Env) (t : TD) : Choice := Enc.Spec.Json.StdCodecChoice.stdD depth env t false

def showR (o : Option String) : String := o.getD "err"

def hasCut (s : String) : Bool := (s.splitOn "CUT").length > 1

/-- the trees are unfolded only as deep as the canonical value needs (a recursive type with several recursive fields
has exponentially many positions at depth d): deepen until the walk meets no `.cut` -/
def renderTop (top : Nat → Env → TD → Choice) (env : Env) (t : TD) : String :=
  let rec go (fuel depth : Nat) : String :=
    let r := match t with
      | .nil => "null"
      | t => showR (render env (top depth env) 0 t (top depth env t))
    match fuel with
    | 0 => r
    | fuel + 1 => if hasCut r then go fuel (depth + 2) else r
  go 20 3

/-! ### the known finding `jsonEmbeddedStructUnderConstruction`
`appendStructFields` promotes the fields of an embedded struct from `constructStructType(typ, …).fields`; when `typ` is
itself under construction (the embedding struct lies inside `typ`, e.g. `type T struct { X int; F []struct{ T } }`
marshalled through a pointer) that list is still empty: the embedding struct silently loses the promoted fields. -/

/-- the shape is excluded from `choose_eq_std` by the hypothesis `embedCycle env t = false`
(Spec/Json/EmbedCycle.lean: some struct inside `t` lies on a cycle of EMBEDDED structs; since the repair of the
defect a cycle through a regular field, `type T struct { X int; F []struct{ T } }`, is not excluded any more) -/
def embedsRecursive1 (env : Env) (t : TD) : Bool := Enc.Spec.Json.EmbedCycle.embedCycle env t

mutual
/-- the types of the contents of the interfaces in the value under test (each is compiled on its own, through the cache) -/
def dyns : TD → List TD
  | .any d => d :: dyns d
  | .iface _ _ d => d :: dyns d
  | .slice e | .array _ e | .ptr e => dyns e
  | .map k v => dyns k ++ dyns v
  | .struct fs => dynsF fs
  | _ => []
def dynsF : FL → List TD
  | .nil => []
  | .cons _ _ _ t r => dyns t ++ dynsF r
end

/-- the root type, or the type of the content of an interface inside the value, has the excluded shape -/
def embedsRecursive (env : Env) (t : TD) : Bool :=
  let roots := t :: (dyns t ++ env.flatMap fun (_, d) => dyns d.under)
  roots.any (embedsRecursive1 env)

def run (d : String) : Option (String × String × String) := do
  let (env, t) ← parse d
  let m := renderTop modelTop env t
  let s := renderTop specTop env t
  pure (m, s, if m != s && embedsRecursive env t then "jsonEmbeddedStructUnderConstruction" else "")

def depth : Nat := 8

/-- debug: the trees themselves -/
def runTree (d : String) : Option (String × String × String) := do
  let (env, t) ← parse d
  pure (toString (repr (modelTop depth env t)), toString (repr (specTop depth env t)), toString (repr (construct env t)))

/-- debug: at which depths 0..12 and top-level addressabilities the unfolded model tree differs from the spec tree -/
def runEq (d : String) : Option (String × String × String) := do
  let (env, t) ← parse d
  let bad := (List.range 13).foldl (fun acc dep =>
    [false, true].foldl (fun acc a =>
      let r := choose env t a
      if expandD dep env r.2 r.1 == Enc.Spec.Json.StdCodecChoice.stdD dep env t a then acc
      else acc ++ [toString dep ++ (if a then "a" else "n")]) acc) []
  pure (String.intercalate "," bad, "", "")

end Enc.Driver.JsonCodec
