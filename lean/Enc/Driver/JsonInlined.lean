import Enc.Base.Bytes
import Enc.Model.Json.Inlined
import Enc.Spec.Json.DirectIface
/-!
Driver for `json.inlined <how> <type>` (harness/c01inlined.go). how = `r` (type built with reflect) | `c` (a type the
compiler built); type := `p` (*int) | `m` map | `c` chan | `f` func | `u` unsafe.Pointer | `o`DIGIT (another kind) |
`S{` type;… `}` | `A`N`:`type. Observable: `1` / `0`.
-/
namespace Enc.Driver.JsonInlined
open Enc.Model.Json.Inlined

mutual
partial def pType : List Char → Option (Ty × List Char)
  | 'p' :: r => some (.ptr, r)
  | 'm' :: r => some (.map, r)
  | 'c' :: r => some (.chan, r)
  | 'f' :: r => some (.func, r)
  | 'u' :: r => some (.unsafePointer, r)
  | 'o' :: _ :: r => some (.other, r)
  | 'S' :: '{' :: '}' :: r => some (.struct .nil, r)
  | 'S' :: '{' :: r => do
    let (fs, r) ← pFields r
    pure (.struct fs, r)
  | 'A' :: r => do
    let ds := r.takeWhile Char.isDigit
    let n ← (String.ofList ds).toNat?
    match r.dropWhile Char.isDigit with
    | ':' :: r' => do
      let (e, r'') ← pType r'
      pure (.array n e, r'')
    | _ => none
  | _ => none
partial def pFields (cs : List Char) : Option (Tys × List Char) := do
  let (t, r) ← pType cs
  match r with
  | ';' :: r' => do
    let (rest, r'') ← pFields r'
    pure (.cons t rest, r'')
  | '}' :: r' => pure (.cons t .nil, r')
  | _ => none
end

def handle (op : String) (args : List String) : Option (String × String × String) :=
  match op, args with
  | "json.inlined", [_how, d] =>
    match pType d.toList with
    | some (t, []) => some (Enc.boolStr (inlined t), Enc.boolStr (Spec.Json.DirectIface.isDirectIface t), "")
    | _ => none
  | _, _ => none

end Enc.Driver.JsonInlined
