import Enc.Model.ProtoScan
import Enc.Spec.ProtoRecords
/-! line-protocol handlers for the wire-level API of package proto (`proto.scan`, `proto.scanerr`, `proto.rawvalue`,
`proto.tag`); called from `Enc.Driver.Proto.handle`. -/
namespace Enc.Driver.ProtoScan
open Enc Enc.Model.ProtoScan

def showRec (r : Nat × Nat × Bytes) : String := s!"{r.1}:{r.2.1}:{toHex r.2.2};"

def okErr : Res Unit → String
  | .ok _ => "ok"
  | .err _ => "err"
  | .panic e => "panic:" ++ e

def cls : Res Unit → String
  | .ok _ => "ok"
  | .err e => e
  | .panic e => "panic:" ++ e

def showList (p : List (Nat × Nat × Bytes) × Res Unit) : String := String.join (p.1.map showRec) ++ okErr p.2

/-- the `parse=` column of proto.scanerr: index of the failing `Parse` call and its results -/
def parseErrLoop : Nat → Nat → Bytes → String
  | 0, _, _ => "fuel"
  | fuel + 1, i, b =>
    if b.length == 0 then "ok"
    else match parseX b with
      | .panic e => "panic:" ++ e
      | .err e => "err:" ++ e
      | .ok p =>
        match p.err with
        | some e => s!"{i}:{p.f}:{p.t}:{p.m.length}:" ++ (if p.v.isSome then "nonnil" else "nil") ++ ":" ++ e
        | none => parseErrLoop fuel (i + 1) p.m

def showAcc (r : Nat × Nat × Bytes) : String :=
  let (_, t, v) := r
  if t == Gen.c_proto_Varint then s!"v{(rawVarint v).toNat},"
  else if t == Gen.c_proto_Fixed32 then
    match rawFixed32 v with | .ok x => s!"d{x.toNat}," | _ => "panic,"
  else if t == Gen.c_proto_Fixed64 then
    match rawFixed64 v with | .ok x => s!"q{x.toNat}," | _ => "panic,"
  else s!"l{v.length},"

def showRes32 : Res (BitVec 32) → String
  | .ok x => toString x.toNat
  | _ => "panic"
def showRes64 : Res (BitVec 64) → String
  | .ok x => toString x.toNat
  | _ => "panic"

def handle (op : String) (args : List String) : Option (String × String × String) :=
  match op, args with
  | "proto.scan", [h] => do
    let b ← fromHex h
    let m := "scan=" ++ showList (scanList b) ++ "|parse=" ++ showList (parseList (b.length + 1) b)
    let (rs, ok) := Spec.Protobuf.records b
    let s := String.join (rs.map Spec.Protobuf.showRaw) ++ (if ok then "ok" else "err")
    pure (m, "scan=" ++ s ++ "|parse=" ++ s, "")
  | "proto.scanerr", [h] => do
    let b ← fromHex h
    let sl := scanList b
    pure ("scan=" ++ cls sl.2 ++ "|parse=" ++ parseErrLoop (b.length + 1) 0 b ++ "|acc=" ++ String.join (sl.1.map showAcc), "-", "")
  | "proto.rawvalue", [h] => do
    let v ← fromHex h
    pure (s!"varint={(rawVarint v).toNat}|fixed32=" ++ showRes32 (rawFixed32 v) ++ "|fixed64=" ++ showRes64 (rawFixed64 v), "-", "")
  | "proto.tag", [f, t, h] => do
    let f ← f.toNat?
    let t ← t.toNat?
    let v ← fromHex h
    let fw := BitVec.ofNat 64 f
    let tw := BitVec.ofNat 64 t
    let tag := encodeTagWord fw tw
    let (df, dt) := decodeTag tag
    let m := append [] fw tw v
    let back := match parseX m with
      | .ok p => s!"{p.f}:{p.t}:{toHex (p.v.getD [])}:{p.m.length}:" ++ (p.err.getD "ok")
      | .err e => "err:" ++ e
      | .panic e => "panic:" ++ e
    pure (s!"tag={tag.toNat}|dec={df}:{dt}|str={wireTypeString t}|append={toHex m}|parse={back}", "-", "")
  | _, _ => none

end Enc.Driver.ProtoScan
