import Enc.Driver.JsonTyped
import Enc.Model.Json.EncTyped
import Enc.Spec.Json.EncTypedSpec
import Enc.Spec.Json.TypedRoundTrip
/-!
line-protocol handlers
  `json.enctyped <type> <html 0|1> <sort 0|1> <hex doc>` — the typed value `v` is what the SPECIFICATION of the typed decoder
     stores into a fresh target (descriptor's initial content) for the document; M = hex of the model's `encodeTyped` on it,
     S = hex of the specification's `encSpec` (`E` when an error is returned). With sort = 0 the model runs with the REVERSED
     entry order at every map and both columns are canonicalised (members of every object sorted by their text), i.e. the
     outputs are compared as member multisets.
  `json.rttyped <type> <flags 0|1: UseNumber> <hex doc>` — M = rendering of `v` `>` rendering of what the model decoder stores
     into a fresh zero target from the model encoder's output (Marshal flags); S = the same with `norm v` when `v` is canonical
     (the right-hand side of `typed_round_trip`), else with specification decoder ∘ specification encoder.
Type descriptors and renderings: Driver/JsonTyped.lean. The strconv parameter is instantiated by an exact shortest-digits
computation (`scExact`) on the IEEE-754 double of the literal (`f64Bits`).
-/
namespace Enc.Driver.JsonEncTyped
open Enc Enc.Model.Json Enc.Model.Json.Typed Enc.Driver.JsonTyped

/-! ### strconv.AppendFloat(…, 'e' / 'f', -1, 64) on the double with the given bits, exactly -/

def natDigits (n : Nat) : Bytes := (Nat.toDigits 10 n).map fun c => UInt8.ofNat c.toNat

/-- compare num/den · 10^s with an integer c: is c ≤ value -/
def scaled (num den : Nat) (s : Int) : Nat × Nat :=
  if 0 ≤ s then (num * 10 ^ s.toNat, den) else (num, den * 10 ^ (-s).toNat)

/-- bits of the double nearest to c · 10^(-s) -/
def candBits (c : Nat) (s : Int) : Nat :=
  if 0 ≤ s then ratBits c (10 ^ s.toNat) else ratBits (c * 10 ^ (-s).toNat) 1

/-- k with 10^k ≤ num/den < 10^(k+1) -/
def floorLog10 (num den : Nat) : Int :=
  let est : Int := (((Nat.log2 num : Int) - (Nat.log2 den : Int)) * 30103) / 100000
  let ge (k : Int) : Bool := let (p, q) := scaled num den (-k); decide (q ≤ p)       -- 10^k ≤ num/den
  let rec down (fuel : Nat) (k : Int) : Int := match fuel with
    | 0 => k
    | f + 1 => if ge k then k else down f (k - 1)
  let rec up (fuel : Nat) (k : Int) : Int := match fuel with
    | 0 => k
    | f + 1 => if ge (k + 1) then up f (k + 1) else k
  up 8 (down 8 (est + 1))

/-- shortest digits (as a number without trailing zeros handling) and decimal exponent of the leading digit -/
def shortest (bitsAbs num den : Nat) : Nat × Int :=
  let k := floorLog10 num den
  let rec go (fuel n : Nat) : Nat × Int := match fuel with
    | 0 => (0, k)
    | f + 1 =>
      let s : Int := (n : Int) - 1 - k
      let (p, q) := scaled num den s
      let lo := p / q
      let exact := p % q == 0
      let okLo := candBits lo s == bitsAbs
      let okHi := !exact && candBits (lo + 1) s == bitsAbs
      let pick (c : Nat) : Nat × Int := if c == 10 ^ n then (1, k + 1) else (c, k)
      if okLo && okHi then
        (if 2 * (p % q) > q || (2 * (p % q) == q && lo % 2 == 1) then pick (lo + 1) else pick lo)
      else if okLo then pick lo
      else if okHi then pick (lo + 1)
      else go f (n + 1)
  go 18 1

def stripZeros (ds : Bytes) : Bytes :=
  let r := (ds.reverse.dropWhile (· == 0x30)).reverse
  if r.isEmpty then [0x30] else r

def zeros (n : Nat) : Bytes := List.replicate n 0x30

def scExact (lit : Bytes) : FloatOut :=
  let bits : Nat := f64Bits lit
  let neg := bits ≥ 2 ^ 63
  let bitsAbs : Nat := bits % 2 ^ 63
  let ex : Nat := bitsAbs / 2 ^ 52
  let mant : Nat := bitsAbs % 2 ^ 52
  let sign : Bytes := if neg then [0x2d] else []
  let isInf := ex == 2047
  let nonZero := bitsAbs != 0
  let lt := decide (bitsAbs < 0x3eb0c6f7a0b5ed8d)      -- |f| < 1e-6
  let ge := decide (bitsAbs ≥ 0x444b1ae4d6e2ef50)      -- |f| ≥ 1e21
  let cmp : FloatCmp := { isNaN := false, isInf := isInf, nonZero := nonZero, lt64 := lt, ge64 := ge, lt32 := lt, ge32 := ge }
  if !nonZero || isInf then { cmp := cmp, digitsF := sign ++ [0x30], digitsE := sign ++ [0x30, 0x65, 0x2b, 0x30, 0x30] }
  else
    let (m, e) : Nat × Int := if ex == 0 then (mant, -1074) else (2 ^ 52 + mant, (ex : Int) - 1075)
    let (num, den) : Nat × Nat := if 0 ≤ e then (m * 2 ^ e.toNat, 1) else (m, 2 ^ (-e).toNat)
    let (d, k) := shortest bitsAbs num den
    let ds := stripZeros (natDigits d)
    let n := ds.length
    -- %e
    let expDigits := natDigits k.natAbs
    let expText := (if k < 0 then [0x2d] else [0x2b]) ++ (if expDigits.length < 2 then 0x30 :: expDigits else expDigits)
    let dE := sign ++ ds.take 1 ++ (if n > 1 then 0x2e :: ds.drop 1 else []) ++ [0x65] ++ expText
    -- %f
    let dF :=
      if 0 ≤ k then
        let ip := k.toNat + 1
        if n ≤ ip then sign ++ ds ++ zeros (ip - n) else sign ++ ds.take ip ++ [0x2e] ++ ds.drop ip
      else sign ++ [0x30, 0x2e] ++ zeros ((-k).toNat - 1) ++ ds
    { cmp := cmp, digitsF := dF, digitsE := dE }

/-! ### member-multiset canonicalisation of a compact JSON text -/

def insertSorted (x : Bytes) : List Bytes → List Bytes
  | [] => [x]
  | y :: r => if decide (x ≤ y) then x :: y :: r else y :: insertSorted x r

def joinC : List Bytes → Bytes
  | [] => []
  | [x] => x
  | x :: r => x ++ [0x2c] ++ joinC r

/-- end of a string literal: the text up to and including the closing quote, and the rest (`b` starts after the opening quote) -/
def strSpan : Bytes → Bytes × Bytes
  | [] => ([], [])
  | 0x5c :: c :: r => let (a, b) := strSpan r; (0x5c :: c :: a, b)
  | 0x22 :: r => ([0x22], r)
  | c :: r => let (a, b) := strSpan r; (c :: a, b)

mutual
/-- canonical text of the value at the head of `b`, and the rest -/
def canonVal : Nat → Bytes → Option (Bytes × Bytes)
  | 0, _ => none
  | f + 1, b =>
    match b with
    | 0x5b :: 0x5d :: r => some ([0x5b, 0x5d], r)
    | 0x7b :: 0x7d :: r => some ([0x7b, 0x7d], r)
    | 0x5b :: r => (canonElems f r).map fun x => ([0x5b] ++ joinC x.1 ++ [0x5d], x.2)
    | 0x7b :: r => (canonMems f r []).map fun x => ([0x7b] ++ joinC x.1 ++ [0x7d], x.2)
    | 0x22 :: r => let (a, rest) := strSpan r; some (0x22 :: a, rest)
    | _ =>
      let a := b.takeWhile fun c => !(c == 0x2c || c == 0x5d || c == 0x7d)
      if a.isEmpty then none else some (a, b.drop a.length)
def canonElems : Nat → Bytes → Option (List Bytes × Bytes)
  | 0, _ => none
  | f + 1, b =>
    (canonVal f b).bind fun x =>
      match x.2 with
      | 0x2c :: r => (canonElems f r).map fun y => (x.1 :: y.1, y.2)
      | 0x5d :: r => some ([x.1], r)
      | _ => none
def canonMems : Nat → Bytes → List Bytes → Option (List Bytes × Bytes)
  | 0, _, _ => none
  | f + 1, b, acc =>
    match b with
    | 0x22 :: r =>
      let (k, r1) := strSpan r
      (match r1 with
       | 0x3a :: r2 =>
         (canonVal f r2).bind fun x =>
           let m := 0x22 :: k ++ [0x3a] ++ x.1
           match x.2 with
           | 0x2c :: r3 => canonMems f r3 (insertSorted m acc)
           | 0x7d :: r3 => some (insertSorted m acc, r3)
           | _ => none
       | _ => none)
    | _ => none
end

def canonText (b : Bytes) : Bytes :=
  match canonVal (b.length + 1) b with
  | some (x, []) => x
  | _ => [0x3f] ++ b

/-! ### handlers -/

def c0 : TFlags := { useNumber := false, disallowUnknown := false }

def resHex (post : Bytes → Bytes) : Res Bytes → String
  | .ok x => toHex (post x)
  | .err _ => "E"
  | .panic c => "panic:" ++ c

def optHex (post : Bytes → Bytes) : Option Bytes → String
  | some x => toHex (post x)
  | none => "E"

def enc (ty : String) (html sort : Bool) (doc : Bytes) : Option (String × String × String) := do
  let (t, init, rest) ← parseTy (ty.length + 1) ty.toList
  if !rest.isEmpty then none
  match Spec.Json.unmarshalTyped c0 t (markOld init) doc with
  | none => pure ("baddoc", "-", "")
  | some v =>
    let post : Bytes → Bytes := if sort then id else canonText
    let ord : MapOrd := if sort then id else List.reverse
    let m := resHex post (encodeTyped scExact html sort ord t v)
    let s := optHex post (Spec.Json.encSpec scExact html t v)
    pure (m, s, "")

def showU : UR → String
  | .ok v => showV v
  | _ => "Edec"

def rt (ty : String) (m : Nat) (doc : Bytes) : Option (String × String × String) := do
  let (t, init, rest) ← parseTy (ty.length + 1) ty.toList
  if !rest.isEmpty then none
  let c : TFlags := { useNumber := m % 2 == 1, disallowUnknown := false }
  match Spec.Json.unmarshalTyped c t (markOld init) doc with
  | none => pure ("baddoc", "-", "")
  | some v =>
    let back : String :=
      match marshalTyped scExact t v with
      | .ok x => showU (unmarshalTyped c t (zeroOf t) x)
      | .err _ => "E"
      | .panic e => "panic:" ++ e
    let sback : String :=
      if Spec.Json.canon scExact c t v && Spec.Json.wfT t && decide (Spec.Json.depthV v ≤ 10000) then showV (Spec.Json.norm v)
      else match Spec.Json.encSpec scExact true t v with
        | some x => (match Spec.Json.unmarshalTyped c t (zeroOf t) x with | some w => showV w | none => "Edec")
        | none => "E"
    pure (showV v ++ ">" ++ back, showV v ++ ">" ++ sback, "")

def handle (op : String) (args : List String) : Option (String × String × String) :=
  match op, args with
  | "json.enctyped", [ty, h, s, d] => do
    let doc ← fromHex d
    enc ty (h == "1") (s == "1") doc
  | "json.rttyped", [ty, m, d] => do
    let doc ← fromHex d
    let m ← m.toNat?
    rt ty m doc
  | _, _ => none

end Enc.Driver.JsonEncTyped
