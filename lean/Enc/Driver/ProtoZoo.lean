import Enc.Model.ProtoMsg
/-!
The user functions of the harness zoo (harness/protomsg.go) at the level of payloads, for the driver ops `proto.msg*`.
A zoo value travels as the bytes its `Marshal` writes, so `Size` = length and `Marshal` = identity (`Model.Proto.zooOps`);
`Unmarshal` of a zoo type accepts exactly the payloads listed here and stores them unchanged. The codec tree does not say
WHICH user type a leaf has (`Codec.message`), so one `UserOps` serves a whole message: the driver uses the acceptance
predicate of the zoo type of the message when all its opaque leaves accept the same payloads, and has no opinion ("-")
on inputs for messages mixing zoo types with different predicates.
-/
namespace Enc.Driver.ProtoZoo
open Enc Enc.Model.Proto

def bytesLt : Bytes → Bytes → Bool
  | [], [] => false
  | [], _ :: _ => true
  | _ :: _, [] => false
  | a :: as, b :: bs => if a < b then true else if b < a then false else bytesLt as bs

/-- ZMap.Unmarshal: whole entries `len(key), key, 4 bytes`, keys strictly ascending -/
def zmapOK : Nat → Bytes → Option Bytes → Bool
  | 0, _, _ => false
  | _, [], _ => true
  | fuel + 1, l :: rest, prev =>
    if rest.length < l.toNat + 4 then false
    else
      let k := rest.take l.toNat
      let okOrder := match prev with | none => true | some p => bytesLt p k
      okOrder && zmapOK fuel (rest.drop (l.toNat + 4)) (some k)

def isDigit (c : UInt8) : Bool := 48 ≤ c && c ≤ 57
def digitsVal (b : Bytes) : Nat := b.foldl (fun a c => a * 10 + (c.toNat - 48)) 0

/-- ZI64.Unmarshal: the canonical decimal text of an int64 -/
def zi64OK (b : Bytes) : Bool :=
  let (neg, ds) := match b with | 45 :: r => (true, r) | r => (false, r)
  match ds with
  | [] => false
  | d :: r =>
    ds.all isDigit && (d != 48 || (r.isEmpty && !neg)) && ds.length ≤ 19
      && (if neg then digitsVal ds ≤ 2 ^ 63 else digitsVal ds < 2 ^ 63)

/-- acceptance predicate of a zoo type's Unmarshal -/
def accepts (name : String) (q : Bytes) : Bool :=
  match name with
  | "ZRec" => q.length ≥ 4
  | "ZPair" => q.length == 8
  | "ZInts" => q.length % 8 == 0
  | "ZUUID" => q.length == 16
  | "ZMap" => zmapOK (q.length + 1) q none
  | "ZI64" => zi64OK q
  | "ZFail" => match q with | 0xDD :: _ => false | _ => true
  | _ => true                         -- RawMessage, ZBytes: everything

/-- the classes of acceptance predicates: lenient types share one -/
def predClass (name : String) : String :=
  match name with
  | "ZRec" | "ZPair" | "ZInts" | "ZUUID" | "ZMap" | "ZI64" | "ZFail" => name
  | _ => "any"

mutual
/-- names of the user types at the opaque leaves of a type -/
def leafNames : Ty → List String
  | .named "RawMessage" (.named n _) => [n]
  | .named "RawMessage" _ => ["RawMessage"]
  | .named _ t => leafNames t
  | .ptr t | .slice t | .arr _ t => leafNames t
  | .map k v => leafNames k ++ leafNames v
  | .struct fs => leafNamesF fs
  | _ => []
def leafNamesF : Fields → List String
  | .nil => []
  | .cons _ _ _ t rest => leafNames t ++ leafNamesF rest
end

def opsOf (name : String) : UserOps :=
  { zooOps with unmarshal := fun _ q => if accepts name q then .ok (.str q) else .err "user" }

/-- the `UserOps` of a message type, when one acceptance predicate serves all its leaves -/
def opsFor (t : Ty) : Option UserOps :=
  match ((leafNames t).map predClass).eraseDups with
  | [] => some zooOps
  | [c] => some (opsOf c)
  | _ => none

/-- payload of the zero value of a zoo type (what the harness prints for a leaf the decoder never touched) -/
def zeroPayload (name : String) : Bytes :=
  match name with
  | "ZRec" => List.replicate 4 0
  | "ZPair" => List.replicate 8 0
  | "ZUUID" => List.replicate 16 0
  | "ZI64" => [48]
  | _ => []

mutual
/-- print form of a decoded value: an untouched user leaf (state `.nil` = the zero value of its type) shows its payload -/
def showZero : Ty → Val → Val
  | .named "RawMessage" (.named n _), .nil => .str (zeroPayload n)
  | .named "RawMessage" _, v => v
  | .named _ t, v => showZero t v
  | .ptr t, .ptr v => .ptr (showZero t v)
  | .slice t, .list vs => .list (showZeroL t vs)
  | .map k t, .map kvs => .map (showZeroM k t kvs)
  | .struct fs, .struct vs => .struct (showZeroF fs vs)
  | _, v => v
def showZeroL (t : Ty) : Vals → Vals
  | .cons v r => .cons (showZero t v) (showZeroL t r)
  | .nil => .nil
def showZeroM (k t : Ty) : Vals → Vals
  | .cons a (.cons b r) => .cons a (.cons (showZero t b) (showZeroM k t r))
  | r => r
def showZeroF : Fields → Vals → Vals
  | .cons _ _ _ t fr, .cons v vr => .cons (showZero t v) (showZeroF fr vr)
  | _, vs => vs
end

def mapRes {α β} (f : α → β) : Res α → Res β
  | .ok a => .ok (f a)
  | .err e => .err e
  | .panic e => .panic e

end Enc.Driver.ProtoZoo
