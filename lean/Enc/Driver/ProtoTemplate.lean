import Enc.Model.ProtoTemplate
import Enc.Spec.ProtoTemplate
/-!
line-protocol handlers for rewrite templates (harness/c19value.go):

  proto.typeof   <ty>                                                   M = the type as proto.TypeOf presents it
  proto.tmpltree <ty> <template hex> <rules> <floats>                   M = the rewriter tree ParseRewriteTemplate builds
  proto.tmplvalue <ty> <template hex> <rules> <floats> <input hex> [<I>] M = `rewriteT (parseTemplate …) input`
                                                                         S = value-level verdict on the implementation's I

<rules>  : `-` | R      with R = `rules <k> (<name hex> X)*k`, X = `bitor <T>` | `sub R` | `other`
<floats> : `-` | `<literal hex>:<bits32|e>:<bits64|e>,…`   strconv.ParseFloat of every number literal of the template
tree text: raw <hex> | multi <n> R*n | msg <len> <k> (<idx> R)*k | emb <num> <len> <k> (<idx> R)*k | embm … | repl R
           | bitor <T> <mask as uint64> <kind> <number>
-/
namespace Enc.Driver.ProtoTemplate
open Enc Enc.Model.Proto Enc.Model.Json

def kindName : PKind → String
  | .bool => "bool" | .int32 => "int32" | .int64 => "int64" | .sint32 => "sint32" | .sint64 => "sint64"
  | .uint32 => "uint32" | .uint64 => "uint64" | .fix32 => "fixed32" | .fix64 => "fixed64"
  | .sfix32 => "sfixed32" | .sfix64 => "sfixed64" | .float => "float" | .double => "double"
  | .string => "string" | .bytes => "bytes"

def ityName : ITy → String
  | .i8 => "i8" | .i16 => "i16" | .i32 => "i32" | .i64 => "i64" | .int => "int"
  | .u8 => "u8" | .u16 => "u16" | .u32 => "u32" | .u64 => "u64" | .uint => "uint"
def parseITy : String → Option ITy
  | "i32" => some .i32 | "i64" => some .i64 | "int" => some .int
  | "u32" => some .u32 | "u64" => some .u64 | "uint" => some .uint
  | _ => none

mutual
def showTType : TType → String
  | .prim k => kindName k
  | .map k v => "map<" ++ showTType k ++ "," ++ showTType v ++ ">"
  | .msg fs => "msg{" ++ showTFields fs ++ "}"
def showTFields : TFields → String
  | .nil => ""
  | .cons name number rep t rest =>
    toHex name ++ ":" ++ toString number ++ ":" ++ boolStr rep ++ ":" ++ showTType t ++ ";" ++ showTFields rest
end

mutual
def showRwT : RwT → String
  | .raw b => "raw " ++ toHex b
  | .multi rs => "multi " ++ toString rs.length ++ showRwTs rs
  | .message len rs => "msg " ++ toString len ++ " " ++ toString rs.length ++ showEnts rs
  | .embedded n len rs => "emb " ++ toString n ++ " " ++ toString len ++ " " ++ toString rs.length ++ showEnts rs
  | .embeddedMerge n len rs => "embm " ++ toString n ++ " " ++ toString len ++ " " ++ toString rs.length ++ showEnts rs
  | .replacement r => "repl " ++ showRwT r
  | .bitOr t mask kind number => "bitor " ++ ityName t ++ " " ++ toString mask.toNat ++ " " ++ kindName kind ++ " " ++ toString number
def showRwTs : List RwT → String
  | [] => ""
  | r :: rs => " " ++ showRwT r ++ showRwTs rs
def showEnts : List (Nat × RwT) → String
  | [] => ""
  | (i, r) :: rs => " " ++ toString i ++ " " ++ showRwT r ++ showEnts rs
end

mutual
def parseRules : Nat → List String → Option (Rules × List String)
  | 0, _ => none
  | fuel + 1, "rules" :: k :: rest => do
    let k ← k.toNat?
    parseRuleEnts fuel k rest
  | _, _ => none
def parseRuleEnts : Nat → Nat → List String → Option (Rules × List String)
  | 0, _, _ => none
  | _ + 1, 0, rest => some (.nil, rest)
  | fuel + 1, n + 1, name :: rest => do
    let nm ← fromHex name
    let (r, rest) ← parseRule fuel rest
    let (rs, rest) ← parseRuleEnts fuel n rest
    pure (.cons nm r rs, rest)
  | _, _, _ => none
def parseRule : Nat → List String → Option (Rule × List String)
  | 0, _ => none
  | _ + 1, "bitor" :: t :: rest => do let t ← parseITy t; pure (.bitOr t, rest)
  | _ + 1, "other" :: rest => some (.other, rest)
  | fuel + 1, "sub" :: rest => do let (rs, rest) ← parseRules fuel rest; pure (.sub rs, rest)
  | _, _ => none
end

def rulesArg (s : String) : Option (List Rules) :=
  if s == "-" then some []
  else
    let t := tokens s
    match parseRules (t.length + 2) t with
    | some (rs, []) => some [rs]
    | _ => none

def floatsArg (s : String) : Option (List (Bytes × Option Nat × Option Nat)) :=
  if s == "-" then some []
  else (s.splitOn ",").mapM fun e =>
    match e.splitOn ":" with
    | [l, a, b] => do
      let lit ← fromHex l
      let pa ← if a == "e" then some none else a.toNat?.map some
      let pb ← if b == "e" then some none else b.toNat?.map some
      pure (lit, pa, pb)
    | _ => none

def pfOf (tab : List (Bytes × Option Nat × Option Nat)) : PF := fun lit bits =>
  match tab.find? (·.1 == lit) with
  | some (_, a, b) => if bits == 32 then a else b
  | none => none

/-! ### known-finding classes -/

mutual
/-- a `BitOr` rule on a zig-zag or fixed-width field (known finding `proto-bitor-zigzag-fixed`) -/
def bitOrZigzagFixed : Nat → TType → List Rules → Bool
  | 0, _, _ => false
  | fuel + 1, .msg fs, rules => bitOrZF fuel fs rules
  | _, _, _ => false
def bitOrZF : Nat → TFields → List Rules → Bool
  | 0, _, _ => false
  | _ + 1, .nil, _ => false
  | fuel + 1, .cons name _ _ t rest, rules =>
    (match findRule rules name, t with
     | some (.bitOr _), .prim k => k == .sint32 || k == .sint64 || k == .fix32 || k == .fix64 || k == .sfix32 || k == .sfix64
     | some (.sub rs), t => bitOrZigzagFixed fuel t [rs]
     | _, _ => false) || bitOrZF fuel rest rules
end

/-- does the template hold, in a repeated field, an element that compiles to no rewriter (a zero scalar, or a
sub-message template all of whose values are zero)? computed from the model tree: a `multi`/list shorter than the
template's list. Here: from the template and the type (known finding `proto-template-repeated-zero`). -/
def isZeroTmpl : Nat → GV → Bool
  | 0, _ => false
  | _ + 1, .null => true
  | _ + 1, .bool b => !b
  | _ + 1, .num lit _ => lit.all fun c => c == 0x30 || c == 0x2d || c == 0x2e || c == 0x65 || c == 0x45 || c == 0x2b
  | _ + 1, .str s => s.isEmpty
  | fuel + 1, .arr vs => (GVs.toList vs).all fun e => isZeroTmpl fuel e      -- a list of nothing but zero elements writes nothing
  | fuel + 1, .obj ms =>
    let rec go : Nat → GMs → Bool
      | 0, _ => false
      | _, .nil => true
      | f + 1, .cons _ v rest => isZeroTmpl fuel v && go f rest
    go (GMs.size ms + 1) ms

mutual
def repZero : Nat → TType → GV → Bool
  | 0, _, _ => false
  | fuel + 1, .msg fs, .obj ms => repZeroMs fuel fs ms
  | fuel + 1, .map kt vt, .obj ms =>
    -- an entry whose key AND value are zero writes nothing (the entry disappears); else look inside the values
    let keyZero (k : Bytes) : Bool := match kt with
      | .prim .string => k.isEmpty
      | _ => k == strBytes "0" || k == strBytes "false" || k == strBytes "null" || k == strBytes "-0"
    let rec anyZeroEntry : Nat → GMs → Bool
      | 0, _ => false
      | _, .nil => false
      | f + 1, .cons k v rest => (keyZero k && isZeroTmpl (GV.size v + 1) v) || anyZeroEntry f rest
    anyZeroEntry (GMs.size ms + 1) ms || repZeroVals fuel vt ms
  | _, _, _ => false
def repZeroMs : Nat → TFields → GMs → Bool
  | 0, _, _ => false
  | _ + 1, _, .nil => false
  | fuel + 1, fs, .cons k v rest =>
    (match lookupFieldByName fs k with
     | some (_, true, t) =>
       (match v with
        | .arr vs => (GVs.toList vs).any fun e => isZeroTmpl (GV.size e + 1) e || repZero fuel t e
        | _ => false)
     | some (_, false, t) => repZero fuel t v
     | none => false) || repZeroMs fuel fs rest
def repZeroVals : Nat → TType → GMs → Bool
  | 0, _, _ => false
  | _ + 1, _, .nil => false
  | fuel + 1, vt, .cons _ v rest => repZero fuel vt v || repZeroVals fuel vt rest
end

/-! ### specification side helpers -/

/-- field numbers of the top-level fields the template names (spec side: from the Go type and its tags) -/
def templatedNumbers (fs : Fields) (ms : GMs) : List Nat :=
  let rec go (fs : Fields) (i : Nat) : List Nat :=
    match fs with
    | .nil => []
    | .cons name tag _ _ rest =>
      let o := Spec.Protobuf.fieldOpt (i + 1) tag
      (if (Spec.ProtoTemplate.lookup (Spec.ProtoTemplate.fieldName name tag) ms).isSome then [o.number] else []) ++ go rest (i + 1)
  go fs 0

def isSublist : List String → List String → Bool
  | [], _ => true
  | _ :: _, [] => false
  | a :: as, b :: bs => if a == b then isSublist as bs else isSublist (a :: as) bs

def handle (op : String) (args : List String) : Option (String × String × String) :=
  match op, args with
  | "proto.typeof", [tys] => do
    let ty ← Ty.parse tys
    match typeOf ty with
    | some t => pure (showTType t, "-", "")
    | none => pure ("panic", "-", "")
  | "proto.tmpltree", [tys, th, rs, fl] => do
    let ty ← Ty.parse tys
    let doc ← fromHex th
    let rules ← rulesArg rs
    let tab ← floatsArg fl
    match typeOf ty with
    | none => pure ("type-err", "-", "")
    | some tt =>
      match parseTemplateBytes (pfOf tab) tt doc rules with
      | .ok r => pure (showRwT r, "-", "")
      | .err _ => pure ("template-err", "-", "")
      | .panic e => pure ("panic:" ++ e, "-", "")
  | "proto.tmplvalue", tys :: th :: rs :: fl :: inh :: rest => do
    let ty ← Ty.parse tys
    let doc ← fromHex th
    let rules ← rulesArg rs
    let tab ← floatsArg fl
    let inp ← fromHex inh
    let pf := pfOf tab
    match typeOf ty with
    | none => pure ("type-err", "-", "")
    | some tt =>
      let tree := parseTemplateBytes pf tt doc rules
      let m : String := match tree with
        | .err _ => "template-err"
        | .panic e => "panic:" ++ e
        | .ok r =>
          match rewriteT (4 * inp.length + 64 + 16 * doc.length) r inp with
          | .ok b => "ok:" ++ toHex b
          | .err _ => "err"
          | .panic e => "panic:" ++ e
      -- known classes
      let jgv : Option GV := match unmarshalAny defaultDyn doc with | .ok j => some j | _ => none
      let k1 := if bitOrZigzagFixed (rs.length + 4) tt rules then ["protoBitOrZigzagFixed"] else []
      let k2 := match jgv with
        | some j => if repZero (GV.size j + 4) tt j then ["protoTemplateRepeatedZero"] else []
        | none => []
      let k := String.intercalate "," (k1 ++ k2)
      -- specification
      let s : String := match rest with
        | [implI] =>
          (match jgv with
           | none => if implI == "template-err" then "template-err" else "template-err"
           | some j =>
             match Spec.Protobuf.decode ty [] with
             | none => "-"
             | some zero =>
               match Spec.ProtoTemplate.applyTemplate pf ty j rules zero with
               | none => "template-err"
               | some _ =>
                 if implI == "template-err" then "template-ok-expected"
                 else match Spec.Protobuf.decode ty inp with
                   | none => if implI == "err" then "err" else "-"
                   | some v0 =>
                     if implI == "err" then "ok-expected"
                     else if !implI.startsWith "ok:" then "ok-expected"
                     else match fromHex (implI.drop 3).toString, Spec.ProtoTemplate.applyTemplate pf ty j rules v0 with
                       | some out, some want =>
                         (match Spec.Protobuf.decode ty out with
                          | none => "output-not-decodable want:" ++ (Spec.ProtoTemplate.norm ty want).show
                          | some got =>
                            let g := (Spec.ProtoTemplate.norm ty got).show
                            let w := (Spec.ProtoTemplate.norm ty want).show
                            -- untemplated records carried over in order
                            let kept : Bool :=
                              match Spec.Protobuf.deref ty, j, Spec.Protobuf.parse (inp.length + 1) inp,
                                    Spec.Protobuf.parse (out.length + 1) out with
                              | .struct fs, .obj ms, some ri, some ro =>
                                let nums := templatedNumbers fs ms
                                isSublist ((ri.filter fun q => !nums.contains q.1).map Spec.Protobuf.showRec)
                                  (ro.map Spec.Protobuf.showRec)
                              | .struct _, .null, some ri, some ro =>
                                isSublist (ri.map Spec.Protobuf.showRec) (ro.map Spec.Protobuf.showRec)
                              | _, _, _, _ => false
                            if g != w then "value:" ++ g ++ " want:" ++ w
                            else if !kept then "untemplated-records-lost"
                            else implI)
                       | _, _ => "-")
        | _ => "-"
      pure (m, s, k)
  | _, _ => none

end Enc.Driver.ProtoTemplate
