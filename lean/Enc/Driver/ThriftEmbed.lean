import Enc.Driver.Thrift
import Enc.Model.ThriftEmbed
/-! line-protocol handlers for the embedded-struct ops of area `thrift` (`thrift.embmarshal`, `thrift.embdecode`). -/
namespace Enc.Driver.ThriftEmbed
open Enc Enc.Driver.Thrift

def handle (op : String) (args : List String) : Option (String × String × String) :=
  match op, args with
  -- thrift.embmarshal <proto> <type> <value>: M = the model with flattening (`marshalE`); S = the encoding of the FLAT
  -- struct (Model.Thrift.encode, which knows nothing about embedding) on the values gathered along the index paths, when
  -- the value is `Transparent` (no required field behind a nil embedded pointer; `-` otherwise)
  | "thrift.embmarshal", [p, ty, v] => do
    let (mp, _) ← protoOf p
    let ty ← Ty.parse ty
    let v ← Val.parse v
    let s := match Model.Thrift.baseOf ty, v with
      | .struct fs, .struct vs =>
        if Model.Thrift.Transparent fs vs then
          "ok:" ++ toHex (Model.Thrift.encode mp (.struct (Model.Thrift.flatFields fs)) (.struct (Model.Thrift.flatVals fs vs)))
        else "-"
      | _, _ => "-"
    pure ("ok:" ++ toHex (Model.Thrift.marshalE mp ty v), s, "")
  | "thrift.embdecode", [p, strict, ty, h] => do
    let (mp, _) ← protoOf p
    let ty ← Ty.parse ty
    let b ← fromHex h
    pure (showRes ty (Model.Thrift.unmarshalE mp (strict == "1") ty b), "-", "")
  | _, _ => none

end Enc.Driver.ThriftEmbed
