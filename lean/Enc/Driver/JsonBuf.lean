import Enc.Model.Json.Buf
import Enc.Spec.Json.Render
/-! line-protocol handlers, area `json` destination buffer (C15). Value text format (space separated tokens):
  n | t | f | i <int> | s <hex> | b <hex> | B | x | a <k> V*k | o <k> F*k      F = <flags> <namehex> V, flags ⊆ "eqr" or "-" -/
namespace Enc.Driver.JsonBuf
open Enc Enc.Model.Json.Buf

mutual
def parseJV : Nat → List String → Option (JV × List String)
  | 0, _ => none
  | _, [] => none
  | fuel + 1, tok :: rest =>
    match tok with
    | "n" => some (.null, rest)
    | "t" => some (.bool true, rest)
    | "f" => some (.bool false, rest)
    | "B" => some (.bytes none, rest)
    | "x" => some (.fail [], rest)
    | "i" => match rest with
      | n :: rest => n.toInt?.map fun i => (.int i, rest)
      | _ => none
    | "s" => match rest with
      | h :: rest => (fromHex h).map fun b => (.str b, rest)
      | _ => none
    | "b" => match rest with
      | h :: rest => (fromHex h).map fun b => (.bytes (some b), rest)
      | _ => none
    | "a" => match rest with
      | k :: rest => do
        let k ← k.toNat?
        let (vs, rest) ← parseJVs fuel k rest
        pure (.arr vs, rest)
      | _ => none
    | "o" => match rest with
      | k :: rest => do
        let k ← k.toNat?
        let (fs, rest) ← parseJFs fuel k rest
        pure (.obj fs, rest)
      | _ => none
    | _ => none
def parseJVs : Nat → Nat → List String → Option (JVs × List String)
  | 0, _, _ => none
  | _, 0, toks => some (.nil, toks)
  | fuel + 1, k + 1, toks => do
    let (v, rest) ← parseJV fuel toks
    let (vs, rest) ← parseJVs fuel k rest
    pure (.cons v vs, rest)
def parseJFs : Nat → Nat → List String → Option (JFs × List String)
  | 0, _, _ => none
  | _, 0, toks => some (.nil, toks)
  | fuel + 1, k + 1, toks =>
    match toks with
    | flags :: name :: rest => do
      let name ← fromHex name
      let (v, rest) ← parseJV fuel rest
      let (fs, rest) ← parseJFs fuel k rest
      pure (.cons name (flags.contains 'e') (flags.contains 'q') (flags.contains 'r') v fs, rest)
    | _ => none
end

/-- Go's amortised growth is irrelevant to the observable; the driver uses "exactly what is needed" -/
def growExact (_cap need : Nat) : Nat := need

def pattern (i : Nat) : UInt8 := UInt8.ofNat (0xA0 + i % 23)

def handle (op : String) (args : List String) : Option (String × String × String) :=
  match op, args with
  -- json.bufappend <prefixlen> <spare> <html> <value tokens, space separated>
  | "json.bufappend", [pl, sp, html, toks] => do
    let pl ← pl.toNat?
    let sp ← sp.toNat?
    let tl := (toks.splitOn " ").filter (· ≠ "")
    let (v, rest) ← parseJV (tl.length + 1) tl
    if !rest.isEmpty then none
    let h := html == "1"
    let prefixBytes := (List.range pl).map pattern
    let s : Slice := ⟨prefixBytes ++ List.replicate sp 0xEE, pl⟩
    let (d, e) := append growExact h s v
    let m := if e then "err:" ++ boolStr (prefixBytes.isPrefixOf d) else "ok:" ++ toHex d
    let sp := match Spec.Json.render h v with
      | some x => "ok:" ++ toHex (prefixBytes ++ x)
      | none => "err:1"
    pure (m, sp, "")
  | _, _ => none

end Enc.Driver.JsonBuf
