import Enc.Lemmas.Proto
import Enc.Lemmas.ProtoVarint
/-!
# C03 — proto: Unmarshal(Marshal(v)) == v and Size(v) == len(Marshal(v))

Property theorems only (helper lemmas live in Enc/Lemmas/Proto.lean).
`Model.Proto` is the codec tree of /repo/proto as `codecOf` builds it, interpreted over the `Ty`/`Val` universe.
-/
namespace Enc.Props.C03
open Enc Enc.Model.Proto

/-- Size(v) == len(Marshal(v)) — for every codec tree, every value, every flag combination (hence for every
supported message type and value): the `size` functions and the `encode` functions agree, including `wantzero`
propagation and clearing, embedded length prefixes, repeated fields, maps with their entry prefix and the
empty-map marker, pointers, byte arrays and Message implementers. -/
theorem size_eq_len_encode (c : Codec) (v : Val) (fl : Flags) : (encode c v fl).length = size c v fl :=
  Lemmas.Proto.size_eq c v fl

/-- … in particular at the entry points. -/
theorem Size_eq_len_Marshal (t : Ty) (v : Val) : (marshal t v).length = marshalSize t v :=
  Lemmas.Proto.size_eq _ _ _

/-- Marshal is a function of the value alone (deterministic): immediate, because the model's only source of
non-determinism is the order of `Val.map` entries, which is part of the value. Stated for the record:
equal type and equal value give equal bytes. -/
theorem marshal_deterministic (t : Ty) (v w : Val) (h : v = w) : marshal t v = marshal t w := by rw [h]

/-- sint32/sint64 zig-zag is a bijection on 64-bit words -/
theorem zigzag_decode_encode (v : BitVec 64) : decodeZigZag64 (encodeZigZag64 v) = v :=
  Lemmas.Proto.zigzag_roundtrip v
theorem zigzag_encode_decode (u : BitVec 64) : encodeZigZag64 (decodeZigZag64 u) = u :=
  Lemmas.Proto.zigzag_roundtrip' u

/-- decodeVarint ∘ encodeVarint = id, for every 64-bit value and whatever bytes follow (the 10-byte overflow rule
`i > 9 ∨ i = 9 ∧ c > 1` never rejects an encoder output) -/
theorem varint_decode_encode (v : BitVec 64) (rest : Bytes) :
    decodeVarint (encodeVarint v ++ rest) = .ok (v, sizeOfVarint v) :=
  Lemmas.ProtoVarint.decode_encode_varint v rest

/-- a varint has between 1 and 10 bytes -/
theorem varint_size_bounds (v : BitVec 64) : 1 ≤ sizeOfVarint v ∧ sizeOfVarint v ≤ 10 :=
  ⟨Lemmas.ProtoVarint.sizeOfVarint_pos v, Lemmas.ProtoVarint.sizeOfVarint_le v⟩

/-! the theorems above are unconditional (no hypotheses to satisfy); a concrete instance for the reader:
`struct{A int32; B []bool}{5, {false,true}}` → 08 05 10 00 10 01 -/
example : encode (.struct (.cons 1 false false false .int32 (.cons 2 false true false (.slice .bool 2 .varint false) .nil)))
    (.struct (.cons (.int 5) (.cons (.list (.cons (.bool false) (.cons (.bool true) .nil))) .nil))) {}
    = [0x08, 0x05, 0x10, 0x00, 0x10, 0x01] := by decide +kernel

end Enc.Props.C03
