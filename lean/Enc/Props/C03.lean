import Enc.Lemmas.Proto
import Enc.Lemmas.ProtoVarint
import Enc.Lemmas.ProtoRoundTrip
import Enc.Lemmas.ProtoMap
import Enc.Lemmas.ProtoDepth
import Enc.Lemmas.ProtoNamedMain
import Enc.Lemmas.ProtoArray
import Enc.Lemmas.ProtoPtrChains
import Enc.Lemmas.ProtoPtrsMain
/-!
# C03 — proto: Unmarshal(Marshal(v)) == v and Size(v) == len(Marshal(v))

Property theorems only (helper lemmas live in Enc/Lemmas/Proto.lean).
`Model.Proto` is the codec tree of /repo/proto as `codecOf` builds it, interpreted over the `Ty`/`Val` universe.
-/
namespace Enc.Props.C03
open Enc Enc.Model.Proto

/-- Size(v) == len(Marshal(v)) — for every codec tree, every value, every flag combination (hence for every
supported message type and value): the `size` functions and the `encode` functions agree, including `wantzero`
propagation and clearing, embedded length prefixes, repeated fields, maps with their entry prefix and the
empty-map marker, pointers, byte arrays and Message implementers. -/
theorem size_eq_len_encode (c : Codec) (v : Val) (fl : Flags) : (encode c v fl).length = size c v fl :=
  Lemmas.Proto.size_eq c v fl

/-- … in particular at the entry points. -/
theorem Size_eq_len_Marshal (t : Ty) (v : Val) : (marshal t v).length = marshalSize t v :=
  Lemmas.Proto.size_eq _ _ _

/-- Marshal is a function of the value alone (deterministic): immediate, because the model's only source of
non-determinism is the order of `Val.map` entries, which is part of the value. Stated for the record:
equal type and equal value give equal bytes. -/
theorem marshal_deterministic (t : Ty) (v w : Val) (h : v = w) : marshal t v = marshal t w := by rw [h]

/-- sint32/sint64 zig-zag is a bijection on 64-bit words -/
theorem zigzag_decode_encode (v : BitVec 64) : decodeZigZag64 (encodeZigZag64 v) = v :=
  Lemmas.Proto.zigzag_roundtrip v
theorem zigzag_encode_decode (u : BitVec 64) : encodeZigZag64 (decodeZigZag64 u) = u :=
  Lemmas.Proto.zigzag_roundtrip' u

/-- decodeVarint ∘ encodeVarint = id, for every 64-bit value and whatever bytes follow (the 10-byte overflow rule
`i > 9 ∨ i = 9 ∧ c > 1` never rejects an encoder output) -/
theorem varint_decode_encode (v : BitVec 64) (rest : Bytes) :
    decodeVarint (encodeVarint v ++ rest) = .ok (v, sizeOfVarint v) :=
  Lemmas.ProtoVarint.decode_encode_varint v rest

/-- a varint has between 1 and 10 bytes -/
theorem varint_size_bounds (v : BitVec 64) : 1 ≤ sizeOfVarint v ∧ sizeOfVarint v ≤ 10 :=
  ⟨Lemmas.ProtoVarint.sizeOfVarint_pos v, Lemmas.ProtoVarint.sizeOfVarint_le v⟩

/-! the theorems above are unconditional (no hypotheses to satisfy); a concrete instance for the reader:
`struct{A int32; B []bool}{5, {false,true}}` → 08 05 10 00 10 01 -/
example : encode (.struct (.cons 1 false false false .int32 (.cons 2 false true false (.slice .bool 2 .varint false) .nil)))
    (.struct (.cons (.int 5) (.cons (.list (.cons (.bool false) (.cons (.bool true) .nil))) .nil))) {}
    = [0x08, 0x05, 0x10, 0x00, 0x10, 0x01] := by decide +kernel

/-! ## Unmarshal ∘ Marshal (proofs in Enc/Lemmas/ProtoRoundTrip*.lean, on top of ProtoWire*.lean)

Universe `tyOK` (see Props/C12): messages with scalar fields of every kind and tag, byte arrays `[N]byte`, nested messages,
optional `*T` and repeated `[]T` fields (`T` a scalar, `[N]byte` or a message), field numbers 1…65535 pairwise distinct;
`hasType`: well-typed values in range (a `[N]byte` value has N bytes). Maps: `tyOKM` below; defined (named) types: `tyOK2` /
`tyOKM2`; repeated pointers `[]*T` and pointer chains `**T`: `tyOK3` / `tyOKM3` at the end of the file. Outside: `*[]T`, RawMessage
(differential only) and the known-finding shapes.

`hdep` (new with commit b70a382, `proto.maxDepth`): the message type is at most 10000 messages high (`Codec.nesting`: messages,
repeated elements and map entries count, pointers do not). It is decidable, holds for every type one can write down, and
is NECESSARY: a value of a type 10001 messages high is marshalled without complaint and refused by `Unmarshal`
(`Props.C07.depth_limit`; harness op `proto.deepr 10001`). Under it `unmarshal` is the decoder the proofs were written for
(`Props.C07.limit_invisible_below`). -/

open Lemmas.ProtoWire Lemmas.ProtoRoundTrip in
/-- **MAIN (round trip, scalar messages).** The model's own decoder inverts the model's encoder, literally — also when
every field is zero and nothing is written. -/
theorem unmarshal_marshal (fs : Fields) (v : Val)
    (hty : tyOK (.struct fs) = true) (hpl : plainTy (.struct fs) = true) (hv : hasType (.struct fs) v = true)
    (hlen : (marshal (.struct fs) v).length < 2 ^ 64) (hdep : Codec.nesting (codecOf (.struct fs)) ≤ Gen.c_proto_maxDepth) :
    unmarshal (.struct fs) (marshal (.struct fs) v) = .ok v := by
  rw [Lemmas.ProtoDepth.unmarshal_eq_unmarshalU _ _ hdep]
  exact Lemmas.ProtoRoundTrip.unmarshal_marshal_scalar fs v hty hpl hv hlen

open Lemmas.ProtoWire Lemmas.ProtoRoundTrip in
/-- … and with optional and repeated fields, up to the nil-versus-empty normal form; `noEmptyPtr` excludes exactly the
known finding "a pointer whose pointee encodes to zero bytes comes back nil" -/
theorem unmarshal_marshal_partial (fs : Fields) (v : Val)
    (hty : tyOK (.struct fs) = true) (hv : hasType (.struct fs) v = true) (hne : noEmptyPtr (.struct fs) v = true)
    (hlen : (marshal (.struct fs) v).length < 2 ^ 64) (hdep : Codec.nesting (codecOf (.struct fs)) ≤ Gen.c_proto_maxDepth) :
    ∃ v', unmarshal (.struct fs) (marshal (.struct fs) v) = .ok v'
      ∧ Spec.Protobuf.canonical (.struct fs) v' = Spec.Protobuf.canonical (.struct fs) v := by
  rw [Lemmas.ProtoDepth.unmarshal_eq_unmarshalU _ _ hdep]
  exact Lemmas.ProtoRoundTrip.unmarshal_marshal_partial fs v hty hv hne hlen

open Lemmas.ProtoWire Lemmas.ProtoMap in
/-- … and with map fields (`map[K]V`, any key kind protobuf allows, scalar / message / pointer values) anywhere in the
message, on the larger universe `tyOKM` (= `tyOK` + map-typed fields; proofs in Enc/Lemmas/ProtoMap*.lean). `valOKM`
extends `noEmptyPtr` through maps and asks every map to be non-empty with pairwise distinct keys: the empty map is the
known finding proto-empty-map-marker (`ProtoMapFindings` shows the theorem fails there), and distinct keys is what a
Go map guarantees. -/
theorem unmarshal_marshal_map_partial (fs : Fields) (v : Val)
    (hty : tyOKM (.struct fs) = true) (hv : hasTypeM (.struct fs) v = true) (hne : valOKM (.struct fs) v = true)
    (hlen : (marshal (.struct fs) v).length < 2 ^ 64) (hdep : Codec.nesting (codecOf (.struct fs)) ≤ Gen.c_proto_maxDepth) :
    ∃ v', unmarshal (.struct fs) (marshal (.struct fs) v) = .ok v'
      ∧ Spec.Protobuf.canonical (.struct fs) v' = Spec.Protobuf.canonical (.struct fs) v := by
  rw [Lemmas.ProtoDepth.unmarshal_eq_unmarshalU _ _ hdep]
  exact Lemmas.ProtoMap.unmarshal_marshal_map_partial fs v hty hv hne hlen

open Lemmas.ProtoWire Lemmas.ProtoMap in
/-- the hypotheses are satisfiable by a concrete message with map fields -/
example : tyOKM (.struct Lemmas.ProtoMap.Findings.exMFields) = true
    ∧ hasTypeM (.struct Lemmas.ProtoMap.Findings.exMFields) (.struct Lemmas.ProtoMap.Findings.exMVals) = true
    ∧ valOKM (.struct Lemmas.ProtoMap.Findings.exMFields) (.struct Lemmas.ProtoMap.Findings.exMVals) = true
    ∧ Codec.nesting (codecOf (.struct Lemmas.ProtoMap.Findings.exMFields)) ≤ Gen.c_proto_maxDepth :=
  ⟨Lemmas.ProtoMap.Findings.exM_ty, Lemmas.ProtoMap.Findings.exM_val, Lemmas.ProtoMap.Findings.exM_ok, by
    have : codecOf (.struct Lemmas.ProtoMap.Findings.exMFields) = .struct (fieldsOf 1 Lemmas.ProtoMap.Findings.exMFields) := by
      simp [codecOf]
    rw [this, Lemmas.ProtoMap.Findings.exM_codec]; decide⟩

/-! ## … on message types that use defined ("named") Go types (proofs in Enc/Lemmas/ProtoNamed*.lean)

`type Celsius float64`, `type Hash [32]byte`, `type Inner struct{…}`, `type Ints []int32`, `type Labels map[string]string`
(`.named n t` in the `Ty` universe) are transparent to the codec, which dispatches on `reflect.Kind`
(`ProtoNamed.codecOf_erase`: `structCodecOf` builds the same codec tree), and to the reference mapping
(`ProtoNamed.decode_erase`, `canonical_erase`). Universes `tyOK2 ⊇ tyOK`, `tyOKM2 ⊇ tyOKM`
(`ProtoNamed.tyOK2_of_tyOK`, `tyOKM2_of_tyOKM`): `nameSafe t` and `erase t` (all `.named` wrappers removed) in `tyOK` /
`tyOKM`; value predicates are those of the erased type (`hasType2 t v = hasType (erase t) v` …). `nameSafe`: no wrapper is
called "RawMessage" (the NAME of the one Message implementer of the corpus) and no `[]T` hides `T = uint8` behind a name. -/

open Lemmas.ProtoNamed in
/-- round trip, scalar messages whose field types may be defined types: literal -/
theorem unmarshal_marshal_named (fs : Fields) (v : Val)
    (hty : tyOK2 (.struct fs) = true) (hpl : plainTy2 (.struct fs) = true) (hv : hasType2 (.struct fs) v = true)
    (hlen : (marshal (.struct fs) v).length < 2 ^ 64) (hdep : Codec.nesting (codecOf (.struct fs)) ≤ Gen.c_proto_maxDepth) :
    unmarshal (.struct fs) (marshal (.struct fs) v) = .ok v :=
  Lemmas.ProtoNamed.unmarshal_marshal_named fs v hty hpl hv hlen hdep

open Lemmas.ProtoNamed in
/-- … with optional and repeated fields -/
theorem unmarshal_marshal_partial_named (fs : Fields) (v : Val)
    (hty : tyOK2 (.struct fs) = true) (hv : hasType2 (.struct fs) v = true) (hne : noEmptyPtr2 (.struct fs) v = true)
    (hlen : (marshal (.struct fs) v).length < 2 ^ 64) (hdep : Codec.nesting (codecOf (.struct fs)) ≤ Gen.c_proto_maxDepth) :
    ∃ v', unmarshal (.struct fs) (marshal (.struct fs) v) = .ok v'
      ∧ Spec.Protobuf.canonical (.struct fs) v' = Spec.Protobuf.canonical (.struct fs) v :=
  Lemmas.ProtoNamed.unmarshal_marshal_partial_named fs v hty hv hne hlen hdep

open Lemmas.ProtoNamed in
/-- … and with map fields -/
theorem unmarshal_marshal_map_partial_named (fs : Fields) (v : Val)
    (hty : tyOKM2 (.struct fs) = true) (hv : hasTypeM2 (.struct fs) v = true) (hne : valOKM2 (.struct fs) v = true)
    (hlen : (marshal (.struct fs) v).length < 2 ^ 64) (hdep : Codec.nesting (codecOf (.struct fs)) ≤ Gen.c_proto_maxDepth) :
    ∃ v', unmarshal (.struct fs) (marshal (.struct fs) v) = .ok v'
      ∧ Spec.Protobuf.canonical (.struct fs) v' = Spec.Protobuf.canonical (.struct fs) v :=
  Lemmas.ProtoNamed.unmarshal_marshal_map_partial_named fs v hty hv hne hlen hdep

open Lemmas.ProtoNamed in
/-- non-vacuity: `struct{ A Labels; B ID; C map[int64]Inner; D map[bool]*Inner; E Strs; F MI }`, every field type a
defined type or built from one (`Lemmas.ProtoNamed.exNFields`), with a concrete admissible value -/
example : tyOKM2 (.struct exNFields) = true
    ∧ hasTypeM2 (.struct exNFields) (.struct Lemmas.ProtoMap.Findings.exMVals) = true
    ∧ valOKM2 (.struct exNFields) (.struct Lemmas.ProtoMap.Findings.exMVals) = true
    ∧ (marshal (.struct exNFields) (.struct Lemmas.ProtoMap.Findings.exMVals)).length < 2 ^ 64
    ∧ Codec.nesting (codecOf (.struct exNFields)) ≤ Gen.c_proto_maxDepth := exN_hyps

/-! ## byte arrays `[N]byte` are inside `tyOK` / `tyOKM` (since agent B7): non-vacuity on concrete types
(`Lemmas.ProtoArray`): `struct{H [4]byte; N int32; Z [2]byte}` with `Z` all zero — elided on the wire, read back as
`{0,0}` — for the literal theorem, and `struct{H [4]byte; P *[2]byte; L [][3]byte; Z [2]byte; M map[string][2]byte}` for the
map theorem -/

open Lemmas.ProtoWire Lemmas.ProtoRoundTrip Lemmas.ProtoArray in
example : tyOK (.struct exPlain) = true ∧ plainTy (.struct exPlain) = true
    ∧ hasType (.struct exPlain) (.struct exPlainV) = true
    ∧ (marshal (.struct exPlain) (.struct exPlainV)).length < 2 ^ 64 :=
  ⟨exPlain_ty, by decide, exPlain_val, exPlain_len⟩

open Lemmas.ProtoWire Lemmas.ProtoMap Lemmas.ProtoArray in
example : tyOKM (.struct exArr) = true ∧ hasTypeM (.struct exArr) (.struct exArrV) = true
    ∧ valOKM (.struct exArr) (.struct exArrV) = true
    ∧ (marshal (.struct exArr) (.struct exArrV)).length < 2 ^ 64
    ∧ Codec.nesting (codecOf (.struct exArr)) ≤ Gen.c_proto_maxDepth :=
  ⟨exArr_ty, exArr_val, exArr_ok, exArr_len, exArr_depth⟩

/-! ## repeated pointers `[]*T` and pointer chains `**T` (proofs in Enc/Lemmas/ProtoPtrs*.lean)

Universes `tyOK3 ⊇ tyOK2`, `tyOKM3 ⊇ tyOKM2` (`ProtoPtrs.tyOK3_of_tyOK2`, `tyOKM3_of_tyOKM2`; on a type of the old universes the new
hypotheses ARE the old ones, `ProtoPtrs.old_universe`: `rty t = erase t`, `rval t v = v`, `ptrsOK3 t v`): `nameSafe t` and
`rty t = reduce (erase t)` in `tyOK` / `tyOKM`, where `reduce` removes the head pointers of every slice element and shortens
every pointer chain to a single pointer. So `[]*T`, `[]**T` … are allowed wherever `[]T` is (scalars, `[]byte`, `[N]byte`,
messages: `[]*Msg`), `**T`, `***T` … wherever `*T` is (fields, map values), at every depth and through defined types.
The encoder writes a non-nil pointer element / a complete chain exactly like its pointee (`ProtoPtrs.marshal_red`), the
decoder allocates the pointers it needs (`ProtoPtrs.unmarshalU_red`); `Codec.nesting` does not count pointers, so `hdep` is
unchanged. Value hypotheses: those of the old theorems on the reduced value `rval t v` (the pointees) at the type `rty t`,
and `ptrsOK3 t v`: no nil element in a `[]*T`, no chain ending in a nil pointer — exactly the two known findings below
(`ProtoPtrs.nil_elem_excluded`, `ptr_to_nil_excluded`). -/

open Lemmas.ProtoPtrs in
/-- round trip with optional, repeated, repeated-pointer and pointer-chain fields -/
theorem unmarshal_marshal_partial_ptrs (fs : Fields) (v : Val)
    (hty : tyOK3 (.struct fs) = true) (hp : ptrsOK3 (.struct fs) v = true) (hv : hasType3 (.struct fs) v = true)
    (hne : noEmptyPtr3 (.struct fs) v = true) (hlen : (marshal (.struct fs) v).length < 2 ^ 64)
    (hdep : Codec.nesting (codecOf (.struct fs)) ≤ Gen.c_proto_maxDepth) :
    ∃ v', unmarshal (.struct fs) (marshal (.struct fs) v) = .ok v'
      ∧ Spec.Protobuf.canonical (.struct fs) v' = Spec.Protobuf.canonical (.struct fs) v :=
  Lemmas.ProtoPtrs.unmarshal_marshal_partial_ptrs fs v hty hp hv hne hlen hdep

open Lemmas.ProtoPtrs in
/-- … and with map fields (`map[K]**T`, `map[K]Msg` with `[]*Item` inside, …) -/
theorem unmarshal_marshal_map_partial_ptrs (fs : Fields) (v : Val)
    (hty : tyOKM3 (.struct fs) = true) (hp : ptrsOK3 (.struct fs) v = true) (hv : hasTypeM3 (.struct fs) v = true)
    (hne : valOKM3 (.struct fs) v = true) (hlen : (marshal (.struct fs) v).length < 2 ^ 64)
    (hdep : Codec.nesting (codecOf (.struct fs)) ≤ Gen.c_proto_maxDepth) :
    ∃ v', unmarshal (.struct fs) (marshal (.struct fs) v) = .ok v'
      ∧ Spec.Protobuf.canonical (.struct fs) v' = Spec.Protobuf.canonical (.struct fs) v :=
  Lemmas.ProtoPtrs.unmarshal_marshal_map_partial_ptrs fs v hty hp hv hne hlen hdep

open Lemmas.ProtoPtrs in
/-- non-vacuity: `struct{ Items []*Item; Next **Item; M map[string]*Item; Ns []*int32; PP ***int64; MM map[int32]**Item;
L []**Item }`, `type Item struct{X int32; S string}`, with a concrete admissible value (`Lemmas.ProtoPtrs.exPVals`) -/
example : tyOKM3 (.struct exPFields) = true
    ∧ ptrsOK3 (.struct exPFields) (.struct exPVals) = true
    ∧ hasTypeM3 (.struct exPFields) (.struct exPVals) = true
    ∧ valOKM3 (.struct exPFields) (.struct exPVals) = true
    ∧ (marshal (.struct exPFields) (.struct exPVals)).length < 2 ^ 64
    ∧ Codec.nesting (codecOf (.struct exPFields)) ≤ Gen.c_proto_maxDepth := exP_hyps

open Lemmas.ProtoPtrs in
/-- … and `struct{ L []*int32; P **int32 }{L: {&3, &0}, P: &&0}` for the map-free theorem -/
example : tyOK3 (.struct exQFields) = true
    ∧ ptrsOK3 (.struct exQFields) (.struct exQVals) = true
    ∧ hasType3 (.struct exQFields) (.struct exQVals) = true
    ∧ noEmptyPtr3 (.struct exQFields) (.struct exQVals) = true
    ∧ (marshal (.struct exQFields) (.struct exQVals)).length < 2 ^ 64
    ∧ Codec.nesting (codecOf (.struct exQFields)) ≤ Gen.c_proto_maxDepth := exQ_hyps

/-! ### the two value shapes `ptrsOK3` excludes are known findings (witnesses in `Lemmas.ProtoPtrChains`); still outside
every round-trip theorem: `*[]T`, RawMessage fields -/

open Lemmas.ProtoPtrChains in
/-- the `**T` witness: `struct{P **int32}{P: &nil}` → no bytes → `{P: nil}` -/
theorem ptr_chain_finding :
    marshal (.struct ppF) (.struct (.cons (.ptr .nil) .nil)) = []
    ∧ unmarshal (.struct ppF) [] = .ok (.struct (.cons .nil .nil)) :=
  ⟨ptr_to_nil_ptr_lost.1, by simp [unmarshal, ppF, zeroOf, zeroFields]⟩

open Lemmas.ProtoPtrChains in
/-- the `[]*T` witness: `struct{L []*int32}{L: {nil}}` → `08`, which is not wire format -/
theorem nil_elem_finding :
    marshal (.struct lpF) (.struct (.cons (.list (.cons .nil .nil)) .nil)) = [0x08]
    ∧ Spec.Protobuf.parse 2 [0x08] = none := nil_elem_not_wire

end Enc.Props.C03
