import Enc.Lemmas.Proto
import Enc.Lemmas.ProtoVarint
import Enc.Lemmas.ProtoRoundTrip
import Enc.Lemmas.ProtoMap
import Enc.Lemmas.ProtoDepth
import Enc.Lemmas.ProtoNamedMain
import Enc.Lemmas.ProtoArray
import Enc.Lemmas.ProtoPtrChains
import Enc.Lemmas.ProtoPtrsMain
import Enc.Lemmas.ProtoMsgField
import Enc.Lemmas.ProtoMsgRoundTrip
import Enc.Lemmas.ProtoMsgRoundTripStrict
import Enc.Lemmas.ProtoMsgDecodeSound
/-!
# C03 — proto: Unmarshal(Marshal(v)) == v and Size(v) == len(Marshal(v))

Property theorems only (helper lemmas live in Enc/Lemmas/Proto.lean).
`Model.Proto` is the codec tree of /repo/proto as `codecOf` builds it, interpreted over the `Ty`/`Val` universe.
-/
namespace Enc.Props.C03
open Enc Enc.Model.Proto

/-- Size(v) == len(Marshal(v)) — for every codec tree, every value, every flag combination (hence for every
supported message type and value): the `size` functions and the `encode` functions agree, including `wantzero`
propagation and clearing, embedded length prefixes, repeated fields, maps with their entry prefix and the
empty-map marker, pointers, byte arrays and Message implementers. -/
theorem size_eq_len_encode (c : Codec) (v : Val) (fl : Flags) : (encode c v fl).length = size c v fl :=
  Lemmas.Proto.size_eq c v fl

/-- … in particular at the entry points. -/
theorem Size_eq_len_Marshal (t : Ty) (v : Val) : (marshal t v).length = marshalSize t v :=
  Lemmas.Proto.size_eq _ _ _

/-- Marshal is a function of the value alone (deterministic): immediate, because the model's only source of
non-determinism is the order of `Val.map` entries, which is part of the value. Stated for the record:
equal type and equal value give equal bytes. -/
theorem marshal_deterministic (t : Ty) (v w : Val) (h : v = w) : marshal t v = marshal t w := by rw [h]

/-- sint32/sint64 zig-zag is a bijection on 64-bit words -/
theorem zigzag_decode_encode (v : BitVec 64) : decodeZigZag64 (encodeZigZag64 v) = v :=
  Lemmas.Proto.zigzag_roundtrip v
theorem zigzag_encode_decode (u : BitVec 64) : encodeZigZag64 (decodeZigZag64 u) = u :=
  Lemmas.Proto.zigzag_roundtrip' u

/-- decodeVarint ∘ encodeVarint = id, for every 64-bit value and whatever bytes follow (the 10-byte overflow rule
`i > 9 ∨ i = 9 ∧ c > 1` never rejects an encoder output) -/
theorem varint_decode_encode (v : BitVec 64) (rest : Bytes) :
    decodeVarint (encodeVarint v ++ rest) = .ok (v, sizeOfVarint v) :=
  Lemmas.ProtoVarint.decode_encode_varint v rest

/-- a varint has between 1 and 10 bytes -/
theorem varint_size_bounds (v : BitVec 64) : 1 ≤ sizeOfVarint v ∧ sizeOfVarint v ≤ 10 :=
  ⟨Lemmas.ProtoVarint.sizeOfVarint_pos v, Lemmas.ProtoVarint.sizeOfVarint_le v⟩

/-! the theorems above are unconditional (no hypotheses to satisfy); a concrete instance for the reader:
`struct{A int32; B []bool}{5, {false,true}}` → 08 05 10 00 10 01 -/
example : encode (.struct (.cons 1 false false false .int32 (.cons 2 false true false (.slice .bool 2 .varint false) .nil)))
    (.struct (.cons (.int 5) (.cons (.list (.cons (.bool false) (.cons (.bool true) .nil))) .nil))) {}
    = [0x08, 0x05, 0x10, 0x00, 0x10, 0x01] := by decide +kernel

/-! ## Unmarshal ∘ Marshal (proofs in Enc/Lemmas/ProtoRoundTrip*.lean, on top of ProtoWire*.lean)

Universe `tyOK` (see Props/C12): messages with scalar fields of every kind and tag, byte arrays `[N]byte`, nested messages,
optional `*T` and repeated `[]T` fields (`T` a scalar, `[N]byte` or a message), field numbers 1…65535 pairwise distinct;
`hasType`: well-typed values in range (a `[N]byte` value has N bytes). Maps: `tyOKM` below; defined (named) types: `tyOK2` /
`tyOKM2`; repeated pointers `[]*T` and pointer chains `**T`: `tyOK3` / `tyOKM3` at the end of the file. Outside: `*[]T`, RawMessage
(differential only) and the known-finding shapes.

`hdep` (new with commit b70a382, `proto.maxDepth`): the message type is at most 10000 messages high (`Codec.nesting`: messages,
repeated elements and map entries count, pointers do not). It is decidable, holds for every type one can write down, and
is NECESSARY: a value of a type 10001 messages high is marshalled without complaint and refused by `Unmarshal`
(`Props.C07.depth_limit`; harness op `proto.deepr 10001`). Under it `unmarshal` is the decoder the proofs were written for
(`Props.C07.limit_invisible_below`). -/

open Lemmas.ProtoWire Lemmas.ProtoRoundTrip in
/-- **MAIN (round trip, scalar messages).** The model's own decoder inverts the model's encoder, literally — also when
every field is zero and nothing is written. -/
theorem unmarshal_marshal (fs : Fields) (v : Val)
    (hty : tyOK (.struct fs) = true) (hpl : plainTy (.struct fs) = true) (hv : hasType (.struct fs) v = true)
    (hlen : (marshal (.struct fs) v).length < 2 ^ 64) (hdep : Codec.nesting (codecOf (.struct fs)) ≤ Gen.c_proto_maxDepth) :
    unmarshal (.struct fs) (marshal (.struct fs) v) = .ok v := by
  rw [Lemmas.ProtoDepth.unmarshal_eq_unmarshalU _ _ hdep]
  exact Lemmas.ProtoRoundTrip.unmarshal_marshal_scalar fs v hty hpl hv hlen

open Lemmas.ProtoWire Lemmas.ProtoRoundTrip in
/-- … and with optional and repeated fields, up to the nil-versus-empty normal form; `noEmptyPtr` excludes exactly the
known finding "a pointer whose pointee encodes to zero bytes comes back nil" -/
theorem unmarshal_marshal_partial (fs : Fields) (v : Val)
    (hty : tyOK (.struct fs) = true) (hv : hasType (.struct fs) v = true) (hne : noEmptyPtr (.struct fs) v = true)
    (hlen : (marshal (.struct fs) v).length < 2 ^ 64) (hdep : Codec.nesting (codecOf (.struct fs)) ≤ Gen.c_proto_maxDepth) :
    ∃ v', unmarshal (.struct fs) (marshal (.struct fs) v) = .ok v'
      ∧ Spec.Protobuf.canonical (.struct fs) v' = Spec.Protobuf.canonical (.struct fs) v := by
  rw [Lemmas.ProtoDepth.unmarshal_eq_unmarshalU _ _ hdep]
  exact Lemmas.ProtoRoundTrip.unmarshal_marshal_partial fs v hty hv hne hlen

open Lemmas.ProtoWire Lemmas.ProtoMap in
/-- … and with map fields (`map[K]V`, any key kind protobuf allows, scalar / message / pointer values) anywhere in the
message, on the larger universe `tyOKM` (= `tyOK` + map-typed fields; proofs in Enc/Lemmas/ProtoMap*.lean). `valOKM`
extends `noEmptyPtr` through maps and asks every map to be non-empty with pairwise distinct keys: the empty map is the
known finding proto-empty-map-marker (`ProtoMapFindings` shows the theorem fails there), and distinct keys is what a
Go map guarantees. -/
theorem unmarshal_marshal_map_partial (fs : Fields) (v : Val)
    (hty : tyOKM (.struct fs) = true) (hv : hasTypeM (.struct fs) v = true) (hne : valOKM (.struct fs) v = true)
    (hlen : (marshal (.struct fs) v).length < 2 ^ 64) (hdep : Codec.nesting (codecOf (.struct fs)) ≤ Gen.c_proto_maxDepth) :
    ∃ v', unmarshal (.struct fs) (marshal (.struct fs) v) = .ok v'
      ∧ Spec.Protobuf.canonical (.struct fs) v' = Spec.Protobuf.canonical (.struct fs) v := by
  rw [Lemmas.ProtoDepth.unmarshal_eq_unmarshalU _ _ hdep]
  exact Lemmas.ProtoMap.unmarshal_marshal_map_partial fs v hty hv hne hlen

open Lemmas.ProtoWire Lemmas.ProtoMap in
/-- the hypotheses are satisfiable by a concrete message with map fields -/
example : tyOKM (.struct Lemmas.ProtoMap.Findings.exMFields) = true
    ∧ hasTypeM (.struct Lemmas.ProtoMap.Findings.exMFields) (.struct Lemmas.ProtoMap.Findings.exMVals) = true
    ∧ valOKM (.struct Lemmas.ProtoMap.Findings.exMFields) (.struct Lemmas.ProtoMap.Findings.exMVals) = true
    ∧ Codec.nesting (codecOf (.struct Lemmas.ProtoMap.Findings.exMFields)) ≤ Gen.c_proto_maxDepth :=
  ⟨Lemmas.ProtoMap.Findings.exM_ty, Lemmas.ProtoMap.Findings.exM_val, Lemmas.ProtoMap.Findings.exM_ok, by
    have : codecOf (.struct Lemmas.ProtoMap.Findings.exMFields) = .struct (fieldsOf 1 Lemmas.ProtoMap.Findings.exMFields) := by
      simp [codecOf]
    rw [this, Lemmas.ProtoMap.Findings.exM_codec]; decide⟩

/-! ## … on message types that use defined ("named") Go types (proofs in Enc/Lemmas/ProtoNamed*.lean)

`type Celsius float64`, `type Hash [32]byte`, `type Inner struct{…}`, `type Ints []int32`, `type Labels map[string]string`
(`.named n t` in the `Ty` universe) are transparent to the codec, which dispatches on `reflect.Kind`
(`ProtoNamed.codecOf_erase`: `structCodecOf` builds the same codec tree), and to the reference mapping
(`ProtoNamed.decode_erase`, `canonical_erase`). Universes `tyOK2 ⊇ tyOK`, `tyOKM2 ⊇ tyOKM`
(`ProtoNamed.tyOK2_of_tyOK`, `tyOKM2_of_tyOKM`): `nameSafe t` and `erase t` (all `.named` wrappers removed) in `tyOK` /
`tyOKM`; value predicates are those of the erased type (`hasType2 t v = hasType (erase t) v` …). `nameSafe`: no wrapper is
called "RawMessage" (the NAME of the one Message implementer of the corpus) and no `[]T` hides `T = uint8` behind a name. -/

open Lemmas.ProtoNamed in
/-- round trip, scalar messages whose field types may be defined types: literal -/
theorem unmarshal_marshal_named (fs : Fields) (v : Val)
    (hty : tyOK2 (.struct fs) = true) (hpl : plainTy2 (.struct fs) = true) (hv : hasType2 (.struct fs) v = true)
    (hlen : (marshal (.struct fs) v).length < 2 ^ 64) (hdep : Codec.nesting (codecOf (.struct fs)) ≤ Gen.c_proto_maxDepth) :
    unmarshal (.struct fs) (marshal (.struct fs) v) = .ok v :=
  Lemmas.ProtoNamed.unmarshal_marshal_named fs v hty hpl hv hlen hdep

open Lemmas.ProtoNamed in
/-- … with optional and repeated fields -/
theorem unmarshal_marshal_partial_named (fs : Fields) (v : Val)
    (hty : tyOK2 (.struct fs) = true) (hv : hasType2 (.struct fs) v = true) (hne : noEmptyPtr2 (.struct fs) v = true)
    (hlen : (marshal (.struct fs) v).length < 2 ^ 64) (hdep : Codec.nesting (codecOf (.struct fs)) ≤ Gen.c_proto_maxDepth) :
    ∃ v', unmarshal (.struct fs) (marshal (.struct fs) v) = .ok v'
      ∧ Spec.Protobuf.canonical (.struct fs) v' = Spec.Protobuf.canonical (.struct fs) v :=
  Lemmas.ProtoNamed.unmarshal_marshal_partial_named fs v hty hv hne hlen hdep

open Lemmas.ProtoNamed in
/-- … and with map fields -/
theorem unmarshal_marshal_map_partial_named (fs : Fields) (v : Val)
    (hty : tyOKM2 (.struct fs) = true) (hv : hasTypeM2 (.struct fs) v = true) (hne : valOKM2 (.struct fs) v = true)
    (hlen : (marshal (.struct fs) v).length < 2 ^ 64) (hdep : Codec.nesting (codecOf (.struct fs)) ≤ Gen.c_proto_maxDepth) :
    ∃ v', unmarshal (.struct fs) (marshal (.struct fs) v) = .ok v'
      ∧ Spec.Protobuf.canonical (.struct fs) v' = Spec.Protobuf.canonical (.struct fs) v :=
  Lemmas.ProtoNamed.unmarshal_marshal_map_partial_named fs v hty hv hne hlen hdep

open Lemmas.ProtoNamed in
/-- non-vacuity: `struct{ A Labels; B ID; C map[int64]Inner; D map[bool]*Inner; E Strs; F MI }`, every field type a
defined type or built from one (`Lemmas.ProtoNamed.exNFields`), with a concrete admissible value -/
example : tyOKM2 (.struct exNFields) = true
    ∧ hasTypeM2 (.struct exNFields) (.struct Lemmas.ProtoMap.Findings.exMVals) = true
    ∧ valOKM2 (.struct exNFields) (.struct Lemmas.ProtoMap.Findings.exMVals) = true
    ∧ (marshal (.struct exNFields) (.struct Lemmas.ProtoMap.Findings.exMVals)).length < 2 ^ 64
    ∧ Codec.nesting (codecOf (.struct exNFields)) ≤ Gen.c_proto_maxDepth := exN_hyps

/-! ## byte arrays `[N]byte` are inside `tyOK` / `tyOKM` (since agent B7): non-vacuity on concrete types
(`Lemmas.ProtoArray`): `struct{H [4]byte; N int32; Z [2]byte}` with `Z` all zero — elided on the wire, read back as
`{0,0}` — for the literal theorem, and `struct{H [4]byte; P *[2]byte; L [][3]byte; Z [2]byte; M map[string][2]byte}` for the
map theorem -/

open Lemmas.ProtoWire Lemmas.ProtoRoundTrip Lemmas.ProtoArray in
example : tyOK (.struct exPlain) = true ∧ plainTy (.struct exPlain) = true
    ∧ hasType (.struct exPlain) (.struct exPlainV) = true
    ∧ (marshal (.struct exPlain) (.struct exPlainV)).length < 2 ^ 64 :=
  ⟨exPlain_ty, by decide, exPlain_val, exPlain_len⟩

open Lemmas.ProtoWire Lemmas.ProtoMap Lemmas.ProtoArray in
example : tyOKM (.struct exArr) = true ∧ hasTypeM (.struct exArr) (.struct exArrV) = true
    ∧ valOKM (.struct exArr) (.struct exArrV) = true
    ∧ (marshal (.struct exArr) (.struct exArrV)).length < 2 ^ 64
    ∧ Codec.nesting (codecOf (.struct exArr)) ≤ Gen.c_proto_maxDepth :=
  ⟨exArr_ty, exArr_val, exArr_ok, exArr_len, exArr_depth⟩

/-! ## repeated pointers `[]*T` and pointer chains `**T` (proofs in Enc/Lemmas/ProtoPtrs*.lean)

Universes `tyOK3 ⊇ tyOK2`, `tyOKM3 ⊇ tyOKM2` (`ProtoPtrs.tyOK3_of_tyOK2`, `tyOKM3_of_tyOKM2`; on a type of the old universes the new
hypotheses ARE the old ones, `ProtoPtrs.old_universe`: `rty t = erase t`, `rval t v = v`, `ptrsOK3 t v`): `nameSafe t` and
`rty t = reduce (erase t)` in `tyOK` / `tyOKM`, where `reduce` removes the head pointers of every slice element and shortens
every pointer chain to a single pointer. So `[]*T`, `[]**T` … are allowed wherever `[]T` is (scalars, `[]byte`, `[N]byte`,
messages: `[]*Msg`), `**T`, `***T` … wherever `*T` is (fields, map values), at every depth and through defined types.
The encoder writes a non-nil pointer element / a complete chain exactly like its pointee (`ProtoPtrs.marshal_red`), the
decoder allocates the pointers it needs (`ProtoPtrs.unmarshalU_red`); `Codec.nesting` does not count pointers, so `hdep` is
unchanged. Value hypotheses: those of the old theorems on the reduced value `rval t v` (the pointees) at the type `rty t`,
and `ptrsOK3 t v`: no nil element in a `[]*T`, no chain ending in a nil pointer — exactly the two known findings below
(`ProtoPtrs.nil_elem_excluded`, `ptr_to_nil_excluded`). -/

open Lemmas.ProtoPtrs in
/-- round trip with optional, repeated, repeated-pointer and pointer-chain fields -/
theorem unmarshal_marshal_partial_ptrs (fs : Fields) (v : Val)
    (hty : tyOK3 (.struct fs) = true) (hp : ptrsOK3 (.struct fs) v = true) (hv : hasType3 (.struct fs) v = true)
    (hne : noEmptyPtr3 (.struct fs) v = true) (hlen : (marshal (.struct fs) v).length < 2 ^ 64)
    (hdep : Codec.nesting (codecOf (.struct fs)) ≤ Gen.c_proto_maxDepth) :
    ∃ v', unmarshal (.struct fs) (marshal (.struct fs) v) = .ok v'
      ∧ Spec.Protobuf.canonical (.struct fs) v' = Spec.Protobuf.canonical (.struct fs) v :=
  Lemmas.ProtoPtrs.unmarshal_marshal_partial_ptrs fs v hty hp hv hne hlen hdep

open Lemmas.ProtoPtrs in
/-- … and with map fields (`map[K]**T`, `map[K]Msg` with `[]*Item` inside, …) -/
theorem unmarshal_marshal_map_partial_ptrs (fs : Fields) (v : Val)
    (hty : tyOKM3 (.struct fs) = true) (hp : ptrsOK3 (.struct fs) v = true) (hv : hasTypeM3 (.struct fs) v = true)
    (hne : valOKM3 (.struct fs) v = true) (hlen : (marshal (.struct fs) v).length < 2 ^ 64)
    (hdep : Codec.nesting (codecOf (.struct fs)) ≤ Gen.c_proto_maxDepth) :
    ∃ v', unmarshal (.struct fs) (marshal (.struct fs) v) = .ok v'
      ∧ Spec.Protobuf.canonical (.struct fs) v' = Spec.Protobuf.canonical (.struct fs) v :=
  Lemmas.ProtoPtrs.unmarshal_marshal_map_partial_ptrs fs v hty hp hv hne hlen hdep

open Lemmas.ProtoPtrs in
/-- non-vacuity: `struct{ Items []*Item; Next **Item; M map[string]*Item; Ns []*int32; PP ***int64; MM map[int32]**Item;
L []**Item }`, `type Item struct{X int32; S string}`, with a concrete admissible value (`Lemmas.ProtoPtrs.exPVals`) -/
example : tyOKM3 (.struct exPFields) = true
    ∧ ptrsOK3 (.struct exPFields) (.struct exPVals) = true
    ∧ hasTypeM3 (.struct exPFields) (.struct exPVals) = true
    ∧ valOKM3 (.struct exPFields) (.struct exPVals) = true
    ∧ (marshal (.struct exPFields) (.struct exPVals)).length < 2 ^ 64
    ∧ Codec.nesting (codecOf (.struct exPFields)) ≤ Gen.c_proto_maxDepth := exP_hyps

open Lemmas.ProtoPtrs in
/-- … and `struct{ L []*int32; P **int32 }{L: {&3, &0}, P: &&0}` for the map-free theorem -/
example : tyOK3 (.struct exQFields) = true
    ∧ ptrsOK3 (.struct exQFields) (.struct exQVals) = true
    ∧ hasType3 (.struct exQFields) (.struct exQVals) = true
    ∧ noEmptyPtr3 (.struct exQFields) (.struct exQVals) = true
    ∧ (marshal (.struct exQFields) (.struct exQVals)).length < 2 ^ 64
    ∧ Codec.nesting (codecOf (.struct exQFields)) ≤ Gen.c_proto_maxDepth := exQ_hyps

/-! ### the two value shapes `ptrsOK3` excludes are known findings (witnesses in `Lemmas.ProtoPtrChains`); still outside
every round-trip theorem: `*[]T` (user-defined types: the section at the end) -/

open Lemmas.ProtoPtrChains in
/-- the `**T` witness: `struct{P **int32}{P: &nil}` → no bytes → `{P: nil}` -/
theorem ptr_chain_finding :
    marshal (.struct ppF) (.struct (.cons (.ptr .nil) .nil)) = []
    ∧ unmarshal (.struct ppF) [] = .ok (.struct (.cons .nil .nil)) :=
  ⟨ptr_to_nil_ptr_lost.1, by simp [unmarshal, ppF, zeroOf, zeroFields]⟩

open Lemmas.ProtoPtrChains in
/-- the `[]*T` witness: `struct{L []*int32}{L: {nil}}` → `08`, which is not wire format -/
theorem nil_elem_finding :
    marshal (.struct lpF) (.struct (.cons (.list (.cons .nil .nil)) .nil)) = [0x08]
    ∧ Spec.Protobuf.parse 2 [0x08] = none := nil_elem_not_wire

/-! ## user-defined types: proto.Message implementers and gogo-style custom types as OPAQUE leaves

C03: "… and types implementing the Message or gogo-style custom interfaces), Unmarshal(Marshal(v)) reproduces v …, and Size(v)
equals the number of bytes Marshal returns. For types without user-supplied marshalling methods Marshal never fails".

`Model.ProtoMsg` is the model with the user's three methods as PARAMETERS (`ops : UserOps`: `size`, `marshal`, `unmarshal`, acting
on abstract states; messageCodecOf / customCodecOf at the leaves `Codec.message`, which `codecOf` builds for
`Ty.named "RawMessage" u` whatever the kind of `u`), with the user's errors propagated. USER CONTRACT, a hypothesis:
`LeavesOK ops c v` — at every user value `u` inside `v`, `Marshal` succeeds and fills exactly `Size()` bytes
(`LeafOK ops u := ∃ p, ops.marshal u = .ok p ∧ p.length = ops.size u`). `absV ops c v` = `v` with every user value replaced by the
bytes it marshals to (`pay ops u`): the payload-level value, on which `Model.Proto` computes.
Proofs in Enc/Lemmas/ProtoMsg{Link,Main,Field}.lean. Differential: harness/protomsg.go (a zoo of eight hand-declared types of
struct / slice / map / scalar kind, value and pointer receivers, one gogo-style, one failing), ops `proto.msg*`. -/

open Lemmas.ProtoMsg in
/-- **Size(v) == len(Marshal(v)) with user types**: for every codec tree, value and flag combination, under the user
contract, the encoder given `Size` bytes succeeds and returns exactly `Size` bytes — the payload-level encoding -/
theorem size_eq_len_encode_opaque (ops : UserOps) (c : Codec) (v : Val) (fl : Flags) (h : LeavesOK ops c v) :
    ∃ b, encodeToUsr ops c v fl (sizeUsr ops c v fl) = .ok b ∧ b.length = sizeUsr ops c v fl
      ∧ b = encode c (absV ops c v) fl :=
  Lemmas.ProtoMsg.size_eq_len_encode_opaque ops c v fl h

open Lemmas.ProtoMsg in
/-- … at the entry points `Marshal` / `Size` -/
theorem Marshal_opaque (ops : UserOps) (t : Ty) (v : Val) (h : LeavesOK ops (codecOf t) v) :
    marshalUsr ops t v = .ok (marshal t (absV ops (codecOf t) v))
      ∧ (marshal t (absV ops (codecOf t) v)).length = marshalSizeUsr ops t v :=
  Lemmas.ProtoMsg.marshalUsr_ok ops t v h

open Lemmas.ProtoMsg in
/-- **"For types without user-supplied marshalling methods Marshal never fails."** A codec tree without user types
(`noUser`) never consults the user's methods, whatever they are: `Marshal` succeeds with the bytes of `Model.Proto` -/
theorem marshal_never_fails_without_user_methods (ops : UserOps) (t : Ty) (v : Val) (h : noUser (codecOf t) = true) :
    marshalUsr ops t v = .ok (marshal t v) :=
  Lemmas.ProtoMsg.marshalUsr_noUser ops t v h

open Lemmas.ProtoMsg in
/-- WITH user methods it may fail: the error a user `Marshal` returns is the result of the leaf (the codec has already passed
its length checks: in `Marshal` the buffer has `Size` bytes) … -/
theorem marshal_user_error_at_leaf (ops : UserOps) (u : Val) (fl : Flags) (avail : Nat) (e : String)
    (hm : ops.marshal u = .err e) (ha : sizeUsr ops .message u fl ≤ avail) :
    encodeToUsr ops .message u fl avail = .err e :=
  Lemmas.ProtoMsg.encodeToUsr_leaf_err ops u fl avail e hm ha

open Lemmas.ProtoMsg in
/-- … and propagates through the message: `struct{ A int32; U T; P *T; L []T; M map[string]T }`, the second element of `L`
fails to marshal (`revOps`: states starting with 0xEE) -/
theorem marshal_user_error_propagates : encodeToUsr revOps exUC
    (.struct (.cons (.int 7) (.cons (.str [1]) (.cons .nil (.cons (.list (.cons (.str [6]) (.cons (.str [0xEE, 1]) .nil)))
      (.cons .nil .nil)))))) {} 64 = .err "user" := exU_err

open Lemmas.ProtoMsg in
/-- how the codec wraps a user type `T` (ANY kind: struct, slice, map, scalar — `u` is arbitrary), commits 109a14e, 0de7c43,
e71f28a: a field `X T`, `P *T`, `L []T`, `L []*T` get the method codec, never `embedded` — ONE length prefix, the one the
method codec writes itself; slices of it are repeated fields -/
theorem opaque_field_codecs (num : Nat) (u : Ty) :
    fieldCodecOf num (.named "RawMessage" u) = (false, false, .message)
    ∧ fieldCodecOf num (.ptr (.named "RawMessage" u)) = (false, false, .ptr .message)
    ∧ fieldCodecOf num (.slice (.named "RawMessage" u)) = (false, true, .slice .message num .varlen false)
    ∧ fieldCodecOf num (.slice (.ptr (.named "RawMessage" u))) = (false, true, .slice (.ptr .message) num .varlen false) :=
  ⟨fieldCodecOf_opaque num u, fieldCodecOf_ptr_opaque num u, fieldCodecOf_slice_opaque num u,
   fieldCodecOf_slice_ptr_opaque num u⟩

open Lemmas.ProtoMsg in
/-- … and a map value `M map[K]T`: the value part of every entry is the method codec, not embedded -/
theorem opaque_map_value_codec (num : Nat) (k u : Ty) :
    ∃ ke kr kfc, fieldCodecOf num (.map k (.named "RawMessage" u))
      = (true, true, .map num (codecOf k) .message (isStructBase k) false
          (.struct (.cons 1 ke kr false kfc (.cons 2 false false false .message .nil)))) :=
  fieldCodecOf_map_opaque num k u

open Lemmas.ProtoMsg in
/-- what `Marshal` writes for a user value: at top level its own bytes, no prefix; as a field ONE length-delimited record
holding them — also when they are no bytes at all (`0a 00`: there is no zero-value test, the field is never elided); a nil
pointer to one is elided, a non-nil pointer is written like the value -/
theorem marshal_opaque_positions (ops : UserOps) (n : String) (e : Bool) (u : Ty) (s : Val) (h : LeafOK ops s) :
    marshalUsr ops (.named "RawMessage" u) s = .ok (pay ops s)
    ∧ marshalUsr ops (.struct (.cons n "" e (.named "RawMessage" u) .nil)) (.struct (.cons s .nil))
        = .ok (encodeTag 1 .varlen ++ encodeVarint (BitVec.ofNat 64 (pay ops s).length) ++ pay ops s)
    ∧ marshalUsr ops (.struct (.cons n "" e (.ptr (.named "RawMessage" u)) .nil)) (.struct (.cons .nil .nil)) = .ok []
    ∧ marshalUsr ops (.struct (.cons n "" e (.ptr (.named "RawMessage" u)) .nil)) (.struct (.cons (.ptr s) .nil))
        = .ok (encodeTag 1 .varlen ++ encodeVarint (BitVec.ofNat 64 (pay ops s).length) ++ pay ops s) :=
  ⟨marshalUsr_top ops u s h, marshalUsr_field ops n e u s h, marshalUsr_ptr_field_nil ops n e u,
   marshalUsr_ptr_field ops n e u s h⟩

open Lemmas.ProtoMsg in
/-- non-vacuity: the contract holds for RawMessage (`rawOps`, identity on bytes) at every value of every type, and for the
user type of `revOps` (Marshal writes the state reversed) on `struct{ A int32; U T; P *T; L []T; M map[string]T }` with the
value `{7, [1 2 3], &[4 5], {[6], []}, {"k": [8 9]}}`, whose encoding is computed by the model -/
example : (∀ c v, LeavesOK rawOps c v) ∧ LeavesOK revOps exUC exUV
    ∧ encodeToUsr revOps exUC exUV {} 28
      = .ok [0x08, 7, 0x12, 3, 3, 2, 1, 0x1a, 2, 5, 4, 0x22, 1, 6, 0x22, 0, 0x2a, 7, 0x0a, 1, 0x6b, 0x12, 2, 9, 8] :=
  ⟨leavesOK_rawOps, exU_ok, exU_bytes⟩

/-! ### Unmarshal ∘ Marshal with user types

Three layers (proofs: Enc/Lemmas/ProtoMsgDecode*.lean, ProtoOpaque*.lean, ProtoMsgRoundTrip.lean):
 1. the LEAF, literally, for ARBITRARY user methods under the round-trip contract `Unmarshal(Marshal(u)) = u`
    (`unmarshal_marshal_opaque_leaf`: top level, field / element / map-value position, behind a pointer);
 2. the PAYLOAD level on the universe `tyOK4 ⊇ tyOK3`, `tyOKM4 ⊇ tyOKM3` (`ProtoOpaque.tyOK4_of_tyOK3`): `opaqueSafe t` (no
    fixed32/fixed64 tag on a field of user type, no user type as map key) and `ob t` — every user type relabelled `[]byte` — in
    `tyOK3` / `tyOKM3`. So a user type of ANY kind may stand wherever `[]byte` may: field, `[]T`, `[]*T`, map value, inside nested
    messages and defined types. NOT inside: `*T` as a field or map value, because `*[]byte` is outside `tyOK`
    (`ProtoOpaque.ptr_leaf_excluded`; covered by layer 1 and by the differential harness). Value hypotheses: those of the
    `_ptrs` theorems at `(ob t, ov t v)` (`ov`: a nil leaf is the empty byte string). Comparison by `canonical (ob t)`, which
    treats a leaf as the byte string it is; by `canonical t` in the `…_canon` theorems further down (since the repair of `canonTy`);
    HISTORICAL, the `_plain` theorem: by `canonical t` under `opaquePlain t` (the underlying type of every leaf is a
    scalar / string / bytes / array: `Spec.Protobuf.canonTy` has no catch-all case for an opaque leaf and looks INTO its
    underlying type on values other than `.str []` — harmless on real values, visible in a ∀-statement; recorded);
 3. the user's methods on top: `Unmarshal` = payload-level `Unmarshal` followed by the user's `Unmarshal` at every leaf, for
    user types whose `Unmarshal` overwrites its receiver and accepts every input (`Lenient ops`: RawMessage, the harness zoo at
    payload level); for ARBITRARY user methods: whatever the decoder accepts, the payload-level decoder accepts
    (`unmarshal_opaque_sound`).
User methods whose `Unmarshal` can FAIL (or merge): layer 4 below (`unmarshal_opaque_observed`,
`unmarshal_marshal_opaque_failing_partial`) — the round trip for ARBITRARY user methods under the contract
`Unmarshal(Marshal(s)) = s` on the leaves `s` of the value, given THE INVARIANT `PresentsLeavesOnce`: on the bytes `Marshal` wrote,
the decoder calls a user `Unmarshal` only on a zero receiver and only with the encoding of a leaf (stated with an OBSERVER type in
place of the user's: a property of the decoder alone, no user code in it; decidable by running the model, as the example does,
and as the driver op `proto.msgroundtrip` does on EVERY generated message with user types — a failure would show as drift).
NOT PROVED (full statement): `unmarshal_marshal_opaque` = the same WITHOUT the hypothesis `hinv`, i.e.
  `∀ fs u, [the other hypotheses] → PresentsLeavesOnce ops (.struct fs) u`
— it needs the structural round-trip proof (ProtoRoundTrip / ProtoMapRoundTrip and the three translation layers above it) redone for
the decoder with the observer: the translation `ob` (user type ↦ `[]byte`) removes the very codec the observer sits on, so the
payload-level theorems cannot see overwritten leaves. -/

open Lemmas.ProtoMsgDecode in
/-- layer 1: the leaf round trip, literal, for arbitrary user methods. `hm`, `hs`: the contract of `Marshal`; `hrt`: the user's
round-trip contract on the receiver the decoder presents (`cur`; `.nil` = the zero value behind a nil pointer) -/
theorem unmarshal_marshal_opaque_leaf (ops : UserOps) (u cur : Val) (p : Bytes) (fuel d : Nat) (fl : Flags)
    (hm : ops.marshal u = .ok p) (hs : p.length = ops.size u) (hl : p.length < 2 ^ 64)
    (hrt : ops.unmarshal cur p = .ok u) (hrt0 : ops.unmarshal .nil p = .ok u) (hf : fl.toplevel = false) :
    -- top level: the user's bytes, handed back whole
    (encodeToUsr ops .message u { toplevel := true, inline := true } p.length = .ok p
      ∧ decodeUsr ops (fuel + 1) d .message p cur { toplevel := true } = .ok (u, p.length))
    -- field / element / map value: one length prefix
    ∧ (encodeToUsr ops .message u fl (sizeOfVarlen p.length) = .ok (encodeVarint (BitVec.ofNat 64 p.length) ++ p)
      ∧ decodeUsr ops (fuel + 1) d .message (encodeVarint (BitVec.ofNat 64 p.length) ++ p) cur fl
          = .ok (u, sizeOfVarlen p.length))
    -- behind a nil pointer: the decoder allocates the zero value and calls `Unmarshal` on it
    ∧ decodeUsr ops (fuel + 2) d (.ptr .message) (encodeVarint (BitVec.ofNat 64 p.length) ++ p) .nil fl
        = .ok (.ptr u, sizeOfVarlen p.length) :=
  ⟨⟨encodeToUsr_message_top ops u p true false false hm hs, decodeUsr_message_top ops u cur p fuel d _ rfl hrt⟩,
   ⟨encodeToUsr_message_field ops u p fl hf hm hs, decodeUsr_message_field ops u cur p fuel d fl hf hl hrt⟩,
   decodeUsr_ptr_message_field ops u p fuel d fl hf hl hrt0⟩

open Lemmas.ProtoMsgDecode in
/-- … and the error path of the decoder: a user `Unmarshal` that rejects the payload fails the call with its error -/
theorem unmarshal_user_error_at_leaf (ops : UserOps) (cur : Val) (q : Bytes) (e : String) (fuel d : Nat) (fl : Flags)
    (hf : fl.toplevel = false) (hl : q.length < 2 ^ 64) (he : ops.unmarshal cur q = .err e) :
    decodeUsr ops (fuel + 1) d .message (encodeVarint (BitVec.ofNat 64 q.length) ++ q) cur fl = .err e :=
  decodeUsr_message_field_err ops cur q e fuel d fl hf hl he

open Lemmas.ProtoOpaque in
/-- layer 2: round trip at the payload level on `tyOK4` (user types of any kind as fields, elements, pointer elements) -/
theorem unmarshal_marshal_partial_opaque (fs : Fields) (v : Val)
    (hty : tyOK4 (.struct fs) = true) (hp : ptrsOK4 (.struct fs) v = true) (hv : hasType4 (.struct fs) v = true)
    (hne : noEmptyPtr4 (.struct fs) v = true) (hlen : (marshal (.struct fs) v).length < 2 ^ 64)
    (hdep : Codec.nesting (codecOf (.struct fs)) ≤ Gen.c_proto_maxDepth) :
    ∃ v', unmarshal (.struct fs) (marshal (.struct fs) v) = .ok v'
      ∧ Spec.Protobuf.canonical (ob (.struct fs)) v' = Spec.Protobuf.canonical (ob (.struct fs)) (ov (.struct fs) v) :=
  Lemmas.ProtoOpaque.unmarshal_marshal_partial_opaque_ob fs v hty hp hv hne hlen hdep

open Lemmas.ProtoOpaque in
/-- … and with map fields (`map[K]T`) -/
theorem unmarshal_marshal_map_partial_opaque (fs : Fields) (v : Val)
    (hty : tyOKM4 (.struct fs) = true) (hp : ptrsOK4 (.struct fs) v = true) (hv : hasTypeM4 (.struct fs) v = true)
    (hne : valOKM4 (.struct fs) v = true) (hlen : (marshal (.struct fs) v).length < 2 ^ 64)
    (hdep : Codec.nesting (codecOf (.struct fs)) ≤ Gen.c_proto_maxDepth) :
    ∃ v', unmarshal (.struct fs) (marshal (.struct fs) v) = .ok v'
      ∧ Spec.Protobuf.canonical (ob (.struct fs)) v' = Spec.Protobuf.canonical (ob (.struct fs)) (ov (.struct fs) v) :=
  Lemmas.ProtoOpaque.unmarshal_marshal_map_partial_opaque_ob fs v hty hp hv hne hlen hdep

open Lemmas.ProtoOpaque in
/-- … in the comparison form of the other C03 theorems (`canonical` at the type itself), for leaves of scalar / bytes kind -/
theorem unmarshal_marshal_map_partial_opaque_plain (fs : Fields) (v : Val)
    (hty : tyOKM4 (.struct fs) = true) (hpl : opaquePlain (.struct fs) = true)
    (hp : ptrsOK4 (.struct fs) v = true) (hv : hasTypeM4 (.struct fs) v = true)
    (hne : valOKM4 (.struct fs) v = true) (hlen : (marshal (.struct fs) v).length < 2 ^ 64)
    (hdep : Codec.nesting (codecOf (.struct fs)) ≤ Gen.c_proto_maxDepth) :
    ∃ v', unmarshal (.struct fs) (marshal (.struct fs) v) = .ok v'
      ∧ Spec.Protobuf.canonical (.struct fs) v' = Spec.Protobuf.canonical (.struct fs) v :=
  Lemmas.ProtoOpaque.unmarshal_marshal_map_partial_opaque fs v hty hpl hp hv hne hlen hdep

open Lemmas.ProtoMsgDecode in
/-- layer 3: the decoder with user types that overwrite and accept everything IS the payload-level decoder followed by the
user's `Unmarshal` at every surviving leaf (`concV`); in particular the model with RawMessage's methods is `Model.Proto` -/
theorem unmarshal_opaque_lenient {ops : UserOps} (L : Lenient ops) (t : Ty) (b : Bytes)
    (hk : keysPlain (codecOf t) = true) :
    unmarshalUsr ops t b = (unmarshal t b).bind fun w => .ok (concV ops (codecOf t) w) :=
  Lemmas.ProtoMsgDecode.unmarshalUsr_lenient L t b hk

theorem unmarshal_opaque_rawOps (t : Ty) (b : Bytes) : unmarshalUsr rawOps t b = unmarshal t b :=
  Lemmas.ProtoMsgDecode.unmarshalUsr_rawOps t b

open Lemmas.ProtoMsgDecode in
/-- … and for ARBITRARY user methods (failing, merging): whatever `Unmarshal` accepts with them, the payload-level decoder
accepts, with a value of the same message / pointer skeleton (`Sim`) -/
theorem unmarshal_opaque_sound (ops : UserOps) (t : Ty) (b : Bytes) (u : Val) (hwf : mapsWF (codecOf t) = true)
    (h : unmarshalUsr ops t b = .ok u) : ∃ w, unmarshal t b = .ok w ∧ Sim (codecOf t) u w = true :=
  Lemmas.ProtoMsgDecode.unmarshalUsr_sound ops t b u hwf h

open Lemmas.ProtoMsg Lemmas.ProtoOpaque Lemmas.ProtoMsgDecode in
/-- **layers 1–3 composed (round trip with user types, the part that is proved).** Under the `Marshal` contract, for lenient
user types, on `tyOKM4`: `Marshal` succeeds with bytes `b`; `Unmarshal b` succeeds and returns `concV ops _ w'` — a payload-level
value `w'` canonically equal to the payloads of the original, with the user's `Unmarshal` applied to every leaf (which, by the
user's round-trip contract, restores the leaf: layer 1). -/
theorem unmarshal_marshal_opaque_partial (ops : UserOps) (L : Lenient ops) (fs : Fields) (u : Val)
    (hc : LeavesOK ops (codecOf (.struct fs)) u) (hk : keysPlain (codecOf (.struct fs)) = true)
    (hty : tyOKM4 (.struct fs) = true)
    (hp : ptrsOK4 (.struct fs) (absV ops (codecOf (.struct fs)) u) = true)
    (hv : hasTypeM4 (.struct fs) (absV ops (codecOf (.struct fs)) u) = true)
    (hne : valOKM4 (.struct fs) (absV ops (codecOf (.struct fs)) u) = true)
    (hlen : (marshal (.struct fs) (absV ops (codecOf (.struct fs)) u)).length < 2 ^ 64)
    (hdep : Codec.nesting (codecOf (.struct fs)) ≤ Gen.c_proto_maxDepth) :
    ∃ b w', marshalUsr ops (.struct fs) u = .ok b
      ∧ unmarshalUsr ops (.struct fs) b = .ok (concV ops (codecOf (.struct fs)) w')
      ∧ Spec.Protobuf.canonical (ob (.struct fs)) w'
          = Spec.Protobuf.canonical (ob (.struct fs)) (ov (.struct fs) (absV ops (codecOf (.struct fs)) u)) :=
  Lemmas.ProtoMsg.unmarshal_marshal_usr_partial ops L fs u hc hk hty hp hv hne hlen hdep

open Lemmas.ProtoMsg Lemmas.ProtoOpaque Lemmas.ProtoMsgDecode in
/-- non-vacuity: `struct{ A int32; R RawMessage; S string; L []RawMessage; LP []*RawMessage; M map[string]RawMessage; Z ZRec;
LZ []ZRec; N Nested{X; Q ZRec}; MZ map[int32]ZRec }` (`ZRec` a struct-KIND user type) with nil and empty leaves in every position
(`ProtoOpaque.exOVals`), the user methods those of RawMessage; and `Lenient` holds for RawMessage and for the zoo -/
example : LeavesOK rawOps (codecOf (.struct exOFields)) (.struct exOVals)
    ∧ keysPlain (codecOf (.struct exOFields)) = true
    ∧ tyOKM4 (.struct exOFields) = true
    ∧ ptrsOK4 (.struct exOFields) (absV rawOps (codecOf (.struct exOFields)) (.struct exOVals)) = true
    ∧ hasTypeM4 (.struct exOFields) (absV rawOps (codecOf (.struct exOFields)) (.struct exOVals)) = true
    ∧ valOKM4 (.struct exOFields) (absV rawOps (codecOf (.struct exOFields)) (.struct exOVals)) = true
    ∧ (marshal (.struct exOFields) (absV rawOps (codecOf (.struct exOFields)) (.struct exOVals))).length < 2 ^ 64
    ∧ Codec.nesting (codecOf (.struct exOFields)) ≤ Gen.c_proto_maxDepth := exOU_hyps

example : Lemmas.ProtoMsgDecode.Lenient rawOps ∧ Lemmas.ProtoMsgDecode.Lenient zooOps :=
  ⟨⟨fun _ _ => rfl, fun _ => ⟨_, rfl⟩⟩, ⟨fun _ _ => rfl, fun _ => ⟨_, rfl⟩⟩⟩

/-! ### layers 2 and 1–3 compared at the type itself: `Spec.Protobuf.canonTy` now has a catch-all case for the opaque leaf
(`| .named "RawMessage" _, v => v`), so `canonical t` compares a user value as the byte string it is whatever its underlying type;
the hypothesis `opaquePlain` of `unmarshal_marshal_map_partial_opaque_plain` is no longer needed -/

open Lemmas.ProtoOpaque in
theorem unmarshal_marshal_partial_opaque_canon (fs : Fields) (v : Val)
    (hty : tyOK4 (.struct fs) = true) (hp : ptrsOK4 (.struct fs) v = true) (hv : hasType4 (.struct fs) v = true)
    (hne : noEmptyPtr4 (.struct fs) v = true) (hlen : (marshal (.struct fs) v).length < 2 ^ 64)
    (hdep : Codec.nesting (codecOf (.struct fs)) ≤ Gen.c_proto_maxDepth) :
    ∃ v', unmarshal (.struct fs) (marshal (.struct fs) v) = .ok v'
      ∧ Spec.Protobuf.canonical (.struct fs) v' = Spec.Protobuf.canonical (.struct fs) v :=
  Lemmas.ProtoOpaque.unmarshal_marshal_partial_opaque_canon fs v hty hp hv hne hlen hdep

open Lemmas.ProtoOpaque in
theorem unmarshal_marshal_map_partial_opaque_canon (fs : Fields) (v : Val)
    (hty : tyOKM4 (.struct fs) = true) (hp : ptrsOK4 (.struct fs) v = true) (hv : hasTypeM4 (.struct fs) v = true)
    (hne : valOKM4 (.struct fs) v = true) (hlen : (marshal (.struct fs) v).length < 2 ^ 64)
    (hdep : Codec.nesting (codecOf (.struct fs)) ≤ Gen.c_proto_maxDepth) :
    ∃ v', unmarshal (.struct fs) (marshal (.struct fs) v) = .ok v'
      ∧ Spec.Protobuf.canonical (.struct fs) v' = Spec.Protobuf.canonical (.struct fs) v :=
  Lemmas.ProtoOpaque.unmarshal_marshal_map_partial_opaque_canon fs v hty hp hv hne hlen hdep

open Lemmas.ProtoMsg Lemmas.ProtoOpaque Lemmas.ProtoMsgDecode in
theorem unmarshal_marshal_opaque_partial_canon (ops : UserOps) (L : Lenient ops) (fs : Fields) (u : Val)
    (hc : LeavesOK ops (codecOf (.struct fs)) u) (hk : keysPlain (codecOf (.struct fs)) = true)
    (hty : tyOKM4 (.struct fs) = true)
    (hp : ptrsOK4 (.struct fs) (absV ops (codecOf (.struct fs)) u) = true)
    (hv : hasTypeM4 (.struct fs) (absV ops (codecOf (.struct fs)) u) = true)
    (hne : valOKM4 (.struct fs) (absV ops (codecOf (.struct fs)) u) = true)
    (hlen : (marshal (.struct fs) (absV ops (codecOf (.struct fs)) u)).length < 2 ^ 64)
    (hdep : Codec.nesting (codecOf (.struct fs)) ≤ Gen.c_proto_maxDepth) :
    ∃ b w', marshalUsr ops (.struct fs) u = .ok b
      ∧ unmarshalUsr ops (.struct fs) b = .ok (concV ops (codecOf (.struct fs)) w')
      ∧ Spec.Protobuf.canonical (.struct fs) w' = Spec.Protobuf.canonical (.struct fs) (absV ops (codecOf (.struct fs)) u) :=
  Lemmas.ProtoMsg.unmarshal_marshal_usr_partial_canon ops L fs u hc hk hty hp hv hne hlen hdep

/-- non-vacuity of the three: the hypotheses are those of the `_opaque` theorems above (`exO_hyps`, `exOU_hyps`); the type has a
user type of STRUCT kind (`ZRec`), outside `opaquePlain` -/
example : Lemmas.ProtoOpaque.opaquePlain (.struct Lemmas.ProtoOpaque.exOFields) = false := by decide

/-! ### layer 4: user methods whose `Unmarshal` can fail -/

open Lemmas.ProtoMsgDecode in
/-- the decoder against an OBSERVER of its calls (`guardOps G`: a user type that accepts a byte string only on a zero receiver and
only when `G` holds of it, and stores it): whatever `Unmarshal` accepts with the observer in place of the user types, it accepts
with ANY user methods that accept the byte strings of `G` on a zero receiver — the result is the observer's, with the user's
`Unmarshal` applied at every leaf. Nothing is assumed about the user's behaviour on other inputs or other receivers. -/
theorem unmarshal_opaque_observed (ops : UserOps) (G : Bytes → Bool)
    (hG : ∀ q, G q = true → ∃ u, ops.unmarshal .nil q = .ok u) (t : Ty) (b : Bytes)
    (hk : keysPlain (codecOf t) = true) (w : Val) (h : unmarshalUsr (guardOps G) t b = .ok w) :
    unmarshalUsr ops t b = .ok (concV ops (codecOf t) w) :=
  Lemmas.ProtoMsgDecode.unmarshalUsr_guard hG t b hk w h

open Lemmas.ProtoMsg Lemmas.ProtoMsgDecode in
/-- the user's `Unmarshal` at every leaf of the payload-level value of `u` restores `u` literally (contract: `RoundTrips`) -/
theorem opaque_leaves_restored (ops : UserOps) (c : Codec) (u : Val) (hw : EntWF c) (h : RoundTrips ops c u) :
    concV ops c (absV ops c u) = u :=
  Lemmas.ProtoMsg.concV_absV ops c u hw h

open Lemmas.ProtoMsg Lemmas.ProtoOpaque Lemmas.ProtoMsgDecode in
/-- **the whole-message round trip for user methods that can fail** (ARBITRARY `ops`; `hc`: `Marshal` fills `Size()` bytes;
`hrt`: `Unmarshal(Marshal(s)) = .ok s` on a zero receiver for the leaves `s` of `u`; `hinv`: the invariant, see above — the part
not yet proved in general). `Marshal` succeeds with bytes `b`; `Unmarshal b` succeeds with `concV ops _ w'`, `w'` canonically equal
(nil-versus-empty) to the payload-level value of `u`, whose `concV` is `u` itself. -/
theorem unmarshal_marshal_opaque_failing_partial (ops : UserOps) (fs : Fields) (u : Val)
    (hc : LeavesOK ops (codecOf (.struct fs)) u) (hrt : RoundTrips ops (codecOf (.struct fs)) u)
    (hinv : PresentsLeavesOnce ops (.struct fs) u)
    (hk : keysPlain (codecOf (.struct fs)) = true) (hw : EntWF (codecOf (.struct fs)))
    (hty : tyOKM4 (.struct fs) = true)
    (hp : ptrsOK4 (.struct fs) (absV ops (codecOf (.struct fs)) u) = true)
    (hv : hasTypeM4 (.struct fs) (absV ops (codecOf (.struct fs)) u) = true)
    (hne : valOKM4 (.struct fs) (absV ops (codecOf (.struct fs)) u) = true)
    (hlen : (marshal (.struct fs) (absV ops (codecOf (.struct fs)) u)).length < 2 ^ 64)
    (hdep : Codec.nesting (codecOf (.struct fs)) ≤ Gen.c_proto_maxDepth) :
    ∃ b w', marshalUsr ops (.struct fs) u = .ok b
      ∧ unmarshalUsr ops (.struct fs) b = .ok (concV ops (codecOf (.struct fs)) w')
      ∧ Spec.Protobuf.canonical (.struct fs) w' = Spec.Protobuf.canonical (.struct fs) (absV ops (codecOf (.struct fs)) u)
      ∧ concV ops (codecOf (.struct fs)) (absV ops (codecOf (.struct fs)) u) = u :=
  Lemmas.ProtoMsg.unmarshal_marshal_usr_strict ops fs u hc hrt hinv hk hw hty hp hv hne hlen hdep

open Lemmas.ProtoMsg Lemmas.ProtoOpaque Lemmas.ProtoMsgDecode in
/-- non-vacuity: `magicOps` — `Unmarshal` REJECTS payloads starting with 0xFF and APPENDS to a non-zero receiver (neither lenient nor
overwriting) — on the type of the previous example with 12 user values (field, elements, pointer elements, map values, inside a
nested message, struct-kind `ZRec`); all hypotheses hold, the invariant by running the model with the observer -/
example : magicOps.unmarshal .nil [0xFF, 1] = .err "user: bad magic" ∧ magicOps.unmarshal (.str [1]) [2] = .ok (.str [1, 2])
    ∧ LeavesOK magicOps (codecOf (.struct exOFields)) (.struct exSVals)
    ∧ RoundTrips magicOps (codecOf (.struct exOFields)) (.struct exSVals)
    ∧ PresentsLeavesOnce magicOps (.struct exOFields) (.struct exSVals)
    ∧ keysPlain (codecOf (.struct exOFields)) = true ∧ EntWF (codecOf (.struct exOFields))
    ∧ tyOKM4 (.struct exOFields) = true
    ∧ ptrsOK4 (.struct exOFields) (absV magicOps (codecOf (.struct exOFields)) (.struct exSVals)) = true
    ∧ hasTypeM4 (.struct exOFields) (absV magicOps (codecOf (.struct exOFields)) (.struct exSVals)) = true
    ∧ valOKM4 (.struct exOFields) (absV magicOps (codecOf (.struct exOFields)) (.struct exSVals)) = true
    ∧ (marshal (.struct exOFields) (absV magicOps (codecOf (.struct exOFields)) (.struct exSVals))).length < 2 ^ 64 := exS_hyps

end Enc.Props.C03
